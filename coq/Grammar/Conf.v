(* C05, conformance part (testing, not proof): Turtle, TriG, RDF/XML and JSON-LD documents
   written by the independent randomised writer of harness/c05.py, input hand-over
   (str / bytes / text file / binary file / path) and well-formedness of rdflib's XML and
   JSON output.  Nothing of these syntaxes is modelled in Coq: the case names the
   format and how many named checks the harness performed, the observation is the list
   of their outcomes, and the checker demands that every one holds.
   For the three conformance findings the harness computes, from the text of the case
   alone, the trigger number and which checks the defect makes fail ([cc_fail]); the
   "model" is that prediction, so that a finding is only excused where it fails exactly
   as described. *)
From Coq Require Import List NArith Bool.
Import ListNotations.

Record ccase := { cc_fmt : N; cc_checks : N; cc_kf : N; cc_fail : list N }.
Definition cobs := list bool.
Fixpoint memNb (x : N) (l : list N) : bool :=
  match l with [] => false | y :: r => N.eqb x y || memNb x r end.
Fixpoint conf_from (i : N) (n : nat) (fail : list N) : cobs :=
  match n with O => [] | S n' => negb (memNb i fail) :: conf_from (N.succ i) n' fail end.
Definition conf_model (c : ccase) : cobs :=
  conf_from 0%N (N.to_nat (cc_checks c)) (if N.eqb (cc_kf c) 0 then [] else cc_fail c).
Definition conf_kf (c : ccase) : N := cc_kf c.
Fixpoint bools_eqb (a b : list bool) : bool :=
  match a, b with
  | [], [] => true
  | x :: a', y :: b' => Bool.eqb x y && bools_eqb a' b'
  | _, _ => false
  end.
Definition conf_spec (c : ccase) (o : cobs) : bool :=
  N.eqb (N.of_nat (length o)) (cc_checks c) && forallb (fun b => b) o.
