(* Proofs about coq/Grammar/TurtlePname.v *)
From Coq Require Import Lia PeanoNat.
From RV Require Import Grammar.TurtlePname Grammar.Proofs Grammar.ReaderProofs.
Local Open Scope N_scope.

Lemma n3_name_sets_pinned :
  n3_notname_extra = [58] /\ n3_number_plus_chars = [43; 45; 46; 48; 49; 50; 51; 52; 53; 54; 55; 56; 57].
Proof. split; reflexivity. Qed.

(* every character of PN_CHARS, '.', ':', '%' may continue a name for qname; every PN_LOCAL_ESC letter is one of escapeChars *)
Lemma notq_values : forall c, not_qname c = true -> t_pn_chars c = false /\ (c =? 46) = false /\ (c =? 58) = false /\ (c =? 37) = false.
Proof.
  intros c H. unfold not_qname in H. apply memN_In in H. unfold n3_notqname_chars in H. simpl in H.
  repeat (destruct H as [H|H]; [subst c; vm_compute; repeat split; reflexivity|]). contradiction.
Qed.
Lemma pnchar_not_notq : forall c, t_pn_chars c = true -> not_qname c = false.
Proof. intros c H. destruct (not_qname c) eqn:E; [|reflexivity]. destruct (notq_values c E) as [A _]. congruence. Qed.
Lemma esc_subset : forall e, pn_local_esc e = true -> escape_char e = true.
Proof.
  intros e H. unfold pn_local_esc in H. apply memN_In in H. simpl in H.
  repeat (destruct H as [H|H]; [subst e; vm_compute; reflexivity|]). contradiction.
Qed.
Lemma pnchar_not_bsl : forall c, t_pn_chars c = true -> (c =? BSL) = false /\ (c =? 37) = false.
Proof.
  intros c H. split.
  - destruct (c =? BSL) eqn:E; [|reflexivity]. apply N.eqb_eq in E. subst c. discriminate.
  - destruct (c =? 37) eqn:E; [|reflexivity]. apply N.eqb_eq in E. subst c. discriminate.
Qed.

Definition rest_ok (rest : str) : Prop := match rest with [] => True | c :: _ => stop_char c = true end.

(* the two scanners of the local part take the same characters, when what follows cannot continue a name *)
Lemma local_scan : forall n l f its rest, (length l <= n)%nat ->
  t_items f l = (its, rest) -> (f = true -> starts_with 46 l = false) -> rest_ok rest ->
  qloc l = Some (map fst its, rest).
Proof.
  induction n as [|n IH]; intros l f its rest Hn H Hf Hr.
  - destruct l; [|simpl in Hn; lia]. simpl in H. inversion H; subst. reflexivity.
  - destruct l as [|c r]; [simpl in H; inversion H; subst; reflexivity|].
    cbn [t_items] in H. cbn [qloc]. simpl in Hn.
    assert (Stop : forall l0, ([], l0) = (its, rest) -> l0 = c :: r -> stop_char c = true).
    { intros l0 E El. inversion E; subst. exact Hr. }
    destruct (c =? BSL) eqn:Eb.
    { apply N.eqb_eq in Eb. subst c. destruct r as [|e r']; [specialize (Stop _ H eq_refl); discriminate|].
      destruct (pn_local_esc e) eqn:Ee; [|specialize (Stop _ H eq_refl); discriminate].
      destruct (t_items false r') as [its' rest'] eqn:Et. inversion H; subst.
      rewrite (esc_subset e Ee). rewrite (IH r' false its' rest); [reflexivity|simpl in Hn; lia|exact Et|discriminate|exact Hr]. }
    destruct (c =? 37) eqn:E37.
    { apply N.eqb_eq in E37. subst c.
      assert (Hnq : not_qname 37 = false) by reflexivity. rewrite Hnq.
      destruct r as [|h1 [|h2 r2]]; try (specialize (Stop _ H eq_refl); discriminate).
      destruct (is_hex h1 && is_hex h2) eqn:Eh; [|specialize (Stop _ H eq_refl); discriminate].
      destruct (t_items false (h1 :: h2 :: r2)) as [its' rest'] eqn:Et. inversion H; subst.
      rewrite (IH (h1 :: h2 :: r2) false its' rest); [reflexivity|lia|exact Et|discriminate|exact Hr]. }
    destruct ((c =? 46) && negb f) eqn:Ed.
    { apply andb_true_iff in Ed. destruct Ed as [Ed _]. apply N.eqb_eq in Ed. subst c.
      change (not_qname 46) with false. cbv iota.
      destruct (t_items false r) as [its' rest'] eqn:Et. inversion H; subst.
      rewrite (IH r false its' rest); [reflexivity|lia|exact Et|discriminate|exact Hr]. }
    destruct ((if f then t_pn_chars_u c || is_digit c else t_pn_chars c) || (c =? 58)) eqn:Ec.
    { assert (Hnq : not_qname c = false).
      { apply orb_true_iff in Ec. destruct Ec as [Ec|Ec].
        - apply pnchar_not_notq. destruct f; [|exact Ec]. unfold t_pn_chars. apply orb_true_iff in Ec.
          destruct Ec as [Ec|Ec]; rewrite Ec; rewrite ?orb_true_r; reflexivity.
        - apply N.eqb_eq in Ec. subst c. reflexivity. }
      rewrite Hnq. destruct (t_items false r) as [its' rest'] eqn:Et. inversion H; subst.
      rewrite (IH r false its' rest); [reflexivity|lia|exact Et|discriminate|exact Hr]. }
    (* the grammar stops here: so must qname *)
    pose proof (Stop _ H eq_refl) as Hs. unfold stop_char in Hs. apply andb_true_iff in Hs. destruct Hs as [Hs _].
    rewrite Hs. inversion H; subst. reflexivity.
Qed.

Lemma strip_id : forall its, snd (last its (0, false)) = false -> strip_raw_dots its = (its, []).
Proof.
  induction its as [|[c d] r IH]; intro H; [reflexivity|]. cbn [strip_raw_dots].
  destruct r as [|x r'].
  - cbn in H. subst d. reflexivity.
  - change (last ((c, d) :: x :: r') (0, false)) with (last (x :: r') (0, false)) in H. rewrite (IH H). reflexivity.
Qed.
Lemma last_map_fst : forall (its : list (N * bool)), last (map fst its) 0 = fst (last its (0, false)).
Proof.
  induction its as [|x r IH]; [reflexivity|]. destruct r as [|y r']; [reflexivity|].
  change (last (map fst (x :: y :: r')) 0) with (last (map fst (y :: r')) 0). rewrite IH. reflexivity.
Qed.
Lemma inr_small : forall lo hi c, c < lo -> inr lo hi c = false.
Proof. intros lo hi c H. unfold inr. destruct (lo <=? c) eqn:E; [apply N.leb_le in E; lia|reflexivity]. Qed.
Lemma base_not_number : forall c, pn_chars_base c = true -> number_plus c = false.
Proof.
  intros c H. destruct (number_plus c) eqn:E; [|reflexivity]. exfalso.
  assert (Hc : c <= 57).
  { unfold number_plus, is_digit, inr in E. repeat (apply orb_true_iff in E; destruct E as [E|E]); b2p; lia. }
  unfold pn_chars_base, is_alpha in H. rewrite !inr_small in H by lia. discriminate.
Qed.
Lemma pnchar_not_name : forall c, (t_pn_chars c || (c =? 46)) = true -> not_name c = false.
Proof.
  intros c H. unfold not_name. apply orb_false_iff. apply orb_true_iff in H. destruct H as [H|H].
  - split; [apply pnchar_not_notq; exact H|]. destruct (c =? 58) eqn:E; [|reflexivity]. apply N.eqb_eq in E. subst c. discriminate.
  - apply N.eqb_eq in H. subst c. split; reflexivity.
Qed.

(* a prefixed name whose local part does not end in a dot (raw or escaped), followed by something that cannot continue a name *)
Theorem pname_read : forall l run r0 its rest,
  span (fun c => t_pn_chars c || (c =? 46)) l = (run, r0) ->
  match run with [] => True | c :: _ => pn_chars_base c = true /\ (last run 0 =? 46) = false end ->
  starts_with 58 r0 = true -> starts_with 46 (tl r0) = false ->
  t_items true (tl r0) = (its, rest) -> rest_ok rest ->
  snd (last its (0, false)) = false -> (fst (last its (0, false)) =? 46) = false ->
  t_pname l = Some ((run, map fst its), rest) /\ n3_qname l = Some ((run, map fst its), rest).
Proof.
  intros l run r0 its rest Hsp Hrun Hc Hd Hit Hr Hl1 Hl2.
  destruct (span_spec _ _ _ _ Hsp) as [S1 [S2 S3]].
  split.
  - unfold t_pname. rewrite Hsp, Hc. unfold t_local. rewrite Hit, (strip_id its Hl1). cbn [app].
    destruct run as [|c run']; [reflexivity|]. destruct Hrun as [A B]. rewrite A, B. reflexivity.
  - assert (Hloc : qloc (tl r0) = Some (map fst its, rest)).
    { apply (local_scan (length (tl r0)) (tl r0) true its rest (le_n _) Hit (fun _ => Hd) Hr). }
    assert (Hgb : give_back_dot (map fst its, rest) = (map fst its, rest)).
    { unfold give_back_dot. destruct (map fst its) eqn:E; [reflexivity|]. rewrite <- E, last_map_fst, Hl2. reflexivity. }
    unfold n3_qname. destruct l as [|c l']; [subst; destruct run; [destruct r0; discriminate|discriminate]|].
    destruct run as [|c0 run'].
    + (* no prefix: the name starts with ':' *)
      cbn [app] in S1. subst r0. cbn [starts_with] in Hc. apply N.eqb_eq in Hc. subst c.
      change (number_plus 58) with false. change (not_name 58) with true. cbv iota.
      cbn [starts_with]. change (58 =? 58) with true. cbv iota. cbn [tl] in *. rewrite Hloc.
      destruct (last_esc l' false); [reflexivity|rewrite Hgb; reflexivity].
    + destruct Hrun as [A B]. cbn [app] in S1. inversion S1. subst c0.
      rewrite (base_not_number c A).
      assert (Hn : not_name c = false).
      { apply pnchar_not_name. cbn [forallb] in S2. apply andb_true_iff in S2. tauto. }
      rewrite Hn.
      assert (Hspan : span (fun x => negb (not_name x)) ((c :: run') ++ r0) = (c :: run', r0)).
      { apply span_app2'.
        - apply forallb_forall. intros x Hx. rewrite forallb_forall in S2. rewrite (pnchar_not_name x (S2 x Hx)). reflexivity.
        - destruct r0 as [|y r0']; [exact I|]. cbn [starts_with] in Hc. apply N.eqb_eq in Hc. subst y. reflexivity. }
      cbn [app] in Hspan. subst l'. rewrite Hspan. unfold give_back_dot at 1. rewrite B. rewrite Hc, Hloc.
      destruct (last_esc (tl r0) false); [reflexivity|rewrite Hgb; reflexivity].
Qed.

(* the repaired rule (981b2a74): when the grammar's local part ends in an ESCAPED dot, qname sees that it was escaped *)
Lemma last_esc_stop : forall rest cur, rest_ok rest -> last_esc rest cur = cur.
Proof.
  intros [|c r] cur H; [reflexivity|]. simpl in H. unfold stop_char in H. apply andb_true_iff in H. destruct H as [H1 H2].
  apply negb_true_iff in H2. cbn [last_esc]. rewrite H2, H1. reflexivity.
Qed.

Lemma esc_dot_seen : forall n l f its rest, (length l <= n)%nat ->
  t_items f l = (its, rest) -> (f = true -> starts_with 46 l = false) -> rest_ok rest ->
  its <> [] -> last its (0, false) = (46, false) -> forall cur, last_esc l cur = true.
Proof.
  induction n as [|n IH]; intros l f its rest Hn H Hf Hr Hne Hl cur.
  - destruct l; [|simpl in Hn; lia]. simpl in H. inversion H; subst. contradiction.
  - destruct l as [|c r]; [simpl in H; inversion H; subst; contradiction|].
    cbn [t_items] in H. cbn [last_esc]. simpl in Hn.
    assert (Step : forall r1 x its', t_items false r1 = (its', rest) -> (length r1 <= n)%nat -> its = x :: its' ->
              (its' = [] -> x = (46, false) -> forall b, last_esc r1 b = b) -> forall b, (x = (46, false) -> b = true) -> last_esc r1 b = true).
    { intros r1 x its' Et Hlen Eits Hbase b Hb. destruct its' as [|y its''].
      - subst its. cbn in Hl. rewrite (Hbase eq_refl Hl). apply Hb. exact Hl.
      - apply (IH r1 false (y :: its'') rest Hlen Et); [discriminate|exact Hr|discriminate|].
        subst its. exact Hl. }
    assert (Base : forall r1 its', t_items false r1 = (its', rest) -> its' = [] -> forall b, last_esc r1 b = b).
    { intros r1 its' Et E b. subst its'. assert (r1 = rest).
      { destruct r1 as [|z r1']; [simpl in Et; inversion Et; reflexivity|].
        cbn [t_items] in Et.
        repeat match type of Et with
               | context [if ?b then _ else _] => destruct b
               | context [match ?x with _ => _ end] => destruct x
               end; inversion Et; reflexivity. }
      subst r1. apply last_esc_stop. exact Hr. }
    destruct (c =? BSL) eqn:Eb.
    { destruct r as [|e r']; [inversion H; subst; contradiction|].
      destruct (pn_local_esc e) eqn:Ee; [|inversion H; subst; contradiction].
      destruct (t_items false r') as [its' rest'] eqn:Et. inversion H; subst its rest'.
      rewrite (esc_subset e Ee). apply (Step r' (e, false) its' Et); [simpl in Hn; lia|reflexivity|intros E _; apply (Base r' its' Et E)|reflexivity]. }
    destruct (c =? 37) eqn:E37.
    { apply N.eqb_eq in E37. subst c. change (not_qname 37) with false. cbv iota.
      destruct r as [|h1 [|h2 r2]]; try (inversion H; subst; contradiction).
      destruct (is_hex h1 && is_hex h2) eqn:Eh; [|inversion H; subst; contradiction].
      destruct (t_items false (h1 :: h2 :: r2)) as [its' rest'] eqn:Et. inversion H; subst its rest'.
      apply (Step _ (37, false) its' Et); [lia|reflexivity|intros E _; apply (Base _ its' Et E)|discriminate]. }
    destruct ((c =? 46) && negb f) eqn:Ed.
    { apply andb_true_iff in Ed. destruct Ed as [Ed _]. apply N.eqb_eq in Ed. subst c. change (not_qname 46) with false. cbv iota.
      destruct (t_items false r) as [its' rest'] eqn:Et. inversion H; subst its rest'.
      apply (Step _ (46, true) its' Et); [lia|reflexivity|intros E _; apply (Base _ its' Et E)|discriminate]. }
    destruct ((if f then t_pn_chars_u c || is_digit c else t_pn_chars c) || (c =? 58)) eqn:Ec; [|inversion H; subst; contradiction].
    assert (Hnq : not_qname c = false).
    { apply orb_true_iff in Ec. destruct Ec as [Ec|Ec].
      - apply pnchar_not_notq. destruct f; [|exact Ec]. unfold t_pn_chars. apply orb_true_iff in Ec.
        destruct Ec as [Ec|Ec]; rewrite Ec; rewrite ?orb_true_r; reflexivity.
      - apply N.eqb_eq in Ec. subst c. reflexivity. }
    rewrite Hnq. destruct (t_items false r) as [its' rest'] eqn:Et. inversion H; subst its rest'.
    assert (Hc46 : (c =? 46) = false).
    { destruct (c =? 46) eqn:E46; [|reflexivity]. apply N.eqb_eq in E46. subst c. destruct f; discriminate. }
    apply (Step _ (c, false) its' Et); [lia|reflexivity|intros E _; apply (Base _ its' Et E)|].
    intro Ex. inversion Ex. subst c. discriminate.
Qed.

Theorem pname_read_escaped_dot : forall l run r0 its rest,
  span (fun c => t_pn_chars c || (c =? 46)) l = (run, r0) ->
  match run with [] => True | c :: _ => pn_chars_base c = true /\ (last run 0 =? 46) = false end ->
  starts_with 58 r0 = true -> starts_with 46 (tl r0) = false ->
  t_items true (tl r0) = (its, rest) -> rest_ok rest ->
  its <> [] -> last its (0, false) = (46, false) ->
  t_pname l = Some ((run, map fst its), rest) /\ n3_qname l = Some ((run, map fst its), rest).
Proof.
  intros l run r0 its rest Hsp Hrun Hc Hd Hit Hr Hne Hl.
  assert (Hl1 : snd (last its (0, false)) = false) by (rewrite Hl; reflexivity).
  assert (Hesc : last_esc (tl r0) false = true) by (apply (esc_dot_seen (length (tl r0)) (tl r0) true its rest (le_n _) Hit (fun _ => Hd) Hr Hne Hl)).
  destruct (span_spec _ _ _ _ Hsp) as [S1 [S2 S3]].
  split.
  - unfold t_pname. rewrite Hsp, Hc. unfold t_local. rewrite Hit, (strip_id its Hl1). cbn [app].
    destruct run as [|c run']; [reflexivity|]. destruct Hrun as [A B]. rewrite A, B. reflexivity.
  - assert (Hloc : qloc (tl r0) = Some (map fst its, rest)).
    { apply (local_scan (length (tl r0)) (tl r0) true its rest (le_n _) Hit (fun _ => Hd) Hr). }
    unfold n3_qname. destruct l as [|c l']; [subst; destruct run; [destruct r0; discriminate|discriminate]|].
    destruct run as [|c0 run'].
    + (* no prefix: the name starts with ':' *)
      cbn [app] in S1. subst r0. cbn [starts_with] in Hc. apply N.eqb_eq in Hc. subst c.
      change (number_plus 58) with false. change (not_name 58) with true. cbv iota.
      cbn [starts_with]. change (58 =? 58) with true. cbv iota. cbn [tl] in *. rewrite Hloc.
      rewrite Hesc. reflexivity.
    + destruct Hrun as [A B]. cbn [app] in S1. inversion S1. subst c0.
      rewrite (base_not_number c A).
      assert (Hn : not_name c = false).
      { apply pnchar_not_name. cbn [forallb] in S2. apply andb_true_iff in S2. tauto. }
      rewrite Hn.
      assert (Hspan : span (fun x => negb (not_name x)) ((c :: run') ++ r0) = (c :: run', r0)).
      { apply span_app2'.
        - apply forallb_forall. intros x Hx. rewrite forallb_forall in S2. rewrite (pnchar_not_name x (S2 x Hx)). reflexivity.
        - destruct r0 as [|y r0']; [exact I|]. cbn [starts_with] in Hc. apply N.eqb_eq in Hc. subst y. reflexivity. }
      cbn [app] in Hspan. subst l'. rewrite Hspan. unfold give_back_dot at 1. rewrite B. rewrite Hc, Hloc.
      rewrite Hesc. reflexivity.
Qed.

