(* C05, Turtle term level: prefixed names.
   Part M  MODEL of SinkParser.qname (prefix run, ':' , the local-name loop with backslash escapes, the '%' check and the
           single trailing-dot rule) and of the prefix lookup of uri_ref2 (ns + ln).  Input: the text at the first character of
           the name (skipSpace done).  None = -1 / BadSyntax / IndexError / unbound prefix.
   Part S  SPECIFICATION: Turtle 1.1 [139s] PNAME_NS, [140s] PNAME_LN, [167s] PN_PREFIX, [168s] PN_LOCAL, [169s] PLX,
           [170s] PERCENT, [172s] PN_LOCAL_ESC; denotation: namespace of the prefix ++ local part with the backslashes of
           PN_LOCAL_ESC removed and %HH kept as written (Turtle 6.3).
   No proofs in this file. *)
From RV Require Export Grammar.Model Grammar.TurtleIri.
Local Open Scope N_scope.

(* ============================================================ Part M *)
(* _notQNameChars = set("\t\r\n !" + DQUOTE + "#$&'()*,+/;<=>?@[\\]^`{|}~") ; _notNameChars adds ':' (reflected: n3_notqname_chars) *)
Definition not_qname (c : N) : bool := memN c n3_notqname_chars.
Definition not_name (c : N) : bool := not_qname c || (c =? 58).
Definition number_plus (c : N) : bool := is_digit c || (c =? 45) || (c =? 43) || (c =? 46).     (* numberCharsPlus *)
Definition escape_char (c : N) : bool := memN c n3_escape_chars.                                   (* escapeChars *)

(* the local-name loop: (characters taken, backslashes removed ; rest) *)
Fixpoint qloc (l : str) : option (str * str) :=
  match l with
  | [] => Some ([], [])
  | c :: r =>
    if c =? BSL then
      match r with
      | [] => None                                   (* qname cannot end with backslash *)
      | e :: r' => if escape_char e then consv e (qloc r') else None      (* illegal escape *)
      end
    else if not_qname c then Some ([], l)
    else if c =? 37 then
      match r with
      | h1 :: h2 :: _ => if is_hex h1 && is_hex h2 then consv c (qloc r) else None   (* illegal hex escape *)
      | _ => None                                    (* IndexError *)
      end
    else consv c (qloc r)
  end.

(* was the last character the loop took written after a backslash?  (981b2a74: argstr[i - 2 : i - 1] != backslash; a raw
   backslash is only ever taken as the start of an escape) *)
Fixpoint last_esc (l : str) (cur : bool) : bool :=
  match l with
  | [] => cur
  | c :: r =>
    if c =? BSL then
      match r with
      | [] => cur
      | e :: r' => if escape_char e then last_esc r' true else cur
      end
    else if not_qname c then cur
    else if c =? 37 then
      match r with
      | h1 :: h2 :: _ => if is_hex h1 && is_hex h2 then last_esc r false else cur
      | _ => cur
      end
    else last_esc r false
  end.

(* argstr[i - 1] == "." after the loop: ONE trailing dot is given back; for the local part only if it was not escaped
   (since 981b2a74; before, also an escaped dot was given back: finding C05r) *)
Definition give_back_dot (x : str * str) : str * str :=
  let '(cs, rest) := x in
  match cs with
  | [] => x
  | _ => if last cs 0 =? 46 then (removelast cs, 46 :: rest) else x
  end.

Definition n3_qname (l : str) : option ((str * str) * str) :=
  match l with
  | [] => None
  | c :: _ =>
    if number_plus c then None
    else
      let '(pfx, r0) :=
        if not_name c then ([], l)
        else give_back_dot (span (fun x => negb (not_name x)) l) in
      if starts_with 58 r0 then
        match qloc (tl r0) with
        | Some x => let '(ln, rest) := if last_esc (tl r0) false then x else give_back_dot x in Some ((pfx, ln), rest)
        | None => None
        end
      else None
  end.

Fixpoint lookup (p : str) (b : list (str * str)) : option str :=
  match b with [] => None | (k, v) :: r => if str_eqb p k then Some v else lookup p r end.
(* uri_ref2: ns = self._bindings[pfx]; symbol ns + ln (an unbound prefix is BadSyntax; the "_" prefix of blank nodes is not modelled) *)
Definition n3_pname (b : list (str * str)) (l : str) : option (str * str) :=
  match n3_qname l with
  | Some ((pfx, ln), rest) => match lookup pfx b with Some ns => Some (ns ++ ln, rest) | None => None end
  | None => None
  end.

(* ============================================================ Part S *)
Definition t_pn_chars_u (c : N) : bool := pn_chars_base c || (c =? 95).                       (* [163s], no ':' in Turtle *)
Definition t_pn_chars (c : N) : bool :=
  t_pn_chars_u c || (c =? 45) || is_digit c || (c =? 183) || inr 768 879 c || inr 8255 8256 c.  (* [166s] *)
(* [172s] PN_LOCAL_ESC ::= '\' ('_' | '~' | '.' | '-' | '!' | '$' | '&' | QUOTE | '(' | ')' | '*' | '+' | ',' | ';' | '=' | '/' | '?' | '#' | '@' | '%') *)
Definition pn_local_esc (c : N) : bool := memN c [95; 126; 46; 45; 33; 36; 38; 39; 40; 41; 42; 43; 44; 59; 61; 47; 63; 35; 64; 37].

(* items of a local part: (character of the denotation, is it a raw dot) *)
Fixpoint t_items (first : bool) (l : str) : list (N * bool) * str :=
  match l with
  | [] => ([], [])
  | c :: r =>
    if c =? BSL then
      match r with
      | e :: r' => if pn_local_esc e then let '(its, rest) := t_items false r' in ((e, false) :: its, rest) else ([], l)
      | [] => ([], l)
      end
    else if c =? 37 then
      match r with
      | h1 :: h2 :: _ => if is_hex h1 && is_hex h2 then let '(its, rest) := t_items false r in ((c, false) :: its, rest) else ([], l)
      | _ => ([], l)
      end
    else if (c =? 46) && negb first then let '(its, rest) := t_items false r in ((c, true) :: its, rest)
    else if (if first then t_pn_chars_u c || is_digit c else t_pn_chars c) || (c =? 58)
    then let '(its, rest) := t_items false r in ((c, false) :: its, rest)
    else ([], l)
  end.
(* the local part cannot end in a raw dot: longest match gives the trailing raw dots back *)
Fixpoint strip_raw_dots (its : list (N * bool)) : list (N * bool) * str :=
  match its with
  | [] => ([], [])
  | (c, d) :: r => let '(k, back) := strip_raw_dots r in
                   match k with
                   | [] => if d then ([], c :: back) else ([(c, d)], back)
                   | _ => ((c, d) :: k, back)
                   end
  end.
Definition t_local (l : str) : str * str :=
  let '(its, rest) := t_items true l in
  let '(k, back) := strip_raw_dots its in (map fst k, back ++ rest).

(* [167s] PN_PREFIX ::= PN_CHARS_BASE ((PN_CHARS | '.')* PN_CHARS)? ; then ':' *)
Definition t_pname (l : str) : option ((str * str) * str) :=
  let '(run, r0) := span (fun c => t_pn_chars c || (c =? 46)) l in
  let prefix_ok := match run with
                   | [] => true
                   | c :: _ => pn_chars_base c && negb (last run 0 =? 46)
                   end in
  if prefix_ok && starts_with 58 r0 then
    let '(ln, rest) := t_local (tl r0) in Some ((run, ln), rest)
  else None.

(* ---- suite "tpname": case = prefix table, text ; observation = (IRI, rest) *)
Record pcase := { p_bind : list (str * str); p_text : str }.
Definition pobs := option (str * str).
Definition p_model (c : pcase) : pobs := n3_pname (p_bind c) (p_text c).

(* what may follow a prefixed name in a legal document, so that both readers stop at the same place: nothing, a character
   that cannot continue a name for either of them, or one dot followed by such a character *)
Definition stop_char (c : N) : bool := not_qname c && negb (c =? BSL).
Definition stops_name (rest : str) : bool :=
  match rest with
  | [] => true
  | c :: r => stop_char c || ((c =? 46) && match r with [] => true | d :: _ => stop_char d end)
  end.

(* (finding C05r - the local part ends in the escape backslash-dot and qname gave the ESCAPED dot back - was repaired by
   981b2a74; no trigger is left) *)
Definition p_spec_ok (c : pcase) (o : pobs) : bool :=
  match t_pname (p_text c) with
  | Some ((pfx, ln), rest) =>
      if stops_name rest then
        match lookup pfx (p_bind c) with
        | Some ns => pair_eqb o (Some (ns ++ ln, rest))
        | None => true
        end
      else true
  | None => true
  end.
