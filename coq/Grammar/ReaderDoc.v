(* C05: the document-level completeness of rdflib's N-Triples / N-Quads reader.
   readline() cuts the text at every CR and LF and parseline() reads each piece; the grammar reads the whole
   text with EOL ::= [#xD#xA]+ between statements.  Part 1: the strict parsers never look past an end of line
   (locality).  Part 2: induction over the document. *)
From Coq Require Import Lia Wf_nat PeanoNat.
From RV Require Import Grammar.Model Grammar.Proofs Grammar.Reader Grammar.ReaderProofs.
Local Open Scope N_scope.

(* what follows a line: nothing, or an end-of-line character *)
Definition stops (rest : str) : Prop := match rest with [] => True | e :: _ => is_eol e = true end.

Lemma eol_cases : forall e, is_eol e = true -> e = 10 \/ e = 13.
Proof. intros e H. unfold is_eol in H. apply orb_true_iff in H. destruct H as [H|H]; apply N.eqb_eq in H; auto. Qed.

Ltac eol e H := destruct (eol_cases e H) as [?E|?E]; subst e.

Lemma skip_ws_local : forall X rest, stops rest -> skip_ws (X ++ rest) = skip_ws X ++ rest.
Proof.
  induction X as [|c X IH]; intros rest St.
  - destruct rest as [|e r]; [reflexivity|]. simpl in St. eol e St; reflexivity.
  - cbn [app skip_ws]. destruct (is_ws c); [apply IH; exact St|reflexivity].
Qed.

Lemma span_local : forall p X rest, (p 10 = false) -> (p 13 = false) -> stops rest ->
  span p (X ++ rest) = (fst (span p X), snd (span p X) ++ rest).
Proof.
  induction X as [|c X IH]; intros rest P10 P13 St.
  - destruct rest as [|e r]; [reflexivity|]. simpl in St. eol e St; simpl; [rewrite P10|rewrite P13]; reflexivity.
  - cbn [app span]. destruct (p c); [|reflexivity].
    rewrite (IH rest P10 P13 St). destruct (span p X) as [a b]. reflexivity.
Qed.

Lemma starts_with_local : forall k X rest, stops rest -> (k =? 10) = false -> (k =? 13) = false ->
  starts_with k (X ++ rest) = starts_with k X.
Proof.
  intros k [|c X] rest St K10 K13; [|reflexivity].
  destruct rest as [|e r]; [reflexivity|]. simpl in St. eol e St; cbn [app starts_with]; rewrite N.eqb_sym; assumption.
Qed.

Lemma hexn_local : forall k acc X rest x R, stops rest -> hexn k acc (X ++ rest) = Some (x, R) ->
  exists R0, R = R0 ++ rest /\ hexn k acc X = Some (x, R0) /\ (length R0 <= length X)%nat.
Proof.
  induction k as [|k IH]; intros acc X rest x R St H.
  - simpl in H. inversion H; subst. exists X. repeat split. lia.
  - destruct X as [|c X].
    + exfalso. cbn [app hexn] in H. destruct rest as [|e r]; [discriminate|]. simpl in St. eol e St; discriminate.
    + cbn [app hexn] in H. cbn [hexn]. destruct (is_hex c); [|discriminate].
      destruct (IH _ _ _ _ _ St H) as [R0 [H1 [H2 H3]]]. exists R0. repeat split; auto. simpl. lia.
Qed.

Lemma uchar_local : forall X rest x R, stops rest -> uchar (X ++ rest) = Some (x, R) ->
  exists R0, R = R0 ++ rest /\ uchar X = Some (x, R0) /\ (length R0 < length X)%nat.
Proof.
  intros X rest x R St H. destruct X as [|c X].
  - exfalso. cbn [app] in H. destruct rest as [|e r]; [discriminate|]. simpl in St. eol e St; discriminate.
  - cbn [app] in H. unfold uchar in *. destruct (c =? 117).
    + destruct (hexn_local _ _ _ _ _ _ St H) as [R0 [H1 [H2 H3]]]. exists R0. repeat split; auto. simpl. lia.
    + destruct (c =? 85); [|discriminate].
      destruct (hexn 8 0 (X ++ rest)) as [[v r']|] eqn:Eh; [|discriminate].
      destruct (v <=? 1114111) eqn:Ev; [|discriminate]. inversion H; subst.
      destruct (hexn_local _ _ _ _ _ _ St Eh) as [R0 [H1 [H2 H3]]]. exists R0. rewrite H2, Ev. repeat split; auto. simpl. lia.
Qed.

Lemma iri_body_local : forall n X rest v R, stops rest -> iri_body n (X ++ rest) = Some (v, R) ->
  exists R0, R = R0 ++ rest /\ forall m, (length X < m)%nat -> iri_body m X = Some (v, R0).
Proof.
  induction n as [|n IH]; intros X rest v R St H; [discriminate|].
  destruct X as [|c X].
  - exfalso. cbn [app iri_body] in H. destruct rest as [|e r]; [discriminate|]. simpl in St. eol e St; discriminate.
  - cbn [app iri_body] in H. destruct (c =? 62) eqn:E62.
    { inversion H; subst. exists X. split; [reflexivity|]. intros m Hm. destruct m; [inversion Hm|]. cbn [iri_body]. rewrite E62. reflexivity. }
    destruct (c =? 92) eqn:E92.
    { destruct (uchar (X ++ rest)) as [[x r']|] eqn:Eu; [|discriminate].
      destruct (uchar_local _ _ _ _ St Eu) as [X1 [U1 [U2 U3]]]. subst r'.
      destruct (iri_body n (X1 ++ rest)) as [[v' r'']|] eqn:Eb; [|discriminate]. cbn [consv] in H. inversion H; subst.
      destruct (IH _ _ _ _ St Eb) as [R0 [H1 H2]]. exists R0. split; [exact H1|].
      intros m Hm. destruct m; [inversion Hm|]. cbn [iri_body]. rewrite E62, E92, U2. rewrite H2; [reflexivity|simpl in Hm; lia]. }
    destruct (iri_plain c) eqn:Ep; [|discriminate].
    destruct (iri_body n (X ++ rest)) as [[v' r'']|] eqn:Eb; [|discriminate]. cbn [consv] in H. inversion H; subst.
    destruct (IH _ _ _ _ St Eb) as [R0 [H1 H2]]. exists R0. split; [exact H1|].
    intros m Hm. destruct m; [inversion Hm|]. cbn [iri_body]. rewrite E62, E92, Ep. rewrite H2; [reflexivity|simpl in Hm; lia].
Qed.

Lemma p_iriref_local : forall X rest v R, stops rest -> p_iriref (X ++ rest) = Some (v, R) ->
  exists R0, R = R0 ++ rest /\ p_iriref X = Some (v, R0).
Proof.
  intros X rest v R St H. destruct X as [|c X].
  - exfalso. cbn [app] in H. destruct rest as [|e r]; [discriminate|]. simpl in St. eol e St; discriminate.
  - cbn [app] in H. unfold p_iriref in *. destruct (c =? 60); [|discriminate]. unfold p_iri_tail in *.
    destruct (iri_body (S (length (X ++ rest))) (X ++ rest)) as [[v' r']|] eqn:Eb; [|discriminate].
    destruct (has_scheme v') eqn:Hs; [|discriminate]. inversion H; subst.
    destruct (iri_body_local _ _ _ _ _ St Eb) as [R0 [H1 H2]]. exists R0. split; [exact H1|].
    rewrite H2 by lia. rewrite Hs. reflexivity.
Qed.

Lemma p_bnode_local : forall X rest v R, stops rest -> p_bnode (X ++ rest) = Some (v, R) ->
  exists R0, R = R0 ++ rest /\ p_bnode X = Some (v, R0).
Proof.
  intros X rest v R St H.
  destruct X as [|u [|k [|c X]]].
  - exfalso. cbn [app] in H. destruct rest as [|e [|e2 [|e3 r]]]; try discriminate. simpl in St. eol e St; discriminate.
  - exfalso. cbn [app] in H. destruct rest as [|e [|e2 r]]; try discriminate. simpl in St. unfold p_bnode in H.
    eol e St; rewrite andb_false_r in H; discriminate.
  - exfalso. cbn [app] in H. destruct rest as [|e r]; try discriminate. simpl in St. unfold p_bnode in H.
    eol e St; rewrite andb_false_r in H; discriminate.
  - cbn [app] in H. unfold p_bnode in *.
    destruct ((u =? 95) && (k =? 58) && (pn_chars_u c || is_digit c)); [|discriminate].
    rewrite (span_local label_char X rest) in H by (try reflexivity; exact St).
    destruct (span label_char X) as [run b0]. cbn [fst snd] in H.
    destruct (strip_dots run) as [kk d]. inversion H; subst. exists (d ++ b0). split; [rewrite app_assoc; reflexivity|reflexivity].
Qed.

Lemma p_subject_local : forall X rest t R, stops rest -> p_subject (X ++ rest) = Some (t, R) ->
  exists R0, R = R0 ++ rest /\ p_subject X = Some (t, R0).
Proof.
  intros X rest t R St H. unfold p_subject in *.
  rewrite !starts_with_local in H by (try reflexivity; exact St).
  destruct (starts_with 60 X).
  - destruct (p_iriref (X ++ rest)) as [[v r']|] eqn:E; [|discriminate]. cbn [omap] in H. inversion H; subst.
    destruct (p_iriref_local _ _ _ _ St E) as [R0 [H1 H2]]. exists R0. rewrite H2. split; [exact H1|reflexivity].
  - destruct (starts_with 95 X); [|discriminate].
    destruct (p_bnode (X ++ rest)) as [[v r']|] eqn:E; [|discriminate]. cbn [omap] in H. inversion H; subst.
    destruct (p_bnode_local _ _ _ _ St E) as [R0 [H1 H2]]. exists R0. rewrite H2. split; [exact H1|reflexivity].
Qed.

Lemma str_body_local : forall n X rest lex R, stops rest -> str_body n (X ++ rest) = Some (lex, R) ->
  exists R0, R = R0 ++ rest /\ forall m, (length X < m)%nat -> str_body m X = Some (lex, R0).
Proof.
  induction n as [|n IH]; intros X rest lex R St H; [discriminate|].
  destruct X as [|c X].
  - exfalso. cbn [app str_body] in H. destruct rest as [|e r]; [discriminate|]. simpl in St. eol e St; discriminate.
  - cbn [app str_body] in H. destruct (c =? 34) eqn:E34.
    { inversion H; subst. exists X. split; [reflexivity|]. intros m Hm. destruct m; [inversion Hm|]. cbn [str_body]. rewrite E34. reflexivity. }
    destruct (c =? 92) eqn:E92.
    { destruct X as [|e X].
      - exfalso. cbn [app] in H. destruct rest as [|e r]; [discriminate|]. simpl in St. eol e St; discriminate.
      - cbn [app] in H. destruct (echar e) as [x|] eqn:Ee.
        + destruct (str_body n (X ++ rest)) as [[v' r']|] eqn:Eb; [|discriminate]. cbn [consv] in H. inversion H; subst.
          destruct (IH _ _ _ _ St Eb) as [R0 [H1 H2]]. exists R0. split; [exact H1|].
          intros m Hm. destruct m; [inversion Hm|]. cbn [str_body]. rewrite E34, E92, Ee. rewrite H2; [reflexivity|simpl in Hm; lia].
        + change (e :: X ++ rest) with ((e :: X) ++ rest) in H.
          destruct (uchar ((e :: X) ++ rest)) as [[x r']|] eqn:Eu; [|discriminate].
          destruct (uchar_local _ _ _ _ St Eu) as [X1 [U1 [U2 U3]]]. subst r'.
          destruct (str_body n (X1 ++ rest)) as [[v' r'']|] eqn:Eb; [|discriminate]. cbn [consv] in H. inversion H; subst.
          destruct (IH _ _ _ _ St Eb) as [R0 [H1 H2]]. exists R0. split; [exact H1|].
          intros m Hm. destruct m; [inversion Hm|]. cbn [str_body]. rewrite E34, E92, Ee, U2.
          rewrite H2; [reflexivity|simpl in Hm, U3; lia]. }
    destruct (is_eol c) eqn:Eeol; [discriminate|].
    destruct (str_body n (X ++ rest)) as [[v' r']|] eqn:Eb; [|discriminate]. cbn [consv] in H. inversion H; subst.
    destruct (IH _ _ _ _ St Eb) as [R0 [H1 H2]]. exists R0. split; [exact H1|].
    intros m Hm. destruct m; [inversion Hm|]. cbn [str_body]. rewrite E34, E92, Eeol. rewrite H2; [reflexivity|simpl in Hm; lia].
Qed.

Lemma subtags_local : forall n X rest st R, (length (X ++ rest) <= n)%nat -> stops rest ->
  subtags n (X ++ rest) = (st, R) ->
  exists R0, R = R0 ++ rest /\ forall m, (length X <= m)%nat -> subtags m X = (st, R0).
Proof.
  induction n as [|n IH]; intros X rest st R L St H.
  - destruct X; [|simpl in L; lia]. destruct rest; [|simpl in L; lia]. simpl in H. inversion H; subst.
    exists []. split; [reflexivity|]. intros m _. destruct m; reflexivity.
  - destruct X as [|c X].
    + cbn [app] in H. exists []. destruct rest as [|e r].
      * simpl in H. inversion H; subst. split; [reflexivity|]. intros m _. destruct m; reflexivity.
      * simpl in St. cbn [subtags] in H. assert (E : (e =? 45) = false) by (eol e St; reflexivity). rewrite E in H.
        inversion H; subst. split; [reflexivity|]. intros m _. destruct m; reflexivity.
    + cbn [app subtags] in H. destruct (c =? 45) eqn:E45.
      * rewrite (span_local is_alnum X rest) in H by (try reflexivity; exact St).
        destruct (span is_alnum X) as [run b0] eqn:Es. cbn [fst snd] in H.
        destruct run as [|x run].
        { inversion H; subst st R. exists (c :: X). split; [reflexivity|]. intros m Hm. destruct m; [simpl in Hm; lia|].
          cbn [subtags]. rewrite E45, Es. reflexivity. }
        destruct (subtags n (b0 ++ rest)) as [more r'] eqn:Et. inversion H; subst st R.
        destruct (span_spec _ _ _ _ Es) as [S1 _].
        assert (L' : (length (b0 ++ rest) <= n)%nat).
        { simpl in L. rewrite S1 in L. rewrite !app_length in *. simpl in L. lia. }
        destruct (IH _ _ _ _ L' St Et) as [R0 [H1 H2]]. exists R0. split; [exact H1|].
        intros m Hm. destruct m; [simpl in Hm; lia|]. cbn [subtags]. rewrite E45, Es.
        rewrite H2; [reflexivity|]. simpl in Hm. rewrite S1, app_length in Hm. simpl in Hm. lia.
      * inversion H; subst st R. exists (c :: X). split; [reflexivity|]. intros m Hm. destruct m; [simpl in Hm; lia|].
        cbn [subtags]. rewrite E45. reflexivity.
Qed.

Lemma p_langtag_local : forall X rest lg R, stops rest -> p_langtag (X ++ rest) = Some (lg, R) ->
  exists R0, R = R0 ++ rest /\ p_langtag X = Some (lg, R0).
Proof.
  intros X rest lg R St H. unfold p_langtag in *.
  rewrite (span_local is_alpha X rest) in H by (try reflexivity; exact St).
  destruct (span is_alpha X) as [prim r0]. cbn [fst snd] in H.
  destruct prim as [|x prim]; [discriminate|].
  destruct (subtags (length (r0 ++ rest)) (r0 ++ rest)) as [st r'] eqn:Et. inversion H; subst.
  destruct (subtags_local _ _ _ _ _ (le_n _) St Et) as [R0 [H1 H2]]. exists R0. split; [exact H1|].
  rewrite (H2 (length r0)) by lia. reflexivity.
Qed.

Lemma p_lit_suffix_local : forall lex X rest t R, stops rest -> p_lit_suffix lex (X ++ rest) = Some (t, R) ->
  exists R0, R = R0 ++ rest /\ p_lit_suffix lex X = Some (t, R0).
Proof.
  intros lex X rest t R St H. destruct X as [|c X].
  - cbn [app] in H. exists []. destruct rest as [|e r]; [simpl in H; inversion H; split; reflexivity|].
    simpl in St. unfold p_lit_suffix in H.
    assert (E1 : (e =? 64) = false) by (eol e St; reflexivity). assert (E2 : (e =? 94) = false) by (eol e St; reflexivity).
    rewrite E1, E2 in H. cbn [andb] in H. inversion H; subst. split; reflexivity.
  - cbn [app] in H. unfold p_lit_suffix in *. destruct (c =? 64).
    + destruct (p_langtag (X ++ rest)) as [[lg r3]|] eqn:El; [|discriminate]. inversion H; subst.
      destruct (p_langtag_local _ _ _ _ St El) as [R0 [H1 H2]]. exists R0. rewrite H2. split; [exact H1|reflexivity].
    + rewrite starts_with_local in H by (try reflexivity; exact St).
      destruct ((c =? 94) && starts_with 94 X) eqn:E94.
      * apply andb_true_iff in E94. destruct E94 as [_ E94]. destruct X as [|c2 X]; [discriminate|]. cbn [app tl] in *.
        destruct (p_iriref (X ++ rest)) as [[d r3]|] eqn:Ei; [|discriminate]. inversion H; subst.
        destruct (p_iriref_local _ _ _ _ St Ei) as [R0 [H1 H2]]. exists R0. rewrite H2. split; [exact H1|reflexivity].
      * inversion H; subst. exists (c :: X). split; reflexivity.
Qed.

Lemma p_object_local : forall X rest t R, stops rest -> p_object (X ++ rest) = Some (t, R) ->
  exists R0, R = R0 ++ rest /\ p_object X = Some (t, R0).
Proof.
  intros X rest t R St H. unfold p_object in *.
  rewrite starts_with_local in H by (try reflexivity; exact St).
  destruct (starts_with 34 X) eqn:E34; [|apply p_subject_local; assumption].
  destruct X as [|c X]; [discriminate|]. cbn [app tl] in *. unfold p_literal_tail in *.
  destruct (str_body (S (length (X ++ rest))) (X ++ rest)) as [[lex r1]|] eqn:Eb; [|discriminate].
  destruct (str_body_local _ _ _ _ _ St Eb) as [R1 [H1 H2]]. subst r1.
  destruct (p_lit_suffix_local _ _ _ _ _ St H) as [R0 [H3 H4]]. exists R0. split; [exact H3|].
  rewrite H2 by lia. exact H4.
Qed.

Lemma p_end_local : forall R rest, stops rest ->
  p_end (R ++ rest) = match p_end R with Some r5 => Some (r5 ++ rest) | None => None end.
Proof.
  intros R rest St. unfold p_end. rewrite (skip_ws_local R rest St).
  destruct (skip_ws R) as [|c r'].
  - cbn [app]. destruct rest as [|e r]; [reflexivity|]. simpl in St. assert (E : (e =? 46) = false) by (eol e St; reflexivity).
    rewrite E. reflexivity.
  - cbn [app]. destruct (c =? 46); reflexivity.
Qed.

Lemma p_statement_local : forall nq X rest q R, stops rest -> p_statement nq (X ++ rest) = Some (q, R) ->
  exists R0, R = R0 ++ rest /\ p_statement nq X = Some (q, R0).
Proof.
  intros nq X rest q R St H. unfold p_statement in *.
  rewrite (skip_ws_local X rest St) in H.
  destruct (p_subject (skip_ws X ++ rest)) as [[s r1]|] eqn:Es; [|discriminate].
  destruct (p_subject_local _ _ _ _ St Es) as [R1 [E1 P1]]. subst r1. rewrite P1.
  rewrite (skip_ws_local R1 rest St) in H. unfold p_predicate in *.
  destruct (p_iriref (skip_ws R1 ++ rest)) as [[pv r2]|] eqn:Ep; [|discriminate]. cbn [omap] in H.
  destruct (p_iriref_local _ _ _ _ St Ep) as [R2 [E2 P2]]. subst r2. rewrite P2. cbn [omap].
  rewrite (skip_ws_local R2 rest St) in H.
  destruct (p_object (skip_ws R2 ++ rest)) as [[o r3]|] eqn:Eo; [|discriminate].
  destruct (p_object_local _ _ _ _ St Eo) as [R3 [E3 P3]]. subst r3. rewrite P3.
  rewrite (p_end_local R3 rest St) in H.
  destruct (p_end R3) as [r5|].
  - inversion H; subst. exists r5. split; reflexivity.
  - destruct nq; [|discriminate]. rewrite (skip_ws_local R3 rest St) in H.
    destruct (p_subject (skip_ws R3 ++ rest)) as [[g r5]|] eqn:Eg; [|discriminate].
    destruct (p_subject_local _ _ _ _ St Eg) as [R5 [E5 P5]]. subst r5. rewrite P5.
    rewrite (p_end_local R5 rest St) in H. destruct (p_end R5) as [r6|]; [|discriminate].
    inversion H; subst. exists r6. split; reflexivity.
Qed.

(* ====================================================================== Part 2: documents *)
Definition lines_of (d : str) : list str :=
  let '(ls, last) := split_eol d in if forallb py_isspace last then ls else ls ++ [last].
Definition doc_kf (nq : bool) (d : str) : N :=
  let '(ls, last) := split_eol d in first_nz (map (line_kf nq) (ls ++ [last])).

Lemma rd_doc_lines : forall nq d, rd_doc nq d = rd_lines nq (lines_of d).
Proof. intros nq d. unfold rd_doc, lines_of. destruct (split_eol d). reflexivity. Qed.

Lemma break_line : forall d, exists line rest, d = line ++ rest /\ no_eol line = true /\ stops rest.
Proof.
  induction d as [|c d IH]; [exists [], []; repeat split|].
  destruct (is_eol c) eqn:E.
  - exists [], (c :: d). repeat split. exact E.
  - destruct IH as [line [rest [H1 [H2 H3]]]]. exists (c :: line), rest. subst d. repeat split; [|exact H3].
    unfold no_eol in *. cbn [forallb]. rewrite E, H2. reflexivity.
Qed.

Lemma split_eol_noeol : forall line, no_eol line = true -> split_eol line = ([], line).
Proof.
  induction line as [|c line IH]; intro H; [reflexivity|]. unfold no_eol in H. cbn [forallb] in H.
  apply andb_true_iff in H. destruct H as [Hc H]. apply negb_true_iff in Hc. cbn [split_eol]. rewrite (IH H), Hc. reflexivity.
Qed.
Lemma split_eol_line : forall line e rest', no_eol line = true -> is_eol e = true ->
  split_eol (line ++ e :: rest') = (line :: fst (split_eol rest'), snd (split_eol rest')).
Proof.
  induction line as [|c line IH]; intros e rest' H He.
  - cbn [app split_eol]. destruct (split_eol rest') as [ls last]. rewrite He. reflexivity.
  - unfold no_eol in H. cbn [forallb] in H. apply andb_true_iff in H. destruct H as [Hc H]. apply negb_true_iff in Hc.
    cbn [app split_eol]. rewrite (IH e rest' H He), Hc. reflexivity.
Qed.

Lemma lines_of_line : forall line e rest', no_eol line = true -> is_eol e = true ->
  lines_of (line ++ e :: rest') = line :: lines_of rest'.
Proof.
  intros line e rest' H He. unfold lines_of. rewrite (split_eol_line line e rest' H He).
  destruct (split_eol rest') as [ls last]. cbn [fst snd]. destruct (forallb py_isspace last); reflexivity.
Qed.
Lemma lines_of_last : forall line, no_eol line = true ->
  lines_of line = if forallb py_isspace line then [] else [line].
Proof. intros line H. unfold lines_of. rewrite (split_eol_noeol line H). reflexivity. Qed.

Lemma first_nz_cons : forall a l, first_nz (a :: l) = 0 -> a = 0 /\ first_nz l = 0.
Proof.
  intros a l H. unfold first_nz in *. cbn [filter] in H. destruct (a =? 0) eqn:E; cbn [negb] in H.
  - apply N.eqb_eq in E. auto.
  - subst a. discriminate.
Qed.
Lemma doc_kf_line : forall nq line e rest', no_eol line = true -> is_eol e = true ->
  doc_kf nq (line ++ e :: rest') = 0 -> line_kf nq line = 0 /\ doc_kf nq rest' = 0.
Proof.
  intros nq line e rest' H He K. unfold doc_kf in *. rewrite (split_eol_line line e rest' H He) in K.
  destruct (split_eol rest') as [ls last]. cbn [fst snd app map] in K. apply first_nz_cons in K. exact K.
Qed.
Lemma doc_kf_last : forall nq line, no_eol line = true -> doc_kf nq line = 0 -> line_kf nq line = 0.
Proof.
  intros nq line H K. unfold doc_kf in K. rewrite (split_eol_noeol line H) in K. cbn [app map] in K.
  apply first_nz_cons in K. tauto.
Qed.

Lemma drop_to_eol_local : forall r rest, no_eol r = true -> stops rest -> drop_to_eol (r ++ rest) = rest.
Proof.
  induction r as [|c r IH]; intros rest H St.
  - destruct rest as [|e r']; [reflexivity|]. simpl in St. cbn [app drop_to_eol]. rewrite St. reflexivity.
  - unfold no_eol in H. cbn [forallb] in H. apply andb_true_iff in H. destruct H as [Hc H]. apply negb_true_iff in Hc.
    cbn [app drop_to_eol]. rewrite Hc. apply IH; assumption.
Qed.
Lemma drop_to_eol_noeol : forall r, no_eol r = true -> drop_to_eol r = [].
Proof. intros r H. rewrite <- (app_nil_r r). apply drop_to_eol_local; [exact H|exact I]. Qed.

Lemma no_eol_head : forall c r, no_eol (c :: r) = true -> is_eol c = false /\ no_eol r = true.
Proof. intros c r H. unfold no_eol in *. cbn [forallb] in H. apply andb_true_iff in H. destruct H as [A B]. apply negb_true_iff in A. auto. Qed.

Lemma skip_ws_nil_space : forall l, skip_ws l = [] -> forallb py_isspace l = true.
Proof.
  induction l as [|c l IH]; intro H; [reflexivity|]. simpl in H. destruct (is_ws c) eqn:E; [|discriminate].
  cbn [forallb]. rewrite (IH H), andb_true_r. unfold is_ws in E. apply orb_true_iff in E.
  destruct E as [E|E]; apply N.eqb_eq in E; subst; reflexivity.
Qed.

Lemma skip_ws_head_nws : forall l c r, skip_ws l = c :: r -> is_ws c = false.
Proof.
  induction l as [|x l IH]; intros c r H; [discriminate|]. simpl in H. destruct (is_ws x) eqn:E; [eapply IH; eauto|].
  inversion H; subst. exact E.
Qed.

Lemma skip_comment_local : forall R0 rest, no_eol R0 = true -> stops rest ->
  match skip_comment R0 with
  | [] => skip_comment (R0 ++ rest) = rest
  | c :: x => skip_comment (R0 ++ rest) = (c :: x) ++ rest /\ is_eol c = false
  end.
Proof.
  intros R0 rest H St. unfold skip_comment. rewrite (skip_ws_local R0 rest St).
  assert (Hw : no_eol (skip_ws R0) = true) by (eapply no_eol_suffix; [apply skip_ws_suffix|exact H]).
  destruct (skip_ws R0) as [|c x].
  - cbn [app]. destruct rest as [|e r']; [reflexivity|]. simpl in St. eol e St; reflexivity.
  - cbn [app starts_with]. destruct (c =? 35) eqn:E.
    + rewrite (drop_to_eol_noeol _ Hw). change (c :: x ++ rest) with ((c :: x) ++ rest). apply drop_to_eol_local; assumption.
    + split; [reflexivity|]. apply (no_eol_head _ _ Hw).
Qed.

(* a document the grammar accepts is read, line by line, to the same list of statements *)
Theorem reads_legal_doc_fuel : forall n nq d qs,
  p_doc n nq d = Some qs -> doc_kf nq d = 0 -> rd_lines nq (lines_of d) = Some qs.
Proof.
  induction n as [n IH] using lt_wf_ind. intros nq d qs H K.
  destruct n as [|n]; [discriminate|].
  destruct (break_line d) as [line [rest [Ed [Nl St]]]]. subst d.
  cbn [p_doc] in H. rewrite (skip_ws_local line rest St) in H.
  assert (Nw : no_eol (skip_ws line) = true) by (eapply no_eol_suffix; [apply skip_ws_suffix|exact Nl]).
  destruct (skip_ws line) as [|c r] eqn:Ew.
  - (* blank line *)
    cbn [app] in H. destruct rest as [|e rest'].
    + inversion H; subst. rewrite app_nil_r, (lines_of_last line Nl), (skip_ws_nil_space line Ew). reflexivity.
    + simpl in St. rewrite St in H. destruct (doc_kf_line _ _ _ _ Nl St K) as [_ K'].
      rewrite (lines_of_line line e rest' Nl St). cbn [rd_lines]. unfold rd_parseline at 1. rewrite Ew.
      apply (IH n (Nat.lt_succ_diag_r n) nq rest' qs H K').
  - destruct (no_eol_head _ _ Nw) as [Ec Nr]. cbn [app] in H. rewrite Ec in H.
    destruct (c =? 35) eqn:E35.
    + (* comment line *)
      rewrite (drop_to_eol_local r rest Nr St) in H.
      destruct rest as [|e rest'].
      * destruct n; [discriminate|]. simpl in H. inversion H; subst.
        rewrite app_nil_r, (lines_of_last line Nl). destruct (forallb py_isspace line); [reflexivity|].
        cbn [rd_lines]. unfold rd_parseline. rewrite Ew, E35. reflexivity.
      * simpl in St. destruct n as [|n']; [discriminate|]. cbn [p_doc] in H.
        assert (Ews : is_ws e = false) by (eol e St; reflexivity).
        rewrite (skip_ws_nws e rest' Ews), St in H.
        destruct (doc_kf_line _ _ _ _ Nl St K) as [_ K'].
        rewrite (lines_of_line line e rest' Nl St). cbn [rd_lines]. unfold rd_parseline at 1. rewrite Ew, E35.
        apply (IH n' (Nat.lt_lt_succ_r _ _ (Nat.lt_succ_diag_r n')) nq rest' qs H K').
    + (* statement line *)
      change (c :: r ++ rest) with ((c :: r) ++ rest) in H.
      destruct (p_statement nq ((c :: r) ++ rest)) as [[q Rst]|] eqn:Es; [|discriminate].
      destruct (p_statement_local _ _ _ _ _ St Es) as [R0 [E0 P0]]. subst Rst.
      assert (N0 : no_eol R0 = true) by (eapply no_eol_suffix; [eapply p_statement_suffix; eauto|exact Nw]).
      pose proof (skip_comment_local R0 rest N0 St) as SC.
      assert (Pl : p_statement nq line = Some (q, R0)) by (rewrite <- p_statement_skip, Ew; exact P0).
      destruct (skip_comment R0) as [|c' x] eqn:Esc.
      * rewrite SC in H.
        assert (Rl : forall Kl : line_kf nq line = 0, rd_parseline nq line = Some (Some q)).
        { intro Kl. apply (reads_legal_statement nq line q R0 Pl Esc Kl). }
        destruct rest as [|e rest'].
        -- inversion H; subst. rewrite app_nil_r in *. rewrite (lines_of_last line Nl).
           assert (Hsp : forallb py_isspace line = false).
           { destruct (forallb py_isspace line) eqn:F; [|reflexivity]. exfalso.
             rewrite forallb_forall in F.
             assert (Hin : In c line).
             { destruct (skip_ws_suffix line) as [w Hw]. rewrite Ew in Hw. rewrite Hw. apply in_or_app. right. left. reflexivity. }
             specialize (F c Hin).
             unfold p_statement in P0. rewrite (skip_ws_nws c r (skip_ws_head_nws _ _ _ Ew)) in P0.
             destruct (p_subject (c :: r)) as [[s r1]|] eqn:Ps; [|discriminate].
             destruct (p_subject_starts _ _ _ Ps) as [S1 _]. cbn [starts_with] in S1.
             apply orb_true_iff in S1. destruct S1 as [S1|S1]; apply N.eqb_eq in S1; subst c; discriminate. }
           rewrite Hsp. cbn [rd_lines]. rewrite (Rl (doc_kf_last _ _ Nl K)). reflexivity.
        -- simpl in St. rewrite St in H.
           destruct (p_doc n nq rest') as [qs'|] eqn:Ed; [|discriminate]. inversion H; subst.
           destruct (doc_kf_line _ _ _ _ Nl St K) as [Kl K'].
           rewrite (lines_of_line line e rest' Nl St). cbn [rd_lines]. rewrite (Rl Kl).
           rewrite (IH n (Nat.lt_succ_diag_r n) nq rest' qs' Ed K'). reflexivity.
      * destruct SC as [SC Hc']. rewrite SC in H. cbn [app] in H. rewrite Hc' in H. discriminate.
Qed.

Theorem reads_legal_doc : forall nq d qs,
  strict_doc nq d = Some qs -> doc_kf nq d = 0 -> rd_doc nq d = Some qs.
Proof. intros nq d qs H K. rewrite rd_doc_lines. exact (reads_legal_doc_fuel _ _ _ _ H K). Qed.

Lemma doc_kf_rd_kf : forall c, rd_kf c = doc_kf (r_nq c) (r_doc c).
Proof. intro c. reflexivity. Qed.
