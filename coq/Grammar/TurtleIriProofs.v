(* Proofs about coq/Grammar/TurtleIri.v: on a legal IRIREF whose denotation has no backslash, the two substitution
   passes of uri_ref2 (all \U escapes, then all \u escapes) compute the denotation, and the IRI is what RFC 3986
   resolution of it gives. *)
From Coq Require Import Lia PeanoNat.
From RV Require Import Grammar.TurtleIri Grammar.Proofs Grammar.Reader Grammar.ReaderProofs Grammar.ResolveProofs.
Local Open Scope N_scope.

Definition opre (p : str) (x : option str) : option str := match x with Some v => Some (p ++ v) | None => None end.

Lemma usub_plain : forall m k L c r, (c =? BSL) = false -> usub (S m) k L (c :: r) = ocons c (usub m k L r).
Proof. intros. cbn [usub]. rewrite H. reflexivity. Qed.

Lemma usub_plain_prefix : forall p X k L m, forallb (fun c => negb (c =? BSL)) p = true ->
  usub (length p + m) k L (p ++ X) = opre p (usub m k L X).
Proof.
  induction p as [|c p IH]; intros X k L m H.
  - cbn. destruct (usub m k L X); reflexivity.
  - cbn [forallb] in H. apply andb_true_iff in H. destruct H as [Hc H]. apply negb_true_iff in Hc.
    cbn [length app Nat.add]. rewrite (usub_plain _ _ _ _ _ Hc), (IH X k L m H). destruct (usub m k L X); reflexivity.
Qed.

Lemma hex_not_bsl : forall hs, forallb is_hex hs = true -> forallb (fun c => negb (c =? BSL)) hs = true.
Proof.
  intros hs H. apply forallb_forall. intros c Hc. rewrite forallb_forall in H. specialize (H c Hc).
  apply is_hex_ranges in H. apply negb_true_iff. apply N.eqb_neq. unfold BSL. lia.
Qed.

Lemma two_pass_tokens : forall n l v r, iri_body n l = Some (v, r) ->
  exists raw mid, l = raw ++ 62 :: r /\ forallb iri_rawc raw = true /\
    (forall m, (length raw <= m)%nat -> usub m 8 85 raw = Some mid) /\
    (memN BSL v = false -> forall m, (length mid <= m)%nat -> usub m 4 117 mid = Some v).
Proof.
  induction n as [|n IH]; intros l v r H; [discriminate|].
  cbn [iri_body] in H. destruct l as [|c l]; [discriminate|].
  destruct (c =? 62) eqn:E62.
  { apply N.eqb_eq in E62. subst c. inversion H; subst. exists [], []. repeat split; intros; destruct m; reflexivity. }
  destruct (c =? 92) eqn:E92.
  { apply N.eqb_eq in E92. subst c.
    destruct (uchar l) as [[x r']|] eqn:Eu; [|discriminate].
    destruct (iri_body n r') as [[v' r'']|] eqn:Eb; [|discriminate]. cbn [consv] in H. inversion H; subst.
    destruct (IH _ _ _ Eb) as [raw' [mid' [H1 [H2 [H3 H4]]]]]. subst r'.
    destruct (uchar_spec _ _ _ Eu) as [e [hs [L1 [L2 [L3 [L4 L5]]]]]]. subst l.
    pose proof (hex_not_bsl hs L3) as Hnb.
    assert (Hraw : forallb iri_rawc (92 :: e :: hs ++ raw') = true).
    { cbn [forallb]. apply andb_true_iff. split; [reflexivity|]. apply andb_true_iff. split; [destruct L2; subst; reflexivity|].
      apply forallb_app_intro; [|exact H2]. apply forallb_forall. intros z Hz. apply hex_rawc. rewrite forallb_forall in L3. auto. }
    destruct L2 as [Le|Le]; subst e.
    - (* \uXXXX : untouched by the first pass, expanded by the second *)
      assert (Hx : hexn 4 0 (hs ++ mid') = Some (x, mid')).
      { specialize (L5 mid'). unfold rd_uchar in L5. change (117 =? 117) with true in L5. exact L5. }
      exists (92 :: 117 :: hs ++ raw'), (92 :: 117 :: hs ++ mid'). split; [cbn [app]; rewrite <- app_assoc; reflexivity|].
      split; [exact Hraw|]. split.
      + intros m Hm. cbn [length] in Hm. rewrite app_length in Hm. destruct m as [|m1]; [lia|].
        cbn [usub]. change (92 =? BSL) with true. cbn [andb starts_with]. change (117 =? 85) with false. cbv iota. cbn [ocons].
        change (117 :: hs ++ raw') with ((117 :: hs) ++ raw'). set (p := 117 :: hs).
        assert (Lp : length p = S (length hs)) by reflexivity.
        replace m1 with (length p + (m1 - length p))%nat by lia.
        rewrite usub_plain_prefix by (unfold p; cbn [forallb]; rewrite Hnb; reflexivity).
        rewrite H3 by lia. reflexivity.
      + intros Hb m Hm. cbn [memN] in Hb. apply orb_false_iff in Hb. destruct Hb as [_ Hb].
        cbn [length] in Hm. rewrite app_length in Hm. destruct m as [|m1]; [lia|].
        cbn [usub]. change (92 =? BSL) with true. cbn [andb starts_with tl]. change (117 =? 117) with true. cbv iota.
        rewrite Hx. pose proof (hexn4_bound _ _ _ Hx) as Hbound.
        assert (Hle : (x <=? 1114111) = true) by (apply N.leb_le; lia). rewrite Hle.
        rewrite (H4 Hb) by lia. reflexivity.
    - (* \UXXXXXXXX : expanded by the first pass; the character is not a backslash, so the second pass copies it *)
      assert (Hx : hexn 8 0 (hs ++ raw') = Some (x, raw')).
      { specialize (L5 raw'). unfold rd_uchar in L5. change (85 =? 117) with false in L5. change (85 =? 85) with true in L5. exact L5. }
      exists (92 :: 85 :: hs ++ raw'), (x :: mid'). split; [cbn [app]; rewrite <- app_assoc; reflexivity|].
      split; [exact Hraw|]. split.
      + intros m Hm. cbn [length] in Hm. rewrite app_length in Hm. destruct m as [|m1]; [lia|].
        cbn [usub]. change (92 =? BSL) with true. cbn [andb starts_with tl]. change (85 =? 85) with true. cbv iota.
        rewrite Hx. apply N.leb_le in L4. rewrite L4. rewrite H3 by lia. reflexivity.
      + intros Hb m Hm. cbn [memN] in Hb. apply orb_false_iff in Hb. destruct Hb as [Hx92 Hb].
        cbn [length] in Hm. destruct m as [|m1]; [lia|].
        rewrite usub_plain by (rewrite N.eqb_sym; exact Hx92). rewrite (H4 Hb) by lia. reflexivity. }
  destruct (iri_plain c) eqn:Ep; [|discriminate].
  destruct (iri_body n l) as [[v' r'']|] eqn:Eb; [|discriminate]. cbn [consv] in H. inversion H; subst.
  destruct (IH _ _ _ Eb) as [raw' [mid' [H1 [H2 [H3 H4]]]]]. subst l.
  destruct (plain_rawc c Ep) as [P1 [P2 P3]].
  exists (c :: raw'), (c :: mid'). split; [reflexivity|]. split; [cbn [forallb]; rewrite P1, H2; reflexivity|]. split.
  - intros m Hm. cbn [length] in Hm. destruct m as [|m1]; [lia|]. rewrite usub_plain by exact E92. rewrite H3 by lia. reflexivity.
  - intros Hb m Hm. cbn [memN] in Hb. apply orb_false_iff in Hb. destruct Hb as [_ Hb].
    cbn [length] in Hm. destruct m as [|m1]; [lia|]. rewrite usub_plain by exact E92. rewrite (H4 Hb) by lia. reflexivity.
Qed.

(* the two passes agree with the grammar's one-pass denotation on every legal IRIREF that denotes no backslash *)
Theorem two_pass_is_denotation : forall n l v r, iri_body n l = Some (v, r) -> memN BSL v = false ->
  exists raw, l = raw ++ 62 :: r /\ span (fun c => negb (c =? 62)) l = (raw, 62 :: r) /\ two_pass raw = Some v.
Proof.
  intros n l v r H Hb. destruct (two_pass_tokens _ _ _ _ H) as [raw [mid [H1 [H2 [H3 H4]]]]].
  exists raw. split; [exact H1|]. split.
  - subst l. apply span_app; [|reflexivity]. apply forallb_forall. intros c Hc. rewrite forallb_forall in H2.
    specialize (H2 c Hc). unfold iri_rawc in H2. apply andb_true_iff in H2. destruct H2 as [_ H2].
    apply negb_true_iff in H2. apply orb_false_iff in H2. destruct H2 as [_ H2]. rewrite H2. reflexivity.
  - unfold two_pass. rewrite (H3 _ (le_n _)). apply (H4 Hb). apply le_n.
Qed.

(* ---- the trailing-'#' patch of uri_ref2 never fires after an RFC 3986 join *)
Lemma last_app_ne : forall (a b : str) d, b <> [] -> last (a ++ b) d = last b d.
Proof.
  induction a as [|x a IH]; intros b d Hb; [reflexivity|]. cbn [app]. destruct (a ++ b) eqn:E.
  - destruct a; [destruct b; [contradiction|discriminate]|discriminate].
  - rewrite <- E. cbn [last]. rewrite E. rewrite <- E. apply IH. exact Hb.
Qed.
Lemma last_cons_ne : forall (c : N) (l : str) d, l <> [] -> last (c :: l) d = last l d.
Proof. intros c l d H. destruct l; [contradiction|reflexivity]. Qed.

Lemma last_in : forall (l : str) d, l <> [] -> In (last l d) l.
Proof.
  induction l as [|a l IH]; intros d H; [contradiction|]. destruct l as [|b l]; [left; reflexivity|].
  right. change (last (a :: b :: l) d) with (last (b :: l) d). apply IH. discriminate.
Qed.

Lemma raw_hash : forall n l v r, iri_body n l = Some (v, r) ->
  exists raw, l = raw ++ 62 :: r /\ (raw = [] -> v = []) /\ (raw <> [] -> v <> []) /\
              (last raw 60 = HASH -> last v 0 = HASH).
Proof.
  induction n as [|n IH]; intros l v r H; [discriminate|].
  cbn [iri_body] in H. destruct l as [|c l]; [discriminate|].
  destruct (c =? 62) eqn:E62.
  { apply N.eqb_eq in E62. subst c. inversion H; subst. exists []. repeat split; try tauto. cbn. discriminate. }
  destruct (c =? 92) eqn:E92.
  { apply N.eqb_eq in E92. subst c.
    destruct (uchar l) as [[x r']|] eqn:Eu; [|discriminate].
    destruct (iri_body n r') as [[v' r'']|] eqn:Eb; [|discriminate]. cbn [consv] in H. inversion H; subst.
    destruct (IH _ _ _ Eb) as [raw' [H1 [H2 [H3 H4]]]]. subst r'.
    destruct (uchar_spec _ _ _ Eu) as [e [hs [L1 [L2 [L3 _]]]]]. subst l.
    exists (92 :: e :: hs ++ raw'). split; [cbn [app]; rewrite <- app_assoc; reflexivity|].
    split; [discriminate|]. split; [discriminate|]. intro Hl.
    destruct raw' as [|y raw'].
    - exfalso. rewrite app_nil_r in Hl.
      assert (Hne : forall z, In z (92 :: e :: hs) -> z <> HASH).
      { intros z [Hz|[Hz|Hz]]; [subst; discriminate|destruct L2; subst; discriminate|].
        rewrite forallb_forall in L3. specialize (L3 z Hz). apply is_hex_ranges in L3. unfold HASH. lia. }
      assert (Hin : In (last (92 :: e :: hs) 60) (92 :: e :: hs)) by (apply last_in; discriminate).
      exact (Hne _ Hin Hl).
    - change (92 :: e :: hs ++ y :: raw') with ((92 :: e :: hs) ++ (y :: raw')) in Hl. rewrite last_app_ne in Hl by discriminate.
      specialize (H4 Hl). rewrite last_cons_ne; [exact H4|apply H3; discriminate]. }
  destruct (iri_plain c) eqn:Ep; [|discriminate].
  destruct (iri_body n l) as [[v' r'']|] eqn:Eb; [|discriminate]. cbn [consv] in H. inversion H; subst.
  destruct (IH _ _ _ Eb) as [raw' [H1 [H2 [H3 H4]]]]. subst l.
  exists (c :: raw'). split; [reflexivity|]. split; [discriminate|]. split; [discriminate|]. intro Hl.
  destruct raw' as [|y raw'].
  - rewrite (H2 eq_refl). exact Hl.
  - rewrite last_cons_ne in Hl by discriminate. specialize (H4 Hl). rewrite last_cons_ne; [exact H4|apply H3; discriminate].
Qed.

Lemma frag_of_split : forall v, c_frag (s_split v) = snd (cut_at HASH v).
Proof.
  intro v. unfold s_split. destruct (cut_at HASH v) as [u1 frag]. destruct (cut_at QMARK u1) as [u2 quer].
  destruct (s_scheme u2) as [sch u3]. destruct (s_auth u3) as [au pa]. reflexivity.
Qed.

Lemma transform_frag : forall B R T, c_scheme R = None -> s_transform B R = Some T -> c_frag T = c_frag R.
Proof.
  intros B R T Hs H. unfold s_transform in H. rewrite Hs in H.
  destruct (c_auth R).
  - destruct (s_rds (c_path R)); inversion H; reflexivity.
  - destruct (c_path R) as [|x p].
    + inversion H; reflexivity.
    + destruct (s_rds (if x =? SLASH then x :: p else s_merge B (x :: p))); inversion H; reflexivity.
Qed.

Lemma resolve_keeps_hash : forall b v t, last v 0 = HASH -> rdf_resolve b v = Some t -> last t 0 = HASH.
Proof.
  intros b v t Hl H. unfold rdf_resolve in H.
  destruct (c_scheme (s_split v)) eqn:Es; [inversion H; subst; exact Hl|].
  unfold rfc_resolve in H. destruct (s_transform (s_split b) (s_split v)) as [T|] eqn:Et; [|discriminate]. inversion H; subst t.
  pose proof (transform_frag _ _ _ Es Et) as Hf. rewrite frag_of_split in Hf.
  destruct (cut_at HASH v) as [a ob] eqn:Ec. destruct (cut_at_spec _ _ _ _ Ec) as [S1 S2]. cbn [snd] in Hf.
  destruct ob as [f|]; cbn [opt_tail] in S1.
  - unfold s_recompose. rewrite Hf. rewrite !app_assoc. rewrite last_app_ne by discriminate.
    rewrite S1 in Hl. rewrite last_app_ne in Hl by discriminate. exact Hl.
  - exfalso. rewrite app_nil_r in S1. subst a. destruct v as [|c v]; [discriminate|].
    pose proof (last_in (c :: v) 0 ltac:(discriminate)) as Hin. rewrite Hl in Hin. apply memN_In in Hin. congruence.
Qed.

(* uri_ref2 on '<' : every legal IRIREF (whatever characters are written as \u / \U escapes) whose denotation has no
   backslash is read as the RFC 3986 resolution of its denotation against the base *)
Theorem iriref_read : forall b l v r, b <> [] ->
  iri_body (S (length l)) l = Some (v, r) -> memN BSL v = false ->
  base_ok b = true -> (hierarchical b || same_document v) = true ->
  exists t, rdf_resolve b v = Some t /\ n3_iriref (Some b) l = Some (t, r).
Proof.
  intros b l v r Hb H Hbs Hok Hh.
  destruct (two_pass_is_denotation _ _ _ _ H Hbs) as [raw [E [Hsp Htp]]].
  destruct (join_is_rfc3986 b v Hok Hh) as [t [Hr Hj]]. exists t. split; [exact Hr|].
  unfold n3_iriref. rewrite Hsp, Htp. destruct b as [|b0 b']; [contradiction|]. rewrite Hj.
  destruct (raw_hash _ _ _ _ H) as [raw2 [E2 [_ [_ Hh2]]]].
  assert (raw2 = raw) by (rewrite E in E2; apply app_inv_tail in E2; congruence). subst raw2.
  destruct (last raw 60 =? HASH) eqn:El; [|reflexivity].
  apply N.eqb_eq in El. rewrite (resolve_keeps_hash _ _ _ (Hh2 El) Hr). rewrite N.eqb_refl. reflexivity.
Qed.

Theorem i_spec_ok_model : forall c, i_spec_ok c (i_model c) = true.
Proof.
  intro c. unfold i_spec_ok, i_model.
  destruct (iri_body (S (length (i_text c))) (i_text c)) as [[v rest]|] eqn:Ei; [|reflexivity].
  destruct (i_base c) as [b|] eqn:Eb; [|reflexivity].
  destruct (negb (memN BSL v) && base_ok b && (hierarchical b || same_document v) && negb match b with [] => true | _ :: _ => false end) eqn:G;
    [|reflexivity].
  apply andb_true_iff in G. destruct G as [G G4]. apply andb_true_iff in G. destruct G as [G G3].
  apply andb_true_iff in G. destruct G as [G1 G2]. apply negb_true_iff in G1.
  assert (Hne : b <> []) by (destruct b; [discriminate|discriminate]).
  destruct (iriref_read b (i_text c) v rest Hne Ei G1 G2 G3) as [t [Hr Hn]]. rewrite Hr. cbv beta iota.
  replace (n3_iriref (Some b) (i_text c)) with (Some (t, rest)) by (symmetry; exact Hn). rewrite !str_eqb_refl. reflexivity.
Qed.
