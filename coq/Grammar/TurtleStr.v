(* C05, Turtle term level: string literals.
   Part M  MODEL of rdflib/plugins/parsers/notation3.py SinkParser.strconst (all four quotings), with uEscape / UEscape
           (_unicodeEscape + unicodeExpand) and the search for the next "interesting" character; every error
           (BadSyntax, AssertionError, IndexError) is None.
   Part S  SPECIFICATION: the Turtle 1.1 productions [22] STRING_LITERAL_QUOTE, [23] STRING_LITERAL_SINGLE_QUOTE,
           [24] STRING_LITERAL_LONG_SINGLE_QUOTE, [25] STRING_LITERAL_LONG_QUOTE with [159s] ECHAR and [26] UCHAR,
           as strict prefix readers with their denotation.
   Inputs are what follows the opening delimiter (nodeOrLiteral has consumed it).  No proofs in this file. *)
From RV Require Export Grammar.Model Grammar.Resolve.
Local Open Scope N_scope.

Definition BSL := 92. Definition DQ := 34. Definition SQ := 39.

(* ============================================================ Part M *)
(* interesting: the character class of backslash, CR, LF, double quote, single quote (n3_interesting_src) *)
Definition interesting (c : N) : bool := (c =? BSL) || (c =? 13) || (c =? 10) || (c =? DQ) || (c =? SQ).

Fixpoint assocN' (k : N) (l : list (N * N)) : option N :=
  match l with [] => None | (a, b) :: r => if k =? a then Some b else assocN' k r end.

(* _unicodeEscape: needs n more characters; reg.sub replaces the text only if all n are hexadecimal digits (otherwise the
   six or ten characters stay as they are); unicodeExpand raises for a code point above 0x10FFFF *)
Definition n3_uescape (n : nat) (letter : N) (r : str) : option (str * str) :=
  match hexn n 0 r with
  | Some (v, r') => if v <=? 1114111 then Some ([v], r') else None
  | None => if Nat.leb n (length r) then Some (BSL :: letter :: firstn n r, skipn n r) else None
  end.

(* what happens at the interesting character that interesting.search has found ([rest] begins with it); [k] is the
   rest of the while loop *)
Definition sc_dispatch (k : str -> str -> option (str * str)) (q : N) (long : bool) (rest acc' : str) : option (str * str) :=
  match rest with
  | [] => None                                      (* assert m: Quote expected in string *)
  | ch :: r2 =>
    if ch =? q then k rest acc'
    else if (ch =? DQ) || (ch =? SQ) then k r2 (acc' ++ [ch])
    else if (ch =? 13) || (ch =? 10) then (if long then k r2 (acc' ++ [ch]) else None)
    else
      match r2 with
      | [] => None                                  (* IndexError *)
      | e :: r3 =>
        match assocN' e n3_echar_table with
        | Some v => k r3 (acc' ++ [v])
        | None =>
          if (e =? 117) || (e =? 85) then
            match n3_uescape (if e =? 117 then 4 else 8) e r3 with
            | Some (s, r4) => k r4 (acc' ++ s)
            | None => None
            end
          else None                                 (* bad escape *)
        end
      end
  end.

Fixpoint sc (fuel : nat) (q : N) (long : bool) (l : str) (acc : str) : option (str * str) :=
  match fuel with
  | O => None
  | S f =>
    match l with
    | [] => None                                          (* unterminated string literal *)
    | c :: r =>
      if c =? q then
        if negb long then Some (acc, r)
        else if is_prefix [q; q; q; q; q] l then Some (acc ++ [q; q], skipn 5 l)
        else if is_prefix [q; q; q; q] l then Some (acc ++ [q], skipn 4 l)
        else if is_prefix [q; q; q] l then Some (acc, skipn 3 l)
        else sc f q long r (acc ++ [q])
      else
        let '(chunk, rest) := span (fun x => negb (interesting x)) l in
        sc_dispatch (sc f q long) q long rest (acc ++ chunk)
    end
  end.
Definition strconst (q : N) (long : bool) (l : str) : option (str * str) := sc (S (length l)) q long l [].

(* ============================================================ Part S *)
(* [159s] ECHAR (Model.echar: t b n r f DQUOTE QUOTE BACKSLASH), [26] UCHAR (Model.uchar) *)
Definition t_escape (r : str) : option (N * str) :=      (* r: after the backslash *)
  match r with
  | e :: r' => match echar e with
               | Some v => Some (v, r')
               | None => uchar r
               end
  | [] => None
  end.

(* [22] / [23]: quote ([^ quote \ LF CR] | ECHAR | UCHAR)* quote ; input after the opening quote *)
Fixpoint t_short (fuel : nat) (q : N) (l : str) : option (str * str) :=
  match fuel with
  | O => None
  | S f =>
    match l with
    | [] => None
    | c :: r =>
      if c =? q then Some ([], r)
      else if c =? BSL then
        match t_escape r with
        | Some (v, r') => consv v (t_short f q r')
        | None => None
        end
      else if is_eol c then None
      else consv c (t_short f q r)
    end
  end.

(* [24] / [25]: qqq ((q | qq)? ([^ q \] | ECHAR | UCHAR))* qqq ; input after the opening three quotes *)
Definition appv (p : str) (x : option (str * str)) : option (str * str) :=
  match x with Some (v, r) => Some (p ++ v, r) | None => None end.
Fixpoint t_long (fuel : nat) (q : N) (l : str) : option (str * str) :=
  match fuel with
  | O => None
  | S f =>
    if is_prefix [q; q; q] l then Some ([], skipn 3 l)
    else
      let '(qs, l1) := if is_prefix [q; q] l then ([q; q], skipn 2 l)
                       else if is_prefix [q] l then ([q], skipn 1 l) else ([], l) in
      match l1 with
      | [] => None
      | c :: r =>
        if c =? q then None
        else if c =? BSL then
          match t_escape r with
          | Some (v, r') => appv (qs ++ [v]) (t_long f q r')
          | None => None
          end
        else appv (qs ++ [c]) (t_long f q r)
      end
  end.

Definition t_string (q : N) (long : bool) (l : str) : option (str * str) :=
  if long then t_long (S (length l)) q l else t_short (S (length l)) q l.

(* ---------------------------------------------------------------- case / observation / checker *)
Record scase := { s_q : N; s_long : bool; s_text : str }.      (* the text after the opening delimiter *)
(* (strconst called directly: value and the rest; the object of  <a:s> <a:p> OPEN text  when the text ends in " ." ) *)
Definition sobs := (option (str * str) * option (option str))%type.

Definition s_model (c : scase) : sobs := (strconst (s_q c) (s_long c) (s_text c), None).

Definition pair_eqb (a b : option (str * str)) : bool :=
  match a, b with
  | None, None => true
  | Some (x, y), Some (x', y') => str_eqb x x' && str_eqb y y'
  | _, _ => false
  end.
Definition sobs_eqb (a b : sobs) : bool := pair_eqb (fst a) (fst b).

(* a legal spelling (the grammar accepts it and what follows does not begin with the quote character) must be read to
   its denotation, by strconst itself and by the whole parser *)
Definition s_spec_ok (c : scase) (o : sobs) : bool :=
  match t_string (s_q c) (s_long c) (s_text c) with
  | Some (v, rest) =>
      starts_with (s_q c) rest ||
      (pair_eqb (fst o) (Some (v, rest)) &&
       match snd o with
       | Some got => if str_eqb rest [32; 46] then (match got with Some g => str_eqb g v | None => false end) else true
       | None => true
       end)
  | None => true
  end.
