(* Proofs about coq/Grammar/TurtleStr.v: every legal spelling of a Turtle string literal (all four quotings, ECHAR,
   UCHAR, raw line ends and quotes in the long forms) is read by SinkParser.strconst to the string it denotes. *)
From Coq Require Import Lia PeanoNat.
From RV Require Import Grammar.TurtleStr Grammar.Proofs Grammar.Reader Grammar.ReaderProofs Grammar.ResolveProofs.
Local Open Scope N_scope.

Lemma n3_patterns_pinned :
  n3_interesting_src = [91; 92; 92; 92; 114; 92; 110; 92; 34; 92; 39; 93]
  /\ n3_unicodeEscape4_src = [92; 92; 117; 40; 91; 48; 45; 57; 97; 45; 102; 65; 45; 70; 93; 123; 52; 125; 41]
  /\ n3_unicodeEscape8_src = [92; 92; 85; 40; 91; 48; 45; 57; 97; 45; 102; 65; 45; 70; 93; 123; 56; 125; 41].
Proof. repeat split; reflexivity. Qed.

(* the escape letters strconst knows contain ECHAR, with the same meaning *)
Lemma echar_table : forall e v, echar e = Some v -> assocN' e n3_echar_table = Some v.
Proof.
  intros e v H. unfold echar in H.
  destruct (e =? 116) eqn:E1; [apply N.eqb_eq in E1; subst; inversion H; reflexivity|].
  destruct (e =? 98) eqn:E2; [apply N.eqb_eq in E2; subst; inversion H; reflexivity|].
  destruct (e =? 110) eqn:E3; [apply N.eqb_eq in E3; subst; inversion H; reflexivity|].
  destruct (e =? 114) eqn:E4; [apply N.eqb_eq in E4; subst; inversion H; reflexivity|].
  destruct (e =? 102) eqn:E5; [apply N.eqb_eq in E5; subst; inversion H; reflexivity|].
  destruct (e =? 34) eqn:E6; [apply N.eqb_eq in E6; subst; inversion H; reflexivity|].
  destruct (e =? 39) eqn:E7; [apply N.eqb_eq in E7; subst; inversion H; reflexivity|].
  destruct (e =? 92) eqn:E8; [apply N.eqb_eq in E8; subst; inversion H; reflexivity|]. discriminate.
Qed.

Definition quote_char (q : N) : Prop := q = DQ \/ q = SQ.

(* ---- more fuel does not change a result *)
Lemma dispatch_mono : forall (F G : str -> str -> option (str * str)) q long rest acc res,
  (forall l a r, F l a = Some r -> G l a = Some r) ->
  sc_dispatch F q long rest acc = Some res -> sc_dispatch G q long rest acc = Some res.
Proof.
  intros F G q long rest acc res HFG H. unfold sc_dispatch in *.
  destruct rest as [|ch r2]; [discriminate|].
  destruct (ch =? q); [apply HFG; exact H|].
  destruct ((ch =? DQ) || (ch =? SQ)); [apply HFG; exact H|].
  destruct ((ch =? 13) || (ch =? 10)); [destruct long; [apply HFG; exact H|discriminate]|].
  destruct r2 as [|e r3]; [discriminate|].
  destruct (assocN' e n3_echar_table); [apply HFG; exact H|].
  destruct ((e =? 117) || (e =? 85)); [|discriminate].
  destruct (n3_uescape (if e =? 117 then 4%nat else 8%nat) e r3) as [[s r4]|]; [apply HFG; exact H|discriminate].
Qed.

Lemma sc_mono : forall n q long l acc res, sc n q long l acc = Some res -> sc (S n) q long l acc = Some res.
Proof.
  induction n as [|n IH]; intros q long l acc res H; [discriminate|].
  cbn [sc] in H. change (sc (S (S n)) q long l acc) with
    (match l with
     | [] => None
     | c :: r =>
       if c =? q then
         if negb long then Some (acc, r)
         else if is_prefix [q; q; q; q; q] l then Some (acc ++ [q; q], skipn 5 l)
         else if is_prefix [q; q; q; q] l then Some (acc ++ [q], skipn 4 l)
         else if is_prefix [q; q; q] l then Some (acc, skipn 3 l)
         else sc (S n) q long r (acc ++ [q])
       else
         let '(chunk, rest) := span (fun x => negb (interesting x)) l in
         sc_dispatch (sc (S n) q long) q long rest (acc ++ chunk)
     end).
  destruct l as [|c r]; [discriminate|].
  destruct (c =? q).
  - destruct (negb long); [exact H|].
    destruct (is_prefix [q; q; q; q; q] (c :: r)); [exact H|].
    destruct (is_prefix [q; q; q; q] (c :: r)); [exact H|].
    destruct (is_prefix [q; q; q] (c :: r)); [exact H|]. apply IH. exact H.
  - destruct (span (fun x => negb (interesting x)) (c :: r)) as [chunk rest].
    eapply dispatch_mono; [|exact H]. intros l a r0 Hr. apply IH. exact Hr.
Qed.
Lemma sc_mono_le : forall n m q long l acc res, (n <= m)%nat -> sc n q long l acc = Some res -> sc m q long l acc = Some res.
Proof.
  intros n m q long l acc res Hle H. induction Hle; [exact H|]. apply sc_mono. exact IHHle.
Qed.

(* ---- one source item at a time *)
Lemma quote_interesting : forall q, quote_char q -> interesting q = true.
Proof. intros q [H|H]; subst; reflexivity. Qed.

Lemma sc_step_ninteresting : forall m q long c r acc res, quote_char q ->
  interesting c = false -> sc m q long r (acc ++ [c]) = Some res -> sc (S m) q long (c :: r) acc = Some res.
Proof.
  intros m q long c r acc res Hq Hc H.
  assert (Ecq : (c =? q) = false).
  { destruct (c =? q) eqn:E; [|reflexivity]. apply N.eqb_eq in E. subst c. rewrite (quote_interesting q Hq) in Hc. discriminate. }
  cbn [sc]. rewrite Ecq. cbn [span]. rewrite Hc. cbn [negb].
  destruct (span (fun x => negb (interesting x)) r) as [ch' rest'] eqn:Es.
  destruct m as [|m0]; [discriminate|]. cbn [sc] in H.
  destruct r as [|d r']; [discriminate|].
  destruct (d =? q) eqn:Edq.
  - (* the next character is the delimiter: the chunk is [c] and the loop comes back at it *)
    apply N.eqb_eq in Edq. subst d. cbn [span] in Es. rewrite (quote_interesting q Hq) in Es. cbn [negb] in Es.
    inversion Es; subst ch' rest'. unfold sc_dispatch. rewrite N.eqb_refl.
    cbn [sc]. rewrite N.eqb_refl. exact H.
  - rewrite Es in H. eapply dispatch_mono; [|rewrite <- app_assoc in H; exact H].
    intros l a r0 Hr. apply sc_mono. exact Hr.
Qed.

Lemma sc_step_raw : forall m q long c r acc res,
  (c =? q) = false -> interesting c = true -> (c =? BSL) = false ->
  (((c =? 13) || (c =? 10)) = true -> long = true) ->
  sc m q long r (acc ++ [c]) = Some res -> sc (S m) q long (c :: r) acc = Some res.
Proof.
  intros m q long c r acc res Ecq Hi Eb Hl H. cbn [sc]. rewrite Ecq. cbn [span]. rewrite Hi. cbn [negb].
  unfold sc_dispatch. rewrite Ecq, app_nil_r.
  destruct ((c =? DQ) || (c =? SQ)) eqn:Eq; [exact H|].
  destruct ((c =? 13) || (c =? 10)) eqn:El; [pose proof (Hl eq_refl) as Hlt; subst long; exact H|].
  exfalso. unfold interesting in Hi. rewrite Eb in Hi. apply orb_false_iff in Eq. apply orb_false_iff in El.
  destruct Eq as [A B]. destruct El as [C D]. rewrite A, B, C, D in Hi. discriminate.
Qed.

Lemma sc_step_escape : forall m q long r v r' acc res, quote_char q ->
  t_escape r = Some (v, r') -> sc m q long r' (acc ++ [v]) = Some res -> sc (S m) q long (BSL :: r) acc = Some res.
Proof.
  intros m q long r v r' acc res Hq He H.
  assert (Ebq : (BSL =? q) = false) by (destruct Hq; subst; reflexivity).
  cbn [sc]. rewrite Ebq. cbn [span]. change (interesting BSL) with true. cbn [negb].
  unfold sc_dispatch. rewrite Ebq, app_nil_r. change ((BSL =? DQ) || (BSL =? SQ)) with false.
  change ((BSL =? 13) || (BSL =? 10)) with false. cbv iota.
  unfold t_escape in He. destruct r as [|e r3]; [discriminate|].
  destruct (echar e) as [x|] eqn:Ee.
  - inversion He; subst. rewrite (echar_table e v Ee). exact H.
  - destruct (uchar_spec _ _ _ He) as [e' [hs [L1 [L2 [L3 [L4 L5]]]]]]. inversion L1; subst e' r3. clear L1.
    assert (Ea : assocN' e n3_echar_table = None) by (destruct L2; subst; reflexivity). rewrite Ea.
    assert (Eu : ((e =? 117) || (e =? 85)) = true) by (destruct L2; subst; reflexivity). rewrite Eu.
    assert (Hh : n3_uescape (if e =? 117 then 4%nat else 8%nat) e (hs ++ r') = Some ([v], r')).
    { unfold n3_uescape. specialize (L5 r'). unfold rd_uchar in L5.
      destruct L2; subst e.
      - change (117 =? 117) with true in *. cbv iota in *. rewrite L5. apply N.leb_le in L4. rewrite L4. reflexivity.
      - change (85 =? 117) with false in *. change (85 =? 85) with true in *. cbv iota in *. rewrite L5.
        apply N.leb_le in L4. rewrite L4. reflexivity. }
    rewrite Hh. exact H.
Qed.

(* ---- short strings: [22] and [23] *)
Theorem short_string_read : forall n q l v rest, quote_char q -> t_short n q l = Some (v, rest) ->
  forall acc, exists m, (m <= S (length l))%nat /\ sc m q false l acc = Some (acc ++ v, rest).
Proof.
  induction n as [|n IH]; intros q l v rest Hq H acc; [discriminate|].
  cbn [t_short] in H. destruct l as [|c r]; [discriminate|].
  destruct (c =? q) eqn:Ecq.
  - inversion H; subst. exists 1%nat. split; [simpl; lia|]. cbn [sc]. rewrite Ecq. cbn [negb]. rewrite app_nil_r. reflexivity.
  - destruct (c =? BSL) eqn:Eb.
    + apply N.eqb_eq in Eb. subst c. destruct (t_escape r) as [[x r']|] eqn:Ee; [|discriminate].
      destruct (t_short n q r') as [[v' rest']|] eqn:Et; [|discriminate]. cbn [consv] in H. inversion H; subst.
      destruct (IH q r' v' rest Hq Et (acc ++ [x])) as [m [Hm Hs]].
      exists (S m). split.
      * assert (length r' < length r)%nat.
        { unfold t_escape in Ee. destruct r as [|e r3]; [discriminate|]. destruct (echar e).
          - inversion Ee; subst. simpl. lia.
          - destruct (uchar_spec _ _ _ Ee) as [e' [hs [L1 _]]]. inversion L1; subst. simpl. rewrite app_length. lia. }
        simpl. lia.
      * apply (sc_step_escape m q false r x r' acc _ Hq Ee). rewrite <- app_assoc in Hs. exact Hs.
    + destruct (is_eol c) eqn:Eeol; [discriminate|].
      destruct (t_short n q r) as [[v' rest']|] eqn:Et; [|discriminate]. cbn [consv] in H. inversion H; subst.
      destruct (IH q r v' rest Hq Et (acc ++ [c])) as [m [Hm Hs]]. rewrite <- app_assoc in Hs.
      exists (S m). split; [simpl; lia|].
      destruct (interesting c) eqn:Ei.
      * apply sc_step_raw; auto. intro Hcr. unfold is_eol in Eeol. rewrite orb_comm in Hcr. rewrite Hcr in Eeol. discriminate.
      * apply sc_step_ninteresting; auto.
Qed.

(* ---- long strings: [24] and [25] *)
Lemma is_prefix_shorter : forall p p' l, is_prefix (p ++ p') l = true -> is_prefix p l = true.
Proof.
  induction p as [|x p IH]; intros p' l H; [reflexivity|]. destruct l as [|y l]; [discriminate|].
  cbn [app is_prefix] in *. apply andb_true_iff in H. destruct H as [H1 H2]. rewrite H1. cbn [andb]. eapply IH. exact H2.
Qed.

Lemma sc_step_quote : forall m q r acc res, is_prefix [q; q; q] (q :: r) = false ->
  sc m q true r (acc ++ [q]) = Some res -> sc (S m) q true (q :: r) acc = Some res.
Proof.
  intros m q r acc res H3 H. cbn [sc]. rewrite N.eqb_refl. cbn [negb].
  assert (H5 : is_prefix [q; q; q; q; q] (q :: r) = false).
  { destruct (is_prefix [q; q; q; q; q] (q :: r)) eqn:E; [|reflexivity].
    rewrite (is_prefix_shorter [q; q; q] [q; q] (q :: r) E) in H3. discriminate. }
  assert (H4 : is_prefix [q; q; q; q] (q :: r) = false).
  { destruct (is_prefix [q; q; q; q] (q :: r)) eqn:E; [|reflexivity].
    rewrite (is_prefix_shorter [q; q; q] [q] (q :: r) E) in H3. discriminate. }
  rewrite H5, H4, H3. exact H.
Qed.

Lemma sc_end_long : forall m q l acc, is_prefix [q; q; q] l = true -> starts_with q (skipn 3 l) = false ->
  sc (S m) q true l acc = Some (acc, skipn 3 l).
Proof.
  intros m q l acc H3 Hr. pose proof (is_prefix_app _ _ H3) as E. cbn [length] in E.
  destruct l as [|c r]; [discriminate|]. cbn [sc].
  assert (Ec : (c =? q) = true).
  { cbn [is_prefix] in H3. apply andb_true_iff in H3. destruct H3 as [H3 _]. rewrite N.eqb_sym. exact H3. }
  rewrite Ec. cbn [negb].
  assert (H4 : is_prefix [q; q; q; q] (c :: r) = false).
  { destruct (is_prefix [q; q; q; q] (c :: r)) eqn:E4; [|reflexivity].
    pose proof (is_prefix_app _ _ E4) as E'. cbn [length] in E'.
    rewrite E' in Hr. cbn [app skipn starts_with] in Hr. rewrite N.eqb_refl in Hr. discriminate. }
  assert (H5 : is_prefix [q; q; q; q; q] (c :: r) = false).
  { destruct (is_prefix [q; q; q; q; q] (c :: r)) eqn:E5; [|reflexivity].
    rewrite (is_prefix_shorter [q; q; q; q] [q] (c :: r) E5) in H4. discriminate. }
  rewrite H5, H4, H3. reflexivity.
Qed.

(* one item of the content: a character that is not the quote or the backslash, or an escape *)
Lemma sc_item : forall m q c r acc res, quote_char q -> (c =? q) = false -> (c =? BSL) = false ->
  sc m q true r (acc ++ [c]) = Some res -> sc (S m) q true (c :: r) acc = Some res.
Proof.
  intros m q c r acc res Hq Ecq Eb H. destruct (interesting c) eqn:Ei.
  - apply sc_step_raw; auto.
  - apply sc_step_ninteresting; auto.
Qed.

Theorem long_string_read : forall n q l v rest, quote_char q -> t_long n q l = Some (v, rest) ->
  starts_with q rest = false ->
  forall acc, exists m, (m <= S (length l))%nat /\ sc m q true l acc = Some (acc ++ v, rest).
Proof.
  induction n as [|n IH]; intros q l v rest Hq H Hr acc; [discriminate|].
  cbn [t_long] in H.
  destruct (is_prefix [q; q; q] l) eqn:P3.
  { inversion H; subst. exists 1%nat. split; [lia|]. rewrite app_nil_r. apply sc_end_long; assumption. }
  (* the content item after zero, one or two quotes *)
  assert (Item : forall l1 qs accq, (qs = [] \/ qs = [q] \/ qs = [q; q]) ->
            match l1 with
            | [] => None
            | c :: r => if c =? q then None
                        else if c =? BSL then match t_escape r with
                                              | Some (v0, r') => appv (qs ++ [v0]) (t_long n q r')
                                              | None => None end
                        else appv (qs ++ [c]) (t_long n q r)
            end = Some (v, rest) ->
            exists m, (m <= S (length l1))%nat /\ exists v1, v = qs ++ v1 /\ sc m q true l1 accq = Some (accq ++ v1, rest)).
  { intros l1 qs accq _ Hi. destruct l1 as [|c r]; [discriminate|].
    destruct (c =? q) eqn:Ecq; [discriminate|].
    destruct (c =? BSL) eqn:Eb.
    - apply N.eqb_eq in Eb. subst c. destruct (t_escape r) as [[x r']|] eqn:Ee; [|discriminate].
      destruct (t_long n q r') as [[v' rest']|] eqn:Et; [|discriminate]. cbn [appv] in Hi. inversion Hi; subst.
      destruct (IH q r' v' rest Hq Et Hr (accq ++ [x])) as [m [Hm Hs]]. rewrite <- app_assoc in Hs.
      exists (S m). split.
      + assert (length r' < length r)%nat.
        { unfold t_escape in Ee. destruct r as [|e r3]; [discriminate|]. destruct (echar e).
          - inversion Ee; subst. simpl. lia.
          - destruct (uchar_spec _ _ _ Ee) as [e' [hs [L1 _]]]. inversion L1; subst. simpl. rewrite app_length. lia. }
        simpl. lia.
      + exists ([x] ++ v'). split; [rewrite <- app_assoc; reflexivity|].
        apply (sc_step_escape m q true r x r' accq _ Hq Ee). exact Hs.
    - destruct (t_long n q r) as [[v' rest']|] eqn:Et; [|discriminate]. cbn [appv] in Hi. inversion Hi; subst.
      destruct (IH q r v' rest Hq Et Hr (accq ++ [c])) as [m [Hm Hs]]. rewrite <- app_assoc in Hs.
      exists (S m). split; [simpl; lia|]. exists ([c] ++ v'). split; [rewrite <- app_assoc; reflexivity|].
      apply sc_item; auto. }
  destruct (is_prefix [q; q] l) eqn:P2.
  - destruct l as [|a [|b l1]]; try discriminate. cbn [is_prefix] in P2.
    apply andb_true_iff in P2. destruct P2 as [A B]. apply andb_true_iff in B. destruct B as [B _].
    apply N.eqb_eq in A. apply N.eqb_eq in B. subst a b. cbn [skipn] in H.
    destruct (Item l1 [q; q] ((acc ++ [q]) ++ [q])) as [m [Hm [v1 [Ev Hs]]]]; [auto|exact H|].
    exists (S (S m)). split; [simpl; lia|]. subst v.
    apply sc_step_quote; [exact P3|]. apply sc_step_quote.
    + destruct l1 as [|c r]; [cbn [is_prefix]; rewrite andb_false_r; reflexivity|]. cbn [is_prefix] in P3 |- *. rewrite !N.eqb_refl in P3. cbn [andb] in P3.
      rewrite N.eqb_refl. cbn [andb]. destruct (q =? c); [discriminate|reflexivity].
    + rewrite <- ?app_assoc in Hs. rewrite <- ?app_assoc. cbn [app] in Hs |- *. rewrite <- ?app_assoc in Hs. cbn [app] in Hs. exact Hs.
  - destruct (is_prefix [q] l) eqn:P1.
    + destruct l as [|a l1]; try discriminate. cbn [is_prefix] in P1.
      apply andb_true_iff in P1. destruct P1 as [A _]. apply N.eqb_eq in A. subst a. cbn [skipn] in H.
      destruct (Item l1 [q] (acc ++ [q])) as [m [Hm [v1 [Ev Hs]]]]; [auto|exact H|].
      exists (S m). split; [simpl; lia|]. subst v. apply sc_step_quote; [exact P3|].
      rewrite <- ?app_assoc in Hs. rewrite <- ?app_assoc. cbn [app] in Hs |- *. rewrite <- ?app_assoc in Hs. cbn [app] in Hs. exact Hs.
    + destruct (Item l [] acc) as [m [Hm [v1 [Ev Hs]]]]; [auto|exact H|].
      exists m. split; [lia|]. subst v. exact Hs.
Qed.

(* the whole of strconst, with the fuel its definition uses *)
Theorem strconst_reads_legal : forall q long l v rest, quote_char q ->
  t_string q long l = Some (v, rest) -> (long = true -> starts_with q rest = false) ->
  strconst q long l = Some (v, rest).
Proof.
  intros q long l v rest Hq H Hr. unfold strconst, t_string in *. destruct long.
  - destruct (long_string_read _ _ _ _ _ Hq H (Hr eq_refl) []) as [m [Hm Hs]].
    apply (sc_mono_le m _ _ _ _ _ _ Hm). exact Hs.
  - destruct (short_string_read _ _ _ _ _ Hq H []) as [m [Hm Hs]].
    apply (sc_mono_le m _ _ _ _ _ _ Hm). exact Hs.
Qed.

Theorem s_spec_ok_model : forall c, quote_char (s_q c) -> s_spec_ok c (s_model c) = true.
Proof.
  intros c Hq. unfold s_spec_ok, s_model. cbn [fst snd].
  destruct (t_string (s_q c) (s_long c) (s_text c)) as [[v rest]|] eqn:Et; [|reflexivity].
  destruct (starts_with (s_q c) rest) eqn:Es; [reflexivity|]. cbn [orb].
  rewrite (strconst_reads_legal _ _ _ _ _ Hq Et (fun _ => Es)). cbn [pair_eqb]. rewrite !str_eqb_refl. reflexivity.
Qed.
