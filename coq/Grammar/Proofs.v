(* Proofs about coq/Grammar/Model.v: what rdflib's N-Triples / N-Quads writer
   emits for a well-formed row outside the finding triggers is read back by the
   strict W3C reader as exactly that row. *)
From Coq Require Import Lia.
From RV Require Import Grammar.Model.
Local Open Scope N_scope.

(* ------------------------------------------------------------ equality deciders *)
Lemma str_eqb_eq : forall a b, str_eqb a b = true <-> a = b.
Proof.
  induction a as [|x a IH]; destruct b as [|y b]; simpl; split; intro H; try congruence; try discriminate.
  - apply andb_true_iff in H. destruct H as [H1 H2]. apply N.eqb_eq in H1. apply IH in H2. congruence.
  - inversion H; subst. rewrite N.eqb_refl. simpl. apply IH. reflexivity.
Qed.
Lemma str_eqb_refl : forall a, str_eqb a a = true.
Proof. intro a. apply str_eqb_eq. reflexivity. Qed.
Lemma lkind_eqb_eq : forall a b, lkind_eqb a b = true <-> a = b.
Proof.
  destruct a, b; simpl; split; intro H; try congruence; try discriminate;
    try (apply str_eqb_eq in H; congruence); try (inversion H; apply str_eqb_refl).
Qed.
Lemma term_eqb_eq : forall a b, term_eqb a b = true <-> a = b.
Proof.
  destruct a, b; simpl; split; intro H; try congruence; try discriminate.
  - apply str_eqb_eq in H. congruence.
  - inversion H. apply str_eqb_refl.
  - apply str_eqb_eq in H. congruence.
  - inversion H. apply str_eqb_refl.
  - apply andb_true_iff in H. destruct H as [H1 H2]. apply str_eqb_eq in H1. apply lkind_eqb_eq in H2. congruence.
  - inversion H. rewrite str_eqb_refl. simpl. apply lkind_eqb_eq. reflexivity.
Qed.
Lemma quad_eqb_eq : forall a b, quad_eqb a b = true <-> a = b.
Proof.
  intros [[[s p] o] g] [[[s' p'] o'] g']. unfold quad_eqb, triple_eqb. simpl. split; intro H.
  - repeat (apply andb_true_iff in H; destruct H as [H ?]).
    apply term_eqb_eq in H. apply term_eqb_eq in H2. apply term_eqb_eq in H1.
    destruct g, g'; simpl in H0; try discriminate; try (apply term_eqb_eq in H0); congruence.
  - inversion H; subst. rewrite !(proj2 (term_eqb_eq _ _) eq_refl). simpl.
    destruct g'; simpl; auto. apply term_eqb_eq. reflexivity.
Qed.
Lemma quad_eqb_refl : forall q, quad_eqb q q = true.
Proof. intro q. apply quad_eqb_eq. reflexivity. Qed.

Lemma qmem_In : forall q l, qmem q l = true <-> In q l.
Proof.
  intros q l. unfold qmem. rewrite existsb_exists. split.
  - intros [x [Hx He]]. apply quad_eqb_eq in He. subst. exact Hx.
  - intro H. exists q. split; [exact H|apply quad_eqb_refl].
Qed.
Lemma qset_eqb_iff : forall a b, qset_eqb a b = true <-> (forall q, In q a <-> In q b).
Proof.
  intros a b. unfold qset_eqb, qincl. rewrite andb_true_iff, !forallb_forall. split.
  - intros [H1 H2] q. split; intro H; [apply qmem_In, H1, H|apply qmem_In, H2, H].
  - intro H. split; intros q Hq; apply qmem_In, H, Hq.
Qed.
Lemma qset_eqb_refl : forall a, qset_eqb a a = true.
Proof. intro a. apply qset_eqb_iff. tauto. Qed.

(* ------------------------------------------------------------ small tools *)
Lemma memN_In : forall c l, memN c l = true <-> In c l.
Proof.
  induction l as [|x l IH]; simpl; [split; [discriminate|tauto]|].
  rewrite orb_true_iff, N.eqb_eq, IH. split; intros [H|H]; auto.
Qed.
Lemma memN_false : forall x s c, memN x s = false -> In c s -> (c =? x) = false.
Proof.
  intros x s c Hm Hi. destruct (c =? x) eqn:E; [|reflexivity].
  apply N.eqb_eq in E. subst. apply memN_In in Hi. congruence.
Qed.

Lemma span_app : forall p a x rest, forallb p a = true -> p x = false ->
  span p (a ++ x :: rest) = (a, x :: rest).
Proof.
  induction a as [|c a IH]; simpl; intros x rest Ha Hx.
  - rewrite Hx. reflexivity.
  - apply andb_true_iff in Ha. destruct Ha as [Hc Ha]. rewrite Hc, (IH _ _ Ha Hx). reflexivity.
Qed.

Lemma span_app2 : forall p a b, forallb p a = true ->
  match b with x :: _ => p x = false | [] => True end -> span p (a ++ b) = (a, b).
Proof.
  induction a as [|c a IH]; simpl; intros b Ha Hb.
  - destruct b as [|x b]; [reflexivity|]. simpl. rewrite Hb. reflexivity.
  - apply andb_true_iff in Ha. destruct Ha as [Hc Ha]. rewrite Hc, (IH _ Ha Hb). reflexivity.
Qed.

Lemma skip_ws_nws : forall c r, is_ws c = false -> skip_ws (c :: r) = c :: r.
Proof. intros c r H. simpl. rewrite H. reflexivity. Qed.

(* ------------------------------------------------------------ _quote_encode *)
Definition esc (c : N) : str :=
  if c =? 92 then [92; 92] else if c =? 10 then [92; 110]
  else if c =? 34 then [92; 34] else if c =? 13 then [92; 114] else [c].

Lemma flat_map_flat_map : forall (f g : N -> str) s,
  flat_map g (flat_map f s) = flat_map (fun c => flat_map g (f c)) s.
Proof.
  induction s as [|c s IH]; simpl; [reflexivity|]. rewrite flat_map_app, IH. reflexivity.
Qed.

(* the four chained str.replace calls are one left-to-right pass *)
Lemma quote_encode_one_pass : forall s, quote_encode s = 34 :: flat_map esc s ++ [34].
Proof.
  intro s. unfold quote_encode, replace1. f_equal. f_equal.
  rewrite !flat_map_flat_map. apply flat_map_ext. intro c. unfold esc.
  destruct (c =? 92) eqn:E92.
  { apply N.eqb_eq in E92. subst. reflexivity. }
  destruct (c =? 10) eqn:E10.
  { apply N.eqb_eq in E10. subst. reflexivity. }
  destruct (c =? 34) eqn:E34.
  { apply N.eqb_eq in E34. subst. reflexivity. }
  destruct (c =? 13) eqn:E13.
  { apply N.eqb_eq in E13. subst. reflexivity. }
  simpl. rewrite E10. simpl. rewrite E34. simpl. rewrite E13. reflexivity.
Qed.

(* ------------------------------------------------------------ STRING_LITERAL_QUOTE *)
Lemma str_body_esc : forall s rest n, (length s < n)%nat ->
  str_body n (flat_map esc s ++ 34 :: rest) = Some (s, rest).
Proof.
  induction s as [|c s IH]; intros rest n Hn.
  - destruct n; [inversion Hn|]. reflexivity.
  - destruct n; [inversion Hn|]. simpl in Hn. assert (Hn' : (length s < n)%nat) by lia.
    cbn [flat_map]. unfold esc at 1.
    destruct (c =? 92) eqn:E92.
    { apply N.eqb_eq in E92. subst. cbn. rewrite (IH rest n Hn'). reflexivity. }
    destruct (c =? 10) eqn:E10.
    { apply N.eqb_eq in E10. subst. cbn. rewrite (IH rest n Hn'). reflexivity. }
    destruct (c =? 34) eqn:E34.
    { apply N.eqb_eq in E34. subst. cbn. rewrite (IH rest n Hn'). reflexivity. }
    destruct (c =? 13) eqn:E13.
    { apply N.eqb_eq in E13. subst. cbn. rewrite (IH rest n Hn'). reflexivity. }
    cbn [app str_body]. rewrite E34, E92. unfold is_eol. rewrite E10, E13. cbn [orb].
    rewrite (IH rest n Hn'). reflexivity.
Qed.

(* ------------------------------------------------------------ IRIREF *)
Lemma iri_plain_not_delim : forall c, iri_plain c = true -> (c =? 62) = false /\ (c =? 92) = false.
Proof.
  intros c H. unfold iri_plain in H. apply andb_true_iff in H. destruct H as [_ H].
  apply negb_true_iff in H.
  split.
  - destruct (c =? 62) eqn:E; [|reflexivity]. apply N.eqb_eq in E. subst. discriminate H.
  - destruct (c =? 92) eqn:E; [|reflexivity]. apply N.eqb_eq in E. subst. discriminate H.
Qed.

Lemma iri_body_plain : forall s rest n, forallb iri_plain s = true -> (length s < n)%nat ->
  iri_body n (s ++ 62 :: rest) = Some (s, rest).
Proof.
  induction s as [|c s IH]; intros rest n Hs Hn.
  - destruct n; [inversion Hn|]. reflexivity.
  - destruct n; [inversion Hn|]. simpl in Hn. simpl in Hs. apply andb_true_iff in Hs. destruct Hs as [Hc Hs].
    destruct (iri_plain_not_delim c Hc) as [E62 E92].
    cbn [app iri_body]. rewrite E62, E92, Hc. rewrite (IH rest n Hs) by lia. reflexivity.
Qed.

Lemma p_iriref_plain : forall s rest, forallb iri_plain s = true -> has_scheme s = true ->
  p_iriref (60 :: s ++ 62 :: rest) = Some (s, rest).
Proof.
  intros s rest Hs Hh. unfold p_iriref. rewrite N.eqb_refl. unfold p_iri_tail.
  rewrite iri_body_plain; [rewrite Hh; reflexivity|exact Hs|].
  rewrite app_length. simpl. lia.
Qed.

(* what _is_valid_uri guarantees, over the table reflected from the source: every character the IRIREF
   production excludes (U+0000-U+0020 and the punctuation) is in _invalid_uri_chars *)
Lemma table_covers_grammar :
  forallb (fun x => memN x invalid_uri_chars) (map N.of_nat (seq 0 33) ++ iri_forbidden) = true.
Proof. vm_compute. reflexivity. Qed.

Lemma le32_in_table : forall c, c <= 32 -> In c (map N.of_nat (seq 0 33)).
Proof.
  intros c H. replace c with (N.of_nat (N.to_nat c)) by apply N2Nat.id.
  apply in_map. apply in_seq. lia.
Qed.

Lemma valid_uri_iri_ok : forall s, valid_uri s = true -> forallb iri_plain s = true.
Proof.
  intros s Hv. apply forallb_forall. intros c Hin.
  unfold valid_uri in Hv. rewrite forallb_forall in Hv.
  assert (Hno : forall x, In x (map N.of_nat (seq 0 33) ++ iri_forbidden) -> (c =? x) = false).
  { intros x Hx. pose proof table_covers_grammar as T. rewrite forallb_forall in T.
    specialize (T x Hx). apply memN_In in T. specialize (Hv x T). apply negb_true_iff in Hv.
    eapply memN_false; eauto. }
  unfold iri_plain. apply andb_true_iff. split.
  - apply negb_true_iff. destruct (c <=? 32) eqn:E; [|reflexivity].
    apply N.leb_le in E. specialize (Hno c (in_or_app _ _ _ (or_introl (le32_in_table c E)))).
    rewrite N.eqb_refl in Hno. discriminate.
  - apply negb_true_iff. destruct (memN c iri_forbidden) eqn:E; [|reflexivity].
    apply memN_In in E. specialize (Hno c (in_or_app _ _ _ (or_intror E))). rewrite N.eqb_refl in Hno. discriminate.
Qed.

(* and conversely: _is_valid_uri refuses nothing that the IRIREF production allows (an over-strict table breaks this) *)
Lemma table_within_grammar :
  forallb (fun x => (x <=? 32) || memN x iri_forbidden) invalid_uri_chars = true.
Proof. vm_compute. reflexivity. Qed.

Lemma iri_ok_valid_uri : forall s, forallb iri_plain s = true -> valid_uri s = true.
Proof.
  intros s H. unfold valid_uri. apply forallb_forall. intros x Hx. apply negb_true_iff.
  destruct (memN x s) eqn:E; [|reflexivity]. apply memN_In in E. rewrite forallb_forall in H. specialize (H x E).
  pose proof table_within_grammar as T. rewrite forallb_forall in T. specialize (T x Hx).
  unfold iri_plain in H. apply andb_true_iff in H. destruct H as [H1 H2].
  apply negb_true_iff in H1. apply negb_true_iff in H2. rewrite H1, H2 in T. discriminate.
Qed.

Lemma wf_iri_parts : forall s, wf_iri s = true -> valid_uri s = true /\ has_scheme s = true.
Proof.
  intros s H. unfold wf_iri in H. apply andb_true_iff in H. destruct H as [H1 H2]. split; [apply iri_ok_valid_uri; exact H1|exact H2].
Qed.

(* ------------------------------------------------------------ BLANK_NODE_LABEL *)
Lemma strip_dots_id : forall t, (last t 0 =? 46) = false -> strip_dots t = (t, []).
Proof.
  induction t as [|c t IH]; intro H; [reflexivity|].
  destruct t as [|c' t'].
  - simpl in H. simpl. rewrite H. reflexivity.
  - change (last (c :: c' :: t') 0) with (last (c' :: t') 0) in H.
    specialize (IH H). cbn [strip_dots] in *. rewrite IH. reflexivity.
Qed.

Lemma p_bnode_label : forall s x rest, valid_label s = true -> label_char x = false ->
  p_bnode (95 :: 58 :: s ++ x :: rest) = Some (s, x :: rest).
Proof.
  intros s x rest Hv Hx. destruct s as [|c t]; [discriminate|].
  unfold valid_label in Hv. apply andb_true_iff in Hv. destruct Hv as [Hv Hl].
  apply andb_true_iff in Hv. destruct Hv as [Hc Ht]. apply negb_true_iff in Hl.
  cbn [app p_bnode]. rewrite !N.eqb_refl, Hc. cbn [andb].
  rewrite (span_app label_char t x rest Ht Hx). rewrite (strip_dots_id t Hl). reflexivity.
Qed.

(* ------------------------------------------------------------ LANGTAG *)
Lemma split_dash_join : forall l,
  match split_dash l with
  | p :: ps => l = p ++ concat (map (cons 45) ps)
  | [] => False
  end.
Proof.
  induction l as [|c l IH]; [reflexivity|].
  cbn [split_dash]. destruct (split_dash l) as [|p ps]; [contradiction|].
  destruct (c =? 45) eqn:E.
  - apply N.eqb_eq in E. subst c. cbn [map concat app]. f_equal. exact IH.
  - cbn [app]. f_equal. exact IH.
Qed.

Lemma is_alpha_not_45 : is_alpha 45 = false. Proof. reflexivity. Qed.
Lemma is_alnum_not_45 : is_alnum 45 = false. Proof. reflexivity. Qed.

Lemma subtags_pieces : forall subs x rest n,
  forallb (nonempty_all is_alnum) subs = true -> is_alnum x = false -> (x =? 45) = false ->
  (length subs <= n)%nat ->
  subtags n (concat (map (cons 45) subs) ++ x :: rest) = (concat (map (cons 45) subs), x :: rest).
Proof.
  induction subs as [|p subs IH]; intros x rest n Hs Hx Hd Hn.
  - cbn [map concat app]. destruct n; [reflexivity|]. cbn [subtags]. rewrite Hd. reflexivity.
  - destruct n; [inversion Hn|]. simpl in Hn. simpl in Hs. apply andb_true_iff in Hs. destruct Hs as [Hp Hs].
    destruct p as [|a p]; [discriminate|]. unfold nonempty_all in Hp.
    cbn [map concat]. rewrite <- !app_assoc. cbn [app subtags]. rewrite N.eqb_refl.
    change (a :: p ++ concat (map (cons 45) subs) ++ x :: rest)
      with ((a :: p) ++ (concat (map (cons 45) subs) ++ x :: rest)).
    assert (Hspan : span is_alnum ((a :: p) ++ concat (map (cons 45) subs) ++ x :: rest)
                    = (a :: p, concat (map (cons 45) subs) ++ x :: rest)).
    { apply span_app2; [exact Hp|]. destruct subs as [|q subs']; cbn [map concat app]; [exact Hx|reflexivity]. }
    rewrite Hspan. rewrite (IH x rest n Hs Hx Hd) by lia. reflexivity.
Qed.

Lemma p_langtag_w3c : forall l x rest, w3c_langtag l = true -> is_alnum x = false -> (x =? 45) = false ->
  p_langtag (l ++ x :: rest) = Some (l, x :: rest).
Proof.
  intros l x rest Hw Hx Hd. unfold w3c_langtag in Hw.
  pose proof (split_dash_join l) as J. destruct (split_dash l) as [|prim subs]; [contradiction|].
  apply andb_true_iff in Hw. destruct Hw as [Hp Hs].
  destruct prim as [|a prim]; [discriminate|]. unfold nonempty_all in Hp.
  assert (Hxa : is_alpha x = false).
  { unfold is_alnum in Hx. apply orb_false_iff in Hx. tauto. }
  subst l. rewrite <- app_assoc. unfold p_langtag.
  assert (Hspan : span is_alpha ((a :: prim) ++ concat (map (cons 45) subs) ++ x :: rest)
                  = (a :: prim, concat (map (cons 45) subs) ++ x :: rest)).
  { apply span_app2; [exact Hp|]. destruct subs as [|q subs']; cbn [map concat app]; [exact Hxa|reflexivity]. }
  rewrite Hspan.
  rewrite (subtags_pieces subs x rest _ Hs Hx Hd).
  - reflexivity.
  - rewrite app_length. clear. induction subs as [|p subs IH]; simpl; [lia|].
    rewrite app_length. simpl in IH. lia.
Qed.

(* ------------------------------------------------------------ terms *)
Lemma first_nz_zero : forall l, first_nz l = 0 -> forall x, In x l -> x = 0.
Proof.
  unfold first_nz. induction l as [|a l IH]; intros H x Hx; [contradiction|].
  simpl in H. destruct (a =? 0) eqn:E; simpl in H.
  - apply N.eqb_eq in E. destruct Hx as [Hx|Hx]; [congruence|apply IH; assumption].
  - subst a. discriminate.
Qed.

Definition head_in (cs : list N) (a : str) : Prop :=
  match a with c :: _ => In c cs | [] => False end.

Lemma n3_head : forall t a, n3 t = Some a -> head_in [60; 95] a.
Proof.
  intros [s|s|lex k] a H; simpl in H.
  - unfold iri_n3 in H. destruct (valid_uri s); inversion H. simpl. auto.
  - inversion H. simpl. auto.
  - discriminate.
Qed.
Lemma obj_text_head : forall t a, obj_text t = Some a -> head_in [34; 60; 95] a.
Proof.
  intros t a H. destruct t as [s|s|lex k].
  - change (n3 (Iri s) = Some a) in H. apply n3_head in H. destruct a; simpl in *; tauto.
  - change (n3 (Bn s) = Some a) in H. apply n3_head in H. destruct a; simpl in *; tauto.
  - simpl in H. destruct (lit_exists k); [|discriminate].
    unfold quote_literal in H.
    destruct k as [|[|c l]|[|c d]]; try (inversion H; unfold quote_encode; simpl; auto).
    destruct (iri_n3 (c :: d)); inversion H. unfold quote_encode. simpl. auto.
Qed.
Lemma skip_ws_head : forall a X, head_in [34; 60; 95] a -> skip_ws (a ++ X) = a ++ X.
Proof.
  intros [|c a] X H; [contradiction|]. simpl in H.
  cbn [app]. apply skip_ws_nws.
  destruct H as [H|[H|[H|[]]]]; subst; reflexivity.
Qed.
Lemma head_weaken : forall a, head_in [60; 95] a -> head_in [34; 60; 95] a.
Proof. intros [|c a]; simpl; tauto. Qed.

Lemma p_subject_n3 : forall t a rest, wf_node t = true -> term_kf t = 0 -> n3 t = Some a ->
  p_subject (a ++ 32 :: rest) = Some (t, 32 :: rest).
Proof.
  intros [s|s|lex k] a rest Hwf Hkf Hn; simpl in Hwf, Hkf, Hn; try discriminate.
  - destruct (wf_iri_parts _ Hwf) as [Hv Hs].
    unfold iri_n3 in Hn. rewrite Hv in Hn. inversion Hn; subst a. clear Hn.
    change ((60 :: s ++ [62]) ++ 32 :: rest) with (60 :: (s ++ [62]) ++ 32 :: rest).
    rewrite <- app_assoc. cbn [app].
    unfold p_subject. cbn [starts_with]. rewrite N.eqb_refl.
    rewrite p_iriref_plain; [reflexivity|apply valid_uri_iri_ok; assumption|assumption].
  - inversion Hn; subst a. clear Hn.
    destruct (valid_label s) eqn:Hl; [|discriminate].
    cbn [app]. unfold p_subject. cbn [starts_with].
    change (95 =? 60) with false. rewrite N.eqb_refl. cbv iota.
    rewrite p_bnode_label; [reflexivity|assumption|reflexivity].
Qed.

Lemma p_predicate_n3 : forall s a rest, wf_iri s = true -> n3 (Iri s) = Some a ->
  p_predicate (a ++ 32 :: rest) = Some (Iri s, 32 :: rest).
Proof.
  intros s a rest Hwf Hn. simpl in Hn.
  destruct (wf_iri_parts _ Hwf) as [Hv Hs].
  unfold iri_n3 in Hn. rewrite Hv in Hn. inversion Hn; subst a. clear Hn.
  change ((60 :: s ++ [62]) ++ 32 :: rest) with (60 :: (s ++ [62]) ++ 32 :: rest).
  rewrite <- app_assoc. cbn [app]. unfold p_predicate.
  rewrite p_iriref_plain; [reflexivity|apply valid_uri_iri_ok; assumption|assumption].
Qed.

Lemma length_flat_map_esc : forall s, (length s <= length (flat_map esc s))%nat.
Proof.
  induction s as [|c s IH]; simpl; [lia|]. rewrite app_length.
  assert (1 <= length (esc c))%nat.
  { unfold esc. destruct (c =? 92), (c =? 10), (c =? 34), (c =? 13); simpl; lia. }
  lia.
Qed.

Lemma w3c_langtag_nonempty : forall l, w3c_langtag l = true -> exists c l', l = c :: l'.
Proof. intros [|c l] H; [discriminate|eauto]. Qed.
Lemma has_scheme_nonempty : forall l, has_scheme l = true -> exists c l', l = c :: l'.
Proof. intros [|c l] H; [discriminate|eauto]. Qed.

Lemma p_object_text : forall t a rest, wf_object t = true -> term_kf t = 0 -> obj_text t = Some a ->
  p_object (a ++ 32 :: rest) = Some (t, 32 :: rest).
Proof.
  intros t a rest Hwf Hkf Ht. destruct t as [s|s|lex k].
  - change (n3 (Iri s) = Some a) in Ht. unfold p_object. pose proof (n3_head _ _ Ht) as Hh.
    assert (E : starts_with 34 (a ++ 32 :: rest) = false).
    { destruct a as [|c a]; [contradiction|]. simpl in Hh. destruct Hh as [H|[H|[]]]; subst; reflexivity. }
    rewrite E. apply p_subject_n3; assumption.
  - change (n3 (Bn s) = Some a) in Ht. unfold p_object. pose proof (n3_head _ _ Ht) as Hh.
    assert (E : starts_with 34 (a ++ 32 :: rest) = false).
    { destruct a as [|c a]; [contradiction|]. simpl in Hh. destruct Hh as [H|[H|[]]]; subst; reflexivity. }
    rewrite E. apply p_subject_n3; assumption.
  - simpl in Ht. destruct (lit_exists k) eqn:Hex; [|discriminate].
    assert (Hstr : forall suffix, p_object ((quote_encode lex ++ suffix) ++ 32 :: rest) = p_lit_suffix lex (suffix ++ 32 :: rest)).
    { intro suffix. rewrite quote_encode_one_pass.
      unfold p_object. cbn [app starts_with tl]. rewrite N.eqb_refl.
      rewrite <- !app_assoc. cbn [app].
      unfold p_literal_tail. rewrite str_body_esc; [reflexivity|].
      rewrite app_length. pose proof (length_flat_map_esc lex). lia. }
    destruct k as [|l|d]; simpl in Hwf, Hkf, Hex.
    + assert (Ea : a = quote_encode lex ++ []) by (rewrite app_nil_r; unfold quote_literal in Ht; inversion Ht; reflexivity).
      rewrite Ea. rewrite Hstr. reflexivity.
    + unfold py_valid_langtag in Hwf.
      destruct (w3c_langtag_nonempty l Hwf) as [c [l' El]]. subst l.
      assert (Ea : a = quote_encode lex ++ 64 :: c :: l') by (unfold quote_literal in Ht; inversion Ht; reflexivity).
      rewrite Ea. rewrite Hstr.
      cbn [app p_lit_suffix]. rewrite N.eqb_refl.
      change (c :: l' ++ 32 :: rest) with ((c :: l') ++ 32 :: rest).
      rewrite p_langtag_w3c; [reflexivity|assumption|reflexivity|reflexivity].
    + destruct (wf_iri_parts _ Hwf) as [Hv Hs].
      destruct (has_scheme_nonempty d Hs) as [c [d' Ed]]. subst d.
      assert (Ea : a = quote_encode lex ++ [94; 94] ++ 60 :: (c :: d') ++ [62]) by (unfold quote_literal, iri_n3 in Ht; rewrite Hv in Ht; inversion Ht; reflexivity).
      rewrite Ea. rewrite Hstr.
      cbn [app p_lit_suffix]. change (94 =? 64) with false. cbv iota.
      cbn [starts_with]. rewrite N.eqb_refl. cbn [andb tl].
      rewrite <- app_assoc. cbn [app].
      change (60 :: c :: d' ++ 62 :: 32 :: rest) with (60 :: (c :: d') ++ 62 :: 32 :: rest).
      rewrite p_iriref_plain; [reflexivity|apply valid_uri_iri_ok; assumption|assumption].
Qed.

(* ------------------------------------------------------------ statements *)
Lemma skip_ws_sp : forall l, skip_ws (32 :: l) = skip_ws l.
Proof. reflexivity. Qed.
Lemma p_end_dot : forall tail, p_end (32 :: 46 :: tail) = Some tail.
Proof. reflexivity. Qed.

Lemma wf_triple_parts : forall s p o, wf_triple (s, p, o) = true ->
  wf_node s = true /\ (exists x, p = Iri x /\ wf_iri x = true) /\ wf_object o = true.
Proof.
  intros s p o H. unfold wf_triple in H. apply andb_true_iff in H. destruct H as [H Ho].
  apply andb_true_iff in H. destruct H as [Hs Hp]. destruct p as [x|x|x k]; try discriminate.
  repeat split; eauto.
Qed.

Lemma n3_wf_node : forall t, wf_node t = true -> exists a, n3 t = Some a.
Proof.
  intros [s|s|lex k] H; simpl in *; try discriminate; eauto.
  destruct (wf_iri_parts _ H) as [H0 _]. unfold iri_n3. rewrite H0. eauto.
Qed.
Lemma obj_text_wf : forall t, wf_object t = true -> exists a, obj_text t = Some a.
Proof.
  intros [s|s|lex k] H; [apply (n3_wf_node (Iri s) H)|apply (n3_wf_node (Bn s) H)|].
  simpl. destruct k as [|l|d]; simpl in *.
  - eauto.
  - rewrite H. destruct l; eauto.
  - destruct (wf_iri_parts _ H) as [Hv Hs].
    destruct (has_scheme_nonempty d Hs) as [c [d' E]]. subst d. unfold iri_n3. rewrite Hv. eauto.
Qed.

(* the part of a row before the final line feed *)
Definition row_body (a b c gn : str) (nq : bool) : str :=
  a ++ 32 :: b ++ 32 :: c ++ (if nq then 32 :: gn else []) ++ [32; 46].

Lemma row_body_nt : forall a b c tail,
  row_body a b c [] false ++ tail = a ++ 32 :: (b ++ 32 :: (c ++ 32 :: 46 :: tail)).
Proof.
  intros. unfold row_body. cbn [app]. rewrite <- app_assoc. cbn [app]. f_equal. f_equal.
  rewrite <- app_assoc. cbn [app]. f_equal. f_equal. rewrite <- app_assoc. reflexivity.
Qed.
Lemma row_body_nq : forall a b c gn tail,
  row_body a b c gn true ++ tail = a ++ 32 :: (b ++ 32 :: (c ++ 32 :: (gn ++ 32 :: 46 :: tail))).
Proof.
  intros. unfold row_body. cbn [app]. rewrite <- app_assoc. cbn [app]. f_equal. f_equal.
  rewrite <- app_assoc. cbn [app]. f_equal. f_equal. rewrite <- app_assoc. cbn [app]. f_equal. f_equal.
  rewrite <- app_assoc. reflexivity.
Qed.

Lemma nt_statement : forall s p o a b c tail,
  wf_triple (s, p, o) = true -> term_kf s = 0 -> term_kf p = 0 -> term_kf o = 0 ->
  n3 s = Some a -> n3 p = Some b -> obj_text o = Some c ->
  p_statement false (row_body a b c [] false ++ tail) = Some ((s, p, o, None), tail).
Proof.
  intros s p o a b c tail Hwf Ks Kp Ko Ha Hb Hc.
  destruct (wf_triple_parts _ _ _ Hwf) as [Hs [[x [Ep Hx]] Ho]]. subst p.
  rewrite row_body_nt.
  unfold p_statement.
  rewrite (skip_ws_head a) by (apply head_weaken, (n3_head _ _ Ha)).
  rewrite (p_subject_n3 s a _ Hs Ks Ha). rewrite skip_ws_sp.
  rewrite (skip_ws_head b) by (apply head_weaken, (n3_head _ _ Hb)).
  rewrite (p_predicate_n3 x b _ Hx Hb). rewrite skip_ws_sp.
  rewrite (skip_ws_head c) by (apply (obj_text_head _ _ Hc)).
  rewrite (p_object_text o c _ Ho Ko Hc). rewrite p_end_dot. reflexivity.
Qed.

Lemma p_end_head : forall a X, head_in [60; 95] a -> p_end (32 :: a ++ X) = None.
Proof.
  intros [|c a] X H; [contradiction|]. simpl in H. unfold p_end. rewrite skip_ws_sp.
  cbn [app]. destruct H as [H|[H|[]]]; subst; reflexivity.
Qed.

Lemma nq_statement : forall s p o g a b c gn tail,
  wf_triple (s, p, o) = true -> wf_node g = true ->
  term_kf s = 0 -> term_kf p = 0 -> term_kf o = 0 -> term_kf g = 0 ->
  n3 s = Some a -> n3 p = Some b -> obj_text o = Some c -> graph_name g = Some gn ->
  p_statement true (row_body a b c gn true ++ tail) = Some (expected true ((s, p, o), g), tail).
Proof.
  intros s p o g a b c gn tail Hwf Hg Ks Kp Ko Kg Ha Hb Hc Hgn.
  destruct (wf_triple_parts _ _ _ Hwf) as [Hs [[x [Ep Hx]] Ho]]. subst p.
  rewrite row_body_nq.
  unfold p_statement.
  rewrite (skip_ws_head a) by (apply head_weaken, (n3_head _ _ Ha)).
  rewrite (p_subject_n3 s a _ Hs Ks Ha). rewrite skip_ws_sp.
  rewrite (skip_ws_head b) by (apply head_weaken, (n3_head _ _ Hb)).
  rewrite (p_predicate_n3 x b _ Hx Hb). rewrite skip_ws_sp.
  rewrite (skip_ws_head c) by (apply (obj_text_head _ _ Hc)).
  rewrite (p_object_text o c _ Ho Ko Hc).
  unfold expected. cbn [fst snd andb].
  unfold graph_name in Hgn.
  assert (Ht : truthy g = true).
  { destruct g as [[|]|[|]|]; simpl in *; try reflexivity; discriminate. }
  rewrite Ht in Hgn. cbn [andb] in Hgn.
  destruct (is_default_id g) eqn:Hd; cbn [negb] in *.
  - inversion Hgn; subst gn. cbn [app]. reflexivity.
  - rewrite (p_end_head gn) by (apply (n3_head _ _ Hgn)).
    rewrite skip_ws_sp. rewrite (skip_ws_head gn) by (apply head_weaken, (n3_head _ _ Hgn)).
    rewrite (p_subject_n3 g gn _ Hg Kg Hgn). rewrite p_end_dot. reflexivity.
Qed.

(* ------------------------------------------------------------ rows *)
Lemma head_in_app : forall cs a X, head_in cs a -> head_in cs (a ++ X).
Proof. intros cs [|c a] X H; [contradiction|exact H]. Qed.

Lemma row_kf_parts : forall nq s p o g, row_kf nq ((s, p, o), g) = 0 ->
  term_kf s = 0 /\ term_kf p = 0 /\ term_kf o = 0 /\ (nq = true -> term_kf g = 0).
Proof.
  intros nq s p o g H. unfold row_kf in H. cbn [fst snd] in H.
  pose proof (first_nz_zero _ H) as Z.
  repeat split; try (apply Z; simpl; tauto).
  intro E. subst nq. apply Z. simpl. tauto.
Qed.

Lemma model_row_shape : forall nq r, wf_row nq r = true -> row_kf nq r = 0 ->
  exists body, model_row nq r = Some (body ++ [10]) /\ head_in [60; 95] body /\
    forall tail, p_statement nq (body ++ tail) = Some (expected nq r, tail).
Proof.
  intros nq [[[s p] o] g] Hwf Hkf.
  unfold wf_row in Hwf. cbn [fst snd] in Hwf. apply andb_true_iff in Hwf. destruct Hwf as [Hwt Hwg].
  destruct (row_kf_parts _ _ _ _ _ Hkf) as [Ks [Kp [Ko Kg]]].
  destruct (wf_triple_parts _ _ _ Hwt) as [Hs [[x [Ep Hx]] Ho]].
  destruct (n3_wf_node s Hs) as [a Ha].
  assert (Hpn : wf_node p = true) by (subst p; exact Hx).
  destruct (n3_wf_node p Hpn) as [b Hb].
  destruct (obj_text_wf o Ho) as [c Hc].
  destruct nq.
  - cbn [negb orb] in Hwg. specialize (Kg eq_refl).
    assert (Hgn : exists gn, graph_name g = Some gn).
    { unfold graph_name. destruct (truthy g && negb (is_default_id g)); [apply n3_wf_node; exact Hwg|eauto]. }
    destruct Hgn as [gn Hgn].
    exists (row_body a b c gn true). split; [|split].
    + unfold model_row, nq_row. cbn [fst snd]. rewrite Hgn, Ha, Hb, Hc.
      f_equal. rewrite row_body_nq. cbn [app]. reflexivity.
    + unfold row_body. apply head_in_app. exact (n3_head _ _ Ha).
    + intro tail. apply nq_statement; assumption.
  - exists (row_body a b c [] false). split; [|split].
    + unfold model_row, nt_row. cbn [fst snd]. rewrite Ha, Hb, Hc.
      f_equal. rewrite row_body_nt. cbn [app]. reflexivity.
    + unfold row_body. apply head_in_app. exact (n3_head _ _ Ha).
    + intro tail. unfold expected. cbn [fst snd andb]. apply nt_statement; assumption.
Qed.

(* ------------------------------------------------------------ documents *)
Lemma p_doc_step : forall f nq body X q, head_in [60; 95] body ->
  p_statement nq (body ++ 10 :: X) = Some (q, 10 :: X) ->
  p_doc (S f) nq (body ++ 10 :: X) =
  match p_doc f nq X with Some qs => Some (q :: qs) | None => None end.
Proof.
  intros f nq [|c0 body] X q Hh Hst; [contradiction|].
  simpl in Hh.
  assert (Hc : is_ws c0 = false /\ is_eol c0 = false /\ (c0 =? 35) = false).
  { destruct Hh as [H|[H|[]]]; subst; repeat split; reflexivity. }
  destruct Hc as [H1 [H2 H3]].
  cbn [p_doc]. cbn [app] in *. rewrite (skip_ws_nws c0 _ H1). rewrite H2, H3.
  rewrite Hst. reflexivity.
Qed.

Lemma p_doc_rows : forall nq rows texts tail n,
  (tail = [] \/ tail = [10]) ->
  (forall r, In r rows -> wf_row nq r = true /\ row_kf nq r = 0) ->
  map (model_row nq) rows = map Some texts ->
  (length rows + length tail < n)%nat ->
  p_doc n nq (concat texts ++ tail) = Some (map (expected nq) rows).
Proof.
  induction rows as [|r rows IH]; intros texts tail n Ht Hall Hm Hn.
  - destruct texts; [|discriminate]. cbn [concat app map].
    destruct Ht as [Ht|Ht]; subst tail.
    + destruct n; [inversion Hn|]. reflexivity.
    + destruct n as [|[|n]]; simpl in Hn; try lia. reflexivity.
  - destruct texts as [|t texts]; [discriminate|]. cbn [map] in Hm. inversion Hm as [[Hr Hrest]].
    destruct (Hall r (or_introl eq_refl)) as [Hwf Hkf].
    destruct (model_row_shape nq r Hwf Hkf) as [body [Hb [Hh Hst]]].
    rewrite Hb in Hr. inversion Hr; subst t. clear Hr.
    destruct n; [inversion Hn|]. cbn [concat]. rewrite <- !app_assoc. cbn [app].
    rewrite (p_doc_step n nq body _ (expected nq r) Hh (Hst _)).
    rewrite (IH texts tail n Ht); [reflexivity| |exact Hrest|simpl in Hn; lia].
    intros r' Hr'. apply Hall. right. exact Hr'.
Qed.

Lemma concat_opt_somes : forall texts, concat_opt (map Some texts) = Some (concat texts).
Proof. induction texts as [|t texts IH]; [reflexivity|]. cbn [map concat_opt concat]. rewrite IH. reflexivity. Qed.

Lemma model_rows_texts : forall nq rows,
  (forall r, In r rows -> wf_row nq r = true /\ row_kf nq r = 0) ->
  exists texts, map (model_row nq) rows = map Some texts /\
                (length rows <= length (concat texts))%nat.
Proof.
  induction rows as [|r rows IH]; intro Hall; [exists []; split; [reflexivity|simpl; lia]|].
  destruct (Hall r (or_introl eq_refl)) as [Hwf Hkf].
  destruct (model_row_shape nq r Hwf Hkf) as [body [Hb _]].
  destruct IH as [texts [Hm Hl]]; [intros; apply Hall; right; assumption|].
  exists ((body ++ [10]) :: texts). split; [cbn [map]; rewrite Hb, Hm; reflexivity|].
  cbn [concat length]. rewrite !app_length. simpl. lia.
Qed.

Lemma kf_rows : forall c, kf c = 0 -> forall r, In r (c_rows c) -> row_kf (c_nq c) r = 0.
Proof.
  intros c H r Hr. unfold kf in H. apply (first_nz_zero _ H). apply in_map. exact Hr.
Qed.

(* one row: the line rdflib writes is one strictly legal statement meaning that row *)
Theorem row_valid : forall nq r, wf_row nq r = true -> row_kf nq r = 0 ->
  exists l, model_row nq r = Some l /\ strict_parse nq l = Some (expected nq r).
Proof.
  intros nq r Hwf Hkf.
  destruct (model_row_shape nq r Hwf Hkf) as [body [Hb _]].
  exists (body ++ [10]). split; [exact Hb|].
  unfold strict_parse, strict_doc.
  pose proof (p_doc_rows nq [r] [body ++ [10]] [] (S (length (body ++ [10])))) as P.
  cbn [concat map] in P. rewrite !app_nil_r in P.
  rewrite P; [reflexivity|left; reflexivity| |rewrite Hb; reflexivity|].
  - intros r' [E|[]]. subst. auto.
  - rewrite app_length. simpl. lia.
Qed.

(* a whole document *)
Theorem doc_valid : forall nq rows,
  (forall r, In r rows -> wf_row nq r = true /\ row_kf nq r = 0) ->
  exists d, model_doc nq (map (model_row nq) rows) = Some d /\
            strict_doc nq d = Some (map (expected nq) rows).
Proof.
  intros nq rows Hall.
  destruct (model_rows_texts nq rows Hall) as [texts [Hm Hl]].
  unfold model_doc. rewrite Hm, concat_opt_somes.
  destruct nq.
  - exists (concat texts ++ [10]). split; [reflexivity|].
    unfold strict_doc. apply p_doc_rows; [right; reflexivity|exact Hall|exact Hm|].
    rewrite app_length. simpl. lia.
  - exists (concat texts). split; [reflexivity|].
    unfold strict_doc. rewrite <- (app_nil_r (concat texts)) at 2.
    apply p_doc_rows; [left; reflexivity|exact Hall|exact Hm|simpl; lia].
Qed.

(* ------------------------------------------------------------ the checker accepts the model *)
(* an IRI with a character that IRIREF excludes is refused *)
Lemma bad_iri_refused : forall s, bad_iri s = true -> iri_n3 s = None.
Proof.
  intros s H. unfold iri_n3. destruct (valid_uri s) eqn:E; [|reflexivity].
  unfold bad_iri in H. rewrite (valid_uri_iri_ok s E) in H. discriminate.
Qed.
Lemma default_id_ok : forallb iri_plain default_graph_id = true.
Proof. vm_compute. reflexivity. Qed.

Lemma bad_row_refused : forall nq r, row_bad_iri nq r = true -> model_row nq r = None.
Proof.
  intros nq [[[s p] o] g] H. unfold row_bad_iri in H. cbn [fst snd] in H. unfold model_row. cbn [fst snd].
  assert (Hn : forall t, term_bad_iri t = true -> (forall lex k, t <> Lit lex k) -> n3 t = None).
  { intros [x|x|lex k] Hb Hl; cbn in *; [apply bad_iri_refused; exact Hb|discriminate|exfalso; eapply Hl; reflexivity]. }
  assert (Hs : term_bad_iri s = true -> n3 s = None).
  { destruct s as [x|x|lex k]; cbn; intro Hb; [apply bad_iri_refused; exact Hb|discriminate|reflexivity]. }
  assert (Hp : term_bad_iri p = true -> n3 p = None).
  { destruct p as [x|x|lex k]; cbn; intro Hb; [apply bad_iri_refused; exact Hb|discriminate|reflexivity]. }
  assert (Ho : term_bad_iri o = true -> obj_text o = None).
  { destruct o as [x|x|lex k]; cbn; intro Hb; [apply bad_iri_refused; exact Hb|discriminate|].
    destruct k as [|l|d]; try discriminate. destruct (lit_exists (LDt d)); [|reflexivity].
    destruct d as [|c d]; [discriminate|]. unfold quote_literal. rewrite (bad_iri_refused _ Hb). reflexivity. }
  assert (Hg : match g with Iri x => bad_iri x | _ => false end = true -> graph_name g = None).
  { destruct g as [x|x|lex k]; intro Hb; try discriminate.
    unfold graph_name. destruct x as [|c x]; [discriminate|]. cbn [truthy andb].
    destruct (is_default_id (Iri (c :: x))) eqn:Ed.
    - exfalso. unfold is_default_id in Ed. apply andb_true_iff in Ed. destruct Ed as [_ Ed]. apply str_eqb_eq in Ed.
      unfold bad_iri in Hb. rewrite Ed, default_id_ok in Hb. discriminate.
    - cbn [negb]. cbn [n3]. apply bad_iri_refused. exact Hb. }
  destruct nq.
  - unfold nq_row. apply orb_true_iff in H. destruct H as [H|H].
    + apply orb_true_iff in H. destruct H as [H|H].
      * apply orb_true_iff in H. destruct H as [H|H].
        -- rewrite (Hs H). destruct (graph_name g); reflexivity.
        -- rewrite (Hp H). destruct (graph_name g); [destruct (n3 s); reflexivity|reflexivity].
      * rewrite (Ho H). destruct (graph_name g); [destruct (n3 s); [destruct (n3 p); reflexivity|reflexivity]|reflexivity].
    + cbn [andb] in H. rewrite (Hg H). reflexivity.
  - unfold nt_row. rewrite andb_false_l, orb_false_r in H. apply orb_true_iff in H. destruct H as [H|H].
    + apply orb_true_iff in H. destruct H as [H|H].
      * rewrite (Hs H). reflexivity.
      * rewrite (Hp H). destruct (n3 s); reflexivity.
    + rewrite (Ho H). destruct (n3 s); [destruct (n3 p); reflexivity|reflexivity].
Qed.

Lemma rows_ok_model : forall nq rows,
  (forall r, In r rows -> row_kf nq r = 0) ->
  rows_ok nq rows (map (model_row nq) rows) = true.
Proof.
  induction rows as [|r rows IH]; intro Hk; [reflexivity|].
  cbn [map rows_ok]. rewrite IH by (intros; apply Hk; right; assumption). rewrite andb_true_r.
  unfold row_ok. apply andb_true_iff. split.
  - destruct (row_bad_iri nq r) eqn:Hb; [|reflexivity]. cbn [negb orb]. rewrite (bad_row_refused nq r Hb). reflexivity.
  - destruct (wf_row nq r) eqn:Hwf; [|reflexivity]. cbn [negb orb].
    destruct (row_valid nq r Hwf (Hk r (or_introl eq_refl))) as [l [Hl Hp]].
    rewrite Hl, Hp. apply quad_eqb_refl.
Qed.

(* ---- the well-formed rows of a mixed document *)
Lemma in_suffixes : forall p s, In s (suffixes_after_nl (p ++ 10 :: s)).
Proof.
  induction p as [|c p IH]; intro s.
  - cbn [app suffixes_after_nl]. rewrite N.eqb_refl. left. reflexivity.
  - cbn [app suffixes_after_nl]. apply in_or_app. right. apply IH.
Qed.
Lemma in_line_starts : forall pre s, (pre = [] \/ exists p, pre = p ++ [10]) -> In s (line_starts (pre ++ s)).
Proof.
  intros pre s [H|[p H]]; subst pre; [left; reflexivity|]. right. rewrite <- app_assoc. apply in_suffixes.
Qed.

Lemma model_row_ends : forall nq r l, model_row nq r = Some l -> exists b, l = b ++ [10].
Proof.
  intros nq [[[s p] o] g] l H. unfold model_row in H. cbn [fst snd] in H. destruct nq.
  - unfold nq_row in H. destruct (graph_name g) as [gn|]; [|discriminate]. destruct (n3 s) as [a|]; [|discriminate].
    destruct (n3 p) as [b|]; [|discriminate]. destruct (obj_text o) as [c|]; [|discriminate]. inversion H.
    exists (a ++ [32] ++ b ++ [32] ++ c ++ [32] ++ gn ++ [32; 46]). rewrite <- !app_assoc. reflexivity.
  - unfold nt_row in H. destruct (n3 s) as [a|]; [|discriminate].
    destruct (n3 p) as [b|]; [|discriminate]. destruct (obj_text o) as [c|]; [|discriminate]. inversion H.
    exists (a ++ [32] ++ b ++ [32] ++ c ++ [32; 46]). rewrite <- !app_assoc. reflexivity.
Qed.

Lemma concat_ends : forall ts, (forall l, In l ts -> exists b, l = b ++ [10]) ->
  concat ts = [] \/ exists p, concat ts = p ++ [10].
Proof.
  induction ts as [|l ts IH]; intro H; [left; reflexivity|]. right. cbn [concat].
  destruct (H l (or_introl eq_refl)) as [b Hb]. destruct IH as [E|[p E]]; [intros; apply H; right; assumption| |].
  - rewrite E, app_nil_r. eauto.
  - rewrite E. exists (l ++ p). rewrite app_assoc. reflexivity.
Qed.

Lemma somes_texts : forall (rows : list (option str)) d, concat_opt rows = Some d ->
  exists texts, rows = map Some texts /\ d = concat texts.
Proof.
  induction rows as [|o rows IH]; intros d H; [inversion H; exists []; split; reflexivity|].
  cbn [concat_opt] in H. destruct o as [x|]; [|discriminate]. destruct (concat_opt rows) as [y|] eqn:E; [|discriminate].
  inversion H; subst. destruct (IH y eq_refl) as [texts [H1 H2]]. exists (x :: texts). split; [cbn [map]; rewrite H1; reflexivity|].
  cbn [concat]. rewrite H2. reflexivity.
Qed.

Lemma rows_in_doc_model : forall nq rs d,
  (forall r, In r rs -> row_kf nq r = 0) ->
  model_doc nq (map (model_row nq) rs) = Some d ->
  forallb (fun r => negb (wf_row nq r) || row_in_doc nq r d) rs = true.
Proof.
  intros nq rs d Hk Hd. apply forallb_forall. intros r Hr.
  destruct (wf_row nq r) eqn:Hwf; [|reflexivity]. cbn [negb orb].
  unfold model_doc in Hd. destruct (concat_opt (map (model_row nq) rs)) as [d0|] eqn:Ec; [|discriminate].
  destruct (somes_texts _ _ Ec) as [texts [Hm Hc]].
  destruct (in_split r rs Hr) as [rs1 [rs2 Ers]]. subst rs.
  destruct (model_row_shape nq r Hwf (Hk r Hr)) as [body [Hb [_ Hst]]].
  rewrite map_app in Hm. cbn [map] in Hm.
  assert (Hsplit : exists t1 t2, texts = t1 ++ (body ++ [10]) :: t2 /\ map Some t1 = map (model_row nq) rs1).
  { clear -Hm Hb. revert texts Hm. induction rs1 as [|x rs1 IH]; intros texts Hm.
    - cbn [app map] in Hm. destruct texts as [|t0 texts]; [discriminate|]. cbn [map] in Hm. inversion Hm.
      rewrite Hb in H0. inversion H0; subst. exists [], texts. split; reflexivity.
    - cbn [app map] in Hm. destruct texts as [|t0 texts]; [discriminate|]. cbn [map] in Hm. inversion Hm.
      destruct (IH texts H1) as [t1 [t2 [E1 E2]]]. exists (t0 :: t1), t2. split; [rewrite E1; reflexivity|].
      cbn [map]. rewrite E2, H0. reflexivity. }
  destruct Hsplit as [t1 [t2 [Et Ht1]]].
  assert (Hpre : concat t1 = [] \/ exists p, concat t1 = p ++ [10]).
  { apply concat_ends. intros l Hl. assert (Hin : In (Some l) (map (model_row nq) rs1)) by (rewrite <- Ht1; apply in_map; exact Hl).
    apply in_map_iff in Hin. destruct Hin as [x [Hx _]]. eapply model_row_ends; eauto. }
  set (tail := concat t2 ++ (if nq then [10] else [])).
  assert (Hdoc : d = concat t1 ++ (body ++ 10 :: tail)).
  { unfold tail. destruct nq; inversion Hd; subst d d0 texts; rewrite concat_app; cbn [concat]; rewrite <- ?app_assoc; cbn [app]; rewrite ?app_nil_r; reflexivity. }
  unfold row_in_doc. apply existsb_exists. exists (body ++ 10 :: tail). split.
  - rewrite Hdoc. apply in_line_starts. exact Hpre.
  - rewrite (Hst (10 :: tail)). rewrite quad_eqb_refl. reflexivity.
Qed.

Theorem spec_ok_model : forall c, kf c = 0 -> spec_ok c (model_obs c) = true.
Proof.
  intros c Hk. unfold spec_ok, model_obs. cbn [fst snd].
  rewrite rows_ok_model by (apply kf_rows; exact Hk). cbn [andb].
  unfold doc_ok. apply andb_true_iff. split.
  - destruct (forallb (wf_row (c_nq c)) (c_rows c)) eqn:Hwf; [|reflexivity].
    cbn [negb orb]. rewrite forallb_forall in Hwf.
    destruct (doc_valid (c_nq c) (c_rows c)) as [d [Hd Hs]].
    { intros r Hr. split; [apply Hwf; exact Hr|apply kf_rows; assumption]. }
    rewrite Hd, Hs. apply qset_eqb_refl.
  - destruct (model_doc (c_nq c) (map (model_row (c_nq c)) (c_rows c))) as [d|] eqn:Hd; [|reflexivity].
    apply rows_in_doc_model; [apply kf_rows; exact Hk|exact Hd].
Qed.

(* ------------------------------------------------------------ what the checker's booleans mean *)
Lemma row_ok_reading : forall nq r o,
  row_ok nq r o = true <->
  (row_bad_iri nq r = true -> o = None) /\
  (wf_row nq r = true -> exists l, o = Some l /\ strict_parse nq l = Some (expected nq r)).
Proof.
  intros nq r o. unfold row_ok. rewrite andb_true_iff.
  assert (A : (negb (row_bad_iri nq r) || match o with None => true | Some _ => false end) = true <-> (row_bad_iri nq r = true -> o = None)).
  { destruct (row_bad_iri nq r); cbn [negb orb]; [|split; [discriminate 2|reflexivity]].
    destruct o; split; intro H; try reflexivity; try discriminate. specialize (H eq_refl). discriminate. }
  assert (B : (negb (wf_row nq r) || match o with
                | Some l => match strict_parse nq l with Some q => quad_eqb q (expected nq r) | None => false end
                | None => false end) = true <->
              (wf_row nq r = true -> exists l, o = Some l /\ strict_parse nq l = Some (expected nq r))).
  { destruct (wf_row nq r); cbn [negb orb]; [|split; [discriminate 2|reflexivity]].
    split.
    - intros H _. destruct o as [l|]; [|discriminate]. exists l. split; [reflexivity|].
      destruct (strict_parse nq l) as [q|] eqn:Es; [|discriminate]. apply quad_eqb_eq in H. congruence.
    - intro H. destruct (H eq_refl) as [l [E P]]. subst o. rewrite P. apply quad_eqb_refl. }
  rewrite A, B. reflexivity.
Qed.

Lemma doc_ok_reading : forall nq rs d,
  doc_ok nq rs d = true <->
  ((forall r, In r rs -> wf_row nq r = true) ->
   exists t qs, d = Some t /\ strict_doc nq t = Some qs /\
                forall q, In q qs <-> In q (map (expected nq) rs))
  /\ (forall t r, d = Some t -> In r rs -> wf_row nq r = true -> row_in_doc nq r t = true).
Proof.
  intros nq rs d. unfold doc_ok. rewrite andb_true_iff.
  assert (A : (negb (forallb (wf_row nq) rs) ||
               match d with
               | Some t => match strict_doc nq t with Some qs => qset_eqb qs (map (expected nq) rs) | None => false end
               | None => false end) = true <->
              ((forall r, In r rs -> wf_row nq r = true) ->
               exists t qs, d = Some t /\ strict_doc nq t = Some qs /\ forall q, In q qs <-> In q (map (expected nq) rs))).
  { destruct (forallb (wf_row nq) rs) eqn:Hwf; cbn [negb orb].
    - rewrite forallb_forall in Hwf. split.
      + intros H _. destruct d as [t|]; [|discriminate]. destruct (strict_doc nq t) as [qs|] eqn:Es; [|discriminate].
        exists t, qs. split; [reflexivity|split; [exact Es|]]. apply qset_eqb_iff. exact H.
      + intro H. destruct (H Hwf) as [t [qs [E [P Q]]]]. subst d. rewrite P. apply qset_eqb_iff. exact Q.
    - split; [|reflexivity]. intros _ H. exfalso.
      assert (forallb (wf_row nq) rs = true) by (apply forallb_forall; exact H). congruence. }
  rewrite A. split; intros [H1 H2]; (split; [exact H1|]).
  - intros t r Ed Hr Hw. subst d. rewrite forallb_forall in H2. specialize (H2 r Hr). rewrite Hw in H2. exact H2.
  - destruct d as [t|]; [|reflexivity]. apply forallb_forall. intros r Hr. destruct (wf_row nq r) eqn:Hw; [|reflexivity].
    apply (H2 t r eq_refl Hr Hw).
Qed.

Lemma rows_ok_reading : forall nq rs os,
  rows_ok nq rs os = true <->
  (length rs = length os /\ forall i r o, nth_error rs i = Some r -> nth_error os i = Some o -> row_ok nq r o = true).
Proof.
  induction rs as [|r rs IH]; destruct os as [|o os]; cbn [rows_ok length].
  - split; [intros _; split; [reflexivity|intros [|i] ? ? H; discriminate H]|reflexivity].
  - split; [discriminate|intros [H _]; discriminate].
  - split; [discriminate|intros [H _]; discriminate].
  - rewrite andb_true_iff, IH. split.
    + intros [H1 [H2 H3]]. split; [congruence|]. intros [|i] r' o' Hr Ho; cbn [nth_error] in *.
      * inversion Hr; inversion Ho; subst. exact H1.
      * eapply H3; eassumption.
    + intros [H1 H2]. split; [apply (H2 O); reflexivity|]. split; [congruence|].
      intros i r' o' Hr Ho. apply (H2 (S i)); assumption.
Qed.

(* ------------------------------------------------------------ finding C05c: concrete witness;
   the former witnesses of C05a/b/d are now refused by the writer *)
Definition E_ : str := [104; 116; 116; 112; 58; 47; 47; 101; 47].   (* http://e/ *)
Definition plainx : term := Lit [120] LPlain.

(* blank node identifier ending in a dot / containing a space *)
Definition w_bn : triple := (Bn [97; 46], Iri (E_ ++ [112]), Bn [97; 32; 98]).
(* repaired: line feed inside an IRI (ffbc1d81), '>' / backslash in a datatype IRI (16a2b8eb), language tag with a final
   line feed (d6b3ed8d): the writer refuses each of them *)
Definition w_ctrl : triple := (Iri (E_ ++ [97; 10; 98]), Iri (E_ ++ [112]), plainx).
Definition w_dt : triple := (Iri (E_ ++ [97]), Iri (E_ ++ [112]), Lit [120] (LDt (E_ ++ [100; 62; 120]))).
Definition w_dt2 : triple := (Iri (E_ ++ [97]), Iri (E_ ++ [112]), Lit [120] (LDt (E_ ++ [100; 92; 117; 48; 48; 52; 49]))).
Definition w_lang : triple := (Iri (E_ ++ [97]), Iri (E_ ++ [112]), Lit [120] (LLang [101; 110; 10])).

Definition refutes (t : triple) : Prop :=
  wf_triple t = true /\ exists l, nt_row t = Some l /\ strict_parse false l <> Some (t, None).

Lemma w_bn_refutes : refutes w_bn /\ row_kf false (w_bn, Iri []) = 3.
Proof. split; [split; [reflexivity|eexists; split; [reflexivity|vm_compute; discriminate]]|reflexivity]. Qed.
Lemma repaired_witnesses_refused :
  nt_row w_ctrl = None /\ nt_row w_dt = None /\ nt_row w_dt2 = None /\ nt_row w_lang = None.
Proof. vm_compute. repeat split; reflexivity. Qed.

(* the reflected regular expression of _is_valid_langtag is the one py_valid_langtag was written for (anchored with \Z) *)
Lemma lang_tag_regex_pinned :
  lang_tag_regex_src = [94; 91; 97; 45; 122; 65; 45; 90; 93; 43; 40; 63; 58; 45; 91; 97; 45; 122; 65; 45; 90; 48; 45; 57; 93; 43; 41; 42; 92; 90].
Proof. reflexivity. Qed.
