(* C08: the fuel of the digit functions suffices.  nat_str yields ALL decimal digits of its
   argument (reading the string back gives the number, hence z_str is injective), ndigits is
   the number of decimal digits, strip_zeros stops because of its condition, not its fuel. *)
From RV Require Import Modifiers.Model.

Definition dval (l : str) (v0 : Z) : Z :=
  fold_left (fun v d => (10 * v + (Z.of_N d - 48))%Z) l v0.

Lemma dval_app l1 l2 v0 : dval (l1 ++ l2) v0 = dval l2 (dval l1 v0).
Proof. unfold dval. apply fold_left_app. Qed.

Lemma pow10_S (f : nat) : (10 ^ Z.of_nat (S f) = 10 * 10 ^ Z.of_nat f)%Z.
Proof. rewrite Nat2Z.inj_succ. apply Z.pow_succ_r. lia. Qed.

Lemma digits_fuel_S f a acc :
  digits_fuel (S f) a acc =
  if (a <? 10)%Z then Z.to_N (48 + a mod 10) :: acc
  else digits_fuel f (a / 10) (Z.to_N (48 + a mod 10) :: acc).
Proof. reflexivity. Qed.

Lemma ndigits_fuel_S f a :
  ndigits_fuel (S f) a = if (a <? 10)%Z then 1%Z else (1 + ndigits_fuel f (a / 10))%Z.
Proof. reflexivity. Qed.

Lemma digits_fuel_spec f : forall a acc,
  (0 <= a < 10 ^ Z.of_nat (S f))%Z ->
  exists ds, digits_fuel (S f) a acc = ds ++ acc /\ dval ds 0 = a /\ ds <> [].
Proof.
  induction f as [|f IH]; intros a acc Ha;
    rewrite digits_fuel_S; set (d := Z.to_N (48 + a mod 10));
    assert (Hd : (Z.of_N d - 48 = a mod 10)%Z)
      by (unfold d; rewrite Z2N.id; [lia|]; pose proof (Z.mod_pos_bound a 10); lia).
  - assert (E : (a <? 10)%Z = true) by (apply Z.ltb_lt; simpl in Ha; lia). rewrite E.
    exists [d]. repeat split; [|discriminate].
    unfold dval. cbn [fold_left]. rewrite Hd. apply Z.ltb_lt in E. rewrite Z.mod_small; lia.
  - destruct (a <? 10)%Z eqn:E.
    + apply Z.ltb_lt in E. exists [d]. repeat split; [|discriminate].
      unfold dval. cbn [fold_left]. rewrite Hd. rewrite Z.mod_small; lia.
    + apply Z.ltb_ge in E. rewrite pow10_S in Ha.
      destruct (IH (a / 10)%Z (d :: acc)) as [ds [H1 [H2 H3]]].
      { split; [apply Z.div_pos; lia|]. apply Z.div_lt_upper_bound; lia. }
      exists (ds ++ [d]). rewrite H1, <- app_assoc. repeat split.
      * rewrite dval_app, H2. unfold dval. cbn [fold_left]. rewrite Hd.
        pose proof (Z.div_mod a 10). lia.
      * destruct ds; discriminate.
Qed.

Lemma fuel_bound a : (0 <= a)%Z -> (a < 10 ^ Z.of_nat (S (Z.to_nat (Z.log2 a))))%Z.
Proof.
  intros Ha. rewrite pow10_S.
  destruct (Z.eq_dec a 0) as [->|Hne]; [simpl; lia|].
  assert (Hp : (0 < a)%Z) by lia.
  pose proof (Z.log2_spec a Hp) as [_ H2]. pose proof (Z.log2_nonneg a) as Hl.
  rewrite Z2Nat.id by lia.
  assert (H3 : (2 ^ Z.log2 a <= 10 ^ Z.log2 a)%Z) by (apply Z.pow_le_mono_l; lia).
  rewrite Z.pow_succ_r in H2 by lia. lia.
Qed.

(* every digit is produced: reading nat_str a back gives a *)
Theorem nat_str_value a : (0 <= a)%Z -> dval (nat_str a) 0 = a /\ nat_str a <> [].
Proof.
  intros Ha. unfold nat_str.
  destruct (digits_fuel_spec (Z.to_nat (Z.log2 a)) a []) as [ds [H1 [H2 H3]]].
  { split; [exact Ha|now apply fuel_bound]. }
  rewrite H1, app_nil_r. auto.
Qed.

Lemma digits_are_digits f : forall a acc, (0 <= a)%Z ->
  Forall (fun d => (48 <= d <= 57)%N) acc -> Forall (fun d => (48 <= d <= 57)%N) (digits_fuel f a acc).
Proof.
  induction f as [|f IH]; intros a acc Ha Hacc; simpl; auto.
  assert (Hd : (48 <= Z.to_N (48 + a mod 10) <= 57)%N).
  { pose proof (Z.mod_pos_bound a 10). lia. }
  destruct (a <? 10)%Z; [constructor; auto|].
  apply IH; [apply Z.div_pos; lia|constructor; auto].
Qed.

(* str(int) is injective *)
Theorem z_str_injective a b : z_str a = z_str b -> a = b.
Proof.
  unfold z_str. intros H.
  assert (Hnn : forall x, (0 <= x)%Z -> hd 0%N (nat_str x) <> 45%N).
  { intros x Hx E. pose proof (digits_are_digits (S (Z.to_nat (Z.log2 x))) x [] Hx (Forall_nil _)) as F.
    destruct (nat_str_value x Hx) as [_ Hne]. unfold nat_str in *.
    destruct (digits_fuel _ x []) as [|d r]; [congruence|]. simpl in E. inversion F; subst. lia. }
  destruct (a <? 0)%Z eqn:Ea, (b <? 0)%Z eqn:Eb;
    try apply Z.ltb_lt in Ea; try apply Z.ltb_lt in Eb; try apply Z.ltb_ge in Ea; try apply Z.ltb_ge in Eb.
  - inversion H as [H']. apply (f_equal (fun s => dval s 0)) in H'.
    destruct (nat_str_value (Z.abs a)) as [Va _]; [lia|]. destruct (nat_str_value (Z.abs b)) as [Vb _]; [lia|].
    rewrite Va, Vb in H'. lia.
  - exfalso. apply (Hnn b Eb). rewrite <- H. reflexivity.
  - exfalso. apply (Hnn a Ea). rewrite H. reflexivity.
  - apply (f_equal (fun s => dval s 0)) in H.
    destruct (nat_str_value a Ea) as [Va _]. destruct (nat_str_value b Eb) as [Vb _]. congruence.
Qed.

(* ndigits is the number of decimal digits *)
Lemma ndigits_fuel_spec f : forall a, (0 <= a < 10 ^ Z.of_nat (S f))%Z ->
  let n := ndigits_fuel (S f) a in
  (1 <= n)%Z /\ (a < 10 ^ n)%Z /\ (1 <= a -> 10 ^ (n - 1) <= a)%Z.
Proof.
  induction f as [|f IH]; intros a Ha; cbv zeta; rewrite ndigits_fuel_S.
  - assert (E : (a <? 10)%Z = true) by (apply Z.ltb_lt; simpl in Ha; lia). rewrite E.
    apply Z.ltb_lt in E. simpl. lia.
  - destruct (a <? 10)%Z eqn:E.
    + apply Z.ltb_lt in E. simpl. lia.
    + apply Z.ltb_ge in E. rewrite pow10_S in Ha.
      destruct (IH (a / 10)%Z) as [H1 [H2 H3]].
      { split; [apply Z.div_pos; lia|apply Z.div_lt_upper_bound; lia]. }
      set (n := ndigits_fuel (S f) (a / 10)) in *.
      pose proof (Z.div_mod a 10) as Hdm. pose proof (Z.mod_pos_bound a 10) as Hm.
      replace (1 + n - 1)%Z with n by lia.
      rewrite Z.pow_add_r by lia. change (10 ^ 1)%Z with 10%Z.
      repeat split; [lia|lia|]. intros _.
      assert (H4 : (1 <= a / 10)%Z) by (apply Z.div_le_lower_bound; lia).
      specialize (H3 H4).
      replace n with (1 + (n - 1))%Z by lia. rewrite Z.pow_add_r by lia. change (10 ^ 1)%Z with 10%Z. lia.
Qed.

Theorem ndigits_spec a : (0 <= a)%Z ->
  (1 <= ndigits a)%Z /\ (a < 10 ^ ndigits a)%Z /\ (1 <= a -> 10 ^ (ndigits a - 1) <= a)%Z.
Proof.
  intros Ha. unfold ndigits. apply ndigits_fuel_spec. split; [exact Ha|now apply fuel_bound].
Qed.

(* strip_zeros with fuel >= ideal - exp stops because its condition fails *)
Theorem strip_zeros_spec f : forall c e ideal, (ideal - e <= Z.of_nat f)%Z ->
  let r := strip_zeros f c e ideal in
  (ideal <= snd r \/ fst r mod 10 <> 0)%Z \/ (ideal <= e)%Z.
Proof.
  induction f as [|f IH]; intros c e ideal H; simpl.
  - right. lia.
  - destruct (e <? ideal)%Z eqn:E1; simpl.
    + destruct (c mod 10 =? 0)%Z eqn:E2; simpl.
      * apply Z.ltb_lt in E1.
        destruct (IH (c / 10)%Z (e + 1)%Z ideal) as [G|G]; [lia|left; exact G|].
        left. left. destruct f; simpl in *; [lia|].
        destruct ((e + 1 <? ideal)%Z) eqn:E3; [apply Z.ltb_lt in E3; lia|simpl; lia].
      * left. right. apply Z.eqb_neq in E2. exact E2.
    + right. apply Z.ltb_ge in E1. exact E1.
Qed.
