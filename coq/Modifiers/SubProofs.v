From Coq Require Import Permutation.
From RV Require Import Modifiers.SubModel Modifiers.Order Modifiers.Post.

Theorem sspec_model c : sspec c (smodel c) = true.
Proof.
  unfold sspec, smodel. rewrite post_ok_model, rows_eqb_refl. simpl.
  apply (permb_complete _ _ sol_eqb_spec). apply Permutation_refl.
Qed.

(* reading: the group's rows are, as a multiset, the join with the observed slice, which is
   exactly firstn/skipn of the observed ordered sequence *)
Theorem sspec_reading c f s j :
  sspec c (SRows f s j) = true ->
  post_ok (s_sub c) (c_input (s_sub c)) f = true
  /\ s = eval_slice (c_slice (s_sub c)) f
  /\ Permutation j (join_rows (s_outer c) s).
Proof.
  unfold sspec. intros H. apply andb_true_iff in H. destruct H as [H H3].
  apply andb_true_iff in H. destruct H as [H1 H2].
  split; [exact H1|]. split.
  - destruct (rows_eqb_spec s (eval_slice (c_slice (s_sub c)) f)); congruence.
  - now apply (permb_sound _ _ sol_eqb_spec).
Qed.

(* every row of the join is the merge of a compatible pair, and every compatible pair is there *)
Theorem join_rows_In a b r :
  In r (join_rows a b) <-> exists x y, In x a /\ In y b /\ compatible x y = true /\ r = merge x y.
Proof.
  unfold join_rows. rewrite in_flat_map. split.
  - intros [x [Hx Hr]]. apply in_map_iff in Hr. destruct Hr as [y [<- Hy]].
    apply filter_In in Hy. exists x, y. tauto.
  - intros [x [y [Hx [Hy [Hc ->]]]]]. exists x. split; auto.
    apply in_map_iff. exists y. split; auto. apply filter_In. auto.
Qed.
