(* C08: a sub-select with ORDER BY / LIMIT / OFFSET inside a group.  The sub-select is
   evaluated on its own (its slice is ONE slice of its ordered solutions, 18.2.5 / 18.4: ToList,
   OrderBy, Slice inside ToMultiSet), then joined with the rest of the group.  The solution
   sequences of the two patterns are inputs.  Definitions only. *)
From RV Require Export Modifiers.Model.

(* FrozenBindings.compatible / merge on solutions kept sorted by variable *)
Definition compatible (x y : sol) : bool :=
  forallb (fun b => match lookup (fst b) y with Some t => term_eqb (snd b) t | None => true end) x.

Fixpoint row_insert (b : var * term) (r : sol) : sol :=
  match r with
  | [] => [b]
  | c :: r' => if N.ltb (fst b) (fst c) then b :: c :: r'
               else if N.eqb (fst b) (fst c) then c :: r'
               else c :: row_insert b r'
  end.

Definition merge (x y : sol) : sol := fold_left (fun acc b => row_insert b acc) y x.

(* evalJoin: every compatible pair, merged *)
Definition join_rows (a b : list sol) : list sol :=
  flat_map (fun x => map (fun y => merge x y) (filter (compatible x) b)) a.

Record scase := { s_sub : case;             (* the sub-select: c_group = None *)
                  s_outer : list sol }.     (* solutions of the pattern next to it *)

(* observation: the sub-select alone without and with its slice, and the whole group *)
Inductive sobs := SErr | SRows (full sliced joined : list sol).

Definition smodel (c : scase) : sobs :=
  let f := post_stage (s_sub c) (c_input (s_sub c)) in
  let s := eval_slice (c_slice (s_sub c)) f in
  SRows f s (join_rows (s_outer c) s).

Definition sobs_eqb (a b : sobs) : bool :=
  match a, b with
  | SErr, SErr => true
  | SRows f s j, SRows f' s' j' => rows_eqb f f' && rows_eqb s s' && permb sol_eqb j j'
  | _, _ => false
  end.

(* the sub-select's own rows obey the modifier specification; the group is the join of the
   other pattern with exactly THAT slice (as a multiset: a join has no order) *)
Definition sspec (c : scase) (o : sobs) : bool :=
  match o with
  | SErr => false
  | SRows f s j =>
      post_ok (s_sub c) (c_input (s_sub c)) f
      && rows_eqb s (eval_slice (c_slice (s_sub c)) f)
      && permb sol_eqb j (join_rows (s_outer c) s)
  end.
