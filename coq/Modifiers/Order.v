(* C08: decidable equalities, the SPARQL order on keys is a strict weak order,
   stable insertion sort and the lexicographic order it produces, multiset
   equality checker. *)
From Coq Require Import Permutation Sorting.Sorted.
From RV Require Import Modifiers.Model.

(* ------------------------------------------------------------------ *)
(* decidable equalities *)
Lemma Z_eqb_spec' : forall x y : Z, reflect (x = y) (Z.eqb x y).
Proof. exact Z.eqb_spec. Qed.

Lemma str_eqb_spec : forall a b, reflect (a = b) (str_eqb a b).
Proof. exact (list_eqb_spec _ N_eqb_spec). Qed.

Lemma term_eqb_spec : forall a b, reflect (a = b) (term_eqb a b).
Proof.
  intros [x|x|x|m k|x|l x|x] [y|y|y|m' k'|y|l' y|y]; simpl; try (constructor; congruence).
  - destruct (str_eqb_spec x y); constructor; congruence.
  - destruct (str_eqb_spec x y); constructor; congruence.
  - destruct (Z.eqb_spec x y); constructor; congruence.
  - destruct (Z.eqb_spec m m'), (N.eqb_spec k k'); simpl; constructor; congruence.
  - destruct (str_eqb_spec x y); constructor; congruence.
  - destruct (str_eqb_spec l l'), (str_eqb_spec x y); simpl; constructor; congruence.
  - destruct (Bool.eqb_spec x y); constructor; congruence.
Qed.

Lemma sol_eqb_spec : forall a b, reflect (a = b) (sol_eqb a b).
Proof. exact (list_eqb_spec _ (pair_eqb_spec _ _ N_eqb_spec term_eqb_spec)). Qed.

Lemma oterm_eqb_spec : forall a b, reflect (a = b) (oterm_eqb a b).
Proof. exact (opt_eqb_spec _ term_eqb_spec). Qed.

Lemma gkey_eqb_spec : forall a b, reflect (a = b) (gkey_eqb a b).
Proof. exact (list_eqb_spec _ oterm_eqb_spec). Qed.

Lemma rows_eqb_spec : forall a b, reflect (a = b) (rows_eqb a b).
Proof. exact (list_eqb_spec _ sol_eqb_spec). Qed.

Lemma rows_eqb_refl a : rows_eqb a a = true.
Proof. destruct (rows_eqb_spec a a); congruence. Qed.

(* ------------------------------------------------------------------ *)
(* the order on keys *)
Lemma str_lt_asym : forall a b, str_lt a b = true -> str_lt b a = false.
Proof.
  induction a as [|x a IH]; intros [|y b]; simpl; auto; try discriminate.
  destruct (N.ltb_spec x y), (N.ltb_spec y x); try lia; auto; discriminate.
Qed.

Lemma str_lt_ntrans : forall a b c, str_lt a c = true -> str_lt a b = true \/ str_lt b c = true.
Proof.
  induction a as [|x a IH]; intros [|y b] [|z c]; simpl; auto; try discriminate.
  destruct (N.ltb_spec x z), (N.ltb_spec z x), (N.ltb_spec x y), (N.ltb_spec y x),
           (N.ltb_spec y z), (N.ltb_spec z y); try lia; auto; try discriminate.
Qed.

Lemma pow10_pos k : (0 < pow10 k)%Z.
Proof. unfold pow10. apply Z.pow_pos_nonneg; lia. Qed.

Lemma num_lt_asym p q : num_lt p q = true -> num_lt q p = false.
Proof. unfold num_lt. rewrite Z.ltb_lt, Z.ltb_ge. lia. Qed.

Lemma num_lt_ntrans p q r : num_lt p r = true -> num_lt p q = true \/ num_lt q r = true.
Proof.
  unfold num_lt. destruct p as [m1 k1], q as [m2 k2], r as [m3 k3]; simpl.
  rewrite !Z.ltb_lt. intros H.
  pose proof (pow10_pos k1) as P1. pose proof (pow10_pos k2) as P2. pose proof (pow10_pos k3) as P3.
  set (a := pow10 k1) in *. set (b := pow10 k2) in *. set (c := pow10 k3) in *.
  destruct (Z.lt_ge_cases (m1 * b) (m2 * a)) as [L|L]; [left; exact L|].
  destruct (Z.lt_ge_cases (m2 * c) (m3 * b)) as [L2|L2]; [right; exact L2|].
  exfalso.
  assert (E1 : (m2 * a * c <= m1 * b * c)%Z) by (apply Z.mul_le_mono_nonneg_r; lia).
  assert (E2 : (m3 * b * a <= m2 * c * a)%Z) by (apply Z.mul_le_mono_nonneg_r; lia).
  assert (E3 : (m1 * c * b < m3 * a * b)%Z) by (apply Z.mul_lt_mono_pos_r; lia).
  lia.
Qed.

Lemma lex2_asym p q : lex2 p q = true -> lex2 q p = false.
Proof.
  unfold lex2. destruct (str_lt (fst p) (fst q)) eqn:E1.
  - intros _. now rewrite (str_lt_asym _ _ E1).
  - destruct (str_lt (fst q) (fst p)) eqn:E2; [discriminate|]. apply str_lt_asym.
Qed.

Lemma lex2_ntrans p q r : lex2 p r = true -> lex2 p q = true \/ lex2 q r = true.
Proof.
  unfold lex2.
  destruct (str_lt (fst p) (fst r)) eqn:E1.
  - intros _. destruct (str_lt_ntrans _ (fst q) _ E1) as [H|H]; rewrite H; auto.
  - destruct (str_lt (fst r) (fst p)) eqn:E2; [discriminate|]. intros H.
    destruct (str_lt (fst p) (fst q)) eqn:E3; auto.
    destruct (str_lt (fst q) (fst r)) eqn:E4; auto.
    destruct (str_lt (fst q) (fst p)) eqn:E5.
    { destruct (str_lt_ntrans _ (fst r) _ E5); congruence. }
    destruct (str_lt (fst r) (fst q)) eqn:E6.
    { destruct (str_lt_ntrans _ (fst p) _ E6); congruence. }
    now apply str_lt_ntrans.
Qed.

Lemma same_rank_asym x y : same_rank_lt x y = true -> same_rank_lt y x = false.
Proof.
  destruct x as [x|x|x|m k|x|l x|x], y as [y|y|y|m' k'|y|l' y|y]; simpl; auto;
    try apply str_lt_asym; try apply num_lt_asym; try apply lex2_asym.
  destruct x, y; simpl; auto.
Qed.

Lemma same_rank_ntrans x y z : rank (Some x) = rank (Some y) -> rank (Some y) = rank (Some z) ->
  same_rank_lt x z = true -> same_rank_lt x y = true \/ same_rank_lt y z = true.
Proof.
  destruct x as [x|x|x|m k|x|l x|x], y as [y|y|y|m' k'|y|l' y|y], z as [z|z|z|m'' k''|z|l'' z|z];
    simpl; intros R1 R2; try discriminate; auto;
    try apply str_lt_ntrans; try apply num_lt_ntrans; try apply lex2_ntrans.
  destruct x, y, z; simpl; auto.
Qed.

Lemma klt_asym a b : klt a b = true -> klt b a = false.
Proof.
  unfold klt.
  destruct (N.ltb_spec (rank a) (rank b)), (N.ltb_spec (rank b) (rank a)); try lia; auto; try discriminate.
  destruct a as [x|], b as [y|]; auto. apply same_rank_asym.
Qed.

Lemma klt_ntrans a b c : klt a c = true -> klt a b = true \/ klt b c = true.
Proof.
  unfold klt.
  destruct (N.ltb_spec (rank a) (rank c)), (N.ltb_spec (rank c) (rank a)),
           (N.ltb_spec (rank a) (rank b)), (N.ltb_spec (rank b) (rank a)),
           (N.ltb_spec (rank b) (rank c)), (N.ltb_spec (rank c) (rank b)); try lia; auto; try discriminate.
  destruct a as [x|], b as [y|], c as [z|]; try discriminate; auto;
    try (simpl in *; destruct x; simpl in *; lia);
    try (simpl in *; destruct y; simpl in *; lia);
    try (simpl in *; destruct z; simpl in *; lia).
  apply same_rank_ntrans; lia.
Qed.

Lemma klt_irrefl a : klt a a = false.
Proof. destruct (klt a a) eqn:E; auto. pose proof (klt_asym _ _ E). congruence. Qed.

(* kle is a total preorder *)
Lemma kle_total a b : kle a b = true \/ kle b a = true.
Proof.
  unfold kle. destruct (klt b a) eqn:E; [right|left; reflexivity].
  now rewrite (klt_asym _ _ E).
Qed.

Lemma kle_refl a : kle a a = true.
Proof. unfold kle. now rewrite klt_irrefl. Qed.

Lemma kle_trans a b c : kle a b = true -> kle b c = true -> kle a c = true.
Proof.
  unfold kle. rewrite !negb_true_iff. intros H1 H2.
  destruct (klt c a) eqn:E; auto.
  destruct (klt_ntrans _ b _ E); congruence.
Qed.

(* ------------------------------------------------------------------ *)
(* dedup *)
Section DedupFacts.
  Variable A : Type.
  Variable eqb : A -> A -> bool.
  Hypothesis eqb_spec : forall x y, reflect (x = y) (eqb x y).

  Lemma dedup_aux_In seen l x :
    In x (dedup_aux eqb seen l) <-> In x l /\ ~ In x seen.
  Proof.
    revert seen. induction l as [|y r IH]; intros seen; simpl; [tauto|].
    destruct (memb eqb y seen) eqn:E.
    - apply (memb_In _ eqb_spec) in E. rewrite IH. split; [tauto|].
      intros [[->|H] Hn]; tauto.
    - apply (memb_false _ eqb_spec) in E. simpl. rewrite IH. simpl. split.
      + intros [->|[H Hn]]; [tauto|]. split; [tauto|]. intros Hs. apply Hn; auto.
      + intros [[->|H] Hn]; [tauto|].
        destruct (eqb_spec y x) as [->|Hne]; [tauto|]. right. split; auto. intros [H'|H']; tauto.
  Qed.

  Lemma dedup_aux_NoDup seen l : NoDup (dedup_aux eqb seen l).
  Proof.
    revert seen. induction l as [|y r IH]; intros seen; simpl; [constructor|].
    destruct (memb eqb y seen) eqn:E; auto.
    constructor; auto. rewrite dedup_aux_In. simpl. tauto.
  Qed.

  Lemma dedup_In l x : In x (dedup eqb l) <-> In x l.
  Proof. unfold dedup. rewrite dedup_aux_In. simpl. tauto. Qed.

  Lemma dedup_NoDup l : NoDup (dedup eqb l).
  Proof. apply dedup_aux_NoDup. Qed.

  (* order of first occurrences: reading the list from the left, an element
     is appended iff it has not occurred before *)
  Lemma dedup_aux_snoc seen l x :
    dedup_aux eqb seen (l ++ [x]) =
    if memb eqb x (seen ++ l) then dedup_aux eqb seen l else dedup_aux eqb seen l ++ [x].
  Proof.
    revert seen. induction l as [|y r IH]; intros seen; simpl.
    - rewrite app_nil_r. destruct (memb eqb x seen); reflexivity.
    - destruct (memb eqb y seen) eqn:E.
      + rewrite IH.
        assert (Hm : memb eqb x (seen ++ y :: r) = memb eqb x (seen ++ r)).
        { apply eq_true_iff_eq. rewrite !(memb_In _ eqb_spec), !in_app_iff. simpl.
          apply (memb_In _ eqb_spec) in E. split; [intros [H|[->|H]]; auto|intros [H|H]; auto]. }
        now rewrite Hm.
      + rewrite IH.
        assert (Hm : memb eqb x ((y :: seen) ++ r) = memb eqb x (seen ++ y :: r)).
        { apply eq_true_iff_eq. rewrite !(memb_In _ eqb_spec). simpl. rewrite !in_app_iff. simpl. tauto. }
        rewrite Hm. destruct (memb eqb x (seen ++ y :: r)); reflexivity.
  Qed.

  Lemma dedup_snoc l x :
    dedup eqb (l ++ [x]) = if memb eqb x l then dedup eqb l else dedup eqb l ++ [x].
  Proof. unfold dedup. now rewrite dedup_aux_snoc. Qed.

  Lemma dedup_aux_SS (R : A -> A -> Prop) seen l :
    StronglySorted R l -> StronglySorted R (dedup_aux eqb seen l).
  Proof.
    revert seen. induction l as [|y r IH]; intros seen H; simpl; [constructor|].
    inversion H as [|? ? Hs Hf]; subst.
    destruct (memb eqb y seen); auto.
    constructor; auto. rewrite Forall_forall in *. intros z Hz.
    apply dedup_aux_In in Hz. apply Hf; tauto.
  Qed.

  Lemma dedup_id l : NoDup l -> dedup eqb l = l.
  Proof.
    unfold dedup. assert (G : forall seen, NoDup l -> (forall x, In x l -> ~ In x seen) ->
                                            dedup_aux eqb seen l = l).
    { induction l as [|y r IH]; intros seen Hn Hd; simpl; auto.
      inversion Hn; subst.
      destruct (memb eqb y seen) eqn:E.
      - apply (memb_In _ eqb_spec) in E. exfalso. apply (Hd y); simpl; auto.
      - f_equal. apply IH; auto. intros x Hx [->|Hs]; [tauto|]. apply (Hd x); simpl; auto. }
    intros Hn. apply G; auto.
  Qed.
End DedupFacts.

(* ------------------------------------------------------------------ *)
(* multiset equality checker *)
Section Perm.
  Variable A : Type.
  Variable eqb : A -> A -> bool.
  Hypothesis eqb_spec : forall x y, reflect (x = y) (eqb x y).

  Lemma remove_one_perm x l l' : remove_one eqb x l = Some l' -> Permutation l (x :: l').
  Proof.
    revert l'. induction l as [|y r IH]; intros l'; simpl; [discriminate|].
    destruct (eqb_spec x y) as [->|Hne].
    - intros E; inversion E; subst. apply Permutation_refl.
    - destruct (remove_one eqb x r) as [r'|]; [|discriminate].
      intros E; inversion E; subst.
      eapply perm_trans; [apply perm_skip, IH; reflexivity|]. apply perm_swap.
  Qed.

  Lemma remove_one_in x l : In x l -> exists l', remove_one eqb x l = Some l'.
  Proof.
    induction l as [|y r IH]; simpl; [tauto|].
    destruct (eqb_spec x y) as [->|Hne]; [eauto|].
    intros [->|H]; [congruence|]. destruct (IH H) as [l' ->]. eauto.
  Qed.

  Lemma permb_sound l1 l2 : permb eqb l1 l2 = true -> Permutation l1 l2.
  Proof.
    revert l2. induction l1 as [|x r IH]; intros l2; simpl.
    - destruct l2; [constructor|discriminate].
    - destruct (remove_one eqb x l2) as [l2'|] eqn:E; [|discriminate].
      intros H. apply IH in H. apply remove_one_perm in E.
      eapply perm_trans; [apply perm_skip, H|]. now apply Permutation_sym.
  Qed.

  Lemma permb_complete l1 l2 : Permutation l1 l2 -> permb eqb l1 l2 = true.
  Proof.
    revert l2. induction l1 as [|x r IH]; intros l2 H; simpl.
    - apply Permutation_nil in H. now subst.
    - assert (Hin : In x l2) by (eapply Permutation_in; [exact H|simpl; auto]).
      destruct (remove_one_in x l2 Hin) as [l2' E]. rewrite E. apply IH.
      apply remove_one_perm in E.
      apply Permutation_cons_inv with (a := x). eapply perm_trans; eauto.
  Qed.
End Perm.

(* ------------------------------------------------------------------ *)
(* stable insertion sort *)
Section SortFacts.
  Variable A : Type.
  Variable lt : A -> A -> bool.
  Hypothesis lt_asym : forall a b, lt a b = true -> lt b a = false.
  Hypothesis lt_ntrans : forall a b c, lt a c = true -> lt a b = true \/ lt b c = true.

  Lemma insert_perm x l : Permutation (insert lt x l) (x :: l).
  Proof.
    induction l as [|y r IH]; simpl; [apply Permutation_refl|].
    destruct (lt y x); [|apply Permutation_refl].
    eapply perm_trans; [apply perm_skip, IH|apply perm_swap].
  Qed.

  Lemma isort_perm l : Permutation (isort lt l) l.
  Proof.
    induction l as [|x r IH]; simpl; [constructor|].
    eapply perm_trans; [apply insert_perm|]. now apply perm_skip.
  Qed.

  Lemma insert_Forall (P : A -> Prop) x l : P x -> Forall P l -> Forall P (insert lt x l).
  Proof.
    intros Hx Hl. eapply Permutation_Forall; [apply Permutation_sym, insert_perm|]. constructor; auto.
  Qed.

  Variable R : A -> A -> Prop.   (* the order the input is already sorted by *)
  Definition lexR (x y : A) : Prop := lt x y = true \/ (lt y x = false /\ R x y).

  Lemma insert_lex x s :
    StronglySorted lexR s -> Forall (R x) s -> StronglySorted lexR (insert lt x s).
  Proof.
    induction s as [|y s IH]; intros Hs Hr; simpl.
    - constructor; constructor.
    - inversion Hs as [|? ? Hs' Hf]; subst. inversion Hr as [|? ? Hy Hr']; subst.
      destruct (lt y x) eqn:E.
      + constructor; [apply IH; auto|]. apply insert_Forall; auto. left; exact E.
      + constructor; [exact Hs|]. constructor; [right; auto|].
        rewrite Forall_forall in *. intros z Hz.
        destruct (lt z x) eqn:Ez.
        * exfalso. destruct (lt_ntrans _ y _ Ez) as [H1|H1]; [|congruence].
          destruct (Hf z Hz) as [H2|[H2 _]]; [|congruence].
          apply lt_asym in H2. congruence.
        * right. split; auto.
  Qed.

  Lemma isort_lex l : StronglySorted R l -> StronglySorted lexR (isort lt l).
  Proof.
    induction l as [|x r IH]; intros H; simpl; [constructor|].
    inversion H as [|? ? Hs Hf]; subst.
    apply insert_lex; auto.
    eapply Permutation_Forall; [apply Permutation_sym, isort_perm|]. exact Hf.
  Qed.
End SortFacts.

Lemma SS_app {A} (P : A -> A -> Prop) l1 l2 :
  StronglySorted P l1 -> StronglySorted P l2 ->
  (forall a b, In a l1 -> In b l2 -> P a b) -> StronglySorted P (l1 ++ l2).
Proof.
  induction l1 as [|x r IH]; intros H1 H2 H; simpl; auto.
  inversion H1 as [|? ? Hs Hf]; subst. constructor.
  - apply IH; auto. intros a b Ha Hb. apply H; simpl; auto.
  - apply Forall_app. split; auto. rewrite Forall_forall. intros b Hb. apply H; simpl; auto.
Qed.

Lemma SS_rev {A} (P : A -> A -> Prop) l :
  StronglySorted P l -> StronglySorted (fun x y => P y x) (rev l).
Proof.
  induction l as [|x r IH]; intros H; simpl; [constructor|].
  inversion H as [|? ? Hs Hf]; subst.
  apply SS_app; auto.
  - constructor; constructor.
  - intros a b Ha [<-|[]]. rewrite Forall_forall in Hf. apply Hf. now apply in_rev.
Qed.

Lemma SS_impl {A} (P Q : A -> A -> Prop) l :
  (forall x y, P x y -> Q x y) -> StronglySorted P l -> StronglySorted Q l.
Proof.
  intros HPQ. induction 1; constructor; auto.
  rewrite Forall_forall in *. auto.
Qed.

Lemma SS_map {A B} (f : A -> B) (P : B -> B -> Prop) l :
  StronglySorted (fun x y => P (f x) (f y)) l -> StronglySorted P (map f l).
Proof.
  induction 1; simpl; constructor; auto.
  rewrite Forall_forall in *. intros y Hy. apply in_map_iff in Hy. destruct Hy as [z [<- Hz]]. auto.
Qed.

(* ------------------------------------------------------------------ *)
(* ORDER BY *)

(* r1 may precede r2 *)
Fixpoint lexP (keys : list okey) (r1 r2 : sol) : Prop :=
  match keys with
  | [] => True
  | (desc, v) :: ks =>
      let a := lookup v r1 in
      let b := lookup v r2 in
      (if desc then klt b a else klt a b) = true
      \/ ((if desc then klt a b else klt b a) = false /\ lexP ks r1 r2)
  end.

Lemma lex_le_iff keys r1 r2 : lex_le keys r1 r2 = true <-> lexP keys r1 r2.
Proof.
  induction keys as [|[desc v] ks IH]; simpl; [tauto|].
  destruct (if desc then klt (lookup v r2) (lookup v r1) else klt (lookup v r1) (lookup v r2)) eqn:E1.
  - tauto.
  - destruct (if desc then klt (lookup v r1) (lookup v r2) else klt (lookup v r2) (lookup v r1)) eqn:E2.
    + split; [discriminate|]. intros [H|[H _]]; discriminate.
    + rewrite IH. split; [auto|]. intros [H|[_ H]]; [discriminate|auto].
Qed.

Lemma row_lt_asym v a b : row_lt v a b = true -> row_lt v b a = false.
Proof. apply klt_asym. Qed.

Lemma row_lt_ntrans v a b c : row_lt v a c = true -> row_lt v a b = true \/ row_lt v b c = true.
Proof. apply klt_ntrans. Qed.

Lemma sort_by_perm k l : Permutation (sort_by k l) l.
Proof.
  unfold sort_by. destruct (fst k).
  - eapply perm_trans; [apply Permutation_sym, Permutation_rev|].
    eapply perm_trans; [apply isort_perm|]. apply Permutation_sym, Permutation_rev.
  - apply isort_perm.
Qed.

Lemma eval_orderby_perm keys l : Permutation (eval_orderby keys l) l.
Proof.
  induction keys as [|k ks IH]; simpl; [apply Permutation_refl|].
  eapply perm_trans; [apply sort_by_perm|exact IH].
Qed.

Lemma sort_by_lex k ks l :
  StronglySorted (lexP ks) l -> StronglySorted (lexP (k :: ks)) (sort_by k l).
Proof.
  destruct k as [desc v]. unfold sort_by. simpl fst. simpl snd. intros H. destruct desc.
  - apply SS_rev in H.
    apply (isort_lex _ (row_lt v) (row_lt_asym v) (row_lt_ntrans v)) in H.
    apply SS_rev in H. eapply SS_impl; [|exact H].
    intros x y. unfold lexR, row_lt. simpl. tauto.
  - apply (isort_lex _ (row_lt v) (row_lt_asym v) (row_lt_ntrans v)) in H.
    eapply SS_impl; [|exact H]. intros x y. unfold lexR, row_lt. simpl. tauto.
Qed.

Lemma eval_orderby_sorted keys l : StronglySorted (lexP keys) (eval_orderby keys l).
Proof.
  induction keys as [|k ks IH]; simpl.
  - induction l; constructor; auto. rewrite Forall_forall. simpl. auto.
  - apply sort_by_lex. exact IH.
Qed.

Lemma SS_sortedb {A} (le : A -> A -> bool) l :
  StronglySorted (fun x y => le x y = true) l -> sortedb le l = true.
Proof.
  induction 1 as [|x r Hs IH Hf]; simpl; auto.
  destruct r as [|y r']; auto. inversion Hf; subst. rewrite IH. now rewrite H1.
Qed.

Lemma sortedb_Sorted {A} (le : A -> A -> bool) l :
  sortedb le l = true -> Sorted (fun x y => le x y = true) l.
Proof.
  induction l as [|x r IH]; intros H; [constructor|].
  simpl in H. destruct r as [|y r'].
  - constructor; constructor.
  - apply andb_true_iff in H. destruct H as [H1 H2]. constructor; auto.
Qed.

(* ------------------------------------------------------------------ *)
(* lexP is a total preorder; ORDER BY is stable *)
Lemma klt_trans a b c : klt a b = true -> klt b c = true -> klt a c = true.
Proof.
  intros H1 H2. destruct (klt_ntrans _ c _ H1) as [H|H]; auto.
  apply klt_asym in H2. congruence.
Qed.

Lemma lexP_refl keys a : lexP keys a a.
Proof.
  induction keys as [|[desc v] ks IH]; simpl; auto.
  right. split; auto. destruct desc; apply klt_irrefl.
Qed.

Lemma lexP_total keys a b : lexP keys a b \/ lexP keys b a.
Proof.
  induction keys as [|[desc v] ks IH]; simpl; auto.
  set (x := lookup v a). set (y := lookup v b).
  destruct desc.
  - destruct (klt y x) eqn:E1; [left; left; reflexivity|].
    destruct (klt x y) eqn:E2; [right; left; reflexivity|].
    destruct IH as [H|H]; [left|right]; right; auto.
  - destruct (klt x y) eqn:E1; [left; left; reflexivity|].
    destruct (klt y x) eqn:E2; [right; left; reflexivity|].
    destruct IH as [H|H]; [left|right]; right; auto.
Qed.

Lemma lexP_trans keys a b c : lexP keys a b -> lexP keys b c -> lexP keys a c.
Proof.
  induction keys as [|[desc v] ks IH]; simpl; auto.
  set (x := lookup v a). set (y := lookup v b). set (z := lookup v c).
  assert (G : forall lt : option term -> option term -> bool,
            (forall p q, lt p q = true -> lt q p = false) ->
            (forall p q r, lt p r = true -> lt p q = true \/ lt q r = true) ->
            lt x y = true \/ lt y x = false /\ lexP ks a b ->
            lt y z = true \/ lt z y = false /\ lexP ks b c ->
            lt x z = true \/ lt z x = false /\ lexP ks a c).
  { intros lt Ha Hn [H1|[H1 P1]] [H2|[H2 P2]].
    - left. destruct (Hn _ z _ H1) as [H|H]; auto. apply Ha in H2. congruence.
    - left. destruct (Hn _ z _ H1) as [H|H]; auto. congruence.
    - left. destruct (Hn _ x _ H2) as [H|H]; auto. congruence.
    - right. split; [|eauto].
      destruct (lt z x) eqn:E; auto. destruct (Hn _ y _ E) as [H|H]; congruence. }
  destruct desc.
  - apply (G (fun p q => klt q p)).
    + intros p q. apply klt_asym.
    + intros p q r H. destruct (klt_ntrans _ q _ H); auto.
  - apply (G klt); [apply klt_asym|apply klt_ntrans].
Qed.

Lemma Sorted_SS_lexP keys l : Sorted (fun x y => lexP keys x y) l -> StronglySorted (lexP keys) l.
Proof.
  apply Sorted_StronglySorted. intros a b c. apply lexP_trans.
Qed.

Section Stable.
  Variable A : Type.
  Variable lt : A -> A -> bool.
  Variable p : A -> bool.
  (* the selected elements are pairwise tied *)
  Hypothesis tied : forall a b, p a = true -> p b = true -> lt a b = false.

  Lemma insert_split x s : exists s1 s2,
    s = s1 ++ s2 /\ insert lt x s = s1 ++ x :: s2 /\ Forall (fun y => lt y x = true) s1.
  Proof.
    induction s as [|y r IH]; simpl.
    - exists [], []. repeat split; constructor.
    - destruct (lt y x) eqn:E.
      + destruct IH as [s1 [s2 [H1 [H2 H3]]]]. exists (y :: s1), s2. simpl.
        repeat split; [now f_equal|now f_equal|constructor; auto].
      + exists [], (y :: r). repeat split; constructor.
  Qed.

  Lemma filter_insert x s :
    filter p (insert lt x s) = if p x then x :: filter p s else filter p s.
  Proof.
    destruct (insert_split x s) as [s1 [s2 [H1 [H2 H3]]]]. rewrite H2, H1.
    rewrite !filter_app. simpl. destruct (p x) eqn:Ex; auto.
    assert (Hn : filter p s1 = []).
    { clear -H3 Ex tied. induction H3 as [|y r Hy Hr IH]; simpl; auto.
      destruct (p y) eqn:Ey; auto. rewrite (tied y x Ey Ex) in Hy. discriminate. }
    rewrite Hn. reflexivity.
  Qed.

  Lemma filter_isort l : filter p (isort lt l) = filter p l.
  Proof.
    induction l as [|x r IH]; simpl; auto.
    rewrite filter_insert, IH. reflexivity.
  Qed.
End Stable.

Lemma filter_rev' {A} (p : A -> bool) l : filter p (rev l) = rev (filter p l).
Proof.
  induction l as [|x r IH]; simpl; auto.
  rewrite filter_app, IH. simpl. destruct (p x); simpl; auto. now rewrite app_nil_r.
Qed.

(* ORDER BY is stable: rows that are pairwise tied on every sort key keep the
   order in which they arrived *)
Theorem eval_orderby_stable keys (p : sol -> bool) l :
  (forall k a b, In k keys -> p a = true -> p b = true -> row_lt (snd k) a b = false) ->
  filter p (eval_orderby keys l) = filter p l.
Proof.
  induction keys as [|k ks IH]; intros H; simpl; auto.
  assert (Hk : forall a b, p a = true -> p b = true -> row_lt (snd k) a b = false).
  { intros a b. apply H. simpl; auto. }
  unfold sort_by. destruct (fst k).
  - rewrite filter_rev', (filter_isort _ _ _ Hk), filter_rev', rev_involutive.
    apply IH. intros k' a b Hin. apply H. simpl; auto.
  - rewrite (filter_isort _ _ _ Hk). apply IH. intros k' a b Hin. apply H. simpl; auto.
Qed.
