(* C08: laws of the expression layer (error propagation, COALESCE / IF / BOUND, the
   three-valued connectives) and the arithmetic meaning of num_add / sum_nums: the value of
   a sum is the sum of the values (exact decimal arithmetic, any common scale). *)
From RV Require Import Modifiers.Model.

(* ------------------------------------------------------------------ *)
(* values at a common scale K: n = scaled n K / 10^K *)
Definition scale_of (n : numv) : N := match n with NInt _ => 0%N | NDec _ k => k end.
Definition scaled (n : numv) (K : N) : Z :=
  match n with NInt z => z * pow10 K | NDec m k => m * pow10 (K - k) end.

Lemma pow10_add a b : pow10 (a + b) = (pow10 a * pow10 b)%Z.
Proof. unfold pow10. rewrite N2Z.inj_add. apply Z.pow_add_r; lia. Qed.

Lemma pow10_split K k : (k <= K)%N -> pow10 K = (pow10 k * pow10 (K - k))%Z.
Proof. intros H. rewrite <- pow10_add. f_equal. lia. Qed.

Lemma scaled_add a b K :
  (scale_of a <= K)%N -> (scale_of b <= K)%N ->
  scaled (num_add a b) K = (scaled a K + scaled b K)%Z.
Proof.
  destruct a as [x|m k], b as [y|m' k']; simpl; intros Ha Hb.
  - ring.
  - rewrite (pow10_split K k' Hb). ring.
  - rewrite (pow10_split K k Ha). ring.
  - set (K0 := N.max k k').
    assert (H1 : pow10 (K - k) = (pow10 (K0 - k) * pow10 (K - K0))%Z).
    { rewrite <- pow10_add. f_equal. unfold K0. lia. }
    assert (H2 : pow10 (K - k') = (pow10 (K0 - k') * pow10 (K - K0))%Z).
    { rewrite <- pow10_add. f_equal. unfold K0. lia. }
    rewrite H1, H2. ring.
Qed.

Lemma scale_add a b : scale_of (num_add a b) = N.max (scale_of a) (scale_of b).
Proof. destruct a, b; simpl; lia. Qed.

Lemma scaled_neg a K : scaled (num_neg a) K = (- scaled a K)%Z.
Proof. destruct a; simpl; ring. Qed.

Fixpoint zsum (l : list Z) : Z := match l with [] => 0%Z | x :: r => (x + zsum r)%Z end.

Lemma fold_add_scaled l : forall acc K,
  (scale_of acc <= K)%N -> Forall (fun n => (scale_of n <= K)%N) l ->
  scaled (fold_left num_add l acc) K = (scaled acc K + zsum (map (fun n => scaled n K) l))%Z.
Proof.
  induction l as [|n r IH]; intros acc K Ha Hl; simpl; [ring|].
  inversion Hl; subst. rewrite IH; auto.
  - rewrite scaled_add; auto. ring.
  - rewrite scale_add. lia.
Qed.

(* SUM: at any scale K that covers the members, the accumulated value IS the sum of the
   members' values (no rounding, independent of the order they arrive in) *)
Theorem sum_nums_value l K :
  Forall (fun n => (scale_of n <= K)%N) l ->
  scaled (sum_nums l) K = zsum (map (fun n => scaled n K) l).
Proof.
  intros H. unfold sum_nums. rewrite fold_add_scaled; auto; simpl; lia.
Qed.

(* the comparison of numeric values is the comparison at a common scale *)
Lemma num_lt_scaled m k m' k' K : (k <= K)%N -> (k' <= K)%N ->
  num_lt (m, k) (m', k') = (scaled (NDec m k) K <? scaled (NDec m' k') K)%Z.
Proof.
  intros H1 H2. unfold num_lt. simpl.
  assert (P : forall k, (0 < pow10 k)%Z) by (intros k0; unfold pow10; apply Z.pow_pos_nonneg; lia).
  apply eq_true_iff_eq. rewrite !Z.ltb_lt.
  pose proof (P k) as Pk. pose proof (P k') as Pk'. pose proof (P (K - k)%N) as Q1. pose proof (P (K - k')%N) as Q2.
  assert (E1 : pow10 K = (pow10 k * pow10 (K - k))%Z) by now apply pow10_split.
  assert (E2 : pow10 K = (pow10 k' * pow10 (K - k'))%Z) by now apply pow10_split.
  set (a := pow10 k) in *. set (b := pow10 k') in *. set (c := pow10 (K - k)) in *. set (d := pow10 (K - k')) in *.
  assert (E : (a * c = b * d)%Z) by congruence.
  split; intros H.
  - apply Z.mul_lt_mono_pos_r with (p := (a * b)%Z); [nia|].
    replace (m * c * (a * b))%Z with (m * b * (a * c))%Z by ring.
    replace (m' * d * (a * b))%Z with (m' * a * (b * d))%Z by ring.
    rewrite <- E. apply Z.mul_lt_mono_pos_r; [nia|exact H].
  - apply Z.mul_lt_mono_pos_r with (p := (c * d)%Z); [nia|].
    replace (m * b * (c * d))%Z with (m * c * (b * d))%Z by ring.
    replace (m' * a * (c * d))%Z with (m' * d * (a * c))%Z by ring.
    rewrite E. apply Z.mul_lt_mono_pos_r; [nia|exact H].
Qed.

(* ------------------------------------------------------------------ *)
(* error propagation *)
Lemma num_arg_some o n : num_arg o = Some n -> exists t, o = Some t /\ numv_of t = Some n.
Proof. destruct o as [t|]; simpl; [eauto|discriminate]. Qed.

(* arithmetic is strict: it has a value only when every operand has a NUMERIC value *)
Theorem arith_strict r :
  (forall a t, eval_t (ENeg a) r = Some t ->
     exists x n, eval_t a r = Some x /\ numv_of x = Some n /\ t = lit_of_num (num_neg n))
  /\ (forall a t, eval_t (EPos a) r = Some t ->
     exists x n, eval_t a r = Some x /\ numv_of x = Some n /\ t = lit_of_num n)
  /\ (forall a b t, eval_t (EAdd a b) r = Some t ->
     exists x y n m, eval_t a r = Some x /\ eval_t b r = Some y /\ numv_of x = Some n /\ numv_of y = Some m
                     /\ t = lit_of_num (num_add n m))
  /\ (forall a b t, eval_t (ESub a b) r = Some t ->
     exists x y n m, eval_t a r = Some x /\ eval_t b r = Some y /\ numv_of x = Some n /\ numv_of y = Some m
                     /\ t = lit_of_num (num_add n (num_neg m))).
Proof.
  repeat split; simpl.
  - intros a t H. destruct (num_arg (eval_t a r)) as [n|] eqn:E; simpl in H; [|discriminate].
    apply num_arg_some in E. destruct E as [x [E1 E2]]. inversion H. eauto.
  - intros a t H. destruct (num_arg (eval_t a r)) as [n|] eqn:E; simpl in H; [|discriminate].
    apply num_arg_some in E. destruct E as [x [E1 E2]]. inversion H. eauto.
  - intros a b t H. destruct (num_arg (eval_t a r)) as [n|] eqn:E1; [|discriminate].
    destruct (num_arg (eval_t b r)) as [m|] eqn:E2; [|discriminate].
    apply num_arg_some in E1. apply num_arg_some in E2.
    destruct E1 as [x [? ?]], E2 as [y [? ?]]. inversion H. exists x, y, n, m. auto.
  - intros a b t H. destruct (num_arg (eval_t a r)) as [n|] eqn:E1; [|discriminate].
    destruct (num_arg (eval_t b r)) as [m|] eqn:E2; [|discriminate].
    apply num_arg_some in E1. apply num_arg_some in E2.
    destruct E1 as [x [? ?]], E2 as [y [? ?]]. inversion H. exists x, y, n, m. auto.
Qed.

(* COALESCE: the first argument that is not an error; BOUND never is an error; IF evaluates only
   the chosen branch and is an error when its condition is *)
Theorem coalesce_if_bound r :
  (forall a b, eval_t (ECoalesce a b) r = match eval_t a r with Some t => Some t | None => eval_t b r end)
  /\ (forall v, eval_b (BBound v) r = Some (match lookup v r with Some _ => true | None => false end))
  /\ (forall c a b, eval_t (EIf c a b) r =
        match eval_b c r with Some true => eval_t a r | Some false => eval_t b r | None => None end)
  /\ (forall v a b, eval_t (EIf (BBound v) a b) r = match lookup v r with Some _ => eval_t a r | None => eval_t b r end)
  /\ (forall v a, eval_t (ECoalesce (EVar v) a) r = eval_t (EIf (BBound v) (EVar v) a) r).
Proof.
  repeat split; intros; simpl; try reflexivity.
  - destruct (lookup v r); reflexivity.
  - destruct (lookup v r) eqn:E; auto.
Qed.

(* the connectives are the three-valued ones of SPARQL 17.2 *)
Theorem three_valued c d r :
  eval_b (BAnd c d) r = eval_b (BAnd d c) r
  /\ eval_b (BOr c d) r = eval_b (BOr d c) r
  /\ eval_b (BNot (BAnd c d)) r = eval_b (BOr (BNot c) (BNot d)) r
  /\ eval_b (BNot (BOr c d)) r = eval_b (BAnd (BNot c) (BNot d)) r
  /\ (eval_b c r = Some false -> eval_b (BAnd c d) r = Some false)
  /\ (eval_b c r = Some true -> eval_b (BOr c d) r = Some true)
  /\ (eval_b c r = None -> eval_b d r <> Some false -> eval_b (BAnd c d) r = None)
  /\ (eval_b c r = None -> eval_b d r <> Some true -> eval_b (BOr c d) r = None).
Proof.
  simpl. destruct (eval_b c r) as [[|]|], (eval_b d r) as [[|]|]; simpl; repeat split; congruence.
Qed.

(* ordering comparisons need two literals; = and != are defined on all terms *)
Theorem cmp_terms_defined op a b :
  (match op with OpEq | OpNe => True | _ => is_lit a && is_lit b = true end) <-> cmp_terms op a b <> None.
Proof.
  unfold cmp_terms. destruct op; try (split; [discriminate|auto]);
    destruct (is_lit a && is_lit b); split; try discriminate; try congruence; auto.
Qed.
