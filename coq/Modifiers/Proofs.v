(* C08: the aggregation stage of the model satisfies [agg_ok] outside the
   regions of the findings; the main theorem; what the checkers mean. *)
From Coq Require Import Permutation Sorting.Sorted.
From RV Require Import Modifiers.Model Modifiers.Order Modifiers.Post Modifiers.Agg.

(* ------------------------------------------------------------------ *)
(* rows built from (variable, optional value) lists *)
Lemma entries_app {A} (l1 l2 : list (var * option A)) : entries (l1 ++ l2) = entries l1 ++ entries l2.
Proof.
  induction l1 as [|[v [t|]] r IH]; simpl; auto. now f_equal.
Qed.

Lemma lookup_entries_notin v (l : list (var * option term)) :
  ~ In v (map fst l) -> lookup v (entries l) = None.
Proof.
  induction l as [|[v' o] r IH]; simpl; intros H; [reflexivity|].
  destruct o as [t|]; simpl.
  - destruct (N.eqb_spec v v') as [->|Hne]; [tauto|]. apply IH. tauto.
  - apply IH. tauto.
Qed.

Lemma lookup_entries v o (l : list (var * option term)) :
  NoDup (map fst l) -> In (v, o) l -> lookup v (entries l) = o.
Proof.
  induction l as [|[v' o'] r IH]; simpl; [tauto|].
  intros Hn [E|Hin]; inversion Hn; subst.
  - inversion E; subst. destruct o as [t|]; simpl.
    + now rewrite N.eqb_refl.
    + now apply lookup_entries_notin.
  - assert (Hne : v <> v').
    { intros ->. apply H1. apply in_map_iff. exists (v', o). auto. }
    destruct o' as [t|]; simpl; [|auto].
    destruct (N.eqb_spec v v'); [congruence|auto].
Qed.

Lemma entries_dom {A} b (l : list (var * option A)) : In b (entries l) -> In (fst b) (map fst l).
Proof.
  induction l as [|[v' [t|]] r IH]; simpl; auto.
  intros [<-|H]; auto.
Qed.

(* ------------------------------------------------------------------ *)
(* the values of a group variable inside one group *)
Lemma key_of_eq gv r r0 : key_of gv r = key_of gv r0 -> forall g, In g gv -> lookup g r = lookup g r0.
Proof.
  unfold key_of. induction gv as [|g' gv IH]; simpl; [tauto|].
  intros E g [<-|Hg]; inversion E; auto.
Qed.

Lemma sample_const g o m :
  (forall r, In r m -> lookup g r = o) -> m <> [] -> hd_error (bound (ovals (EVar g) m)) = o.
Proof.
  intros H Hne. destruct m as [|r0 m]; [congruence|].
  destruct o as [t|].
  - unfold ovals. simpl. rewrite (H r0); simpl; auto.
  - assert (G : forall l, (forall r, In r l -> lookup g r = None) -> bound (ovals (EVar g) l) = []).
    { induction l as [|r l IH]; simpl; auto. intros Hl. rewrite (Hl r); simpl; auto. }
    rewrite G; auto.
Qed.

Lemma nil_or_not {A} (l : list A) : l = [] \/ l <> [].
Proof. destruct l; [left; reflexivity|right; discriminate]. Qed.

Lemma exists_in {A} (l : list A) : l <> [] -> exists x, In x l.
Proof. destruct l as [|x r]; [congruence|]. intros _. exists x. simpl; auto. Qed.

Lemma key_of_nil gv r : gv = [] -> key_of gv r = [].
Proof. intros ->. reflexivity. Qed.

(* ------------------------------------------------------------------ *)
(* one group *)
Section OneGroup.
  Variables (gv : list var) (aggs : list (var * aggspec)).
  Hypothesis Hwf : NoDup (gv ++ map fst aggs).
  Variables (m : list sol) (k : gkey).
  Hypothesis Hkey : forall r, In r m -> key_of gv r = k.
  Hypothesis Hne : gv <> [] -> m <> [].
  Hypothesis Himp : gv = [] -> k = [].

  Lemma group_row_ok :
    let row := group_row gv aggs m in
    key_of gv row = k
    /\ (forall b, In b row -> In (fst b) (gv ++ map fst aggs))
    /\ (forall va, In va aggs -> agg_adm (snd va) m (lookup (fst va) row) = true).
  Proof.
    unfold group_row.
    set (L1 := map (fun g => (g, hd_error (bound (ovals (EVar g) m)))) gv).
    set (L2 := map (fun va : var * aggspec => (fst va, agg_run (snd va) m)) aggs).
    assert (HL1 : map fst L1 = gv) by (unfold L1; rewrite map_map; simpl; apply map_id).
    assert (HL2 : map fst L2 = map fst aggs) by (unfold L2; rewrite map_map; reflexivity).
    assert (Hnd : NoDup (map fst (L1 ++ L2))) by (rewrite map_app, HL1, HL2; exact Hwf).
    simpl. split; [|split].
    - destruct (nil_or_not gv) as [Egv|Egv].
      + rewrite (Himp Egv). now apply key_of_nil.
      + destruct (exists_in _ (Hne Egv)) as [r0 Hr0].
        rewrite <- (Hkey r0 Hr0). unfold key_of. apply map_ext_in.
        intros g Hg.
        rewrite (lookup_entries g (hd_error (bound (ovals (EVar g) m)))); auto.
        * apply sample_const; auto.
          intros r Hr. apply key_of_eq with (gv := gv); auto.
          rewrite (Hkey r Hr). symmetry. now apply Hkey.
        * apply in_or_app. left. unfold L1.
          apply in_map_iff. exists g. split; auto.
    - intros b Hb. apply entries_dom in Hb. now rewrite map_app, HL1, HL2 in Hb.
    - intros va Hva.
      rewrite (lookup_entries (fst va) (agg_run (snd va) m)); auto; [apply agg_run_adm|].
      apply in_or_app. right. unfold L2. apply in_map_iff. exists va. auto.
  Qed.
End OneGroup.

(* ------------------------------------------------------------------ *)
(* the aggregation stage *)
Lemma having_eval_holds gv h m k :
  match h with Some (HKey v _ _) => In v gv | _ => True end ->
  (forall r, In r m -> key_of gv r = k) -> (gv <> [] -> m <> []) ->
  having_eval h m = having_holds h m.
Proof.
  unfold having_eval, having_holds. destruct h as [[ha op n|v ne iri]|]; auto.
  intros Hv Hkey Hne.
  assert (Hgv : gv <> []) by (intros E; rewrite E in Hv; destruct Hv).
  specialize (Hne Hgv). destruct m as [|r0 ms]; [congruence|].
  rewrite (sample_const v (lookup v r0) (r0 :: ms)); [reflexivity| |discriminate].
  intros r Hr. apply key_of_eq with (gv := gv); auto.
  rewrite (Hkey r Hr). symmetry. apply Hkey. simpl; auto.
Qed.

Lemma NoDup_map_filter {A B} (f : A -> B) (p : A -> bool) l :
  NoDup (map f l) -> NoDup (map f (filter p l)).
Proof.
  induction l as [|x r IH]; simpl; auto. intros H. inversion H; subst.
  destruct (p x); simpl; auto. constructor; auto.
  intros Hin. apply H2. apply in_map_iff in Hin. destruct Hin as [y [E Hy]].
  apply filter_In in Hy. apply in_map_iff. exists y. tauto.
Qed.

Lemma groups_facts gv inp g : In g (groups_of gv inp) ->
  snd g = members gv (fst g) inp /\ (gv <> [] -> snd g <> []) /\ (gv = [] -> fst g = []).
Proof.
  destruct g as [k ms]. intros Hin. destruct gv as [|g0 gv'].
  - simpl in Hin. destruct Hin as [E|[]]. inversion E; subst. simpl.
    rewrite members_nil. repeat split; auto; congruence.
  - unfold groups_of in Hin. destruct (group_partition (g0 :: gv') inp) as [_ [Hkm _]].
    apply Hkm in Hin. simpl. destruct Hin. repeat split; auto; discriminate.
Qed.

Lemma agg_ok_groups_model c gv :
  c_group c = Some gv -> wf c = true ->
  agg_ok_groups c gv (map (fun g => group_row gv (c_aggs c) (snd g))
                          (filter (fun g => having_eval (c_having c) (snd g)) (groups_of gv (c_input c)))) = true.
Proof.
  intros Hg Hwf. set (inp := c_input c). set (gs := groups_of gv inp).
  set (hh := fun ms => having_holds (c_having c) ms).
  unfold wf in Hwf. rewrite Hg in Hwf. apply andb_true_iff in Hwf. destruct Hwf as [Hnd0 Hhk].
  apply (nodupb_spec _ N_eqb_spec) in Hnd0.
  assert (Hhk' : match c_having c with Some (HKey v _ _) => In v gv | _ => True end).
  { destruct (c_having c) as [[| v ne iri]|]; auto. now apply (memb_In _ N_eqb_spec). }
  assert (Hall : forall g, In g gs -> forall r, In r (snd g) -> key_of gv r = fst g).
  { intros g Hin r. destruct (groups_facts _ _ _ Hin) as [Hm _]. rewrite Hm, members_In. tauto. }
  assert (Hfilter : filter (fun g => having_eval (c_having c) (snd g)) gs = filter (fun g => hh (snd g)) gs).
  { apply filter_ext_in. intros g Hin. destruct (groups_facts _ _ _ Hin) as [Hm [Hne Himp]].
    apply (having_eval_holds gv _ _ (fst g)); auto. }
  rewrite Hfilter.
  assert (Hrow : forall g, In g gs ->
            key_of gv (group_row gv (c_aggs c) (snd g)) = fst g
            /\ row_ok gv (c_aggs c) inp (group_row gv (c_aggs c) (snd g)) = true).
  { intros g Hin. destruct (groups_facts _ _ _ Hin) as [Hm [Hne Himp]].
    destruct (group_row_ok gv (c_aggs c) Hnd0 (snd g) (fst g)) as [Hkey [Hdom Hadm]]; auto.
    split; [exact Hkey|]. unfold row_ok. rewrite Hkey. fold inp in Hm. rewrite <- Hm.
    apply andb_true_iff. split.
    - apply forallb_forall. intros b Hb. apply (memb_In _ N_eqb_spec). auto.
    - apply forallb_forall. auto. }
  assert (Hkeys : map (key_of gv) (map (fun g => group_row gv (c_aggs c) (snd g)) (filter (fun g => hh (snd g)) gs))
                  = map fst (filter (fun g => hh (snd g)) gs)).
  { rewrite map_map. apply map_ext_in. intros g Hin. apply filter_In in Hin. now apply Hrow. }
  unfold agg_ok_groups. fold inp. rewrite Hkeys.
  set (allkeys := match gv with [] => [[]] | _ :: _ => map (key_of gv) inp end).
  assert (Hnd : NoDup (map fst gs)).
  { unfold gs, groups_of. destruct gv; [simpl; constructor; [tauto|constructor]|].
    apply group_partition. }
  assert (Hgin : forall k, In k (map fst (filter (fun g => hh (snd g)) gs)) <->
                           In k (filter (fun k => hh (members gv k inp)) allkeys)).
  { intros k. rewrite in_map_iff, filter_In. split.
    - intros [[k' ms] [E Hin]]. simpl in E. subst k'. apply filter_In in Hin. destruct Hin as [Hin Hh].
      destruct (groups_facts _ _ _ Hin) as [Hm [Hne Himp]]. simpl in *. subst ms. split; auto.
      unfold allkeys. destruct gv as [|g0 gv'] eqn:Egv; [rewrite Himp; simpl; auto|].
      destruct (members (g0 :: gv') k inp) as [|r ms'] eqn:Em; [exfalso; apply Hne; [discriminate|auto]|].
      assert (Hr : In r (members (g0 :: gv') k inp)) by (rewrite Em; simpl; auto).
      apply members_In in Hr. destruct Hr as [Hr <-]. now apply in_map.
    - intros [Hk' Hh]. exists (k, members gv k inp). split; auto. apply filter_In. split; auto.
      unfold gs, groups_of, allkeys in *. destruct gv as [|g0 gv'].
      + destruct Hk' as [<-|[]]. rewrite members_nil. simpl; auto.
      + apply in_map_iff in Hk'. destruct Hk' as [r [<- Hr]].
        apply group_partition. exact Hr. }
  repeat (apply andb_true_iff; split).
  - apply (nodupb_spec _ gkey_eqb_spec). now apply NoDup_map_filter.
  - apply forallb_forall. intros k Hk'. apply (memb_In _ gkey_eqb_spec). now apply Hgin.
  - apply forallb_forall. intros k Hk'. apply (memb_In _ gkey_eqb_spec). now apply Hgin.
  - apply forallb_forall. intros row Hr. apply in_map_iff in Hr. destruct Hr as [g [<- Hin]].
    apply filter_In in Hin. now apply Hrow.
Qed.

Theorem agg_ok_model c : wf c = true -> agg_ok c (agg_stage c) = true.
Proof.
  intros Hwf. unfold agg_stage, agg_ok.
  destruct (c_group c) as [gv|] eqn:Hg; [|apply rows_eqb_refl].
  pose proof (agg_ok_groups_model c gv Hg Hwf) as G.
  unfold eval_aggjoin. destruct gv as [|g0 gv'].
  - exact G.
  - destruct (c_input c) as [|r inp'] eqn:Ei.
    + simpl. destruct (c_having c); reflexivity.
    + destruct (groups_of (g0 :: gv') (r :: inp')) as [|g1 gs'] eqn:Egs; [|exact G].
      exfalso. destruct (group_partition (g0 :: gv') (r :: inp')) as [_ [_ Hallr]].
      unfold groups_of in Egs. rewrite Egs in Hallr. apply (Hallr r). simpl; auto.
Qed.

(* GROUP BY over no solutions: both readings are accepted *)
Lemma agg_ok_empty_both c g0 gv' :
  c_group c = Some (g0 :: gv') -> c_input c = [] -> agg_ok c [] = true /\ agg_ok c [[]] = true.
Proof. intros Hg Hi. unfold agg_ok. rewrite Hg, Hi. split; reflexivity. Qed.

(* ------------------------------------------------------------------ *)
(* the theorem that ties model and checker *)
Theorem spec_ok_model c : wf c = true -> spec_ok c (model_obs c) = true.
Proof.
  intros Hwf. unfold model_obs, spec_ok.
  rewrite (agg_ok_model c Hwf), post_ok_model, rows_eqb_refl. reflexivity.
Qed.
