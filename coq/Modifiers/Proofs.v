(* C08: the aggregation stage of the model satisfies [agg_ok] outside the
   regions of the findings; the main theorem; what the checkers mean. *)
From Coq Require Import Permutation Sorting.Sorted.
From RV Require Import Modifiers.Model Modifiers.Order Modifiers.Post Modifiers.Agg.

(* ------------------------------------------------------------------ *)
(* rows built from (variable, optional value) lists *)
Lemma entries_app {A} (l1 l2 : list (var * option A)) : entries (l1 ++ l2) = entries l1 ++ entries l2.
Proof.
  induction l1 as [|[v [t|]] r IH]; simpl; auto. now f_equal.
Qed.

Lemma lookup_entries_notin v (l : list (var * option term)) :
  ~ In v (map fst l) -> lookup v (entries l) = None.
Proof.
  induction l as [|[v' o] r IH]; simpl; intros H; [reflexivity|].
  destruct o as [t|]; simpl.
  - destruct (N.eqb_spec v v') as [->|Hne]; [tauto|]. apply IH. tauto.
  - apply IH. tauto.
Qed.

Lemma lookup_entries v o (l : list (var * option term)) :
  NoDup (map fst l) -> In (v, o) l -> lookup v (entries l) = o.
Proof.
  induction l as [|[v' o'] r IH]; simpl; [tauto|].
  intros Hn [E|Hin]; inversion Hn; subst.
  - inversion E; subst. destruct o as [t|]; simpl.
    + now rewrite N.eqb_refl.
    + now apply lookup_entries_notin.
  - assert (Hne : v <> v').
    { intros ->. apply H1. apply in_map_iff. exists (v', o). auto. }
    destruct o' as [t|]; simpl; [|auto].
    destruct (N.eqb_spec v v'); [congruence|auto].
Qed.

Lemma entries_dom {A} b (l : list (var * option A)) : In b (entries l) -> In (fst b) (map fst l).
Proof.
  induction l as [|[v' [t|]] r IH]; simpl; auto.
  intros [<-|H]; auto.
Qed.

Lemma omap_all_some {A B} (f : A -> option B) l :
  (forall x, In x l -> exists y, f x = Some y) -> exists ys, omap_all f l = Some ys.
Proof.
  induction l as [|x r IH]; simpl; intros H; [eauto|].
  destruct (H x (or_introl eq_refl)) as [y ->].
  destruct IH as [ys ->]; eauto.
Qed.

Lemma omap_all_F2 {A B} (f : A -> option B) l ys :
  omap_all f l = Some ys -> Forall2 (fun x y => f x = Some y) l ys.
Proof.
  revert ys. induction l as [|x r IH]; simpl; intros ys H.
  - inversion H; constructor.
  - destruct (f x) eqn:E; [|discriminate]. destruct (omap_all f r); [|discriminate].
    inversion H; subst. constructor; auto.
Qed.

Lemma existsb_false {A} (f : A -> bool) l : existsb f l = false -> forall x, In x l -> f x = false.
Proof.
  induction l as [|y r IH]; simpl; [tauto|].
  intros H x [<-|Hx]; apply orb_false_iff in H; destruct H; auto.
Qed.

(* ------------------------------------------------------------------ *)
(* the values of a group variable inside one group *)
Lemma key_of_eq gv r r0 : key_of gv r = key_of gv r0 -> forall g, In g gv -> lookup g r = lookup g r0.
Proof.
  unfold key_of. induction gv as [|g' gv IH]; simpl; [tauto|].
  intros E g [<-|Hg]; inversion E; auto.
Qed.

Lemma sample_const g o m :
  (forall r, In r m -> lookup g r = o) -> m <> [] -> hd_error (bound (ovals g m)) = o.
Proof.
  intros H Hne. destruct m as [|r0 m]; [congruence|].
  destruct o as [t|].
  - unfold ovals. simpl. rewrite (H r0); simpl; auto.
  - assert (G : forall l, (forall r, In r l -> lookup g r = None) -> bound (ovals g l) = []).
    { induction l as [|r l IH]; simpl; auto. intros Hl. rewrite (Hl r); simpl; auto. }
    rewrite G; auto.
Qed.

Lemma nil_or_not {A} (l : list A) : l = [] \/ l <> [].
Proof. destruct l; [left; reflexivity|right; discriminate]. Qed.

Lemma exists_in {A} (l : list A) : l <> [] -> exists x, In x l.
Proof. destruct l as [|x r]; [congruence|]. intros _. exists x. simpl; auto. Qed.

Lemma key_of_nil gv r : gv = [] -> key_of gv r = [].
Proof. intros ->. reflexivity. Qed.

(* ------------------------------------------------------------------ *)
(* one group *)
Section OneGroup.
  Variables (gv : list var) (aggs : list (var * aggspec)) (h : option having).
  Hypothesis Hwf : NoDup (gv ++ map fst aggs).
  Variables (m : list sol) (k : gkey).
  Hypothesis Hsafe : forall a, In a (map snd aggs) -> agg_safe a m /\ ext_safe a m.
  Hypothesis Hkey : forall r, In r m -> key_of gv r = k.
  Hypothesis Hne : gv <> [] -> m <> [].
  Hypothesis Himp : gv = [] -> k = [].

  Lemma group_row_ok :
    exists row, group_row gv aggs m = Some row
      /\ key_of gv row = k
      /\ (forall b, In b row -> In (fst b) (gv ++ map fst aggs))
      /\ (forall va, In va aggs -> agg_adm (snd va) m (lookup (fst va) row) = true).
  Proof.
    unfold group_row.
    destruct (omap_all_some (fun va => option_map (pair (fst va)) (agg_run (snd va) m)) aggs) as [avs Havs].
    { intros va Hva. destruct (Hsafe (snd va)) as [Hs _]; [apply in_map; auto|].
      destruct (agg_run_some _ _ Hs) as [o ->]. simpl. eauto. }
    rewrite Havs. eexists. split; [reflexivity|].
    apply omap_all_F2 in Havs.
    assert (Hfst : map fst avs = map fst aggs).
    { clear -Havs. induction Havs as [|va av l l' H1 H2 IH]; simpl; auto.
      destruct (agg_run (snd va) m); simpl in H1; inversion H1; subst. simpl. now f_equal. }
    set (L1 := map (fun g => (g, hd_error (bound (ovals g m)))) gv).
    assert (HL1 : map fst L1 = gv).
    { unfold L1. rewrite map_map. simpl. apply map_id. }
    rewrite <- entries_app.
    assert (Hnd : NoDup (map fst (L1 ++ avs))) by (rewrite map_app, HL1, Hfst; exact Hwf).
    split; [|split].
    - (* key *)
      destruct (nil_or_not gv) as [Egv|Egv].
      + rewrite (Himp Egv). now apply key_of_nil.
      + destruct (exists_in _ (Hne Egv)) as [r0 Hr0].
        rewrite <- (Hkey r0 Hr0). unfold key_of. apply map_ext_in.
        intros g Hg.
        rewrite (lookup_entries g (hd_error (bound (ovals g m)))); auto.
        * apply sample_const; auto.
          intros r Hr. apply key_of_eq with (gv := gv); auto.
          rewrite (Hkey r Hr). symmetry. now apply Hkey.
        * apply in_or_app. left. unfold L1.
          apply in_map_iff. exists g. split; auto.
    - intros b Hb. apply entries_dom in Hb. now rewrite map_app, HL1, Hfst in Hb.
    - intros va Hva.
      destruct (Hsafe (snd va)) as [Hs He]; [apply in_map; auto|].
      assert (exists o, In (fst va, o) avs /\ agg_run (snd va) m = Some o) as [o [Ho Hrun]].
      { clear -Havs Hva. induction Havs as [|x av l l' H1 H2 IH]; [destruct Hva|].
        destruct Hva as [<-|Hva].
        - destruct (agg_run (snd x) m) as [o|]; simpl in H1; inversion H1; subst. exists o. simpl; auto.
        - destruct (IH Hva) as [o [Ho Hr]]. exists o. simpl; auto. }
      rewrite (lookup_entries (fst va) o); auto; [|apply in_or_app; auto].
      now apply agg_run_adm.
  Qed.
End OneGroup.

(* ------------------------------------------------------------------ *)
(* the trigger predicate unpacked *)
Lemma has_unbound_sub v m inp :
  (forall r, In r m -> In r inp) -> has_unbound (ovals v m) = true -> has_unbound (ovals v inp) = true.
Proof.
  unfold has_unbound, ovals. rewrite !existsb_exists. intros Hs [o [Ho Hn]].
  exists o. split; auto. apply in_map_iff in Ho. destruct Ho as [r [<- Hr]]. apply in_map. auto.
Qed.

Lemma numeric_sub v m inp :
  (forall r, In r m -> In r inp) -> forallb is_numeric (bound (ovals v inp)) = true ->
  forallb is_numeric (bound (ovals v m)) = true.
Proof.
  intros Hs. apply forallb_sub. intros x. rewrite !In_bound. unfold ovals.
  rewrite !in_map_iff. intros [r [E Hr]]. exists r. auto.
Qed.

Lemma kf_zero c gv :
  c_group c = Some gv -> kf c = 0%N ->
  (gv <> [] -> c_input c = [] -> c_having c <> None)
  /\ (forall a m, In a (all_aggs c) -> (forall r, In r m -> In r (c_input c)) -> agg_safe a m)
  /\ (forall a g, In a (map snd (c_aggs c)) -> In g (groups_of gv (c_input c)) -> ext_safe a (snd g)).
Proof.
  intros Hg Hk. unfold kf in Hk. rewrite Hg in Hk.
  set (inp := c_input c) in *.
  set (E4 := existsb (fun a => kind_needs_bound (a_kind a) && a_distinct a && has_unbound (arg_vals a inp)) (all_aggs c)) in *.
  set (E1 := existsb (fun a => is_kind_sum (a_kind a) && negb (forallb is_numeric (bound (arg_vals a inp)))) (all_aggs c)) in *.
  set (E2 := existsb (fun a => is_kind_avg (a_kind a) && negb (forallb is_numeric (bound (arg_vals a inp)))) (all_aggs c)) in *.
  set (E3 := existsb (fun a => ext_nonlit a gv inp) (map snd (c_aggs c))) in *.
  assert (Hrest : (if E4 then 4 else if E1 then 1 else if E2 then 2 else if E3 then 3 else 0)%N = 0%N
                  /\ (gv <> [] -> inp = [] -> c_having c <> None)).
  { destruct gv as [|g gv']; [split; [exact Hk|congruence]|].
    destruct inp as [|r inp']; [|split; [exact Hk|discriminate]].
    destruct (c_having c); [split; [exact Hk|discriminate]|discriminate]. }
  destruct Hrest as [Hr H5]. split; [exact H5|].
  destruct E4 eqn:H4; [discriminate|]. destruct E1 eqn:H1; [discriminate|].
  destruct E2 eqn:H2; [discriminate|]. destruct E3 eqn:H3; [discriminate|].
  split.
  - intros a m Ha Hsub. unfold agg_safe. destruct (a_arg a) as [v|] eqn:Ea; auto.
    pose proof (existsb_false _ _ H4 a Ha) as G4. pose proof (existsb_false _ _ H1 a Ha) as G1.
    pose proof (existsb_false _ _ H2 a Ha) as G2. simpl in G4, G1, G2.
    unfold arg_vals in *. rewrite Ea in *. split.
    + destruct (kind_needs_bound (a_kind a) && a_distinct a) eqn:Eb; auto. simpl in *.
      destruct (has_unbound (ovals v m)) eqn:Eu; auto.
      rewrite (has_unbound_sub v m inp Hsub Eu) in G4. discriminate.
    + intros Hkind. apply (numeric_sub v m inp Hsub).
      destruct (is_kind_sum (a_kind a)); simpl in *.
      * now apply negb_false_iff in G1.
      * rewrite Hkind in G2. now apply negb_false_iff in G2.
  - intros a g Ha Hgin. pose proof (existsb_false _ _ H3 a Ha) as G3. simpl in G3.
    unfold ext_nonlit in G3. unfold ext_safe.
    destruct (a_arg a) as [v|]; auto. destruct (a_kind a); auto.
    + apply (existsb_false _ _ G3 g Hgin).
    + apply (existsb_false _ _ G3 g Hgin).
Qed.

(* ------------------------------------------------------------------ *)
(* the aggregation stage *)
Lemma group_out_ok c gv g :
  c_group c = Some gv -> wf c = true -> kf c = 0%N ->
  In g (groups_of gv (c_input c)) ->
  snd g = members gv (fst g) (c_input c) ->
  (gv <> [] -> snd g <> []) -> (gv = [] -> fst g = []) ->
  exists row, group_out gv (c_aggs c) (c_having c) (snd g) = Some (having_holds (c_having c) (snd g), row)
    /\ key_of gv row = fst g /\ row_ok gv (c_aggs c) (c_input c) row = true.
Proof.
  intros Hg Hwf Hk Hin Hm Hne Himp.
  destruct (kf_zero c gv Hg Hk) as [_ [Hsafe Hext]].
  assert (Hnd : NoDup (gv ++ map fst (c_aggs c))).
  { unfold wf in Hwf. rewrite Hg in Hwf. apply andb_true_iff in Hwf.
    now apply (nodupb_spec _ N_eqb_spec). }
  assert (Hsub : forall r, In r (snd g) -> In r (c_input c)).
  { intros r. rewrite Hm, members_In. tauto. }
  destruct (group_row_ok gv (c_aggs c) Hnd (snd g) (fst g)) as [row [Hrow [Hkey [Hdom Hadm]]]]; auto.
  { intros a Ha. split; [apply Hsafe; auto|apply Hext; auto].
    unfold all_aggs. apply in_or_app. auto. }
  { intros r. rewrite Hm, members_In. tauto. }
  exists row. unfold group_out. rewrite Hrow. split; [|split; [exact Hkey|]].
  - unfold having_holds. destruct (c_having c) as [[ha op n|v ne iri]|] eqn:Eh; auto.
    + destruct (agg_run_some ha (snd g)) as [o ->]; auto.
      apply Hsafe; auto. unfold all_aggs. rewrite Eh. apply in_or_app. simpl; auto.
    + assert (Hv : In v gv).
      { unfold wf in Hwf. rewrite Hg, Eh in Hwf. apply andb_true_iff in Hwf.
        apply (memb_In _ N_eqb_spec). tauto. }
      assert (Hgv : gv <> []) by (intros E; rewrite E in Hv; destruct Hv).
      assert (Hall : forall r, In r (snd g) -> key_of gv r = fst g).
      { intros r. rewrite Hm, members_In. tauto. }
      destruct (snd g) as [|r0 ms] eqn:Es; [exfalso; apply (Hne Hgv); reflexivity|].
      rewrite (sample_const v (lookup v r0) (r0 :: ms)); [reflexivity| |discriminate].
      intros r Hr. apply key_of_eq with (gv := gv); auto.
      rewrite (Hall r Hr). symmetry. apply Hall. simpl; auto.
  - unfold row_ok. rewrite Hkey, <- Hm. apply andb_true_iff. split.
    + apply forallb_forall. intros b Hb. apply (memb_In _ N_eqb_spec). auto.
    + apply forallb_forall. auto.
Qed.

Lemma NoDup_map_filter {A B} (f : A -> B) (p : A -> bool) l :
  NoDup (map f l) -> NoDup (map f (filter p l)).
Proof.
  induction l as [|x r IH]; simpl; auto. intros H. inversion H; subst.
  destruct (p x); simpl; auto. constructor; auto.
  intros Hin. apply H2. apply in_map_iff in Hin. destruct Hin as [y [E Hy]].
  apply filter_In in Hy. apply in_map_iff. exists y. tauto.
Qed.

Lemma outs_keys (gv : list var) (f : gkey * list sol -> option (bool * sol))
      (hh : list sol -> bool) (ok : sol -> bool) l outs :
  Forall2 (fun x y => f x = Some y) l outs ->
  (forall g, In g l -> exists row, f g = Some (hh (snd g), row) /\ key_of gv row = fst g /\ ok row = true) ->
  map (key_of gv) (map snd (filter fst outs)) = map fst (filter (fun g => hh (snd g)) l)
  /\ forall row, In row (map snd (filter fst outs)) -> ok row = true.
Proof.
  induction 1 as [|g out l l' H1 H2 IH]; intros Hall; simpl; [split; [auto|tauto]|].
  destruct (Hall g) as [row [Ho [Hkey Hrow]]]; [simpl; auto|].
  rewrite Ho in H1. inversion H1; subst. simpl.
  destruct IH as [IH1 IH2]; [intros g' Hg'; apply Hall; simpl; auto|].
  destruct (hh (snd g)); simpl; [|split; auto].
  split; [now rewrite Hkey, IH1|]. intros r [<-|Hr]; auto.
Qed.

Theorem agg_ok_model c :
  wf c = true -> kf c = 0%N -> exists a, agg_stage c = Some a /\ agg_ok c a = true.
Proof.
  intros Hwf Hk. unfold agg_stage, agg_ok.
  destruct (c_group c) as [gv|] eqn:Hg.
  2:{ eexists. split; [reflexivity|apply rows_eqb_refl]. }
  set (inp := c_input c). set (hh := fun ms => having_holds (c_having c) ms).
  (* facts about every group *)
  assert (Hgroups : forall g, In g (groups_of gv inp) ->
            snd g = members gv (fst g) inp /\ (gv <> [] -> snd g <> []) /\ (gv = [] -> fst g = [])).
  { intros [k ms] Hin. destruct gv as [|g0 gv'].
    - simpl in Hin. destruct Hin as [E|[]]. inversion E; subst. simpl.
      rewrite members_nil. repeat split; auto; congruence.
    - unfold groups_of in Hin. destruct (group_partition (g0 :: gv') inp) as [_ [Hkm _]].
      apply Hkm in Hin. simpl. destruct Hin. repeat split; auto; discriminate. }
  unfold eval_aggjoin.
  destruct (groups_of gv inp) as [|g1 gs'] eqn:Egs.
  - (* no group at all: explicit GROUP BY over no solutions *)
    destruct gv as [|g0 gv']; [discriminate|].
    assert (Hin : inp = []).
    { destruct inp as [|r inp'] eqn:Ei; auto. exfalso.
      destruct (group_partition (g0 :: gv') (r :: inp')) as [_ [_ Hall]].
      unfold groups_of in Egs. rewrite Egs in Hall. apply (Hall r). simpl; auto. }
    destruct (kf_zero c _ Hg Hk) as [H5 _].
    destruct (c_having c) eqn:Eh; [|exfalso; apply H5; auto; discriminate].
    eexists. split; [reflexivity|]. fold inp. rewrite Hin. reflexivity.
  - rewrite <- Egs in *. set (gs := groups_of gv inp) in *.
    assert (Hout : forall g, In g gs -> exists row,
              group_out gv (c_aggs c) (c_having c) (snd g) = Some (hh (snd g), row)
              /\ key_of gv row = fst g /\ row_ok gv (c_aggs c) inp row = true).
    { intros g Hin. destruct (Hgroups g Hin) as [Hm [Hne Himp]].
      apply (group_out_ok c gv g); auto. }
    destruct (omap_all_some (fun g => group_out gv (c_aggs c) (c_having c) (snd g)) gs) as [outs Houts].
    { intros g Hin. destruct (Hout g Hin) as [row [-> _]]. eauto. }
    rewrite Houts. eexists. split; [reflexivity|].
    apply omap_all_F2 in Houts.
    (* the rows that come out, against the groups *)
    assert (Hkeys : map (key_of gv) (map snd (filter fst outs)) = map fst (filter (fun g => hh (snd g)) gs)
                    /\ forall row, In row (map snd (filter fst outs)) -> row_ok gv (c_aggs c) inp row = true).
    { apply (outs_keys gv _ hh _ gs outs Houts Hout). }
    destruct Hkeys as [Hkeys Hrows]. fold inp.
    set (allkeys := match gv with [] => [[]] | _ :: _ => map (key_of gv) inp end).
    assert (Hnd : NoDup (map fst gs)).
    { unfold gs, groups_of. destruct gv; [simpl; constructor; [tauto|constructor]|].
      apply group_partition. }
    assert (Hgin : forall k, In k (map fst (filter (fun g => hh (snd g)) gs)) <->
                             In k (filter (fun k => hh (members gv k inp)) allkeys)).
    { intros k. rewrite in_map_iff, filter_In. split.
      - intros [[k' ms] [E Hin]]. simpl in E. subst k'. apply filter_In in Hin. destruct Hin as [Hin Hh].
        destruct (Hgroups _ Hin) as [Hm [Hne Himp]]. simpl in *. subst ms. split; auto.
        unfold allkeys. destruct gv as [|g0 gv'] eqn:Egv; [rewrite Himp; simpl; auto|].
        destruct (members (g0 :: gv') k inp) as [|r ms'] eqn:Em; [exfalso; apply Hne; [discriminate|auto]|].
        assert (Hr : In r (members (g0 :: gv') k inp)) by (rewrite Em; simpl; auto).
        apply members_In in Hr. destruct Hr as [Hr <-]. now apply in_map.
      - intros [Hk' Hh]. exists (k, members gv k inp). split; auto. apply filter_In. split; auto.
        unfold gs, groups_of, allkeys in *. destruct gv as [|g0 gv'].
        + destruct Hk' as [<-|[]]. rewrite members_nil. simpl; auto.
        + apply in_map_iff in Hk'. destruct Hk' as [r [<- Hr]].
          apply group_partition. exact Hr. }
    rewrite Hkeys. repeat (apply andb_true_iff; split).
    + apply (nodupb_spec _ gkey_eqb_spec). now apply NoDup_map_filter.
    + apply forallb_forall. intros k Hk'. apply (memb_In _ gkey_eqb_spec). now apply Hgin.
    + apply forallb_forall. intros k Hk'. apply (memb_In _ gkey_eqb_spec). now apply Hgin.
    + apply forallb_forall. exact Hrows.
Qed.

(* ------------------------------------------------------------------ *)
(* the theorem that ties model and checker *)
Theorem spec_ok_model c : wf c = true -> kf c = 0%N -> spec_ok c (model_obs c) = true.
Proof.
  intros Hwf Hk. destruct (agg_ok_model c Hwf Hk) as [a [Ha Hok]].
  unfold model_obs. rewrite Ha. simpl. rewrite Hok, post_ok_model, rows_eqb_refl. reflexivity.
Qed.
