(* C08, numeric type promotion in SUM/AVG (aggregates.Sum/Average + datatypes.type_promotion)
   over the tables REFLECTED from the source (Gen/Tables_promo.v), with xsd:float and
   xsd:double members.  Values are exact rationals (num, den); floating point results are
   compared with a tolerance: doubles are outside the proved value fragment, only the
   datatype of the result is a proved statement.  Definitions only. *)
From Coq Require Export List NArith ZArith Bool Lia.
From RV Require Export Gen.Tables_promo.
Export ListNotations.

(* datatype codes: 0 integer, 1 decimal, 2 float, 3 double, 10.. integer subtypes *)
Fixpoint assoc {B} (k : N) (l : list (N * B)) : option B :=
  match l with [] => None | (k', v) :: r => if N.eqb k k' then Some v else assoc k r end.

Definition super (t : N) : N := match assoc t super_types with Some s => s | None => t end.

(* datatypes.type_promotion; None = TypeError *)
Definition type_promotion (t1 t2 : N) : option N :=
  let a := super t1 in
  let b := super t2 in
  if N.eqb a b then Some a
  else match assoc a promo_table with Some row => assoc b row | None => None end.

Definition qv := (Z * Z)%type.     (* num / den, den > 0 *)
Definition qadd (a b : qv) : qv := (fst a * snd b + fst b * snd a, snd a * snd b)%Z.
Definition qabs (a : qv) : qv := (Z.abs (fst a), snd a).

Record pcase := { p_avg : bool; p_vals : list (N * qv) }.
Inductive pobs := PErr | PVal (dt : N) (v : qv).

(* Sum.update / Average.update: dt = first datatype, then type_promotion(dt, next) *)
Definition dt_step (acc : option (option N)) (t : N) : option (option N) :=
  match acc with
  | None => None
  | Some None => Some (Some t)
  | Some (Some d) => match type_promotion d t with Some d' => Some (Some d') | None => None end
  end.

Definition dt_fold (l : list N) : option (option N) := fold_left dt_step l (Some None).

Definition qsum (l : list qv) : qv := fold_left qadd l (0, 1)%Z.

Definition pmodel (c : pcase) : pobs :=
  let vals := map snd (p_vals c) in
  match dt_fold (map fst (p_vals c)) with
  | None => PErr
  | Some None => PVal 0 (0, 1)%Z                    (* Literal(0) *)
  | Some (Some d) =>
      let s := qsum vals in
      if p_avg c then
        let v := (fst s, snd s * Z.of_nat (length vals))%Z in
        (* Literal(sum / counter, datatype=self.datatype) in the float/double branch (commit
           bd5db65a); Literal(Decimal / Decimal) is an xsd:decimal *)
        if N.eqb d 2 || N.eqb d 3 then PVal d v else PVal 1 v
      else PVal d s
  end.

(* |a - b| <= 10^-6 * bound *)
Definition close (a b bound : qv) : bool :=
  (Z.abs (fst a * snd b - fst b * snd a) * Z.abs (snd bound) * 1000000
   <=? Z.abs (fst bound * snd a * snd b))%Z.

Definition pbound (c : pcase) : qv := qadd (1, 1)%Z (qsum (map qabs (map snd (p_vals c)))).

Definition pobs_eqb (a b : pobs) : bool :=
  match a, b with
  | PErr, PErr => true
  | PVal d v, PVal d' v' => N.eqb d d' && close v v' (qadd (1, 1)%Z (qadd (qabs v) (qabs v')))
  | _, _ => false
  end.

(* the XSD numeric lattice integer < decimal < float < double *)
Definition lattice_max (l : list N) : N := fold_left N.max l 0%N.

Definition pexact (c : pcase) : qv :=
  let vals := map snd (p_vals c) in
  let s := qsum vals in
  if p_avg c then (fst s, snd s * Z.of_nat (length vals))%Z else s.

(* SPARQL 18.5.1.3/4 with XPath numeric promotion: SUM has the least common type of the members
   (xsd:integer for none), AVG = SUM / COUNT: xsd:decimal for integers and decimals, else the
   floating type of the sum; the value within 10^-6 of the exact one *)
Definition pspec (c : pcase) (o : pobs) : bool :=
  match o with
  | PErr => false
  | PVal d v =>
      match p_vals c with
      | [] => N.eqb d 0 && close v (0, 1)%Z (1, 1)%Z
      | _ =>
          let mx := lattice_max (map fst (p_vals c)) in
          N.eqb d (if p_avg c then N.max 1 mx else mx) && close v (pexact c) (pbound c)
      end
  end.

Definition pwf (c : pcase) : bool := forallb (fun p => N.ltb (fst p) 4) (p_vals c).
