(* C08: grouping is a partition by key; every accumulator computes an
   admissible value of its aggregate. *)
From Coq Require Import Permutation.
From RV Require Import Modifiers.Model Modifiers.Order.

(* ------------------------------------------------------------------ *)
(* groups *)
Fixpoint glookup (k : gkey) (gs : list (gkey * list sol)) : option (list sol) :=
  match gs with
  | [] => None
  | (k', m) :: r => if gkey_eqb k k' then Some m else glookup k r
  end.

Lemma glookup_add k k0 r gs :
  glookup k (group_add k0 r gs) =
  if gkey_eqb k k0 then Some (match glookup k0 gs with Some m => m ++ [r] | None => [r] end)
  else glookup k gs.
Proof.
  induction gs as [|[k' m] rest IH]; simpl.
  - reflexivity.
  - destruct (gkey_eqb_spec k0 k') as [->|Hne]; simpl.
    + destruct (gkey_eqb_spec k k'); reflexivity.
    + rewrite IH. destruct (gkey_eqb_spec k k') as [->|Hne2]; auto.
      destruct (gkey_eqb_spec k' k0); [congruence|reflexivity].
Qed.

Lemma group_add_keys k k0 r gs :
  In k (map fst (group_add k0 r gs)) <-> k = k0 \/ In k (map fst gs).
Proof.
  induction gs as [|[k' m] rest IH]; simpl.
  - intuition.
  - destruct (gkey_eqb_spec k0 k') as [->|Hne]; simpl; [intuition|]. rewrite IH. intuition.
Qed.

Lemma group_add_NoDup k0 r gs : NoDup (map fst gs) -> NoDup (map fst (group_add k0 r gs)).
Proof.
  induction gs as [|[k' m] rest IH]; simpl; intros H.
  - constructor; [simpl; tauto|constructor].
  - inversion H; subst. destruct (gkey_eqb_spec k0 k') as [->|Hne]; simpl.
    + constructor; auto.
    + constructor; auto. rewrite group_add_keys. intros [E|E]; [congruence|tauto].
Qed.

Lemma glookup_In k m gs : glookup k gs = Some m -> In (k, m) gs.
Proof.
  induction gs as [|[k' m'] rest IH]; simpl; [discriminate|].
  destruct (gkey_eqb_spec k k') as [->|Hne]; [intros E; inversion E; auto|auto].
Qed.

Lemma In_glookup k m gs : NoDup (map fst gs) -> In (k, m) gs -> glookup k gs = Some m.
Proof.
  induction gs as [|[k' m'] rest IH]; simpl; [tauto|].
  intros Hn [E|Hin]; inversion Hn; subst.
  - inversion E; subst. destruct (gkey_eqb_spec k k); congruence.
  - destruct (gkey_eqb_spec k k') as [->|Hne]; auto.
    exfalso. apply H1. apply in_map_iff. exists (k', m). auto.
Qed.

Definition Inv (gv : list var) (gs : list (gkey * list sol)) (pre : list sol) : Prop :=
  NoDup (map fst gs) /\
  forall k, glookup k gs = match members gv k pre with [] => None | m => Some m end.

Lemma members_app gv k l1 l2 : members gv k (l1 ++ l2) = members gv k l1 ++ members gv k l2.
Proof. unfold members. apply filter_app. Qed.

Lemma Inv_step gv gs pre r :
  Inv gv gs pre -> Inv gv (group_add (key_of gv r) r gs) (pre ++ [r]).
Proof.
  intros [Hn Hl]. split; [now apply group_add_NoDup|].
  intros k. rewrite glookup_add, members_app. unfold members at 2. simpl.
  destruct (gkey_eqb_spec k (key_of gv r)) as [->|Hne].
  - destruct (gkey_eqb_spec (key_of gv r) (key_of gv r)); [|congruence].
    rewrite Hl. destruct (members gv (key_of gv r) pre); reflexivity.
  - destruct (gkey_eqb_spec (key_of gv r) k); [congruence|].
    rewrite app_nil_r. apply Hl.
Qed.

Lemma Inv_fold gv l : forall gs pre, Inv gv gs pre ->
  Inv gv (fold_left (fun gs r => group_add (key_of gv r) r gs) l gs) (pre ++ l).
Proof.
  induction l as [|r l IH]; intros gs pre H; simpl.
  - now rewrite app_nil_r.
  - replace (pre ++ r :: l) with ((pre ++ [r]) ++ l) by (rewrite <- app_assoc; reflexivity).
    apply IH. now apply Inv_step.
Qed.

Lemma group_rows_Inv gv input : Inv gv (group_rows gv input) input.
Proof.
  unfold group_rows. apply (Inv_fold gv input [] []). split; [constructor|]. intros k. reflexivity.
Qed.

(* GROUP BY partitions the input by key: the groups have distinct keys, the
   group with key k holds exactly the solutions with key k in input order, no
   group is empty, and every solution is in the group of its key *)
Theorem group_partition gv input :
  let gs := group_rows gv input in
  NoDup (map fst gs)
  /\ (forall k m, In (k, m) gs <-> (m = members gv k input /\ m <> []))
  /\ (forall r, In r input -> In (key_of gv r, members gv (key_of gv r) input) gs).
Proof.
  destruct (group_rows_Inv gv input) as [Hn Hl]. simpl.
  assert (Hkm : forall k m, In (k, m) (group_rows gv input) <-> m = members gv k input /\ m <> []).
  { intros k m. split.
    - intros Hin. apply (In_glookup _ _ _ Hn) in Hin. rewrite Hl in Hin.
      destruct (members gv k input) eqn:E; [discriminate|]. inversion Hin; subst. split; [auto|discriminate].
    - intros [-> Hne]. apply glookup_In. rewrite Hl.
      destruct (members gv k input); [congruence|reflexivity]. }
  split; [exact Hn|]. split; [exact Hkm|].
  intros r Hr. apply Hkm. split; auto.
  assert (In r (members gv (key_of gv r) input)).
  { unfold members. apply filter_In. split; auto. destruct (gkey_eqb_spec (key_of gv r) (key_of gv r)); congruence. }
  intros E. rewrite E in H. exact H.
Qed.

Lemma members_nil input : members [] [] input = input.
Proof. unfold members. induction input; simpl; auto. now f_equal. Qed.

Lemma members_In gv k input r : In r (members gv k input) <-> In r input /\ key_of gv r = k.
Proof.
  unfold members. rewrite filter_In. destruct (gkey_eqb_spec (key_of gv r) k); intuition congruence.
Qed.

Lemma members_idem gv k input : members gv k (members gv k input) = members gv k input.
Proof.
  unfold members. induction input as [|r l IH]; simpl; auto.
  destruct (gkey_eqb (key_of gv r) k) eqn:E; simpl; [rewrite E; now f_equal|auto].
Qed.

(* ------------------------------------------------------------------ *)
(* small list facts *)
Lemma In_bound t l : In t (bound l) <-> In (Some t) l.
Proof.
  induction l as [|[x|] r IH]; simpl; [tauto| |].
  - rewrite IH. split; intros [H|H]; auto; left; congruence.
  - rewrite IH. split; [auto|]. intros [H|H]; [discriminate|auto].
Qed.

Lemma filter_all {A} (f : A -> bool) l : forallb f l = true -> filter f l = l.
Proof.
  induction l as [|x r IH]; simpl; auto. intros H. apply andb_true_iff in H. destruct H as [H1 H2].
  rewrite H1. now f_equal; auto.
Qed.

Lemma nums_of_length l : forallb is_numeric l = true -> length (nums_of l) = length l.
Proof.
  induction l as [|x r IH]; simpl; auto. unfold is_numeric at 1.
  destruct (numv_of x); simpl; [auto|discriminate].
Qed.

Lemma forallb_sub {A} (f : A -> bool) l l' :
  (forall x, In x l' -> In x l) -> forallb f l = true -> forallb f l' = true.
Proof. rewrite !forallb_forall. auto. Qed.

Lemma strip_prefix_app p s : strip_prefix p (p ++ s) = Some s.
Proof. induction p as [|x p IH]; simpl; auto. now rewrite N.eqb_refl. Qed.

Lemma lexists_existsb {A} (f : A -> bool) l : lexists f l = existsb f l.
Proof. induction l as [|x r IH]; simpl; auto. destruct (f x); auto. Qed.

Lemma first_occ_In seen ps p : In p (first_occ seen ps) -> In p ps.
Proof.
  revert seen. induction ps as [|q r IH]; intros seen; simpl; auto.
  destruct (memb str_eqb (fst q) seen); simpl; [eauto|]. intros [H|H]; eauto.
Qed.

Lemma concat_match_join sep l : concat_match (S (length l)) sep l (join sep l) = true.
Proof.
  induction l as [|x r IH]; [reflexivity|].
  change (concat_match (S (length (x :: r))) sep (x :: r) (join sep (x :: r)))
    with (lexists (fun p =>
            match strip_prefix (fst p) (join sep (x :: r)) with
            | None => false
            | Some s' =>
                match snd p with
                | [] => match s' with [] => true | _ => false end
                | rest => match strip_prefix sep s' with
                          | None => false
                          | Some s'' => concat_match (length (x :: r)) sep rest s''
                          end
                end
            end) (first_occ [] (picks (x :: r)))).
  destruct r as [|y r'].
  - simpl. replace x with (x ++ []) at 2 by apply app_nil_r. rewrite strip_prefix_app. reflexivity.
  - cbn [picks first_occ lexists memb fst snd].
    change (join sep (x :: y :: r')) with (x ++ sep ++ join sep (y :: r')).
    rewrite strip_prefix_app. rewrite strip_prefix_app.
    change (length (x :: y :: r')) with (S (length (y :: r'))).
    rewrite IH. reflexivity.
Qed.

Lemma oterm_eqb_refl o : oterm_eqb o o = true.
Proof. destruct (oterm_eqb_spec o o); congruence. Qed.

Lemma term_eqb_refl t : term_eqb t t = true.
Proof. destruct (term_eqb_spec t t); congruence. Qed.

Lemma num_same_lit n : num_same (lit_of_num n) (lit_of_num n) = true.
Proof. destruct n; unfold num_same, num_eqv; simpl; now rewrite Z.eqb_refl. Qed.

Lemma num_same_avg s n : num_same (avg_lit s n) (avg_lit s n) = true.
Proof.
  unfold avg_lit, dec_lit. destruct s;
    match goal with |- context [if ?b then _ else _] => destruct b end;
    unfold num_same, num_eqv; simpl; now rewrite Z.eqb_refl.
Qed.

(* ------------------------------------------------------------------ *)
(* MIN / MAX *)
Definition min_good (acc : option term) (S : list term) : Prop :=
  match acc with
  | None => S = []
  | Some t => In t S /\ forall x, In x S -> klt (Some x) (Some t) = false
  end.

Definition max_good (acc : option term) (S : list term) : Prop :=
  match acc with
  | None => S = []
  | Some t => In t S /\ forall x, In x S -> klt (Some t) (Some x) = false
  end.

Lemma bound_app l1 l2 : bound (l1 ++ l2) = bound l1 ++ bound l2.
Proof. induction l1 as [|[x|] r IH]; simpl; auto. now f_equal. Qed.

Lemma min_fold l : forall acc S, min_good acc S ->
  min_good (fold_left (ext_step false) l acc) (S ++ bound l).
Proof.
  induction l as [|o l IH]; intros acc S H; simpl; [now rewrite app_nil_r|].
  destruct o as [t|]; simpl; [|now apply IH].
  replace (S ++ t :: bound l) with ((S ++ [t]) ++ bound l) by (rewrite <- app_assoc; reflexivity).
  apply IH. destruct acc as [cur|]; simpl in *.
  - destruct H as [Hin Hmin]. destruct (klt (Some t) (Some cur)) eqn:E; simpl.
    + split; [apply in_or_app; simpl; auto|]. intros x Hx. apply in_app_or in Hx.
      destruct Hx as [Hx|[<-|[]]]; [|apply klt_irrefl].
      destruct (klt (Some x) (Some t)) eqn:E2; auto.
      destruct (klt_ntrans _ (Some cur) _ E2) as [H1|H1].
      * rewrite (Hmin x Hx) in H1. discriminate.
      * apply klt_asym in E. congruence.
    + split; [apply in_or_app; auto|]. intros x Hx. apply in_app_or in Hx.
      destruct Hx as [Hx|[<-|[]]]; auto.
  - subst S. simpl. split; auto. intros x [<-|[]]. apply klt_irrefl.
Qed.

Lemma max_fold l : forall acc S, max_good acc S ->
  max_good (fold_left (ext_step true) l acc) (S ++ bound l).
Proof.
  induction l as [|o l IH]; intros acc S H; simpl; [now rewrite app_nil_r|].
  destruct o as [t|]; simpl; [|now apply IH].
  replace (S ++ t :: bound l) with ((S ++ [t]) ++ bound l) by (rewrite <- app_assoc; reflexivity).
  apply IH. destruct acc as [cur|]; simpl in *.
  - destruct H as [Hin Hmax]. destruct (klt (Some cur) (Some t)) eqn:E; simpl.
    + split; [apply in_or_app; simpl; auto|]. intros x Hx. apply in_app_or in Hx.
      destruct Hx as [Hx|[<-|[]]]; [|apply klt_irrefl].
      destruct (klt (Some t) (Some x)) eqn:E2; auto.
      destruct (klt_ntrans _ (Some cur) _ E2) as [H1|H1].
      * apply klt_asym in E. congruence.
      * rewrite (Hmax x Hx) in H1. discriminate.
    + split; [apply in_or_app; auto|]. intros x Hx. apply in_app_or in Hx.
      destruct Hx as [Hx|[<-|[]]]; auto.
  - subst S. simpl. split; auto. intros x [<-|[]]. apply klt_irrefl.
Qed.

Lemma ext_min_spec l : min_good (ext_raw false l) (bound l).
Proof. apply (min_fold l None []). reflexivity. Qed.

Lemma ext_max_spec l : max_good (ext_raw true l) (bound l).
Proof. apply (max_fold l None []). reflexivity. Qed.

(* ------------------------------------------------------------------ *)
(* every accumulator returns an admissible value of its aggregate *)
Theorem agg_run_adm a m : agg_adm a m (agg_run a m) = true.
Proof.
  unfold agg_run, agg_adm. destruct (a_arg a) as [v|]; [|apply oterm_eqb_refl].
  unfold use_rows.
  set (vals := bound (ovals v m)).
  set (dv := if a_distinct a then dedup term_eqb vals else vals).
  destruct (a_kind a) eqn:K.
  - (* COUNT *) apply oterm_eqb_refl.
  - (* SUM *) destruct (negb (is_var v) && has_unbound (ovals v m)); [reflexivity|].
    destruct (forallb is_numeric dv); [apply num_same_lit|reflexivity].
  - (* AVG *) destruct (negb (is_var v) && has_unbound (ovals v m)); [reflexivity|].
    destruct (forallb is_numeric dv) eqn:Hn; [|reflexivity].
    destruct dv as [|x dv'] eqn:Edv; [reflexivity|].
    pose proof (nums_of_length _ Hn) as Hlen.
    destruct (nums_of (x :: dv')) as [|n ns] eqn:En; [simpl in Hlen; discriminate|].
    rewrite <- Hlen. apply num_same_avg.
  - (* MIN *)
    pose proof (ext_min_spec (ovals v m)) as G. fold vals in G.
    destruct (ext_raw false (ovals v m)) as [t|]; simpl in *.
    + destruct G as [Hin Hmin].
      destruct vals as [|y vs] eqn:Ev; [destruct Hin|].
      apply andb_true_iff. split.
      * apply (memb_In _ term_eqb_spec). exact Hin.
      * apply forallb_forall. intros x Hx. unfold kle. now rewrite (Hmin x Hx).
    + now rewrite G.
  - (* MAX *)
    pose proof (ext_max_spec (ovals v m)) as G. fold vals in G.
    destruct (ext_raw true (ovals v m)) as [t|]; simpl in *.
    + destruct G as [Hin Hmax].
      destruct vals as [|y vs] eqn:Ev; [destruct Hin|].
      apply andb_true_iff. split.
      * apply (memb_In _ term_eqb_spec). exact Hin.
      * apply forallb_forall. intros x Hx. unfold kle. now rewrite (Hmax x Hx).
    + now rewrite G.
  - (* SAMPLE *)
    destruct vals as [|y vs]; simpl; auto. now rewrite term_eqb_refl.
  - (* GROUP_CONCAT *)
    rewrite <- (map_length term_str dv). apply concat_match_join.
Qed.
