(* C08: Prop-level readings of the aggregate checkers [agg_adm] and [agg_ok]
   (for ANY observed value / rows, not only the model's). *)
From Coq Require Import Permutation.
From RV Require Import Modifiers.Model Modifiers.Order Modifiers.Agg.

Definition avals (a : aggspec) (v : texpr) (rows : list sol) : list term :=
  let vals := bound (ovals v rows) in if a_distinct a then dedup term_eqb vals else vals.

(* with DISTINCT the values are taken once each *)
Lemma avals_distinct a v rows :
  a_distinct a = true ->
  NoDup (avals a v rows) /\ forall t, In t (avals a v rows) <-> In t (bound (ovals v rows)).
Proof.
  intros Hd. unfold avals. rewrite Hd. split.
  - apply (dedup_NoDup _ _ term_eqb_spec).
  - intros t. apply (dedup_In _ _ term_eqb_spec).
Qed.

Lemma avals_all a v rows : a_distinct a = false -> avals a v rows = bound (ovals v rows).
Proof. intros Hd. unfold avals. now rewrite Hd. Qed.

Lemma oterm_eqb_eq a b : oterm_eqb a b = true -> a = b.
Proof. destruct (oterm_eqb_spec a b); congruence. Qed.

Theorem count_reading a v rows r :
  a_arg a = Some v -> a_kind a = ACount -> agg_adm a rows r = true ->
  r = Some (TInt (Z.of_nat (length (avals a v rows)))).
Proof. unfold agg_adm, avals. intros -> ->. apply oterm_eqb_eq. Qed.

Theorem count_star_reading a rows r :
  a_arg a = None -> agg_adm a rows r = true ->
  r = Some (TInt (Z.of_nat (length (if a_distinct a then dedup sol_eqb rows else rows)))).
Proof. unfold agg_adm. intros ->. apply oterm_eqb_eq. Qed.

(* does the argument expression fail in some solution of the group?  (an unbound plain
   variable does not count: such solutions are left out) *)
Definition arg_error (v : texpr) (rows : list sol) : bool :=
  negb (is_var v) && has_unbound (ovals v rows).

(* SUM: over numeric values the sum (same datatype, same value); an error (unbound) as soon
   as one value is not numeric or the argument expression is an error in some solution *)
Theorem sum_reading a v rows r :
  a_arg a = Some v -> a_kind a = ASum -> agg_adm a rows r = true ->
  (arg_error v rows = false -> forallb is_numeric (avals a v rows) = true ->
     exists t, r = Some t /\ num_same t (lit_of_num (sum_nums (nums_of (avals a v rows)))) = true)
  /\ (arg_error v rows = true \/ forallb is_numeric (avals a v rows) = false -> r = None).
Proof.
  unfold agg_adm, avals, arg_error. intros -> ->.
  destruct (negb (is_var v) && has_unbound (ovals v rows)).
  - intros H. split; [discriminate|]. intros _. destruct r; [discriminate|reflexivity].
  - destruct (forallb is_numeric _); intros H; split.
    + intros _ _. destruct r as [t|]; [eauto|discriminate].
    + intros [E|E]; discriminate.
    + intros _ E; discriminate.
    + intros _. destruct r; [discriminate|reflexivity].
Qed.

Theorem avg_reading a v rows r :
  a_arg a = Some v -> a_kind a = AAvg -> agg_adm a rows r = true ->
  (arg_error v rows = false -> forallb is_numeric (avals a v rows) = true ->
     (avals a v rows = [] -> r = Some (TInt 0))
     /\ (avals a v rows <> [] -> exists t, r = Some t /\
           num_same t (avg_lit (sum_nums (nums_of (avals a v rows)))
                               (Z.of_nat (length (avals a v rows)))) = true))
  /\ (arg_error v rows = true \/ forallb is_numeric (avals a v rows) = false -> r = None).
Proof.
  unfold agg_adm, avals, arg_error. intros -> ->.
  destruct (negb (is_var v) && has_unbound (ovals v rows)).
  - intros H. split; [discriminate|]. intros _. destruct r; [discriminate|reflexivity].
  - destruct (forallb is_numeric _); intros H; split.
    + intros _ _. split; intros E2.
      * rewrite E2 in H. destruct r as [t|]; [|discriminate].
        destruct (term_eqb_spec t (TInt 0)); congruence.
      * destruct (if a_distinct a then _ else _) as [|x l]; [congruence|].
        destruct r as [t|]; [eauto|discriminate].
    + intros [E|E]; discriminate.
    + intros _ E; discriminate.
    + intros _. destruct r; [discriminate|reflexivity].
Qed.

Theorem min_reading a v rows r :
  a_arg a = Some v -> a_kind a = AMin -> agg_adm a rows r = true ->
  let vals := bound (ovals v rows) in
  match r with
  | None => vals = []
  | Some t => In t vals /\ forall x, In x vals -> kle (Some t) (Some x) = true
  end.
Proof.
  unfold agg_adm. intros -> ->. simpl.
  destruct (bound (ovals v rows)) as [|y l] eqn:E; destruct r as [t|]; try discriminate; auto.
  intros H. apply andb_true_iff in H. destruct H as [H1 H2].
  apply (memb_In _ term_eqb_spec) in H1. rewrite forallb_forall in H2. auto.
Qed.

Theorem max_reading a v rows r :
  a_arg a = Some v -> a_kind a = AMax -> agg_adm a rows r = true ->
  let vals := bound (ovals v rows) in
  match r with
  | None => vals = []
  | Some t => In t vals /\ forall x, In x vals -> kle (Some x) (Some t) = true
  end.
Proof.
  unfold agg_adm. intros -> ->. simpl.
  destruct (bound (ovals v rows)) as [|y l] eqn:E; destruct r as [t|]; try discriminate; auto.
  intros H. apply andb_true_iff in H. destruct H as [H1 H2].
  apply (memb_In _ term_eqb_spec) in H1. rewrite forallb_forall in H2. auto.
Qed.

Theorem sample_reading a v rows r :
  a_arg a = Some v -> a_kind a = ASample -> agg_adm a rows r = true ->
  match r with
  | None => bound (ovals v rows) = []
  | Some t => In t (bound (ovals v rows))
  end.
Proof.
  unfold agg_adm. intros -> ->.
  destruct (bound (ovals v rows)) as [|y l] eqn:E; destruct r as [t|]; try discriminate; auto.
  apply (memb_In _ term_eqb_spec).
Qed.

(* GROUP_CONCAT: the strings of the values in some order, separated by sep *)
Lemma strip_prefix_sound p s s' : strip_prefix p s = Some s' -> s = p ++ s'.
Proof.
  revert s. induction p as [|x p IH]; intros s; simpl.
  - intros E; inversion E; reflexivity.
  - destruct s as [|y s]; [discriminate|].
    destruct (N.eqb_spec x y) as [->|]; [|discriminate]. intros E. f_equal. auto.
Qed.

Lemma picks_perm {A} (l : list A) p : In p (picks l) -> Permutation (fst p :: snd p) l.
Proof.
  revert p. induction l as [|x r IH]; simpl; [tauto|].
  intros p [<-|Hin]; [apply Permutation_refl|].
  apply in_map_iff in Hin. destruct Hin as [q [<- Hq]]. simpl.
  eapply perm_trans; [apply perm_swap|]. apply perm_skip. auto.
Qed.

Lemma concat_match_sound f sep : forall l s,
  concat_match f sep l s = true -> exists l', Permutation l' l /\ s = join sep l'.
Proof.
  induction f as [|f IH]; intros l s; simpl; [discriminate|].
  destruct l as [|x0 l0].
  - destruct s; [|discriminate]. exists []. split; [constructor|reflexivity].
  - intros H. rewrite lexists_existsb in H. apply existsb_exists in H. destruct H as [p [Hp H]].
    apply first_occ_In in Hp. apply picks_perm in Hp.
    destruct (strip_prefix (fst p) s) as [s'|] eqn:E1; [|discriminate].
    apply strip_prefix_sound in E1.
    destruct (snd p) as [|y rest] eqn:Es.
    + destruct s'; [|discriminate]. exists [fst p]. split; [exact Hp|].
      simpl. now rewrite E1, app_nil_r.
    + destruct (strip_prefix sep s') as [s''|] eqn:E2; [|discriminate].
      apply strip_prefix_sound in E2. apply IH in H. destruct H as [l' [Hl' Hs]].
      exists (fst p :: l'). split.
      * eapply perm_trans; [apply perm_skip; exact Hl'|exact Hp].
      * destruct l' as [|z l'']; [apply Permutation_nil in Hl'; discriminate|].
        change (join sep (fst p :: z :: l'')) with (fst p ++ sep ++ join sep (z :: l'')).
        now rewrite <- Hs, <- E2.
Qed.

Theorem concat_reading a v rows r sep :
  a_arg a = Some v -> a_kind a = AConcat sep -> agg_adm a rows r = true ->
  exists l, Permutation l (map term_str (avals a v rows)) /\ r = Some (TStr (join sep l)).
Proof.
  unfold agg_adm, avals. intros -> ->.
  destruct r as [[| | | |s| |]|]; try discriminate.
  intros H. apply concat_match_sound in H. destruct H as [l [Hl ->]]. eauto.
Qed.

(* ------------------------------------------------------------------ *)
(* the rows of the aggregation stage *)
Theorem agg_ok_cases c gv a :
  c_group c = Some gv -> agg_ok c a = true ->
  (gv <> [] /\ c_input c = [] /\ (a = [] \/ a = [[]])) \/ agg_ok_groups c gv a = true.
Proof.
  intros Hg H. unfold agg_ok in H. rewrite Hg in H. destruct gv as [|g0 gv']; [auto|].
  destruct (c_input c) eqn:Ei; [|auto]. left. split; [discriminate|]. split; [reflexivity|].
  apply orb_true_iff in H. destruct H as [H|H]; [left|right];
    match goal with H : rows_eqb ?x ?y = true |- _ => destruct (rows_eqb_spec x y); congruence end.
Qed.

Theorem agg_ok_reading c gv a :
  agg_ok_groups c gv a = true ->
  let input := c_input c in
  NoDup (map (key_of gv) a)
  /\ (forall k, In k (map (key_of gv) a) <->
                (match gv with [] => k = [] | _ => exists r, In r input /\ key_of gv r = k end)
                /\ having_holds (c_having c) (members gv k input) = true)
  /\ (forall row, In row a ->
        (forall b, In b row -> In (fst b) (gv ++ map fst (c_aggs c)))
        /\ forall v s, In (v, s) (c_aggs c) ->
             agg_adm s (members gv (key_of gv row) input) (lookup v row) = true).
Proof.
  intros H. unfold agg_ok_groups in H.

  repeat (apply andb_true_iff in H; destruct H as [H ?]).
  rename H into Hnd, H2 into Hsub1, H1 into Hsub2, H0 into Hrows. simpl.
  apply (nodupb_spec _ gkey_eqb_spec) in Hnd. split; [exact Hnd|].
  unfold subsetb in *. rewrite forallb_forall in Hsub1, Hsub2, Hrows.
  assert (Hwant : forall k,
    In k (filter (fun k => having_holds (c_having c) (members gv k (c_input c)))
                 match gv with [] => [[]] | _ :: _ => map (key_of gv) (c_input c) end) <->
    (match gv with [] => k = [] | _ => exists r, In r (c_input c) /\ key_of gv r = k end)
    /\ having_holds (c_having c) (members gv k (c_input c)) = true).
  { intros k. rewrite filter_In. destruct gv as [|g0 gv'].
    - simpl. intuition.
    - rewrite in_map_iff. split; intros [[r Hr] Hh]; split; eauto; exists r; tauto. }
  split.
  - intros k. rewrite <- Hwant. split; intros Hk.
    + apply (memb_In _ gkey_eqb_spec). auto.
    + apply (memb_In _ gkey_eqb_spec). auto.
  - intros row Hrow. specialize (Hrows row Hrow). unfold row_ok in Hrows.
    apply andb_true_iff in Hrows. destruct Hrows as [Hd Ha]. rewrite forallb_forall in Hd, Ha. split.
    + intros b Hb. apply (memb_In _ N_eqb_spec). auto.
    + intros v s Hvs. apply (Ha (v, s) Hvs).
Qed.

(* HAVING keeps exactly the groups whose condition holds *)
Theorem having_reading c gv a k :
  agg_ok_groups c gv a = true ->
  In k (map (key_of gv) a) -> having_holds (c_having c) (members gv k (c_input c)) = true.
Proof.
  intros H Hk. destruct (agg_ok_reading c gv a H) as [_ [Hkeys _]]. now apply Hkeys.
Qed.

(* ------------------------------------------------------------------ *)
(* HAVING (agg op n): the checker [having_holds] evaluates the condition on the value the
   model's accumulator computes.  That is no dependency on the model: the verdict is the
   same for EVERY admissible value of COUNT / SUM / AVG (they differ at most in the lexical
   form of a decimal). *)
Lemma num_eqv_cmp p q n op : num_eqv p q = true -> cmp_num op p (n, 0%N) = cmp_num op q (n, 0%N).
Proof.
  destruct p as [a k], q as [b k']. unfold cmp_num, num_eqv, num_lt. simpl.
  assert (P : forall k, (0 < pow10 k)%Z) by (intros k0; unfold pow10; apply Z.pow_pos_nonneg; lia).
  pose proof (P k) as Pk. pose proof (P k') as Pk'. change (pow10 0) with 1%Z.
  set (x := pow10 k) in *. set (y := pow10 k') in *. rewrite Z.eqb_eq. intros E.
  assert (L1 : (a * 1 <? n * x)%Z = (b * 1 <? n * y)%Z).
  { apply eq_true_iff_eq. rewrite !Z.ltb_lt. split; intros H; nia. }
  assert (L2 : (n * x <? a * 1)%Z = (n * y <? b * 1)%Z).
  { apply eq_true_iff_eq. rewrite !Z.ltb_lt. split; intros H; nia. }
  assert (L3 : (a * 1 =? n * x)%Z = (b * 1 =? n * y)%Z).
  { apply eq_true_iff_eq. rewrite !Z.eqb_eq. split; intros H; nia. }
  destruct op; rewrite ?L1, ?L2, ?L3; reflexivity.
Qed.

Lemma num_same_cond t t' op n : num_same t t' = true -> cond_holds op n (Some t) = cond_holds op n (Some t').
Proof.
  unfold num_same, cond_holds. intros H. apply andb_true_iff in H. destruct H as [_ H].
  destruct (num_of t) as [p|], (num_of t') as [q|]; try discriminate. now apply num_eqv_cmp.
Qed.

Definition having_kind (a : aggspec) : bool :=
  match a_arg a, a_kind a with
  | None, _ | _, ACount | _, ASum | _, AAvg => true
  | _, _ => false
  end.

Theorem having_verdict_unique a rows o o' op n :
  having_kind a = true -> agg_adm a rows o = true -> agg_adm a rows o' = true ->
  cond_holds op n o = cond_holds op n o'.
Proof.
  unfold having_kind, agg_adm. destruct (a_arg a) as [v|].
  2:{ intros _ H1 H2. apply oterm_eqb_eq in H1. apply oterm_eqb_eq in H2. congruence. }
  destruct (a_kind a); try discriminate; intros _.
  - intros H1 H2. apply oterm_eqb_eq in H1. apply oterm_eqb_eq in H2. congruence.
  - destruct (negb (is_var v) && has_unbound (ovals v rows)).
    { destruct o, o'; try discriminate; reflexivity. }
    destruct (forallb is_numeric _).
    + destruct o as [t|], o' as [t'|]; try discriminate. intros H1 H2.
      rewrite (num_same_cond _ _ op n H1). symmetry. now apply num_same_cond.
    + destruct o, o'; try discriminate; reflexivity.
  - destruct (negb (is_var v) && has_unbound (ovals v rows)).
    { destruct o, o'; try discriminate; reflexivity. }
    destruct (forallb is_numeric _).
    + destruct (if a_distinct a then _ else _) as [|x l].
      * destruct o as [t|], o' as [t'|]; try discriminate. intros H1 H2.
        destruct (term_eqb_spec t (TInt 0)), (term_eqb_spec t' (TInt 0)); congruence.
      * destruct o as [t|], o' as [t'|]; try discriminate. intros H1 H2.
        rewrite (num_same_cond _ _ op n H1). symmetry. now apply num_same_cond.
    + destruct o, o'; try discriminate; reflexivity.
Qed.

(* so the checker's HAVING verdict is the verdict on any admissible value *)
Theorem having_holds_admissible a op n rows o :
  having_kind a = true -> agg_adm a rows o = true ->
  having_holds (Some (HAgg a op n)) rows = cond_holds op n o.
Proof.
  intros Hk Ho. unfold having_holds. apply having_verdict_unique with (a := a) (rows := rows); auto.
  apply agg_run_adm.
Qed.
