(* C08: laws of the REFLECTED promotion table (re-proved against the current source on every
   run: a mis-edited entry of _typePromotionMap / _sub_types breaks these proofs) and the
   datatype of SUM/AVG. *)
From RV Require Import Modifiers.PromoModel.

Lemma lt4_cases a : (a < 4)%N -> a = 0%N \/ a = 1%N \/ a = 2%N \/ a = 3%N.
Proof. lia. Qed.

(* promotion follows the XSD numeric lattice integer < decimal < float < double: the result is
   the larger of the two types, whatever the order *)
Lemma promo_lattice a b : (a < 4)%N -> (b < 4)%N -> type_promotion a b = Some (N.max a b).
Proof.
  intros Ha Hb.
  destruct (lt4_cases a Ha) as [->|[->|[->| ->]]], (lt4_cases b Hb) as [->|[->|[->| ->]]];
    vm_compute; reflexivity.
Qed.

Lemma promo_comm a b : (a < 4)%N -> (b < 4)%N -> type_promotion a b = type_promotion b a.
Proof. intros Ha Hb. rewrite !promo_lattice; auto. now rewrite N.max_comm. Qed.

Lemma promo_idem a : (a < 4)%N -> type_promotion a a = Some a.
Proof. intros Ha. rewrite promo_lattice; auto. now rewrite N.max_id. Qed.

(* the twelve derived integer types behave as xsd:integer on either side *)
Lemma promo_subtypes t : In t integer_subtypes ->
  forall b, type_promotion t b = type_promotion 0%N b /\ type_promotion b t = type_promotion b 0%N.
Proof.
  intros Ht b. assert (Hs : super t = 0%N).
  { simpl in Ht. repeat (destruct Ht as [<-|Ht]; [vm_compute; reflexivity|]). destruct Ht. }
  assert (H0 : super 0%N = 0%N) by (vm_compute; reflexivity).
  unfold type_promotion. now rewrite Hs, H0.
Qed.

Lemma max_lt4 a b : (a < 4)%N -> (b < 4)%N -> (N.max a b < 4)%N.
Proof. lia. Qed.

Lemma dt_fold_some l : forall d, (d < 4)%N -> forallb (fun t => N.ltb t 4) l = true ->
  fold_left dt_step l (Some (Some d)) = Some (Some (fold_left N.max l d)).
Proof.
  induction l as [|t r IH]; intros d Hd H; simpl; auto.
  apply andb_true_iff in H. destruct H as [Ht Hr]. apply N.ltb_lt in Ht.
  rewrite promo_lattice; auto. apply IH; auto. now apply max_lt4.
Qed.

(* the datatype Sum/Average arrive at is the lattice maximum of the members, in any order *)
Theorem dt_fold_lattice t r : forallb (fun t => N.ltb t 4) (t :: r) = true ->
  dt_fold (t :: r) = Some (Some (lattice_max (t :: r))).
Proof.
  intros H. unfold dt_fold, lattice_max. simpl in *.
  apply andb_true_iff in H. destruct H as [Ht Hr]. apply N.ltb_lt in Ht.
  rewrite dt_fold_some; auto. now rewrite N.max_0_l.
Qed.

Lemma close_refl a b : close a a b = true.
Proof.
  unfold close. replace (fst a * snd a - fst a * snd a)%Z with 0%Z by ring.
  simpl. apply Z.leb_le. apply Z.abs_nonneg.
Qed.

Lemma lattice_max_lt4 l : forall d, (d < 4)%N -> forallb (fun t => N.ltb t 4) l = true ->
  (fold_left N.max l d < 4)%N.
Proof.
  induction l as [|t r IH]; intros d Hd H; simpl; auto.
  apply andb_true_iff in H. destruct H as [Ht Hr]. apply N.ltb_lt in Ht. apply IH; auto. lia.
Qed.

Theorem pspec_model c : pwf c = true -> pspec c (pmodel c) = true.
Proof.
  unfold pwf, pspec, pmodel. destruct (p_vals c) as [|[t v] r] eqn:E; intros Hwf.
  - reflexivity.
  - assert (Hw : forallb (fun t => N.ltb t 4) (map fst ((t, v) :: r)) = true).
    { rewrite forallb_forall in *. intros x Hx. apply in_map_iff in Hx. destruct Hx as [p [<- Hp]]. auto. }
    change (map fst ((t, v) :: r)) with (t :: map fst r) in *.
    rewrite (dt_fold_lattice _ _ Hw).
    set (mx := lattice_max (t :: map fst r)) in *.
    assert (Hmx : (mx < 4)%N) by (apply lattice_max_lt4; [lia|exact Hw]).
    unfold pexact. rewrite E. destruct (p_avg c).
    + destruct (lt4_cases mx Hmx) as [H|[H|[H|H]]]; rewrite H in *; simpl in *;
        rewrite close_refl; reflexivity.
    + rewrite N.eqb_refl, close_refl. reflexivity.
Qed.

(* reading of the datatype part of the checker *)
Theorem pspec_reading c d v :
  pspec c (PVal d v) = true -> p_vals c <> [] ->
  d = (if p_avg c then N.max 1 (lattice_max (map fst (p_vals c))) else lattice_max (map fst (p_vals c))).
Proof.
  unfold pspec. destruct (p_vals c); [congruence|]. intros H _.
  apply andb_true_iff in H. destruct H as [H _]. now apply N.eqb_eq in H.
Qed.

(* remark: the answer of the code before commit bd5db65a (AVG over xsd:float typed xsd:double)
   is rejected by the checker *)
Lemma avg_float_double_rejected :
  pspec {| p_avg := true; p_vals := [(2%N, (3, 2)%Z)] |} (PVal 3 (3, 2)%Z) = false
  /\ pmodel {| p_avg := true; p_vals := [(2%N, (3, 2)%Z)] |} = PVal 2 (3, 2)%Z.
Proof. vm_compute. split; reflexivity. Qed.
