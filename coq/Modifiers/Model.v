(* C08 - solution modifiers and aggregates.
   Model of rdflib/plugins/sparql/evaluate.py (evalDistinct, evalOrderBy,
   evalSlice, evalProject, evalAggregateJoin), rdflib/plugins/sparql/
   aggregates.py (Aggregator, Counter, Sum, Average, Minimum, Maximum, Sample,
   GroupConcat), the ordering key of evalutils._val with the term comparison of
   rdflib/term.py restricted to blank nodes, IRIs, plain string literals,
   xsd:integer and xsd:decimal literals, and of the query-level pipeline that
   algebra.translate builds:
     Group/AggregateJoin -> Filter(HAVING) -> Extend(aliases) -> OrderBy
     -> Project -> Distinct -> Slice.
   The solution sequence that enters the pipeline is a parameter of the case.
   Definitions only; the lemmas are in Modifiers/Proofs.v. *)
From Coq Require Export List NArith ZArith Bool Lia.
From RV Require Export Base.ListSet.
Export ListNotations.

Definition var := N.
Definition str := list N.          (* code points *)

(* ------------------------------------------------------------------ *)
(* Terms.  TDec m k is the xsd:decimal literal whose Python value is
   Decimal with coefficient m and exponent -k (lexical form = str(Decimal)). *)
Inductive term :=
| TB (l : str)            (* blank node, label *)
| TI (s : str)            (* IRI *)
| TInt (z : Z)            (* xsd:integer *)
| TDec (m : Z) (k : N)    (* xsd:decimal *)
| TStr (s : str)          (* plain literal *)
| TLang (lang s : str)    (* language-tagged string (tag in lower case, not empty) *)
| TBool (b : bool).       (* xsd:boolean *)

Definition str_eqb : str -> str -> bool := list_eqb N.eqb.

Definition term_eqb (a b : term) : bool :=
  match a, b with
  | TB x, TB y | TI x, TI y | TStr x, TStr y => str_eqb x y
  | TInt x, TInt y => Z.eqb x y
  | TDec m k, TDec m' k' => Z.eqb m m' && N.eqb k k'
  | TLang l x, TLang l' y => str_eqb l l' && str_eqb x y
  | TBool x, TBool y => Bool.eqb x y
  | _, _ => false
  end.

Definition sol := list (var * term).   (* one solution: bound variables only *)
Definition sol_eqb : sol -> sol -> bool := list_eqb (pair_eqb N.eqb term_eqb).

Fixpoint lookup (v : var) (r : sol) : option term :=
  match r with
  | [] => None
  | (v', t) :: r' => if N.eqb v v' then Some t else lookup v r'
  end.

Definition oterm_eqb : option term -> option term -> bool := opt_eqb term_eqb.

(* ------------------------------------------------------------------ *)
(* Ordering: Python's  _val(a) < _val(b)  on tuples (rank, term).
   An unbound key is (0, Variable); numeric literals compare by value, a
   numeric literal is below a string literal (datatype IRIs compared as
   strings: ...#decimal < ...#integer < ...#string). *)

Fixpoint str_lt (a b : str) : bool :=
  match a, b with
  | _, [] => false
  | [], _ :: _ => true
  | x :: a', y :: b' => if N.ltb x y then true else if N.ltb y x then false else str_lt a' b'
  end.

Definition pow10 (k : N) : Z := 10 ^ Z.of_N k.

(* numeric value as (m, k) = m / 10^k *)
Definition num_of (t : term) : option (Z * N) :=
  match t with TInt z => Some (z, 0%N) | TDec m k => Some (m, k) | _ => None end.

Definition num_lt (p q : Z * N) : bool := (fst p * pow10 (snd q) <? fst q * pow10 (snd p))%Z.
Definition num_eqv (p q : Z * N) : bool := (fst p * pow10 (snd q) =? fst q * pow10 (snd p))%Z.

(* Literal.__gt__: numeric literals by value; otherwise by datatype IRI (plain and language-tagged
   strings count as xsd:string): ...#boolean < ...#decimal < ...#integer < ...#string; inside
   xsd:string first by language tag (none first), then by the string; booleans false < true *)
Definition rank (a : option term) : N :=
  match a with
  | None => 0
  | Some (TB _) => 1
  | Some (TI _) => 2
  | Some (TBool _) => 3
  | Some (TInt _) | Some (TDec _ _) => 4
  | Some (TStr _) | Some (TLang _ _) => 5
  end.

(* (language tag, string) of a string literal; no tag = the empty tag, which is the least *)
Definition skey5 (t : term) : str * str :=
  match t with TLang l s => (l, s) | TStr s => ([], s) | _ => ([], []) end.

Definition lex2 (p q : str * str) : bool :=
  if str_lt (fst p) (fst q) then true
  else if str_lt (fst q) (fst p) then false
  else str_lt (snd p) (snd q).

Definition same_rank_lt (x y : term) : bool :=
  match x, y with
  | TB s, TB s' | TI s, TI s' => str_lt s s'
  | TBool p, TBool q => negb p && q
  | (TInt _ | TDec _ _), (TInt _ | TDec _ _) =>
      match num_of x, num_of y with Some p, Some q => num_lt p q | _, _ => false end
  | (TStr _ | TLang _ _), (TStr _ | TLang _ _) => lex2 (skey5 x) (skey5 y)
  | _, _ => false
  end.

Definition klt (a b : option term) : bool :=
  if N.ltb (rank a) (rank b) then true
  else if N.ltb (rank b) (rank a) then false
  else match a, b with
       | Some x, Some y => same_rank_lt x y
       | _, _ => false
       end.

(* a <= b in the SPARQL order *)
Definition kle (a b : option term) : bool := negb (klt b a).

(* ------------------------------------------------------------------ *)
(* evalDistinct / Accumulator.use_row: keep a row iff it is not in the set of
   rows seen so far *)
Section Dedup.
  Variable A : Type.
  Variable eqb : A -> A -> bool.
  Fixpoint dedup_aux (seen : list A) (l : list A) : list A :=
    match l with
    | [] => []
    | x :: r => if memb eqb x seen then dedup_aux seen r else x :: dedup_aux (x :: seen) r
    end.
  Definition dedup (l : list A) : list A := dedup_aux [] l.
End Dedup.
Arguments dedup {A} eqb l.
Arguments dedup_aux {A} eqb seen l.

(* ------------------------------------------------------------------ *)
(* evalOrderBy: sorted() is stable and uses only "<"; reverse=True is
   reverse, stable sort, reverse.  One pass per key, last key first. *)
Section Sort.
  Variable A : Type.
  Variable lt : A -> A -> bool.
  Fixpoint insert (x : A) (l : list A) : list A :=
    match l with
    | [] => [x]
    | y :: r => if lt y x then y :: insert x r else x :: y :: r
    end.
  Fixpoint isort (l : list A) : list A :=
    match l with [] => [] | x :: r => insert x (isort r) end.
End Sort.
Arguments insert {A} lt x l.
Arguments isort {A} lt l.

Definition okey := (bool * var)%type.    (* (DESC?, variable) *)

Definition row_lt (v : var) (r1 r2 : sol) : bool := klt (lookup v r1) (lookup v r2).

Definition sort_by (k : okey) (l : list sol) : list sol :=
  if fst k then rev (isort (row_lt (snd k)) (rev l)) else isort (row_lt (snd k)) l.

Definition eval_orderby (keys : list okey) (l : list sol) : list sol :=
  fold_right sort_by l keys.

(* evalProject / FrozenBindings.project *)
Definition project_row (pv : list var) (r : sol) : sol :=
  filter (fun b => memb N.eqb (fst b) pv) r.

Definition eval_project (pv : option (list var)) (l : list sol) : list sol :=
  match pv with None => l | Some p => map (project_row p) l end.

Definition eval_distinct (d : bool) (l : list sol) : list sol :=
  if d then dedup sol_eqb l else l.

(* evalSlice: itertools.islice(res, start, start+length) *)
Definition eval_slice (s : option (nat * option nat)) (l : list sol) : list sol :=
  match s with
  | None => l
  | Some (off, None) => skipn off l
  | Some (off, Some n) => firstn n (skipn off l)
  end.

(* ------------------------------------------------------------------ *)
(* Numbers of the aggregates: Python int and decimal.Decimal (exact; the
   28-digit context only matters in division) *)
Inductive numv := NInt (z : Z) | NDec (m : Z) (k : N).

Definition numv_of (t : term) : option numv :=
  match t with TInt z => Some (NInt z) | TDec m k => Some (NDec m k) | _ => None end.

Definition is_numeric (t : term) : bool := match numv_of t with Some _ => true | None => false end.

(* int + int, int + Decimal, Decimal + Decimal (exponent = min of the exponents) *)
Definition num_add (a b : numv) : numv :=
  match a, b with
  | NInt x, NInt y => NInt (x + y)
  | NInt x, NDec m k => NDec (x * pow10 k + m) k
  | NDec m k, NInt y => NDec (m + y * pow10 k) k
  | NDec m k, NDec m' k' =>
      let K := N.max k k' in NDec (m * pow10 (K - k) + m' * pow10 (K - k')) K
  end.

Definition lit_of_num (a : numv) : term :=
  match a with NInt z => TInt z | NDec m k => TDec m k end.

(* number of decimal digits, len(str(a)) for a >= 0 *)
Fixpoint ndigits_fuel (f : nat) (a : Z) : Z :=
  match f with
  | O => 1
  | S f' => if (a <? 10)%Z then 1%Z else (1 + ndigits_fuel f' (a / 10))%Z
  end.
Definition ndigits (a : Z) : Z := ndigits_fuel (S (Z.to_nat (Z.log2 a))) a.

Definition prec : Z := 28.

Fixpoint strip_zeros (f : nat) (coeff exp ideal : Z) : Z * Z :=
  match f with
  | O => (coeff, exp)
  | S f' => if (exp <? ideal)%Z && (coeff mod 10 =? 0)%Z
            then strip_zeros f' (coeff / 10)%Z (exp + 1)%Z ideal else (coeff, exp)
  end.

(* Decimal._fix with ROUND_HALF_EVEN at 28 digits *)
Definition fix_round (coeff exp : Z) : Z * Z :=
  let d := ndigits coeff in
  if (d <=? prec)%Z then (coeff, exp)
  else
    let drop := (d - prec)%Z in
    let q := (coeff / 10 ^ drop)%Z in
    let r := (coeff mod 10 ^ drop)%Z in
    let half := (5 * 10 ^ (drop - 1))%Z in
    let up := (half <? r)%Z || ((r =? half)%Z && Z.odd q) in
    let q' := if up then (q + 1)%Z else q in
    if (prec <? ndigits q')%Z then ((q' / 10)%Z, (exp + drop + 1)%Z) else (q', (exp + drop)%Z).

(* Decimal(m * 10^-k) / Decimal(n), n > 0, default context (prec = 28):
   decimal.Decimal.__truediv__ *)
Definition dec_div (m : Z) (k : N) (n : Z) : Z * Z :=
  let e1 := (- Z.of_N k)%Z in
  if (m =? 0)%Z then (0%Z, e1)
  else
    let sg := if (m <? 0)%Z then (-1)%Z else 1%Z in
    let a := Z.abs m in
    let shift := (ndigits n - ndigits a + prec + 1)%Z in
    let exp0 := (e1 - shift)%Z in
    let qr := if (0 <=? shift)%Z then Z.div_eucl (a * 10 ^ shift) n
              else Z.div_eucl a (n * 10 ^ (- shift)) in
    let ce := if (snd qr =? 0)%Z then strip_zeros (Z.to_nat (Z.abs shift)) (fst qr) exp0 e1
              else ((if (fst qr mod 5 =? 0)%Z then fst qr + 1 else fst qr)%Z, exp0) in
    let ce' := fix_round (fst ce) (snd ce) in
    ((sg * fst ce')%Z, snd ce').

Definition dec_lit (ce : Z * Z) : term :=
  if (snd ce <=? 0)%Z then TDec (fst ce) (Z.to_N (- snd ce))
  else TDec (fst ce * 10 ^ snd ce) 0.

Definition avg_lit (sum : numv) (count : Z) : term :=
  match sum with
  | NInt z => dec_lit (dec_div z 0 count)
  | NDec m k => dec_lit (dec_div m k count)
  end.

(* str(int), str(Decimal) *)
Fixpoint digits_fuel (f : nat) (a : Z) (acc : str) : str :=
  match f with
  | O => acc
  | S f' => let acc' := (Z.to_N (48 + a mod 10)) :: acc in
            if (a <? 10)%Z then acc' else digits_fuel f' (a / 10) acc'
  end.
Definition nat_str (a : Z) : str := digits_fuel (S (Z.to_nat (Z.log2 a))) a [].
Definition z_str (z : Z) : str :=
  if (z <? 0)%Z then 45%N :: nat_str (Z.abs z) else nat_str z.

Fixpoint pad_left (n : nat) (s : str) : str :=
  match n with O => s | S n' => pad_left n' (48%N :: s) end.

Definition dec_str (m : Z) (k : N) : str :=
  let ds := nat_str (Z.abs m) in
  let kk := N.to_nat k in
  let ds' := pad_left (S kk - length ds) ds in
  let ip := firstn (length ds' - kk) ds' in
  let fp := skipn (length ds' - kk) ds' in
  (if (m <? 0)%Z then [45%N] else []) ++ ip ++ (match kk with O => [] | _ => 46%N :: fp end).

(* str(term) as used by GroupConcat *)
Definition term_str (t : term) : str :=
  match t with
  | TB l => l | TI s => s | TStr s => s
  | TInt z => z_str z
  | TDec m k => dec_str m k
  | TLang _ s => s
  | TBool true => [116; 114; 117; 101]%N
  | TBool false => [102; 97; 108; 115; 101]%N
  end.

Fixpoint join (sep : str) (l : list str) : str :=
  match l with
  | [] => []
  | [x] => x
  | x :: r => x ++ sep ++ join sep r
  end.

Inductive cmpop := OpEq | OpNe | OpLt | OpGt | OpLe | OpGe.

Definition cmp_num (op : cmpop) (p q : Z * N) : bool :=
  match op with
  | OpEq => num_eqv p q
  | OpNe => negb (num_eqv p q)
  | OpLt => num_lt p q
  | OpGt => num_lt q p
  | OpLe => negb (num_lt q p)
  | OpGe => negb (num_lt p q)
  end.

(* ------------------------------------------------------------------ *)
(* Expressions as aggregate arguments: rdflib/plugins/sparql/operators.py (UnaryMinus,
   UnaryPlus, AdditiveExpression, RelationalExpression, ConditionalAnd/OrExpression,
   UnaryNot, Builtin_IF, Builtin_COALESCE, Builtin_BOUND) on the term fragment.
   None = the expression is an error in that solution (parserutils.Expr.eval returns the
   SPARQLError; an unbound variable is an error too). *)
Inductive texpr :=
| EVar (v : var)
| EConst (t : term)
| ENeg (e : texpr)
| EPos (e : texpr)
| EAdd (a b : texpr)
| ESub (a b : texpr)
| EIf (c : bexpr) (a b : texpr)
| ECoalesce (a b : texpr)
with bexpr :=
| BBound (v : var)
| BCmp (op : cmpop) (a b : texpr)
| BNot (c : bexpr)
| BAnd (c d : bexpr)
| BOr (c d : bexpr).

Definition num_neg (a : numv) : numv :=
  match a with NInt z => NInt (- z) | NDec m k => NDec (- m) k end.

Definition is_lit (t : term) : bool := match t with TB _ | TI _ => false | _ => true end.

(* Literal.eq: numeric literals by value, everything else by term *)
Definition term_eqv (a b : term) : bool :=
  match num_of a, num_of b with
  | Some p, Some q => num_eqv p q
  | _, _ => term_eqb a b
  end.

(* RelationalExpression: = and != on any two terms; <, >, <=, >= only on literals, where
   Literal.__lt__/__gt__ is the total order also used by ORDER BY (a number is below a string) *)
Definition cmp_terms (op : cmpop) (a b : term) : option bool :=
  match op with
  | OpEq => Some (term_eqv a b)
  | OpNe => Some (negb (term_eqv a b))
  | _ =>
      if is_lit a && is_lit b then
        Some (match op with
              | OpLt => klt (Some a) (Some b)
              | OpGt => klt (Some b) (Some a)
              | OpLe => negb (klt (Some b) (Some a))
              | _ => negb (klt (Some a) (Some b))
              end)
      else None
  end.

Definition num_arg (o : option term) : option numv :=
  match o with Some t => numv_of t | None => None end.

Fixpoint eval_t (e : texpr) (r : sol) : option term :=
  match e with
  | EVar v => lookup v r
  | EConst t => Some t
  | ENeg a => option_map (fun n => lit_of_num (num_neg n)) (num_arg (eval_t a r))
  | EPos a => option_map lit_of_num (num_arg (eval_t a r))
  | EAdd a b =>
      match num_arg (eval_t a r), num_arg (eval_t b r) with
      | Some n, Some m => Some (lit_of_num (num_add n m))
      | _, _ => None
      end
  | ESub a b =>
      match num_arg (eval_t a r), num_arg (eval_t b r) with
      | Some n, Some m => Some (lit_of_num (num_add n (num_neg m)))
      | _, _ => None
      end
  | EIf c a b =>
      match eval_b c r with
      | Some true => eval_t a r
      | Some false => eval_t b r
      | None => None
      end
  | ECoalesce a b => match eval_t a r with Some t => Some t | None => eval_t b r end
  end
with eval_b (c : bexpr) (r : sol) : option bool :=
  match c with
  | BBound v => Some (match lookup v r with Some _ => true | None => false end)
  | BCmp op a b =>
      match eval_t a r, eval_t b r with
      | Some x, Some y => cmp_terms op x y
      | _, _ => None
      end
  | BNot d => option_map negb (eval_b d r)
  | BAnd d1 d2 =>
      (* an error operand: false if the other one is false, else an error *)
      match eval_b d1 r, eval_b d2 r with
      | Some false, _ | _, Some false => Some false
      | Some true, Some true => Some true
      | _, _ => None
      end
  | BOr d1 d2 =>
      match eval_b d1 r, eval_b d2 r with
      | Some true, _ | _, Some true => Some true
      | Some false, Some false => Some false
      | _, _ => None
      end
  end.

Definition is_var (e : texpr) : bool := match e with EVar _ => true | _ => false end.

(* ------------------------------------------------------------------ *)
(* Aggregates *)
Inductive aggkind := ACount | ASum | AAvg | AMin | AMax | ASample | AConcat (sep : str).

Record aggspec := { a_kind : aggkind; a_distinct : bool; a_arg : option texpr (* None = "*" *) }.

(* the values of the argument in the rows of a group, None = unbound / error *)
Definition ovals (e : texpr) (rows : list sol) : list (option term) := map (eval_t e) rows.

Fixpoint bound (l : list (option term)) : list term :=
  match l with [] => [] | Some t :: r => t :: bound r | None :: r => bound r end.

Definition has_unbound (l : list (option term)) : bool :=
  existsb (fun o => match o with None => true | Some _ => false end) l.

(* Accumulator.use_row with the set [seen] *)
Definition use_rows (d : bool) (vals : list term) : list term :=
  if d then dedup term_eqb vals else vals.

Fixpoint nums_of (l : list term) : list numv :=
  match l with
  | [] => []
  | t :: r => match numv_of t with Some n => n :: nums_of r | None => nums_of r end
  end.

Definition sum_nums (l : list numv) : numv := fold_left num_add l (NInt 0).

(* Extremum.compare: min(val1, val2, key=_val) / max(...) keep the first of two ties *)
Definition ext_step (ismax : bool) (acc : option term) (o : option term) : option term :=
  match o with
  | None => acc
  | Some t =>
      match acc with
      | None => Some t
      | Some cur =>
          if ismax then (if klt (Some cur) (Some t) then Some t else Some cur)
          else (if klt (Some t) (Some cur) then Some t else Some cur)
      end
  end.

Definition ext_raw (ismax : bool) (l : list (option term)) : option term :=
  fold_left (ext_step ismax) l None.

(* the code before commit cdcdb849 wrapped the extremum in Literal(...): an IRI or a blank node
   became a plain literal with the same string (kept for the remark in Props/C08.v) *)
Definition as_literal (t : term) : term :=
  match t with TB l => TStr l | TI s => TStr s | _ => t end.

(* result of one accumulator over the rows of one group; None = the variable is left unbound.
   As repaired by the "fix:" commits 0ada73ff (use_row skips unbound values also with DISTINCT),
   cdcdb849 (MIN/MAX bind the term itself), 127411f7 (a bound non-numeric value sets the
   [failed] flag of Sum/Average: unbound for that group) and the commit for F-C08h (Counter,
   Extremum, Sample, GroupConcat skip a solution in which the argument expression is an error). *)
Definition agg_run (a : aggspec) (rows : list sol) : option term :=
  match a_arg a with
  | None =>   (* COUNT( * ): the full row *)
      Some (TInt (Z.of_nat (length (if a_distinct a then dedup sol_eqb rows else rows))))
  | Some v =>
      let ov := ovals v rows in
      let vals := use_rows (a_distinct a) (bound ov) in
      match a_kind a with
      | ACount => Some (TInt (Z.of_nat (length vals)))
      | ASum =>
          (* an argument EXPRESSION that is an error in a solution reaches Sum/Average as an
             error value: AttributeError / SPARQLTypeError -> failed; an unbound plain
             variable raises NotBoundError and is skipped *)
          if negb (is_var v) && has_unbound ov then None
          else if forallb is_numeric vals then Some (lit_of_num (sum_nums (nums_of vals)))
          else None                                        (* failed *)
      | AAvg =>
          if negb (is_var v) && has_unbound ov then None
          else if forallb is_numeric vals then
            let nums := nums_of vals in
            match nums with
            | [] => Some (TInt 0)
            | _ => Some (avg_lit (sum_nums nums) (Z.of_nat (length nums)))
            end
          else None                                        (* failed *)
      | AMin => ext_raw false ov
      | AMax => ext_raw true ov
      | ASample => hd_error (bound ov)
      | AConcat sep => Some (TStr (join sep (map term_str vals)))
      end
  end.

(* ------------------------------------------------------------------ *)
(* evalAggregateJoin: groups in first-seen order *)
Definition gkey := list (option term).
Definition gkey_eqb : gkey -> gkey -> bool := list_eqb oterm_eqb.
Definition key_of (gv : list var) (r : sol) : gkey := map (fun v => lookup v r) gv.

Fixpoint group_add (k : gkey) (r : sol) (gs : list (gkey * list sol)) : list (gkey * list sol) :=
  match gs with
  | [] => [(k, [r])]
  | (k', m) :: rest => if gkey_eqb k k' then (k', m ++ [r]) :: rest else (k', m) :: group_add k r rest
  end.

Definition group_rows (gv : list var) (input : list sol) : list (gkey * list sol) :=
  fold_left (fun gs r => group_add (key_of gv r) r gs) input [].

(* no GROUP BY: one aggregator (res[True]) even for empty input *)
Definition groups_of (gv : list var) (input : list sol) : list (gkey * list sol) :=
  match gv with [] => [([], input)] | _ => group_rows gv input end.

(* HAVING (agg op n)  |  HAVING (?k = <iri>)  |  HAVING (?k != <iri>) with ?k a grouping key *)
Inductive having :=
| HAgg (a : aggspec) (op : cmpop) (n : Z)
| HKey (v : var) (ne : bool) (iri : str).

Definition cond_holds (op : cmpop) (n : Z) (o : option term) : bool :=
  match o with
  | Some t => match num_of t with Some p => cmp_num op p (n, 0%N) | None => false end
  | None => false
  end.

(* RDFterm-equal against an IRI constant; an unbound operand is an error, an
   error makes the filter false *)
Definition key_cond (ne : bool) (iri : str) (o : option term) : bool :=
  match o with
  | None => false
  | Some t => if ne then negb (term_eqb t (TI iri)) else term_eqb t (TI iri)
  end.

Fixpoint entries {A} (l : list (var * option A)) : list (var * A) :=
  match l with
  | [] => []
  | (v, Some t) :: r => (v, t) :: entries r
  | (_, None) :: r => entries r
  end.

(* the row of one group after Extend: projected group variables (implicit
   SAMPLE) in GROUP BY order, then the aliases in SELECT order *)
Definition group_row (gv : list var) (aggs : list (var * aggspec)) (rows : list sol) : sol :=
  entries (map (fun g => (g, hd_error (bound (ovals (EVar g) rows)))) gv
           ++ map (fun va => (fst va, agg_run (snd va) rows)) aggs).

(* Filter(HAVING) on the row of the group *)
Definition having_eval (h : option having) (rows : list sol) : bool :=
  match h with
  | None => true
  | Some (HAgg ha op n) => cond_holds op n (agg_run ha rows)
  | Some (HKey v ne iri) =>
      (* translateAggregates: the key variable inside HAVING becomes SAMPLE(?v) *)
      key_cond ne iri (hd_error (bound (ovals (EVar v) rows)))
  end.

Definition eval_aggjoin (gv : list var) (aggs : list (var * aggspec)) (h : option having)
                        (input : list sol) : list sol :=
  match groups_of gv input with
  | [] =>
      (* "there were no matches": one empty row, which a HAVING filter rejects
         because its aggregate variable is unbound *)
      match h with None => [[]] | Some _ => [] end
  | gs => map (fun g => group_row gv aggs (snd g)) (filter (fun g => having_eval h (snd g)) gs)
  end.

(* ------------------------------------------------------------------ *)
(* the case: input sequence + modifier stack *)
Record case := {
  c_input : list sol;
  c_group : option (list var);            (* None: no aggregation; Some []: aggregates without GROUP BY *)
  c_aggs : list (var * aggspec);          (* (alias, aggregate) in SELECT order *)
  c_having : option having;
  c_order : list okey;
  c_proj : option (list var);             (* None = SELECT * *)
  c_distinct : bool;
  c_slice : option (nat * option nat)     (* OFFSET, LIMIT *)
}.

(* observation: the query raised, or the rows of
   (1) the aggregation stage alone (all group variables and aliases projected;
       for a query without aggregation: the input sequence),
   (2) the query without LIMIT/OFFSET, (3) the query *)
Inductive obs := OErr | ORows (agg full sliced : list sol).

Definition rows_eqb : list sol -> list sol -> bool := list_eqb sol_eqb.

Definition obs_eqb (a b : obs) : bool :=
  match a, b with
  | OErr, OErr => true
  | ORows a1 a2 a3, ORows b1 b2 b3 => rows_eqb a1 b1 && rows_eqb a2 b2 && rows_eqb a3 b3
  | _, _ => false
  end.

Definition agg_stage (c : case) : list sol :=
  match c_group c with
  | None => c_input c
  | Some gv => eval_aggjoin gv (c_aggs c) (c_having c) (c_input c)
  end.

Definition post_stage (c : case) (a : list sol) : list sol :=
  eval_distinct (c_distinct c) (eval_project (c_proj c) (eval_orderby (c_order c) a)).

(* no query of the fragment raises *)
Definition model_obs (c : case) : obs :=
  let a := agg_stage c in
  let f := post_stage c a in ORows a f (eval_slice (c_slice c) f).

(* ------------------------------------------------------------------ *)
(* Specification, as a checker of observed rows against the input sequence. *)

(* --- aggregates, SPARQL 1.1 section 18.5.1 ------------------------- *)

Section Picks.
  Variable A : Type.
  (* every way of taking one element out of a list *)
  Fixpoint picks (l : list A) : list (A * list A) :=
    match l with
    | [] => []
    | x :: r => (x, r) :: map (fun p => (fst p, x :: snd p)) (picks r)
    end.
End Picks.
Arguments picks {A} l.

Fixpoint strip_prefix (p s : str) : option str :=
  match p, s with
  | [], _ => Some s
  | x :: p', y :: s' => if N.eqb x y then strip_prefix p' s' else None
  | _ :: _, [] => None
  end.

(* existsb whose evaluation stops at the first hit (vm_compute is call-by-value: the "||" of
   List.existsb would explore every branch of the search below) *)
Fixpoint lexists {A} (f : A -> bool) (l : list A) : bool :=
  match l with [] => false | x :: r => if f x then true else lexists f r end.

(* only the first of several picks with the same string is worth trying *)
Fixpoint first_occ (seen : list str) (ps : list (str * list str)) : list (str * list str) :=
  match ps with
  | [] => []
  | p :: r => if memb str_eqb (fst p) seen then first_occ seen r else p :: first_occ (fst p :: seen) r
  end.

(* is s the concatenation of the strings l, in SOME order, separated by sep?
   (the order of GROUP_CONCAT is not specified) *)
Fixpoint concat_match (f : nat) (sep : str) (l : list str) (s : str) : bool :=
  match f with
  | O => false
  | S f' =>
      match l with
      | [] => match s with [] => true | _ => false end
      | _ =>
          lexists (fun p =>
            match strip_prefix (fst p) s with
            | None => false
            | Some s' =>
                match snd p with
                | [] => match s' with [] => true | _ => false end
                | rest => match strip_prefix sep s' with
                          | None => false
                          | Some s'' => concat_match f' sep rest s''
                          end
                end
            end) (first_occ [] (picks l))
      end
  end.

Definition dt_same (a b : term) : bool :=
  match a, b with TInt _, TInt _ => true | TDec _ _, TDec _ _ => true | _, _ => false end.

(* same datatype and same numeric value (the lexical form of a computed
   decimal is not prescribed) *)
Definition num_same (a b : term) : bool :=
  dt_same a b && match num_of a, num_of b with Some p, Some q => num_eqv p q | _, _ => false end.

(* is [r] an admissible value of aggregate [a] over the solutions [rows]? *)
Definition agg_adm (a : aggspec) (rows : list sol) (r : option term) : bool :=
  match a_arg a with
  | None =>
      oterm_eqb r (Some (TInt (Z.of_nat (length (if a_distinct a then dedup sol_eqb rows else rows)))))
  | Some v =>
      let vals := bound (ovals v rows) in
      let dv := if a_distinct a then dedup term_eqb vals else vals in
      match a_kind a with
      | ACount => oterm_eqb r (Some (TInt (Z.of_nat (length dv))))
      | ASum =>
          (* 18.5.1.3: an error element makes the sum an error (unbound); by convention a
             solution in which a plain VARIABLE argument is unbound is left out *)
          if negb (is_var v) && has_unbound (ovals v rows)
          then match r with None => true | Some _ => false end
          else if forallb is_numeric dv
          then match r with Some t => num_same t (lit_of_num (sum_nums (nums_of dv))) | None => false end
          else match r with None => true | Some _ => false end      (* error: unbound *)
      | AAvg =>
          if negb (is_var v) && has_unbound (ovals v rows)
          then match r with None => true | Some _ => false end
          else if forallb is_numeric dv
          then match dv, r with
               | [], Some t => term_eqb t (TInt 0)
               | _ :: _, Some t => num_same t (avg_lit (sum_nums (nums_of dv)) (Z.of_nat (length dv)))
               | _, None => false
               end
          else match r with None => true | Some _ => false end
      | AMin =>
          match vals, r with
          | [], None => true
          | _ :: _, Some t => memb term_eqb t vals && forallb (fun x => kle (Some t) (Some x)) vals
          | _, _ => false
          end
      | AMax =>
          match vals, r with
          | [], None => true
          | _ :: _, Some t => memb term_eqb t vals && forallb (fun x => kle (Some x) (Some t)) vals
          | _, _ => false
          end
      | ASample =>
          match vals, r with
          | [], None => true
          | _ :: _, Some t => memb term_eqb t vals
          | _, _ => false
          end
      | AConcat sep =>
          match r with
          | Some (TStr s) => concat_match (S (length dv)) sep (map term_str dv) s
          | _ => false
          end
      end
  end.

(* HAVING on a group: a comparison of an aggregate (COUNT, SUM, AVG: functional)
   with a constant, or a condition on a grouping key - the value the key has in
   the solutions of the group (SPARQL 18.2.4.2: the filter sees the key) *)
Definition having_holds (h : option having) (rows : list sol) : bool :=
  match h with
  | None => true
  | Some (HAgg ha op n) => cond_holds op n (agg_run ha rows)
  | Some (HKey v ne iri) =>
      match rows with
      | [] => false
      | r :: _ => key_cond ne iri (lookup v r)
      end
  end.

Definition members (gv : list var) (k : gkey) (input : list sol) : list sol :=
  filter (fun r => gkey_eqb (key_of gv r) k) input.

Definition subsetb {A} (eqb : A -> A -> bool) (l1 l2 : list A) : bool :=
  forallb (fun x => memb eqb x l2) l1.

Definition row_ok (gv : list var) (aggs : list (var * aggspec)) (input : list sol) (row : sol) : bool :=
  let ms := members gv (key_of gv row) input in
  forallb (fun b => memb N.eqb (fst b) (gv ++ map fst aggs)) row
  && forallb (fun va => agg_adm (snd va) ms (lookup (fst va) row)) aggs.

(* the rows of the aggregation stage: exactly one row per group that passes
   HAVING (groups = the classes of the input under "same key"; without GROUP
   BY the single group of all solutions, also when there are none), carrying
   the key and an admissible value of every aggregate *)
Definition agg_ok_groups (c : case) (gv : list var) (a : list sol) : bool :=
  let allkeys := match gv with [] => [[]] | _ => map (key_of gv) (c_input c) end in
  let want := filter (fun k => having_holds (c_having c) (members gv k (c_input c))) allkeys in
  let got := map (key_of gv) a in
  nodupb gkey_eqb got && subsetb gkey_eqb got want && subsetb gkey_eqb want got
  && forallb (row_ok gv (c_aggs c) (c_input c)) a.

Definition agg_ok (c : case) (a : list sol) : bool :=
  match c_group c with
  | None => rows_eqb a (c_input c)
  | Some ((_ :: _) as gv) =>
      match c_input c with
      | [] =>
          (* GROUP BY over no solutions: the algebra (18.5: Group of an empty multiset has no
             key) gives no row, the W3C test aggregates/agg-empty-group expects one row with
             nothing bound - both are accepted *)
          rows_eqb a [] || rows_eqb a [[]]
      | _ :: _ => agg_ok_groups c gv a
      end
  | Some [] => agg_ok_groups c [] a
  end.

(* --- ORDER BY / projection / DISTINCT ------------------------------- *)

Fixpoint remove_one {A} (eqb : A -> A -> bool) (x : A) (l : list A) : option (list A) :=
  match l with
  | [] => None
  | y :: r => if eqb x y then Some r
              else match remove_one eqb x r with Some r' => Some (y :: r') | None => None end
  end.

(* same multiset *)
Fixpoint permb {A} (eqb : A -> A -> bool) (l1 l2 : list A) : bool :=
  match l1 with
  | [] => match l2 with [] => true | _ => false end
  | x :: r => match remove_one eqb x l2 with Some l2' => permb eqb r l2' | None => false end
  end.

(* r1 may precede r2: lexicographic in the keys, ASC/DESC per key *)
Fixpoint lex_le (keys : list okey) (r1 r2 : sol) : bool :=
  match keys with
  | [] => true
  | (desc, v) :: ks =>
      let a := lookup v r1 in
      let b := lookup v r2 in
      let lt12 := if desc then klt b a else klt a b in
      let lt21 := if desc then klt a b else klt b a in
      if lt12 then true else if lt21 then false else lex_le ks r1 r2
  end.

Fixpoint sortedb {A} (le : A -> A -> bool) (l : list A) : bool :=
  match l with
  | [] => true
  | x :: r => match r with [] => true | y :: _ => le x y && sortedb le r end
  end.

Definition keys_visible (c : case) : bool :=
  match c_proj c with
  | None => true
  | Some pv => forallb (fun k => memb N.eqb (snd k) pv) (c_order c)
  end.

(* [f] against the rows [a] that entered ORDER BY: the same multiset of
   projected rows (each once under DISTINCT), and no row followed by one that
   must precede it (judged on the rows themselves when the sort keys are
   projected) *)
Definition post_ok (c : case) (a f : list sol) : bool :=
  let p := eval_project (c_proj c) a in
  let d := if c_distinct c then dedup sol_eqb p else p in
  permb sol_eqb f d
  && (if keys_visible c then sortedb (lex_le (c_order c)) f else true).

Definition spec_ok (c : case) (o : obs) : bool :=
  match o with
  | OErr => false
  | ORows a f s => agg_ok c a && post_ok c a f && rows_eqb s (eval_slice (c_slice c) f)
  end.

(* ------------------------------------------------------------------ *)
(* well-formed cases and the regions of the known findings *)

Definition wf (c : case) : bool :=
  match c_group c with
  | None => match c_aggs c, c_having c with [], None => true | _, _ => false end
  | Some gv => nodupb N.eqb (gv ++ map fst (c_aggs c))
               && match c_having c with Some (HKey v _ _) => memb N.eqb v gv | _ => true end
  end.
