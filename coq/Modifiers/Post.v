(* C08: ORDER BY -> projection -> DISTINCT -> slice.  The model satisfies the
   checker [post_ok]; what the checker means. *)
From Coq Require Import Permutation Sorting.Sorted.
From RV Require Import Modifiers.Model Modifiers.Order.

Lemma lookup_project pv v r :
  lookup v (project_row pv r) = if memb N.eqb v pv then lookup v r else None.
Proof.
  induction r as [|[v' t] r IH]; simpl; [destruct (memb N.eqb v pv); reflexivity|].
  destruct (memb N.eqb v' pv) eqn:E; simpl.
  - destruct (N.eqb_spec v v') as [->|Hne]; [now rewrite E|exact IH].
  - destruct (N.eqb_spec v v') as [->|Hne]; [rewrite E in *; exact IH|exact IH].
Qed.

Lemma project_dom pv r b : In b (project_row pv r) <-> In b r /\ memb N.eqb (fst b) pv = true.
Proof. unfold project_row. apply filter_In. Qed.

Lemma lexP_project pv keys r1 r2 :
  forallb (fun k => memb N.eqb (snd k) pv) keys = true ->
  (lexP keys (project_row pv r1) (project_row pv r2) <-> lexP keys r1 r2).
Proof.
  induction keys as [|[desc v] ks IH]; simpl; [tauto|].
  intros H. apply andb_true_iff in H. destruct H as [Hv Hk].
  rewrite !lookup_project, Hv. rewrite (IH Hk). tauto.
Qed.

Lemma project_perm pv l l' : Permutation l l' -> Permutation (eval_project pv l) (eval_project pv l').
Proof. destruct pv; simpl; auto. apply Permutation_map. Qed.

Lemma dedup_perm l l' : Permutation l l' -> Permutation (dedup sol_eqb l) (dedup sol_eqb l').
Proof.
  intros H. apply NoDup_Permutation; try apply (dedup_NoDup _ _ sol_eqb_spec).
  intros x. rewrite !(dedup_In _ _ sol_eqb_spec). split; apply Permutation_in; auto.
  now apply Permutation_sym.
Qed.

Lemma project_sorted c l :
  keys_visible c = true ->
  StronglySorted (lexP (c_order c)) l ->
  StronglySorted (lexP (c_order c)) (eval_project (c_proj c) l).
Proof.
  unfold keys_visible, eval_project. destruct (c_proj c) as [pv|]; auto.
  intros Hv Hs. apply SS_map. eapply SS_impl; [|exact Hs].
  intros x y Hxy. now apply lexP_project.
Qed.

Theorem post_ok_model c a : post_ok c a (post_stage c a) = true.
Proof.
  unfold post_ok, post_stage. apply andb_true_iff. split.
  - apply (permb_complete _ _ sol_eqb_spec).
    assert (Hp : Permutation (eval_project (c_proj c) (eval_orderby (c_order c) a))
                             (eval_project (c_proj c) a)).
    { apply project_perm, eval_orderby_perm. }
    unfold eval_distinct. destruct (c_distinct c); auto. now apply dedup_perm.
  - destruct (keys_visible c) eqn:Hv; auto.
    apply SS_sortedb.
    apply SS_impl with (P := lexP (c_order c)); [intros x y Hxy; apply lex_le_iff; exact Hxy|].
    assert (Hs : StronglySorted (lexP (c_order c))
                   (eval_project (c_proj c) (eval_orderby (c_order c) a))).
    { apply project_sorted; auto. apply eval_orderby_sorted. }
    unfold eval_distinct. destruct (c_distinct c); auto.
    unfold dedup. apply (dedup_aux_SS _ _ sol_eqb_spec). exact Hs.
Qed.

(* what [post_ok] says about ANY observed sequence f *)
Theorem post_ok_reading c a f :
  post_ok c a f = true ->
  let p := eval_project (c_proj c) a in
  Permutation f (if c_distinct c then dedup sol_eqb p else p)
  /\ (c_distinct c = true -> NoDup f /\ forall r, In r f <-> In r p)
  /\ (keys_visible c = true -> StronglySorted (lexP (c_order c)) f).
Proof.
  unfold post_ok. intros H. apply andb_true_iff in H. destruct H as [H1 H2].
  apply (permb_sound _ _ sol_eqb_spec) in H1. simpl. split; [exact H1|]. split.
  - intros Hd. rewrite Hd in H1. split.
    + eapply Permutation_NoDup; [apply Permutation_sym; exact H1|]. apply (dedup_NoDup _ _ sol_eqb_spec).
    + intros r. rewrite <- (dedup_In _ _ sol_eqb_spec (eval_project (c_proj c) a) r).
      split; apply Permutation_in; auto. now apply Permutation_sym.
  - intros Hv. rewrite Hv in H2. apply sortedb_Sorted in H2.
    clear H1. apply Sorted_SS_lexP. induction H2 as [|x r Hs IH Hh]; constructor; auto.
    destruct Hh; constructor. now apply lex_le_iff.
Qed.

(* ORDER BY alone *)
Theorem orderby_spec keys l :
  Permutation (eval_orderby keys l) l /\ StronglySorted (lexP keys) (eval_orderby keys l).
Proof. split; [apply eval_orderby_perm|apply eval_orderby_sorted]. Qed.

(* the same for any key comparison that is the strict part of a total preorder *)
Theorem orderby_generic (A : Type) (lt : A -> A -> bool) :
  (forall a b, lt a b = true -> lt b a = false) ->
  (forall a b c, lt a c = true -> lt a b = true \/ lt b c = true) ->
  forall (R : A -> A -> Prop) l, StronglySorted R l ->
    Permutation (isort lt l) l /\ StronglySorted (lexR A lt R) (isort lt l).
Proof.
  intros Ha Hn R l Hs. split; [apply isort_perm|apply isort_lex; auto].
Qed.

Theorem distinct_spec (l : list sol) :
  NoDup (dedup sol_eqb l) /\ (forall r, In r (dedup sol_eqb l) <-> In r l)
  /\ (forall l' r, dedup sol_eqb (l' ++ [r]) =
                   if memb sol_eqb r l' then dedup sol_eqb l' else dedup sol_eqb l' ++ [r]).
Proof.
  split; [apply (dedup_NoDup _ _ sol_eqb_spec)|]. split.
  - intros r. apply (dedup_In _ _ sol_eqb_spec).
  - intros l' r. apply (dedup_snoc _ _ sol_eqb_spec).
Qed.

Theorem slice_spec off n (l : list sol) :
  eval_slice (Some (off, Some n)) l = firstn n (skipn off l)
  /\ eval_slice (Some (off, None)) l = skipn off l
  /\ eval_slice None l = l.
Proof. repeat split. Qed.

Theorem project_spec pv r :
  (forall v, lookup v (project_row pv r) = if memb N.eqb v pv then lookup v r else None)
  /\ (forall b, In b (project_row pv r) <-> In b r /\ In (fst b) pv).
Proof.
  split; [intros v; apply lookup_project|].
  intros b. rewrite project_dom, (memb_In _ N_eqb_spec). tauto.
Qed.
