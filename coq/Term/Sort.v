(* A comparison sort that uses only < (list.sort / sorted() use only __lt__), its correctness on a strict weak
   order, and the uniqueness of the result of ANY correct stable sort: what CPython's sort is assumed to be. *)
From Coq Require Import Arith Lia Permutation Sorting.Sorted.
From RV Require Import Term.Model.

Section Sort.
  Variable A : Type.
  Variable lt : A -> A -> bool.

  (* the sort itself (ins, isort) is defined in Term/Model.v *)
  Definition tie (a b : A) : bool := negb (lt a b) && negb (lt b a).
  (* no inversion: nothing later is less than something earlier *)
  Definition noinv (a b : A) : Prop := lt b a = false.
  Definition sorted (l : list A) : Prop := StronglySorted noinv l.
  (* ties keep their input order *)
  Definition stable (l l' : list A) : Prop := forall x, filter (tie x) l' = filter (tie x) l.

  Lemma ins_perm : forall x l, Permutation (ins lt x l) (x :: l).
  Proof.
    induction l as [|y r IH]; simpl; auto. destruct (lt y x); auto.
    rewrite IH. apply perm_swap.
  Qed.

  Theorem isort_perm : forall l, Permutation (isort lt l) l.
  Proof. induction l as [|x r IH]; simpl; auto. rewrite ins_perm. auto. Qed.

  (* --- uniqueness needs only irreflexivity --- *)
  Hypothesis lt_irrefl : forall a, lt a a = false.

  Lemma tie_refl : forall a, tie a a = true.
  Proof. intro a. unfold tie. rewrite lt_irrefl. reflexivity. Qed.

  Theorem stable_sort_unique : forall l1 l2,
    sorted l1 -> sorted l2 -> (forall x, filter (tie x) l1 = filter (tie x) l2) -> l1 = l2.
  Proof.
    induction l1 as [|h1 t1 IH]; intros l2 S1 S2 F.
    - destruct l2 as [|y r]; auto. specialize (F y). simpl in F. rewrite tie_refl in F. discriminate.
    - inversion S1 as [|? ? S1' H1]; subst.
      (* h1 is the first element of l2 *)
      assert (forall y, In y l2 -> lt y h1 = false) as MIN.
      { intros y Hy. assert (In y (filter (tie y) l2)) as I by (apply filter_In; split; auto using tie_refl).
        rewrite <- F in I. apply filter_In in I as [I _]. destruct I as [I|I]; [subst; apply lt_irrefl|].
        rewrite Forall_forall in H1. apply H1. exact I. }
      destruct l2 as [|h2 t2].
      + specialize (F h1). simpl in F. rewrite tie_refl in F. discriminate.
      + inversion S2 as [|? ? S2' H2]; subst.
        assert (tie h1 h2 = true) as T.
        { unfold tie. rewrite (MIN h2) by (simpl; auto).
          assert (In h1 (h2 :: t2)) as I.
          { assert (In h1 (filter (tie h1) (h1 :: t1))) as I by (apply filter_In; split; simpl; auto using tie_refl).
            rewrite F in I. apply filter_In in I as [I _]. exact I. }
          destruct I as [I|I]; [subst; rewrite lt_irrefl; reflexivity|].
          rewrite Forall_forall in H2. rewrite (H2 h1 I). reflexivity. }
        pose proof (F h1) as F1. simpl in F1. rewrite tie_refl, T in F1. inversion F1 as [[E F1']]. subst h2.
        f_equal. apply IH; auto. intro x. specialize (F x). simpl in F.
        destruct (tie x h1); [inversion F; auto|exact F].
  Qed.

  (* --- existence needs a strict weak order --- *)
  Hypothesis lt_trans : forall a b c, lt a b = true -> lt b c = true -> lt a c = true.
  (* negative transitivity = transitivity of "not less", i.e. ties are transitive *)
  Hypothesis lt_negtrans : forall a b c, lt a b = false -> lt b c = false -> lt a c = false.

  Lemma ins_sorted : forall x l, sorted l -> sorted (ins lt x l).
  Proof.
    intros x l S. induction S as [|y r S IH H]; simpl.
    - constructor; constructor.
    - destruct (lt y x) eqn:E.
      + constructor; auto. apply Forall_forall. intros z Hz.
        apply (Permutation_in _ (ins_perm x r)) in Hz. destruct Hz as [Hz|Hz].
        * subst. unfold noinv. destruct (lt z y) eqn:E2; auto.
          pose proof (lt_trans _ _ _ E2 E) as X. rewrite lt_irrefl in X. discriminate.
        * rewrite Forall_forall in H. apply H. exact Hz.
      + constructor; [constructor; auto|]. constructor; [exact E|].
        apply Forall_forall. intros z Hz. rewrite Forall_forall in H. unfold noinv in *.
        apply (lt_negtrans z y x); auto.
  Qed.

  Theorem isort_sorted : forall l, sorted (isort lt l).
  Proof. induction l as [|x r IH]; simpl; [constructor|]. apply ins_sorted. exact IH. Qed.

  Lemma tie_sym : forall a b, tie a b = tie b a.
  Proof. intros. unfold tie. apply andb_comm. Qed.

  Lemma ins_filter : forall k x l, sorted l ->
    filter (tie k) (ins lt x l) = filter (tie k) (x :: l).
  Proof.
    intros k x l S. induction S as [|y r S IH H]; auto.
    cbn [ins]. destruct (lt y x) eqn:E; auto.
    cbn [filter]. rewrite IH. cbn [filter].
    destruct (tie k y) eqn:Ty; destruct (tie k x) eqn:Tx; auto.
    (* k ties with both y and x, yet y < x: impossible *)
    exfalso. unfold tie in *. apply andb_true_iff in Ty as [A1 A2]. apply andb_true_iff in Tx as [B1 B2].
    apply negb_true_iff in A1, A2, B1, B2.
    pose proof (lt_negtrans _ _ _ A2 B1) as X. congruence.
  Qed.

  Theorem isort_stable : forall l, stable l (isort lt l).
  Proof.
    intros l k. induction l as [|x r IH]; auto.
    cbn [isort]. rewrite ins_filter by apply isort_sorted. cbn [filter]. rewrite IH. reflexivity.
  Qed.

  (* whatever a correct stable comparison sort returns is what the insertion sort returns *)
  Corollary stable_sort_is_isort : forall l l',
    sorted l' -> stable l l' -> l' = isort lt l.
  Proof.
    intros l l' S St. apply stable_sort_unique; auto using isort_sorted.
    intro x. rewrite St. symmetry. apply isort_stable.
  Qed.

End Sort.

(* sorting with two comparisons that agree on the elements of the list *)
Lemma isort_ext : forall {A} (f g : A -> A -> bool) l,
  (forall a b, In a l -> In b l -> f a b = g a b) -> isort f l = isort g l.
Proof.
  intros A f g l. induction l as [|x r IH]; intro H; auto.
  cbn [isort]. rewrite IH by (intros; apply H; simpl; auto).
  assert (forall m, (forall y, In y m -> In y r) -> ins f x m = ins g x m) as X.
  { induction m as [|y m IHm]; intro Hm; auto. cbn [ins]. rewrite (H y x); [|right; apply Hm; simpl; auto|simpl; auto].
    destruct (g y x); auto. f_equal. apply IHm. intros; apply Hm; simpl; auto. }
  apply X. intros y Hy. apply (Permutation_in _ (isort_perm _ g r)). exact Hy.
Qed.
