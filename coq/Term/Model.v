(* Model of the term layer of rdflib (rdflib/term.py, rdflib/util.py:from_n3) as repaired by the "fix:" commits
   for findings F7a-F7e:
   Identifier.__eq__/__hash__/__lt__, Literal.__eq__/__hash__/__gt__/__lt__/eq
   (ordering of literals only for string and integer literals), __reduce__ +
   constructors (pickle, copy, deepcopy), URIRef.n3/BNode.n3/Variable.n3/
   Literal.n3 (_literal_n3, _quote_encode) without a namespace manager, and
   util.from_n3 with the fragment of the raw-unicode-escape / unicode-escape
   codecs it uses.  Strings are lists of code points.  Definitions only. *)
From Coq Require Export List NArith ZArith Bool.
Export ListNotations.
From RV Require Export Gen.Tables_term.
Local Open Scope N_scope.

Definition str := list N.

(* ------------------------------------------------------------------ *)
(* Python str: ==, <, lower (ASCII), in, startswith, replace, rsplit   *)

Fixpoint str_eqb (a b : str) : bool :=
  match a, b with
  | [], [] => true
  | x :: a', y :: b' => N.eqb x y && str_eqb a' b'
  | _, _ => false
  end.

(* lexicographic on code points: Python's str.__lt__ *)
Fixpoint str_ltb (a b : str) : bool :=
  match a, b with
  | _, [] => false
  | [], _ :: _ => true
  | x :: a', y :: b' => if N.ltb x y then true else if N.eqb x y then str_ltb a' b' else false
  end.

Definition ostr_eqb (a b : option str) : bool :=
  match a, b with
  | None, None => true
  | Some x, Some y => str_eqb x y
  | _, _ => false
  end.

Definition lower_char (c : N) : N := if (65 <=? c) && (c <=? 90) then c + 32 else c.
Definition lower (s : str) : str := map lower_char s.

Definition mem (c : N) (s : str) : bool := existsb (N.eqb c) s.
Definition smem (x : str) (l : list str) : bool := existsb (str_eqb x) l.

Fixpoint prefixb (p s : str) : bool :=
  match p, s with
  | [], _ => true
  | x :: p', y :: s' => N.eqb x y && prefixb p' s'
  | _ :: _, [] => false
  end.

Fixpoint containsb (p s : str) : bool :=
  prefixb p s || match s with [] => false | _ :: r => containsb p r end.

(* str.replace(pat, rep) for a non-empty pat: leftmost, non-overlapping;
   [skip] counts the characters of a match still to be dropped *)
Fixpoint repl_aux (pat rep : str) (skip : nat) (s : str) : str :=
  match s with
  | [] => []
  | c :: r =>
      match skip with
      | S k => repl_aux pat rep k r
      | O => if prefixb pat s then rep ++ repl_aux pat rep (pred (length pat)) r
             else c :: repl_aux pat rep 0 r
      end
  end.
Definition replace (pat rep s : str) : str := repl_aux pat rep 0 s.

(* s.rsplit(pat, 1) when pat occurs: (before the last occurrence, after it) *)
Fixpoint rsplit1 (pat s : str) : option (str * str) :=
  match s with
  | [] => None
  | c :: r =>
      match rsplit1 pat r with
      | Some (v, rest) => Some (c :: v, rest)
      | None => if prefixb pat s then Some ([], skipn (length pat) s) else None
      end
  end.

(* s.rfind(pat) >= 0 ? and the text after the last occurrence *)
Definition after_last (pat s : str) : option str :=
  match rsplit1 pat s with Some (_, rest) => Some rest | None => None end.

(* ------------------------------------------------------------------ *)
(* Terms *)

Inductive term :=
| IRI (s : str)
| BNd (s : str)
| Var (s : str)
| Lit (lex : str) (dt : option str) (lang : option str).

Inductive kind := KB | KV | KI | KL.
Definition kind_of (t : term) : kind :=
  match t with IRI _ => KI | BNd _ => KB | Var _ => KV | Lit _ _ _ => KL end.
Definition kind_code (k : kind) : N := match k with KB => 0 | KV => 1 | KI => 2 | KL => 3 end.
Definition kind_eqb (a b : kind) : bool := N.eqb (kind_code a) (kind_code b).

(* str(t) *)
Definition term_str (t : term) : str :=
  match t with IRI s | BNd s | Var s => s | Lit lex _ _ => lex end.

(* [self._language.lower() if self._language else None]: an empty tag counts as none *)
Definition lang_key (l : option str) : option str :=
  match l with
  | None => None
  | Some [] => None
  | Some s => Some (lower s)
  end.

(* Identifier.__eq__ / Literal.__eq__ *)
Definition term_eqb (a b : term) : bool :=
  match a, b with
  | IRI s, IRI s' | BNd s, BNd s' | Var s, Var s' => str_eqb s s'
  | Lit lex dt lang, Lit lex' dt' lang' =>
      ostr_eqb dt dt' && ostr_eqb (lang_key lang) (lang_key lang') && str_eqb lex lex'
  | _, _ => false
  end.

(* Identifier.__hash__ = str.__hash__ ; Literal.__hash__ *)
Section Hash.
  Variable h : str -> Z.
  Definition term_hash (t : term) : Z :=
    match t with
    | IRI s | BNd s | Var s => h s
    | Lit lex dt lang =>
        let r := h lex in
        let r := match lang_key lang with Some l => Z.lxor r (h l) | None => r end in
        match dt with Some d => Z.lxor r (h d) | None => r end
    end.
End Hash.

(* _ORDERING[type(t)] over the reflected table (a defaultdict) *)
Fixpoint assoc_N (k : N) (l : list (N * N)) (d : N) : N :=
  match l with
  | [] => d
  | (k', v) :: r => if N.eqb k k' then v else assoc_N k r d
  end.
Definition ord_of (k : kind) : N := assoc_N (kind_code k) ordering_table ordering_default.

(* --- literals whose ordering is modelled: strings and integers --- *)
Definition is_digit (c : N) : bool := (48 <=? c) && (c <=? 57).

Fixpoint digits_val (acc : N) (s : str) : option N :=
  match s with
  | [] => Some acc
  | c :: r => if is_digit c then digits_val (10 * acc + (c - 48)) r else None
  end.

(* the lexical forms [+-]?[0-9]+ (int() accepts more; those are outside the fragment) *)
Definition parse_int (s : str) : option Z :=
  match s with
  | [] => None
  | c :: r =>
      if N.eqb c 45 then match r with [] => None | _ => option_map (fun n => Z.opp (Z.of_N n)) (digits_val 0 r) end
      else if N.eqb c 43 then match r with [] => None | _ => option_map Z.of_N (digits_val 0 r) end
      else option_map Z.of_N (digits_val 0 s)
  end.

(* CNum m e: a numeric literal of value m / 10^e (xsd:integer: e = 0; xsd:decimal: e = number of fraction digits) *)
Inductive lclass := CStr | CNum (m : Z) (e : N) | CBool (b : bool) | COther.

(* the lexical forms [+-]?digits[.digits] / [+-]?.digits of xsd:decimal with at least one digit, optionally followed by an
   exponent (Decimal() accepts more - underscores, white space, NaN, Infinity: those are outside the fragment); result: coefficient and
   number of fraction digits, compared exactly as Python compares int and Decimal *)
Fixpoint dec_scan (dot : bool) (acc e nd : N) (s : str) : option (N * N * N) :=
  match s with
  | [] => Some (acc, e, nd)
  | c :: r =>
      if is_digit c then dec_scan dot (10 * acc + (c - 48)) (if dot then e + 1 else e) (nd + 1) r
      else if N.eqb c 46 && negb dot then dec_scan true acc e nd r
      else None
  end.
(* the text before an exponent marker e / E, and the text after it *)
Fixpoint split_exp (s : str) : str * option str :=
  match s with
  | [] => ([], None)
  | c :: r => if N.eqb c 101 || N.eqb c 69 then ([], Some r)
              else let '(a, b) := split_exp r in (c :: a, b)
  end.
(* Decimal() also reads an exponent ([eE][+-]?digits); rdflib holds such an xsd:decimal literal to be well-typed
   (its checker only asks for a value), so it takes the numeric fast path with the value m * 10^x / 10^e *)
Definition parse_dec (s : str) : option (Z * N) :=
  let '(neg, body) := match s with
                      | c :: r => if N.eqb c 45 then (true, r) else if N.eqb c 43 then (false, r) else (false, s)
                      | [] => (false, s)
                      end in
  let '(mant, ex) := split_exp body in
  match dec_scan false 0 0 0 mant with
  | Some (a, e, nd) =>
      if N.eqb nd 0 then None else
      let m := if neg then Z.opp (Z.of_N a) else Z.of_N a in
      match ex with
      | None => Some (m, e)
      | Some xs =>
          match parse_int xs with
          | Some x => let k := (x - Z.of_N e)%Z in
                      if Z.leb 0 k then Some ((m * 10 ^ k)%Z, 0) else Some (m, Z.to_N (Z.opp k))
          | None => None
          end
      end
  | None => None
  end.

(* m / 10^e against m' / 10^e' , exactly *)
Definition num_ltb (m : Z) (e : N) (m' : Z) (e' : N) : bool := Z.ltb (m * 10 ^ Z.of_N e') (m' * 10 ^ Z.of_N e).
Definition num_eqb (m : Z) (e : N) (m' : Z) (e' : N) : bool := Z.eqb (m * 10 ^ Z.of_N e') (m' * 10 ^ Z.of_N e).

(* the lexical space of xsd:boolean: true false 1 0 (anything else is ill-typed: outside the fragment) *)
Definition parse_bool (s : str) : option bool :=
  if str_eqb s [116; 114; 117; 101] || str_eqb s [49] then Some true
  else if str_eqb s [102; 97; 108; 115; 101] || str_eqb s [48] then Some false
  else None.

(* the integer-valued numeric datatypes (reflected: members of _NUMERIC_LITERAL_TYPES converted by int, with the bounds
   of their well-formedness checker) that are INSIDE the modelled fragment: those whose IRI sorts between xsd:boolean
   and xsd:string, like xsd:integer and xsd:decimal.  The four xsd:unsigned* types sort after xsd:string, so that
   3^^unsignedInt < 5^^integer < "a" < 3^^unsignedInt: with them < is not an order on the fragment; they stay
   outside (law-checked only). *)
Definition frag_int_types : list (str * (option Z * option Z)) :=
  filter (fun p => str_ltb xsd_boolean (fst p) && str_ltb (fst p) xsd_string) int_value_types.
Fixpoint int_type_get (d : str) (tab : list (str * (option Z * option Z))) : option (option Z * option Z) :=
  match tab with
  | [] => None
  | (d', b) :: r => if str_eqb d d' then Some b else int_type_get d r
  end.
(* outside the bounds the literal is ill-typed: it does not enter the numeric fast path *)
Definition in_bounds (z : Z) (b : option Z * option Z) : bool :=
  (match fst b with Some lo => Z.leb lo z | None => true end)
  && (match snd b with Some hi => Z.leb z hi | None => true end).

Definition lit_class (lex : str) (dt lang : option str) : lclass :=
  match lang with
  | Some [] => COther      (* private _language == "": not a literal the constructor builds *)
  | _ =>
    match dt with
    | None => CStr
    | Some d =>
        if str_eqb d xsd_string then CStr
        else match int_type_get d frag_int_types with
        | Some b =>
          match parse_int lex with Some z => if in_bounds z b then CNum z 0 else COther | None => COther end
        | None =>
        if str_eqb d xsd_decimal then
          match parse_dec lex with Some (m, e) => CNum m e | None => COther end
        else if str_eqb d xsd_boolean then
          match parse_bool lex with Some b => CBool b | None => COther end
        else COther
        end
    end
  end.

Definition dt_or_string (dt : option str) : str := match dt with Some d => d | None => xsd_string end.
Definition lang_or_empty (l : option str) : str := match l with Some s => s | None => [] end.

(* Literal.__gt__ on two literals of the fragment (language tags compared lower-cased, as repaired for F7j;
   the repaired NaN and ill-typed rules never apply inside the fragment) *)
Definition lit_gt (lex : str) (dt lang : option str) (lex' : str) (dt' lang' : option str) : option bool :=
  match lit_class lex dt lang, lit_class lex' dt' lang' with
  | COther, _ | _, COther => None
  | CNum x e, CNum y e' => Some (num_ltb y e' x e)  (* numeric fast path: int and Decimal values compared exactly *)
  | CBool x, CBool y => Some (x && negb y)          (* same datatype, no tag, both valued: True > False *)
  | _, _ =>
      let d := dt_or_string dt in
      let d' := dt_or_string dt' in
      if negb (str_eqb d d') then Some (str_ltb d' d)
      else
        let l := lang_key lang in
        let l' := lang_key lang' in
        if negb (ostr_eqb l l') then
          match l, l' with
          | None, _ => Some false
          | _, None => Some true
          | Some x, Some y => Some (str_ltb y x)
          end
        else Some (str_ltb lex' lex)                 (* both values are str *)
  end.

(* Literal.eq on two literals of the fragment *)
Definition lit_eqv (lex : str) (dt lang : option str) (lex' : str) (dt' lang' : option str) : option bool :=
  match lit_class lex dt lang, lit_class lex' dt' lang' with
  | COther, _ | _, COther => None
  | CNum x e, CNum y e' => Some (num_eqb x e y e')
  | CBool x, CBool y => Some (Bool.eqb x y)
  | CStr, CStr =>
      if negb (str_eqb (lower (lang_or_empty lang)) (lower (lang_or_empty lang'))) then Some false
      else Some (str_eqb lex lex')
  | _, _ => Some false                               (* languages or datatypes differ *)
  end.

(* a < b  (None: a pair of literals outside the fragment) *)
Definition term_lt (a b : term) : option bool :=
  match a, b with
  | Lit lex dt lang, Lit lex' dt' lang' => lit_gt lex' dt' lang' lex dt lang   (* other.__gt__(self), as repaired for F7l *)
  | Lit _ _ _, _ => Some false
  | _, _ =>
      if kind_eqb (kind_of a) (kind_of b) then Some (str_ltb (term_str a) (term_str b))
      else Some (N.ltb (ord_of (kind_of a)) (ord_of (kind_of b)))
  end.

(* a > b : Identifier.__gt__ / Literal.__gt__ called directly *)
Definition term_gt (a b : term) : option bool :=
  match a, b with
  | Lit lex dt lang, Lit lex' dt' lang' => lit_gt lex dt lang lex' dt' lang'
  | Lit _ _ _, _ => Some true
  | _, _ =>
      if kind_eqb (kind_of a) (kind_of b) then Some (str_ltb (term_str b) (term_str a))
      else Some (N.ltb (ord_of (kind_of b)) (ord_of (kind_of a)))
  end.

(* the equality __le__ / __ge__ fall back on: == for identifiers, Literal.eq (value space) for literals *)
Definition term_eqv (a b : term) : option bool :=
  match a, b with
  | Lit lex dt lang, Lit lex' dt' lang' => lit_eqv lex dt lang lex' dt' lang'
  | Lit _ _ _, _ => Some false
  | _, _ => Some (term_eqb a b)
  end.

(* a <= b, a >= b : r = __lt__ (resp. __gt__); if r: True; else the equality above *)
Definition term_le (a b : term) : option bool :=
  match term_lt a b, term_eqv a b with Some l, Some e => Some (l || e) | _, _ => None end.
Definition term_ge (a b : term) : option bool :=
  match term_gt a b, term_eqv a b with Some g, Some e => Some (g || e) | _, _ => None end.

(* ------------------------------------------------------------------ *)
(* n3 text *)

Definition valid_uri (s : str) : bool := forallb (fun c => negb (mem c s)) invalid_uri_chars.

Definition q1 : str := [34].
Definition q3 : str := [34; 34; 34].
Definition bs : N := 92.

Definition last_is_quote (e : str) : bool :=
  match rev e with
  | a :: _ => N.eqb a 34
  | _ => false
  end.

(* Literal._quote_encode (as repaired for finding F7e: in the triple-quoted form a final quote is escaped
   first - every backslash before it has been doubled - then the remaining triple quotes) *)
Definition quote_encode (s : str) : str :=
  if mem 10 s then
    let e := replace [bs] [bs; bs] s in
    let e := if last_is_quote e then removelast e ++ [bs; 34] else e in
    let e := if containsb q3 e then replace q3 [bs; 34; bs; 34; bs; 34] e else e in
    q3 ++ replace [13] [bs; 114] e ++ q3
  else
    q1 ++ replace [13] [bs; 114] (replace [34] [bs; 34] (replace [bs] [bs; bs] (replace [10] [bs; 110] s))) ++ q1.

(* float(lexical): only whether it is an infinity or a NaN matters *)
Definition is_space (c : N) : bool :=
  ((9 <=? c) && (c <=? 13)) || ((28 <=? c) && (c <=? 32)) || N.eqb c 133 || N.eqb c 160 || N.eqb c 5760
  || ((8192 <=? c) && (c <=? 8202)) || N.eqb c 8232 || N.eqb c 8233 || N.eqb c 8239 || N.eqb c 8287 || N.eqb c 12288.
Fixpoint lstrip (s : str) : str :=
  match s with c :: r => if is_space c then lstrip r else s | [] => [] end.
Definition strip (s : str) : str := rev (lstrip (rev (lstrip s))).

Inductive fclass := FInf | FNan | FOther.
Definition s_inf : str := [105; 110; 102].
Definition s_infinity : str := [105; 110; 102; 105; 110; 105; 116; 121].
Definition s_nan : str := [110; 97; 110].
Definition float_class (s : str) : fclass :=
  let t := strip s in
  let t := match t with c :: r => if N.eqb c 43 || N.eqb c 45 then r else t | [] => t end in
  let t := lower t in
  if str_eqb t s_inf || str_eqb t s_infinity then FInf else if str_eqb t s_nan then FNan else FOther.

(* the quoted lexical part of Literal._literal_n3() *)
Definition n3_quoted (lex : str) (dt : option str) : str :=
  let e := quote_encode lex in
  match dt with
  | Some d =>
      if smem d infnan_types then
        match float_class lex with
        | FInf => replace [73; 110; 102; 105; 110; 105; 116; 121] [73; 78; 70] (replace s_inf [73; 78; 70] e)
        | FNan => replace s_nan [78; 97; 78] e
        | FOther => e
        end
      else e
  | None => e
  end.

Definition truthy (o : option str) : bool := match o with Some (_ :: _) => true | _ => false end.

(* t.n3()  (None: raises) *)
Definition n3 (t : term) : option str :=
  match t with
  | IRI s => if valid_uri s then Some ([60] ++ s ++ [62]) else None
  | BNd s => Some ([95; 58] ++ s)
  | Var s => Some (63 :: s)
  | Lit lex dt lang =>
      let e := n3_quoted lex dt in
      if truthy lang then Some (e ++ 64 :: lang_or_empty lang)
      else if truthy dt then Some (e ++ [94; 94; 60] ++ dt_or_string dt ++ [62])
      else Some e
  end.

(* ------------------------------------------------------------------ *)
(* the codecs: s.encode("raw-unicode-escape").decode("unicode-escape") *)

Definition hexdig (n : N) : N := if n <? 10 then 48 + n else 87 + n.
Definition hex4 (c : N) : str :=
  [hexdig (c / 4096 mod 16); hexdig (c / 256 mod 16); hexdig (c / 16 mod 16); hexdig (c mod 16)].
Definition rue_char (c : N) : str :=
  if c <? 256 then [c]
  else if c <? 65536 then bs :: 117 :: hex4 c
  else bs :: 85 :: hex4 (c / 65536) ++ hex4 (c mod 65536).
Definition rue_encode (s : str) : str := flat_map rue_char s.

Definition hexval (c : N) : option N :=
  if is_digit c then Some (c - 48)
  else if (97 <=? c) && (c <=? 102) then Some (c - 87)
  else if (65 <=? c) && (c <=? 70) then Some (c - 55)
  else None.

Fixpoint hexnum (acc : N) (l : list N) : option N :=
  match l with
  | [] => Some acc
  | c :: r => match hexval c with Some v => hexnum (16 * acc + v) r | None => None end
  end.

Definition is_oct (c : N) : bool := (48 <=? c) && (c <=? 55).

Definition simple_escape (c : N) : option N :=
  if N.eqb c 92 then Some 92 else if N.eqb c 39 then Some 39 else if N.eqb c 34 then Some 34
  else if N.eqb c 97 then Some 7 else if N.eqb c 98 then Some 8 else if N.eqb c 102 then Some 12
  else if N.eqb c 110 then Some 10 else if N.eqb c 114 then Some 13 else if N.eqb c 116 then Some 9
  else if N.eqb c 118 then Some 11 else None.

Definition ocons (c : N) (r : option str) : option str :=
  match r with Some l => Some (c :: l) | None => None end.

(* bytes.decode("unicode-escape"); None: UnicodeDecodeError (or a \N{...} escape, not modelled) *)
Fixpoint ue_decode (s : str) : option str :=
  match s with
  | [] => Some []
  | c :: r =>
      if negb (N.eqb c bs) then ocons c (ue_decode r)
      else
        match r with
        | [] => None
        | e :: r1 =>
            if N.eqb e 10 then ue_decode r1
            else match simple_escape e with
            | Some v => ocons v (ue_decode r1)
            | None =>
              if N.eqb e 120 then
                match r1 with
                | a :: b :: r2 => match hexnum 0 [a; b] with Some v => ocons v (ue_decode r2) | None => None end
                | _ => None
                end
              else if N.eqb e 117 then
                match r1 with
                | a :: b :: c1 :: d :: r2 =>
                    match hexnum 0 [a; b; c1; d] with Some v => ocons v (ue_decode r2) | None => None end
                | _ => None
                end
              else if N.eqb e 85 then
                match r1 with
                | a :: b :: c1 :: d :: a' :: b' :: c' :: d' :: r2 =>
                    match hexnum 0 [a; b; c1; d; a'; b'; c'; d'] with
                    | Some v => if v <? 1114112 then ocons v (ue_decode r2) else None
                    | None => None
                    end
                | _ => None
                end
              else if is_oct e then
                match r1 with
                | o2 :: r2 =>
                    if is_oct o2 then
                      match r2 with
                      | o3 :: r3 =>
                          if is_oct o3 then ocons (64 * (e - 48) + 8 * (o2 - 48) + (o3 - 48)) (ue_decode r3)
                          else ocons (8 * (e - 48) + (o2 - 48)) (ue_decode r2)
                      | [] => Some [8 * (e - 48) + (o2 - 48)]
                      end
                    else ocons (e - 48) (ue_decode r1)
                | [] => Some [e - 48]
                end
              else if N.eqb e 78 then None
              else ocons bs (ocons e (ue_decode r1))
            end
        end
  end.

Definition codec (s : str) : option str := ue_decode (rue_encode s).

(* ------------------------------------------------------------------ *)
(* constructors *)

(* _lang_tag_regex = ^[a-zA-Z]+(?:-[a-zA-Z0-9]+)*\Z *)
Definition is_alpha (c : N) : bool := ((65 <=? c) && (c <=? 90)) || ((97 <=? c) && (c <=? 122)).
Definition is_alnum (c : N) : bool := is_alpha c || is_digit c.
(* st: 0 = at the start of the first subtag, 1 = inside the first subtag,
       2 = at the start of a later subtag, 3 = inside a later subtag *)
Fixpoint lang_scan (st : N) (s : str) : bool :=
  match s with
  | [] => N.eqb st 1 || N.eqb st 3
  | c :: r =>
      if N.eqb c 45 then (N.eqb st 1 || N.eqb st 3) && lang_scan 2 r
      else if N.eqb st 0 || N.eqb st 1 then is_alpha c && lang_scan 1 r
      else is_alnum c && lang_scan 3 r
  end.
Definition valid_lang (s : str) : bool := lang_scan 0 s.

Fixpoint digits_of (fuel : nat) (n : N) (acc : str) : str :=
  match fuel with
  | O => acc
  | S f => if n <? 10 then (48 + n) :: acc else digits_of f (n / 10) ((48 + n mod 10) :: acc)
  end.
Definition int_str (z : Z) : str :=
  match z with
  | Z0 => [48]
  | Zpos p => digits_of (S (Pos.size_nat p)) (Npos p) []
  | Zneg p => 45 :: digits_of (S (Pos.size_nat p)) (Npos p) []
  end.

(* oracle for the lexical form the constructor builds from a string and a recognised datatype
   (the subject of property C09): ((lexical, datatype), lexical') *)
Definition ctor_oracle := list ((str * str) * str).
Fixpoint orc_get (o : ctor_oracle) (lex d : str) : option str :=
  match o with
  | [] => None
  | ((l, d'), v) :: r => if str_eqb l lex && str_eqb d' d then Some v else orc_get r lex d
  end.

(* lexical form of Literal(lex, datatype=dt) with the default normalize=True; None: not known *)
Definition ctor_lex (o : ctor_oracle) (lex : str) (dt : option str) : option str :=
  match dt with
  | None => Some lex
  | Some d =>
      if negb (smem d recognised_types) then Some lex
      else if str_eqb d xsd_integer then
        match parse_int lex with
        | Some z => Some (int_str z)
        | None => orc_get o lex d
        end
      else orc_get o lex d
  end.

Inductive wres := WAny | WRaise | WTerm (t : term).

(* Literal(value, language, datatype, normalize) as called by from_n3 (normalize defaults to True) and by
   __reduce__ (normalize=False since the fix for F7a: the lexical form is kept; the whitespace rewriting of
   xsd:normalizedString / xsd:token is idempotent and already applied to every lexical form a Literal holds) *)
Definition mk_literal (o : ctor_oracle) (normalize : bool) (lex : str) (lang dt : option str) : wres :=
  let lang := match lang with Some [] => None | _ => lang end in
  match lang, dt with
  | Some _, Some _ => WRaise
  | Some l, None => if valid_lang l then WTerm (Lit lex None lang) else WRaise
  | None, _ =>
      if normalize then
        match ctor_lex o lex dt with
        | Some lex' => WTerm (Lit lex' dt None)
        | None => WAny
        end
      else WTerm (Lit lex dt None)
  end.

(* Variable(value) *)
Definition mk_var (s : str) : wres :=
  match s with
  | [] => WRaise
  | c :: r => if N.eqb c 63 then WTerm (Var r) else WTerm (Var s)
  end.

(* pickle.loads(pickle.dumps(t)), copy.copy(t), copy.deepcopy(t): the class applied to the __reduce__ arguments *)
Definition unpickle (o : ctor_oracle) (t : term) : wres :=
  match t with
  | IRI s => WTerm (IRI s)
  | BNd s => WTerm (BNd s)
  | Var s => mk_var (63 :: s)                 (* __reduce__ hands the constructor a '?' to strip (repair of F7n) *)
  | Lit lex dt lang => mk_literal o false lex lang dt
  end.

(* ------------------------------------------------------------------ *)
(* rdflib.util.from_n3 (default arguments), branches reachable from n3() text;
   WAny: a branch that is not modelled *)

Definition dt_from_n3 (s : str) : option (option str) :=   (* None: not modelled; Some None: raises *)
  match s with
  | 60 :: r => Some (codec (removelast r))
  | _ => None
  end.

(* the re.sub call of from_n3 (fix for F7b) doubles only a backslash-x that is preceded by an even number of
   backslashes: a backslash-x whose backslash ends a maximal run of odd length gets one more backslash;
   [odd] is the parity of the run of backslashes just read *)
Fixpoint fix_bs_x (odd : bool) (s : str) : str :=
  match s with
  | [] => []
  | c :: r =>
      if N.eqb c bs then bs :: fix_bs_x (negb odd) r
      else if N.eqb c 120 && odd then bs :: c :: fix_bs_x false r
      else c :: fix_bs_x false r
  end.

(* the other re.sub call of from_n3 (fix for F7e): a quote preceded by a maximal run of an odd number of
   backslashes loses one of them; [k] counts the backslashes read and not yet written *)
Fixpoint unesc_quote (k : nat) (s : str) : str :=
  match s with
  | [] => repeat bs k
  | c :: r =>
      if N.eqb c bs then unesc_quote (S k) r
      else if N.eqb c 34 && Nat.odd k then repeat bs (pred k) ++ c :: unesc_quote 0 r
      else repeat bs k ++ c :: unesc_quote 0 r
  end.

Definition from_n3 (o : ctor_oracle) (s : str) : wres :=
  match s with
  | [] => WAny
  | 60 :: r => match codec (removelast r) with Some u => WTerm (IRI u) | None => WRaise end
  | 34 :: _ =>
      let quotes := if prefixb q3 s then q3 else q1 in
      match rsplit1 quotes s with
      | None => WAny
      | Some (value, rest) =>
          let value := skipn (length quotes) value in
          let value := unesc_quote 0 value in
          let value := fix_bs_x false value in
          match after_last [94; 94] rest with
          | Some d =>
              match dt_from_n3 d with
              | None => WAny
              | Some None => WRaise
              | Some (Some u) =>
                  match codec value with
                  | Some v => mk_literal o true v None (Some u)
                  | None => WRaise
                  end
              end
          | None =>
              let lang := match rest with 64 :: l => Some l | _ => None end in
              match codec value with
              | Some v => mk_literal o true v lang None
              | None => WRaise
              end
          end
      end
  | 95 :: 58 :: r => WTerm (BNd r)
  | c :: r =>
      if N.eqb c 63 then mk_var s else WAny          (* the '?name' branch: Variable(s), which strips the '?' *)
  end.

(* ------------------------------------------------------------------ *)
(* comparison of terms as data (what "the same term" means for the text round trips):
   structural, an empty language tag being no tag *)
Definition norm_lang (l : option str) : option str := match l with Some [] => None | _ => l end.
Definition term_same (a b : term) : bool :=
  match a, b with
  | IRI s, IRI s' | BNd s, BNd s' | Var s, Var s' => str_eqb s s'
  | Lit lex dt lang, Lit lex' dt' lang' =>
      str_eqb lex lex' && ostr_eqb dt dt' && ostr_eqb (norm_lang lang) (norm_lang lang')
  | _, _ => false
  end.

Definition wres_eqb (m i : wres) : bool :=      (* model answer first; WAny is a wildcard *)
  match m, i with
  | WAny, _ => true
  | WRaise, WRaise => true
  | WTerm a, WTerm b => term_same a b
  | _, _ => false
  end.

(* ================================================================== *)
(* Suite "laws": == , hash, < over all pairs and triples of a list of terms *)

Inductive cmp := CLt | CNlt | CRaise.       (* a < b is True / is False / raises *)

(* a term whose < against every other such term is modelled *)
Definition modelled (t : term) : bool :=
  match t with
  | Lit lex dt lang => match lit_class lex dt lang with COther => false | _ => true end
  | _ => true
  end.

(* a comparison sort that uses only < , as list.sort / sorted() use only __lt__: stable insertion sort
   (the input is read from the right; an element is put before the elements it ties with) *)
Fixpoint ins {A} (lt : A -> A -> bool) (x : A) (l : list A) : list A :=
  match l with
  | [] => [x]
  | y :: r => if lt y x then y :: ins lt x r else x :: y :: r
  end.
Fixpoint isort {A} (lt : A -> A -> bool) (l : list A) : list A :=
  match l with [] => [] | x :: r => ins lt x (isort lt r) end.

Record case := { c_terms : list term;
                 c_hash : list (str * Z) }.     (* oracle: Python's hash of the strings involved *)

Record obs := { o_eq : list (list bool);
                o_hash : list (option Z);         (* None: a string missing in the oracle *)
                o_lt : list (list (option cmp));  (* None: not modelled *)
                o_ne : list (list bool);          (* a != b *)
                o_gt : list (list (option cmp));  (* a > b , a <= b , a >= b *)
                o_le : list (list (option cmp));
                o_ge : list (list (option cmp));
                o_sorted : option (option (list nat));
                   (* sorted(range(n), key = the term's own <): None not modelled, Some None raises, else the indices *)
                o_flags : list (option bool) }.   (* conformance flags computed by the harness: sorted() of the mixed list;
                                                     sorted() of the literals of each datatype; set/dict collapse;
                                                     > <= >= against < and ==; a tie of two literals of one datatype
                                                     is value equality (Literal.eq) unless a NaN is involved *)

Fixpoint hash_get (tab : list (str * Z)) (s : str) : option Z :=
  match tab with
  | [] => None
  | (k, v) :: r => if str_eqb k s then Some v else hash_get r s
  end.

Definition strings_of (t : term) : list str :=
  match t with
  | IRI s | BNd s | Var s => [s]
  | Lit lex dt lang =>
      lex :: (match lang_key lang with Some l => [l] | None => [] end)
          ++ (match dt with Some d => [d] | None => [] end)
  end.

Definition hash_of (tab : list (str * Z)) (t : term) : option Z :=
  if forallb (fun s => match hash_get tab s with Some _ => true | None => false end) (strings_of t)
  then Some (term_hash (fun s => match hash_get tab s with Some z => z | None => 0%Z end) t)
  else None.

Definition cmp_of (o : option bool) : option cmp :=
  match o with Some true => Some CLt | Some false => Some CNlt | None => None end.

(* two literals of one datatype family: the same datatype IRI (all language-tagged and plain literals together) *)
Definition same_dt (a b : term) : bool :=
  match a, b with
  | Lit _ dt _, Lit _ dt' _ => ostr_eqb dt dt'
  | _, _ => false
  end.
(* a literal the constructor can build: no private empty language tag *)
Definition public (t : term) : bool := match t with Lit _ _ (Some []) => false | _ => true end.
Definition same_family (a b : term) : bool := same_dt a b && public a && public b.

(* tags that differ only in case (no longer a finding; kept for statistics) *)
Definition case_variant (a b : term) : bool :=
  match a, b with
  | Lit _ _ (Some l), Lit _ _ (Some l') => negb (str_eqb l l') && str_eqb (lower l) (lower l')
  | _, _ => false
  end.

(* < read off a matrix *)
Definition is_lt (e : option cmp) : bool := match e with Some CLt => true | _ => false end.
Definition mlt_of (L : list (list (option cmp))) (i j : nat) : bool := is_lt (nth j (nth i L []) None).

Definition sortable (ts : list term) : bool := forallb modelled ts.

Definition model_obs (c : case) : obs :=
  let ts := c_terms c in
  let L := map (fun a => map (fun b => cmp_of (term_lt a b)) ts) ts in
  {| o_eq := map (fun a => map (term_eqb a) ts) ts;
     o_hash := map (hash_of (c_hash c)) ts;
     o_lt := L;
     o_sorted := if sortable ts then Some (Some (isort (mlt_of L) (seq 0 (length ts)))) else None;
     o_ne := map (fun a => map (fun b => negb (term_eqb a b)) ts) ts;       (* Identifier.__ne__ = not __eq__ *)
     o_gt := map (fun a => map (fun b => cmp_of (term_gt a b)) ts) ts;
     o_le := map (fun a => map (fun b => cmp_of (term_le a b)) ts) ts;
     o_ge := map (fun a => map (fun b => cmp_of (term_ge a b)) ts) ts;
     o_flags := [ Some true; Some true; Some true; Some true; Some true ] |}.

Definition ocmp_eqb (m i : option cmp) : bool :=
  match m, i with
  | None, _ => true
  | Some CLt, Some CLt | Some CNlt, Some CNlt | Some CRaise, Some CRaise => true
  | _, _ => false
  end.
Definition oz_eqb (m i : option Z) : bool :=
  match m, i with None, _ => true | Some a, Some b => Z.eqb a b | _, _ => false end.
Definition obool_eqb (m i : option bool) : bool :=
  match m, i with None, _ | _, None => true | Some a, Some b => Bool.eqb a b end.   (* None: not applicable *)

Fixpoint list_eqb {A} (f : A -> A -> bool) (a b : list A) : bool :=
  match a, b with
  | [], [] => true
  | x :: a', y :: b' => f x y && list_eqb f a' b'
  | _, _ => false
  end.

Definition obs_eqb (m i : obs) : bool :=
  list_eqb (list_eqb Bool.eqb) (o_eq m) (o_eq i)
  && list_eqb oz_eqb (o_hash m) (o_hash i)
  && list_eqb (list_eqb ocmp_eqb) (o_lt m) (o_lt i)
  && list_eqb (list_eqb Bool.eqb) (o_ne m) (o_ne i)
  && list_eqb (list_eqb ocmp_eqb) (o_gt m) (o_gt i)
  && list_eqb (list_eqb ocmp_eqb) (o_le m) (o_le i)
  && list_eqb (list_eqb ocmp_eqb) (o_ge m) (o_ge i)
  && (match o_sorted m, o_sorted i with
      | None, _ => true
      | Some None, Some None => true
      | Some (Some p), Some (Some q) => list_eqb Nat.eqb p q
      | _, _ => false
      end)
  && list_eqb obool_eqb (o_flags m) (o_flags i).

(* --- the specification, over what was observed --- *)

(* the identity of a term as RDF defines it: kind, string, datatype, lower-cased non-empty tag *)
Definition key_same (a b : term) : bool :=
  kind_eqb (kind_of a) (kind_of b) && str_eqb (term_str a) (term_str b) &&
  match a, b with
  | Lit _ dt lang, Lit _ dt' lang' => ostr_eqb dt dt' && ostr_eqb (lang_key lang) (lang_key lang')
  | _, _ => true
  end.

(* bnode < variable < IRI < literal *)
Definition rank (k : kind) : N := match k with KB => 0 | KV => 1 | KI => 2 | KL => 3 end.

Definition nthd {A} (l : list (list A)) (i j : nat) (d : A) : A := nth j (nth i l []) d.

Definition idx (ts : list term) : list nat := seq 0 (length ts).

Definition shape_ok {A} (n : nat) (m : list (list A)) : bool :=
  Nat.eqb (length m) n && forallb (fun r => Nat.eqb (length r) n) m.

(* what a < b must be when the statement fixes it *)
Definition lt_required (a b : term) : option bool :=
  match kind_of a, kind_of b with
  | KL, KL => None
  | ka, kb => if kind_eqb ka kb then Some (str_ltb (term_str a) (term_str b))
              else Some (N.ltb (rank ka) (rank kb))
  end.

Definition lt_entry_ok (a b : term) (e : option cmp) : bool :=
  match lt_required a b, e with
  | Some true, Some CLt => true
  | Some false, Some CNlt => true
  | Some _, _ => false
  | None, Some CRaise => false     (* two literals: the comparison must not raise *)
  | None, _ => true
  end.

(* what reproducible sorting needs of < inside one datatype family, on the observed matrix *)
Definition family_ok (ts : list term) (L : list (list (option cmp))) : bool :=
  let t := fun i => nth i ts (IRI []) in
  let lt := fun i j => is_lt (nthd L i j None) in
  forallb (fun i => forallb (fun j =>
      implb (same_family (t i) (t j)) (negb (lt i j && lt j i))) (idx ts)) (idx ts)      (* irreflexive, asymmetric *)
  && forallb (fun i => forallb (fun j => forallb (fun k =>
      implb (same_family (t i) (t j) && same_family (t j) (t k)) (implb (lt i j && lt j k) (lt i k)))
      (idx ts)) (idx ts)) (idx ts).                                                       (* transitive *)

Definition spec_base (c : case) (o : obs) : bool :=
  let ts := c_terms c in
  let n := length ts in
  let E := fun i j => nthd (o_eq o) i j false in
  let H := fun i => nth i (o_hash o) None in
  shape_ok n (o_eq o) && Nat.eqb (length (o_hash o)) n && shape_ok n (o_lt o)
  (* == is exactly sameness of (kind, string, datatype, lower-cased tag) *)
  && forallb (fun i => forallb (fun j =>
        Bool.eqb (E i j) (key_same (nth i ts (IRI [])) (nth j ts (IRI [])))) (idx ts)) (idx ts)
  (* reflexive, symmetric, transitive on the observed matrix *)
  && forallb (fun i => E i i) (idx ts)
  && forallb (fun i => forallb (fun j => Bool.eqb (E i j) (E j i)) (idx ts)) (idx ts)
  && forallb (fun i => forallb (fun j => forallb (fun k =>
        implb (E i j && E j k) (E i k)) (idx ts)) (idx ts)) (idx ts)
  (* equal terms have equal hashes *)
  && forallb (fun i => forallb (fun j =>
        implb (E i j) (match H i, H j with Some x, Some y => Z.eqb x y | _, _ => true end)) (idx ts)) (idx ts)
  (* order *)
  && forallb (fun i => forallb (fun j =>
        lt_entry_ok (nth i ts (IRI [])) (nth j ts (IRI [])) (nthd (o_lt o) i j None)) (idx ts)) (idx ts)
  && forallb (fun f => match f with Some false => false | _ => true end) (o_flags o).

(* != is the negation of == on every pair *)
Definition ne_ok (c : case) (o : obs) : bool :=
  let ts := c_terms c in
  shape_ok (length ts) (o_ne o)
  && forallb (fun i => forallb (fun j =>
        Bool.eqb (nthd (o_ne o) i j false) (negb (nthd (o_eq o) i j false))) (idx ts)) (idx ts).

(* sorted(): whenever the observed < is a strict weak order on the terms of the case (every comparison answers,
   irreflexive, transitive, "not less" transitive), the result must be a permutation of the input without
   inversion in which ties keep their input order - by C07_stable_sort_unique there is exactly one such list *)
Definition is_some_cmp (e : option cmp) : bool := match e with Some CLt | Some CNlt => true | _ => false end.
Definition swo_matrix (n : nat) (L : list (list (option cmp))) : bool :=
  let ix := seq 0 n in
  let lt := mlt_of L in
  forallb (fun i => forallb (fun j => is_some_cmp (nth j (nth i L []) None)) ix) ix
  && forallb (fun i => negb (lt i i)) ix
  && forallb (fun i => forallb (fun j => forallb (fun k => implb (lt i j && lt j k) (lt i k)) ix) ix) ix
  && forallb (fun i => forallb (fun j => forallb (fun k => implb (negb (lt i j) && negb (lt j k)) (negb (lt i k))) ix) ix) ix.

Fixpoint sortedb (lt : nat -> nat -> bool) (p : list nat) : bool :=
  match p with
  | [] => true
  | x :: r => forallb (fun y => negb (lt y x)) r && sortedb lt r
  end.
Definition tieb (lt : nat -> nat -> bool) (a b : nat) : bool := negb (lt a b) && negb (lt b a).
Definition stableb (lt : nat -> nat -> bool) (n : nat) (p : list nat) : bool :=
  forallb (fun x => list_eqb Nat.eqb (filter (tieb lt x) p) (filter (tieb lt x) (seq 0 n))) (seq 0 n).
Definition is_perm (n : nat) (p : list nat) : bool :=
  Nat.eqb (length p) n && forallb (fun i => existsb (Nat.eqb i) p) (seq 0 n).

(* > , <= , >= : whenever a term that is not a literal is involved they are what < and == say
   (a > b is b < a; a <= b is a < b or a == b; a >= b is b < a or a == b); > on two literals never raises.
   (<= and >= on two literals consult Literal.eq, which by design raises TypeError when it cannot decide whether two
   lexical forms of an unknown or ill-typed datatype denote one value: nothing is demanded there.) *)
Definition op_entry_ok (want : option bool) (e : option cmp) : bool :=
  match want, e with
  | Some true, Some CLt => true          (* CLt / CNlt: the operator answered True / False *)
  | Some false, Some CNlt => true
  | Some _, _ => false
  | None, Some CRaise => false
  | None, _ => true
  end.
Definition op_entry_lax (want : option bool) (e : option cmp) : bool :=
  match want with Some _ => op_entry_ok want e | None => true end.
Definition ops_ok (c : case) (o : obs) : bool :=
  let ts := c_terms c in
  let n := length ts in
  let t := fun i => nth i ts (IRI []) in
  shape_ok n (o_gt o) && shape_ok n (o_le o) && shape_ok n (o_ge o)
  && forallb (fun i => forallb (fun j =>
       let eq := key_same (t i) (t j) in
       op_entry_ok (lt_required (t j) (t i)) (nthd (o_gt o) i j None)
       && op_entry_lax (option_map (fun v => v || eq) (lt_required (t i) (t j))) (nthd (o_le o) i j None)
       && op_entry_lax (option_map (fun v => v || eq) (lt_required (t j) (t i))) (nthd (o_ge o) i j None))
     (idx ts)) (idx ts).

Definition sorted_ok (c : case) (o : obs) : bool :=
  let n := length (c_terms c) in
  if swo_matrix n (o_lt o) then
    match o_sorted o with
    | Some (Some p) => is_perm n p && sortedb (mlt_of (o_lt o)) p && stableb (mlt_of (o_lt o)) n p
    | Some None => false
    | None => false
    end
  else true.

(* every term has a hash (no wildcard is accepted from an implementation) *)
Definition hash_present (o : obs) : bool :=
  forallb (fun h => match h with Some _ => true | None => false end) (o_hash o).
(* the hash oracle of a case covers the strings of its terms *)
Definition hwf (c : case) : bool :=
  forallb (fun t => match hash_of (c_hash c) t with Some _ => true | None => false end) (c_terms c).

Definition spec_ok (c : case) (o : obs) : bool :=
  spec_base c o && family_ok (c_terms c) (o_lt o) && ne_ok c o && sorted_ok c o && ops_ok c o && hash_present o.

(* ================================================================== *)
(* Suite "pickler": a sequence of terms through ONE rdflib.store.NodePickler (a fresh one, then Store().node_pickler):
   loads(dumps(t)) for each t in turn.  NodePickler pickles with the standard pickler (persistent ids only for
   registered objects), so each round trip is the class applied to the __reduce__ arguments. *)
Definition pcase := list term.
Definition pobs := list wres.
Definition pmodel_obs (ts : pcase) : pobs := map (unpickle []) (ts ++ ts).
Definition pobs_eqb (m i : pobs) : bool := list_eqb wres_eqb m i.
Fixpoint all_same (ts : list term) (o : pobs) : bool :=
  match ts, o with
  | [], [] => true
  | t :: r, w :: r' => (match w with WTerm t' => term_same t t' | _ => false end) && all_same r r'
  | _, _ => false
  end.
Definition pspec_ok (ts : pcase) (o : pobs) : bool := all_same (ts ++ ts) o.

(* ================================================================== *)
(* Suite "text": n3 / from_n3 / pickle of one term *)

Record tcase := { t_term : term; t_orc : ctor_oracle }.

Record tobs := { t_n3 : option str;       (* None: n3() raises *)
                 t_from : wres;           (* from_n3(t.n3()) *)
                 t_pickle : wres;         (* pickle round trip *)
                 t_flags : list (option bool) }.
   (* conformance, computed by the harness: copy/deepcopy/all pickle protocols agree with t_pickle;
      read back through a one-triple Turtle document; through a SPARQL query *)

(* lexical form visible in the n3 text (INF / NaN spelling) *)
Definition n3_lex (lex : str) (dt : option str) : str :=
  match dt with
  | Some d =>
      if smem d infnan_types then
        match float_class lex with
        | FInf => replace [73; 110; 102; 105; 110; 105; 116; 121] [73; 78; 70] (replace s_inf [73; 78; 70] lex)
        | FNan => replace s_nan [78; 97; 78] lex
        | FOther => lex
        end
      else lex
  | None => lex
  end.

(* known finding of the text suite, F7a: from_n3 (like every parser) builds literals through the normalising
   constructor, so a literal whose n3-visible lexical form the constructor does not leave alone (built with
   normalize=False, or respelt by n3()) does not read back as the same term *)
Definition tkf (c : tcase) : N :=
  match t_term c with
  | Lit lex dt _ =>
      match ctor_lex (t_orc c) (n3_lex lex dt) dt with
      | Some l => if str_eqb l lex then 0 else 1
      | None => 0
      end
  | _ => 0
  end.

Definition tmodel_obs (c : tcase) : tobs :=
  let t := t_term c in
  {| t_n3 := n3 t;
     t_from := match n3 t with Some s => from_n3 (t_orc c) s | None => WRaise end;
     t_pickle := unpickle (t_orc c) t;
     t_flags := [Some true; (if N.eqb (tkf c) 0 then Some true else None); (if N.eqb (tkf c) 0 then Some true else None)] |}.

Definition tobs_eqb (m i : tobs) : bool :=
  ostr_eqb (t_n3 m) (t_n3 i) && wres_eqb (t_from m) (t_from i) && wres_eqb (t_pickle m) (t_pickle i)
  && list_eqb obool_eqb (t_flags m) (t_flags i).

Definition same_as (t : term) (w : wres) : bool :=
  match w with WTerm t' => term_same t t' | WAny => true | WRaise => false end.

(* what was read back must be a term, and the same one (WAny, the model's "do not know", is never accepted) *)
Definition same_strict (t : term) (w : wres) : bool :=
  match w with WTerm t' => term_same t t' | _ => false end.

Definition tspec_ok (c : tcase) (o : tobs) : bool :=
  let t := t_term c in
  same_strict t (t_pickle o)                              (* pickling: the same term *)
  && match t_n3 o with
     | Some _ => same_strict t (t_from o)                 (* from_n3(t.n3()): the same term *)
     | None => match t with IRI s => negb (valid_uri s) | _ => false end   (* only an IRI n3 cannot write may raise *)
     end
  && forallb (fun f => match f with Some false => false | _ => true end) (t_flags o).

(* well-formed cases: what the constructors of rdflib can build *)
Definition cp_ok (s : str) : bool := forallb (fun c => c <? 1114112) s.
Definition tag_chars (s : str) : bool := forallb (fun c => is_alnum c || N.eqb c 45) s.
Definition wf_term (t : term) : bool :=
  match t with
  | IRI s | BNd s => cp_ok s
  | Var s => cp_ok s
  | Lit lex dt lang =>
      cp_ok lex &&
      match dt, lang with
      | Some _, Some _ => false
      | Some d, None => valid_uri d && negb (str_eqb d []) && cp_ok d
      | None, Some l => valid_lang l && tag_chars l
      | None, None => true
      end
  end.

(* a literal n3() respells (INF / NaN) has a lexical form that needs no escape (" inf\n" with normalize=False is
   outside the proof, not outside the check), and the oracle agrees that the respelt form denotes the same literal *)
Definition plain_char (c : N) : bool :=
  negb (N.eqb c 10) && negb (N.eqb c 13) && negb (N.eqb c 34) && negb (N.eqb c 92).
Definition respelled (lex : str) (dt : option str) : bool :=
  match dt with
  | Some d => smem d infnan_types && match float_class lex with FOther => false | _ => true end
  | None => false
  end.
(* well-formed text case: a well-formed term; a literal whose INF/NaN spelling n3() changes has a lexical form that
   needs no escape (proof restriction, not a restriction of the check); the constructor oracle covers the literal *)
Definition twf (c : tcase) : bool :=
  let t := t_term c in
  wf_term t &&
  match t with
  | Lit lex dt _ =>
      (if respelled lex dt then forallb plain_char lex else true)
      && match ctor_lex (t_orc c) (n3_lex lex dt) dt with Some _ => true | None => false end
  | _ => true
  end.

