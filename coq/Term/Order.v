(* < on the modelled terms is a strict weak order: it is the strict total order of a sort key, read through
   the key function.  Consequences for sorted(). *)
From Coq Require Import Lia Permutation Sorting.Sorted.
From RV Require Import Term.Model Term.Proofs Term.Sort.
Local Open Scope N_scope.

(* KNum m e: the number m / 10^e (integers and decimals together) *)
Inductive skey := KNon (r : N) (s : str) | KBool (b : bool) | KNum (m : Z) (e : N) | KStr (l : option str) (lex : str).

Definition skey_of (t : term) : skey :=
  match t with
  | Lit lex dt lang => match lit_class lex dt lang with CNum m e => KNum m e | CBool b => KBool b | _ => KStr (lang_key lang) lex end
  | _ => KNon (rank (kind_of t)) (term_str t)
  end.

(* non-literals by (kind, string), then booleans (false < true), numbers (xsd:integer and xsd:decimal together, by
   exact value), strings by (tag, lexical form): the datatype IRIs ...#boolean < ...#decimal, ...#integer < ...#string
   order the literal families, numbers among themselves go through the numeric fast path *)
Definition key_lt (a b : skey) : bool :=
  match a, b with
  | KNon r s, KNon r' s' => N.ltb r r' || (N.eqb r r' && str_ltb s s')
  | KNon _ _, _ => true
  | _, KNon _ _ => false
  | KBool b, KBool b' => negb b && b'
  | KBool _, _ => true
  | _, KBool _ => false
  | KNum m e, KNum m' e' => num_ltb m e m' e'
  | KNum _ _, KStr _ _ => true
  | KStr _ _, KNum _ _ => false
  | KStr l x, KStr l' x' => skey_ltb l x l' x'
  end.

Lemma olang_total : forall a b, olang_ltb a b = false -> olang_ltb b a = false -> a = b.
Proof.
  destruct a as [x|], b as [y|]; simpl; intros H1 H2; try discriminate; auto.
  destruct (str_ltb_total x y) as [H|[H|H]]; congruence.
Qed.

Lemma olang_asym : forall a b, olang_ltb a b = true -> olang_ltb b a = false.
Proof. destruct a, b; simpl; intros; try discriminate; auto using str_ltb_asym. Qed.

Lemma pow10_pos : forall e : N, (0 < 10 ^ Z.of_N e)%Z.
Proof. intro e. apply Z.pow_pos_nonneg; lia. Qed.

Lemma key_lt_irrefl : forall a, key_lt a a = false.
Proof.
  destruct a; simpl.
  - rewrite N.ltb_irrefl, N.eqb_refl, str_ltb_irrefl. reflexivity.
  - destruct b; reflexivity.
  - unfold num_ltb. apply Z.ltb_irrefl.
  - apply skey_ltb_irrefl.
Qed.

Lemma key_lt_trans : forall a b c, key_lt a b = true -> key_lt b c = true -> key_lt a c = true.
Proof.
  destruct a as [r s|q|z e|l x], b as [r' s'|q'|z' e'|l' x'], c as [r'' s''|q''|z'' e''|l'' x'']; simpl; intros H1 H2;
    try discriminate; auto.
  - apply orb_true_iff in H1. apply orb_true_iff in H2. apply orb_true_iff.
    destruct H1 as [H1|H1], H2 as [H2|H2].
    + left. apply N.ltb_lt in H1, H2. apply N.ltb_lt. lia.
    + apply andb_true_iff in H2 as [E _]. apply N.eqb_eq in E. subst. auto.
    + apply andb_true_iff in H1 as [E _]. apply N.eqb_eq in E. subst. auto.
    + apply andb_true_iff in H1 as [E1 A]. apply andb_true_iff in H2 as [E2 B].
      apply N.eqb_eq in E1, E2. subst. right. rewrite N.eqb_refl. simpl. eauto using str_ltb_trans.
  - destruct q, q', q''; simpl in *; congruence.
  - unfold num_ltb in *. apply Z.ltb_lt in H1, H2. apply Z.ltb_lt.
    pose proof (pow10_pos e). pose proof (pow10_pos e'). pose proof (pow10_pos e''). nia.
  - eauto using skey_ltb_trans.
Qed.

(* the order is total on keys: two keys neither of which is less are the same key - or two spellings of one number *)
Definition key_eqv (a b : skey) : Prop :=
  match a, b with
  | KNum m e, KNum m' e' => (m * 10 ^ Z.of_N e' = m' * 10 ^ Z.of_N e)%Z
  | _, _ => a = b
  end.

Lemma key_lt_total : forall a b, key_lt a b = false -> key_lt b a = false -> key_eqv a b.
Proof.
  destruct a as [r s|q|z e|l x], b as [r' s'|q'|z' e'|l' x']; simpl; intros H1 H2; try discriminate.
  - apply orb_false_iff in H1 as [A1 B1]. apply orb_false_iff in H2 as [A2 B2].
    apply N.ltb_ge in A1, A2. assert (r = r') by lia. subst. rewrite N.eqb_refl in *. simpl in *.
    destruct (str_ltb_total s s') as [H|[H|H]]; congruence.
  - destruct q, q'; simpl in *; congruence.
  - unfold num_ltb in *. apply Z.ltb_ge in H1, H2. lia.
  - unfold skey_ltb in *. apply orb_false_iff in H1 as [A1 B1]. apply orb_false_iff in H2 as [A2 B2].
    pose proof (olang_total _ _ A1 A2). subst. rewrite ostr_eqb_refl in *. simpl in *.
    destruct (str_ltb_total x x') as [H|[H|H]]; congruence.
Qed.

Lemma key_lt_negtrans : forall a b c, key_lt a b = false -> key_lt b c = false -> key_lt a c = false.
Proof.
  intros a b c H1 H2. destruct (key_lt a c) eqn:E; auto.
  destruct (key_lt b a) eqn:E2.
  - rewrite (key_lt_trans _ _ _ E2 E) in H2. discriminate.
  - pose proof (key_lt_total _ _ H1 E2) as T.
    destruct a as [r s|q|z e|l x], b as [r' s'|q'|z' e'|l' x']; cbn [key_eqv] in T;
      try (subst; congruence); try discriminate T.
    (* two spellings of one number *)
    destruct c as [r'' s''|q''|z'' e''|l'' x'']; simpl in *; try congruence.
    unfold num_ltb in *. apply Z.ltb_lt in E. apply Z.ltb_ge in H2.
    pose proof (pow10_pos e). pose proof (pow10_pos e'). pose proof (pow10_pos e''). nia.
Qed.

(* --- term_lt is key_lt through skey_of --- *)
Lemma int_before_string : str_ltb xsd_integer xsd_string = true /\ str_ltb xsd_string xsd_integer = false
                          /\ str_eqb xsd_string xsd_integer = false /\ str_eqb xsd_integer xsd_string = false.
Proof. vm_compute. auto. Qed.

Lemma bool_before_all :
  str_ltb xsd_boolean xsd_integer = true /\ str_ltb xsd_integer xsd_boolean = false
  /\ str_ltb xsd_boolean xsd_string = true /\ str_ltb xsd_string xsd_boolean = false
  /\ str_eqb xsd_boolean xsd_integer = false /\ str_eqb xsd_integer xsd_boolean = false
  /\ str_eqb xsd_boolean xsd_string = false /\ str_eqb xsd_string xsd_boolean = false.
Proof. vm_compute. repeat split; reflexivity. Qed.

Lemma between_facts : forall d, between d ->
  str_ltb d xsd_string = true /\ str_ltb xsd_string d = false /\ str_eqb d xsd_string = false /\ str_eqb xsd_string d = false
  /\ str_ltb xsd_boolean d = true /\ str_ltb d xsd_boolean = false /\ str_eqb d xsd_boolean = false /\ str_eqb xsd_boolean d = false.
Proof.
  intros d [B S].
  assert (forall x y, str_ltb x y = true -> str_eqb x y = false /\ str_eqb y x = false) as NE.
  { intros x y H. split.
    - destruct (str_eqb x y) eqn:E; auto. apply str_eqb_eq in E. subst. rewrite str_ltb_irrefl in H. discriminate.
    - destruct (str_eqb y x) eqn:E; auto. apply str_eqb_eq in E. subst. rewrite str_ltb_irrefl in H. discriminate. }
  destruct (NE _ _ S) as [A1 A2]. destruct (NE _ _ B) as [A3 A4].
  repeat split; auto using str_ltb_asym.
Qed.

Lemma class_num_facts : forall lex dt lang m e, lit_class lex dt lang = CNum m e ->
  let d := dt_or_string dt in
  str_ltb d xsd_string = true /\ str_ltb xsd_string d = false /\ str_eqb d xsd_string = false /\ str_eqb xsd_string d = false
  /\ str_ltb xsd_boolean d = true /\ str_ltb d xsd_boolean = false /\ str_eqb d xsd_boolean = false /\ str_eqb xsd_boolean d = false.
Proof.
  intros lex dt lang m e H. destruct (class_num_dt _ _ _ _ _ H) as [d [E B]]. subst. apply between_facts. exact B.
Qed.

Lemma class_bool_dtkey : forall lex dt lang b, lit_class lex dt lang = CBool b -> dt_or_string dt = xsd_boolean.
Proof. intros lex dt lang b H. rewrite (class_bool_dt _ _ _ _ H). reflexivity. Qed.

Lemma class_str_dtkey : forall lex dt lang, lit_class lex dt lang = CStr -> dt_or_string dt = xsd_string.
Proof. intros lex dt lang H. destruct (class_str_dt _ _ _ H); subst; reflexivity. Qed.

Lemma lit_lt_str : forall lex dt lang lex' dt' lang',
  lit_class lex dt lang = CStr -> lit_class lex' dt' lang' = CStr ->
  term_lt (Lit lex dt lang) (Lit lex' dt' lang') = Some (skey_ltb (lang_key lang) lex (lang_key lang') lex').
Proof.
  intros lex dt lang lex' dt' lang' C1 C2.
  cbn [term_lt]. unfold lit_gt. rewrite C1, C2.
  rewrite (class_str_dtkey _ _ _ C1), (class_str_dtkey _ _ _ C2), str_eqb_refl. cbn [negb]. cbv iota.
  unfold skey_ltb.
  destruct (lang_key lang) as [l|], (lang_key lang') as [l'|]; cbn [ostr_eqb olang_ltb negb andb orb].
  - destruct (str_eqb l' l) eqn:E.
    + apply str_eqb_eq in E. subst l'. rewrite str_eqb_refl, str_ltb_irrefl. reflexivity.
    + cbn [negb]. rewrite (str_eqb_sym l l'), E. cbn [andb]. rewrite orb_false_r. reflexivity.
  - reflexivity.
  - reflexivity.
  - reflexivity.
Qed.

Theorem term_lt_key : forall a b, modelled a = true -> modelled b = true ->
  term_lt a b = Some (key_lt (skey_of a) (skey_of b)).
Proof.
  intros a b Ma Mb. destruct int_before_string as [I1 [I2 [I3 I4]]].
  destruct a as [s|s|s|lex dt lang], b as [s'|s'|s'|lex' dt' lang'];
    try (cbn [term_lt skey_of key_lt kind_of rank term_str kind_eqb kind_code]; rewrite ?ord_rank; cbn;
         rewrite ?orb_false_r; reflexivity);
    try (cbn [term_lt skey_of kind_of kind_eqb kind_code]; cbn [N.eqb Pos.eqb]; rewrite ?ord_rank;
         destruct (lit_class lex' dt' lang'); reflexivity);
    try (cbn [term_lt skey_of]; destruct (lit_class lex dt lang); reflexivity).
  - (* two literals *)
    cbn [modelled] in Ma, Mb. cbn [skey_of].
    destruct bool_before_all as [B1 [B2 [B3 [B4 [B5 [B6 [B7 B8]]]]]]].
    destruct (lit_class lex dt lang) as [|x e|x|] eqn:C1; try discriminate;
      destruct (lit_class lex' dt' lang') as [|y e'|y|] eqn:C2; try discriminate.
    + rewrite lit_lt_str by assumption. reflexivity.
    + destruct (class_num_facts _ _ _ _ _ C2) as [N1 [N2 [N3 [N4 _]]]].
      cbn [term_lt]. unfold lit_gt. rewrite C1, C2. rewrite (class_str_dtkey _ _ _ C1), N3, N2. reflexivity.
    + cbn [term_lt]. unfold lit_gt. rewrite C1, C2.
      rewrite (class_str_dtkey _ _ _ C1), (class_bool_dtkey _ _ _ _ C2), B7, B4. reflexivity.
    + destruct (class_num_facts _ _ _ _ _ C1) as [N1 [N2 [N3 [N4 _]]]].
      cbn [term_lt]. unfold lit_gt. rewrite C1, C2. rewrite (class_str_dtkey _ _ _ C2), N4, N1. reflexivity.
    + cbn [term_lt]. unfold lit_gt. rewrite C1, C2. reflexivity.
    + destruct (class_num_facts _ _ _ _ _ C1) as [_ [_ [_ [_ [N5 [N6 [N7 N8]]]]]]].
      cbn [term_lt]. unfold lit_gt. rewrite C1, C2. rewrite (class_bool_dtkey _ _ _ _ C2), N8, N6. reflexivity.
    + cbn [term_lt]. unfold lit_gt. rewrite C1, C2.
      rewrite (class_bool_dtkey _ _ _ _ C1), (class_str_dtkey _ _ _ C2), B8, B3. reflexivity.
    + destruct (class_num_facts _ _ _ _ _ C2) as [_ [_ [_ [_ [N5 [N6 [N7 N8]]]]]]].
      cbn [term_lt]. unfold lit_gt. rewrite C1, C2. rewrite (class_bool_dtkey _ _ _ _ C1), N7, N5. reflexivity.
    + cbn [term_lt]. unfold lit_gt. rewrite C1, C2. cbn [key_lt]. rewrite andb_comm. reflexivity.
Qed.

(* < on modelled terms is a strict weak order *)
Definition tlt (a b : term) : bool := key_lt (skey_of a) (skey_of b).

Theorem tlt_strict_weak_order :
  (forall a, tlt a a = false)
  /\ (forall a b c, tlt a b = true -> tlt b c = true -> tlt a c = true)
  /\ (forall a b c, tlt a b = false -> tlt b c = false -> tlt a c = false)      (* ties are transitive *)
  /\ (forall a b, tlt a b = false -> tlt b a = false -> key_eqv (skey_of a) (skey_of b)).
     (* a tie is: same sort key, or two spellings of one number (1, 1.0, 1.00) *)
Proof.
  unfold tlt. repeat split; intros.
  - apply key_lt_irrefl.
  - eapply key_lt_trans; eauto.
  - eapply key_lt_negtrans; eauto.
  - apply key_lt_total; auto.
Qed.

(* ------------------------------------------------------------------ *)
(* sorted() in the laws suite *)

Lemma lt_self_modelled : forall a, term_lt a a <> None -> modelled a = true.
Proof.
  destruct a as [s|s|s|lex dt lang]; auto. cbn [term_lt modelled]. unfold lit_gt.
  destruct (lit_class lex dt lang); auto; intro H; exfalso; apply H; reflexivity.
Qed.

Lemma list_eqb_nat_refl : forall l, list_eqb Nat.eqb l l = true.
Proof. induction l; simpl; auto. rewrite Nat.eqb_refl. auto. Qed.

Lemma sortedb_of : forall (f g : nat -> nat -> bool) p,
  sorted nat g p -> (forall x y, In x p -> In y p -> f x y = g x y) -> sortedb f p = true.
Proof.
  intros f g p S. induction S as [|x r S IH H]; intro E; auto.
  cbn [sortedb]. apply andb_true_iff. split.
  - apply forallb_forall. intros y Hy. rewrite E by (simpl; auto).
    rewrite Forall_forall in H. unfold noinv in H. rewrite (H y Hy). reflexivity.
  - apply IH. intros; apply E; simpl; auto.
Qed.

Theorem sorted_ok_model : forall c, sorted_ok c (model_obs c) = true.
Proof.
  intros c. unfold sorted_ok, model_obs. cbn [o_lt o_sorted].
  set (ts := c_terms c). set (n := length ts).
  set (L := map (fun a => map (fun b => cmp_of (term_lt a b)) ts) ts).
  destruct (swo_matrix n L) eqn:SW; auto.
  (* every term is modelled, no two tags differ only in case *)
  assert (forall i, (i < n)%nat -> modelled (nth i ts (IRI [])) = true) as MOD.
  { intros i Hi. unfold swo_matrix in SW. repeat (apply andb_true_iff in SW as [SW ?]).
    rewrite forallb_forall in SW. assert (In i (seq 0 n)) as I by (apply in_seq; lia).
    specialize (SW i I). rewrite forallb_forall in SW. specialize (SW i I).
    change (nth i (nth i L []) None) with (nthd L i i None) in SW. unfold L in SW.
    rewrite (nthd_matrix (fun a b => cmp_of (term_lt a b)) ts i i None (IRI [])) in SW by assumption.
    apply lt_self_modelled. destruct (term_lt (nth i ts (IRI [])) (nth i ts (IRI []))); [discriminate|discriminate SW]. }
  assert (sortable ts = true) as SO.
  { unfold sortable. apply forallb_forall. intros a Ha.
    destruct (In_nth ts a (IRI []) Ha) as [i [Hi E]]. subst a. apply MOD. exact Hi. }
  rewrite SO.
  set (g := fun i j => tlt (nth i ts (IRI [])) (nth j ts (IRI []))).
  assert (forall i j, (i < n)%nat -> (j < n)%nat -> mlt_of L i j = g i j) as EQ.
  { intros i j Hi Hj. unfold mlt_of, g, tlt.
    change (nth j (nth i L []) None) with (nthd L i j None). unfold L.
    rewrite (nthd_matrix (fun a b => cmp_of (term_lt a b)) ts i j None (IRI [])) by assumption.
    rewrite term_lt_key; auto. destruct (key_lt _ _); reflexivity. }
  assert (forall i, In i (seq 0 n) -> (i < n)%nat) as RNG by (intros i H; apply in_seq in H; lia).
  assert (isort (mlt_of L) (seq 0 n) = isort g (seq 0 n)) as IS.
  { apply isort_ext. intros a b Ha Hb. apply EQ; auto. }
  rewrite IS. set (p := isort g (seq 0 n)).
  assert (forall a, g a a = false) as G1 by (intro; apply key_lt_irrefl).
  assert (forall a b c0, g a b = true -> g b c0 = true -> g a c0 = true) as G2
    by (unfold g, tlt; intros; eapply key_lt_trans; eauto).
  assert (forall a b c0, g a b = false -> g b c0 = false -> g a c0 = false) as G3
    by (unfold g, tlt; intros; eapply key_lt_negtrans; eauto).
  pose proof (isort_perm nat g (seq 0 n)) as PERM. fold p in PERM.
  pose proof (isort_sorted nat g G1 G2 G3 (seq 0 n)) as SORT. fold p in SORT.
  pose proof (isort_stable nat g G1 G2 G3 (seq 0 n)) as STAB. fold p in STAB.
  assert (forall i, In i p -> (i < n)%nat) as RP by (intros i H; apply RNG; apply (Permutation_in _ PERM); exact H).
  repeat (apply andb_true_iff; split).
  - apply Nat.eqb_eq. rewrite (Permutation_length PERM). apply seq_length.
  - apply forallb_forall. intros i Hi. apply existsb_exists. exists i. split; [|apply Nat.eqb_refl].
    apply (Permutation_in _ (Permutation_sym PERM)). exact Hi.
  - apply (sortedb_of (mlt_of L) g p SORT). intros x y Hx Hy. apply EQ; auto.
  - unfold stableb. apply forallb_forall. intros x Hx.
    assert (forall l, (forall y, In y l -> (y < n)%nat) -> filter (tieb (mlt_of L) x) l = filter (tie nat g x) l) as FE.
    { intros l Hl. apply filter_ext_in. intros y Hy. unfold tieb, tie.
      rewrite !EQ by auto. reflexivity. }
    rewrite (FE p RP), (FE (seq 0 n) RNG). rewrite (STAB x). apply list_eqb_nat_refl.
Qed.

(* the family clauses hold for the model on EVERY triple, by the key order *)
Lemma is_lt_tlt : forall a b, same_family a b = true -> is_lt (cmp_of (term_lt a b)) = true ->
  modelled a = true /\ modelled b = true /\ tlt a b = true.
Proof.
  intros a b F H.
  assert (modelled a = true /\ modelled b = true) as [Ma Mb].
  { destruct a as [s|s|s|lex dt lang], b as [s'|s'|s'|lex' dt' lang']; try discriminate F.
    cbn [term_lt] in H. unfold lit_gt in H. cbn [modelled].
    destruct (lit_class lex dt lang), (lit_class lex' dt' lang'); auto; discriminate H. }
  repeat split; auto. rewrite (term_lt_key a b Ma Mb) in H. unfold tlt.
  destruct (key_lt (skey_of a) (skey_of b)); auto; discriminate H.
Qed.

Lemma tlt_is_lt : forall a b, modelled a = true -> modelled b = true ->
  is_lt (cmp_of (term_lt a b)) = tlt a b.
Proof. intros a b Ma Mb. rewrite (term_lt_key a b Ma Mb). unfold tlt. destruct (key_lt _ _); reflexivity. Qed.

Lemma family_ok_model : forall ts,
  family_ok ts (map (fun a => map (fun b => cmp_of (term_lt a b)) ts) ts) = true.
Proof.
  intro ts. unfold family_ok. apply andb_true_iff. split.
  - all_idx. all_idx.
    rewrite (nthd_matrix (fun a b => cmp_of (term_lt a b)) ts i i0 None (IRI [])),
            (nthd_matrix (fun a b => cmp_of (term_lt a b)) ts i0 i None (IRI [])) by assumption.
    destruct (same_family (nth i ts (IRI [])) (nth i0 ts (IRI []))) eqn:F; auto. cbn [implb].
    destruct (is_lt (cmp_of (term_lt (nth i ts (IRI [])) (nth i0 ts (IRI []))))) eqn:A; auto.
    destruct (is_lt (cmp_of (term_lt (nth i0 ts (IRI [])) (nth i ts (IRI []))))) eqn:B; auto.
    apply (is_lt_tlt _ _ F) in A as [_ [_ A]]. apply (is_lt_tlt _ _ (same_family_sym _ _ F)) in B as [_ [_ B]]. unfold tlt in *.
    pose proof (key_lt_trans _ _ _ A B) as X. rewrite key_lt_irrefl in X. discriminate.
  - all_idx. all_idx. all_idx.
    rewrite (nthd_matrix (fun a b => cmp_of (term_lt a b)) ts i i0 None (IRI [])),
            (nthd_matrix (fun a b => cmp_of (term_lt a b)) ts i0 i1 None (IRI [])),
            (nthd_matrix (fun a b => cmp_of (term_lt a b)) ts i i1 None (IRI [])) by assumption.
    destruct (same_family (nth i ts (IRI [])) (nth i0 ts (IRI []))) eqn:F1; auto.
    destruct (same_family (nth i0 ts (IRI [])) (nth i1 ts (IRI []))) eqn:F2; auto. cbn [andb implb].
    destruct (is_lt (cmp_of (term_lt (nth i ts (IRI [])) (nth i0 ts (IRI []))))) eqn:A; auto.
    destruct (is_lt (cmp_of (term_lt (nth i0 ts (IRI [])) (nth i1 ts (IRI []))))) eqn:B; auto.
    cbn [andb implb].
    apply (is_lt_tlt _ _ F1) in A as [Ma [_ A]]. apply (is_lt_tlt _ _ F2) in B as [_ [Mc B]].
    rewrite (tlt_is_lt _ _ Ma Mc). unfold tlt in *. eapply key_lt_trans; eauto.
Qed.

(* the tie of the whole laws suite *)
Theorem spec_ok_model : forall c, hwf c = true -> spec_ok c (model_obs c) = true.
Proof.
  intros c HW. unfold spec_ok.
  assert (hash_present (model_obs c) = true) as HP.
  { unfold hash_present, model_obs. cbn [o_hash]. unfold hwf in HW. rewrite forallb_forall in *.
    intros h Hh. apply in_map_iff in Hh as [t [E Ht]]. subst h. apply (HW t Ht). }
  rewrite (spec_base_model c), ne_ok_model, (sorted_ok_model c), ops_ok_model, HP, !andb_true_r.
  unfold model_obs. cbn [o_lt]. apply family_ok_model.
Qed.

(* reading of the sorted() clause *)
Lemma list_eqb_nat_eq : forall a b, list_eqb Nat.eqb a b = true -> a = b.
Proof.
  induction a as [|x a IH]; destruct b as [|y b]; simpl; intro H; try discriminate; auto.
  apply andb_true_iff in H as [H1 H2]. apply Nat.eqb_eq in H1. f_equal; auto.
Qed.

Lemma sortedb_sorted : forall f p, sortedb f p = true -> sorted nat f p.
Proof.
  intros f p. induction p as [|x r IH]; intro H; [constructor|].
  cbn [sortedb] in H. apply andb_true_iff in H as [H1 H2]. constructor; [apply IH; exact H2|].
  apply Forall_forall. intros y Hy. rewrite forallb_forall in H1. specialize (H1 y Hy).
  apply negb_true_iff in H1. exact H1.
Qed.

Lemma sorted_ok_reads : forall c o, spec_ok c o = true ->
  let n := length (c_terms c) in let f := mlt_of (o_lt o) in
  swo_matrix n (o_lt o) = true ->
  exists p, o_sorted o = Some (Some p)
    /\ length p = n /\ (forall i, (i < n)%nat -> In i p)                   (* a permutation of the input positions *)
    /\ sorted nat f p                                                        (* nothing later is less than something earlier *)
    /\ (forall x, (x < n)%nat -> filter (tie nat f x) p = filter (tie nat f x) (seq 0 n)).  (* ties keep their input order *)
Proof.
  intros c o H n f SW. unfold spec_ok in H. apply andb_true_iff in H as [H _]. apply andb_true_iff in H as [H _]. apply andb_true_iff in H as [_ H].
  unfold sorted_ok in H. fold n in H. rewrite SW in H.
  destruct (o_sorted o) as [[p|]|]; try discriminate. exists p. split; auto.
  apply andb_true_iff in H as [H H3]. apply andb_true_iff in H as [H1 H2].
  unfold is_perm in H1. apply andb_true_iff in H1 as [HL HI].
  split; [apply Nat.eqb_eq; exact HL|]. split; [|split].
  - intros i Hi. rewrite forallb_forall in HI. assert (In i (seq 0 n)) as I by (apply in_seq; lia).
    specialize (HI i I). apply existsb_exists in HI as [y [Hy E]]. apply Nat.eqb_eq in E. subst. exact Hy.
  - apply sortedb_sorted. exact H2.
  - intros x Hx. unfold stableb in H3. rewrite forallb_forall in H3.
    assert (In x (seq 0 n)) as I by (apply in_seq; lia). specialize (H3 x I).
    apply list_eqb_nat_eq in H3. exact H3.
Qed.

Lemma spec_ok_hash_reads : forall c o, spec_ok c o = true ->
  forall i, (i < length (c_terms c))%nat -> exists h, nth i (o_hash o) None = Some h.
Proof.
  intros c o H i Hi. unfold spec_ok in H. apply andb_true_iff in H as [H HP].
  do 4 (apply andb_true_iff in H as [H _]). unfold spec_base in H.
  repeat (apply andb_true_iff in H as [H ?]).
  assert (length (o_hash o) = length (c_terms c)) as L.
  { match goal with X : Nat.eqb (length (o_hash o)) _ = true |- _ => apply Nat.eqb_eq in X; exact X end. }
  unfold hash_present in HP. rewrite forallb_forall in HP.
  assert (In (nth i (o_hash o) None) (o_hash o)) as I by (apply nth_In; lia).
  specialize (HP _ I). destruct (nth i (o_hash o) None); [eauto|discriminate].
Qed.

(* the conformance flags (computed by the harness, named in Term/Model.v): the checker rejects an observation in which
   any of them is false *)
Lemma spec_ok_flags_reads : forall c o, spec_ok c o = true -> ~ In (Some false) (o_flags o).
Proof.
  intros c o H. unfold spec_ok in H. do 5 (apply andb_true_iff in H as [H _]). unfold spec_base in H.
  apply andb_true_iff in H as [_ H]. intro Hin. rewrite forallb_forall in H. specialize (H _ Hin). discriminate.
Qed.
