(* Proofs about the term model (coq/Term/Model.v). *)
From Coq Require Import Lia.
From RV Require Import Term.Model.
Local Open Scope N_scope.

(* ------------------------------------------------------------------ *)
(* strings *)

Lemma str_eqb_eq : forall a b, str_eqb a b = true <-> a = b.
Proof.
  induction a as [|x a IH]; destruct b as [|y b]; simpl; split; intro H; try congruence; try discriminate.
  - apply andb_true_iff in H as [H1 H2]. apply N.eqb_eq in H1. apply IH in H2. congruence.
  - inversion H; subst. rewrite N.eqb_refl. simpl. apply IH. reflexivity.
Qed.

Lemma str_eqb_refl : forall a, str_eqb a a = true.
Proof. intro a. apply str_eqb_eq. reflexivity. Qed.

Lemma str_eqb_sym : forall a b, str_eqb a b = str_eqb b a.
Proof.
  intros a b. destruct (str_eqb a b) eqn:E.
  - apply str_eqb_eq in E. subst. symmetry. apply str_eqb_refl.
  - destruct (str_eqb b a) eqn:E2; auto. apply str_eqb_eq in E2. subst. rewrite str_eqb_refl in E. discriminate.
Qed.

Lemma ostr_eqb_eq : forall a b, ostr_eqb a b = true <-> a = b.
Proof.
  destruct a, b; simpl; split; intro H; try congruence; try discriminate.
  - apply str_eqb_eq in H. congruence.
  - inversion H. apply str_eqb_refl.
Qed.

Lemma ostr_eqb_refl : forall a, ostr_eqb a a = true.
Proof. intro. apply ostr_eqb_eq. reflexivity. Qed.

(* Python's < on str is a strict total order *)
Lemma str_ltb_irrefl : forall a, str_ltb a a = false.
Proof. induction a; simpl; auto. rewrite N.ltb_irrefl, N.eqb_refl. auto. Qed.

Lemma str_ltb_trans : forall a b c, str_ltb a b = true -> str_ltb b c = true -> str_ltb a c = true.
Proof.
  induction a as [|x a IH]; destruct b as [|y b]; destruct c as [|z c]; simpl; intros H1 H2; try discriminate; auto.
  destruct (N.ltb x y) eqn:Exy.
  - apply N.ltb_lt in Exy. destruct (N.ltb y z) eqn:Eyz.
    + apply N.ltb_lt in Eyz. assert (x < z) by lia. apply N.ltb_lt in H. rewrite H. auto.
    + destruct (N.eqb y z) eqn:Eq; try discriminate. apply N.eqb_eq in Eq. subst.
      apply N.ltb_lt in Exy. rewrite Exy. auto.
  - destruct (N.eqb x y) eqn:Eq; try discriminate. apply N.eqb_eq in Eq. subst.
    destruct (N.ltb y z); auto. destruct (N.eqb y z); try discriminate. eauto.
Qed.

Lemma str_ltb_total : forall a b, str_ltb a b = true \/ a = b \/ str_ltb b a = true.
Proof.
  induction a as [|x a IH]; destruct b as [|y b]; simpl; auto.
  destruct (N.ltb x y) eqn:Exy; auto.
  destruct (N.eqb x y) eqn:Eq.
  - apply N.eqb_eq in Eq. subst. rewrite N.ltb_irrefl, N.eqb_refl.
    destruct (IH b) as [H|[H|H]]; auto. subst. auto.
  - right. right. apply N.ltb_ge in Exy. apply N.eqb_neq in Eq.
    assert (y < x) by lia. apply N.ltb_lt in H. rewrite H. auto.
Qed.

Lemma str_ltb_asym : forall a b, str_ltb a b = true -> str_ltb b a = false.
Proof.
  intros a b H. destruct (str_ltb b a) eqn:E; auto.
  pose proof (str_ltb_trans _ _ _ H E) as T. rewrite str_ltb_irrefl in T. discriminate.
Qed.

(* ------------------------------------------------------------------ *)
(* equality of terms *)

Lemma kind_eqb_eq : forall a b, kind_eqb a b = true <-> a = b.
Proof. destruct a, b; simpl; split; intro; try reflexivity; try discriminate. Qed.

Lemma term_eqb_key : forall a b, term_eqb a b = key_same a b.
Proof.
  destruct a as [s|s|s|lex dt lang], b as [s'|s'|s'|lex' dt' lang']; unfold key_same; simpl; rewrite ?andb_true_r; auto.
  destruct (str_eqb lex lex'); simpl; rewrite ?andb_true_r, ?andb_false_r; reflexivity.
Qed.

Lemma term_eqb_refl : forall a, term_eqb a a = true.
Proof. destruct a; simpl; rewrite ?str_eqb_refl, ?ostr_eqb_refl; auto. Qed.

Lemma term_eqb_sym : forall a b, term_eqb a b = term_eqb b a.
Proof.
  destruct a as [s|s|s|lex dt lang], b as [s'|s'|s'|lex' dt' lang']; simpl; auto using str_eqb_sym.
  rewrite (str_eqb_sym lex lex'). f_equal. f_equal.
  - destruct (ostr_eqb dt dt') eqn:E.
    + apply ostr_eqb_eq in E. subst. symmetry. apply ostr_eqb_refl.
    + destruct (ostr_eqb dt' dt) eqn:E2; auto. apply ostr_eqb_eq in E2. subst. rewrite ostr_eqb_refl in E. discriminate.
  - destruct (ostr_eqb (lang_key lang) (lang_key lang')) eqn:E.
    + apply ostr_eqb_eq in E. rewrite E. symmetry. apply ostr_eqb_refl.
    + destruct (ostr_eqb (lang_key lang') (lang_key lang)) eqn:E2; auto.
      apply ostr_eqb_eq in E2. rewrite E2, ostr_eqb_refl in E. discriminate.
Qed.

(* what == decides *)
Lemma term_eqb_true : forall a b, term_eqb a b = true <->
  kind_of a = kind_of b /\ term_str a = term_str b /\
  match a, b with
  | Lit _ dt lang, Lit _ dt' lang' => dt = dt' /\ lang_key lang = lang_key lang'
  | _, _ => True
  end.
Proof.
  destruct a, b; simpl; split; intro H; try discriminate;
    try (destruct H as [H _]; discriminate);
    try (apply str_eqb_eq in H; subst; auto);
    try (destruct H as [_ [H _]]; subst; apply str_eqb_refl).
  - apply andb_true_iff in H as [H H3]. apply andb_true_iff in H as [H1 H2].
    apply ostr_eqb_eq in H1, H2. apply str_eqb_eq in H3. subst. auto.
  - destruct H as [_ [H1 [H2 H3]]]. subst. rewrite H3, !ostr_eqb_refl, str_eqb_refl. auto.
Qed.

Lemma term_eqb_trans : forall a b c, term_eqb a b = true -> term_eqb b c = true -> term_eqb a c = true.
Proof.
  intros a b c H1 H2. apply term_eqb_true in H1, H2. apply term_eqb_true.
  destruct H1 as [K1 [S1 R1]], H2 as [K2 [S2 R2]].
  split; [congruence|split; [congruence|]].
  destruct a, b, c; simpl in *; try discriminate; auto.
  destruct R1, R2. split; congruence.
Qed.

Lemma term_eqb_kinds : forall a b, kind_of a <> kind_of b -> term_eqb a b = false.
Proof. intros a b H. destruct (term_eqb a b) eqn:E; auto. apply term_eqb_true in E. tauto. Qed.

Lemma strings_of_eq : forall a b, term_eqb a b = true -> strings_of a = strings_of b.
Proof.
  intros a b H. apply term_eqb_true in H. destruct H as [K [S R]].
  destruct a, b; simpl in *; try discriminate; try congruence.
  destruct R as [R1 R2]. subst. rewrite R2. reflexivity.
Qed.

Lemma term_hash_eq : forall (h : str -> Z) a b, term_eqb a b = true -> term_hash h a = term_hash h b.
Proof.
  intros h a b H. apply term_eqb_true in H. destruct H as [K [S R]].
  destruct a, b; simpl in *; try discriminate; try congruence.
  destruct R as [R1 R2]. subst. rewrite R2. reflexivity.
Qed.

Lemma hash_of_eq : forall tab a b, term_eqb a b = true -> hash_of tab a = hash_of tab b.
Proof.
  intros tab a b H. unfold hash_of. rewrite (strings_of_eq _ _ H).
  rewrite (term_hash_eq _ _ _ H). reflexivity.
Qed.

(* language tags: case does not matter (ASCII tags) *)
Lemma lower_idem : forall s, lower (lower s) = lower s.
Proof.
  induction s; simpl; auto. rewrite IHs. f_equal. unfold lower_char.
  destruct ((65 <=? a) && (a <=? 90)) eqn:E.
  - apply andb_true_iff in E as [E1 E2]. apply N.leb_le in E1, E2.
    replace ((65 <=? a + 32) && (a + 32 <=? 90)) with false; auto.
    symmetry. apply andb_false_iff. right. apply N.leb_gt. lia.
  - rewrite E. reflexivity.
Qed.

Lemma lang_case : forall lex dt l l',
  lower l = lower l' -> term_eqb (Lit lex dt (Some l)) (Lit lex dt (Some l')) = true.
Proof.
  intros lex dt l l' H. apply term_eqb_true. simpl. repeat split; auto.
  destruct l, l'; simpl in *; try discriminate; auto. rewrite H. reflexivity.
Qed.

(* ------------------------------------------------------------------ *)
(* order between kinds, over the reflected _ORDERING table *)

Definition kinds := [KB; KV; KI; KL].
Lemma kinds_all : forall k, In k kinds.
Proof. destruct k; simpl; auto. Qed.

Lemma ord_rank_table :
  forallb (fun a => forallb (fun b => Bool.eqb (N.ltb (ord_of a) (ord_of b)) (N.ltb (rank a) (rank b))) kinds) kinds = true.
Proof. vm_compute. reflexivity. Qed.

Lemma ord_rank : forall a b, N.ltb (ord_of a) (ord_of b) = N.ltb (rank a) (rank b).
Proof.
  intros a b. pose proof ord_rank_table as H.
  rewrite forallb_forall in H. specialize (H a (kinds_all a)).
  rewrite forallb_forall in H. specialize (H b (kinds_all b)).
  apply eqb_prop in H. exact H.
Qed.

Lemma term_lt_required : forall a b v, lt_required a b = Some v -> term_lt a b = Some v.
Proof.
  intros a b v H. unfold lt_required in H.
  destruct a, b; simpl in *; try discriminate; inversion H; subst; clear H;
    try reflexivity; try (rewrite ord_rank; reflexivity).
Qed.

Lemma term_lt_no_raise : forall a b, cmp_of (term_lt a b) <> Some CRaise.
Proof. intros a b. destruct (term_lt a b) as [[|]|]; simpl; discriminate. Qed.

Lemma lt_entry_model : forall a b, lt_entry_ok a b (cmp_of (term_lt a b)) = true.
Proof.
  intros a b. unfold lt_entry_ok. destruct (lt_required a b) as [v|] eqn:E.
  - rewrite (term_lt_required _ _ _ E). destruct v; reflexivity.
  - destruct (term_lt a b) as [[|]|]; reflexivity.
Qed.

(* > , <= , >= when a term that is not a literal is involved *)
Lemma term_gt_required : forall a b v, lt_required b a = Some v -> term_gt a b = Some v.
Proof.
  intros a b v H. unfold lt_required in H.
  destruct a, b; simpl in *; try discriminate; inversion H; subst; clear H;
    try reflexivity; try (rewrite ord_rank; reflexivity).
Qed.

Lemma term_eqv_required : forall a b v, lt_required a b = Some v -> term_eqv a b = Some (key_same a b).
Proof.
  intros a b v H. unfold lt_required in H.
  destruct a, b; try discriminate; cbn [term_eqv]; rewrite ?term_eqb_key; reflexivity.
Qed.

Lemma lt_required_sym : forall a b v, lt_required a b = Some v -> exists w, lt_required b a = Some w.
Proof.
  intros a b v H. unfold lt_required in *. destruct a, b; simpl in *; try discriminate; eauto.
Qed.

Lemma op_entry_some : forall v, op_entry_ok (Some v) (cmp_of (Some v)) = true.
Proof. destruct v; reflexivity. Qed.
Lemma op_entry_none : forall o, op_entry_ok None (cmp_of o) = true.
Proof. destruct o as [[|]|]; reflexivity. Qed.

Lemma ops_entry_model : forall a b,
  op_entry_ok (lt_required b a) (cmp_of (term_gt a b)) = true
  /\ op_entry_lax (option_map (fun v => v || key_same a b) (lt_required a b)) (cmp_of (term_le a b)) = true
  /\ op_entry_lax (option_map (fun v => v || key_same a b) (lt_required b a)) (cmp_of (term_ge a b)) = true.
Proof.
  intros a b. destruct (lt_required a b) as [v|] eqn:E1.
  - destruct (lt_required_sym _ _ _ E1) as [w E2]. rewrite E2. cbn [option_map].
    rewrite (term_gt_required _ _ _ E2). unfold term_le, term_ge.
    rewrite (term_lt_required _ _ _ E1), (term_gt_required _ _ _ E2), (term_eqv_required _ _ _ E1).
    unfold op_entry_lax. rewrite !op_entry_some. auto.
  - assert (lt_required b a = None) as E2.
    { destruct (lt_required b a) as [w|] eqn:E; auto. destruct (lt_required_sym _ _ _ E) as [x X]. congruence. }
    rewrite E2. cbn [option_map op_entry_lax]. rewrite !op_entry_none. auto.
Qed.

(* ------------------------------------------------------------------ *)
(* the matrices of the model *)

Lemma nth_map_in : forall {A B} (f : A -> B) l i d d', (i < length l)%nat -> nth i (map f l) d' = f (nth i l d).
Proof.
  intros A B f l. induction l; simpl; intros i d d' H; [lia|].
  destruct i; auto. apply IHl. lia.
Qed.

Lemma nthd_matrix : forall {B} (f : term -> term -> B) ts i j d t0,
  (i < length ts)%nat -> (j < length ts)%nat ->
  nthd (map (fun a => map (f a) ts) ts) i j d = f (nth i ts t0) (nth j ts t0).
Proof.
  intros B f ts i j d t0 Hi Hj. unfold nthd.
  rewrite (nth_map_in (fun a => map (f a) ts) ts i t0 []) by exact Hi.
  rewrite (nth_map_in (f (nth i ts t0)) ts j t0 d) by exact Hj. reflexivity.
Qed.

Lemma in_idx : forall ts i, In i (idx ts) -> (i < length ts)%nat.
Proof. intros ts i H. unfold idx in H. apply in_seq in H. lia. Qed.

Lemma shape_matrix : forall {B} (f : term -> term -> B) ts,
  shape_ok (length ts) (map (fun a => map (f a) ts) ts) = true.
Proof.
  intros. unfold shape_ok. rewrite map_length, Nat.eqb_refl. simpl.
  apply forallb_forall. intros r H. apply in_map_iff in H as [a [H _]]. subst.
  rewrite map_length. apply Nat.eqb_refl.
Qed.

Ltac all_idx := apply forallb_forall; let i := fresh "i" in let H := fresh "Hi" in intros i H; apply in_idx in H.

Theorem spec_base_model : forall c, spec_base c (model_obs c) = true.
Proof.
  intros c. unfold spec_base, model_obs. cbn [o_eq o_hash o_lt o_flags]. cbn [forallb andb].
  set (ts := c_terms c).
  rewrite !shape_matrix, map_length, Nat.eqb_refl. cbn [andb].
  rewrite andb_true_r.
  repeat (apply andb_true_iff; split).
  - all_idx. all_idx. rewrite (nthd_matrix term_eqb ts i i0 false (IRI [])) by assumption.
    rewrite term_eqb_key. apply eqb_reflx.
  - all_idx. rewrite (nthd_matrix term_eqb ts i i false (IRI [])) by assumption. apply term_eqb_refl.
  - all_idx. all_idx.
    rewrite (nthd_matrix term_eqb ts i i0 false (IRI [])), (nthd_matrix term_eqb ts i0 i false (IRI [])) by assumption.
    rewrite term_eqb_sym. apply eqb_reflx.
  - all_idx. all_idx. all_idx.
    rewrite (nthd_matrix term_eqb ts i i0 false (IRI [])), (nthd_matrix term_eqb ts i0 i1 false (IRI [])),
            (nthd_matrix term_eqb ts i i1 false (IRI [])) by assumption.
    destruct (term_eqb (nth i ts (IRI [])) (nth i0 ts (IRI []))) eqn:E1; auto.
    destruct (term_eqb (nth i0 ts (IRI [])) (nth i1 ts (IRI []))) eqn:E2; auto.
    simpl. rewrite (term_eqb_trans _ _ _ E1 E2). reflexivity.
  - all_idx. all_idx. rewrite (nthd_matrix term_eqb ts i i0 false (IRI [])) by assumption.
    destruct (term_eqb (nth i ts (IRI [])) (nth i0 ts (IRI []))) eqn:E1; auto. simpl.
    rewrite (nth_map_in (hash_of (c_hash c)) ts i (IRI []) None), (nth_map_in (hash_of (c_hash c)) ts i0 (IRI []) None) by assumption.
    rewrite (hash_of_eq _ _ _ E1). destruct (hash_of (c_hash c) (nth i0 ts (IRI []))); auto. apply Z.eqb_refl.
  - all_idx. all_idx.
    rewrite (nthd_matrix (fun a b => cmp_of (term_lt a b)) ts i i0 None (IRI [])) by assumption.
    apply lt_entry_model.
Qed.

(* ------------------------------------------------------------------ *)
(* < inside one datatype family: on the modelled literals it is a strict order *)

Lemma str_ltb_neg : forall a b, negb (str_ltb b a) && negb (str_eqb a b) = str_ltb a b.
Proof.
  intros a b. destruct (str_ltb_total a b) as [H|[H|H]].
  - rewrite H, (str_ltb_asym _ _ H). destruct (str_eqb a b) eqn:E; auto.
    apply str_eqb_eq in E. subst. rewrite str_ltb_irrefl in H. discriminate.
  - subst. rewrite str_ltb_irrefl, str_eqb_refl. reflexivity.
  - rewrite H, (str_ltb_asym _ _ H). reflexivity.
Qed.

Lemma str_ltb_neg_ne : forall a b, str_eqb a b = false -> negb (str_ltb b a) = str_ltb a b.
Proof. intros a b H. rewrite <- (str_ltb_neg a b), H. simpl. rewrite andb_true_r. reflexivity. Qed.

Definition olang_ltb (a b : option str) : bool :=
  match a, b with
  | None, Some _ => true
  | Some x, Some y => str_ltb x y
  | _, _ => false
  end.
Definition skey_ltb (l : option str) (lex : str) (l' : option str) (lex' : str) : bool :=
  olang_ltb l l' || (ostr_eqb l l' && str_ltb lex lex').

Lemma string_not_integer : str_eqb xsd_string xsd_integer = false.
Proof. vm_compute. reflexivity. Qed.

(* a datatype IRI that sorts between xsd:boolean and xsd:string *)
Definition between (d : str) : Prop := str_ltb xsd_boolean d = true /\ str_ltb d xsd_string = true.

Lemma frag_int_between : forall d b, int_type_get d frag_int_types = Some b -> between d.
Proof.
  intros d b. unfold frag_int_types. induction int_value_types as [|[d' b'] r IH]; cbn [filter fst]; [discriminate|].
  destruct (str_ltb xsd_boolean d' && str_ltb d' xsd_string) eqn:C; auto.
  cbn [int_type_get]. destruct (str_eqb d d') eqn:E; auto.
  intros _. apply str_eqb_eq in E. subst. apply andb_true_iff in C. exact C.
Qed.

Lemma decimal_between : between xsd_decimal.
Proof. split; vm_compute; reflexivity. Qed.

Lemma class_dt : forall lex dt lang,
  match lit_class lex dt lang with
  | CStr => dt = None \/ dt = Some xsd_string
  | CNum _ _ => exists d, dt = Some d /\ between d
  | CBool _ => dt = Some xsd_boolean
  | COther => True
  end.
Proof.
  intros lex dt lang. unfold lit_class.
  destruct lang as [[|x l]|]; auto; destruct dt as [d|]; auto;
    (destruct (str_eqb d xsd_string) eqn:E1; [apply str_eqb_eq in E1; subst; auto|]);
    (destruct (int_type_get d frag_int_types) as [b|] eqn:E2;
      [destruct (parse_int lex); auto; destruct (in_bounds z b); auto; exists d; split; auto; eapply frag_int_between; eauto|]);
    (destruct (str_eqb d xsd_decimal) eqn:E4;
      [apply str_eqb_eq in E4; subst; destruct (parse_dec lex) as [[? ?]|]; auto; exists xsd_decimal; split; auto; apply decimal_between|]);
    (destruct (str_eqb d xsd_boolean) eqn:E3; [apply str_eqb_eq in E3; subst; destruct (parse_bool lex); auto|]); auto.
Qed.

Lemma class_str_dt : forall lex dt lang, lit_class lex dt lang = CStr -> dt = None \/ dt = Some xsd_string.
Proof. intros lex dt lang H. pose proof (class_dt lex dt lang) as X. rewrite H in X. exact X. Qed.

Lemma class_num_dt : forall lex dt lang m e, lit_class lex dt lang = CNum m e -> exists d, dt = Some d /\ between d.
Proof. intros lex dt lang m e H. pose proof (class_dt lex dt lang) as X. rewrite H in X. exact X. Qed.

Lemma class_bool_dt : forall lex dt lang b, lit_class lex dt lang = CBool b -> dt = Some xsd_boolean.
Proof. intros lex dt lang b H. pose proof (class_dt lex dt lang) as X. rewrite H in X. exact X. Qed.

Lemma class_str_lang : forall lex dt lang, lit_class lex dt lang = CStr -> lang <> Some [].
Proof. intros lex dt lang H E. subst. discriminate. Qed.

Lemma lower_nil : forall s, lower s = [] -> s = [].
Proof. destruct s; simpl; auto; discriminate. Qed.

Lemma olang_ltb_irrefl : forall a, olang_ltb a a = false.
Proof. destruct a; simpl; auto using str_ltb_irrefl. Qed.

Lemma olang_ltb_trans : forall a b c, olang_ltb a b = true -> olang_ltb b c = true -> olang_ltb a c = true.
Proof. destruct a, b, c; simpl; intros; try discriminate; eauto using str_ltb_trans. Qed.

Lemma skey_ltb_trans : forall l1 x1 l2 x2 l3 x3,
  skey_ltb l1 x1 l2 x2 = true -> skey_ltb l2 x2 l3 x3 = true -> skey_ltb l1 x1 l3 x3 = true.
Proof.
  unfold skey_ltb. intros l1 x1 l2 x2 l3 x3 H1 H2.
  apply orb_true_iff in H1. apply orb_true_iff in H2. apply orb_true_iff.
  destruct H1 as [H1|H1], H2 as [H2|H2].
  - left. eauto using olang_ltb_trans.
  - apply andb_true_iff in H2 as [E _]. apply ostr_eqb_eq in E. subst. auto.
  - apply andb_true_iff in H1 as [E _]. apply ostr_eqb_eq in E. subst. auto.
  - apply andb_true_iff in H1 as [E1 A]. apply andb_true_iff in H2 as [E2 B].
    apply ostr_eqb_eq in E1, E2. subst. right. rewrite ostr_eqb_refl. simpl. eauto using str_ltb_trans.
Qed.

Lemma skey_ltb_irrefl : forall l x, skey_ltb l x l x = false.
Proof. intros. unfold skey_ltb. rewrite olang_ltb_irrefl, str_ltb_irrefl, andb_false_r. reflexivity. Qed.

Lemma same_family_sym : forall a b, same_family a b = true -> same_family b a = true.
Proof.
  intros a b H. unfold same_family in *. apply andb_true_iff in H as [H P2]. apply andb_true_iff in H as [H P1].
  rewrite P1, P2, !andb_true_r. destruct a, b; try discriminate. cbn [same_dt] in *.
  apply ostr_eqb_eq in H. subst. apply ostr_eqb_refl.
Qed.

Lemma same_family_trans : forall a b c, same_family a b = true -> same_family b c = true -> same_family a c = true.
Proof.
  intros a b c H1 H2. unfold same_family in *.
  apply andb_true_iff in H1 as [H1 Pb]. apply andb_true_iff in H1 as [H1 Pa].
  apply andb_true_iff in H2 as [H2 Pc]. apply andb_true_iff in H2 as [H2 _].
  rewrite Pa, Pc, !andb_true_r. destruct a, b, c; try discriminate. cbn [same_dt] in *.
  apply ostr_eqb_eq in H1, H2. subst. apply ostr_eqb_refl.
Qed.

Lemma ne_ok_model : forall c, ne_ok c (model_obs c) = true.
Proof.
  intro c. unfold ne_ok, model_obs. cbn [o_ne o_eq]. set (ts := c_terms c).
  rewrite shape_matrix. cbn [andb]. all_idx. all_idx.
  rewrite (nthd_matrix (fun a b => negb (term_eqb a b)) ts i i0 false (IRI [])) by assumption.
  rewrite (nthd_matrix term_eqb ts i i0 false (IRI [])) by assumption. apply eqb_reflx.
Qed.

Lemma ops_ok_model : forall c, ops_ok c (model_obs c) = true.
Proof.
  intro c. unfold ops_ok, model_obs. cbn [o_gt o_le o_ge]. set (ts := c_terms c).
  rewrite !shape_matrix. cbn [andb]. all_idx. all_idx.
  rewrite (nthd_matrix (fun a b => cmp_of (term_gt a b)) ts i i0 None (IRI [])) by assumption.
  rewrite (nthd_matrix (fun a b => cmp_of (term_le a b)) ts i i0 None (IRI [])) by assumption.
  rewrite (nthd_matrix (fun a b => cmp_of (term_ge a b)) ts i i0 None (IRI [])) by assumption.
  destruct (ops_entry_model (nth i ts (IRI [])) (nth i0 ts (IRI []))) as [A [B C]].
  rewrite A, B, C. reflexivity.
Qed.



(* ------------------------------------------------------------------ *)
(* text suite *)

Lemma term_same_refl : forall t, term_same t t = true.
Proof. destruct t; simpl; rewrite ?str_eqb_refl, ?ostr_eqb_refl; auto. Qed.

Lemma mem_false : forall c s, mem c s = false <-> ~ In c s.
Proof.
  intros c s. unfold mem. split; intro H.
  - intro Hin. assert (existsb (N.eqb c) s = true) as E; [|congruence].
    apply existsb_exists. exists c. split; auto. apply N.eqb_refl.
  - destruct (existsb (N.eqb c) s) eqn:E; auto. apply existsb_exists in E as [x [Hx E]].
    apply N.eqb_eq in E. subst. contradiction.
Qed.

(* replacing a pattern whose first character does not occur changes nothing *)
Lemma replace_absent : forall p pat rep s, ~ In p s -> replace (p :: pat) rep s = s.
Proof.
  intros p pat rep s. unfold replace. induction s as [|c r IH]; intro H; simpl; auto.
  destruct (N.eqb p c) eqn:E.
  - apply N.eqb_eq in E. subst. exfalso. apply H. simpl. auto.
  - simpl. f_equal. apply IH. intro. apply H. simpl. auto.
Qed.

Lemma rsplit1_absent : forall p pat s, ~ In p s -> rsplit1 (p :: pat) s = None.
Proof.
  intros p pat s. induction s as [|c r IH]; intro H; simpl; auto.
  rewrite IH by (intro; apply H; simpl; auto).
  destruct (N.eqb p c) eqn:E; auto. apply N.eqb_eq in E. subst. exfalso. apply H. simpl. auto.
Qed.

Lemma rsplit1_last1 : forall p a suffix, ~ In p suffix -> rsplit1 [p] (a ++ p :: suffix) = Some (a, suffix).
Proof.
  intros p a suffix H. induction a as [|c a IH].
  - cbn [app rsplit1]. rewrite (rsplit1_absent p [] suffix H). simpl. rewrite N.eqb_refl. reflexivity.
  - cbn [app rsplit1]. rewrite IH. reflexivity.
Qed.

(* ------------------------------------------------------------------ *)
(* order: kinds, strings, and "the comparison is defined" on the modelled literals *)

Lemma kind_order : forall a b, kind_of a <> kind_of b ->
  term_lt a b = Some (N.ltb (rank (kind_of a)) (rank (kind_of b))).
Proof.
  intros a b H. destruct a, b; simpl in *; try congruence; rewrite ?ord_rank; reflexivity.
Qed.

Lemma rank_strict_total : forall a b, a <> b ->
  N.ltb (rank a) (rank b) = negb (N.ltb (rank b) (rank a)).
Proof. destruct a, b; intro H; try congruence; reflexivity. Qed.

Lemma same_kind_order : forall a b, kind_of a = kind_of b -> kind_of a <> KL ->
  term_lt a b = Some (str_ltb (term_str a) (term_str b)).
Proof. intros a b H1 H2. destruct a, b; simpl in *; try congruence. Qed.

Lemma lt_defined : forall a b, modelled a = true -> modelled b = true -> term_lt a b <> None.
Proof.
  intros a b Ha Hb.
  destruct a as [s|s|s|lex dt lang], b as [s'|s'|s'|lex' dt' lang']; cbn [term_lt]; try discriminate;
    try (destruct (kind_eqb _ _); discriminate).
  cbn [modelled] in Ha, Hb. unfold lit_gt.
  destruct (lit_class lex dt lang), (lit_class lex' dt' lang'); try discriminate;
    repeat match goal with |- context [if ?x then _ else _] => destruct x end; try discriminate;
    destruct (lang_key lang), (lang_key lang'); discriminate.
Qed.

(* ------------------------------------------------------------------ *)
(* the known findings, on the model *)

Definition from_n3_n3 (o : ctor_oracle) (t : term) : wres :=
  match n3 t with Some s => from_n3 o s | None => WRaise end.

(* the former findings F7b and F7d are gone: backslash-x and variables round-trip *)
Lemma from_n3_fixed_examples :
  from_n3_n3 [] (Lit [92; 120; 52; 49] None None) = WTerm (Lit [92; 120; 52; 49] None None)
  /\ from_n3_n3 [] (Lit [92; 92; 120] None None) = WTerm (Lit [92; 92; 120] None None)
  /\ from_n3_n3 [] (Var [120]) = WTerm (Var [120]).
Proof. vm_compute. auto. Qed.

Lemma from_n3_bs_quote_fixed :
  from_n3_n3 [] (Lit [10; 92; 34] None None) = WTerm (Lit [10; 92; 34] None None)
  /\ from_n3_n3 [] (Lit [92; 34; 10] None None) = WTerm (Lit [92; 34; 10] None None)
  /\ from_n3_n3 [] (Lit [10; 34; 34; 34; 34] None None) = WTerm (Lit [10; 34; 34; 34; 34] None None).
Proof. vm_compute. auto. Qed.

(* ------------------------------------------------------------------ *)
(* what the boolean checkers say *)

Lemma forallb_idx : forall ts f, forallb f (idx ts) = true -> forall i, (i < length ts)%nat -> f i = true.
Proof.
  intros ts f H i Hi. rewrite forallb_forall in H. apply H. unfold idx. apply in_seq. lia.
Qed.

Lemma spec_ok_reads : forall c o, spec_ok c o = true ->
  let ts := c_terms c in
  forall i j, (i < length ts)%nat -> (j < length ts)%nat ->
    let a := nth i ts (IRI []) in let b := nth j ts (IRI []) in
    (* == is sameness of kind, string, datatype and lower-cased tag *)
    nthd (o_eq o) i j false = key_same a b
    (* equal terms have equal hashes *)
    /\ (nthd (o_eq o) i j false = true ->
        match nth i (o_hash o) None, nth j (o_hash o) None with Some x, Some y => x = y | _, _ => True end)
    (* the order between kinds and inside a kind is the required one; two literals never raise *)
    /\ lt_entry_ok a b (nthd (o_lt o) i j None) = true.
Proof.
  intros c o H ts i j Hi Hj a b. unfold spec_ok in H. apply andb_true_iff in H as [H _]. apply andb_true_iff in H as [H _]. apply andb_true_iff in H as [H _]. apply andb_true_iff in H as [H _]. apply andb_true_iff in H as [H _]. unfold spec_base in H. fold ts in H.
  repeat (apply andb_true_iff in H as [H ?]).
  repeat split.
  - pose proof (forallb_idx ts _ H6 i Hi) as X. cbv beta in X.
    pose proof (forallb_idx ts _ X j Hj) as Y. cbv beta in Y. apply eqb_prop in Y. exact Y.
  - intro E. pose proof (forallb_idx ts _ H2 i Hi) as X. cbv beta in X.
    pose proof (forallb_idx ts _ X j Hj) as Y. cbv beta in Y. rewrite E in Y. simpl in Y.
    destruct (nth i (o_hash o) None), (nth j (o_hash o) None); auto. apply Z.eqb_eq. exact Y.
  - pose proof (forallb_idx ts _ H1 i Hi) as X. cbv beta in X.
    exact (forallb_idx ts _ X j Hj).
Qed.

(* the family clauses of the checker, read as propositions *)
Lemma spec_ok_family_reads : forall c o, spec_ok c o = true ->
  let ts := c_terms c in
  let t := fun i => nth i ts (IRI []) in
  let lt := fun i j => nthd (o_lt o) i j None = Some CLt in
  forall i j k, (i < length ts)%nat -> (j < length ts)%nat -> (k < length ts)%nat ->
    same_family (t i) (t j) = true ->
    ~ (lt i j /\ lt j i)
    /\ (same_family (t j) (t k) = true -> lt i j -> lt j k -> lt i k).
Proof.
  intros c o H ts t lt i j k Hi Hj Hk F. unfold spec_ok in H. apply andb_true_iff in H as [H _]. apply andb_true_iff in H as [H _]. apply andb_true_iff in H as [H _]. apply andb_true_iff in H as [H _]. apply andb_true_iff in H as [_ H].
  unfold family_ok in H. fold ts in H. apply andb_true_iff in H as [H1 H2]. unfold lt. split.
  - intros [A B].
    pose proof (forallb_idx ts _ H1 i Hi) as X. cbv beta in X.
    pose proof (forallb_idx ts _ X j Hj) as Y. cbv beta in Y.
    fold (t i) (t j) in Y. rewrite F, A, B in Y. discriminate.
  - intros F2 A B.
    pose proof (forallb_idx ts _ H2 i Hi) as X. cbv beta in X.
    pose proof (forallb_idx ts _ X j Hj) as Y. cbv beta in Y.
    pose proof (forallb_idx ts _ Y k Hk) as Z. cbv beta in Z.
    fold (t i) (t j) (t k) in Z. rewrite F, F2, A, B in Z. cbn in Z.
    destruct (nthd (o_lt o) i k None) as [[| |]|]; try discriminate. reflexivity.
Qed.

(* != on the observed matrices *)
Lemma spec_ok_ne_reads : forall c o, spec_ok c o = true ->
  forall i j, (i < length (c_terms c))%nat -> (j < length (c_terms c))%nat ->
    nthd (o_ne o) i j false = negb (nthd (o_eq o) i j false).
Proof.
  intros c o H i j Hi Hj. unfold spec_ok in H. apply andb_true_iff in H as [H _]. apply andb_true_iff in H as [H _]. apply andb_true_iff in H as [H _]. apply andb_true_iff in H as [_ H]. unfold ne_ok in H.
  apply andb_true_iff in H as [_ H].
  pose proof (forallb_idx (c_terms c) _ H i Hi) as X. cbv beta in X.
  pose proof (forallb_idx (c_terms c) _ X j Hj) as Y. cbv beta in Y. apply eqb_prop in Y. exact Y.
Qed.

(* > <= >= on the observed matrices *)
Lemma spec_ok_ops_reads : forall c o, spec_ok c o = true ->
  let ts := c_terms c in
  forall i j, (i < length ts)%nat -> (j < length ts)%nat ->
    let a := nth i ts (IRI []) in let b := nth j ts (IRI []) in
    op_entry_ok (lt_required b a) (nthd (o_gt o) i j None) = true
    /\ op_entry_lax (option_map (fun v => v || key_same a b) (lt_required a b)) (nthd (o_le o) i j None) = true
    /\ op_entry_lax (option_map (fun v => v || key_same a b) (lt_required b a)) (nthd (o_ge o) i j None) = true.
Proof.
  intros c o H ts i j Hi Hj a b. unfold spec_ok in H. apply andb_true_iff in H as [H _]. apply andb_true_iff in H as [_ H]. unfold ops_ok in H.
  fold ts in H. apply andb_true_iff in H as [_ H].
  pose proof (forallb_idx ts _ H i Hi) as X. cbv beta in X.
  pose proof (forallb_idx ts _ X j Hj) as Y. cbv beta zeta in Y.
  apply andb_true_iff in Y as [Y Y3]. apply andb_true_iff in Y as [Y1 Y2]. auto.
Qed.
