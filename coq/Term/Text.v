(* Proofs for the suite "text": from_n3 inverts n3 on every well-formed term.
   The quoted text n3() writes is the rendering of a list of TOKENS (escaped backslash, escaped quote, escaped
   CR, raw character); each of the four passes of from_n3 (un-escape quotes, protect backslash-x,
   raw-unicode-escape, unicode-escape) is characterised on renderings of token lists. *)
From Coq Require Import Lia.
From RV Require Import Term.Model Term.Proofs.
Local Open Scope N_scope.

Lemma invalid_has : forall c d, In c invalid_uri_chars -> valid_uri d = true -> ~ In c d.
Proof.
  intros c d Hc Hv. unfold valid_uri in Hv. rewrite forallb_forall in Hv.
  specialize (Hv c Hc). apply negb_true_iff in Hv. apply mem_false in Hv. exact Hv.
Qed.

Lemma inv_bs : In bs invalid_uri_chars. Proof. vm_compute. tauto. Qed.

Lemma inv_quote : In 34 invalid_uri_chars. Proof. vm_compute. tauto. Qed.

Lemma inv_caret : In 94 invalid_uri_chars. Proof. vm_compute. tauto. Qed.

Lemma tag_no : forall c l, tag_chars l = true -> (is_alnum c || N.eqb c 45) = false -> ~ In c l.
Proof.
  intros c l H Hc Hin. unfold tag_chars in H. rewrite forallb_forall in H. rewrite (H c Hin) in Hc. discriminate.
Qed.

Lemma removelast_snoc : forall (s : str) c, removelast (s ++ [c]) = s.
Proof. intros. rewrite removelast_app by discriminate. simpl. apply app_nil_r. Qed.

Lemma pickle_same : forall o t, wf_term t = true -> same_strict t (unpickle o t) = true.
Proof.
  intros o t W. destruct t as [s|s|s|lex dt lang]; simpl in *.
  - apply str_eqb_refl.
  - apply str_eqb_refl.
  - apply str_eqb_refl.
  - apply andb_true_iff in W as [_ W]. unfold mk_literal.
    destruct dt as [d|], lang as [l|]; try discriminate.
    + simpl. rewrite !str_eqb_refl. reflexivity.
    + apply andb_true_iff in W as [W1 W2]. destruct l as [|c l]; [discriminate|].
      rewrite W1. simpl. rewrite !str_eqb_refl, N.eqb_refl. reflexivity.
    + simpl. rewrite str_eqb_refl. reflexivity.
Qed.

Lemma prefix_q3_false : forall lex suffix, ~ In 34 lex -> ~ In 34 suffix ->
  prefixb q3 (34 :: lex ++ 34 :: suffix) = false.
Proof.
  intros lex suffix H S. unfold q3. destruct lex as [|c lex]; cbn [app prefixb].
  - rewrite !N.eqb_refl. cbn [andb]. destruct suffix as [|x suffix]; auto.
    destruct (N.eqb 34 x) eqn:E; auto. apply N.eqb_eq in E. subst. exfalso. apply S. simpl. auto.
  - rewrite N.eqb_refl. cbn [andb].
    destruct (N.eqb 34 c) eqn:E; auto. apply N.eqb_eq in E. subst. exfalso. apply H. simpl. auto.
Qed.

Lemma fix_bs_x_absent : forall s, ~ In bs s -> fix_bs_x false s = s.
Proof.
  induction s as [|c r IH]; intro H; auto. cbn [fix_bs_x].
  destruct (N.eqb c bs) eqn:E.
  - apply N.eqb_eq in E. subst. exfalso. apply H. simpl. auto.
  - rewrite andb_false_r. f_equal. apply IH. intro. apply H. simpl. auto.
Qed.

Lemma unesc_quote_absent : forall s, ~ In bs s -> unesc_quote 0 s = s.
Proof.
  induction s as [|c r IH]; intro H; auto. cbn [unesc_quote].
  destruct (N.eqb c bs) eqn:E.
  - apply N.eqb_eq in E. subst. exfalso. apply H. simpl. auto.
  - cbn [Nat.odd]. rewrite andb_false_r. cbn [repeat app]. f_equal. apply IH. intro. apply H. simpl. auto.
Qed.

(* ------------------------------------------------------------------ *)
(* tokens *)

Inductive tok := TBs | TQ | TCR | TChar (c : N).

Definition render (t : tok) : str :=
  match t with TBs => [bs; bs] | TQ => [bs; 34] | TCR => [bs; 114] | TChar c => [c] end.
Definition value (t : tok) : N :=
  match t with TBs => bs | TQ => 34 | TCR => 13 | TChar c => c end.
(* a raw character is never a backslash, and is a code point *)
Definition tok_ok (t : tok) : Prop :=
  match t with TChar c => c <> bs /\ c < 1114112 | _ => True end.
Definition renders (ts : list tok) : str := flat_map render ts.

Lemma repeat_snoc : forall (c : N) k, repeat c (S k) = repeat c k ++ [c].
Proof. intros c k. induction k; simpl in *; auto. f_equal. exact IHk. Qed.

(* --- pass 1: un-escape quotes --- *)
Definition render1 (t : tok) : str := match t with TQ => [34] | _ => render t end.

Lemma uq_bs : forall k r, unesc_quote k (bs :: r) = unesc_quote (S k) r.
Proof. intros. cbn [unesc_quote]. rewrite N.eqb_refl. reflexivity. Qed.

Lemma uq_q_odd : forall k r, Nat.odd k = true ->
  unesc_quote k (34 :: r) = repeat bs (pred k) ++ 34 :: unesc_quote 0 r.
Proof. intros k r H. cbn [unesc_quote]. replace (N.eqb 34 bs) with false by reflexivity. rewrite N.eqb_refl, H. reflexivity. Qed.

Lemma uq_other : forall k c r, c <> bs -> (c = 34 -> Nat.odd k = false) ->
  unesc_quote k (c :: r) = repeat bs k ++ c :: unesc_quote 0 r.
Proof.
  intros k c r H1 H2. cbn [unesc_quote]. apply N.eqb_neq in H1. rewrite H1.
  destruct (N.eqb c 34) eqn:E; auto. apply N.eqb_eq in E. rewrite (H2 E). reflexivity.
Qed.

Lemma unesc_quote_tokens : forall ts k, Forall tok_ok ts -> Nat.even k = true ->
  unesc_quote k (renders ts) = repeat bs k ++ flat_map render1 ts.
Proof.
  induction ts as [|t ts IH]; intros k OK E.
  - simpl. rewrite app_nil_r. reflexivity.
  - inversion OK as [|? ? Ht Hts]; subst.
    assert (Nat.odd k = false) as O by (unfold Nat.odd; rewrite E; reflexivity).
    unfold renders in *. destruct t as [| | |c]; cbn [flat_map render render1 app].
    + rewrite !uq_bs. rewrite (IH (S (S k))) by (auto; simpl; exact E).
      rewrite !repeat_snoc, <- !app_assoc. reflexivity.
    + rewrite uq_bs, uq_q_odd by (rewrite Nat.odd_succ; exact E).
      cbn [pred]. rewrite (IH 0%nat) by auto. reflexivity.
    + rewrite uq_bs, uq_other by (try discriminate; intro X; discriminate X).
      rewrite (IH 0%nat) by auto. rewrite repeat_snoc, <- app_assoc. reflexivity.
    + destruct Ht as [Hc _]. rewrite uq_other by auto. rewrite (IH 0%nat) by auto. reflexivity.
Qed.

(* --- pass 2: backslash-x protection does nothing --- *)
Lemma fx_bs : forall o r, fix_bs_x o (bs :: r) = bs :: fix_bs_x (negb o) r.
Proof. intros. cbn [fix_bs_x]. rewrite N.eqb_refl. reflexivity. Qed.

Lemma fx_other : forall o c r, c <> bs -> (c = 120 -> o = false) -> fix_bs_x o (c :: r) = c :: fix_bs_x false r.
Proof.
  intros o c r H1 H2. cbn [fix_bs_x]. apply N.eqb_neq in H1. rewrite H1.
  destruct (N.eqb c 120) eqn:E; auto. apply N.eqb_eq in E. rewrite (H2 E). reflexivity.
Qed.

Lemma fix_bs_x_tokens : forall ts, Forall tok_ok ts ->
  fix_bs_x false (flat_map render1 ts) = flat_map render1 ts.
Proof.
  induction ts as [|t ts IH]; intro OK; auto.
  inversion OK as [|? ? Ht Hts]; subst.
  destruct t as [| | |c]; cbn [flat_map render1 render app].
  - rewrite !fx_bs. cbn [negb]. rewrite IH by auto. reflexivity.
  - rewrite fx_other by (try discriminate; auto). rewrite IH by auto. reflexivity.
  - rewrite fx_bs, fx_other by (try discriminate; intro X; discriminate X). rewrite IH by auto. reflexivity.
  - destruct Ht as [Hc _]. rewrite fx_other by auto. rewrite IH by auto. reflexivity.
Qed.

(* --- passes 3 and 4: raw-unicode-escape, then unicode-escape --- *)
Lemma hexval_hexdig : forall n, n < 16 -> hexval (hexdig n) = Some n.
Proof.
  intros n H.
  assert (forallb (fun k => match hexval (hexdig k) with Some m => N.eqb m k | None => false end)
                  (map N.of_nat (seq 0 16)) = true) as T by (vm_compute; reflexivity).
  rewrite forallb_forall in T. specialize (T n).
  assert (In n (map N.of_nat (seq 0 16))) as I.
  { apply in_map_iff. exists (N.to_nat n). split; [apply N2Nat.id|]. apply in_seq. lia. }
  specialize (T I). destruct (hexval (hexdig n)); [|discriminate]. apply N.eqb_eq in T. subst. reflexivity.
Qed.

Lemma hexnum_hex4 : forall acc c, c < 65536 -> hexnum acc (hex4 c) = Some (65536 * acc + c).
Proof.
  intros acc c H. unfold hex4. cbn [hexnum].
  assert (forall x, x mod 16 < 16) as M by (intro; apply N.mod_lt; discriminate).
  rewrite !hexval_hexdig by apply M. f_equal.
  pose proof (N.div_mod' c 4096). pose proof (N.div_mod' (c mod 4096) 256).
  pose proof (N.div_mod' (c mod 256) 16).
  assert (c / 4096 < 16) by (apply N.div_lt_upper_bound; lia).
  rewrite (N.mod_small (c / 4096) 16) by assumption.
  Ltac Zify.zify_post_hook ::= Z.to_euclidean_division_equations.
  lia.
Qed.

Lemma hexnum_app : forall l1 l2 acc, hexnum acc (l1 ++ l2) =
  match hexnum acc l1 with Some v => hexnum v l2 | None => None end.
Proof.
  induction l1 as [|c l1 IH]; intros l2 acc; auto. cbn [app hexnum].
  destruct (hexval c); auto.
Qed.

Lemma ocons_some : forall c r, ocons c (Some r) = Some (c :: r).
Proof. reflexivity. Qed.

(* one character through both codecs *)
Lemma codec_char : forall c rest, c <> bs -> c < 1114112 ->
  ue_decode (rue_char c ++ rest) = ocons c (ue_decode rest).
Proof.
  intros c rest Hb Hc. unfold rue_char.
  destruct (c <? 256) eqn:E1.
  - cbn [app ue_decode]. apply N.eqb_neq in Hb. rewrite Hb. reflexivity.
  - destruct (c <? 65536) eqn:E2.
    + apply N.ltb_lt in E2.
      change ((bs :: 117 :: hex4 c) ++ rest) with (bs :: 117 :: (hex4 c ++ rest)).
      cbn [ue_decode]. rewrite N.eqb_refl. cbn [negb].
      replace (N.eqb 117 10) with false by reflexivity.
      replace (simple_escape 117) with (@None N) by reflexivity.
      replace (N.eqb 117 120) with false by reflexivity. rewrite N.eqb_refl.
      unfold hex4 at 1. cbn [app].
      change [hexdig (c / 4096 mod 16); hexdig (c / 256 mod 16); hexdig (c / 16 mod 16); hexdig (c mod 16)] with (hex4 c).
      rewrite hexnum_hex4 by assumption. rewrite N.mul_0_r, N.add_0_l. reflexivity.
    + apply N.ltb_ge in E2.
      change ((bs :: 85 :: hex4 (c / 65536) ++ hex4 (c mod 65536)) ++ rest)
        with (bs :: 85 :: ((hex4 (c / 65536) ++ hex4 (c mod 65536)) ++ rest)).
      cbn [ue_decode]. rewrite N.eqb_refl. cbn [negb].
      replace (N.eqb 85 10) with false by reflexivity.
      replace (simple_escape 85) with (@None N) by reflexivity.
      replace (N.eqb 85 120) with false by reflexivity. replace (N.eqb 85 117) with false by reflexivity.
      rewrite N.eqb_refl.
      unfold hex4 at 1 2. cbn [app].
      change [hexdig (c / 65536 / 4096 mod 16); hexdig (c / 65536 / 256 mod 16); hexdig (c / 65536 / 16 mod 16);
              hexdig (c / 65536 mod 16); hexdig (c mod 65536 / 4096 mod 16); hexdig (c mod 65536 / 256 mod 16);
              hexdig (c mod 65536 / 16 mod 16); hexdig (c mod 65536 mod 16)]
        with (hex4 (c / 65536) ++ hex4 (c mod 65536)).
      rewrite hexnum_app.
      assert (c / 65536 < 65536) by (apply N.div_lt_upper_bound; lia).
      assert (c mod 65536 < 65536) by (apply N.mod_lt; discriminate).
      rewrite hexnum_hex4 by assumption. rewrite hexnum_hex4 by assumption.
      rewrite N.mul_0_r, N.add_0_l.
      replace (65536 * (c / 65536) + c mod 65536) with c by (apply N.div_mod'; discriminate).
      apply N.ltb_lt in Hc. rewrite Hc. reflexivity.
Qed.

Lemma rue_encode_app : forall a b, rue_encode (a ++ b) = rue_encode a ++ rue_encode b.
Proof. intros. unfold rue_encode. apply flat_map_app. Qed.

Lemma codec_tokens : forall ts, Forall tok_ok ts ->
  ue_decode (rue_encode (flat_map render1 ts)) = Some (map value ts).
Proof.
  induction ts as [|t ts IH]; intro OK; auto.
  inversion OK as [|? ? Ht Hts]; subst.
  cbn [flat_map map]. rewrite rue_encode_app.
  destruct t as [| | |c]; cbn [render1 render value].
  - change (rue_encode [bs; bs]) with [bs; bs]. cbn [app ue_decode]. rewrite N.eqb_refl. cbn [negb].
    replace (N.eqb bs 10) with false by reflexivity. replace (simple_escape bs) with (Some bs) by reflexivity.
    rewrite IH by auto. reflexivity.
  - change (rue_encode [34]) with [34]. cbn [app ue_decode].
    replace (N.eqb 34 bs) with false by reflexivity. cbn [negb]. rewrite IH by auto. reflexivity.
  - change (rue_encode [bs; 114]) with [bs; 114]. cbn [app ue_decode]. rewrite N.eqb_refl. cbn [negb].
    replace (N.eqb 114 10) with false by reflexivity. replace (simple_escape 114) with (Some 13) by reflexivity.
    rewrite IH by auto. reflexivity.
  - destruct Ht as [Hb Hc]. unfold rue_encode at 1. cbn [flat_map]. rewrite app_nil_r.
    rewrite codec_char by assumption. rewrite IH by auto. reflexivity.
Qed.

(* the three string passes of from_n3 plus the codecs, on the rendering of a token list *)
Theorem decode_tokens : forall ts, Forall tok_ok ts ->
  codec (fix_bs_x false (unesc_quote 0 (renders ts))) = Some (map value ts).
Proof.
  intros ts OK. rewrite (unesc_quote_tokens ts 0%nat OK) by reflexivity. cbn [repeat app].
  rewrite (fix_bs_x_tokens ts OK). unfold codec. apply codec_tokens. exact OK.
Qed.

(* ------------------------------------------------------------------ *)
(* the encoder: what _quote_encode writes between the quotes is the rendering of a token list whose values
   are the lexical form *)

Lemma replace1_flat_map : forall a rep s,
  replace [a] rep s = flat_map (fun c => if N.eqb a c then rep else [c]) s.
Proof.
  intros a rep s. unfold replace. induction s as [|c s IH]; auto.
  cbn [repl_aux prefixb flat_map length pred]. rewrite andb_true_r.
  destruct (N.eqb a c); cbn [app]; rewrite IH; reflexivity.
Qed.

Lemma replace1_app : forall a rep x y, replace [a] rep (x ++ y) = replace [a] rep x ++ replace [a] rep y.
Proof. intros. rewrite !replace1_flat_map. apply flat_map_app. Qed.

Lemma replace1_flat : forall {A} a rep (f : A -> str) l,
  replace [a] rep (flat_map f l) = flat_map (fun x => replace [a] rep (f x)) l.
Proof.
  intros A a rep f l. induction l as [|x l IH]; auto.
  cbn [flat_map]. rewrite replace1_app, IH. reflexivity.
Qed.

Lemma flat_map_singleton : forall (s : str), flat_map (fun c => [c]) s = s.
Proof. induction s; simpl; congruence. Qed.

Lemma flat_map_map : forall {A B C} (f : A -> B) (g : B -> list C) l, flat_map g (map f l) = flat_map (fun x => g (f x)) l.
Proof. intros. induction l; simpl; congruence. Qed.

(* --- the single-quoted form --- *)
Definition tok1 (c : N) : tok :=
  if N.eqb c bs then TBs else if N.eqb c 34 then TQ else if N.eqb c 13 then TCR else TChar c.

Lemma tok1_value : forall c, value (tok1 c) = c.
Proof.
  intro c. unfold tok1. destruct (N.eqb c bs) eqn:E1; [apply N.eqb_eq in E1; auto|].
  destruct (N.eqb c 34) eqn:E2; [apply N.eqb_eq in E2; auto|].
  destruct (N.eqb c 13) eqn:E3; [apply N.eqb_eq in E3; auto|]. reflexivity.
Qed.

Lemma tok1_ok : forall c, c < 1114112 -> tok_ok (tok1 c).
Proof.
  intros c H. unfold tok1. destruct (N.eqb c bs) eqn:E1; simpl; auto.
  destruct (N.eqb c 34); simpl; auto. destruct (N.eqb c 13); simpl; auto.
  apply N.eqb_neq in E1. auto.
Qed.

Lemma enc1_char : forall c, c <> 10 ->
  replace [13] [bs; 114] (replace [34] [bs; 34] (replace [bs] [bs; bs] (replace [10] [bs; 110] [c]))) = render (tok1 c).
Proof.
  intros c H. unfold tok1. rewrite !replace1_flat_map. cbn [flat_map app].
  apply N.eqb_neq in H. rewrite (N.eqb_sym 10 c), H. cbn [flat_map app].
  rewrite (N.eqb_sym bs c). destruct (N.eqb c bs) eqn:E1.
  - reflexivity.
  - cbn [flat_map app]. rewrite (N.eqb_sym 34 c). destruct (N.eqb c 34) eqn:E2.
    + reflexivity.
    + cbn [flat_map app]. rewrite (N.eqb_sym 13 c). destruct (N.eqb c 13); reflexivity.
Qed.

Lemma enc1_tokens : forall s, ~ In 10 s ->
  replace [13] [bs; 114] (replace [34] [bs; 34] (replace [bs] [bs; bs] (replace [10] [bs; 110] s)))
  = renders (map tok1 s).
Proof.
  induction s as [|c s IH]; intro H; auto.
  change (c :: s) with ([c] ++ s). rewrite !replace1_app, IH by (intro; apply H; simpl; auto).
  rewrite enc1_char by (intro; subst; apply H; simpl; auto). reflexivity.
Qed.

(* --- the triple-quoted form --- *)
Definition t1 (c : N) : tok := if N.eqb c bs then TBs else TChar c.
Definition basic (t : tok) : Prop := match t with TBs => True | TChar c => c <> bs | _ => False end.

Lemma t1_basic : forall c, basic (t1 c).
Proof. intro c. unfold t1. destruct (N.eqb c bs) eqn:E; simpl; auto. apply N.eqb_neq. exact E. Qed.

Lemma enc3_step1 : forall s, replace [bs] [bs; bs] s = renders (map t1 s).
Proof.
  intro s. rewrite replace1_flat_map. unfold renders. rewrite flat_map_map.
  apply flat_map_ext. intro c. unfold t1. rewrite (N.eqb_sym bs c). destruct (N.eqb c bs); reflexivity.
Qed.

(* the final quote *)
Definition lastq (ts : list tok) : list tok :=
  match rev ts with
  | TChar c :: r => if N.eqb c 34 then rev r ++ [TQ] else ts
  | _ => ts
  end.

Lemma renders_app : forall a b, renders (a ++ b) = renders a ++ renders b.
Proof. intros. apply flat_map_app. Qed.

Lemma enc3_step2 : forall ts, Forall basic ts ->
  (if last_is_quote (renders ts) then removelast (renders ts) ++ [bs; 34] else renders ts) = renders (lastq ts).
Proof.
  intros ts B. unfold lastq, last_is_quote.
  destruct (rev ts) as [|t r] eqn:R.
  - assert (ts = []) by (rewrite <- (rev_involutive ts), R; reflexivity). subst. reflexivity.
  - assert (ts = rev r ++ [t]) as E by (rewrite <- (rev_involutive ts), R; reflexivity).
    rewrite E, renders_app. cbn [renders flat_map]. rewrite app_nil_r.
    assert (basic t) as Bt by (rewrite Forall_forall in B; apply B; rewrite E; apply in_or_app; right; simpl; auto).
    rewrite rev_app_distr.
    destruct t as [| | |c]; try contradiction; cbn [render rev app].
    + replace (N.eqb bs 34) with false by reflexivity. rewrite renders_app. reflexivity.
    + destruct (N.eqb c 34) eqn:Q.
      * apply N.eqb_eq in Q. subst c. rewrite removelast_snoc, renders_app. reflexivity.
      * rewrite renders_app. reflexivity.
Qed.

(* the triple quotes: three raw quotes in a row become three escaped quotes *)
Definition is_rq (t : tok) : bool := match t with TChar c => N.eqb c 34 | _ => false end.
Fixpoint rq3 (fuel : nat) (ts : list tok) : list tok :=
  match fuel with
  | O => ts
  | S f =>
      match ts with
      | a :: ((b :: c :: r) as tl) =>
          if is_rq a && is_rq b && is_rq c then TQ :: TQ :: TQ :: rq3 f r else a :: rq3 f tl
      | a :: tl => a :: rq3 f tl
      | [] => []
      end
  end.

Definition tailq (tl : list tok) : Prop := tl = [] \/ tl = [TQ].

Lemma render_head : forall t, basic t -> render t = [if is_rq t then 34 else value t] ++ match t with TBs => [bs] | _ => [] end
                                         /\ (is_rq t = false -> match render t with c :: _ => c <> 34 | [] => False end).
Proof.
  intros t B. destruct t as [| | |c]; try contradiction; cbn [render is_rq value].
  - split; auto. intros _. discriminate.
  - split.
    + destruct (N.eqb c 34) eqn:E; auto. apply N.eqb_eq in E. subst. reflexivity.
    + intro E. apply N.eqb_neq. exact E.
Qed.

Lemma prefix_q3_tokens : forall ts tl, Forall basic ts -> tailq tl ->
  prefixb q3 (renders (ts ++ tl)) =
  match ts with a :: b :: c :: _ => is_rq a && is_rq b && is_rq c | _ => false end.
Proof.
  intros ts tl B T.
  assert (forall l, tailq l -> forall x, prefixb (34 :: x) (renders l) = false) as TL.
  { intros l [E|E] x; subst; reflexivity. }
  assert (forall t l x, basic t -> is_rq t = false -> prefixb (34 :: x) (renders (t :: l)) = false) as NQ.
  { intros t l x Bt Q. destruct t as [| | |c]; try contradiction; cbn [renders flat_map render app prefixb].
    - reflexivity.
    - cbn [is_rq] in Q. rewrite (N.eqb_sym 34 c), Q. reflexivity. }
  assert (forall t l x, is_rq t = true -> prefixb (34 :: x) (renders (t :: l)) = prefixb x (renders l)) as YQ.
  { intros t l x Q. destruct t as [| | |c]; try discriminate. cbn [is_rq] in Q. apply N.eqb_eq in Q. subst.
    cbn [renders flat_map render app prefixb]. reflexivity. }
  unfold q3.
  destruct ts as [|a ts]; [apply TL; exact T|]. inversion B as [|? ? Ba B1]; subst.
  cbn [app]. destruct (is_rq a) eqn:Qa.
  2:{ rewrite NQ by assumption. destruct ts as [|? [|? ?]]; reflexivity. }
  rewrite YQ by assumption.
  destruct ts as [|b ts]; [apply TL; exact T|]. inversion B1 as [|? ? Bb B2]; subst.
  cbn [app]. destruct (is_rq b) eqn:Qb.
  2:{ rewrite NQ by assumption. destruct ts; reflexivity. }
  rewrite YQ by assumption.
  destruct ts as [|c ts]; [apply TL; exact T|]. inversion B2 as [|? ? Bc B3]; subst.
  cbn [app]. destruct (is_rq c) eqn:Qc.
  2:{ rewrite NQ by assumption. reflexivity. }
  rewrite YQ by assumption. reflexivity.
Qed.

Definition esc3 : str := [bs; 34; bs; 34; bs; 34].

Lemma repl_q3_hit : forall x, repl_aux q3 esc3 0 (34 :: 34 :: 34 :: x) = esc3 ++ repl_aux q3 esc3 0 x.
Proof. intro x. cbn [repl_aux prefixb q3]. rewrite !N.eqb_refl. cbn [andb length pred]. reflexivity. Qed.

Lemma repl_q3_miss : forall c x, prefixb q3 (c :: x) = false ->
  repl_aux q3 esc3 0 (c :: x) = c :: repl_aux q3 esc3 0 x.
Proof. intros c x H. cbn [repl_aux]. rewrite H. reflexivity. Qed.

Lemma rq3_tokens : forall fuel ts tl, (length ts <= fuel)%nat -> Forall basic ts -> tailq tl ->
  replace q3 esc3 (renders (ts ++ tl)) = renders (rq3 fuel ts ++ tl).
Proof.
  unfold replace. induction fuel as [|f IH]; intros ts tl L B T.
  - destruct ts; [|simpl in L; lia]. cbn [rq3 app]. destruct T as [E|E]; subst; reflexivity.
  - destruct ts as [|a ts].
    + cbn [rq3 app]. destruct T as [E|E]; subst; reflexivity.
    + pose proof (prefix_q3_tokens (a :: ts) tl B T) as P.
      inversion B as [|? ? Ba B1]; subst. simpl in L.
      destruct ts as [|b [|c r]].
      * (* one token left *)
        cbn [rq3]. cbn [app] in *. unfold renders in *. cbn [flat_map] in *.
        destruct a as [| | |x]; try contradiction; cbn [render app] in *.
        -- rewrite repl_q3_miss by reflexivity. rewrite repl_q3_miss by (destruct T as [E|E]; subst; reflexivity).
           change (flat_map render tl) with (flat_map render ([] ++ tl)). rewrite (IH [] tl) by (simpl in L |- *; auto; lia). destruct f; reflexivity.
        -- rewrite repl_q3_miss by exact P. change (flat_map render tl) with (flat_map render ([] ++ tl)). rewrite (IH [] tl) by (simpl in L |- *; auto; lia).
           destruct f; reflexivity.
      * (* two tokens left *)
        cbn [rq3]. cbn [app] in *. unfold renders in *. cbn [flat_map] in *.
        destruct a as [| | |x]; try contradiction; cbn [render app] in *.
        -- rewrite repl_q3_miss by reflexivity.
           rewrite repl_q3_miss by (pose proof (prefix_q3_tokens [b] tl B1 T) as Q; unfold renders in Q;
                                    cbn [app flat_map] in Q; unfold q3 in *; cbn [prefixb];
                                    replace (N.eqb 34 bs) with false by reflexivity; reflexivity).
           change (render b ++ flat_map render tl) with (flat_map render ([b] ++ tl)). rewrite (IH [b] tl) by (simpl in L |- *; auto; lia). reflexivity.
        -- rewrite repl_q3_miss by exact P. change (render b ++ flat_map render tl) with (flat_map render ([b] ++ tl)).
           rewrite (IH [b] tl) by (simpl in L |- *; auto; lia). reflexivity.
      * (* at least three *)
        cbn [rq3]. destruct (is_rq a && is_rq b && is_rq c) eqn:Q.
        -- apply andb_true_iff in Q as [Q Qc]. apply andb_true_iff in Q as [Qa Qb].
           destruct a as [| | |xa]; try discriminate. destruct b as [| | |xb]; try discriminate.
           destruct c as [| | |xc]; try discriminate. cbn [is_rq] in *.
           apply N.eqb_eq in Qa, Qb, Qc. subst.
           cbn [app]. unfold renders. cbn [flat_map render app]. fold (renders (r ++ tl)). fold (renders (rq3 f r ++ tl)).
           rewrite repl_q3_hit. inversion B1 as [|? ? ? B2]; subst. inversion B2 as [|? ? ? B3]; subst.
           rewrite (IH r tl) by (simpl in L |- *; auto; lia). reflexivity.
        -- cbn [app] in *. unfold renders in *. cbn [flat_map] in *.
           destruct a as [| | |x]; try contradiction; cbn [render app] in *.
           ++ rewrite repl_q3_miss by reflexivity.
              rewrite repl_q3_miss by (unfold q3; cbn [prefixb]; replace (N.eqb 34 bs) with false by reflexivity; reflexivity).
              change (render b ++ render c ++ flat_map render (r ++ tl)) with (flat_map render ((b :: c :: r) ++ tl)). rewrite (IH (b :: c :: r) tl) by (simpl in L |- *; auto; lia). reflexivity.
           ++ rewrite repl_q3_miss by exact P. change (render b ++ render c ++ flat_map render (r ++ tl)) with (flat_map render ((b :: c :: r) ++ tl)).
              rewrite (IH (b :: c :: r) tl) by (simpl in L |- *; auto; lia). reflexivity.
Qed.

(* the carriage returns *)
Definition cr (t : tok) : tok := match t with TChar c => if N.eqb c 13 then TCR else t | _ => t end.

Lemma enc3_step4 : forall ts, replace [13] [bs; 114] (renders ts) = renders (map cr ts).
Proof.
  intro ts. unfold renders. rewrite replace1_flat, flat_map_map. apply flat_map_ext. intro t.
  destruct t as [| | |c]; try reflexivity. cbn [render cr]. rewrite replace1_flat_map. cbn [flat_map app].
  rewrite (N.eqb_sym 13 c). destruct (N.eqb c 13); reflexivity.
Qed.

Lemma cr_value : forall t, value (cr t) = value t.
Proof. destruct t as [| | |c]; auto. cbn [cr]. destruct (N.eqb c 13) eqn:E; auto. apply N.eqb_eq in E. subst. reflexivity. Qed.
Lemma cr_ok : forall t, tok_ok t -> tok_ok (cr t).
Proof. destruct t as [| | |c]; auto. cbn [cr]. destruct (N.eqb c 13); simpl; auto. Qed.

Lemma rq3_value : forall f ts, map value (rq3 f ts) = map value ts.
Proof.
  induction f as [|f IH]; intro ts; auto. destruct ts as [|a [|b [|c r]]]; cbn [rq3 map]; rewrite ?IH; auto.
  destruct (is_rq a && is_rq b && is_rq c) eqn:Q.
  - apply andb_true_iff in Q as [Q Qc]. apply andb_true_iff in Q as [Qa Qb].
    destruct a as [| | |xa]; try discriminate. destruct b as [| | |xb]; try discriminate.
    destruct c as [| | |xc]; try discriminate. cbn [is_rq] in *. apply N.eqb_eq in Qa, Qb, Qc. subst.
    cbn [map value]. rewrite IH. reflexivity.
  - cbn [map]. rewrite IH. reflexivity.
Qed.

Lemma rq3_ok : forall f ts, Forall tok_ok ts -> Forall tok_ok (rq3 f ts).
Proof.
  induction f as [|f IH]; intros ts H; auto. destruct ts as [|a [|b [|c r]]]; cbn [rq3]; auto.
  - inversion H; subst. constructor; auto.
  - inversion H; subst. constructor; auto.
  - destruct (is_rq a && is_rq b && is_rq c).
    + inversion H as [|? ? ? H1]; subst. inversion H1 as [|? ? ? H2]; subst. inversion H2; subst.
      repeat constructor; simpl; auto.
    + inversion H; subst. constructor; auto.
Qed.

Lemma basic_ok : forall s, cp_ok s = true -> Forall tok_ok (map t1 s) /\ Forall basic (map t1 s) /\ map value (map t1 s) = s.
Proof.
  induction s as [|c s IH]; intro H; [repeat split; constructor|].
  cbn [cp_ok forallb] in H. apply andb_true_iff in H as [Hc H]. destruct (IH H) as [A [B C]].
  cbn [map]. repeat split.
  - constructor; auto. unfold t1. destruct (N.eqb c bs) eqn:E; simpl; auto. apply N.eqb_neq in E. apply N.ltb_lt in Hc. auto.
  - constructor; auto. apply t1_basic.
  - f_equal; auto. unfold t1. destruct (N.eqb c bs) eqn:E; auto. apply N.eqb_eq in E. auto.
Qed.

Lemma lastq_split : forall ts, Forall basic ts -> Forall tok_ok ts ->
  exists ts' tl, lastq ts = ts' ++ tl /\ Forall basic ts' /\ tailq tl
                 /\ Forall tok_ok (ts' ++ tl) /\ map value (ts' ++ tl) = map value ts /\ (length ts' <= length ts)%nat.
Proof.
  intros ts B OK. unfold lastq. destruct (rev ts) as [|t r] eqn:R.
  - exists ts, []. rewrite app_nil_r. repeat split; auto. left; reflexivity.
  - assert (ts = rev r ++ [t]) as E by (rewrite <- (rev_involutive ts), R; reflexivity).
    destruct t as [| | |c]; try (exists ts, []; rewrite app_nil_r; repeat split; auto; left; reflexivity).
    destruct (N.eqb c 34) eqn:Q; [|exists ts, []; rewrite app_nil_r; repeat split; auto; left; reflexivity].
    apply N.eqb_eq in Q. subst c. exists (rev r), [TQ]. subst ts.
    apply Forall_app in B as [B1 _]. apply Forall_app in OK as [O1 _].
    repeat split; auto.
    + right; reflexivity.
    + apply Forall_app. split; auto. repeat constructor.
    + rewrite !map_app. reflexivity.
    + rewrite app_length. simpl. lia.
Qed.

(* what _quote_encode writes *)
Theorem quote_encode_tokens : forall s, cp_ok s = true ->
  exists ts, Forall tok_ok ts /\ map value ts = s /\
    ((mem 10 s = false /\ quote_encode s = q1 ++ renders ts ++ q1
      /\ match renders ts with 34 :: _ => False | _ => True end)
     \/ (mem 10 s = true /\ quote_encode s = q3 ++ renders ts ++ q3)).
Proof.
  intros s CP. unfold quote_encode. destruct (mem 10 s) eqn:M.
  - (* triple-quoted *)
    destruct (basic_ok s CP) as [OK [B V]].
    rewrite enc3_step1, (enc3_step2 _ B).
    destruct (lastq_split _ B OK) as [ts' [tl [E [B' [T [OK' [V' L]]]]]]]. rewrite E.
    exists (map cr (rq3 (length ts') ts' ++ tl)). split; [|split].
    + apply Forall_forall. intros t Hin. apply in_map_iff in Hin as [t0 [Et Hin]]. subst. apply cr_ok.
      apply Forall_app in OK' as [O1 O2].
      assert (Forall tok_ok (rq3 (length ts') ts' ++ tl)) as F by (apply Forall_app; split; auto using rq3_ok).
      rewrite Forall_forall in F. auto.
    + rewrite map_map. rewrite (map_ext _ value cr_value). rewrite map_app, rq3_value, <- map_app. congruence.
    + right. split; auto.
      replace (if containsb q3 (renders (ts' ++ tl)) then replace q3 [bs; 34; bs; 34; bs; 34] (renders (ts' ++ tl)) else renders (ts' ++ tl))
        with (renders (rq3 (length ts') ts' ++ tl)).
      * rewrite enc3_step4. reflexivity.
      * pose proof (rq3_tokens (length ts') ts' tl (le_n _) B' T) as R. unfold esc3 in R.
        destruct (containsb q3 (renders (ts' ++ tl))) eqn:C; [symmetry; exact R|].
        (* no triple quote at all: replace changed nothing *)
        rewrite <- R. clear R. revert C. generalize (renders (ts' ++ tl)). intro x. unfold replace.
        induction x as [|c x IHx]; intro C; auto. cbn [containsb] in C. apply orb_false_iff in C as [C1 C2].
        cbn [repl_aux]. rewrite C1. f_equal. apply IHx. exact C2.
  - (* single-quoted *)
    apply mem_false in M. rewrite (enc1_tokens s M).
    exists (map tok1 s). split; [|split].
    + apply Forall_forall. intros t Hin. apply in_map_iff in Hin as [c [Et Hin]]. subst. apply tok1_ok.
      unfold cp_ok in CP. rewrite forallb_forall in CP. apply N.ltb_lt. auto.
    + rewrite map_map. rewrite (map_ext _ (fun c => c) tok1_value). apply map_id.
    + left. repeat split; auto.
      destruct s as [|c s]; [exact I|]. cbn [map renders flat_map]. unfold tok1.
      destruct (N.eqb c bs); [exact I|]. destruct (N.eqb c 34) eqn:E; [exact I|].
      destruct (N.eqb c 13); [exact I|]. cbn [render app]. destruct (N.eq_dec c 34) as [X|X].
      * subst. discriminate.
      * destruct c; auto. repeat (destruct p; auto). 
Qed.

(* ------------------------------------------------------------------ *)
(* from_n3 on the text of a literal *)

Lemma rsplit1_last3 : forall a suffix, ~ In 34 suffix -> rsplit1 q3 (a ++ q3 ++ suffix) = Some (a, suffix).
Proof.
  intros a suffix H. induction a as [|c a IH].
  - unfold q3. cbn [app rsplit1]. rewrite (rsplit1_absent 34 [34; 34] suffix H).
    assert (prefixb [34; 34; 34] (34 :: suffix) = false) as P1.
    { cbn [prefixb]. rewrite N.eqb_refl. cbn [andb]. destruct suffix as [|x r]; auto.
      destruct (N.eqb 34 x) eqn:E; auto. apply N.eqb_eq in E. subst. exfalso. apply H. simpl. auto. }
    assert (prefixb [34; 34; 34] (34 :: 34 :: suffix) = false) as P2.
    { cbn [prefixb]. rewrite !N.eqb_refl. cbn [andb]. destruct suffix as [|x r]; auto.
      destruct (N.eqb 34 x) eqn:E; auto. apply N.eqb_eq in E. subst. exfalso. apply H. simpl. auto. }
    rewrite P1, P2. cbn [prefixb]. rewrite !N.eqb_refl. reflexivity.
  - cbn [app rsplit1]. rewrite IH. reflexivity.
Qed.

Definition lit_tail (o : ctor_oracle) (lex suffix : str) : wres :=
  match after_last [94; 94] suffix with
  | Some d =>
      match dt_from_n3 d with
      | None => WAny
      | Some None => WRaise
      | Some (Some u) => mk_literal o true lex None (Some u)
      end
  | None => mk_literal o true lex (match suffix with 64 :: l => Some l | _ => None end) None
  end.

Lemma from_n3_tokens1 : forall o ts suffix, Forall tok_ok ts -> ~ In 34 suffix ->
  match renders ts with 34 :: _ => False | _ => True end ->
  from_n3 o (q1 ++ renders ts ++ q1 ++ suffix) = lit_tail o (map value ts) suffix.
Proof.
  intros o ts suffix OK S F. unfold q1. cbn [app from_n3].
  assert (prefixb q3 (34 :: renders ts ++ 34 :: suffix) = false) as P.
  { unfold q3. cbn [prefixb]. rewrite N.eqb_refl. cbn [andb].
    destruct (renders ts) as [|c r] eqn:R; cbn [app prefixb].
    - rewrite N.eqb_refl. cbn [andb]. destruct suffix as [|x r]; auto.
      destruct (N.eqb 34 x) eqn:E; auto. apply N.eqb_eq in E. subst. exfalso. apply S. simpl. auto.
    - destruct (N.eqb 34 c) eqn:E; auto. apply N.eqb_eq in E. subst. contradiction. }
  rewrite P. change (34 :: renders ts ++ 34 :: suffix) with ((34 :: renders ts) ++ 34 :: suffix).
  unfold q1. rewrite (rsplit1_last1 34 (34 :: renders ts) suffix S). cbn [length skipn].
  rewrite (decode_tokens ts OK). unfold lit_tail.
  destruct (after_last [94; 94] suffix); reflexivity.
Qed.

Lemma from_n3_tokens3 : forall o ts suffix, Forall tok_ok ts -> ~ In 34 suffix ->
  from_n3 o (q3 ++ renders ts ++ q3 ++ suffix) = lit_tail o (map value ts) suffix.
Proof.
  intros o ts suffix OK S.
  assert (exists x, q3 ++ renders ts ++ q3 ++ suffix = 34 :: x /\ prefixb q3 (34 :: x) = true) as [x [E P]].
  { unfold q3. cbn [app]. eexists. split; [reflexivity|]. cbn [prefixb]. rewrite !N.eqb_refl. reflexivity. }
  rewrite E. cbn [from_n3]. rewrite P. rewrite <- E.
  rewrite app_assoc. rewrite (rsplit1_last3 (q3 ++ renders ts) suffix S).
  replace (skipn (length q3) (q3 ++ renders ts)) with (renders ts) by reflexivity.
  rewrite (decode_tokens ts OK). unfold lit_tail.
  destruct (after_last [94; 94] suffix); reflexivity.
Qed.

(* the text of a literal that n3() does not respell, read back *)
Lemma from_n3_quote_encode : forall o lex suffix, cp_ok lex = true -> ~ In 34 suffix ->
  from_n3 o (quote_encode lex ++ suffix) = lit_tail o lex suffix.
Proof.
  intros o lex suffix CP S.
  destruct (quote_encode_tokens lex CP) as [ts [OK [V [[M [E F]]|[M E]]]]]; rewrite E, <- V.
  - rewrite <- !app_assoc. apply from_n3_tokens1; auto.
  - rewrite <- !app_assoc. apply from_n3_tokens3; auto.
Qed.

(* ------------------------------------------------------------------ *)
(* IRIs, suffixes, respelling *)

Lemma codec_nobs : forall s, cp_ok s = true -> ~ In bs s -> codec s = Some s.
Proof.
  unfold codec. induction s as [|c s IH]; intros CP H; auto.
  cbn [cp_ok forallb] in CP. apply andb_true_iff in CP as [Hc CP]. apply N.ltb_lt in Hc.
  change (rue_encode (c :: s)) with (rue_char c ++ rue_encode s).
  rewrite codec_char; auto.
  - rewrite IH; auto. intro; apply H; simpl; auto.
  - intro; subst; apply H; simpl; auto.
Qed.

Lemma from_n3_iri : forall o s, valid_uri s = true -> cp_ok s = true ->
  from_n3 o (60 :: s ++ [62]) = WTerm (IRI s).
Proof.
  intros o s V L. cbn [from_n3]. rewrite removelast_snoc.
  rewrite codec_nobs; auto. apply (invalid_has bs s inv_bs V).
Qed.

Lemma lit_tail_plain : forall o lex, lit_tail o lex [] = mk_literal o true lex None None.
Proof. reflexivity. Qed.

Lemma lit_tail_lang : forall o lex l, tag_chars l = true ->
  lit_tail o lex (64 :: l) = mk_literal o true lex (Some l) None.
Proof.
  intros o lex l T. unfold lit_tail, after_last.
  rewrite (rsplit1_absent 94 [94] (64 :: l)); auto.
  simpl. intros [X|X]; [discriminate|]. revert X. apply tag_no; auto.
Qed.

Lemma lit_tail_dt : forall o lex d, valid_uri d = true -> cp_ok d = true ->
  lit_tail o lex (94 :: 94 :: 60 :: d ++ [62]) = mk_literal o true lex None (Some d).
Proof.
  intros o lex d V CP. unfold lit_tail.
  assert (after_last [94; 94] (94 :: 94 :: 60 :: d ++ [62]) = Some (60 :: d ++ [62])) as AL.
  { unfold after_last. cbn [rsplit1].
    rewrite (rsplit1_absent 94 [94] (d ++ [62])).
    2:{ intro X. apply in_app_or in X as [X|X]. apply (invalid_has 94 d inv_caret V X).
        simpl in X. destruct X as [X|[]]. discriminate. }
    simpl. reflexivity. }
  rewrite AL. cbn [dt_from_n3]. rewrite removelast_snoc.
  rewrite (codec_nobs d CP (invalid_has bs d inv_bs V)). reflexivity.
Qed.

(* replacing inside quotes: a pattern without a quote never sees the closing quote *)
Lemma prefixb_snoc : forall pat x, ~ In 34 pat -> prefixb pat (x ++ [34]) = prefixb pat x.
Proof.
  induction pat as [|p pat IH]; intros x H; auto.
  destruct x as [|c x]; cbn [app prefixb].
  - destruct (N.eqb p 34) eqn:E; auto. apply N.eqb_eq in E. subst. exfalso. apply H. simpl. auto.
  - rewrite IH; auto. intro; apply H; simpl; auto.
Qed.

Lemma prefixb_length : forall pat x, prefixb pat x = true -> (length pat <= length x)%nat.
Proof.
  induction pat as [|p pat IH]; intros x H; simpl; [lia|].
  destruct x as [|c x]; [discriminate|]. cbn [prefixb] in H. apply andb_true_iff in H as [_ H].
  apply IH in H. simpl. lia.
Qed.

Lemma repl_snoc : forall p pat rep s k, ~ In 34 (p :: pat) -> (k <= length s)%nat ->
  repl_aux (p :: pat) rep k (s ++ [34]) = repl_aux (p :: pat) rep k s ++ [34].
Proof.
  intros p pat rep s. induction s as [|c s IH]; intros k H L.
  - simpl in L. assert (k = 0%nat) by lia. subst. cbn [app repl_aux prefixb].
    destruct (N.eqb p 34) eqn:E; auto. apply N.eqb_eq in E. subst. exfalso. apply H. simpl. auto.
  - cbn [app repl_aux]. destruct k as [|k].
    + change (c :: s ++ [34]) with ((c :: s) ++ [34]). rewrite prefixb_snoc by exact H.
      destruct (prefixb (p :: pat) (c :: s)) eqn:P.
      * apply prefixb_length in P. rewrite IH by (auto; simpl in *; lia). rewrite app_assoc. reflexivity.
      * rewrite IH by (auto; lia). reflexivity.
    + apply IH; auto. simpl in L. lia.
Qed.

Lemma replace_wrap : forall p pat rep s, ~ In 34 (p :: pat) ->
  replace (p :: pat) rep (34 :: s ++ [34]) = 34 :: replace (p :: pat) rep s ++ [34].
Proof.
  intros p pat rep s H. unfold replace. cbn [repl_aux prefixb].
  destruct (N.eqb p 34) eqn:E; [apply N.eqb_eq in E; subst; exfalso; apply H; simpl; auto|].
  cbn [andb]. rewrite repl_snoc by (auto; lia). reflexivity.
Qed.

Lemma repl_plain : forall pat rep s k, forallb plain_char rep = true -> forallb plain_char s = true ->
  forallb plain_char (repl_aux pat rep k s) = true.
Proof.
  intros pat rep s. induction s as [|c s IH]; intros k R S; auto.
  cbn [forallb] in S. apply andb_true_iff in S as [Sc S]. cbn [repl_aux]. destruct k.
  - destruct (prefixb pat (c :: s)).
    + rewrite forallb_app, R. apply IH; auto.
    + cbn [forallb]. rewrite Sc. apply IH; auto.
  - apply IH; auto.
Qed.

Lemma plain_not_in : forall lex c, forallb plain_char lex = true -> (c = 10 \/ c = 13 \/ c = 34 \/ c = 92) -> ~ In c lex.
Proof.
  intros lex c H Hc Hin. rewrite forallb_forall in H. specialize (H c Hin). unfold plain_char in H.
  repeat (apply andb_true_iff in H as [H ?]).
  repeat match goal with X : negb _ = true |- _ => apply negb_true_iff in X; apply N.eqb_neq in X end.
  intuition congruence.
Qed.

Lemma quote_encode_plain : forall lex, forallb plain_char lex = true -> quote_encode lex = 34 :: lex ++ [34].
Proof.
  intros lex H. unfold quote_encode.
  assert (mem 10 lex = false) as M by (apply mem_false; apply (plain_not_in lex 10 H); auto).
  rewrite M. unfold bs.
  rewrite (replace_absent 10 [] _ lex) by (apply (plain_not_in lex 10 H); auto).
  rewrite (replace_absent 92 [] _ lex) by (apply (plain_not_in lex 92 H); auto).
  rewrite (replace_absent 34 [] _ lex) by (apply (plain_not_in lex 34 H); auto).
  rewrite (replace_absent 13 [] _ lex) by (apply (plain_not_in lex 13 H); auto).
  reflexivity.
Qed.

(* the INF / NaN respelling acts on the lexical form *)
Lemma n3_quoted_lex : forall lex dt,
  (respelled lex dt = true -> forallb plain_char lex = true) ->
  n3_quoted lex dt = quote_encode (n3_lex lex dt) /\
  (respelled lex dt = true -> forallb plain_char (n3_lex lex dt) = true).
Proof.
  intros lex dt H. unfold n3_quoted, n3_lex, respelled in *.
  destruct dt as [d|]; [|split; [reflexivity|discriminate]].
  destruct (smem d infnan_types); [|split; [reflexivity|discriminate]].
  destruct (float_class lex); cbn [andb] in H.
  - specialize (H eq_refl). split.
    + rewrite (quote_encode_plain lex H).
      rewrite (replace_wrap 105 [110; 102]) by (simpl; intuition discriminate).
      rewrite (replace_wrap 73 [110; 102; 105; 110; 105; 116; 121]) by (simpl; intuition discriminate).
      rewrite quote_encode_plain; [reflexivity|]. apply repl_plain; [reflexivity|]. apply repl_plain; [reflexivity|exact H].
    + intros _. apply repl_plain; [reflexivity|]. apply repl_plain; [reflexivity|exact H].
  - specialize (H eq_refl). split.
    + rewrite (quote_encode_plain lex H).
      rewrite (replace_wrap 110 [97; 110]) by (simpl; intuition discriminate).
      rewrite quote_encode_plain; [reflexivity|]. apply repl_plain; [reflexivity|exact H].
    + intros _. apply repl_plain; [reflexivity|exact H].
  - split; [reflexivity|discriminate].
Qed.

Lemma repl_cp : forall pat rep s k, cp_ok rep = true -> cp_ok s = true -> cp_ok (repl_aux pat rep k s) = true.
Proof.
  intros pat rep s. unfold cp_ok. induction s as [|c s IH]; intros k R S; auto.
  cbn [forallb] in S. apply andb_true_iff in S as [Sc S]. cbn [repl_aux]. destruct k.
  - destruct (prefixb pat (c :: s)).
    + rewrite forallb_app, R. apply IH; auto.
    + cbn [forallb]. rewrite Sc. apply IH; auto.
  - apply IH; auto.
Qed.

Lemma n3_lex_cp : forall lex dt, cp_ok lex = true -> cp_ok (n3_lex lex dt) = true.
Proof.
  intros lex dt H. unfold n3_lex. destruct dt as [d|]; auto. destruct (smem d infnan_types); auto.
  destruct (float_class lex); auto; unfold replace; repeat apply repl_cp; auto.
Qed.

(* ------------------------------------------------------------------ *)
(* the round trip *)

Definition respell_ok (t : term) : Prop :=
  match t with Lit lex dt _ => respelled lex dt = true -> forallb plain_char lex = true | _ => True end.

(* from_n3 (n3 t), for every well-formed term: the term itself, a literal being rebuilt by the default constructor
   from the lexical form the text shows *)
Theorem from_n3_n3_wf : forall o t s, wf_term t = true -> respell_ok t -> n3 t = Some s ->
  from_n3 o s =
  match t with
  | Lit lex dt lang => mk_literal o true (n3_lex lex dt) lang dt
  | _ => WTerm t
  end.
Proof.
  intros o t s W R E. destruct t as [u|u|u|lex dt lang]; cbn [n3] in E.
  - destruct (valid_uri u) eqn:V; [|discriminate]. inversion E; subst. cbn [app].
    apply from_n3_iri; auto.
  - inversion E; subst. reflexivity.
  - inversion E; subst. reflexivity.
  - cbn [wf_term] in W. apply andb_true_iff in W as [CP W]. cbn [respell_ok] in R.
    destruct (n3_quoted_lex lex dt R) as [NQ _]. rewrite NQ in E.
    pose proof (n3_lex_cp lex dt CP) as CP'.
    destruct dt as [d|], lang as [l|]; try discriminate.
    + apply andb_true_iff in W as [W Wc]. apply andb_true_iff in W as [V NE].
      assert (truthy (Some d) = true) as T by (destruct d; [simpl in NE; discriminate|reflexivity]).
      rewrite T in E. change (truthy None) with false in E. cbv iota in E. cbn [dt_or_string] in E.
      inversion E; subst. clear E.
      replace ([94; 94; 60] ++ d ++ [62]) with (94 :: 94 :: 60 :: d ++ [62]) by reflexivity.
      rewrite from_n3_quote_encode; auto.
      * apply lit_tail_dt; auto.
      * simpl. intros [X|[X|[X|X]]]; try discriminate. apply in_app_or in X as [X|X].
        -- apply (invalid_has 34 d inv_quote V X).
        -- simpl in X. destruct X as [X|[]]. discriminate.
    + apply andb_true_iff in W as [VL TC].
      assert (truthy (Some l) = true) as T by (destruct l; [discriminate|reflexivity]).
      rewrite T in E. cbn [lang_or_empty] in E. inversion E; subst. clear E.
      rewrite from_n3_quote_encode; auto.
      * apply lit_tail_lang; auto.
      * simpl. intros [X|X]; [discriminate|]. revert X. apply tag_no; auto.
    + cbn [truthy] in E. inversion E; subst. clear E.
      match goal with |- from_n3 _ ?x = _ => rewrite <- (app_nil_r x) end.
      rewrite from_n3_quote_encode; auto.
Qed.

Lemma tkf_parts : forall c, tkf c = 0 ->
  match t_term c with
  | Lit lex dt _ => forall l, ctor_lex (t_orc c) (n3_lex lex dt) dt = Some l -> l = lex
  | _ => True
  end.
Proof.
  intros c H. unfold tkf in H. destruct (t_term c) as [u|u|u|lex dt lang]; auto.
  intros l E. rewrite E in H. destruct (str_eqb l lex) eqn:X; [|discriminate].
  apply str_eqb_eq. exact X.
Qed.

Lemma twf_parts : forall c, twf c = true ->
  wf_term (t_term c) = true /\ respell_ok (t_term c) /\
  match t_term c with
  | Lit lex dt _ => exists l, ctor_lex (t_orc c) (n3_lex lex dt) dt = Some l
  | _ => True
  end.
Proof.
  intros c H. unfold twf in H. apply andb_true_iff in H as [W H]. split; auto.
  destruct (t_term c) as [u|u|u|lex dt lang]; cbn [respell_ok]; auto.
  apply andb_true_iff in H as [P C]. split.
  - intro R. rewrite R in P. exact P.
  - destruct (ctor_lex (t_orc c) (n3_lex lex dt) dt) as [l|]; [eauto|discriminate].
Qed.

Theorem tspec_ok_model : forall c, twf c = true -> tkf c = 0 -> tspec_ok c (tmodel_obs c) = true.
Proof.
  intros c H K. destruct (twf_parts c H) as [W [R O]]. pose proof (tkf_parts c K) as F.
  unfold tspec_ok, tmodel_obs. cbn [t_n3 t_from t_pickle t_flags]. rewrite K. cbn [N.eqb forallb andb].
  rewrite andb_true_r.
  apply andb_true_iff. split; [apply pickle_same; assumption|].
  destruct (n3 (t_term c)) as [s|] eqn:E.
  - rewrite (from_n3_n3_wf (t_orc c) _ s W R E).
    destruct (t_term c) as [u|u|u|lex dt lang]; cbn [same_strict]; try apply term_same_refl.
    cbn [wf_term] in W. apply andb_true_iff in W as [_ W]. destruct O as [l O]. specialize (F l O). subst l.
    unfold mk_literal.
    destruct dt as [d|], lang as [l|]; try discriminate.
    + rewrite O. apply term_same_refl.
    + apply andb_true_iff in W as [VL _]. destruct l as [|x l]; [discriminate|]. rewrite VL.
      cbn [same_strict]. apply term_same_refl.
    + cbn [n3_lex ctor_lex same_strict]. apply term_same_refl.
  - destruct (t_term c) as [u|u|u|lex dt lang]; cbn [n3] in E; try discriminate.
    + destruct (valid_uri u); [discriminate|reflexivity].
    + destruct (truthy lang); [discriminate|]. destruct (truthy dt); discriminate.
Qed.

(* reading of the checker *)
Lemma tspec_ok_reads : forall c o, tspec_ok c o = true ->
  (exists t', t_pickle o = WTerm t' /\ term_same (t_term c) t' = true)
  /\ (forall s, t_n3 o = Some s -> exists t', t_from o = WTerm t' /\ term_same (t_term c) t' = true)
  /\ (t_n3 o = None -> exists s, t_term c = IRI s /\ valid_uri s = false)
  /\ ~ In (Some false) (t_flags o).
Proof.
  intros c o H. unfold tspec_ok in H.
  apply andb_true_iff in H as [H H3]. apply andb_true_iff in H as [H1 H2].
  repeat split.
  - destruct (t_pickle o) as [| |t']; try discriminate. eauto.
  - intros s E. rewrite E in H2. destruct (t_from o) as [| |t']; try discriminate. eauto.
  - intro E. rewrite E in H2. destruct (t_term c); try discriminate. exists s. split; auto.
    apply negb_true_iff in H2. exact H2.
  - intro Hin. rewrite forallb_forall in H3. specialize (H3 _ Hin). discriminate.
Qed.

(* the literal the constructor leaves alone reads back as itself *)
Corollary from_n3_n3_fixed : forall o lex dt lang s,
  wf_term (Lit lex dt lang) = true -> respell_ok (Lit lex dt lang) -> ctor_lex o (n3_lex lex dt) dt = Some lex ->
  n3 (Lit lex dt lang) = Some s -> same_strict (Lit lex dt lang) (from_n3 o s) = true.
Proof.
  intros o lex dt lang s W R F E.
  rewrite (from_n3_n3_wf o _ s W R E).
  cbn [wf_term] in W. apply andb_true_iff in W as [_ W]. unfold mk_literal.
  destruct dt as [d|], lang as [l|]; try discriminate.
  - rewrite F. apply term_same_refl.
  - apply andb_true_iff in W as [VL _]. destruct l as [|x l]; [discriminate|]. rewrite VL.
    cbn [same_strict]. apply term_same_refl.
  - cbn [n3_lex ctor_lex same_strict]. apply term_same_refl.
Qed.

(* ... and F7a on the model: a literal built with normalize=False does not *)
Definition f7a_witness : tcase := {| t_term := Lit [48; 49] (Some xsd_integer) None; t_orc := [] |}.
Definition f7a_text : str := match n3 (t_term f7a_witness) with Some s => s | None => [] end.
Lemma from_n3_nonnormal_refuted : exists c s, twf c = true /\ tkf c = 1 /\ n3 (t_term c) = Some s
  /\ from_n3 (t_orc c) s = WTerm (Lit [49] (Some xsd_integer) None) /\ same_strict (t_term c) (from_n3 (t_orc c) s) = false.
Proof. exists f7a_witness, f7a_text. vm_compute. repeat split; reflexivity. Qed.

(* ------------------------------------------------------------------ *)
(* the code as it was before the "fix:" commits (findings F7a, F7b, F7e), kept so that the refutations stay checkable *)

Definition decode_prefix (v : str) : option str :=
  codec (replace [bs; 120] [bs; bs; 120] (replace [bs; 34] [34] v)).

Definition last_is_bare_quote (e : str) : bool :=
  match rev e with a :: b :: _ => N.eqb a 34 && negb (N.eqb b bs) | _ => false end.
Definition quote_encode3_prefix (s : str) : str :=
  let e := replace [bs] [bs; bs] s in
  let e := if containsb q3 s then replace q3 esc3 e else e in
  let e := if last_is_bare_quote e then removelast e ++ [bs; 34] else e in
  replace [13] [bs; 114] e.

(* F7b: the text of Literal('\\x41') between the quotes is \\x41; the old passes read it as \A *)
Lemma prefix_bs_x_refuted :
  quote_encode [92; 120; 52; 49] = [34; 92; 92; 120; 52; 49; 34]
  /\ decode_prefix [92; 92; 120; 52; 49] = Some [92; 65]
  /\ decode_prefix [92; 92; 120] = None.
Proof. vm_compute. auto. Qed.

(* F7e: the old triple-quoted form of LF backslash quote ends in four quotes, and the old passes drop the backslash *)
Lemma prefix_bs_quote_refuted :
  quote_encode3_prefix [10; 92; 34] = [10; 92; 92; 34]
  /\ decode_prefix [10; 92; 92; 34] = Some [10; 34].
Proof. vm_compute. auto. Qed.

(* F7a: __reduce__ used to rebuild through the normalising constructor *)
Lemma prefix_pickle_refuted :
  mk_literal [] true [48; 49] None (Some xsd_integer) = WTerm (Lit [49] (Some xsd_integer) None).
Proof. vm_compute. reflexivity. Qed.

(* ------------------------------------------------------------------ *)
(* suite "pickler" *)

Lemma all_same_unpickle : forall o l, forallb wf_term l = true -> all_same l (map (unpickle o) l) = true.
Proof.
  intros o l. induction l as [|t l IH]; intros H; auto.
  cbn [forallb] in H. apply andb_true_iff in H as [W H]. cbn [map all_same].
  pose proof (pickle_same o t W) as P.
  destruct (unpickle o t) as [| |t']; try discriminate.
  cbn [same_strict] in P. rewrite P. apply IH; assumption.
Qed.

Theorem pspec_ok_model : forall ts, forallb wf_term ts = true -> pspec_ok ts (pmodel_obs ts) = true.
Proof.
  intros ts H. unfold pspec_ok, pmodel_obs. apply all_same_unpickle.
  rewrite forallb_app, H. reflexivity.
Qed.

(* F7n: before its repair __reduce__ passed the bare name and from_n3 stripped the '?' itself, so the constructor
   stripped a second one *)
Lemma prefix_variable_refuted : mk_var [63; 120] = WTerm (Var [120]) /\ unpickle [] (Var [63; 120]) = WTerm (Var [63; 120]).
Proof. vm_compute. auto. Qed.
