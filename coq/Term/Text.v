(* Proofs for the suite "text": from_n3 inverts n3 on every well-formed term.
   The quoted text n3() writes is the rendering of a list of TOKENS (escaped backslash, escaped quote, escaped
   CR, raw character); each of the four passes of from_n3 (un-escape quotes, protect backslash-x,
   raw-unicode-escape, unicode-escape) is characterised on renderings of token lists. *)
From Coq Require Import Lia.
From RV Require Import Term.Model Term.Proofs.
Local Open Scope N_scope.

Lemma invalid_has : forall c d, In c invalid_uri_chars -> valid_uri d = true -> ~ In c d.
Proof.
  intros c d Hc Hv. unfold valid_uri in Hv. rewrite forallb_forall in Hv.
  specialize (Hv c Hc). apply negb_true_iff in Hv. apply mem_false in Hv. exact Hv.
Qed.

Lemma inv_bs : In bs invalid_uri_chars. Proof. vm_compute. tauto. Qed.

Lemma inv_quote : In 34 invalid_uri_chars. Proof. vm_compute. tauto. Qed.

Lemma inv_caret : In 94 invalid_uri_chars. Proof. vm_compute. tauto. Qed.

Lemma tag_no : forall c l, tag_chars l = true -> (is_alnum c || N.eqb c 45) = false -> ~ In c l.
Proof.
  intros c l H Hc Hin. unfold tag_chars in H. rewrite forallb_forall in H. rewrite (H c Hin) in Hc. discriminate.
Qed.

Lemma removelast_snoc : forall (s : str) c, removelast (s ++ [c]) = s.
Proof. intros. rewrite removelast_app by discriminate. simpl. apply app_nil_r. Qed.

Lemma pickle_same : forall o t, wf_term t = true -> same_as t (unpickle o t) = true.
Proof.
  intros o t W. destruct t as [s|s|s|lex dt lang]; simpl in *.
  - apply str_eqb_refl.
  - apply str_eqb_refl.
  - apply andb_true_iff in W as [_ W]. destruct s as [|c r]; [discriminate|]. simpl.
    apply negb_true_iff in W. rewrite W. simpl. rewrite N.eqb_refl. apply str_eqb_refl.
  - apply andb_true_iff in W as [_ W]. unfold mk_literal.
    destruct dt as [d|], lang as [l|]; try discriminate.
    + simpl. rewrite !str_eqb_refl. reflexivity.
    + apply andb_true_iff in W as [W1 W2]. destruct l as [|c l]; [discriminate|].
      rewrite W1. simpl. rewrite !str_eqb_refl, N.eqb_refl. reflexivity.
    + simpl. rewrite str_eqb_refl. reflexivity.
Qed.

Lemma prefix_q3_false : forall lex suffix, ~ In 34 lex -> ~ In 34 suffix ->
  prefixb q3 (34 :: lex ++ 34 :: suffix) = false.
Proof.
  intros lex suffix H S. unfold q3. destruct lex as [|c lex]; cbn [app prefixb].
  - rewrite !N.eqb_refl. cbn [andb]. destruct suffix as [|x suffix]; auto.
    destruct (N.eqb 34 x) eqn:E; auto. apply N.eqb_eq in E. subst. exfalso. apply S. simpl. auto.
  - rewrite N.eqb_refl. cbn [andb].
    destruct (N.eqb 34 c) eqn:E; auto. apply N.eqb_eq in E. subst. exfalso. apply H. simpl. auto.
Qed.

Lemma fix_bs_x_absent : forall s, ~ In bs s -> fix_bs_x false s = s.
Proof.
  induction s as [|c r IH]; intro H; auto. cbn [fix_bs_x].
  destruct (N.eqb c bs) eqn:E.
  - apply N.eqb_eq in E. subst. exfalso. apply H. simpl. auto.
  - rewrite andb_false_r. f_equal. apply IH. intro. apply H. simpl. auto.
Qed.

Lemma unesc_quote_absent : forall s, ~ In bs s -> unesc_quote 0 s = s.
Proof.
  induction s as [|c r IH]; intro H; auto. cbn [unesc_quote].
  destruct (N.eqb c bs) eqn:E.
  - apply N.eqb_eq in E. subst. exfalso. apply H. simpl. auto.
  - cbn [Nat.odd]. rewrite andb_false_r. cbn [repeat app]. f_equal. apply IH. intro. apply H. simpl. auto.
Qed.

(* ------------------------------------------------------------------ *)
(* tokens *)

Inductive tok := TBs | TQ | TCR | TChar (c : N).

Definition render (t : tok) : str :=
  match t with TBs => [bs; bs] | TQ => [bs; 34] | TCR => [bs; 114] | TChar c => [c] end.
Definition value (t : tok) : N :=
  match t with TBs => bs | TQ => 34 | TCR => 13 | TChar c => c end.
(* a raw character is never a backslash, and is a code point *)
Definition tok_ok (t : tok) : Prop :=
  match t with TChar c => c <> bs /\ c < 1114112 | _ => True end.
Definition renders (ts : list tok) : str := flat_map render ts.

Lemma repeat_snoc : forall (c : N) k, repeat c (S k) = repeat c k ++ [c].
Proof. intros c k. induction k; simpl in *; auto. f_equal. exact IHk. Qed.

(* --- pass 1: un-escape quotes --- *)
Definition render1 (t : tok) : str := match t with TQ => [34] | _ => render t end.

Lemma uq_bs : forall k r, unesc_quote k (bs :: r) = unesc_quote (S k) r.
Proof. intros. cbn [unesc_quote]. rewrite N.eqb_refl. reflexivity. Qed.

Lemma uq_q_odd : forall k r, Nat.odd k = true ->
  unesc_quote k (34 :: r) = repeat bs (pred k) ++ 34 :: unesc_quote 0 r.
Proof. intros k r H. cbn [unesc_quote]. replace (N.eqb 34 bs) with false by reflexivity. rewrite N.eqb_refl, H. reflexivity. Qed.

Lemma uq_other : forall k c r, c <> bs -> (c = 34 -> Nat.odd k = false) ->
  unesc_quote k (c :: r) = repeat bs k ++ c :: unesc_quote 0 r.
Proof.
  intros k c r H1 H2. cbn [unesc_quote]. apply N.eqb_neq in H1. rewrite H1.
  destruct (N.eqb c 34) eqn:E; auto. apply N.eqb_eq in E. rewrite (H2 E). reflexivity.
Qed.

Lemma unesc_quote_tokens : forall ts k, Forall tok_ok ts -> Nat.even k = true ->
  unesc_quote k (renders ts) = repeat bs k ++ flat_map render1 ts.
Proof.
  induction ts as [|t ts IH]; intros k OK E.
  - simpl. rewrite app_nil_r. reflexivity.
  - inversion OK as [|? ? Ht Hts]; subst.
    assert (Nat.odd k = false) as O by (unfold Nat.odd; rewrite E; reflexivity).
    unfold renders in *. destruct t as [| | |c]; cbn [flat_map render render1 app].
    + rewrite !uq_bs. rewrite (IH (S (S k))) by (auto; simpl; exact E).
      rewrite !repeat_snoc, <- !app_assoc. reflexivity.
    + rewrite uq_bs, uq_q_odd by (rewrite Nat.odd_succ; exact E).
      cbn [pred]. rewrite (IH 0%nat) by auto. reflexivity.
    + rewrite uq_bs, uq_other by (try discriminate; intro X; discriminate X).
      rewrite (IH 0%nat) by auto. rewrite repeat_snoc, <- app_assoc. reflexivity.
    + destruct Ht as [Hc _]. rewrite uq_other by auto. rewrite (IH 0%nat) by auto. reflexivity.
Qed.

(* --- pass 2: backslash-x protection does nothing --- *)
Lemma fx_bs : forall o r, fix_bs_x o (bs :: r) = bs :: fix_bs_x (negb o) r.
Proof. intros. cbn [fix_bs_x]. rewrite N.eqb_refl. reflexivity. Qed.

Lemma fx_other : forall o c r, c <> bs -> (c = 120 -> o = false) -> fix_bs_x o (c :: r) = c :: fix_bs_x false r.
Proof.
  intros o c r H1 H2. cbn [fix_bs_x]. apply N.eqb_neq in H1. rewrite H1.
  destruct (N.eqb c 120) eqn:E; auto. apply N.eqb_eq in E. rewrite (H2 E). reflexivity.
Qed.

Lemma fix_bs_x_tokens : forall ts, Forall tok_ok ts ->
  fix_bs_x false (flat_map render1 ts) = flat_map render1 ts.
Proof.
  induction ts as [|t ts IH]; intro OK; auto.
  inversion OK as [|? ? Ht Hts]; subst.
  destruct t as [| | |c]; cbn [flat_map render1 render app].
  - rewrite !fx_bs. cbn [negb]. rewrite IH by auto. reflexivity.
  - rewrite fx_other by (try discriminate; auto). rewrite IH by auto. reflexivity.
  - rewrite fx_bs, fx_other by (try discriminate; intro X; discriminate X). rewrite IH by auto. reflexivity.
  - destruct Ht as [Hc _]. rewrite fx_other by auto. rewrite IH by auto. reflexivity.
Qed.

(* --- passes 3 and 4: raw-unicode-escape, then unicode-escape --- *)
Lemma hexval_hexdig : forall n, n < 16 -> hexval (hexdig n) = Some n.
Proof.
  intros n H.
  assert (forallb (fun k => match hexval (hexdig k) with Some m => N.eqb m k | None => false end)
                  (map N.of_nat (seq 0 16)) = true) as T by (vm_compute; reflexivity).
  rewrite forallb_forall in T. specialize (T n).
  assert (In n (map N.of_nat (seq 0 16))) as I.
  { apply in_map_iff. exists (N.to_nat n). split; [apply N2Nat.id|]. apply in_seq. lia. }
  specialize (T I). destruct (hexval (hexdig n)); [|discriminate]. apply N.eqb_eq in T. subst. reflexivity.
Qed.

Lemma hexnum_hex4 : forall acc c, c < 65536 -> hexnum acc (hex4 c) = Some (65536 * acc + c).
Proof.
  intros acc c H. unfold hex4. cbn [hexnum].
  assert (forall x, x mod 16 < 16) as M by (intro; apply N.mod_lt; discriminate).
  rewrite !hexval_hexdig by apply M. f_equal.
  pose proof (N.div_mod' c 4096). pose proof (N.div_mod' (c mod 4096) 256).
  pose proof (N.div_mod' (c mod 256) 16).
  assert (c / 4096 < 16) by (apply N.div_lt_upper_bound; lia).
  rewrite (N.mod_small (c / 4096) 16) by assumption.
  Ltac Zify.zify_post_hook ::= Z.to_euclidean_division_equations.
  lia.
Qed.

Lemma hexnum_app : forall l1 l2 acc, hexnum acc (l1 ++ l2) =
  match hexnum acc l1 with Some v => hexnum v l2 | None => None end.
Proof.
  induction l1 as [|c l1 IH]; intros l2 acc; auto. cbn [app hexnum].
  destruct (hexval c); auto.
Qed.

Lemma ocons_some : forall c r, ocons c (Some r) = Some (c :: r).
Proof. reflexivity. Qed.

(* one character through both codecs *)
Lemma codec_char : forall c rest, c <> bs -> c < 1114112 ->
  ue_decode (rue_char c ++ rest) = ocons c (ue_decode rest).
Proof.
  intros c rest Hb Hc. unfold rue_char.
  destruct (c <? 256) eqn:E1.
  - cbn [app ue_decode]. apply N.eqb_neq in Hb. rewrite Hb. reflexivity.
  - destruct (c <? 65536) eqn:E2.
    + apply N.ltb_lt in E2.
      change ((bs :: 117 :: hex4 c) ++ rest) with (bs :: 117 :: (hex4 c ++ rest)).
      cbn [ue_decode]. rewrite N.eqb_refl. cbn [negb].
      replace (N.eqb 117 10) with false by reflexivity.
      replace (simple_escape 117) with (@None N) by reflexivity.
      replace (N.eqb 117 120) with false by reflexivity. rewrite N.eqb_refl.
      unfold hex4 at 1. cbn [app].
      change [hexdig (c / 4096 mod 16); hexdig (c / 256 mod 16); hexdig (c / 16 mod 16); hexdig (c mod 16)] with (hex4 c).
      rewrite hexnum_hex4 by assumption. rewrite N.mul_0_r, N.add_0_l. reflexivity.
    + apply N.ltb_ge in E2.
      change ((bs :: 85 :: hex4 (c / 65536) ++ hex4 (c mod 65536)) ++ rest)
        with (bs :: 85 :: ((hex4 (c / 65536) ++ hex4 (c mod 65536)) ++ rest)).
      cbn [ue_decode]. rewrite N.eqb_refl. cbn [negb].
      replace (N.eqb 85 10) with false by reflexivity.
      replace (simple_escape 85) with (@None N) by reflexivity.
      replace (N.eqb 85 120) with false by reflexivity. replace (N.eqb 85 117) with false by reflexivity.
      rewrite N.eqb_refl.
      unfold hex4 at 1 2. cbn [app].
      change [hexdig (c / 65536 / 4096 mod 16); hexdig (c / 65536 / 256 mod 16); hexdig (c / 65536 / 16 mod 16);
              hexdig (c / 65536 mod 16); hexdig (c mod 65536 / 4096 mod 16); hexdig (c mod 65536 / 256 mod 16);
              hexdig (c mod 65536 / 16 mod 16); hexdig (c mod 65536 mod 16)]
        with (hex4 (c / 65536) ++ hex4 (c mod 65536)).
      rewrite hexnum_app.
      assert (c / 65536 < 65536) by (apply N.div_lt_upper_bound; lia).
      assert (c mod 65536 < 65536) by (apply N.mod_lt; discriminate).
      rewrite hexnum_hex4 by assumption. rewrite hexnum_hex4 by assumption.
      rewrite N.mul_0_r, N.add_0_l.
      replace (65536 * (c / 65536) + c mod 65536) with c by (apply N.div_mod'; discriminate).
      apply N.ltb_lt in Hc. rewrite Hc. reflexivity.
Qed.

Lemma rue_encode_app : forall a b, rue_encode (a ++ b) = rue_encode a ++ rue_encode b.
Proof. intros. unfold rue_encode. apply flat_map_app. Qed.

Lemma codec_tokens : forall ts, Forall tok_ok ts ->
  ue_decode (rue_encode (flat_map render1 ts)) = Some (map value ts).
Proof.
  induction ts as [|t ts IH]; intro OK; auto.
  inversion OK as [|? ? Ht Hts]; subst.
  cbn [flat_map map]. rewrite rue_encode_app.
  destruct t as [| | |c]; cbn [render1 render value].
  - change (rue_encode [bs; bs]) with [bs; bs]. cbn [app ue_decode]. rewrite N.eqb_refl. cbn [negb].
    replace (N.eqb bs 10) with false by reflexivity. replace (simple_escape bs) with (Some bs) by reflexivity.
    rewrite IH by auto. reflexivity.
  - change (rue_encode [34]) with [34]. cbn [app ue_decode].
    replace (N.eqb 34 bs) with false by reflexivity. cbn [negb]. rewrite IH by auto. reflexivity.
  - change (rue_encode [bs; 114]) with [bs; 114]. cbn [app ue_decode]. rewrite N.eqb_refl. cbn [negb].
    replace (N.eqb 114 10) with false by reflexivity. replace (simple_escape 114) with (Some 13) by reflexivity.
    rewrite IH by auto. reflexivity.
  - destruct Ht as [Hb Hc]. unfold rue_encode at 1. cbn [flat_map]. rewrite app_nil_r.
    rewrite codec_char by assumption. rewrite IH by auto. reflexivity.
Qed.

(* the three string passes of from_n3 plus the codecs, on the rendering of a token list *)
Theorem decode_tokens : forall ts, Forall tok_ok ts ->
  codec (fix_bs_x false (unesc_quote 0 (renders ts))) = Some (map value ts).
Proof.
  intros ts OK. rewrite (unesc_quote_tokens ts 0%nat OK) by reflexivity. cbn [repeat app].
  rewrite (fix_bs_x_tokens ts OK). unfold codec. apply codec_tokens. exact OK.
Qed.

(* ------------------------------------------------------------------ *)
(* the encoder: what _quote_encode writes between the quotes is the rendering of a token list whose values
   are the lexical form *)

Lemma replace1_flat_map : forall a rep s,
  replace [a] rep s = flat_map (fun c => if N.eqb a c then rep else [c]) s.
Proof.
  intros a rep s. unfold replace. induction s as [|c s IH]; auto.
  cbn [repl_aux prefixb flat_map length pred]. rewrite andb_true_r.
  destruct (N.eqb a c); cbn [app]; rewrite IH; reflexivity.
Qed.

Lemma replace1_app : forall a rep x y, replace [a] rep (x ++ y) = replace [a] rep x ++ replace [a] rep y.
Proof. intros. rewrite !replace1_flat_map. apply flat_map_app. Qed.

Lemma replace1_flat : forall {A} a rep (f : A -> str) l,
  replace [a] rep (flat_map f l) = flat_map (fun x => replace [a] rep (f x)) l.
Proof.
  intros A a rep f l. induction l as [|x l IH]; auto.
  cbn [flat_map]. rewrite replace1_app, IH. reflexivity.
Qed.

Lemma flat_map_singleton : forall (s : str), flat_map (fun c => [c]) s = s.
Proof. induction s; simpl; congruence. Qed.

Lemma flat_map_map : forall {A B C} (f : A -> B) (g : B -> list C) l, flat_map g (map f l) = flat_map (fun x => g (f x)) l.
Proof. intros. induction l; simpl; congruence. Qed.

(* --- the single-quoted form --- *)
Definition tok1 (c : N) : tok :=
  if N.eqb c bs then TBs else if N.eqb c 34 then TQ else if N.eqb c 13 then TCR else TChar c.

Lemma tok1_value : forall c, value (tok1 c) = c.
Proof.
  intro c. unfold tok1. destruct (N.eqb c bs) eqn:E1; [apply N.eqb_eq in E1; auto|].
  destruct (N.eqb c 34) eqn:E2; [apply N.eqb_eq in E2; auto|].
  destruct (N.eqb c 13) eqn:E3; [apply N.eqb_eq in E3; auto|]. reflexivity.
Qed.

Lemma tok1_ok : forall c, c < 1114112 -> tok_ok (tok1 c).
Proof.
  intros c H. unfold tok1. destruct (N.eqb c bs) eqn:E1; simpl; auto.
  destruct (N.eqb c 34); simpl; auto. destruct (N.eqb c 13); simpl; auto.
  apply N.eqb_neq in E1. auto.
Qed.

Lemma enc1_char : forall c, c <> 10 ->
  replace [13] [bs; 114] (replace [34] [bs; 34] (replace [bs] [bs; bs] (replace [10] [bs; 110] [c]))) = render (tok1 c).
Proof.
  intros c H. unfold tok1. rewrite !replace1_flat_map. cbn [flat_map app].
  apply N.eqb_neq in H. rewrite (N.eqb_sym 10 c), H. cbn [flat_map app].
  rewrite (N.eqb_sym bs c). destruct (N.eqb c bs) eqn:E1.
  - reflexivity.
  - cbn [flat_map app]. rewrite (N.eqb_sym 34 c). destruct (N.eqb c 34) eqn:E2.
    + reflexivity.
    + cbn [flat_map app]. rewrite (N.eqb_sym 13 c). destruct (N.eqb c 13); reflexivity.
Qed.

Lemma enc1_tokens : forall s, ~ In 10 s ->
  replace [13] [bs; 114] (replace [34] [bs; 34] (replace [bs] [bs; bs] (replace [10] [bs; 110] s)))
  = renders (map tok1 s).
Proof.
  induction s as [|c s IH]; intro H; auto.
  change (c :: s) with ([c] ++ s). rewrite !replace1_app, IH by (intro; apply H; simpl; auto).
  rewrite enc1_char by (intro; subst; apply H; simpl; auto). reflexivity.
Qed.

(* --- the triple-quoted form --- *)
Definition t1 (c : N) : tok := if N.eqb c bs then TBs else TChar c.
Definition basic (t : tok) : Prop := match t with TBs => True | TChar c => c <> bs | _ => False end.

Lemma t1_basic : forall c, basic (t1 c).
Proof. intro c. unfold t1. destruct (N.eqb c bs) eqn:E; simpl; auto. apply N.eqb_neq. exact E. Qed.

Lemma enc3_step1 : forall s, replace [bs] [bs; bs] s = renders (map t1 s).
Proof.
  intro s. rewrite replace1_flat_map. unfold renders. rewrite flat_map_map.
  apply flat_map_ext. intro c. unfold t1. rewrite (N.eqb_sym bs c). destruct (N.eqb c bs); reflexivity.
Qed.

(* the final quote *)
Definition lastq (ts : list tok) : list tok :=
  match rev ts with
  | TChar c :: r => if N.eqb c 34 then rev r ++ [TQ] else ts
  | _ => ts
  end.

Lemma renders_app : forall a b, renders (a ++ b) = renders a ++ renders b.
Proof. intros. apply flat_map_app. Qed.

Lemma enc3_step2 : forall ts, Forall basic ts ->
  (if last_is_quote (renders ts) then removelast (renders ts) ++ [bs; 34] else renders ts) = renders (lastq ts).
Proof.
  intros ts B. unfold lastq, last_is_quote.
  destruct (rev ts) as [|t r] eqn:R.
  - assert (ts = []) by (rewrite <- (rev_involutive ts), R; reflexivity). subst. reflexivity.
  - assert (ts = rev r ++ [t]) as E by (rewrite <- (rev_involutive ts), R; reflexivity).
    rewrite E, renders_app. cbn [renders flat_map]. rewrite app_nil_r.
    assert (basic t) as Bt by (rewrite Forall_forall in B; apply B; rewrite E; apply in_or_app; right; simpl; auto).
    rewrite rev_app_distr.
    destruct t as [| | |c]; try contradiction; cbn [render rev app].
    + replace (N.eqb bs 34) with false by reflexivity. rewrite renders_app. reflexivity.
    + destruct (N.eqb c 34) eqn:Q.
      * apply N.eqb_eq in Q. subst c. rewrite removelast_snoc, renders_app. reflexivity.
      * rewrite renders_app. reflexivity.
Qed.

(* the triple quotes: three raw quotes in a row become three escaped quotes *)
Definition is_rq (t : tok) : bool := match t with TChar c => N.eqb c 34 | _ => false end.
Fixpoint rq3 (fuel : nat) (ts : list tok) : list tok :=
  match fuel with
  | O => ts
  | S f =>
      match ts with
      | a :: ((b :: c :: r) as tl) =>
          if is_rq a && is_rq b && is_rq c then TQ :: TQ :: TQ :: rq3 f r else a :: rq3 f tl
      | a :: tl => a :: rq3 f tl
      | [] => []
      end
  end.

Definition tailq (tl : list tok) : Prop := tl = [] \/ tl = [TQ].

Lemma render_head : forall t, basic t -> render t = [if is_rq t then 34 else value t] ++ match t with TBs => [bs] | _ => [] end
                                         /\ (is_rq t = false -> match render t with c :: _ => c <> 34 | [] => False end).
Proof.
  intros t B. destruct t as [| | |c]; try contradiction; cbn [render is_rq value].
  - split; auto. intros _. discriminate.
  - split.
    + destruct (N.eqb c 34) eqn:E; auto. apply N.eqb_eq in E. subst. reflexivity.
    + intro E. apply N.eqb_neq. exact E.
Qed.

Lemma prefix_q3_tokens : forall ts tl, Forall basic ts -> tailq tl ->
  prefixb q3 (renders (ts ++ tl)) =
  match ts with a :: b :: c :: _ => is_rq a && is_rq b && is_rq c | _ => false end.
Proof.
  intros ts tl B T.
  assert (forall l, tailq l -> forall x, prefixb (34 :: x) (renders l) = false) as TL.
  { intros l [E|E] x; subst; reflexivity. }
  assert (forall t l x, basic t -> is_rq t = false -> prefixb (34 :: x) (renders (t :: l)) = false) as NQ.
  { intros t l x Bt Q. destruct t as [| | |c]; try contradiction; cbn [renders flat_map render app prefixb].
    - reflexivity.
    - cbn [is_rq] in Q. rewrite (N.eqb_sym 34 c), Q. reflexivity. }
  assert (forall t l x, is_rq t = true -> prefixb (34 :: x) (renders (t :: l)) = prefixb x (renders l)) as YQ.
  { intros t l x Q. destruct t as [| | |c]; try discriminate. cbn [is_rq] in Q. apply N.eqb_eq in Q. subst.
    cbn [renders flat_map render app prefixb]. reflexivity. }
  unfold q3.
  destruct ts as [|a ts]; [apply TL; exact T|]. inversion B as [|? ? Ba B1]; subst.
  cbn [app]. destruct (is_rq a) eqn:Qa.
  2:{ rewrite NQ by assumption. destruct ts as [|? [|? ?]]; reflexivity. }
  rewrite YQ by assumption.
  destruct ts as [|b ts]; [apply TL; exact T|]. inversion B1 as [|? ? Bb B2]; subst.
  cbn [app]. destruct (is_rq b) eqn:Qb.
  2:{ rewrite NQ by assumption. destruct ts; reflexivity. }
  rewrite YQ by assumption.
  destruct ts as [|c ts]; [apply TL; exact T|]. inversion B2 as [|? ? Bc B3]; subst.
  cbn [app]. destruct (is_rq c) eqn:Qc.
  2:{ rewrite NQ by assumption. reflexivity. }
  rewrite YQ by assumption. reflexivity.
Qed.

Definition esc3 : str := [bs; 34; bs; 34; bs; 34].

Lemma repl_q3_hit : forall x, repl_aux q3 esc3 0 (34 :: 34 :: 34 :: x) = esc3 ++ repl_aux q3 esc3 0 x.
Proof. intro x. cbn [repl_aux prefixb q3]. rewrite !N.eqb_refl. cbn [andb length pred]. reflexivity. Qed.

Lemma repl_q3_miss : forall c x, prefixb q3 (c :: x) = false ->
  repl_aux q3 esc3 0 (c :: x) = c :: repl_aux q3 esc3 0 x.
Proof. intros c x H. cbn [repl_aux]. rewrite H. reflexivity. Qed.

Lemma rq3_tokens : forall fuel ts tl, (length ts <= fuel)%nat -> Forall basic ts -> tailq tl ->
  replace q3 esc3 (renders (ts ++ tl)) = renders (rq3 fuel ts ++ tl).
Proof.
  unfold replace. induction fuel as [|f IH]; intros ts tl L B T.
  - destruct ts; [|simpl in L; lia]. cbn [rq3 app]. destruct T as [E|E]; subst; reflexivity.
  - destruct ts as [|a ts].
    + cbn [rq3 app]. destruct T as [E|E]; subst; reflexivity.
    + pose proof (prefix_q3_tokens (a :: ts) tl B T) as P.
      inversion B as [|? ? Ba B1]; subst. simpl in L.
      destruct ts as [|b [|c r]].
      * (* one token left *)
        cbn [rq3]. cbn [app] in *. unfold renders in *. cbn [flat_map] in *.
        destruct a as [| | |x]; try contradiction; cbn [render app] in *.
        -- rewrite repl_q3_miss by reflexivity. rewrite repl_q3_miss by (destruct T as [E|E]; subst; reflexivity).
           fold (renders tl). rewrite (IH [] tl) by (simpl; auto; lia). destruct f; reflexivity.
        -- rewrite repl_q3_miss by exact P. fold (renders tl). rewrite (IH [] tl) by (simpl; auto; lia).
           destruct f; reflexivity.
      * (* two tokens left *)
        cbn [rq3]. cbn [app] in *. unfold renders in *. cbn [flat_map] in *.
        destruct a as [| | |x]; try contradiction; cbn [render app] in *.
        -- rewrite repl_q3_miss by reflexivity.
           rewrite repl_q3_miss by (pose proof (prefix_q3_tokens [b] tl B1 T) as Q; unfold renders in Q;
                                    cbn [app flat_map] in Q; unfold q3 in *; cbn [prefixb];
                                    replace (N.eqb 34 bs) with false by reflexivity; reflexivity).
           fold (renders ([b] ++ tl)). rewrite (IH [b] tl) by (simpl; auto; lia). reflexivity.
        -- rewrite repl_q3_miss by exact P. fold (renders ([b] ++ tl)).
           rewrite (IH [b] tl) by (simpl; auto; lia). reflexivity.
      * (* at least three *)
        cbn [rq3]. destruct (is_rq a && is_rq b && is_rq c) eqn:Q.
        -- apply andb_true_iff in Q as [Q Qc]. apply andb_true_iff in Q as [Qa Qb].
           destruct a as [| | |xa]; try discriminate. destruct b as [| | |xb]; try discriminate.
           destruct c as [| | |xc]; try discriminate. cbn [is_rq] in *.
           apply N.eqb_eq in Qa, Qb, Qc. subst.
           cbn [app]. unfold renders. cbn [flat_map render app]. fold (renders (r ++ tl)). fold (renders (rq3 f r ++ tl)).
           rewrite repl_q3_hit. inversion B1 as [|? ? ? B2]; subst. inversion B2 as [|? ? ? B3]; subst.
           rewrite (IH r tl) by (auto; lia). reflexivity.
        -- cbn [app] in *. unfold renders in *. cbn [flat_map] in *.
           destruct a as [| | |x]; try contradiction; cbn [render app] in *.
           ++ rewrite repl_q3_miss by reflexivity.
              rewrite repl_q3_miss by (unfold q3; cbn [prefixb]; replace (N.eqb 34 bs) with false by reflexivity; reflexivity).
              fold (renders ((b :: c :: r) ++ tl)). rewrite (IH (b :: c :: r) tl) by (simpl in *; auto; lia). reflexivity.
           ++ rewrite repl_q3_miss by exact P. fold (renders ((b :: c :: r) ++ tl)).
              rewrite (IH (b :: c :: r) tl) by (simpl in *; auto; lia). reflexivity.
Qed.
