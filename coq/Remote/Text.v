(* C20, request TEXT.  The query and update strings that SPARQLStore /
   SPARQLUpdateStore compose, as functions from the operations of Remote/Model.v
   to a small SPARQL AST, a printer that gives the exact text put on the wire,
   and a denotation of the AST on the specification-level endpoint.
   The correspondence suite "wire" compares [model_wire] character by character
   with what the loopback endpoint receives.  No proofs in this file. *)
From Coq Require Import String Ascii.
From RV Require Export Remote.Model.
Local Open Scope N_scope.

(* ------------------------------------------------------------------ *)
(* text: characters, with the n3 form of a term / the IRI of a graph    *)
(* kept symbolic (term escaping is C07's n3 theorem)                    *)

Inductive piece := PS (s : list N) | PT (t : term) | PG (g : cid).
Definition text := list piece.

Definition s2n (s : string) : list N := map (fun a => N_of_ascii a) (list_ascii_of_string s).
Definition T (s : string) : text := [PS (s2n s)].
Definition nl : text := [PS [10]].

(* adjacent character runs are merged, empty runs dropped: the form in which
   the harness hands over the text it saw *)
Fixpoint norm (t : text) : text :=
  match t with
  | [] => []
  | PS a :: r =>
      match norm r with
      | PS b :: r' => PS (a ++ b) :: r'
      | r' => match a with [] => r' | _ => PS a :: r' end
      end
  | x :: r => x :: norm r
  end.

Fixpoint join (sep : text) (l : list text) : text :=
  match l with
  | [] => []
  | [x] => x
  | x :: r => x ++ sep ++ join sep r
  end.

(* ------------------------------------------------------------------ *)
(* the AST                                                              *)

(* variables: the names the store uses *)
Inductive var := Vs | Vp | Vo | VS | VP | VO | Vname | Vc.
Definition var_eqb (a b : var) : bool :=
  match a, b with
  | Vs, Vs | Vp, Vp | Vo, Vo | VS, VS | VP, VP | VO, VO | Vname, Vname | Vc, Vc => true
  | _, _ => false
  end.

Inductive node := NV (v : var) | NT (t : term).
Definition tpat := (node * node * node)%type.

Inductive qast :=
| QSelect (vs : list var) (tp : tpat)     (* SELECT vs  { tp } *)
| QAsk (tp : tpat)                        (* ASK { tp } *)
| QCount                                  (* SELECT (count( * ) as ?c) WHERE {?s ?p ?o .} *)
| QGraphs (tp : option tpat).             (* SELECT ?name WHERE { GRAPH ?name { tp }} *)

Inductive uast :=
| AInsertData (trailing_nl : bool) (g : option cid) (ts : list triple)  (* INSERT DATA { [GRAPH g {] ts [}] } *)
| AModify (w : option cid) (tp : tpat)    (* [WITH g] DELETE { tp . } WHERE { tp . } *)
| ACreate (g : cid)                       (* CREATE GRAPH g *)
| ADrop (g : option cid).                 (* DROP GRAPH g / DROP DEFAULT *)

(* ------------------------------------------------------------------ *)
(* the printer: the exact strings of sparqlstore.py                     *)

Definition var_text (v : var) : text :=
  match v with
  | Vs => T "?s" | Vp => T "?p" | Vo => T "?o" | VS => T "?S" | VP => T "?P" | VO => T "?O"
  | Vname => T "?name" | Vc => T "?c"
  end.

Definition node_text (n : node) : text := match n with NV v => var_text v | NT t => [PT t] end.

Definition tp_text (tp : tpat) : text :=
  let '(s, p, o) := tp in node_text s ++ T " " ++ node_text p ++ T " " ++ node_text o.

Definition triple_text (t : triple) : text :=   (* "%s %s %s ." *)
  let '(s, p, o) := t in [PT s] ++ T " " ++ [PT p] ++ T " " ++ [PT o] ++ T " .".

Definition print_q (q : qast) : text :=
  match q with
  | QSelect vs tp => T "SELECT " ++ join (T " ") (map var_text vs) ++ T "  { " ++ tp_text tp ++ T " }"
  | QAsk tp => T "ASK { " ++ tp_text tp ++ T " }"
  | QCount => T "SELECT (count(*) as ?c) WHERE {?s ?p ?o .}"
  | QGraphs (Some tp) => T "SELECT ?name WHERE { GRAPH ?name { " ++ tp_text tp ++ T " }}"
  | QGraphs None => T "SELECT ?name WHERE { GRAPH ?name {} }"
  end.

Definition print_u (u : uast) : text :=
  match u with
  | AInsertData tnl g ts =>
      let body := join nl (map triple_text ts) in
      (match g with
       | Some g => T "INSERT DATA { GRAPH " ++ [PG g] ++ T " { " ++ body ++ T " } }"
       | None => T "INSERT DATA { " ++ body ++ T " }"
       end) ++ (if tnl then nl else [])
  | AModify w tp =>
      let t := tp_text tp ++ T " ." in
      match w with
      | Some g => T "WITH " ++ [PG g] ++ T " DELETE { " ++ t ++ T " } WHERE { " ++ t ++ T " }"
      | None => T "DELETE { " ++ t ++ T " } WHERE { " ++ t ++ T " } "
      end
  | ACreate g => T "CREATE GRAPH " ++ [PG g]
  | ADrop (Some g) => T "DROP GRAPH " ++ [PG g]
  | ADrop None => T "DROP DEFAULT"
  end.

(* ------------------------------------------------------------------ *)
(* from the operations to the AST (what the store's methods build)      *)

(* _is_contextual: the graph IRI that is named in the request, if any *)
Definition ctx_iri (c : option cid) : option cid :=
  match c with
  | None => None
  | Some g => if N.eqb g 0 then None else Some g
  end.

Definition pos_node (v : var) (x : option term) : node := match x with None => NV v | Some t => NT t end.
Definition pos_vars (v : var) (x : option term) : list var := match x with None => [v] | Some _ => [] end.

(* SPARQLStore.triples *)
Definition triples_q (p : pat) : qast :=
  let '(s, pr, o) := p in
  let tp := (pos_node Vs s, pos_node Vp pr, pos_node Vo o) in
  match pos_vars Vs s ++ pos_vars Vp pr ++ pos_vars Vo o with
  | [] => QAsk tp
  | vs => QSelect vs tp
  end.

Definition tp_of_triple (t : triple) : tpat := let '(s, p, o) := t in (NT s, NT p, NT o).

(* a read: the query and its default-graph-uri parameter *)
Definition read_q (o : op) : option (qast * option cid) :=
  match o with
  | OTriples p c => Some (triples_q p, ctx_iri c)
  | OLen c => Some (QCount, ctx_iri c)
  | OContexts t => Some (QGraphs (option_map tp_of_triple t), None)
  | _ => None
  end.

(* SPARQLUpdateStore.remove: ?S ?P ?O for the wildcards *)
Definition remove_tp (p : pat) : tpat :=
  let '(s, pr, o) := p in (pos_node VS s, pos_node VP pr, pos_node VO o).

(* the statements a write appends to the queue (user-supplied update texts are
   the subject of Remote/NamedGraph.v) *)
Definition write_asts (o : op) : option (list uast) :=
  match o with
  | OAdd t c => Some [AInsertData false (ctx_iri c) [t]]
  | OAddN qs => Some (map (fun gt => AInsertData true (ctx_iri (Some (fst gt))) (snd gt)) (group qs))
  | ORemove p c => Some [AModify (ctx_iri c) (remove_tp p)]
  | OAddGraph g => if N.eqb g 0 then None else Some [ACreate g]
  | ORemoveGraph g => Some [ADrop (ctx_iri (Some g))]
  | _ => None
  end.

(* ------------------------------------------------------------------ *)
(* denotation of the AST on the endpoint                                *)

Definition binding := list (var * term).

Fixpoint lookup (v : var) (b : binding) : option term :=
  match b with
  | [] => None
  | (v', x) :: r => if var_eqb v v' then Some x else lookup v r
  end.

Definition match_node (n : node) (x : term) (b : binding) : option binding :=
  match n with
  | NT t => if N.eqb t x then Some b else None
  | NV v => match lookup v b with
            | Some y => if N.eqb y x then Some b else None
            | None => Some (b ++ [(v, x)])
            end
  end.

Definition match_tp (tp : tpat) (t : triple) : option binding :=
  let '(ns, np, no) := tp in let '(s, p, o) := t in
  match match_node ns s [] with
  | Some b1 => match match_node np p b1 with
               | Some b2 => match_node no o b2
               | None => None
               end
  | None => None
  end.

(* solutions of a one-triple basic graph pattern over a graph, one per matching triple *)
Definition eval_tp (tp : tpat) (g : list triple) : list binding :=
  flat_map (fun t => match match_tp tp t with Some b => [b] | None => [] end) g.

Definition graph_triples (g : cid) (s : qset) : list triple :=
  map fst (filter (fun q => N.eqb (snd q) g) s).

(* the graph a request without / with a graph IRI addresses at the endpoint *)
Definition active (alias : bool) (g : option cid) : cid :=
  resolve alias (match g with None => GDefault | Some g => GIri g end).

Inductive qres := RRows (vs : list var) (rows : list binding) | RBool (b : bool).

Definition project (vs : list var) (b : binding) : binding :=
  flat_map (fun v => match lookup v b with Some x => [(v, x)] | None => [] end) vs.

Definition sem_q (alias : bool) (q : qast) (dg : option cid) (e : ep) : qres :=
  let g := graph_triples (active alias dg) (quads e) in
  match q with
  | QSelect vs tp => RRows vs (map (project vs) (eval_tp tp g))
  | QAsk tp => RBool (negb (match eval_tp tp g with [] => true | _ => false end))
  | QCount => RRows [Vc] [[(Vc, N.of_nat (length (eval_tp (NV Vs, NV Vp, NV Vo) g)))]]
      (* the count is carried in the term slot as a number *)
  | QGraphs (Some tp) =>
      RRows [Vname]
        (flat_map (fun q => if negb (N.eqb (snd q) 0)
                            then match match_tp tp (fst q) with Some _ => [[(Vname, snd q)]] | None => [] end
                            else []) (quads e))
  | QGraphs None => RRows [Vname] (map (fun n => [(Vname, n)]) (names e))
  end.

(* what the store makes of the result (the code after self._query(...)) *)
Definition row_node (n : node) (b : binding) : term :=
  match n with
  | NT t => t
  | NV v => match lookup v b with Some x => x | None => 0 (* urn:undef *) end
  end.

Definition decode (o : op) (r : qres) : ans :=
  match o with
  | OTriples p _ =>
      match r with
      | RRows _ rows =>
          let '(s, pr, ob) := p in
          ATriples (map (fun b => (row_node (pos_node Vs s) b, row_node (pos_node Vp pr) b, row_node (pos_node Vo ob) b)) rows)
      | RBool b =>
          match p with
          | (Some s, Some pr, Some ob) => ATriples (if b then [(s, pr, ob)] else [])
          | _ => ARaised
          end
      end
  | OLen _ => match r with RRows _ [b] => ANum (row_node (NV Vc) b) | _ => ARaised end
  | OContexts _ => match r with RRows _ rows => ANames (map (row_node (NV Vname)) rows) | _ => ARaised end
  | _ => ARaised
  end.

Definition inst (tp : tpat) (b : binding) : triple :=
  let '(s, p, o) := tp in (row_node s b, row_node p b, row_node o b).

Definition sem_u (alias : bool) (u : uast) (e : ep) : ep :=
  match u with
  | AInsertData _ g ts =>
      let g' := active alias g in
      {| quads := ins_quads g' ts (quads e);
         names := match ts with [] => names e | _ => name_add g' (names e) end |}
  | AModify w tp =>
      (* solutions of WHERE over the WITH graph, all instantiated DELETE templates removed from it *)
      let g' := active alias w in
      let dels := map (inst tp) (eval_tp tp (graph_triples g' (quads e))) in
      {| quads := filter (fun q => negb (N.eqb (snd q) g' && memb triple_eqb (fst q) dels)) (quads e);
         names := names e |}
  | ACreate g => {| quads := quads e; names := name_add g (names e) |}
  | ADrop g =>
      let g' := active alias g in
      {| quads := filter (fun q => negb (N.eqb (snd q) g')) (quads e); names := srem N.eqb g' (names e) |}
  end.

(* ------------------------------------------------------------------ *)
(* the wire: the requests each operation of a history sends            *)

Inductive req := RQuery (dg : option cid) (t : text) | RUpdate (t : text).

Record wst := { w_m : mst; w_texts : list text }.   (* queued statements, in parallel to m_edits *)

Definition sep : text := [PS [10; 59; 10]].         (* "\n;\n" *)

Definition flush_reqs (texts : list text) : list req :=
  match texts with [] => [] | _ => [RUpdate (norm (join sep texts))] end.

Definition w_step (alias : bool) (w : wst) (o : op) : wst * list req :=
  let m := w_m w in
  let m' := fst (m_step alias m o) in
  match o with
  | OCommit => ({| w_m := m'; w_texts := [] |}, flush_reqs (w_texts w))
  | ORollback => ({| w_m := m'; w_texts := [] |}, [])
  | OSetAuto _ | OSetDirty _ => ({| w_m := m'; w_texts := w_texts w |}, [])
  | _ =>
      match write_asts o with
      | Some us =>
          let ts := w_texts w ++ map print_u us in
          if m_auto m then ({| w_m := m'; w_texts := [] |}, flush_reqs ts)
          else ({| w_m := m'; w_texts := ts |}, [])
      | None =>
          match read_q o with
          | Some (q, dg) =>
              let rq := [RQuery dg (norm (print_q q))] in
              if negb (m_auto m) && negb (m_dirty m)
              then ({| w_m := m'; w_texts := [] |}, flush_reqs (w_texts w) ++ rq)
              else ({| w_m := m'; w_texts := w_texts w |}, rq)
          | None => ({| w_m := m'; w_texts := w_texts w |}, [])
          end
      end
  end.

Fixpoint w_run (alias : bool) (w : wst) (ops : list op) : list (list req) :=
  match ops with
  | [] => []
  | o :: r => let '(w', rs) := w_step alias w o in rs :: w_run alias w' r
  end.

Definition model_wire (c : case) : list (list req) :=
  w_run (c_alias c)
        {| w_m := {| m_ep := init_ep c; m_edits := []; m_auto := c_auto c; m_dirty := c_dirty c |}; w_texts := [] |}
        (c_ops c).

Definition piece_eqb (a b : piece) : bool :=
  match a, b with
  | PS x, PS y => list_eqb N.eqb x y
  | PT x, PT y | PG x, PG y => N.eqb x y
  | _, _ => false
  end.

Definition req_eqb (a b : req) : bool :=
  match a, b with
  | RQuery d t, RQuery d' t' => opt_eqb N.eqb d d' && list_eqb piece_eqb t t'
  | RUpdate t, RUpdate t' => list_eqb piece_eqb t t'
  | _, _ => false
  end.

Definition wire_eqb (a b : list (list req)) : bool := list_eqb (list_eqb req_eqb) a b.

(* the histories of the wire suite: operations whose text the store composes itself *)
Definition wire_op (o : op) : bool :=
  match o with OUpdate _ _ | OBadUpdate | OQuery _ _ _ => false | _ => true end.

(* the suite's checker: the wire is what the printer gives for the AST of every request *)
Definition wire_spec (c : case) (obs : list (list req)) : bool :=
  Nat.eqb (length obs) (length (c_ops c)) && wire_eqb obs (model_wire c).
