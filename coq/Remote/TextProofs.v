(* C20, request text: the AST the store prints denotes the request algebra of
   Remote/Model.v. *)
From RV Require Import Remote.Model Remote.Proofs Remote.Text.
Local Open Scope N_scope.
Set Implicit Arguments.
Unset Strict Implicit.

(* ------------------------------------------------------------------ *)
(* graphs                                                               *)

Lemma active_ctx_iri alias c : active alias (ctx_iri c) = cid_of c.
Proof.
  destruct c as [g|]; simpl; auto. unfold ctx_iri, active.
  destruct (N.eqb_spec g 0) as [->|H]; simpl; auto.
  destruct (N.eqb_spec g 0); congruence.
Qed.

Lemma ctx_iri_ref c : match ctx_iri c with None => GDefault | Some g => GIri g end = ctx_ref c.
Proof. destruct c as [g|]; simpl; auto. destruct (N.eqb g 0); reflexivity. Qed.

Lemma q_triples_graph p g s : q_triples p g s = filter (matches p) (graph_triples g s).
Proof.
  unfold q_triples, graph_triples, qsel. induction s as [|[t c] r IH]; simpl; auto.
  rewrite (N.eqb_sym g c). destruct (N.eqb c g); simpl.
  - rewrite andb_true_r. destruct (matches p t); simpl; rewrite IH; reflexivity.
  - rewrite andb_false_r. exact IH.
Qed.

(* ------------------------------------------------------------------ *)
(* SELECT / ASK of one triple pattern                                   *)

Definition rebuild (p : pat) (b : binding) : triple :=
  let '(s, pr, o) := p in
  (row_node (pos_node Vs s) b, row_node (pos_node Vp pr) b, row_node (pos_node Vo o) b).

Definition pat_tp (p : pat) : tpat := let '(s, pr, o) := p in (pos_node Vs s, pos_node Vp pr, pos_node Vo o).
Definition pat_vars (p : pat) : list var := let '(s, pr, o) := p in pos_vars Vs s ++ pos_vars Vp pr ++ pos_vars Vo o.

(* one triple: the solution of the pattern, projected on the selected variables and
   rebuilt by the store, is the triple itself exactly when it matches *)
Lemma select_one p t :
  map (rebuild p) (map (project (pat_vars p)) (match match_tp (pat_tp p) t with Some b => [b] | None => [] end))
  = if matches p t then [t] else [].
Proof.
  destruct p as [[s pr] o], t as [[a b] c].
  destruct s as [s|], pr as [pr|], o as [o|]; simpl;
    repeat match goal with |- context [N.eqb ?x ?y] => destruct (N.eqb_spec x y); subst; simpl end;
    reflexivity.
Qed.

Lemma select_all p l :
  map (rebuild p) (map (project (pat_vars p)) (eval_tp (pat_tp p) l)) = filter (matches p) l.
Proof.
  unfold eval_tp. induction l as [|t r IH]; [reflexivity|].
  cbn [flat_map filter]. rewrite !map_app, IH, select_one. destruct (matches p t); reflexivity.
Qed.

Lemma eval_bound t l :
  eval_tp (tp_of_triple t) l = map (fun _ => []) (filter (matches (pat_of t)) l).
Proof.
  unfold eval_tp. induction l as [|[[a b] c] r IH]; [reflexivity|].
  cbn [flat_map filter]. rewrite IH. destruct t as [[s p] o]. simpl.
  repeat match goal with |- context [N.eqb ?x ?y] => destruct (N.eqb_spec x y); subst; simpl end; reflexivity.
Qed.

Lemma bound_answers t l : NoDup l ->
  filter (matches (pat_of t)) l = [] \/ filter (matches (pat_of t)) l = [t].
Proof.
  intros H. assert (Hn : NoDup (filter (matches (pat_of t)) l)) by (apply filter_NoDup; exact H).
  assert (He : forall x, In x (filter (matches (pat_of t)) l) -> x = t).
  { intros x Hx. apply filter_In in Hx. destruct Hx as [_ Hx]. apply matches_pat_of in Hx. auto. }
  destruct (filter (matches (pat_of t)) l) as [|x [|y r]]; auto.
  - right. rewrite (He x); auto. left; reflexivity.
  - exfalso. inversion Hn as [|? ? Hx _]; subst. apply Hx.
    rewrite (He x), (He y); simpl; auto.
Qed.

Lemma graph_triples_NoDup g s : NoDup s -> NoDup (graph_triples g s).
Proof.
  intros H. pose proof (q_triples_NoDup all_pat g H) as Hq. rewrite q_triples_graph in Hq.
  assert (E : filter (matches all_pat) (graph_triples g s) = graph_triples g s).
  { generalize (graph_triples g s). induction l as [|x r IH]; [reflexivity|]. cbn [filter]. rewrite matches_all, IH. reflexivity. }
  rewrite E in Hq. exact Hq.
Qed.

Lemma ctx_one t (q : triple * N) :
  (if negb (N.eqb (snd q) 0)
   then match match_tp (tp_of_triple t) (fst q) with Some _ => [[(Vname, snd q)]] | None => [] end
   else []) = if matches (pat_of t) (fst q) && negb (N.eqb (snd q) 0) then [[(Vname, snd q)]] else [].
Proof.
  destruct t as [[s p] o], q as [[[a b] d] g]. cbn [fst snd]. destruct (N.eqb g 0); simpl.
  - rewrite andb_false_r. reflexivity.
  - repeat match goal with |- context [N.eqb ?x ?y] => destruct (N.eqb_spec x y); subst; simpl end; reflexivity.
Qed.

(* ------------------------------------------------------------------ *)
(* reads: the query the store prints, evaluated at the endpoint and      *)
(* decoded by the store, is the answer of the request algebra            *)

Theorem reads_denote alias o q dg e : read_q o = Some (q, dg) -> NoDup (quads e) ->
  decode o (sem_q alias q dg e) = read_ans alias o e.
Proof.
  intros Hq Hn. destruct o as [| | | | | | | | | | |p c|c|t|]; try discriminate; simpl in Hq.
  - (* triples *)
    injection Hq as <- <-. cbn [read_ans]. rewrite resolve_ctx_ref, q_triples_graph.
    destruct p as [[s pr] o]. unfold triples_q.
    destruct (pos_vars Vs s ++ pos_vars Vp pr ++ pos_vars Vo o) as [|v vs] eqn:Ev.
    + (* ASK *)
      destruct s as [s|]; [|discriminate]. destruct pr as [pr|]; [|discriminate]. destruct o as [o|]; [|discriminate].
      cbn [sem_q decode]. rewrite active_ctx_iri.
      change (pos_node Vs (Some s), pos_node Vp (Some pr), pos_node Vo (Some o)) with (tp_of_triple (s, pr, o)).
      rewrite eval_bound. change (Some s, Some pr, Some o) with (pat_of (s, pr, o)).
      destruct (bound_answers (s, pr, o) (graph_triples_NoDup (cid_of c) Hn)) as [E|E]; rewrite E; reflexivity.
    + (* SELECT *)
      cbn [sem_q]. rewrite active_ctx_iri, <- Ev.
      change (pos_vars Vs s ++ pos_vars Vp pr ++ pos_vars Vo o) with (pat_vars (s, pr, o)).
      change (pos_node Vs s, pos_node Vp pr, pos_node Vo o) with (pat_tp (s, pr, o)).
      cbn [decode]. rewrite <- (select_all (s, pr, o)). reflexivity.
  - (* len *)
    injection Hq as <- <-. cbn [read_ans sem_q decode row_node lookup var_eqb]. rewrite active_ctx_iri, resolve_ctx_ref.
    unfold graph_len. rewrite q_triples_graph. f_equal. f_equal.
    generalize (graph_triples (cid_of c) (quads e)). unfold eval_tp.
    induction l as [|[[a b] d] r IH]; simpl; auto.
  - (* contexts *)
    injection Hq as <- <-. destruct t as [t|]; cbn [read_ans sem_q decode option_map].
    + unfold ctx_rows. f_equal. clear Hn. generalize (quads e). unfold qset, quad, cid. intros l.
      induction l as [|q r IH]; [reflexivity|].
      match goal with |- map _ (flat_map ?F _) = map _ (filter ?G _) =>
        change (flat_map F (q :: r)) with (F q ++ flat_map F r);
        change (filter G (q :: r)) with (if G q then q :: filter G r else filter G r) end.
      cbv beta. rewrite ctx_one, map_app.
      destruct (matches (pat_of t) (fst q) && negb (N.eqb (snd q) 0)); simpl; [f_equal|]; exact IH.
    + rewrite map_map. simpl. rewrite map_id. reflexivity.
Qed.

(* ------------------------------------------------------------------ *)
(* updates                                                              *)

(* DELETE { tp } WHERE { tp } over one graph removes exactly the triples the pattern matches *)
Lemma inst_match p t b : match_tp (remove_tp p) t = Some b -> inst (remove_tp p) b = t /\ matches p t = true.
Proof.
  destruct p as [[s pr] o], t as [[a c] d].
  destruct s as [s|], pr as [pr|], o as [o|]; simpl;
    repeat match goal with |- context [N.eqb ?x ?y] => destruct (N.eqb_spec x y); subst; simpl end;
    intros [= <-]; simpl; auto.
Qed.

Lemma match_some p t : matches p t = true -> exists b, match_tp (remove_tp p) t = Some b.
Proof.
  destruct p as [[s pr] o], t as [[a c] d].
  destruct s as [s|], pr as [pr|], o as [o|]; simpl;
    repeat match goal with |- context [N.eqb ?x ?y] => destruct (N.eqb_spec x y); subst; simpl end;
    intros H; try discriminate; eexists; reflexivity.
Qed.

Lemma dels_In p l t :
  In t (map (inst (remove_tp p)) (eval_tp (remove_tp p) l)) <-> In t l /\ matches p t = true.
Proof.
  unfold eval_tp. rewrite in_map_iff. split.
  - intros [b [E Hb]]. apply in_flat_map in Hb. destruct Hb as [t' [Ht' Hb]].
    destruct (match_tp (remove_tp p) t') as [b'|] eqn:Em; [|destruct Hb].
    destruct Hb as [<-|[]]. destruct (inst_match Em) as [E1 E2]. rewrite E1 in E. subst t'. auto.
  - intros [Hl Hm]. destruct (match_some Hm) as [b Eb]. exists b. split; [apply (inst_match Eb)|].
    apply in_flat_map. exists t. split; auto. rewrite Eb. left; reflexivity.
Qed.

Lemma modify_removes alias w p e :
  sem_u alias (AModify w (remove_tp p)) e =
  {| quads := q_remove p (Some (active alias w)) (quads e); names := names e |}.
Proof.
  cbn [sem_u]. f_equal. unfold q_remove. apply filter_ext_in. intros [t g] Hq. f_equal.
  unfold qsel. cbn [fst snd]. rewrite (N.eqb_sym (active alias w) g).
  destruct (N.eqb_spec g (active alias w)) as [->|Hg]; [|rewrite andb_false_r; reflexivity].
  rewrite andb_true_r. cbn [andb].
  destruct (matches p t) eqn:Em.
  - apply (memb_In _ triple_eqb_spec). apply dels_In. split; auto.
    unfold graph_triples. apply in_map_iff. exists (t, active alias w). split; auto.
    apply filter_In. split; auto. simpl. apply N.eqb_refl.
  - apply (memb_false _ triple_eqb_spec). intros H. apply dels_In in H. destruct H as [_ H]. congruence.
Qed.

Lemma drop_removes g s : filter (fun q : quad => negb (N.eqb (snd q) g)) s = q_remove all_pat (Some g) s.
Proof.
  unfold q_remove. apply filter_ext. intros [t c]. unfold qsel. cbn [fst snd].
  rewrite matches_all, (N.eqb_sym g c). reflexivity.
Qed.

(* every statement the store prints for a write denotes, at the endpoint, the
   request-algebra term [compile] gives for it (the term of the simulation) *)
Theorem writes_denote alias o asts : write_asts o = Some asts ->
  exists us, compile o = Some us /\
    Forall2 (fun a u => forall e, sem_u alias a e = apply_upd alias e u) asts us.
Proof.
  destruct o as [t c|qs|p c|g|g| | | | | | | | | | ]; try discriminate; cbn [write_asts compile]; intros H.
  - injection H as <-. eexists; split; [reflexivity|]. constructor; [|constructor].
    intros e. cbn [sem_u apply_upd]. unfold active. rewrite ctx_iri_ref. reflexivity.
  - injection H as <-. eexists; split; [reflexivity|].
    induction (group qs) as [|gt r IH]; cbn [map]; constructor; auto.
    intros e. cbn [sem_u apply_upd]. unfold active, ctx_iri, ctx_ref. destruct (N.eqb (fst gt) 0); reflexivity.
  - injection H as <-. eexists; split; [reflexivity|]. constructor; [|constructor].
    intros e. rewrite modify_removes. cbn [apply_upd]. unfold active. rewrite ctx_iri_ref. reflexivity.
  - destruct (N.eqb g 0); [discriminate|]. injection H as <-. eexists; split; [reflexivity|].
    constructor; [|constructor]. intros e. reflexivity.
  - injection H as <-. eexists; split; [reflexivity|]. constructor; [|constructor].
    intros e. cbn [sem_u apply_upd]. rewrite drop_removes. unfold active, ctx_iri.
    destruct (N.eqb g 0); reflexivity.
Qed.

(* ------------------------------------------------------------------ *)
(* the wire and the queue: an update request goes out exactly when the   *)
(* queue is sent, and carries one statement per queued edit              *)

Definition wire_inv (w : wst) : Prop := length (w_texts w) = length (m_edits (w_m w)).

Lemma write_asts_compile_length o asts us : write_asts o = Some asts -> compile o = Some us ->
  length asts = length us.
Proof.
  destruct o; try discriminate; simpl; intros H1 H2;
    try (injection H1 as <-; injection H2 as <-; rewrite ?map_length; reflexivity).
  destruct (N.eqb g 0); [discriminate|]. injection H1 as <-; injection H2 as <-. reflexivity.
Qed.
