(* C20 - model of rdflib/plugins/stores/sparqlstore.py (SPARQLStore /
   SPARQLUpdateStore) talking to a SPARQL endpoint.

   (a) the endpoint is the specification-level dataset: a set of quads plus
       the set of named graphs that exist (possibly empty);
   (b) every request the client builds is represented by the ALGEBRA its text
       denotes (which graph it designates, which pattern / triples), not by
       the text: the text, the regex rewriting and HTTP are conformance only;
   (c) the edit queue ([_edits], [autocommit], [dirty_reads], [commit],
       [rollback], reads committing first) is mirrored statement by statement.
   No proofs in this file. *)
From RV Require Export Base.Quads.
Local Open Scope N_scope.

(* ------------------------------------------------------------------ *)
(* The endpoint                                                        *)

Record ep := { quads : qset; names : list cid }.

(* graph 0 is the endpoint's default graph.  [dflt_iri] is the NAMED graph
   whose name is the IRI <urn:x-rdflib:default> (rdflib's
   DATASET_DEFAULT_GRAPH_ID); it is an ordinary named graph on every endpoint
   except one that is itself an rdflib Dataset, which aliases it to its
   default graph. *)
Definition dflt_iri : cid := 9.

(* how a request designates a graph: no GRAPH / WITH / default-graph-uri at
   all, or the IRI of client graph [g] (client graph 0 = <urn:x-rdflib:default>) *)
Inductive gref := GDefault | GIri (g : cid).

Definition resolve (alias : bool) (r : gref) : cid :=
  match r with
  | GDefault => 0
  | GIri g => if N.eqb g 0 then (if alias then 0 else dflt_iri) else g
  end.

(* the update operations the client's texts denote *)
Inductive upd :=
| UInsert (r : gref) (ts : list triple)     (* INSERT DATA { [GRAPH r {] ts [}] } *)
| UDelWhere (r : gref) (p : pat)            (* [WITH r] DELETE { p } WHERE { p }, DELETE DATA, DELETE WHERE *)
| UDrop (r : gref)                          (* DROP GRAPH r / DROP DEFAULT *)
| UCreate (g : cid)                         (* CREATE GRAPH g *)
| UBad.                                     (* a text the endpoint rejects *)

Definition all_pat : pat := (None, None, None).

Definition name_add (g : cid) (n : list cid) : list cid :=
  if N.eqb g 0 then n else sadd N.eqb g n.

Definition ins_quads (g : cid) (ts : list triple) (s : qset) : qset :=
  fold_left (fun acc t => q_add (t, g) acc) ts s.

Definition apply_upd (alias : bool) (e : ep) (u : upd) : ep :=
  match u with
  | UInsert r ts =>
      let g := resolve alias r in
      {| quads := ins_quads g ts (quads e);
         names := match ts with [] => names e | _ => name_add g (names e) end |}
  | UDelWhere r p =>
      {| quads := q_remove p (Some (resolve alias r)) (quads e); names := names e |}
  | UDrop r =>
      let g := resolve alias r in
      {| quads := q_remove all_pat (Some g) (quads e); names := srem N.eqb g (names e) |}
  | UCreate g => {| quads := quads e; names := name_add g (names e) |}
  | UBad => e
  end.

Definition is_bad (u : upd) : bool := match u with UBad => true | _ => false end.

(* one update request = the queued edits joined with ";": rejected as a whole
   if any part does not parse, otherwise executed in order *)
Definition send (alias : bool) (e : ep) (us : list upd) : option ep :=
  if existsb is_bad us then None else Some (fold_left (apply_upd alias) us e).

(* ------------------------------------------------------------------ *)
(* The client                                                          *)

(* user-supplied update texts (store.update(text, queryGraph=...)) *)
Inductive uop :=
| UoInsertData (t : triple)
| UoDeleteData (t : triple)
| UoDeleteWhere (p : pat)
| UoDeleteWhereB (p : pat).   (* DELETE {?s ?p ?o} WHERE {?s ?p ?o} with the bound positions as initBindings *)

Inductive op :=
| OAdd (t : triple) (c : option cid)        (* context: None, or a Graph with that identifier *)
| OAddN (qs : list quad)                    (* contexts are Graph objects *)
| ORemove (p : pat) (c : option cid)
| OAddGraph (g : cid)
| ORemoveGraph (g : cid)
| OUpdate (u : uop) (c : option cid)        (* queryGraph: None or an identifier *)
| OBadUpdate                                (* update() with a text the endpoint rejects *)
| OCommit
| ORollback
| OSetAuto (b : bool)
| OSetDirty (b : bool)
| OTriples (p : pat) (c : option cid)       (* triples / __contains__ *)
| OLen (c : option cid)
| OContexts (t : option triple)
| OQuery (k : N) (p : pat) (c : option cid). (* query(text, queryGraph=c); k = which text (conformance) *)

Inductive ans :=
| ANone
| ATriples (l : list triple)
| ANum (n : N)
| ANames (l : list cid)
| ARaised.

(* _is_contextual(graph) for a Graph object or None *)
Definition ctx_ref (c : option cid) : gref :=
  match c with
  | None => GDefault
  | Some g => if N.eqb g 0 then GDefault else GIri g
  end.

(* _is_contextual(queryGraph) for an identifier, which is a str: only the
   string "__UNION__" is excluded, the default graph's IRI is not *)
Definition qg_ref (c : option cid) : gref :=
  match c with None => GDefault | Some g => GIri g end.

(* addN: collections.defaultdict(list) keyed by the context, insertion order *)
Fixpoint group_add (t : triple) (g : cid) (l : list (cid * list triple)) : list (cid * list triple) :=
  match l with
  | [] => [(g, [t])]
  | (g', ts) :: r => if N.eqb g g' then (g', ts ++ [t]) :: r else (g', ts) :: group_add t g r
  end.

Definition group (qs : list quad) : list (cid * list triple) :=
  fold_left (fun acc q => group_add (fst q) (snd q) acc) qs [].

(* update(initBindings=...) splices the VALUES text in with
   where_pattern.sub("WHERE { " + values, query): the text is used as a regex
   REPLACEMENT TEMPLATE, so an escaped backslash in a term's n3 form becomes a
   single backslash, an escaped CR a raw CR, and so on.
   For the terms of the harness pool whose n3 form is changed by that, the table
   gives the term the rewritten text denotes (None: it no longer parses, the
   endpoint rejects the request).  The harness asserts the table against
   re.sub and the endpoint's parser. *)
Definition resub_table : list (term * option term) := [(19, None); (21, None); (27, Some 28)].

Fixpoint assoc (t : term) (l : list (term * option term)) : option (option term) :=
  match l with
  | [] => None
  | (k, v) :: r => if N.eqb t k then Some v else assoc t r
  end.

Definition resub_term (t : term) : option term :=
  match assoc t resub_table with Some v => v | None => Some t end.

Definition resub_pos (x : option term) : option (option term) :=
  match x with
  | None => Some None
  | Some t => match resub_term t with Some t' => Some (Some t') | None => None end
  end.

Definition resub_pat (p : pat) : option pat :=
  let '(s, pr, o) := p in
  match resub_pos s, resub_pos pr, resub_pos o with
  | Some s', Some p', Some o' => Some (s', p', o')
  | _, _, _ => None
  end.

Definition compile_uop (u : uop) (r : gref) : upd :=
  match u with
  | UoInsertData t => UInsert r [t]
  | UoDeleteData t => UDelWhere r (pat_of t)
  | UoDeleteWhere p => UDelWhere r p
  | UoDeleteWhereB p => match resub_pat p with Some p' => UDelWhere r p' | None => UBad end
  end.

(* the edits an operation appends to the queue (None: not a write) *)
Definition compile (o : op) : option (list upd) :=
  match o with
  | OAdd t c => Some [UInsert (ctx_ref c) [t]]
  | OAddN qs => Some (map (fun gt => UInsert (GIri (fst gt)) (snd gt)) (group qs))
  | ORemove p c => Some [UDelWhere (ctx_ref c) p]
  | OAddGraph g => if N.eqb g 0 then None else Some [UCreate g]
  | ORemoveGraph g => Some [UDrop (if N.eqb g 0 then GDefault else GIri g)]
  | OUpdate u c => Some [compile_uop u (qg_ref c)]
  | OBadUpdate => Some [UBad]
  | _ => None
  end.

Record mst := { m_ep : ep; m_edits : list upd; m_auto : bool; m_dirty : bool }.

Definition set_ep (s : mst) (e : ep) (l : list upd) : mst :=
  {| m_ep := e; m_edits := l; m_auto := m_auto s; m_dirty := m_dirty s |}.

(* commit(): if self._edits: self._update(join(edits)); self._edits = None
   - an exception in _update leaves the queue as it is.  (_edits None and []
   behave alike and are both the empty list here.) *)
Definition m_commit (alias : bool) (s : mst) : mst * bool :=
  match m_edits s with
  | [] => (s, true)
  | us => match send alias (m_ep s) us with
          | Some e' => (set_ep s e' [], true)
          | None => (s, false)
          end
  end.

Definition m_write (alias : bool) (s : mst) (us : list upd) : mst * ans :=
  let s1 := set_ep s (m_ep s) (m_edits s ++ us) in
  if m_auto s then
    let '(s2, ok) := m_commit alias s1 in (s2, if ok then ANone else ARaised)
  else (s1, ANone).

(* Python truthiness of the terms of the harness pool ("" 0 false 0.0);
   the harness asserts this table against bool(term) *)
Definition falsy_ids : list N := [5; 6; 7; 14]%N.
Definition falsy (t : term) : bool := memb N.eqb t falsy_ids.

(* contexts(triple): nts(s if s else Variable("s")) ... *)
Definition truthy_pat (t : triple) : pat :=
  let '(s, p, o) := t in
  (if falsy s then None else Some s, if falsy p then None else Some p, if falsy o then None else Some o).

Definition graph_len (g : cid) (s : qset) : N := N.of_nat (length (q_triples all_pat g s)).

(* SELECT ?name WHERE { GRAPH ?name { pattern } }: one row per match in a named graph *)
Definition ctx_rows (p : pat) (s : qset) : list cid :=
  map snd (filter (fun q => matches p (fst q) && negb (N.eqb (snd q) 0)) s).

Definition read_ans (alias : bool) (o : op) (e : ep) : ans :=
  match o with
  | OTriples p c => ATriples (q_triples p (resolve alias (ctx_ref c)) (quads e))
  | OLen c => ANum (graph_len (resolve alias (ctx_ref c)) (quads e))
  | OContexts None => ANames (names e)
  | OContexts (Some t) => ANames (ctx_rows (truthy_pat t) (quads e))
  | OQuery _ p c => ATriples (q_triples p (resolve alias (qg_ref c)) (quads e))
  | _ => ANone
  end.

Definition is_read (o : op) : bool :=
  match o with OTriples _ _ | OLen _ | OContexts _ | OQuery _ _ _ => true | _ => false end.

Definition m_read (alias : bool) (s : mst) (o : op) : mst * ans :=
  if negb (m_auto s) && negb (m_dirty s) then
    let '(s2, ok) := m_commit alias s in
    (s2, if ok then read_ans alias o (m_ep s2) else ARaised)
  else (s, read_ans alias o (m_ep s)).

Definition m_step (alias : bool) (s : mst) (o : op) : mst * ans :=
  match o with
  | OCommit => let '(s2, ok) := m_commit alias s in (s2, if ok then ANone else ARaised)
  | ORollback => (set_ep s (m_ep s) [], ANone)
  | OSetAuto b => ({| m_ep := m_ep s; m_edits := m_edits s; m_auto := b; m_dirty := m_dirty s |}, ANone)
  | OSetDirty b => ({| m_ep := m_ep s; m_edits := m_edits s; m_auto := m_auto s; m_dirty := b |}, ANone)
  | _ =>
      match compile o with
      | Some us => m_write alias s us
      | None => if is_read o then m_read alias s o else (s, ANone)
      end
  end.

(* observation after every operation: the endpoint's dataset and the answer *)
Definition step_obs := (ep * ans)%type.

Fixpoint m_run (alias : bool) (s : mst) (ops : list op) : list step_obs :=
  match ops with
  | [] => []
  | o :: r => let '(s', a) := m_step alias s o in (m_ep s', a) :: m_run alias s' r
  end.

(* ------------------------------------------------------------------ *)
(* Specification: what the property says, as a checker over OBSERVED   *)
(* endpoint contents and answers.  It knows nothing of request texts,  *)
(* graph designators or the endpoint flavour.                          *)

(* what a write means on a local graph / dataset *)
Inductive wr :=
| WAdd (qs : list quad)
| WRemove (p : pat) (g : cid)
| WCreate (g : cid)
| WDrop (g : cid).

Definition cid_of (c : option cid) : cid := match c with None => 0 | Some g => g end.

Definition add_quad (e : ep) (q : quad) : ep :=
  {| quads := q_add q (quads e); names := name_add (snd q) (names e) |}.

Definition s_apply (e : ep) (w : wr) : ep :=
  match w with
  | WAdd qs => fold_left add_quad qs e
  | WRemove p g => {| quads := q_remove p (Some g) (quads e); names := names e |}
  | WCreate g => {| quads := quads e; names := name_add g (names e) |}
  | WDrop g => {| quads := q_remove all_pat (Some g) (quads e); names := srem N.eqb g (names e) |}
  end.

Inductive kind := KWrite (w : wr) | KBad | KCommit | KRollback | KAuto (b : bool) | KDirty (b : bool)
                | KRead | KNoop.

Definition classify (o : op) : kind :=
  match o with
  | OAdd t c => KWrite (WAdd [(t, cid_of c)])
  | OAddN qs => KWrite (WAdd qs)
  | ORemove p c => KWrite (WRemove p (cid_of c))
  | OAddGraph g => if N.eqb g 0 then KNoop else KWrite (WCreate g)
  | ORemoveGraph g => KWrite (WDrop g)
  | OUpdate (UoInsertData t) c => KWrite (WAdd [(t, cid_of c)])
  | OUpdate (UoDeleteData t) c => KWrite (WRemove (pat_of t) (cid_of c))
  | OUpdate (UoDeleteWhere p) c => KWrite (WRemove p (cid_of c))
  | OUpdate (UoDeleteWhereB p) c => KWrite (WRemove p (cid_of c))
  | OBadUpdate => KBad
  | OCommit => KCommit
  | ORollback => KRollback
  | OSetAuto b => KAuto b
  | OSetDirty b => KDirty b
  | _ => KRead
  end.

(* the answer of a read is exactly what the endpoint's dataset [now] contains *)
Definition read_ok (o : op) (now : ep) (a : ans) : bool :=
  match o, a with
  | OTriples p c, ATriples l => enum_ofb triple_eqb l (q_triples p (cid_of c) (quads now))
  | OQuery _ p c, ATriples l => enum_ofb triple_eqb l (q_triples p (cid_of c) (quads now))
  | OLen c, ANum n => N.eqb n (graph_len (cid_of c) (quads now))
  | OContexts None, ANames l => enum_ofb N.eqb l (names now)
  | OContexts (Some t), ANames l => enum_ofb N.eqb l (ctx_rows (pat_of t) (quads now))
  | _, _ => false
  end.

Definition ep_ok (now expected : ep) : bool :=
  nodupb quad_eqb (quads now) && qseteqb (quads now) (quads expected)
  && nodupb N.eqb (names now) && seteqb N.eqb (names now) (names expected).

Record sst := { s_prev : ep;            (* the endpoint's dataset as last observed *)
                s_pend : list wr;       (* writes made but not yet due at the endpoint, oldest first *)
                s_auto : bool; s_dirty : bool }.

Definition flushed (s : sst) : ep := fold_left s_apply (s_pend s) (s_prev s).

Definition s_next (s : sst) (now : ep) (pend : list wr) : sst :=
  {| s_prev := now; s_pend := pend; s_auto := s_auto s; s_dirty := s_dirty s |}.

Definition is_none (a : ans) : bool := match a with ANone => true | _ => false end.
Definition is_raised (a : ans) : bool := match a with ARaised => true | _ => false end.

Definition spec_step (s : sst) (o : op) (now : ep) (a : ans) : option sst :=
  match classify o with
  | KWrite w =>
      if s_auto s then
        if ep_ok now (s_apply (flushed s) w) && is_none a then Some (s_next s now []) else None
      else
        if ep_ok now (s_prev s) && is_none a then Some (s_next s now (s_pend s ++ [w])) else None
  | KBad =>   (* a rejected update raises and leaves no trace *)
      if ep_ok now (s_prev s) && is_raised a then Some (s_next s now (s_pend s)) else None
  | KCommit =>
      if ep_ok now (flushed s) && is_none a then Some (s_next s now []) else None
  | KRollback =>
      if ep_ok now (s_prev s) && is_none a then Some (s_next s now []) else None
  | KAuto b =>
      if ep_ok now (s_prev s) && is_none a
      then Some {| s_prev := now; s_pend := s_pend s; s_auto := b; s_dirty := s_dirty s |} else None
  | KDirty b =>
      if ep_ok now (s_prev s) && is_none a
      then Some {| s_prev := now; s_pend := s_pend s; s_auto := s_auto s; s_dirty := b |} else None
  | KRead =>
      if negb (s_auto s) && negb (s_dirty s) then
        if ep_ok now (flushed s) && read_ok o now a then Some (s_next s now []) else None
      else
        if ep_ok now (s_prev s) && read_ok o now a then Some (s_next s now (s_pend s)) else None
  | KNoop =>
      if ep_ok now (s_prev s) && is_none a then Some (s_next s now (s_pend s)) else None
  end.

Fixpoint spec_run (s : sst) (ops : list op) (obs : list step_obs) : bool :=
  match ops, obs with
  | [], [] => true
  | o :: r, (now, a) :: obs' =>
      match spec_step s o now a with
      | Some s' => spec_run s' r obs'
      | None => false
      end
  | _, _ => false
  end.

(* ------------------------------------------------------------------ *)
(* Entry points used by the correspondence check                       *)

Record case := { c_alias : bool;          (* endpoint flavour: is <urn:x-rdflib:default> its default graph? *)
                 c_auto : bool; c_dirty : bool;
                 c_init : qset; c_names : list cid;
                 c_ops : list op }.

Definition init_ep (c : case) : ep := {| quads := c_init c; names := c_names c |}.

Definition model_obs (c : case) : list step_obs :=
  m_run (c_alias c)
        {| m_ep := init_ep c; m_edits := []; m_auto := c_auto c; m_dirty := c_dirty c |}
        (c_ops c).

Definition spec_ok (c : case) (obs : list step_obs) : bool :=
  spec_run {| s_prev := init_ep c; s_pend := []; s_auto := c_auto c; s_dirty := c_dirty c |}
           (c_ops c) obs.

Definition wf (c : case) : Prop := NoDup (c_init c) /\ NoDup (c_names c).

(* multiset equality of answers (rows come back in no particular order, and a
   defective answer may repeat rows) *)
Definition count {A} (eqb : A -> A -> bool) (x : A) (l : list A) : nat :=
  length (filter (eqb x) l).
Definition mseteqb {A} (eqb : A -> A -> bool) (l m : list A) : bool :=
  forallb (fun x => Nat.eqb (count eqb x l) (count eqb x m)) (l ++ m).

Definition ans_obs_eqb (a b : ans) : bool :=
  match a, b with
  | ANone, ANone | ARaised, ARaised => true
  | ATriples l, ATriples m => mseteqb triple_eqb l m
  | ANum n, ANum m => N.eqb n m
  | ANames l, ANames m => mseteqb N.eqb l m
  | _, _ => false
  end.

Definition ep_obs_eqb (a b : ep) : bool :=
  mseteqb quad_eqb (quads a) (quads b) && mseteqb N.eqb (names a) (names b).

Definition obs_eqb (a b : list step_obs) : bool :=
  list_eqb (fun x y => ep_obs_eqb (fst x) (fst y) && ans_obs_eqb (snd x) (snd y)) a b.

(* ------------------------------------------------------------------ *)
(* Known findings: where the faithful model leaves the specification    *)

(* F13a: the client names the default graph by its rdflib-internal IRI *)
Definition uses_default_iri (o : op) : bool :=
  match o with
  | OAddN qs => existsb (fun q => N.eqb (snd q) 0) qs
  | OUpdate _ (Some g) => N.eqb g 0
  | OQuery _ _ (Some g) => N.eqb g 0
  | _ => false
  end.

(* F13b: contexts(triple) decides by truthiness which positions are bound *)
Definition falsy_contexts (o : op) : bool :=
  match o with
  | OContexts (Some (s, p, o')) => falsy s || falsy p || falsy o'
  | _ => false
  end.

(* F13c: a rejected update stays in the queue *)
Definition is_bad_op (o : op) : bool := match o with OBadUpdate => true | _ => false end.

(* F13d: initBindings of update() go through a regex replacement template *)
Definition in_resub (x : option term) : bool :=
  match x with Some t => match assoc t resub_table with Some _ => true | None => false end | None => false end.
Definition resub_hit (o : op) : bool :=
  match o with
  | OUpdate (UoDeleteWhereB (s, p, o')) _ => in_resub s || in_resub p || in_resub o'
  | _ => false
  end.

Definition kf (c : case) : N :=
  if negb (c_alias c) && existsb uses_default_iri (c_ops c) then 1
  else if existsb falsy_contexts (c_ops c) then 2
  else if existsb is_bad_op (c_ops c) then 3
  else if existsb resub_hit (c_ops c) then 4
  else 0.
