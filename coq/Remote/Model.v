(* C20 - model of rdflib/plugins/stores/sparqlstore.py (SPARQLStore /
   SPARQLUpdateStore) talking to a SPARQL endpoint.

   (a) the endpoint is the specification-level dataset: a set of quads plus
       the set of named graphs that exist (possibly empty);
   (b) every request the client builds is represented by the ALGEBRA its text
       denotes (which graph it designates, which pattern / triples), not by
       the text: the text, the regex rewriting and HTTP are conformance only;
   (c) the edit queue ([_edits], [autocommit], [dirty_reads], [commit],
       [rollback], reads committing first) is mirrored statement by statement.
   No proofs in this file. *)
From RV Require Export Base.Quads.
Local Open Scope N_scope.

(* ------------------------------------------------------------------ *)
(* The endpoint                                                        *)

Record ep := { quads : qset; names : list cid }.

(* graph 0 is the endpoint's default graph.  [dflt_iri] is the NAMED graph
   whose name is the IRI <urn:x-rdflib:default> (rdflib's
   DATASET_DEFAULT_GRAPH_ID); it is an ordinary named graph on every endpoint
   except one that is itself an rdflib Dataset, which aliases it to its
   default graph. *)
Definition dflt_iri : cid := 9.

(* how a request designates a graph: no GRAPH / WITH / default-graph-uri at
   all, or the IRI of client graph [g] (client graph 0 = <urn:x-rdflib:default>) *)
Inductive gref := GDefault | GIri (g : cid).

Definition resolve (alias : bool) (r : gref) : cid :=
  match r with
  | GDefault => 0
  | GIri g => if N.eqb g 0 then (if alias then 0 else dflt_iri) else g
  end.

(* the update operations the client's texts denote *)
Inductive upd :=
| UInsert (r : gref) (ts : list triple)     (* INSERT DATA { [GRAPH r {] ts [}] } *)
| UDelWhere (r : gref) (p : pat)            (* [WITH r] DELETE { p } WHERE { p }, DELETE DATA, DELETE WHERE *)
| UDrop (r : gref)                          (* DROP GRAPH r / DROP DEFAULT *)
| UCreate (g : cid)                         (* CREATE GRAPH g *)
| UBad.                                     (* a text the endpoint rejects *)

Definition all_pat : pat := (None, None, None).

Definition name_add (g : cid) (n : list cid) : list cid :=
  if N.eqb g 0 then n else sadd N.eqb g n.

Definition ins_quads (g : cid) (ts : list triple) (s : qset) : qset :=
  fold_left (fun acc t => q_add (t, g) acc) ts s.

Definition apply_upd (alias : bool) (e : ep) (u : upd) : ep :=
  match u with
  | UInsert r ts =>
      let g := resolve alias r in
      {| quads := ins_quads g ts (quads e);
         names := match ts with [] => names e | _ => name_add g (names e) end |}
  | UDelWhere r p =>
      {| quads := q_remove p (Some (resolve alias r)) (quads e); names := names e |}
  | UDrop r =>
      let g := resolve alias r in
      {| quads := q_remove all_pat (Some g) (quads e); names := srem N.eqb g (names e) |}
  | UCreate g => {| quads := quads e; names := name_add g (names e) |}
  | UBad => e
  end.

Definition is_bad (u : upd) : bool := match u with UBad => true | _ => false end.

(* one update request = the queued edits joined with ";": rejected as a whole
   if any part does not parse, otherwise executed in order *)
Definition send (alias : bool) (e : ep) (us : list upd) : option ep :=
  if existsb is_bad us then None else Some (fold_left (apply_upd alias) us e).

(* ------------------------------------------------------------------ *)
(* The client                                                          *)

(* user-supplied update texts (store.update(text, queryGraph=...)) *)
Inductive uop :=
| UoInsertData (t : triple)
| UoDeleteData (t : triple)
| UoDeleteWhere (p : pat)
| UoDeleteWhereB (p : pat).   (* DELETE {?s ?p ?o} WHERE {?s ?p ?o} with the bound positions as initBindings *)

Inductive op :=
| OAdd (t : triple) (c : option cid)        (* context: None, or a Graph with that identifier *)
| OAddN (qs : list quad)                    (* contexts are Graph objects *)
| ORemove (p : pat) (c : option cid)
| OAddGraph (g : cid)
| ORemoveGraph (g : cid)
| OUpdate (u : uop) (c : option cid)        (* queryGraph: None or an identifier *)
| OBadUpdate                                (* update() with a text the endpoint rejects *)
| OCommit
| ORollback
| OSetAuto (b : bool)
| OSetDirty (b : bool)
| OTriples (p : pat) (c : option cid)       (* triples / __contains__ *)
| OLen (c : option cid)
| OContexts (t : option triple)
| OQuery (k : N) (p : pat) (c : option cid). (* query(text, queryGraph=c); k = which text (conformance) *)

Inductive ans :=
| ANone
| ATriples (l : list triple)
| ANum (n : N)
| ANames (l : list cid)
| ARaised.

(* _is_contextual(graph) for a Graph object or None *)
Definition ctx_ref (c : option cid) : gref :=
  match c with
  | None => GDefault
  | Some g => if N.eqb g 0 then GDefault else GIri g
  end.

(* _is_contextual(queryGraph) for an identifier, which is a str: "__UNION__"
   (never passed here) and the default graph's IRI are not contextual *)
Definition qg_ref (c : option cid) : gref := ctx_ref c.

(* as it was before the "fix:" commit e1d625e1 (finding F13a): only "__UNION__" was excluded *)
Definition qg_ref_hist (c : option cid) : gref :=
  match c with None => GDefault | Some g => GIri g end.

(* addN: collections.defaultdict(list) keyed by the context, insertion order *)
Fixpoint group_add (t : triple) (g : cid) (l : list (cid * list triple)) : list (cid * list triple) :=
  match l with
  | [] => [(g, [t])]
  | (g', ts) :: r => if N.eqb g g' then (g', ts ++ [t]) :: r else (g', ts) :: group_add t g r
  end.

Definition group (qs : list quad) : list (cid * list triple) :=
  fold_left (fun acc q => group_add (fst q) (snd q) acc) qs [].

(* update(initBindings=...): the VALUES text is spliced in after "WHERE {"
   literally (function replacement, commit f0b9913b repaired finding F13d) *)
Definition compile_uop (u : uop) (r : gref) : upd :=
  match u with
  | UoInsertData t => UInsert r [t]
  | UoDeleteData t => UDelWhere r (pat_of t)
  | UoDeleteWhere p => UDelWhere r p
  | UoDeleteWhereB p => UDelWhere r p
  end.

(* the edits an operation appends to the queue (None: not a write) *)
Definition compile (o : op) : option (list upd) :=
  match o with
  | OAdd t c => Some [UInsert (ctx_ref c) [t]]
  | OAddN qs => Some (map (fun gt => UInsert (ctx_ref (Some (fst gt))) (snd gt)) (group qs))
  | ORemove p c => Some [UDelWhere (ctx_ref c) p]
  | OAddGraph g => if N.eqb g 0 then None else Some [UCreate g]
  | ORemoveGraph g => Some [UDrop (if N.eqb g 0 then GDefault else GIri g)]
  | OUpdate u c => Some [compile_uop u (qg_ref c)]
  | OBadUpdate => Some [UBad]
  | _ => None
  end.

Record mst := { m_ep : ep; m_edits : list upd; m_auto : bool; m_dirty : bool }.

Definition set_ep (s : mst) (e : ep) (l : list upd) : mst :=
  {| m_ep := e; m_edits := l; m_auto := m_auto s; m_dirty := m_dirty s |}.

(* commit(): if self._edits: edits, self._edits = self._edits, None; self._update(join(edits))
   - the queue is emptied before the request is sent, so a rejected request
   is not sent again (commit d390f22b repaired finding F13c).  (_edits None and
   [] behave alike and are both the empty list here.) *)
Definition m_commit (alias : bool) (s : mst) : mst * bool :=
  match m_edits s with
  | [] => (s, true)
  | us => match send alias (m_ep s) us with
          | Some e' => (set_ep s e' [], true)
          | None => (set_ep s (m_ep s) [], false)
          end
  end.

Definition m_write (alias : bool) (s : mst) (us : list upd) : mst * ans :=
  let s1 := set_ep s (m_ep s) (m_edits s ++ us) in
  if m_auto s then
    let '(s2, ok) := m_commit alias s1 in (s2, if ok then ANone else ARaised)
  else (s1, ANone).

(* contexts(triple) before commit 168749f3 (finding F13b): nts(s if s else Variable("s")) ...
   with the Python truthiness of the terms of the harness pool ("" 0 false 0.0) *)
Definition falsy_ids : list N := [5; 6; 7; 14]%N.
Definition falsy (t : term) : bool := memb N.eqb t falsy_ids.
Definition truthy_pat_hist (t : triple) : pat :=
  let '(s, p, o) := t in
  (if falsy s then None else Some s, if falsy p then None else Some p, if falsy o then None else Some o).

Definition graph_len (g : cid) (s : qset) : N := N.of_nat (length (q_triples all_pat g s)).

(* SELECT ?name WHERE { GRAPH ?name { pattern } }: one row per match in a named graph *)
Definition ctx_rows (p : pat) (s : qset) : list cid :=
  map snd (filter (fun q => matches p (fst q) && negb (N.eqb (snd q) 0)) s).

Definition read_ans (alias : bool) (o : op) (e : ep) : ans :=
  match o with
  | OTriples p c => ATriples (q_triples p (resolve alias (ctx_ref c)) (quads e))
  | OLen c => ANum (graph_len (resolve alias (ctx_ref c)) (quads e))
  | OContexts None => ANames (names e)
  | OContexts (Some t) => ANames (ctx_rows (pat_of t) (quads e))
  | OQuery _ p c => ATriples (q_triples p (resolve alias (qg_ref c)) (quads e))
  | _ => ANone
  end.

Definition is_read (o : op) : bool :=
  match o with OTriples _ _ | OLen _ | OContexts _ | OQuery _ _ _ => true | _ => false end.

Definition m_read (alias : bool) (s : mst) (o : op) : mst * ans :=
  if negb (m_auto s) && negb (m_dirty s) then
    let '(s2, ok) := m_commit alias s in
    (s2, if ok then read_ans alias o (m_ep s2) else ARaised)
  else (s, read_ans alias o (m_ep s)).

Definition m_step (alias : bool) (s : mst) (o : op) : mst * ans :=
  match o with
  | OCommit => let '(s2, ok) := m_commit alias s in (s2, if ok then ANone else ARaised)
  | ORollback => (set_ep s (m_ep s) [], ANone)
  | OSetAuto b => ({| m_ep := m_ep s; m_edits := m_edits s; m_auto := b; m_dirty := m_dirty s |}, ANone)
  | OSetDirty b => ({| m_ep := m_ep s; m_edits := m_edits s; m_auto := m_auto s; m_dirty := b |}, ANone)
  | _ =>
      match compile o with
      | Some us => m_write alias s us
      | None => if is_read o then m_read alias s o else (s, ANone)
      end
  end.

(* observation after every operation: the endpoint's dataset and the answer *)
Definition step_obs := (ep * ans)%type.

Fixpoint m_run (alias : bool) (s : mst) (ops : list op) : list step_obs :=
  match ops with
  | [] => []
  | o :: r => let '(s', a) := m_step alias s o in (m_ep s', a) :: m_run alias s' r
  end.

(* ------------------------------------------------------------------ *)
(* Specification: what the property says, as a checker over OBSERVED   *)
(* endpoint contents and answers.  It knows nothing of request texts,  *)
(* graph designators or the endpoint flavour.                          *)

(* what a write means on a local graph / dataset *)
Inductive wr :=
| WAdd (qs : list quad)
| WRemove (p : pat) (g : cid)
| WCreate (g : cid)
| WDrop (g : cid).

Definition cid_of (c : option cid) : cid := match c with None => 0 | Some g => g end.

Definition add_quad (e : ep) (q : quad) : ep :=
  {| quads := q_add q (quads e); names := name_add (snd q) (names e) |}.

Definition s_apply (e : ep) (w : wr) : ep :=
  match w with
  | WAdd qs => fold_left add_quad qs e
  | WRemove p g => {| quads := q_remove p (Some g) (quads e); names := names e |}
  | WCreate g => {| quads := quads e; names := name_add g (names e) |}
  | WDrop g => {| quads := q_remove all_pat (Some g) (quads e); names := srem N.eqb g (names e) |}
  end.

Inductive kind := KWrite (w : wr) | KBad | KCommit | KRollback | KAuto (b : bool) | KDirty (b : bool)
                | KRead | KNoop.

Definition classify (o : op) : kind :=
  match o with
  | OAdd t c => KWrite (WAdd [(t, cid_of c)])
  | OAddN qs => KWrite (WAdd qs)
  | ORemove p c => KWrite (WRemove p (cid_of c))
  | OAddGraph g => if N.eqb g 0 then KNoop else KWrite (WCreate g)
  | ORemoveGraph g => KWrite (WDrop g)
  | OUpdate (UoInsertData t) c => KWrite (WAdd [(t, cid_of c)])
  | OUpdate (UoDeleteData t) c => KWrite (WRemove (pat_of t) (cid_of c))
  | OUpdate (UoDeleteWhere p) c => KWrite (WRemove p (cid_of c))
  | OUpdate (UoDeleteWhereB p) c => KWrite (WRemove p (cid_of c))
  | OBadUpdate => KBad
  | OCommit => KCommit
  | ORollback => KRollback
  | OSetAuto b => KAuto b
  | OSetDirty b => KDirty b
  | _ => KRead
  end.

(* the answer of a read is exactly what the endpoint's dataset [now] contains *)
Definition read_ok (o : op) (now : ep) (a : ans) : bool :=
  match o, a with
  | OTriples p c, ATriples l => enum_ofb triple_eqb l (q_triples p (cid_of c) (quads now))
  | OQuery _ p c, ATriples l => enum_ofb triple_eqb l (q_triples p (cid_of c) (quads now))
  | OLen c, ANum n => N.eqb n (graph_len (cid_of c) (quads now))
  | OContexts None, ANames l => enum_ofb N.eqb l (names now)
  | OContexts (Some t), ANames l => enum_ofb N.eqb l (ctx_rows (pat_of t) (quads now))
  | _, _ => false
  end.

Definition ep_ok (now expected : ep) : bool :=
  nodupb quad_eqb (quads now) && qseteqb (quads now) (quads expected)
  && nodupb N.eqb (names now) && seteqb N.eqb (names now) (names expected).

Record sst := { s_prev : ep;            (* the endpoint's dataset as last observed *)
                s_pend : list wr;       (* writes made but not yet due at the endpoint, oldest first *)
                s_poison : bool;        (* a statement the endpoint will reject is waiting among them *)
                s_auto : bool; s_dirty : bool }.

Definition s_next (s : sst) (now : ep) (pend : list wr) (poison : bool) : sst :=
  {| s_prev := now; s_pend := pend; s_poison := poison; s_auto := s_auto s; s_dirty := s_dirty s |}.

Definition is_none (a : ans) : bool := match a with ANone => true | _ => false end.
Definition is_raised (a : ans) : bool := match a with ARaised => true | _ => false end.

(* the moment the queue goes to the endpoint (together with [extra], the write
   being made): one request, executed in order; if a statement of it is
   rejected the call raises, nothing is executed and the transaction is gone *)
Definition flush_step (s : sst) (extra : list wr) (bad : bool) (now : ep) (a : ans)
                      (ok : ans -> bool) : option sst :=
  if s_poison s || bad then
    if ep_ok now (s_prev s) && is_raised a then Some (s_next s now [] false) else None
  else
    if ep_ok now (fold_left s_apply (s_pend s ++ extra) (s_prev s)) && ok a
    then Some (s_next s now [] false) else None.

(* a write ([extra] = [w], not [bad]) or an update the endpoint rejects ([], bad) *)
Definition write_step (s : sst) (extra : list wr) (bad : bool) (now : ep) (a : ans) : option sst :=
  if s_auto s then flush_step s extra bad now a is_none
  else if ep_ok now (s_prev s) && is_none a
       then Some (s_next s now (s_pend s ++ extra) (s_poison s || bad)) else None.

Definition spec_step (s : sst) (o : op) (now : ep) (a : ans) : option sst :=
  match classify o with
  | KWrite w => write_step s [w] false now a
  | KBad => write_step s [] true now a
  | KCommit => flush_step s [] false now a is_none
  | KRollback =>
      if ep_ok now (s_prev s) && is_none a then Some (s_next s now [] false) else None
  | KAuto b =>
      if ep_ok now (s_prev s) && is_none a
      then Some {| s_prev := now; s_pend := s_pend s; s_poison := s_poison s; s_auto := b; s_dirty := s_dirty s |}
      else None
  | KDirty b =>
      if ep_ok now (s_prev s) && is_none a
      then Some {| s_prev := now; s_pend := s_pend s; s_poison := s_poison s; s_auto := s_auto s; s_dirty := b |}
      else None
  | KRead =>
      if negb (s_auto s) && negb (s_dirty s) then flush_step s [] false now a (read_ok o now)
      else
        if ep_ok now (s_prev s) && read_ok o now a then Some (s_next s now (s_pend s) (s_poison s)) else None
  | KNoop =>
      if ep_ok now (s_prev s) && is_none a then Some (s_next s now (s_pend s) (s_poison s)) else None
  end.

Fixpoint spec_run (s : sst) (ops : list op) (obs : list step_obs) : bool :=
  match ops, obs with
  | [], [] => true
  | o :: r, (now, a) :: obs' =>
      match spec_step s o now a with
      | Some s' => spec_run s' r obs'
      | None => false
      end
  | _, _ => false
  end.

(* ------------------------------------------------------------------ *)
(* Entry points used by the correspondence check                       *)

Record case := { c_alias : bool;          (* endpoint flavour: is <urn:x-rdflib:default> its default graph? *)
                 c_auto : bool; c_dirty : bool;
                 c_init : qset; c_names : list cid;
                 c_ops : list op }.

Definition init_ep (c : case) : ep := {| quads := c_init c; names := c_names c |}.

Definition model_obs (c : case) : list step_obs :=
  m_run (c_alias c)
        {| m_ep := init_ep c; m_edits := []; m_auto := c_auto c; m_dirty := c_dirty c |}
        (c_ops c).

Definition spec_ok (c : case) (obs : list step_obs) : bool :=
  spec_run {| s_prev := init_ep c; s_pend := []; s_poison := false; s_auto := c_auto c; s_dirty := c_dirty c |}
           (c_ops c) obs.

Definition wf (c : case) : Prop := NoDup (c_init c) /\ NoDup (c_names c).

(* multiset equality of answers (rows come back in no particular order, and a
   defective answer may repeat rows) *)
Definition count {A} (eqb : A -> A -> bool) (x : A) (l : list A) : nat :=
  length (filter (eqb x) l).
Definition mseteqb {A} (eqb : A -> A -> bool) (l m : list A) : bool :=
  forallb (fun x => Nat.eqb (count eqb x l) (count eqb x m)) (l ++ m).

Definition ans_obs_eqb (a b : ans) : bool :=
  match a, b with
  | ANone, ANone | ARaised, ARaised => true
  | ATriples l, ATriples m => mseteqb triple_eqb l m
  | ANum n, ANum m => N.eqb n m
  | ANames l, ANames m => mseteqb N.eqb l m
  | _, _ => false
  end.

Definition ep_obs_eqb (a b : ep) : bool :=
  mseteqb quad_eqb (quads a) (quads b) && mseteqb N.eqb (names a) (names b).

Definition obs_eqb (a b : list step_obs) : bool :=
  list_eqb (fun x y => ep_obs_eqb (fst x) (fst y) && ans_obs_eqb (snd x) (snd y)) a b.
