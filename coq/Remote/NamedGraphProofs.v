(* C20: _insert_named_graph wraps exactly the top-level blocks. *)
From Coq Require Import ZArith Lia.
From RV Require Import Remote.NamedGraph.
Local Open Scope N_scope.

(* ------------------------------------------------------------------ *)
(* induction over nested blocks                                         *)

Fixpoint elem_ind' (P : elem -> Prop) (Ht : forall s, P (ETxt s))
    (Hb : forall b, Forall P b -> P (EBlock b)) (e : elem) : P e :=
  match e with
  | ETxt s => Ht s
  | EBlock b => Hb b ((fix go (l : list elem) : Forall P l :=
                         match l with
                         | [] => Forall_nil P
                         | x :: r => Forall_cons x (elem_ind' P Ht Hb x) (go r)
                         end) b)
  end.

(* the match sequence of a text with this block structure: braces, and the text in between in any chunking *)
Fixpoint items_e (e : elem) : list item :=
  match e with
  | ETxt s => [IContent s]
  | EBlock b => IOpen :: flat_map items_e b ++ [IClose]
  end.
Definition items_of (l : list elem) : list item := flat_map items_e l.

Section G.
Variables gopen gclose : str.
Notation step := (ng_step gopen gclose).

(* inside a block (level >= 1) everything is copied through *)
Lemma inner_e : forall e s, (1 <= level s)%Z ->
  fold_left step (items_e e) s =
  {| level := level s; out := out s; opened := opened s; pend := pend s ++ render_e e |}.
Proof.
  induction e as [t|b IH] using elem_ind'; intros s Hl.
  - reflexivity.
  - cbn [items_e render_e]. cbn [fold_left]. rewrite fold_left_app.
    assert (Hinner : forall (l : list elem), Forall (fun e => forall s, (1 <= level s)%Z ->
                fold_left step (items_e e) s =
                {| level := level s; out := out s; opened := opened s; pend := pend s ++ render_e e |}) l ->
              forall s', (1 <= level s')%Z ->
              fold_left step (flat_map items_e l) s' =
              {| level := level s'; out := out s'; opened := opened s'; pend := pend s' ++ flat_map render_e l |}).
    { induction l as [|x r IHl]; intros HF s' Hs'.
      - simpl. rewrite app_nil_r. destruct s'; reflexivity.
      - inversion HF as [|? ? Hx Hr]; subst. cbn [flat_map]. rewrite fold_left_app, (Hx s' Hs').
        rewrite IHl; [|exact Hr|exact Hs']. cbn [level out opened pend]. rewrite <- app_assoc. reflexivity. }
    assert (E1 : Z.eqb (level s + 1) 1 = false) by (apply Z.eqb_neq; lia).
    assert (Eo : step s IOpen = {| level := (level s + 1)%Z; out := out s; opened := opened s;
                                   pend := pend s ++ [cLBRACE] |}).
    { unfold ng_step. cbv zeta. rewrite E1. reflexivity. }
    rewrite Eo, (Hinner b IH); [|cbn [level]; lia]. cbn [level out opened pend fold_left].
    unfold ng_step. cbn [level out opened pend]. rewrite E1.
    f_equal; [lia|]. rewrite <- !app_assoc. reflexivity.
Qed.

Lemma inner_list l : forall s, (1 <= level s)%Z ->
  fold_left step (items_of l) s =
  {| level := level s; out := out s; opened := opened s; pend := pend s ++ render l |}.
Proof.
  unfold items_of, render. induction l as [|x r IH]; intros s Hs.
  - simpl. rewrite app_nil_r. destruct s; reflexivity.
  - cbn [flat_map]. rewrite fold_left_app, (inner_e x s Hs), IH by exact Hs.
    cbn [level out opened pend]. rewrite <- app_assoc. reflexivity.
Qed.

Definition wrap1 (e : elem) : str :=
  match e with
  | ETxt s => s
  | EBlock b => if blank (render b) then [cLBRACE] ++ render b ++ [cRBRACE]
                else [cLBRACE] ++ gopen ++ render b ++ gclose ++ [cRBRACE]
  end.

(* at top level: what has been produced, and the text still pending, together are the specified output *)
Lemma top_list l : forall o p,
  exists o' p',
    fold_left step (items_of l) {| level := 0; out := o; opened := false; pend := p |}
    = {| level := 0; out := o'; opened := false; pend := p' |}
    /\ o' ++ p' = o ++ p ++ flat_map wrap1 l.
Proof.
  unfold items_of. induction l as [|x r IH]; intros o p.
  - exists o, p. split; [reflexivity|]. simpl. rewrite app_nil_r. reflexivity.
  - cbn [flat_map]. rewrite fold_left_app. destruct x as [t|b].
    + cbn [items_e fold_left ng_step level out opened pend].
      destruct (IH o (p ++ t)) as [o' [p' [H1 H2]]]. exists o', p'. split; [exact H1|].
      rewrite H2. cbn [wrap1]. rewrite <- !app_assoc. reflexivity.
    + cbn [items_e]. cbn [fold_left]. rewrite fold_left_app. fold (items_of b).
      assert (Eo : step {| level := 0; out := o; opened := false; pend := p |} IOpen
                   = {| level := 1; out := o ++ p ++ [cLBRACE]; opened := true; pend := [] |}).
      { unfold ng_step, flush_open. cbn [level out opened pend]. rewrite app_nil_r. reflexivity. }
      rewrite Eo. rewrite (inner_list b). 2: { simpl. lia. } cbn [level out opened pend app fold_left].
      cbn [wrap1]. destruct (blank (render b)) eqn:Eb.
      * assert (Ec : step {| level := 1; out := o ++ p ++ [cLBRACE]; opened := true; pend := render b |} IClose
                     = {| level := 0; out := (o ++ p ++ [cLBRACE]) ++ render b; opened := false; pend := [cRBRACE] |}).
        { unfold ng_step. cbn [level out opened pend andb]. rewrite Eb. reflexivity. }
        rewrite Ec. destruct (IH ((o ++ p ++ [cLBRACE]) ++ render b) [cRBRACE]) as [o' [p' [H1 H2]]].
        exists o', p'. split; [exact H1|]. rewrite H2. rewrite <- !app_assoc. reflexivity.
      * assert (Ec : step {| level := 1; out := o ++ p ++ [cLBRACE]; opened := true; pend := render b |} IClose
                     = {| level := 0; out := ((o ++ p ++ [cLBRACE]) ++ gopen) ++ render b ++ gclose;
                          opened := false; pend := [cRBRACE] |}).
        { unfold ng_step, flush_open. cbn [level out opened pend andb]. rewrite Eb. reflexivity. }
        rewrite Ec. destruct (IH (((o ++ p ++ [cLBRACE]) ++ gopen) ++ render b ++ gclose) [cRBRACE]) as [o' [p' [H1 H2]]].
        exists o', p'. split; [exact H1|]. rewrite H2. rewrite <- !app_assoc. reflexivity.
Qed.

End G.

(* the loop of _insert_named_graph over the matches of a text with block
   structure [l] (any nesting depth, any chunking of the text between the
   braces): GRAPH g { ... } is put around the content of exactly the top-level
   blocks that are not blank; every other character is kept *)
Theorem insert_items_wraps g l : insert_items g (items_of l) = wrap_spec g l.
Proof.
  unfold insert_items. destruct (top_list (graph_open g) graph_close l [] []) as [o' [p' [H1 H2]]].
  unfold ng_init. rewrite H1. unfold flush_open. cbn [out opened pend]. rewrite app_nil_r, H2. reflexivity.
Qed.

(* ------------------------------------------------------------------ *)
(* the scanner on the token language                                    *)

(* body of a short string literal: plain characters and escape pairs *)
Inductive schar := SC (c : N) | SE (d : N).
Definition schar_text (x : schar) : str := match x with SC c => [c] | SE d => [cBSL; d] end.
Definition schar_ok (q : N) (x : schar) : bool :=
  match x with SC c => negb (N.eqb c q) && negb (N.eqb c cBSL) | SE d => negb (N.eqb d cLF) end.

Inductive leaf :=
| LPlain (c : N)                       (* a character no alternative of the pattern starts with *)
| LStr (q : N) (body : list schar)     (* 'body' or "body", body not empty *)
| LLong (q : N) (body : list (nat * schar))  (* long literal: each content character may follow one or two quotes *)
| LIri (body : str)                    (* <body> *)
| LComment (body : str) (eol : N)      (* # body end-of-line *)
| LEsc (d : N)                         (* backslash d *)
| LOdd (c : N)                         (* a quote, <, or backslash at which no alternative matches: passed over *)
| LCommentEnd (body : str).            (* # body, running to the end of the text *)

Definition lchar_text (q : N) (x : nat * schar) : str := repeat q (fst x) ++ schar_text (snd x).
Definition lchar_ok (q : N) (x : nat * schar) : bool := Nat.leb (fst x) 2 && schar_ok q (snd x).

Definition leaf_text (l : leaf) : str :=
  match l with
  | LPlain c => [c]
  | LStr q body => q :: flat_map schar_text body ++ [q]
  | LLong q body => q :: q :: q :: flat_map (lchar_text q) body ++ [q; q; q]
  | LIri body => cLT :: body ++ [cGT]
  | LComment body eol => cHASH :: body ++ [eol]
  | LEsc d => [cBSL; d]
  | LOdd c => [c]
  | LCommentEnd body => cHASH :: body
  end.

(* [rest] is the text that follows the leaf: three leaves are what they are only in context *)
Definition leaf_ok (l : leaf) (rest : str) : bool :=
  match l with
  | LPlain c => negb (existsb (N.eqb c) [cLBRACE; cRBRACE; cSQ; cDQ; cLT; cHASH; cBSL])
  | LStr q body => (N.eqb q cSQ || N.eqb q cDQ) && forallb (schar_ok q) body
                   && match body, rest with [], c :: _ => negb (N.eqb c q) | _, _ => true end
                      (* the empty literal must not be followed by a third quote *)
  | LLong q body => (N.eqb q cSQ || N.eqb q cDQ) && forallb (lchar_ok q) body
  | LIri body => forallb iri_char body
  | LComment body eol => forallb (fun c => negb (N.eqb c cLF || N.eqb c cCR)) body && (N.eqb eol cLF || N.eqb eol cCR)
  | LEsc d => negb (N.eqb d cLF)
  | LOdd c => negb (N.eqb c cLBRACE) && negb (N.eqb c cRBRACE)
              && match content_len c rest with None => true | Some _ => false end
  | LCommentEnd body => forallb (fun c => negb (N.eqb c cLF || N.eqb c cCR)) body
                        && match rest with [] => true | _ => false end
  end.

Inductive tok := TLeaf (l : leaf) | TBlock (b : list tok).

Fixpoint tok_ind' (P : tok -> Prop) (Hl : forall l, P (TLeaf l))
    (Hb : forall b, Forall P b -> P (TBlock b)) (t : tok) : P t :=
  match t with
  | TLeaf l => Hl l
  | TBlock b => Hb b ((fix go (l : list tok) : Forall P l :=
                         match l with
                         | [] => Forall_nil P
                         | x :: r => Forall_cons x (tok_ind' P Hl Hb x) (go r)
                         end) b)
  end.

Fixpoint tok_text (t : tok) : str :=
  match t with
  | TLeaf l => leaf_text l
  | TBlock b => [cLBRACE] ++ flat_map tok_text b ++ [cRBRACE]
  end.

Fixpoint tok_ok (t : tok) (rest : str) {struct t} : bool :=
  match t with
  | TLeaf l => leaf_ok l rest
  | TBlock b => (fix go (l : list tok) : bool :=
                   match l with
                   | [] => true
                   | x :: r => tok_ok x (flat_map tok_text r ++ cRBRACE :: rest) && go r
                   end) b
  end.

Fixpoint toks_ok (l : list tok) (rest : str) : bool :=
  match l with
  | [] => true
  | x :: r => tok_ok x (flat_map tok_text r ++ rest) && toks_ok r rest
  end.

Lemma tok_ok_block b rest : tok_ok (TBlock b) rest = toks_ok b (cRBRACE :: rest).
Proof. induction b as [|x r IH]; [reflexivity|]. cbn [tok_ok toks_ok] in *. rewrite IH. reflexivity. Qed.

Fixpoint erase (t : tok) : elem :=
  match t with
  | TLeaf l => ETxt (leaf_text l)
  | TBlock b => EBlock (map erase b)
  end.

(* the items the scanner gives for a token *)
Fixpoint tok_items (t : tok) : list item :=
  match t with
  | TLeaf (LPlain c) => [IText c]
  | TLeaf (LOdd c) => [IText c]
  | TLeaf l => [IContent (leaf_text l)]
  | TBlock b => IOpen :: flat_map tok_items b ++ [IClose]
  end.

Lemma scan_skip clen : forall x acc rest, x <> [] ->
  scan_gen clen (length x) acc (x ++ rest) = IContent (rev acc ++ x) :: scan_gen clen 0 [] rest.
Proof.
  induction x as [|c r IH]; intros acc rest Hx; [congruence|].
  destruct r as [|c2 r'].
  - simpl. reflexivity.
  - change (length (c :: c2 :: r')) with (S (S (length r'))).
    change ((c :: c2 :: r') ++ rest) with (c :: ((c2 :: r') ++ rest)).
    cbn [scan_gen]. change (S (length r')) with (length (c2 :: r')).
    rewrite IH by discriminate. cbn [rev]. rewrite <- app_assoc. reflexivity.
Qed.

Lemma lit_len_body q body rest : N.eqb cBSL q = false -> forallb (schar_ok q) body = true ->
  lit_len q (flat_map schar_text body ++ q :: rest) = Some (S (length (flat_map schar_text body))).
Proof.
  intros Eq. induction body as [|x r IH]; intros H.
  - simpl. rewrite N.eqb_refl. reflexivity.
  - simpl in H. apply andb_true_iff in H. destruct H as [Hx Hr]. destruct x as [c|d]; simpl in Hx.
    + apply andb_true_iff in Hx. destruct Hx as [H1 H2]. apply negb_true_iff in H1, H2.
      cbn [flat_map schar_text app lit_len]. rewrite H1, H2, (IH Hr). reflexivity.
    + apply negb_true_iff in Hx.
      cbn [flat_map schar_text app lit_len].
      rewrite Eq. change (N.eqb cBSL cBSL) with true. cbv iota. rewrite Hx, (IH Hr). reflexivity.
Qed.

Lemma iri_len_body body rest : forallb iri_char body = true ->
  iri_len (body ++ cGT :: rest) = Some (S (length body)).
Proof.
  induction body as [|c r IH]; intros H.
  - reflexivity.
  - simpl in H. apply andb_true_iff in H. destruct H as [Hc Hr].
    cbn [app iri_len length]. rewrite Hc, (IH Hr).
    assert (E : N.eqb c cGT = false).
    { destruct (N.eqb_spec c cGT) as [->|]; [discriminate Hc|reflexivity]. }
    rewrite E. reflexivity.
Qed.

Lemma comment_len_body body eol rest :
  forallb (fun c => negb (N.eqb c cLF || N.eqb c cCR)) body = true -> (N.eqb eol cLF || N.eqb eol cCR) = true ->
  comment_len (body ++ eol :: rest) = S (length body).
Proof.
  intros Hb He. induction body as [|c r IH].
  - simpl. rewrite He. reflexivity.
  - simpl in Hb. apply andb_true_iff in Hb. destruct Hb as [Hc Hr]. apply negb_true_iff in Hc.
    cbn [app comment_len length]. rewrite Hc, (IH Hr). reflexivity.
Qed.

(* a content token of length >= 2 whose length the pattern finds is one IContent item *)
Lemma scan_content c x rest : x <> [] -> content_len c (x ++ rest) = Some (S (length x)) ->
  N.eqb c cLBRACE = false -> N.eqb c cRBRACE = false ->
  scan_aux 0 [] (c :: x ++ rest) = IContent (c :: x) :: scan_aux 0 [] rest.
Proof.
  intros Hx Hc H1 H2. unfold scan_aux. cbn [scan_gen]. rewrite H1, H2, Hc.
  destruct x as [|d r]; [congruence|]. change (length (d :: r)) with (S (length r)).
  change (S (length r)) with (length (d :: r)). rewrite scan_skip by discriminate. reflexivity.
Qed.

Lemma string_len_short q r : match r with c :: _ => N.eqb c q = false | [] => True end ->
  string_len q r = option_map S (lit_len q r).
Proof.
  destruct r as [|c2 [|c3 r3]]; intros H; try reflexivity. unfold string_len. rewrite H. reflexivity.
Qed.

Lemma long_len_body q body rest : N.eqb cBSL q = false -> forallb (lchar_ok q) body = true ->
  long_len q (flat_map (lchar_text q) body ++ q :: q :: q :: rest)
  = Some (length (flat_map (lchar_text q) body) + 3)%nat.
Proof.
  intros Eq. induction body as [|[k x] r IH]; intros H.
  - cbn [flat_map app length long_len]. rewrite !N.eqb_refl. reflexivity.
  - cbn [forallb] in H. apply andb_true_iff in H. destruct H as [Hx Hr]. specialize (IH Hr).
    unfold lchar_ok in Hx. cbn [fst snd] in Hx. apply andb_true_iff in Hx. destruct Hx as [Hk Hx].
    cbn [flat_map]. unfold lchar_text at 1 3. cbn [fst snd]. rewrite <- !app_assoc, !app_length, repeat_length.
    destruct x as [c|d]; cbn [schar_ok] in Hx.
    + apply andb_true_iff in Hx. destruct Hx as [H1 H2]. apply negb_true_iff in H1, H2.
      destruct k as [|[|[|k]]]; [| | |discriminate Hk]; cbn [repeat app schar_text long_len length];
        rewrite ?N.eqb_refl, ?H1, ?H2, IH; cbn [option_map]; f_equal; lia.
    + apply negb_true_iff in Hx.
      destruct k as [|[|[|k]]]; [| | |discriminate Hk]; cbn [repeat app schar_text long_len length];
        rewrite ?N.eqb_refl, ?Eq; change (N.eqb cBSL cBSL) with true; cbv iota; rewrite ?Hx, IH;
        cbn [option_map]; f_equal; lia.
Qed.

Lemma string_len_empty q rest : match rest with c :: _ => N.eqb c q = false | [] => True end ->
  string_len q (q :: rest) = option_map S (lit_len q (q :: rest)).
Proof.
  destruct rest as [|c3 r3]; intros H; [reflexivity|]. unfold string_len. rewrite H, andb_false_r. reflexivity.
Qed.

Lemma comment_len_end body : forallb (fun c => negb (N.eqb c cLF || N.eqb c cCR)) body = true ->
  comment_len body = length body.
Proof.
  induction body as [|c r IH]; intros H; [reflexivity|]. simpl in H. apply andb_true_iff in H. destruct H as [Hc Hr].
  apply negb_true_iff in Hc. cbn [comment_len length]. rewrite Hc, (IH Hr). reflexivity.
Qed.

Lemma leaf_scan l rest : leaf_ok l rest = true ->
  scan_aux 0 [] (leaf_text l ++ rest) = tok_items (TLeaf l) ++ scan_aux 0 [] rest.
Proof.
  destruct l as [c|q body|q body|body|body eol|d|c|body]; intros H; cbn [leaf_ok] in H.
  - (* plain *)
    cbn [leaf_text app tok_items]. unfold scan_aux. cbn [scan_gen].
    cbn [existsb] in H. rewrite !orb_false_r in H. apply negb_true_iff in H.
    repeat (apply orb_false_iff in H; destruct H as [? H]).
    unfold content_len. repeat match goal with E : N.eqb c _ = false |- _ => rewrite E; clear E end.
    reflexivity.
  - (* string *)
    apply andb_true_iff in H. destruct H as [H Hne]. apply andb_true_iff in H. destruct H as [Hq Hb]. cbn [leaf_text tok_items].
    assert (Hsl : string_len q (flat_map schar_text body ++ q :: rest)
                  = option_map S (lit_len q (flat_map schar_text body ++ q :: rest))).
    { destruct body as [|[c|d] r]; cbn [flat_map schar_text app].
      - apply string_len_empty. destruct rest as [|c r]; [exact I|]. apply negb_true_iff. exact Hne.
      - apply string_len_short. cbn [forallb schar_ok] in Hb. apply andb_true_iff in Hb. destruct Hb as [Hb _].
        apply andb_true_iff in Hb. destruct Hb as [Hb _]. apply negb_true_iff in Hb. exact Hb.
      - apply string_len_short.
        apply orb_true_iff in Hq. destruct Hq as [Hq|Hq]; apply N.eqb_eq in Hq; subst q; reflexivity. }
    change ((q :: flat_map schar_text body ++ [q]) ++ rest) with (q :: (flat_map schar_text body ++ [q]) ++ rest).
    apply scan_content.
    + destruct (flat_map schar_text body); discriminate.
    + rewrite <- app_assoc. cbn [app]. unfold content_len.
      apply orb_true_iff in Hq. destruct Hq as [Hq|Hq]; apply N.eqb_eq in Hq; subst q.
      * change (N.eqb cSQ cSQ) with true. cbv iota. rewrite Hsl.
        rewrite lit_len_body by (auto; reflexivity).
        cbn [option_map]. rewrite app_length. cbn [length]. rewrite Nat.add_1_r. reflexivity.
      * change (N.eqb cDQ cSQ) with false. change (N.eqb cDQ cDQ) with true. cbv iota.
        rewrite Hsl. rewrite lit_len_body by (auto; reflexivity).
        cbn [option_map]. rewrite app_length. cbn [length]. rewrite Nat.add_1_r. reflexivity.
    + apply orb_true_iff in Hq. destruct Hq as [Hq|Hq]; apply N.eqb_eq in Hq; subst q; reflexivity.
    + apply orb_true_iff in Hq. destruct Hq as [Hq|Hq]; apply N.eqb_eq in Hq; subst q; reflexivity.
  - (* long string *)
    apply andb_true_iff in H. destruct H as [Hq Hb]. cbn [leaf_text tok_items].
    change ((q :: q :: q :: flat_map (lchar_text q) body ++ [q; q; q]) ++ rest)
      with (q :: (q :: q :: flat_map (lchar_text q) body ++ [q; q; q]) ++ rest).
    assert (Hbs : N.eqb cBSL q = false)
      by (apply orb_true_iff in Hq; destruct Hq as [Hq|Hq]; apply N.eqb_eq in Hq; subst q; reflexivity).
    apply scan_content.
    + discriminate.
    + cbn [app]. rewrite <- app_assoc. cbn [app].
      assert (E : content_len q (q :: q :: flat_map (lchar_text q) body ++ q :: q :: q :: rest)
                  = string_len q (q :: q :: flat_map (lchar_text q) body ++ q :: q :: q :: rest)).
      { unfold content_len. apply orb_true_iff in Hq. destruct Hq as [Hq|Hq]; apply N.eqb_eq in Hq; subst q; reflexivity. }
      rewrite E. unfold string_len. rewrite !N.eqb_refl. cbn [andb].
      rewrite (long_len_body _ _ _ Hbs Hb). cbn [length]. rewrite app_length. cbn [length]. f_equal; lia.
    + apply orb_true_iff in Hq. destruct Hq as [Hq|Hq]; apply N.eqb_eq in Hq; subst q; reflexivity.
    + apply orb_true_iff in Hq. destruct Hq as [Hq|Hq]; apply N.eqb_eq in Hq; subst q; reflexivity.
  - (* IRI *)
    cbn [leaf_text tok_items].
    change ((cLT :: body ++ [cGT]) ++ rest) with (cLT :: (body ++ [cGT]) ++ rest).
    apply scan_content; try reflexivity.
    + destruct body; discriminate.
    + rewrite <- app_assoc. cbn [app]. unfold content_len.
      change (N.eqb cLT cSQ) with false. change (N.eqb cLT cDQ) with false. change (N.eqb cLT cLT) with true. cbv iota.
      rewrite (iri_len_body _ _ H). cbn [option_map]. rewrite app_length. cbn [length]. rewrite Nat.add_1_r. reflexivity.
  - (* comment *)
    apply andb_true_iff in H. destruct H as [Hb He]. cbn [leaf_text tok_items].
    change ((cHASH :: body ++ [eol]) ++ rest) with (cHASH :: (body ++ [eol]) ++ rest).
    apply scan_content; try reflexivity.
    + destruct body; discriminate.
    + rewrite <- app_assoc. cbn [app]. unfold content_len.
      change (N.eqb cHASH cSQ) with false. change (N.eqb cHASH cDQ) with false. change (N.eqb cHASH cLT) with false.
      change (N.eqb cHASH cHASH) with true. cbv iota.
      rewrite (comment_len_body _ _ _ Hb He). rewrite app_length. cbn [length]. rewrite Nat.add_1_r. reflexivity.
  - (* escape *)
    apply negb_true_iff in H. cbn [leaf_text tok_items].
    change ([cBSL; d] ++ rest) with (cBSL :: [d] ++ rest).
    apply scan_content; try reflexivity; [discriminate|].
    cbn [app]. unfold content_len.
    change (N.eqb cBSL cSQ) with false. change (N.eqb cBSL cDQ) with false. change (N.eqb cBSL cLT) with false.
    change (N.eqb cBSL cHASH) with false. change (N.eqb cBSL cBSL) with true. cbv iota. rewrite H. reflexivity.
  - (* a special character nothing matches at *)
    apply andb_true_iff in H. destruct H as [H H3]. apply andb_true_iff in H. destruct H as [H1 H2].
    apply negb_true_iff in H1, H2. cbn [leaf_text app tok_items]. unfold scan_aux. cbn [scan_gen].
    rewrite H1, H2. destruct (content_len c rest); [discriminate|reflexivity].
  - (* comment to the end of the text *)
    apply andb_true_iff in H. destruct H as [Hb Hr]. destruct rest; [|discriminate]. cbn [leaf_text tok_items].
    rewrite !app_nil_r. destruct body as [|b0 br].
    + reflexivity.
    + rewrite <- (app_nil_r (b0 :: br)) at 1. rewrite scan_content; try reflexivity; [discriminate|].
      rewrite app_nil_r. unfold content_len.
      change (N.eqb cHASH cSQ) with false. change (N.eqb cHASH cDQ) with false. change (N.eqb cHASH cLT) with false.
      change (N.eqb cHASH cHASH) with true. cbv iota. rewrite (comment_len_end _ Hb). reflexivity.
Qed.

Lemma toks_scan_gen : forall l,
  Forall (fun t => forall rest, tok_ok t rest = true ->
            scan_aux 0 [] (tok_text t ++ rest) = tok_items t ++ scan_aux 0 [] rest) l ->
  forall rest, toks_ok l rest = true ->
  scan_aux 0 [] (flat_map tok_text l ++ rest) = flat_map tok_items l ++ scan_aux 0 [] rest.
Proof.
  induction l as [|x r IHl]; intros HF rest Hok; [reflexivity|].
  inversion HF as [|? ? Hx Hr]; subst. cbn [toks_ok] in Hok. apply andb_true_iff in Hok. destruct Hok as [H1 H2].
  cbn [flat_map]. rewrite <- !app_assoc. rewrite (Hx _ H1), (IHl Hr _ H2). reflexivity.
Qed.

Lemma tok_scan : forall t rest, tok_ok t rest = true ->
  scan_aux 0 [] (tok_text t ++ rest) = tok_items t ++ scan_aux 0 [] rest.
Proof.
  induction t as [l|b IH] using tok_ind'; intros rest H.
  - apply leaf_scan. exact H.
  - rewrite tok_ok_block in H. cbn [tok_text tok_items].
    rewrite <- !app_assoc. cbn [app]. unfold scan_aux at 1. cbn [scan_gen]. fold scan_aux.
    change (N.eqb cLBRACE cLBRACE) with true. cbv iota.
    rewrite (toks_scan_gen b IH _ H). unfold scan_aux at 2. cbn [scan_gen]. fold scan_aux.
    change (N.eqb cRBRACE cLBRACE) with false. change (N.eqb cRBRACE cRBRACE) with true. cbv iota.
    rewrite <- app_assoc. reflexivity.
Qed.

Lemma toks_scan l : toks_ok l [] = true -> scan (flat_map tok_text l) = flat_map tok_items l.
Proof.
  intros H. unfold scan. rewrite <- (app_nil_r (flat_map tok_text l)).
  rewrite (toks_scan_gen l) with (rest := []); [apply app_nil_r| |exact H].
  apply Forall_forall. intros t _. apply tok_scan.
Qed.

(* the loop treats a passed-over character like a one-character content match *)
Definition norm_item (i : item) : item := match i with IText c => IContent [c] | _ => i end.

Lemma step_norm go gc s i : ng_step go gc s (norm_item i) = ng_step go gc s i.
Proof. destruct i; reflexivity. Qed.

Lemma fold_norm go gc l : forall s, fold_left (ng_step go gc) (map norm_item l) s = fold_left (ng_step go gc) l s.
Proof. induction l as [|i r IH]; intros s; simpl; auto. rewrite step_norm. apply IH. Qed.

Lemma tok_items_erase : forall t, map norm_item (tok_items t) = items_e (erase t).
Proof.
  induction t as [l|b IH] using tok_ind'.
  - destruct l; reflexivity.
  - cbn [tok_items erase items_e map]. rewrite map_app. cbn [map norm_item]. f_equal. f_equal.
    induction b as [|x r IHb]; [reflexivity|]. inversion IH as [|? ? Hx Hr]; subst.
    cbn [flat_map map]. rewrite map_app, Hx, (IHb Hr). reflexivity.
Qed.

Lemma erase_render : forall t, render_e (erase t) = tok_text t.
Proof.
  induction t as [l|b IH] using tok_ind'; [reflexivity|].
  cbn [erase render_e tok_text]. f_equal. f_equal.
  induction b as [|x r IHb]; [reflexivity|]. inversion IH as [|? ? Hx Hr]; subst.
  cbn [flat_map map]. rewrite Hx, (IHb Hr). reflexivity.
Qed.

(* _insert_named_graph on every update text written in the token language -
   blocks nested to any depth, short string literals in either quote style with
   any characters (braces, the other quote, escapes) inside, IRIs, comments,
   escaped characters, other characters - wraps exactly the top-level blocks *)
Theorem insert_named_graph_wraps g l : toks_ok l [] = true ->
  insert_named_graph g (flat_map tok_text l) = wrap_spec g (map erase l)
  /\ render (map erase l) = flat_map tok_text l.
Proof.
  intros H. split.
  - unfold insert_named_graph. rewrite (toks_scan l H). rewrite <- insert_items_wraps.
    unfold insert_items. rewrite <- (fold_norm _ _ (flat_map tok_items l)). f_equal; f_equal.
    + f_equal. unfold items_of. clear H. induction l as [|x r IH]; [reflexivity|].
      cbn [flat_map map]. rewrite map_app, tok_items_erase, IH. reflexivity.
    + f_equal. unfold items_of. clear H. induction l as [|x r IH]; [reflexivity|].
      cbn [flat_map map]. rewrite map_app, tok_items_erase, IH. reflexivity.
  - unfold render. clear H. induction l as [|x r IH]; [reflexivity|].
    cbn [flat_map map]. rewrite erase_render, IH. reflexivity.
Qed.

(* a concrete text for the non-vacuity example of Props/C20.v: a block holding an IRI and a string
   with a brace pair and an escaped quote in it, a comment holding a brace, a blank block *)
Definition ex_toks : list tok :=
  app (map TLeaf (map LPlain [73; 78; 83]))
      [TLeaf (LPlain 32);
       TBlock [TLeaf (LPlain 32); TLeaf (LIri [97]); TLeaf (LPlain 32);
               TLeaf (LStr 34 [SC 125; SC 123; SE 34]); TLeaf (LPlain 32)];
       TLeaf (LComment [32; 123] 10);
       TLeaf (LPlain 68); TLeaf (LPlain 32); TBlock [TLeaf (LPlain 32)]].
Definition ex_graph : str := [60; 103; 62].   (* <g> *)
Definition ex_out : str :=
  [73; 78; 83; 32; 123] ++ [32; 71; 82; 65; 80; 72; 32; 60; 103; 62; 32; 123]
  ++ [32; 60; 97; 62; 32; 34; 125; 123; 92; 34; 34; 32] ++ [125; 32] ++ [125]
  ++ [35; 32; 123; 10; 68; 32; 123; 32; 125].

(* finding F13e (repaired by commit 45087ba7): the LONG string alternatives of BLOCK_FINDING_PATTERN came after
   the short ones and never matched, so a long literal with an inner quote followed by braces is scanned as code.
   [bad_lit] is the n3 form of the literal  a LF quote space } space x space { space quote b  *)
Definition bad_lit : str := [34; 34; 34; 97; 10; 34; 32; 125; 32; 120; 32; 123; 32; 34; 98; 34; 34; 34].

Lemma long_string_refuted :
  insert_named_graph_hist ex_graph ([cLBRACE] ++ bad_lit ++ [cRBRACE])
  <> [cLBRACE] ++ graph_open ex_graph ++ bad_lit ++ graph_close ++ [cRBRACE]
  /\ insert_named_graph ex_graph ([cLBRACE] ++ bad_lit ++ [cRBRACE])
     = [cLBRACE] ++ graph_open ex_graph ++ bad_lit ++ graph_close ++ [cRBRACE].
Proof. split; [vm_compute; discriminate|vm_compute; reflexivity]. Qed.

(* W { ?o < 3 . ?s ?p "" } #{ *)
Definition ex_toks2 : list tok :=
  [TLeaf (LPlain 87); TLeaf (LPlain 32);
   TBlock (map TLeaf ([LPlain 32; LPlain 63; LPlain 111; LPlain 32; LOdd 60; LPlain 32; LPlain 51; LPlain 32; LPlain 46;
                       LPlain 32; LPlain 63; LPlain 115; LPlain 32; LPlain 63; LPlain 112; LPlain 32; LStr 34 []; LPlain 32]));
   TLeaf (LPlain 32); TLeaf (LCommentEnd [123])].
Definition ex_out2 : str :=
  [87; 32; 123] ++ [32; 71; 82; 65; 80; 72; 32; 60; 103; 62; 32; 123]
  ++ [32; 63; 111; 32; 60; 32; 51; 32; 46; 32; 63; 115; 32; 63; 112; 32; 34; 34; 32] ++ [125; 32] ++ [125]
  ++ [32; 35; 123].
