(* C20 - proofs about the model of the remote (SPARQL endpoint) store. *)
From RV Require Import Remote.Model.
Local Open Scope N_scope.
Set Implicit Arguments.
Unset Strict Implicit.

(* ------------------------------------------------------------------ *)
(* datasets up to the order of their enumeration                        *)

Definition ep_equiv (a b : ep) : Prop :=
  seteq (quads a) (quads b) /\ seteq (names a) (names b).

Lemma ep_equiv_refl e : ep_equiv e e.
Proof. split; apply seteq_refl. Qed.

Lemma ep_equiv_sym a b : ep_equiv a b -> ep_equiv b a.
Proof. intros [H1 H2]; split; apply seteq_sym; assumption. Qed.

Lemma ep_equiv_trans a b c : ep_equiv a b -> ep_equiv b c -> ep_equiv a c.
Proof. intros [H1 H2] [H3 H4]; split; eapply seteq_trans; eassumption. Qed.

Definition ep_nodup (e : ep) : Prop := NoDup (quads e) /\ NoDup (names e).

(* ------------------------------------------------------------------ *)
(* names                                                                *)

Lemma name_add_In g n l : In n (name_add g l) <-> (n = g /\ g <> 0) \/ In n l.
Proof.
  unfold name_add. destruct (N.eqb_spec g 0) as [->|Hg].
  - split; [auto|]. intros [[_ H]|H]; [congruence|auto].
  - rewrite (sadd_In _ N.eqb_spec). split.
    + intros [->|H]; auto.
    + intros [[-> _]|H]; auto.
Qed.

Lemma name_add_NoDup g l : NoDup l -> NoDup (name_add g l).
Proof.
  unfold name_add. destruct (N.eqb g 0); auto. apply (sadd_NoDup _ N.eqb_spec).
Qed.

Lemma name_add_idem g l : name_add g (name_add g l) = name_add g l.
Proof.
  unfold name_add. destruct (N.eqb g 0); auto.
  unfold sadd at 1. destruct (memb N.eqb g (sadd N.eqb g l)) eqn:E; auto.
  apply (memb_false _ N.eqb_spec) in E. exfalso. apply E.
  apply (sadd_In _ N.eqb_spec). auto.
Qed.

(* ------------------------------------------------------------------ *)
(* adding quads                                                         *)

Lemma add_quads_In l : forall e x,
  In x (quads (fold_left add_quad l e)) <-> In x l \/ In x (quads e).
Proof.
  induction l as [|q r IH]; intros e x; simpl; [tauto|].
  rewrite IH. simpl. rewrite q_add_In. split; [intros [H|[H|H]]|intros [[H|H]|H]]; auto.
Qed.

Lemma add_quads_names l : forall e n,
  In n (names (fold_left add_quad l e)) <->
  In n (names e) \/ exists q, In q l /\ snd q = n /\ n <> 0.
Proof.
  induction l as [|q r IH]; intros e n; simpl.
  - split; [auto|]. intros [H|[q [[] _]]]; auto.
  - rewrite IH. simpl. rewrite name_add_In. split.
    + intros [[[Hn1 Hn2]|H]|[q' [H1 H2]]].
      * right. exists q. subst n. auto.
      * left; exact H.
      * right. exists q'. tauto.
    + intros [H|[q' [[H1|H1] [H2 H3]]]].
      * left. right. exact H.
      * left. left. subst. auto.
      * right. exists q'. auto.
Qed.

Lemma add_quads_nodup l : forall e, ep_nodup e -> ep_nodup (fold_left add_quad l e).
Proof.
  induction l as [|q r IH]; intros e [H1 H2]; simpl; [split; auto|].
  apply IH. split; simpl; [apply q_add_NoDup|apply name_add_NoDup]; auto.
Qed.

Lemma add_quads_equiv l1 l2 e1 e2 :
  (forall q, In q l1 <-> In q l2) -> ep_equiv e1 e2 ->
  ep_equiv (fold_left add_quad l1 e1) (fold_left add_quad l2 e2).
Proof.
  intros Hl [Hq Hn]. split; intros x.
  - rewrite !add_quads_In, Hl, (Hq x). tauto.
  - rewrite !add_quads_names, (Hn x). split; intros [H|[q [H1 H2]]]; auto; right; exists q;
      (split; [apply Hl; assumption|assumption]).
Qed.

(* INSERT DATA { GRAPH g { ts } } is the addition of the quads (t, g) *)
Lemma insert_as_add_quads g ts : forall e,
  fold_left add_quad (map (fun t => (t, g)) ts) e =
  {| quads := ins_quads g ts (quads e);
     names := match ts with [] => names e | _ => name_add g (names e) end |}.
Proof.
  induction ts as [|t r IH]; intros e; simpl.
  - destruct e; reflexivity.
  - rewrite IH. simpl. unfold ins_quads. f_equal.
    destruct r; [reflexivity|apply name_add_idem].
Qed.

(* ------------------------------------------------------------------ *)
(* what each request operation means as a dataset transformer          *)

Definition den (alias : bool) (u : upd) : option wr :=
  match u with
  | UInsert r ts => Some (WAdd (map (fun t => (t, resolve alias r)) ts))
  | UDelWhere r p => Some (WRemove p (resolve alias r))
  | UDrop r => Some (WDrop (resolve alias r))
  | UCreate g => Some (WCreate g)
  | UBad => None
  end.

Lemma apply_upd_den alias e u w : den alias u = Some w -> apply_upd alias e u = s_apply e w.
Proof.
  destruct u; simpl; intros [= <-]; simpl; try reflexivity.
  symmetry. apply insert_as_add_quads.
Qed.

Definition D (alias : bool) (us : list upd) (ws : list wr) : Prop :=
  Forall2 (fun u w => den alias u = Some w) us ws.

Lemma D_app alias us ws us' ws' : D alias us ws -> D alias us' ws' -> D alias (us ++ us') (ws ++ ws').
Proof. apply Forall2_app. Qed.

Lemma D_not_bad alias us ws : D alias us ws -> existsb is_bad us = false.
Proof.
  induction 1 as [|u w us ws H _ IH]; simpl; auto.
  rewrite IH. destruct u; simpl in *; auto; discriminate.
Qed.

Lemma D_fold alias us ws : D alias us ws ->
  forall e, fold_left (apply_upd alias) us e = fold_left s_apply ws e.
Proof.
  induction 1 as [|u w us ws H _ IH]; intros e; simpl; auto.
  rewrite (apply_upd_den e H). apply IH.
Qed.

Lemma send_D alias us ws e : D alias us ws -> send alias e us = Some (fold_left s_apply ws e).
Proof.
  intros H. unfold send. rewrite (D_not_bad H), (D_fold H). reflexivity.
Qed.

(* ------------------------------------------------------------------ *)
(* the specification-level writes respect dataset equivalence          *)

Lemma s_apply_equiv w e1 e2 : ep_equiv e1 e2 -> ep_equiv (s_apply e1 w) (s_apply e2 w).
Proof.
  intros He. destruct w as [qs|p g|g|g]; simpl.
  - apply add_quads_equiv; [tauto|assumption].
  - destruct He as [Hq Hn]. split; simpl; auto.
    intros x. rewrite !q_remove_In, (Hq x). tauto.
  - destruct He as [Hq Hn]. split; simpl; auto.
    intros x. rewrite !name_add_In, (Hn x). tauto.
  - destruct He as [Hq Hn]. split; simpl.
    + intros x. rewrite !q_remove_In, (Hq x). tauto.
    + intros x. rewrite !(srem_In _ N.eqb_spec), (Hn x). tauto.
Qed.

Lemma s_apply_nodup w e : ep_nodup e -> ep_nodup (s_apply e w).
Proof.
  intros [H1 H2]. destruct w as [qs|p g|g|g]; simpl.
  - apply add_quads_nodup. split; auto.
  - split; simpl; auto. apply q_remove_NoDup; auto.
  - split; simpl; auto. apply name_add_NoDup; auto.
  - split; simpl; [apply q_remove_NoDup|apply (srem_NoDup N.eqb)]; auto.
Qed.

Lemma fold_s_apply_nodup ws : forall e, ep_nodup e -> ep_nodup (fold_left s_apply ws e).
Proof.
  induction ws as [|w r IH]; intros e H; simpl; auto. apply IH, s_apply_nodup, H.
Qed.

(* two lists of writes with the same effect up to enumeration order *)
Definition wsim (ws1 ws2 : list wr) : Prop :=
  forall e1 e2, ep_equiv e1 e2 ->
    ep_equiv (fold_left s_apply ws1 e1) (fold_left s_apply ws2 e2).

Lemma wsim_refl ws : wsim ws ws.
Proof.
  induction ws as [|w r IH]; intros e1 e2 H; simpl; auto. apply IH, s_apply_equiv, H.
Qed.

Lemma wsim_app a b c d : wsim a b -> wsim c d -> wsim (a ++ c) (b ++ d).
Proof.
  intros H1 H2 e1 e2 He. rewrite !fold_left_app. apply H2, H1, He.
Qed.

(* ------------------------------------------------------------------ *)
(* addN: one INSERT DATA per context, in first-occurrence order         *)

Definition flat (acc : list (cid * list triple)) : list quad :=
  concat (map (fun gt => map (fun t => (t, fst gt)) (snd gt)) acc).

Lemma flat_group_add t g acc : forall q,
  In q (flat (group_add t g acc)) <-> q = (t, g) \/ In q (flat acc).
Proof.
  induction acc as [|[g' ts] r IH]; intros q; simpl.
  - unfold flat; simpl. split; [intros [H|[]]; auto|intros [H|[]]; auto].
  - destruct (N.eqb_spec g g') as [->|Hg].
    + unfold flat; simpl. rewrite !in_app_iff, map_app, in_app_iff. simpl.
      split; [intros [[H|[H|[]]]|H]|intros [H|[H|H]]]; auto.
    + unfold flat in *; simpl. rewrite !in_app_iff, IH. tauto.
Qed.

Lemma flat_group qs : forall acc q,
  In q (flat (fold_left (fun acc q => group_add (fst q) (snd q) acc) qs acc)) <-> In q qs \/ In q (flat acc).
Proof.
  induction qs as [|[t g] r IH]; intros acc q; simpl; [tauto|].
  rewrite IH, flat_group_add. split; [intros [H|[H|H]]|intros [[H|H]|H]]; auto.
Qed.

Lemma resolve_ctx_ref alias c : resolve alias (ctx_ref c) = cid_of c.
Proof.
  destruct c as [g|]; simpl; auto. destruct (N.eqb_spec g 0) as [->|H]; simpl; auto.
  destruct (N.eqb_spec g 0); congruence.
Qed.

Lemma fold_groups alias acc : forall e,
  fold_left (apply_upd alias) (map (fun gt => UInsert (ctx_ref (Some (fst gt))) (snd gt)) acc) e
  = fold_left add_quad (flat acc) e.
Proof.
  induction acc as [|[g ts] r IH]; intros e; [reflexivity|].
  cbn [map fold_left]. unfold flat; cbn [map concat]. rewrite fold_left_app. fold (flat r).
  rewrite <- IH. f_equal. cbn [fst snd apply_upd].
  rewrite insert_as_add_quads, resolve_ctx_ref. reflexivity.
Qed.

(* ------------------------------------------------------------------ *)
(* every write of the client denotes, at the endpoint, the write it is  *)
(* on a local dataset                                                   *)

Lemma compile_write alias o w : classify o = KWrite w ->
  exists us ws, compile o = Some us /\ D alias us ws /\ wsim ws [w].
Proof.
  intros Hc.
  destruct o as [t c|qs|p c|g|g|u c| | | | | | | | | ]; simpl in Hc; try discriminate.
  - (* add *)
    injection Hc as <-. exists [UInsert (ctx_ref c) [t]], [WAdd [(t, cid_of c)]].
    split; [reflexivity|]. split; [|apply wsim_refl].
    constructor; [|constructor]. unfold den. rewrite resolve_ctx_ref. reflexivity.
  - (* addN *)
    injection Hc as <-.
    exists (map (fun gt => UInsert (ctx_ref (Some (fst gt))) (snd gt)) (group qs)),
           (map (fun gt => WAdd (map (fun t => (t, fst gt)) (snd gt))) (group qs)).
    split; [reflexivity|]. split.
    + unfold D. generalize (group qs). intros l.
      induction l as [|gt r IH]; cbn [map]; constructor; [|exact IH].
      unfold den. rewrite resolve_ctx_ref. reflexivity.
    + intros e1 e2 He. simpl.
      assert (F : forall l e, fold_left s_apply (map (fun gt => WAdd (map (fun t => (t, fst gt)) (snd gt))) l) e
                              = fold_left add_quad (flat l) e).
      { induction l as [|gt r IH]; intros e; simpl; [reflexivity|].
        unfold flat; simpl. rewrite fold_left_app. apply IH. }
      rewrite F. apply add_quads_equiv; [|exact He].
      intros q. unfold group. rewrite flat_group. unfold flat; simpl. tauto.
  - (* remove *)
    injection Hc as <-. exists [UDelWhere (ctx_ref c) p], [WRemove p (cid_of c)].
    split; [reflexivity|]. split; [|apply wsim_refl].
    constructor; [|constructor]. unfold den. rewrite resolve_ctx_ref. reflexivity.
  - (* add_graph *)
    destruct (N.eqb g 0) eqn:E; [discriminate|]. injection Hc as <-.
    exists [UCreate g], [WCreate g]. simpl. rewrite E.
    split; [reflexivity|]. split; [|apply wsim_refl]. constructor; [reflexivity|constructor].
  - (* remove_graph *)
    injection Hc as <-. exists [UDrop (if N.eqb g 0 then GDefault else GIri g)], [WDrop g].
    split; [reflexivity|]. split; [|apply wsim_refl]. constructor; [|constructor].
    simpl. destruct (N.eqb_spec g 0) as [->|H]; simpl; [reflexivity|].
    destruct (N.eqb_spec g 0); [congruence|reflexivity].
  - (* update *)
    assert (Hr : resolve alias (qg_ref c) = cid_of c) by apply resolve_ctx_ref.
    destruct u as [t|t|p|p]; injection Hc as <-.
    + exists [UInsert (qg_ref c) [t]], [WAdd [(t, cid_of c)]].
      split; [reflexivity|]. split; [|apply wsim_refl]. constructor; [|constructor].
      unfold den. rewrite Hr. reflexivity.
    + exists [UDelWhere (qg_ref c) (pat_of t)], [WRemove (pat_of t) (cid_of c)].
      split; [reflexivity|]. split; [|apply wsim_refl]. constructor; [|constructor].
      unfold den. rewrite Hr. reflexivity.
    + exists [UDelWhere (qg_ref c) p], [WRemove p (cid_of c)].
      split; [reflexivity|]. split; [|apply wsim_refl]. constructor; [|constructor].
      unfold den. rewrite Hr. reflexivity.
    + exists [UDelWhere (qg_ref c) p], [WRemove p (cid_of c)].
      split; [reflexivity|]. split; [|apply wsim_refl]. constructor; [|constructor].
      unfold den. rewrite Hr. reflexivity.
Qed.

(* ------------------------------------------------------------------ *)
(* reads                                                                *)

Lemma q_triples_NoDup p g s : NoDup s -> NoDup (q_triples p g s).
Proof.
  unfold q_triples. intros H.
  assert (G : forall l : list quad, NoDup l -> (forall q, In q l -> snd q = g) -> NoDup (map fst l)).
  { induction l as [|[t c] r IH]; simpl; intros Hn Hg; [constructor|].
    inversion Hn as [|? ? Hx Hr]; subst. constructor.
    - intros Hin. apply in_map_iff in Hin. destruct Hin as [[t' c'] [E Hin]]. simpl in E. subst t'.
      apply Hx. pose proof (Hg (t, c) (or_introl eq_refl)) as E1. pose proof (Hg (t, c') (or_intror Hin)) as E2.
      simpl in E1, E2. subst c c'. exact Hin.
    - apply IH; auto. }
  apply G; [apply filter_NoDup; exact H|].
  intros q Hq. apply filter_In in Hq. destruct Hq as [_ Hq]. unfold qsel in Hq.
  apply andb_true_iff in Hq. destruct Hq as [_ Hq]. apply N.eqb_eq in Hq. auto.
Qed.

Lemma ctx_rows_NoDup t s : NoDup s -> NoDup (ctx_rows (pat_of t) s).
Proof.
  unfold ctx_rows. intros H.
  assert (G : forall l : list quad, NoDup l -> (forall q, In q l -> fst q = t) -> NoDup (map snd l)).
  { induction l as [|[t' c] r IH]; simpl; intros Hn Hg; [constructor|].
    inversion Hn as [|? ? Hx Hr]; subst. constructor.
    - intros Hin. apply in_map_iff in Hin. destruct Hin as [[t2 c2] [E Hin]]. simpl in E. subst c2.
      apply Hx. pose proof (Hg (t', c) (or_introl eq_refl)) as E1. pose proof (Hg (t2, c) (or_intror Hin)) as E2.
      simpl in E1, E2. subst t' t2. exact Hin.
    - apply IH; auto. }
  apply G; [apply filter_NoDup; exact H|].
  intros q Hq. apply filter_In in Hq. destruct Hq as [_ Hq].
  apply andb_true_iff in Hq. destruct Hq as [Hq _]. apply matches_pat_of in Hq. auto.
Qed.

Lemma enum_ofb_self {A} (eqb : A -> A -> bool) (Hs : forall x y, reflect (x = y) (eqb x y)) l :
  NoDup l -> enum_ofb eqb l l = true.
Proof.
  intros H. apply (enum_ofb_spec _ Hs). split; [exact H|apply seteq_refl].
Qed.

Lemma read_ok_model alias o e : is_read o = true -> ep_nodup e ->
  read_ok o e (read_ans alias o e) = true.
Proof.
  intros Hr [Hq Hn].
  destruct o as [| | | | | | | | | | |p c|c|t|k p c]; try discriminate.
  - cbn [read_ok read_ans]. rewrite resolve_ctx_ref.
    apply (enum_ofb_self triple_eqb_spec), q_triples_NoDup, Hq.
  - cbn [read_ok read_ans]. rewrite resolve_ctx_ref. apply N.eqb_refl.
  - destruct t as [t|]; cbn [read_ok read_ans].
    + apply (enum_ofb_self N.eqb_spec). apply (ctx_rows_NoDup t), Hq.
    + apply (enum_ofb_self N.eqb_spec), Hn.
  - cbn [read_ok read_ans]. unfold qg_ref. rewrite resolve_ctx_ref.
    apply (enum_ofb_self triple_eqb_spec), q_triples_NoDup, Hq.
Qed.

(* ------------------------------------------------------------------ *)
(* the simulation                                                       *)

Definition notbad (u : upd) : bool := negb (is_bad u).

Record R (alias : bool) (m : mst) (s : sst) : Prop := {
  R_ep : m_ep m = s_prev s;
  R_auto : m_auto m = s_auto s;
  R_dirty : m_dirty m = s_dirty s;
  R_nd : ep_nodup (m_ep m);
  R_poison : existsb is_bad (m_edits m) = s_poison s;
  R_ws : exists ws, D alias (filter notbad (m_edits m)) ws /\ wsim ws (s_pend s) }.

Lemma ep_ok_intro now expected : ep_nodup now -> ep_equiv now expected -> ep_ok now expected = true.
Proof.
  intros [H1 H2] [H3 H4]. unfold ep_ok.
  rewrite (proj2 (nodupb_spec _ quad_eqb_spec _) H1), (proj2 (qseteqb_spec _ _) H3),
          (proj2 (nodupb_spec _ N.eqb_spec _) H2), (proj2 (seteqb_spec _ N.eqb_spec _ _) H4).
  reflexivity.
Qed.

Lemma filter_notbad_id us : existsb is_bad us = false -> filter notbad us = us.
Proof.
  induction us as [|u r IH]; simpl; auto. intros H. apply orb_false_iff in H. destruct H as [H1 H2].
  unfold notbad at 1. rewrite H1. simpl. rewrite IH; auto.
Qed.

Lemma m_commit_D alias m ws : D alias (m_edits m) ws ->
  m_commit alias m = (set_ep m (fold_left s_apply ws (m_ep m)) [], true).
Proof.
  intros H. unfold m_commit. destruct m as [e l a d]; simpl in *.
  destruct l as [|u r].
  - inversion H; subst. reflexivity.
  - rewrite (send_D e H). reflexivity.
Qed.

Lemma m_commit_bad alias m : existsb is_bad (m_edits m) = true ->
  m_commit alias m = (set_ep m (m_ep m) [], false).
Proof.
  intros H. unfold m_commit. destruct m as [e l a d]; simpl in *.
  destruct l as [|u r]; [discriminate|]. unfold send. rewrite H. reflexivity.
Qed.

(* the queue, extended by the edits [us] of the call being made, goes to the
   endpoint: the model does what [flush_step] prescribes *)
Lemma flush_sim alias m s us ws' extra (bad : bool) (ok : ep -> ans -> bool) (f : ep -> ans) :
  R alias m s ->
  existsb is_bad us = bad -> D alias (filter notbad us) ws' -> wsim ws' extra ->
  (forall e, ep_nodup e -> ok e (f e) = true) ->
  let r := m_commit alias (set_ep m (m_ep m) (m_edits m ++ us)) in
  exists s', flush_step s extra bad (m_ep (fst r)) (if snd r then f (m_ep (fst r)) else ARaised) (ok (m_ep (fst r))) = Some s'
             /\ R alias (fst r) s'.
Proof.
  intros HR Hb HD' Hs' Hok. destruct (R_ws HR) as [ws [HD Hs]].
  assert (Hcur : ep_ok (m_ep m) (s_prev s) = true).
  { apply ep_ok_intro; [apply HR|rewrite (R_ep HR); apply ep_equiv_refl]. }
  unfold flush_step. rewrite <- (R_poison HR), <- Hb.
  destruct (existsb is_bad (m_edits m) || existsb is_bad us) eqn:Ep.
  - assert (Hbad : existsb is_bad (m_edits (set_ep m (m_ep m) (m_edits m ++ us))) = true)
      by (simpl; rewrite existsb_app; exact Ep).
    cbv zeta. rewrite (m_commit_bad alias Hbad). simpl. rewrite Hcur. simpl.
    eexists; split; [reflexivity|].
    constructor; simpl; auto; try apply HR. exists []. split; [constructor|apply wsim_refl].
  - apply orb_false_iff in Ep. destruct Ep as [E1 E2].
    rewrite (filter_notbad_id E1) in HD. rewrite (filter_notbad_id E2) in HD'.
    assert (HDa : D alias (m_edits (set_ep m (m_ep m) (m_edits m ++ us))) (ws ++ ws'))
      by (simpl; apply D_app; assumption).
    cbv zeta. rewrite (m_commit_D HDa). simpl.
    assert (Hnd : ep_nodup (fold_left s_apply (ws ++ ws') (m_ep m))) by (apply fold_s_apply_nodup, HR).
    assert (Heq : ep_equiv (fold_left s_apply (ws ++ ws') (m_ep m))
                           (fold_left s_apply (s_pend s ++ extra) (s_prev s))).
    { apply (wsim_app Hs Hs'). rewrite (R_ep HR). apply ep_equiv_refl. }
    rewrite (ep_ok_intro Hnd Heq), (Hok _ Hnd). simpl.
    eexists; split; [reflexivity|].
    constructor; simpl; auto; try apply HR. exists []. split; [constructor|apply wsim_refl].
Qed.

Lemma set_ep_same m : set_ep m (m_ep m) (m_edits m ++ []) = m.
Proof. destruct m; unfold set_ep; simpl. rewrite app_nil_r. reflexivity. Qed.

Lemma m_step_compile alias m o us : compile o = Some us -> m_step alias m o = m_write alias m us.
Proof.
  intros H. destruct o; try discriminate H; unfold m_step; rewrite H; reflexivity.
Qed.

(* a write-like call: its edits, and what they mean *)
Lemma write_sim alias m s us ws' extra (bad : bool) :
  R alias m s ->
  existsb is_bad us = bad -> D alias (filter notbad us) ws' -> wsim ws' extra ->
  let r := m_write alias m us in
  exists s', write_step s extra bad (m_ep (fst r)) (snd r) = Some s' /\ R alias (fst r) s'.
Proof.
  intros HR Hb HD' Hs'. destruct (R_ws HR) as [ws [HD Hs]].
  unfold write_step, m_write. rewrite <- (R_auto HR). destruct (m_auto m) eqn:Ha.
  - destruct (flush_sim (ok := fun _ => is_none) (f := fun _ => ANone) HR Hb HD' Hs' (fun _ _ => eq_refl))
      as [s' [H1 H2]].
    cbv zeta in *.
    destruct (m_commit alias (set_ep m (m_ep m) (m_edits m ++ us))) as [m2 okb] eqn:Ec.
    simpl in *. exists s'. split; [|exact H2]. destruct okb; exact H1.
  - cbv zeta. simpl.
    assert (Hcur : ep_ok (m_ep m) (s_prev s) = true).
    { apply ep_ok_intro; [apply HR|rewrite (R_ep HR); apply ep_equiv_refl]. }
    rewrite Hcur. simpl. eexists; split; [reflexivity|].
    constructor; simpl; auto; try apply HR.
    + rewrite existsb_app, (R_poison HR), Hb. reflexivity.
    + exists (ws ++ ws'). split; [|apply wsim_app; assumption].
      unfold notbad. rewrite filter_app. apply D_app; assumption.
Qed.

Lemma step_sim alias m s o : R alias m s ->
  exists s', spec_step s o (m_ep (fst (m_step alias m o))) (snd (m_step alias m o)) = Some s'
             /\ R alias (fst (m_step alias m o)) s'.
Proof.
  intros HR. destruct (R_ws HR) as [ws [HD Hs]].
  assert (Hcur : ep_ok (m_ep m) (s_prev s) = true).
  { apply ep_ok_intro; [apply HR|rewrite (R_ep HR); apply ep_equiv_refl]. }
  destruct (classify o) as [w| | | |b|b| | ] eqn:Hc.
  - (* a write *)
    destruct (compile_write alias Hc) as [us [ws' [Hcomp [HD' Hs']]]].
    rewrite (m_step_compile alias m Hcomp). unfold spec_step. rewrite Hc.
    pose proof (D_not_bad HD') as Hnb.
    apply (write_sim (ws' := ws') HR Hnb); [rewrite (filter_notbad_id Hnb); exact HD'|exact Hs'].
  - (* an update the endpoint will reject *)
    assert (o = OBadUpdate) as ->.
    { destruct o as [t c|qs|p c|g|g|u c| | | |b0|b0|p c|c|t|k p c]; simpl in Hc; try discriminate; auto.
      - destruct (N.eqb g 0); discriminate.
      - destruct u; discriminate. }
    rewrite (m_step_compile alias m (o := OBadUpdate) (us := [UBad]) eq_refl). unfold spec_step. simpl classify.
    apply (write_sim (us := [UBad]) (ws' := []) HR eq_refl); [constructor|apply wsim_refl].
  - (* commit *)
    assert (o = OCommit) as ->.
    { destruct o as [t c|qs|p c|g|g|u c| | | |b0|b0|p c|c|t|k p c]; simpl in Hc; try discriminate; auto.
      - destruct (N.eqb g 0); discriminate.
      - destruct u; discriminate. }
    unfold spec_step. simpl classify.
    destruct (flush_sim (us := []) (ws' := []) (extra := []) (ok := fun _ => is_none) (f := fun _ => ANone) HR eq_refl
                (Forall2_nil _) (wsim_refl []) (fun _ _ => eq_refl)) as [s' [H1 H2]].
    cbv zeta in *. rewrite set_ep_same in H1, H2. simpl m_step.
    destruct (m_commit alias m) as [m2 okb]. simpl in *. exists s'. split; [|exact H2]. destruct okb; exact H1.
  - (* rollback *)
    assert (o = ORollback) as ->.
    { destruct o as [t c|qs|p c|g|g|u c| | | |b0|b0|p c|c|t|k p c]; simpl in Hc; try discriminate; auto.
      - destruct (N.eqb g 0); discriminate.
      - destruct u; discriminate. }
    simpl. unfold spec_step; simpl. rewrite Hcur. simpl.
    eexists; split; [reflexivity|].
    constructor; simpl; auto; try apply HR. exists []. split; [constructor|apply wsim_refl].
  - (* set autocommit *)
    assert (o = OSetAuto b) as ->.
    { destruct o as [t c|qs|p c|g|g|u c| | | |b0|b0|p c|c|t|k p c]; simpl in Hc; try discriminate; try (injection Hc as ->; reflexivity).
      - destruct (N.eqb g 0); discriminate.
      - destruct u; discriminate. }
    simpl. unfold spec_step; simpl. rewrite Hcur. simpl.
    eexists; split; [reflexivity|]. constructor; simpl; auto; try apply HR; try (exists ws; auto).
  - (* set dirty_reads *)
    assert (o = OSetDirty b) as ->.
    { destruct o as [t c|qs|p c|g|g|u c| | | |b0|b0|p c|c|t|k p c]; simpl in Hc; try discriminate; try (injection Hc as ->; reflexivity).
      - destruct (N.eqb g 0); discriminate.
      - destruct u; discriminate. }
    simpl. unfold spec_step; simpl. rewrite Hcur. simpl.
    eexists; split; [reflexivity|]. constructor; simpl; auto; try apply HR; try (exists ws; auto).
  - (* a read *)
    assert (Hr : is_read o = true /\ compile o = None).
    { destruct o as [t c|qs|p c|g|g|u c| | | |b0|b0|p c|c|t|k p c]; simpl in Hc; try discriminate; auto.
      - destruct (N.eqb g 0); discriminate.
      - destruct u; discriminate. }
    destruct Hr as [Hr Hn].
    assert (Hstep : m_step alias m o = m_read alias m o).
    { destruct o; simpl in Hr; try discriminate; reflexivity. }
    rewrite Hstep. unfold spec_step. rewrite Hc. unfold m_read.
    rewrite <- (R_auto HR), <- (R_dirty HR).
    destruct (negb (m_auto m) && negb (m_dirty m)) eqn:Hf.
    + destruct (flush_sim (us := []) (ws' := []) (extra := []) (ok := fun e => read_ok o e) (f := read_ans alias o)
                  HR eq_refl (Forall2_nil _) (wsim_refl [])) as [s' [H1 H2]].
      * intros e He. apply read_ok_model; assumption.
      * cbv zeta in *. rewrite set_ep_same in H1, H2.
        destruct (m_commit alias m) as [m2 okb]. simpl in *. exists s'. split; [|exact H2]. destruct okb; exact H1.
    + simpl. rewrite Hcur, (read_ok_model alias Hr (R_nd HR)). simpl.
      eexists; split; [reflexivity|]. constructor; simpl; auto; try apply HR; try (exists ws; auto).
  - (* add_graph of the default graph: nothing is sent *)
    assert (o = OAddGraph 0) as ->.
    { destruct o as [t c|qs|p c|g|g|u c| | | |b0|b0|p c|c|t|k p c]; simpl in Hc; try discriminate.
      - destruct (N.eqb_spec g 0) as [->|]; [reflexivity|discriminate].
      - destruct u; discriminate. }
    simpl. unfold spec_step; simpl. rewrite Hcur. simpl.
    eexists; split; [reflexivity|]. constructor; simpl; auto; try apply HR; try (exists ws; auto).
Qed.

Lemma run_sim alias ops : forall m s, R alias m s -> spec_run s ops (m_run alias m ops) = true.
Proof.
  induction ops as [|o r IH]; intros m s HR; simpl; [reflexivity|].
  destruct (step_sim o HR) as [s' [Hs HR']].
  destruct (m_step alias m o) as [m' a] eqn:E. simpl in *. rewrite Hs. apply IH; assumption.
Qed.

Theorem spec_ok_model : forall c, wf c -> spec_ok c (model_obs c) = true.
Proof.
  intros c [H1 H2]. unfold spec_ok, model_obs. apply run_sim.
  constructor; simpl; auto; [split; assumption|].
  exists []. split; [constructor|apply wsim_refl].
Qed.

(* ------------------------------------------------------------------ *)
(* Prop-level statements for Props/C20.v                               *)

(* each write has, at the endpoint, the effect it has on a local dataset *)
Lemma writes_mirror alias o w : classify o = KWrite w ->
  exists us, compile o = Some us /\
    forall e, exists e', send alias e us = Some e' /\ ep_equiv e' (s_apply e w).
Proof.
  intros Hc. destruct (compile_write alias Hc) as [us [ws [Hcomp [HD Hs]]]].
  exists us. split; [exact Hcomp|]. intros e. exists (fold_left s_apply ws e).
  split; [apply send_D; exact HD|]. apply (Hs e e), ep_equiv_refl.
Qed.

Lemma q_triples_In p g s t : In t (q_triples p g s) <-> In (t, g) s /\ matches p t = true.
Proof.
  unfold q_triples. rewrite in_map_iff. split.
  - intros [[t' c] [E H]]. simpl in E. subst t'. apply filter_In in H. destruct H as [H1 H2].
    unfold qsel in H2. simpl in H2. apply andb_true_iff in H2. destruct H2 as [H2 H3].
    apply N.eqb_eq in H3. subst c. auto.
  - intros [H1 H2]. exists (t, g). split; [reflexivity|]. apply filter_In. split; [exact H1|].
    unfold qsel. simpl. rewrite H2, N.eqb_refl. reflexivity.
Qed.

Lemma triples_mirror alias p c e : NoDup (quads e) ->
  exists l, read_ans alias (OTriples p c) e = ATriples l /\ NoDup l /\
    forall t, In t l <-> In (t, cid_of c) (quads e) /\ matches p t = true.
Proof.
  intros H. exists (q_triples p (cid_of c) (quads e)). cbn [read_ans]. rewrite resolve_ctx_ref.
  split; [reflexivity|]. split; [apply q_triples_NoDup, H|]. intros t. apply q_triples_In.
Qed.

Lemma query_mirror alias k p c e : NoDup (quads e) ->
  exists l, read_ans alias (OQuery k p c) e = ATriples l /\ NoDup l /\
    forall t, In t l <-> In (t, cid_of c) (quads e) /\ matches p t = true.
Proof.
  intros H. exists (q_triples p (cid_of c) (quads e)). cbn [read_ans]. unfold qg_ref. rewrite resolve_ctx_ref.
  split; [reflexivity|]. split; [apply q_triples_NoDup, H|]. intros t. apply q_triples_In.
Qed.

Lemma matches_all t : matches all_pat t = true.
Proof. destruct t as [[a b] c]. reflexivity. Qed.

Lemma len_mirror alias c e : NoDup (quads e) ->
  exists l, read_ans alias (OLen c) e = ANum (N.of_nat (length l)) /\ NoDup l /\
    forall t, In t l <-> In (t, cid_of c) (quads e).
Proof.
  intros H. exists (q_triples all_pat (cid_of c) (quads e)). cbn [read_ans]. rewrite resolve_ctx_ref.
  split; [reflexivity|]. split; [apply q_triples_NoDup, H|].
  intros t. rewrite q_triples_In, matches_all. tauto.
Qed.

Lemma ctx_rows_In t s g : In g (ctx_rows (pat_of t) s) <-> In (t, g) s /\ g <> 0.
Proof.
  unfold ctx_rows. rewrite in_map_iff. split.
  - intros [[t' c] [E H]]. simpl in E. subst c. apply filter_In in H. destruct H as [H1 H2].
    simpl in H2. apply andb_true_iff in H2. destruct H2 as [H2 H3].
    apply matches_pat_of in H2. subst t'. apply negb_true_iff, N.eqb_neq in H3. auto.
  - intros [H1 H2]. exists (t, g). split; [reflexivity|]. apply filter_In. split; [exact H1|].
    simpl. apply andb_true_iff. split; [apply matches_pat_of; reflexivity|].
    apply negb_true_iff, N.eqb_neq, H2.
Qed.

Lemma contexts_mirror alias t e : NoDup (quads e) ->
  exists l, read_ans alias (OContexts (Some t)) e = ANames l /\ NoDup l /\
    forall g, In g l <-> In (t, g) (quads e) /\ g <> 0.
Proof.
  intros H. exists (ctx_rows (pat_of t) (quads e)). cbn [read_ans].
  split; [reflexivity|]. split; [apply (ctx_rows_NoDup t), H|]. intros g. apply ctx_rows_In.
Qed.

(* ------------------------------------------------------------------ *)
(* the edit queue: which writes are due at the endpoint                 *)

Record qst := { q_done : list wr;     (* writes the endpoint must have executed, in order *)
                q_pend : list wr;     (* writes made but not yet due *)
                q_poison : bool;      (* a statement the endpoint rejects is waiting with them *)
                q_auto : bool; q_dirty : bool }.

Definition q_set (q : qst) (done pend : list wr) (poison : bool) : qst :=
  {| q_done := done; q_pend := pend; q_poison := poison; q_auto := q_auto q; q_dirty := q_dirty q |}.

(* the queue (and [extra]) goes to the endpoint: executed in order, or, if a
   statement is rejected, not at all - either way nothing stays queued *)
Definition q_flush (q : qst) (extra : list wr) (bad : bool) : qst :=
  if q_poison q || bad then q_set q (q_done q) [] false
  else q_set q (q_done q ++ q_pend q ++ extra) [] false.

Definition q_write (q : qst) (extra : list wr) (bad : bool) : qst :=
  if q_auto q then q_flush q extra bad
  else q_set q (q_done q) (q_pend q ++ extra) (q_poison q || bad).

Definition q_step (q : qst) (o : op) : qst :=
  match classify o with
  | KWrite w => q_write q [w] false
  | KBad => q_write q [] true
  | KCommit => q_flush q [] false
  | KRollback => q_set q (q_done q) [] false
  | KRead => if negb (q_auto q) && negb (q_dirty q) then q_flush q [] false else q
  | KAuto b => {| q_done := q_done q; q_pend := q_pend q; q_poison := q_poison q; q_auto := b; q_dirty := q_dirty q |}
  | KDirty b => {| q_done := q_done q; q_pend := q_pend q; q_poison := q_poison q; q_auto := q_auto q; q_dirty := b |}
  | KNoop => q
  end.

Fixpoint due_run (q : qst) (ops : list op) : list (list wr) :=
  match ops with
  | [] => []
  | o :: r => q_done (q_step q o) :: due_run (q_step q o) r
  end.

Lemma ep_ok_equiv now expected : ep_ok now expected = true -> ep_equiv now expected.
Proof.
  unfold ep_ok. rewrite !andb_true_iff. intros [[[_ H1] _] H2].
  split; [apply qseteqb_spec, H1|apply (seteqb_spec _ N.eqb_spec), H2].
Qed.

Definition Q (init : ep) (s : sst) (q : qst) : Prop :=
  s_pend s = q_pend q /\ s_poison s = q_poison q /\ s_auto s = q_auto q /\ s_dirty s = q_dirty q /\
  ep_equiv (s_prev s) (fold_left s_apply (q_done q) init).

Ltac solveQ X :=
  split; [|exact X];
  split; [|split; [|split; [|split; [|exact X]]]]; simpl in *; try congruence; auto.

Lemma flush_step_due init s q extra bad now a ok s' : Q init s q ->
  flush_step s extra bad now a ok = Some s' ->
  Q init s' (q_flush q extra bad) /\ ep_equiv now (fold_left s_apply (q_done (q_flush q extra bad)) init).
Proof.
  intros [H1 [H2 [H3 [H4 H5]]]]. unfold flush_step, q_flush. rewrite <- H2, <- H1.
  destruct (s_poison s || bad).
  - destruct (ep_ok now (s_prev s) && is_raised a) eqn:E; [|discriminate].
    intros [= <-]. apply andb_true_iff in E. destruct E as [E _]. apply ep_ok_equiv in E.
    assert (X : ep_equiv now (fold_left s_apply (q_done q) init)) by (eapply ep_equiv_trans; eassumption).
    solveQ X.
  - destruct (ep_ok now (fold_left s_apply (s_pend s ++ extra) (s_prev s)) && ok a) eqn:E; [|discriminate].
    intros [= <-]. apply andb_true_iff in E. destruct E as [E _]. apply ep_ok_equiv in E.
    assert (X : ep_equiv now (fold_left s_apply (q_done q ++ s_pend s ++ extra) init)).
    { eapply ep_equiv_trans; [exact E|]. rewrite (fold_left_app _ (q_done q)). apply wsim_refl, H5. }
    solveQ X.
Qed.

Lemma write_step_due init s q extra bad now a s' : Q init s q ->
  write_step s extra bad now a = Some s' ->
  Q init s' (q_write q extra bad) /\ ep_equiv now (fold_left s_apply (q_done (q_write q extra bad)) init).
Proof.
  intros HQ. pose proof HQ as [H1 [H2 [H3 [H4 H5]]]]. unfold write_step, q_write. rewrite <- H3.
  destruct (s_auto s) eqn:Ea; [apply flush_step_due; exact HQ|].
  destruct (ep_ok now (s_prev s) && is_none a) eqn:E; [|discriminate].
  intros [= <-]. apply andb_true_iff in E. destruct E as [E _]. apply ep_ok_equiv in E.
  assert (X : ep_equiv now (fold_left s_apply (q_done q) init)) by (eapply ep_equiv_trans; eassumption).
  solveQ X.
Qed.

Lemma spec_step_due init s q o now a s' : Q init s q -> spec_step s o now a = Some s' ->
  Q init s' (q_step q o) /\ ep_equiv now (fold_left s_apply (q_done (q_step q o)) init).
Proof.
  intros HQ. pose proof HQ as [H1 [H2 [H3 [H4 H5]]]].
  unfold spec_step, q_step.
  destruct (classify o) as [w| | | |b|b| | ].
  - apply write_step_due; exact HQ.
  - apply write_step_due; exact HQ.
  - apply flush_step_due; exact HQ.
  - destruct (ep_ok now (s_prev s) && is_none a) eqn:E; [|discriminate].
    intros [= <-]. apply andb_true_iff in E. destruct E as [E _]. apply ep_ok_equiv in E.
    assert (X : ep_equiv now (fold_left s_apply (q_done q) init)) by (eapply ep_equiv_trans; eassumption).
    solveQ X.
  - destruct (ep_ok now (s_prev s) && is_none a) eqn:E; [|discriminate].
    intros [= <-]. apply andb_true_iff in E. destruct E as [E _]. apply ep_ok_equiv in E.
    assert (X : ep_equiv now (fold_left s_apply (q_done q) init)) by (eapply ep_equiv_trans; eassumption).
    solveQ X.
  - destruct (ep_ok now (s_prev s) && is_none a) eqn:E; [|discriminate].
    intros [= <-]. apply andb_true_iff in E. destruct E as [E _]. apply ep_ok_equiv in E.
    assert (X : ep_equiv now (fold_left s_apply (q_done q) init)) by (eapply ep_equiv_trans; eassumption).
    solveQ X.
  - rewrite <- H3, <- H4. destruct (negb (s_auto s) && negb (s_dirty s)) eqn:Ea.
    + apply flush_step_due; exact HQ.
    + destruct (ep_ok now (s_prev s) && read_ok o now a) eqn:E; [|discriminate].
      intros [= <-]. apply andb_true_iff in E. destruct E as [E _]. apply ep_ok_equiv in E.
      assert (X : ep_equiv now (fold_left s_apply (q_done q) init)) by (eapply ep_equiv_trans; eassumption).
      solveQ X.
  - destruct (ep_ok now (s_prev s) && is_none a) eqn:E; [|discriminate].
    intros [= <-]. apply andb_true_iff in E. destruct E as [E _]. apply ep_ok_equiv in E.
    assert (X : ep_equiv now (fold_left s_apply (q_done q) init)) by (eapply ep_equiv_trans; eassumption).
    solveQ X.
Qed.

(* reading of the checker: whatever observation sequence it accepts shows, after
   every step, exactly the writes that are due, executed in order *)
Lemma spec_run_due init ops : forall s q obs, Q init s q -> spec_run s ops obs = true ->
  Forall2 (fun ob dn => ep_equiv (fst ob) (fold_left s_apply dn init)) obs (due_run q ops).
Proof.
  induction ops as [|o r IH]; intros s q obs HQ H; destruct obs as [|[now a] obs']; simpl in H; try discriminate.
  - constructor.
  - destruct (spec_step s o now a) as [s'|] eqn:E; [|discriminate].
    destruct (spec_step_due HQ E) as [HQ' HX]. simpl. constructor; [exact HX|].
    eapply IH; eassumption.
Qed.

Definition q0 (c : case) : qst :=
  {| q_done := []; q_pend := []; q_poison := false; q_auto := c_auto c; q_dirty := c_dirty c |}.

Theorem queue_model c : wf c ->
  Forall2 (fun ob dn => ep_equiv (fst ob) (fold_left s_apply dn (init_ep c)))
          (model_obs c) (due_run (q0 c) (c_ops c)).
Proof.
  intros Hw. eapply spec_run_due; [|apply (spec_ok_model Hw)].
  repeat split; simpl; apply seteq_refl.
Qed.

Lemma read_ok_triples p c now l : read_ok (OTriples p c) now (ATriples l) = true <->
  NoDup l /\ forall t, In t l <-> In (t, cid_of c) (quads now) /\ matches p t = true.
Proof.
  cbn [read_ok]. rewrite (enum_ofb_spec _ triple_eqb_spec). unfold enum_of, seteq.
  split; intros [H1 H2]; split; auto; intros t; rewrite (H2 t) || rewrite <- (H2 t); try apply q_triples_In.
  symmetry; apply q_triples_In.
Qed.

(* ------------------------------------------------------------------ *)
(* the code as it was before the repairs (findings F13a, F13b)          *)

(* F13a: queryGraph = the default graph's IRI was taken for a named graph; on an
   endpoint that does not alias that IRI the request designated graph 9, not 0 *)
Lemma hist_default_iri_refuted :
  resolve false (qg_ref_hist (Some 0)) <> cid_of (Some 0) /\ resolve false (qg_ref (Some 0)) = cid_of (Some 0).
Proof. split; [discriminate|reflexivity]. Qed.

(* F13b: contexts(triple) with a falsy bound term matched other triples too *)
Lemma hist_contexts_truthiness_refuted :
  exists t s, NoDup s /\ ctx_rows (truthy_pat_hist t) s <> ctx_rows (pat_of t) s.
Proof.
  exists (1, 3, 5), [((1, 3, 5), 1); ((1, 3, 10), 2)]. split.
  - repeat constructor; simpl; intuition discriminate.
  - vm_compute. discriminate.
Qed.
