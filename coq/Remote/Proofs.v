(* C20 - proofs about the model of the remote (SPARQL endpoint) store. *)
From RV Require Import Remote.Model.
Local Open Scope N_scope.
Set Implicit Arguments.
Unset Strict Implicit.

(* ------------------------------------------------------------------ *)
(* datasets up to the order of their enumeration                        *)

Definition ep_equiv (a b : ep) : Prop :=
  seteq (quads a) (quads b) /\ seteq (names a) (names b).

Lemma ep_equiv_refl e : ep_equiv e e.
Proof. split; apply seteq_refl. Qed.

Lemma ep_equiv_sym a b : ep_equiv a b -> ep_equiv b a.
Proof. intros [H1 H2]; split; apply seteq_sym; assumption. Qed.

Lemma ep_equiv_trans a b c : ep_equiv a b -> ep_equiv b c -> ep_equiv a c.
Proof. intros [H1 H2] [H3 H4]; split; eapply seteq_trans; eassumption. Qed.

Definition ep_nodup (e : ep) : Prop := NoDup (quads e) /\ NoDup (names e).

(* ------------------------------------------------------------------ *)
(* names                                                                *)

Lemma name_add_In g n l : In n (name_add g l) <-> (n = g /\ g <> 0) \/ In n l.
Proof.
  unfold name_add. destruct (N.eqb_spec g 0) as [->|Hg].
  - split; [auto|]. intros [[_ H]|H]; [congruence|auto].
  - rewrite (sadd_In _ N.eqb_spec). split.
    + intros [->|H]; auto.
    + intros [[-> _]|H]; auto.
Qed.

Lemma name_add_NoDup g l : NoDup l -> NoDup (name_add g l).
Proof.
  unfold name_add. destruct (N.eqb g 0); auto. apply (sadd_NoDup _ N.eqb_spec).
Qed.

Lemma name_add_idem g l : name_add g (name_add g l) = name_add g l.
Proof.
  unfold name_add. destruct (N.eqb g 0); auto.
  unfold sadd at 1. destruct (memb N.eqb g (sadd N.eqb g l)) eqn:E; auto.
  apply (memb_false _ N.eqb_spec) in E. exfalso. apply E.
  apply (sadd_In _ N.eqb_spec). auto.
Qed.

(* ------------------------------------------------------------------ *)
(* adding quads                                                         *)

Lemma add_quads_In l : forall e x,
  In x (quads (fold_left add_quad l e)) <-> In x l \/ In x (quads e).
Proof.
  induction l as [|q r IH]; intros e x; simpl; [tauto|].
  rewrite IH. simpl. rewrite q_add_In. split; [intros [H|[H|H]]|intros [[H|H]|H]]; auto.
Qed.

Lemma add_quads_names l : forall e n,
  In n (names (fold_left add_quad l e)) <->
  In n (names e) \/ exists q, In q l /\ snd q = n /\ n <> 0.
Proof.
  induction l as [|q r IH]; intros e n; simpl.
  - split; [auto|]. intros [H|[q [[] _]]]; auto.
  - rewrite IH. simpl. rewrite name_add_In. split.
    + intros [[[Hn1 Hn2]|H]|[q' [H1 H2]]].
      * right. exists q. subst n. auto.
      * left; exact H.
      * right. exists q'. tauto.
    + intros [H|[q' [[H1|H1] [H2 H3]]]].
      * left. right. exact H.
      * left. left. subst. auto.
      * right. exists q'. auto.
Qed.

Lemma add_quads_nodup l : forall e, ep_nodup e -> ep_nodup (fold_left add_quad l e).
Proof.
  induction l as [|q r IH]; intros e [H1 H2]; simpl; [split; auto|].
  apply IH. split; simpl; [apply q_add_NoDup|apply name_add_NoDup]; auto.
Qed.

Lemma add_quads_equiv l1 l2 e1 e2 :
  (forall q, In q l1 <-> In q l2) -> ep_equiv e1 e2 ->
  ep_equiv (fold_left add_quad l1 e1) (fold_left add_quad l2 e2).
Proof.
  intros Hl [Hq Hn]. split; intros x.
  - rewrite !add_quads_In, Hl, (Hq x). tauto.
  - rewrite !add_quads_names, (Hn x). split; intros [H|[q [H1 H2]]]; auto; right; exists q;
      (split; [apply Hl; assumption|assumption]).
Qed.

(* INSERT DATA { GRAPH g { ts } } is the addition of the quads (t, g) *)
Lemma insert_as_add_quads g ts : forall e,
  fold_left add_quad (map (fun t => (t, g)) ts) e =
  {| quads := ins_quads g ts (quads e);
     names := match ts with [] => names e | _ => name_add g (names e) end |}.
Proof.
  induction ts as [|t r IH]; intros e; simpl.
  - destruct e; reflexivity.
  - rewrite IH. simpl. unfold ins_quads. f_equal.
    destruct r; [reflexivity|apply name_add_idem].
Qed.

(* ------------------------------------------------------------------ *)
(* what each request operation means as a dataset transformer          *)

Definition den (alias : bool) (u : upd) : option wr :=
  match u with
  | UInsert r ts => Some (WAdd (map (fun t => (t, resolve alias r)) ts))
  | UDelWhere r p => Some (WRemove p (resolve alias r))
  | UDrop r => Some (WDrop (resolve alias r))
  | UCreate g => Some (WCreate g)
  | UBad => None
  end.

Lemma apply_upd_den alias e u w : den alias u = Some w -> apply_upd alias e u = s_apply e w.
Proof.
  destruct u; simpl; intros [= <-]; simpl; try reflexivity.
  symmetry. apply insert_as_add_quads.
Qed.

Definition D (alias : bool) (us : list upd) (ws : list wr) : Prop :=
  Forall2 (fun u w => den alias u = Some w) us ws.

Lemma D_app alias us ws us' ws' : D alias us ws -> D alias us' ws' -> D alias (us ++ us') (ws ++ ws').
Proof. apply Forall2_app. Qed.

Lemma D_not_bad alias us ws : D alias us ws -> existsb is_bad us = false.
Proof.
  induction 1 as [|u w us ws H _ IH]; simpl; auto.
  rewrite IH. destruct u; simpl in *; auto; discriminate.
Qed.

Lemma D_fold alias us ws : D alias us ws ->
  forall e, fold_left (apply_upd alias) us e = fold_left s_apply ws e.
Proof.
  induction 1 as [|u w us ws H _ IH]; intros e; simpl; auto.
  rewrite (apply_upd_den e H). apply IH.
Qed.

Lemma send_D alias us ws e : D alias us ws -> send alias e us = Some (fold_left s_apply ws e).
Proof.
  intros H. unfold send. rewrite (D_not_bad H), (D_fold H). reflexivity.
Qed.

(* ------------------------------------------------------------------ *)
(* the specification-level writes respect dataset equivalence          *)

Lemma s_apply_equiv w e1 e2 : ep_equiv e1 e2 -> ep_equiv (s_apply e1 w) (s_apply e2 w).
Proof.
  intros He. destruct w as [qs|p g|g|g]; simpl.
  - apply add_quads_equiv; [tauto|assumption].
  - destruct He as [Hq Hn]. split; simpl; auto.
    intros x. rewrite !q_remove_In, (Hq x). tauto.
  - destruct He as [Hq Hn]. split; simpl; auto.
    intros x. rewrite !name_add_In, (Hn x). tauto.
  - destruct He as [Hq Hn]. split; simpl.
    + intros x. rewrite !q_remove_In, (Hq x). tauto.
    + intros x. rewrite !(srem_In _ N.eqb_spec), (Hn x). tauto.
Qed.

Lemma s_apply_nodup w e : ep_nodup e -> ep_nodup (s_apply e w).
Proof.
  intros [H1 H2]. destruct w as [qs|p g|g|g]; simpl.
  - apply add_quads_nodup. split; auto.
  - split; simpl; auto. apply q_remove_NoDup; auto.
  - split; simpl; auto. apply name_add_NoDup; auto.
  - split; simpl; [apply q_remove_NoDup|apply (srem_NoDup N.eqb)]; auto.
Qed.

Lemma fold_s_apply_nodup ws : forall e, ep_nodup e -> ep_nodup (fold_left s_apply ws e).
Proof.
  induction ws as [|w r IH]; intros e H; simpl; auto. apply IH, s_apply_nodup, H.
Qed.

(* two lists of writes with the same effect up to enumeration order *)
Definition wsim (ws1 ws2 : list wr) : Prop :=
  forall e1 e2, ep_equiv e1 e2 ->
    ep_equiv (fold_left s_apply ws1 e1) (fold_left s_apply ws2 e2).

Lemma wsim_refl ws : wsim ws ws.
Proof.
  induction ws as [|w r IH]; intros e1 e2 H; simpl; auto. apply IH, s_apply_equiv, H.
Qed.

Lemma wsim_app a b c d : wsim a b -> wsim c d -> wsim (a ++ c) (b ++ d).
Proof.
  intros H1 H2 e1 e2 He. rewrite !fold_left_app. apply H2, H1, He.
Qed.

(* ------------------------------------------------------------------ *)
(* addN: one INSERT DATA per context, in first-occurrence order         *)

Definition flat (acc : list (cid * list triple)) : list quad :=
  concat (map (fun gt => map (fun t => (t, fst gt)) (snd gt)) acc).

Lemma flat_group_add t g acc : forall q,
  In q (flat (group_add t g acc)) <-> q = (t, g) \/ In q (flat acc).
Proof.
  induction acc as [|[g' ts] r IH]; intros q; simpl.
  - unfold flat; simpl. split; [intros [H|[]]; auto|intros [H|[]]; auto].
  - destruct (N.eqb_spec g g') as [->|Hg].
    + unfold flat; simpl. rewrite !in_app_iff, map_app, in_app_iff. simpl.
      split; [intros [[H|[H|[]]]|H]|intros [H|[H|H]]]; auto.
    + unfold flat in *; simpl. rewrite !in_app_iff, IH. tauto.
Qed.

Lemma flat_group qs : forall acc q,
  In q (flat (fold_left (fun acc q => group_add (fst q) (snd q) acc) qs acc)) <-> In q qs \/ In q (flat acc).
Proof.
  induction qs as [|[t g] r IH]; intros acc q; simpl; [tauto|].
  rewrite IH, flat_group_add. split; [intros [H|[H|H]]|intros [[H|H]|H]]; auto.
Qed.

Lemma group_cids qs (P : cid -> Prop) : (forall q, In q qs -> P (snd q)) ->
  forall gt, In gt (group qs) -> P (fst gt).
Proof.
  intros HP. unfold group.
  assert (G : forall acc, (forall gt, In gt acc -> P (fst gt)) ->
            forall gt, In gt (fold_left (fun acc q => group_add (fst q) (snd q) acc) qs acc) -> P (fst gt)).
  { induction qs as [|[t g] r IH]; intros acc Ha gt; simpl; [apply Ha|].
    apply IH; [intros q Hq; apply HP; right; exact Hq|].
    clear IH gt. induction acc as [|[g' ts] a IHa]; simpl.
    - intros gt [<-|[]]. simpl. apply (HP (t, g)). left; reflexivity.
    - destruct (N.eqb_spec g g') as [->|Hg]; intros gt [<-|H]; simpl.
      + apply (Ha (g', ts)). left; reflexivity.
      + apply Ha. right; exact H.
      + apply (Ha (g', ts)). left; reflexivity.
      + apply IHa; [intros x Hx; apply Ha; right; exact Hx|exact H]. }
  apply G. intros gt [].
Qed.

Lemma fold_groups alias acc : (forall gt, In gt acc -> resolve alias (GIri (fst gt)) = fst gt) ->
  forall e, fold_left (apply_upd alias) (map (fun gt => UInsert (GIri (fst gt)) (snd gt)) acc) e
            = fold_left add_quad (flat acc) e.
Proof.
  induction acc as [|[g ts] r IH]; intros Hr e; simpl; [reflexivity|].
  unfold flat; simpl. rewrite fold_left_app. fold (flat r).
  rewrite <- IH by (intros gt Hgt; apply Hr; right; exact Hgt).
  f_equal. specialize (Hr (g, ts) (or_introl eq_refl)). simpl in Hr.
  rewrite insert_as_add_quads. simpl. rewrite Hr. reflexivity.
Qed.

(* ------------------------------------------------------------------ *)
(* the operations in the region without findings                        *)

Definition good (alias : bool) (o : op) : bool :=
  negb (negb alias && uses_default_iri o) && negb (falsy_contexts o)
  && negb (is_bad_op o) && negb (resub_hit o).

Lemma kf_good c : kf c = 0 -> forallb (good (c_alias c)) (c_ops c) = true.
Proof.
  unfold kf. intros H.
  destruct (negb (c_alias c) && existsb uses_default_iri (c_ops c)) eqn:E1; [discriminate|].
  destruct (existsb falsy_contexts (c_ops c)) eqn:E2; [discriminate|].
  destruct (existsb is_bad_op (c_ops c)) eqn:E3; [discriminate|].
  destruct (existsb resub_hit (c_ops c)) eqn:E4; [discriminate|].
  apply forallb_forall. intros o Ho. unfold good.
  assert (A2 : falsy_contexts o = false).
  { destruct (falsy_contexts o) eqn:E; auto.
    assert (existsb falsy_contexts (c_ops c) = true) by (apply existsb_exists; eauto). congruence. }
  assert (A3 : is_bad_op o = false).
  { destruct (is_bad_op o) eqn:E; auto.
    assert (existsb is_bad_op (c_ops c) = true) by (apply existsb_exists; eauto). congruence. }
  assert (A4 : resub_hit o = false).
  { destruct (resub_hit o) eqn:E; auto.
    assert (existsb resub_hit (c_ops c) = true) by (apply existsb_exists; eauto). congruence. }
  rewrite A2, A3, A4. simpl. rewrite !andb_true_r.
  destruct (c_alias c); simpl in *; auto.
  destruct (uses_default_iri o) eqn:E; auto.
  assert (existsb uses_default_iri (c_ops c) = true) by (apply existsb_exists; eauto). congruence.
Qed.

Lemma resolve_ctx_ref alias c : resolve alias (ctx_ref c) = cid_of c.
Proof.
  destruct c as [g|]; simpl; auto. destruct (N.eqb_spec g 0) as [->|H]; simpl; auto.
  destruct (N.eqb_spec g 0); congruence.
Qed.

Lemma resolve_iri alias g : (alias = true \/ g <> 0) -> resolve alias (GIri g) = g.
Proof.
  simpl. destruct (N.eqb_spec g 0) as [->|H]; auto. intros [->|H]; auto. congruence.
Qed.

Lemma resub_pos_clean x : in_resub x = false -> resub_pos x = Some x.
Proof.
  destruct x as [t|]; [|reflexivity]. unfold in_resub, resub_pos, resub_term.
  destruct (assoc t resub_table); [discriminate|reflexivity].
Qed.

Lemma resub_pat_clean s p o :
  in_resub s || in_resub p || in_resub o = false -> resub_pat (s, p, o) = Some (s, p, o).
Proof.
  rewrite !orb_false_iff. intros [[H1 H2] H3]. unfold resub_pat.
  rewrite (resub_pos_clean H1), (resub_pos_clean H2), (resub_pos_clean H3). reflexivity.
Qed.

(* every write of the client denotes, at the endpoint, the write it would be on a local dataset *)
Lemma compile_write alias o w : good alias o = true -> classify o = KWrite w ->
  exists us ws, compile o = Some us /\ D alias us ws /\ wsim ws [w].
Proof.
  unfold good. rewrite !andb_true_iff, !negb_true_iff. intros [[[G1 G2] G3] G4] Hc.
  destruct o as [t c|qs|p c|g|g|u c| | | | | | | | | ]; simpl in Hc; try discriminate.
  - (* add *)
    injection Hc as <-. exists [UInsert (ctx_ref c) [t]], [WAdd [(t, cid_of c)]].
    split; [reflexivity|]. split; [|apply wsim_refl].
    constructor; [|constructor]. unfold den. rewrite resolve_ctx_ref. reflexivity.
  - (* addN *)
    injection Hc as <-.
    assert (Hres : forall gt, In gt (group qs) -> resolve alias (GIri (fst gt)) = fst gt).
    { apply (@group_cids qs (fun g => resolve alias (GIri g) = g)).
      intros q Hq. apply resolve_iri. destruct alias; [left; reflexivity|right].
      simpl in G1. intros E.
      assert (existsb (fun q => N.eqb (snd q) 0) qs = true).
      { apply existsb_exists. exists q. split; auto. apply N.eqb_eq; exact E. }
      congruence. }
    exists (map (fun gt => UInsert (GIri (fst gt)) (snd gt)) (group qs)),
           (map (fun gt => WAdd (map (fun t => (t, fst gt)) (snd gt))) (group qs)).
    split; [reflexivity|]. split.
    + unfold D. revert Hres. generalize (group qs). intros l Hl.
      induction l as [|gt r IH]; simpl; constructor.
      * unfold den. rewrite (Hl gt (or_introl eq_refl)). reflexivity.
      * apply IH. intros x Hx. apply Hl. right; exact Hx.
    + intros e1 e2 He. simpl.
      assert (F : forall l e, fold_left s_apply (map (fun gt => WAdd (map (fun t => (t, fst gt)) (snd gt))) l) e
                              = fold_left add_quad (flat l) e).
      { induction l as [|gt r IH]; intros e; simpl; [reflexivity|].
        unfold flat; simpl. rewrite fold_left_app. apply IH. }
      rewrite F. apply add_quads_equiv; [|exact He].
      intros q. unfold group. rewrite flat_group. unfold flat; simpl. tauto.
  - (* remove *)
    injection Hc as <-. exists [UDelWhere (ctx_ref c) p], [WRemove p (cid_of c)].
    split; [reflexivity|]. split; [|apply wsim_refl].
    constructor; [|constructor]. unfold den. rewrite resolve_ctx_ref. reflexivity.
  - (* add_graph *)
    destruct (N.eqb g 0) eqn:E; [discriminate|]. injection Hc as <-.
    exists [UCreate g], [WCreate g]. simpl. rewrite E.
    split; [reflexivity|]. split; [|apply wsim_refl]. constructor; [reflexivity|constructor].
  - (* remove_graph *)
    injection Hc as <-. exists [UDrop (if N.eqb g 0 then GDefault else GIri g)], [WDrop g].
    split; [reflexivity|]. split; [|apply wsim_refl]. constructor; [|constructor].
    simpl. destruct (N.eqb_spec g 0) as [->|H]; simpl; [reflexivity|].
    destruct (N.eqb_spec g 0); [congruence|reflexivity].
  - (* update *)
    assert (Hr : resolve alias (qg_ref c) = cid_of c).
    { destruct c as [g|]; [|reflexivity]. simpl qg_ref. simpl cid_of. apply resolve_iri.
      destruct alias; [left; reflexivity|right]. simpl in G1.
      intros ->. simpl in G1. destruct u; discriminate. }
    destruct u as [t|t|p|p]; injection Hc as <-.
    + exists [UInsert (qg_ref c) [t]], [WAdd [(t, cid_of c)]].
      split; [reflexivity|]. split; [|apply wsim_refl]. constructor; [|constructor].
      unfold den. rewrite Hr. reflexivity.
    + exists [UDelWhere (qg_ref c) (pat_of t)], [WRemove (pat_of t) (cid_of c)].
      split; [reflexivity|]. split; [|apply wsim_refl]. constructor; [|constructor].
      unfold den. rewrite Hr. reflexivity.
    + exists [UDelWhere (qg_ref c) p], [WRemove p (cid_of c)].
      split; [reflexivity|]. split; [|apply wsim_refl]. constructor; [|constructor].
      unfold den. rewrite Hr. reflexivity.
    + destruct p as [[s pr] o]. simpl in G4.
      exists [UDelWhere (qg_ref c) (s, pr, o)], [WRemove (s, pr, o) (cid_of c)].
      split; [unfold compile, compile_uop; rewrite (resub_pat_clean G4); reflexivity|].
      split; [|apply wsim_refl]. constructor; [|constructor].
      unfold den. rewrite Hr. reflexivity.
Qed.

(* ------------------------------------------------------------------ *)
(* reads                                                                *)

Lemma q_triples_NoDup p g s : NoDup s -> NoDup (q_triples p g s).
Proof.
  unfold q_triples. intros H.
  assert (Hf : NoDup (filter (qsel p (Some g)) s)) by (apply filter_NoDup; exact H).
  assert (Hg : forall q, In q (filter (qsel p (Some g)) s) -> snd q = g).
  { intros q Hq. apply filter_In in Hq. destruct Hq as [_ Hq]. unfold qsel in Hq.
    apply andb_true_iff in Hq. destruct Hq as [_ Hq]. apply N.eqb_eq in Hq. auto. }
  revert Hf Hg. generalize (filter (qsel p (Some g)) s). intros l.
  induction l as [|[t c] r IH]; simpl; intros Hn Hg; [constructor|].
  inversion Hn as [|? ? Hx Hr]; subst. constructor.
  - intros Hin. apply in_map_iff in Hin. destruct Hin as [[t' c'] [E Hin]]. simpl in E. subst t'.
    apply Hx. pose proof (Hg (t, c) (or_introl eq_refl)) as E1. pose proof (Hg (t, c') (or_intror Hin)) as E2.
    simpl in E1, E2. subst c c'. exact Hin.
  - apply IH; auto.
Qed.

Lemma ctx_rows_NoDup t s : NoDup s -> NoDup (ctx_rows (pat_of t) s).
Proof.
  unfold ctx_rows. intros H.
  assert (G : forall l : list quad, NoDup l -> (forall q, In q l -> fst q = t) -> NoDup (map snd l)).
  { induction l as [|[t' c] r IH]; simpl; intros Hn Hg; [constructor|].
    inversion Hn as [|? ? Hx Hr]; subst. constructor.
    - intros Hin. apply in_map_iff in Hin. destruct Hin as [[t2 c2] [E Hin]]. simpl in E. subst c2.
      apply Hx. pose proof (Hg (t', c) (or_introl eq_refl)) as E1. pose proof (Hg (t2, c) (or_intror Hin)) as E2.
      simpl in E1, E2. subst t' t2. exact Hin.
    - apply IH; auto. }
  apply G; [apply filter_NoDup; exact H|].
  intros q Hq. apply filter_In in Hq. destruct Hq as [_ Hq].
  apply andb_true_iff in Hq. destruct Hq as [Hq _]. apply matches_pat_of in Hq. auto.
Qed.

Lemma enum_ofb_self {A} (eqb : A -> A -> bool) (Hs : forall x y, reflect (x = y) (eqb x y)) l :
  NoDup l -> enum_ofb eqb l l = true.
Proof.
  intros H. apply (enum_ofb_spec _ Hs). split; [exact H|apply seteq_refl].
Qed.

Lemma truthy_pat_clean s p o : falsy s || falsy p || falsy o = false -> truthy_pat (s, p, o) = pat_of (s, p, o).
Proof.
  rewrite !orb_false_iff. intros [[H1 H2] H3]. simpl. rewrite H1, H2, H3. reflexivity.
Qed.

Lemma read_ok_model alias o e : good alias o = true -> is_read o = true -> ep_nodup e ->
  read_ok o e (read_ans alias o e) = true.
Proof.
  unfold good. rewrite !andb_true_iff, !negb_true_iff. intros [[[G1 G2] G3] G4] Hr [Hq Hn].
  destruct o as [| | | | | | | | | | |p c|c|t|k p c]; try discriminate.
  - cbn [read_ok read_ans]. rewrite resolve_ctx_ref.
    apply (enum_ofb_self triple_eqb_spec), q_triples_NoDup, Hq.
  - cbn [read_ok read_ans]. rewrite resolve_ctx_ref. apply N.eqb_refl.
  - destruct t as [[[s p] o]|]; cbn [read_ok read_ans].
    + cbn [falsy_contexts] in G2. rewrite (truthy_pat_clean G2).
      apply (enum_ofb_self N.eqb_spec). apply (ctx_rows_NoDup (s, p, o)), Hq.
    + apply (enum_ofb_self N.eqb_spec), Hn.
  - assert (Hres : resolve alias (qg_ref c) = cid_of c).
    { destruct c as [g|]; [|reflexivity]. simpl qg_ref. simpl cid_of. apply resolve_iri.
      destruct alias; [left; reflexivity|right]. simpl in G1. intros ->. discriminate. }
    cbn [read_ok read_ans]. rewrite Hres.
    apply (enum_ofb_self triple_eqb_spec), q_triples_NoDup, Hq.
Qed.

(* ------------------------------------------------------------------ *)
(* the simulation                                                       *)

Record R (alias : bool) (m : mst) (s : sst) : Prop := {
  R_ep : m_ep m = s_prev s;
  R_auto : m_auto m = s_auto s;
  R_dirty : m_dirty m = s_dirty s;
  R_nd : ep_nodup (m_ep m);
  R_ws : exists ws, D alias (m_edits m) ws /\ wsim ws (s_pend s) }.

Lemma ep_ok_intro now expected : ep_nodup now -> ep_equiv now expected -> ep_ok now expected = true.
Proof.
  intros [H1 H2] [H3 H4]. unfold ep_ok.
  rewrite (proj2 (nodupb_spec _ quad_eqb_spec _) H1), (proj2 (qseteqb_spec _ _) H3),
          (proj2 (nodupb_spec _ N.eqb_spec _) H2), (proj2 (seteqb_spec _ N.eqb_spec _ _) H4).
  reflexivity.
Qed.

Lemma m_commit_D alias m ws : D alias (m_edits m) ws ->
  m_commit alias m = (set_ep m (fold_left s_apply ws (m_ep m)) [], true).
Proof.
  intros H. unfold m_commit. destruct m as [e l a d]; simpl in *.
  destruct l as [|u r].
  - inversion H; subst. reflexivity.
  - rewrite (send_D e H). reflexivity.
Qed.

Lemma flush_sim alias m s ws : R alias m s -> D alias (m_edits m) ws -> wsim ws (s_pend s) ->
  ep_nodup (fold_left s_apply ws (m_ep m)) /\ ep_equiv (fold_left s_apply ws (m_ep m)) (flushed s).
Proof.
  intros HR HD Hs. split.
  - apply fold_s_apply_nodup, (R_nd HR).
  - unfold flushed. apply Hs. rewrite (R_ep HR). apply ep_equiv_refl.
Qed.

Lemma R_after_flush alias m s e : R alias m s -> ep_nodup e ->
  R alias (set_ep m e []) (s_next s e []).
Proof.
  intros HR Hn. constructor; simpl; auto; try apply HR.
  exists []. split; [constructor|apply wsim_refl].
Qed.

Lemma m_step_compile alias m o us : compile o = Some us -> m_step alias m o = m_write alias m us.
Proof.
  intros H. destruct o; try discriminate H; unfold m_step; rewrite H; reflexivity.
Qed.

Lemma step_sim alias m s o : R alias m s -> good alias o = true ->
  exists s', spec_step s o (m_ep (fst (m_step alias m o))) (snd (m_step alias m o)) = Some s'
             /\ R alias (fst (m_step alias m o)) s'.
Proof.
  intros HR Hg. destruct (R_ws HR) as [ws [HD Hs]].
  assert (Hcur : ep_ok (m_ep m) (s_prev s) = true).
  { apply ep_ok_intro; [apply HR|rewrite (R_ep HR); apply ep_equiv_refl]. }
  destruct (classify o) as [w| | | |b|b| | ] eqn:Hc.
  - (* a write *)
    destruct (compile_write Hg Hc) as [us [ws' [Hcomp [HD' Hs']]]].
    assert (Hstep : m_step alias m o = m_write alias m us) by (apply m_step_compile; exact Hcomp).
    rewrite Hstep. unfold spec_step. rewrite Hc. unfold m_write. rewrite <- (R_auto HR).
    destruct (m_auto m) eqn:Ha.
    + assert (HDa : D alias (m_edits (set_ep m (m_ep m) (m_edits m ++ us))) (ws ++ ws'))
        by (simpl; apply D_app; assumption).
      rewrite (m_commit_D HDa). simpl.
      assert (Hw : wsim (ws ++ ws') (s_pend s ++ [w])) by (apply wsim_app; assumption).
      assert (Hnd : ep_nodup (fold_left s_apply (ws ++ ws') (m_ep m))) by (apply fold_s_apply_nodup, HR).
      assert (Heq : ep_equiv (fold_left s_apply (ws ++ ws') (m_ep m)) (s_apply (flushed s) w)).
      { unfold flushed.
        replace (s_apply (fold_left s_apply (s_pend s) (s_prev s)) w)
          with (fold_left s_apply (s_pend s ++ [w]) (s_prev s)) by (rewrite fold_left_app; reflexivity).
        apply Hw. rewrite (R_ep HR). apply ep_equiv_refl. }
      rewrite (ep_ok_intro Hnd Heq). simpl. eexists; split; [reflexivity|].
      constructor; simpl; auto; try apply HR. exists []. split; [constructor|apply wsim_refl].
    + simpl. rewrite Hcur. simpl. eexists; split; [reflexivity|].
      constructor; simpl; auto; try apply HR.
      exists (ws ++ ws'). split; [apply D_app; assumption|apply wsim_app; assumption].
  - (* rejected update: excluded *)
    exfalso. destruct o as [t c|qs|p c|g|g|u c| | | |b0|b0|p c|c|t|k p c]; simpl in Hc; try discriminate.
    + destruct (N.eqb g 0); discriminate.
    + destruct u; discriminate.
    + unfold good in Hg. simpl in Hg. rewrite !andb_true_iff in Hg. destruct Hg as [[_ Hg] _]. discriminate.
  - (* commit *)
    assert (o = OCommit) as ->.
    { destruct o as [t c|qs|p c|g|g|u c| | | |b0|b0|p c|c|t|k p c]; simpl in Hc; try discriminate; auto.
      - destruct (N.eqb g 0); discriminate.
      - destruct u; discriminate. }
    simpl. rewrite (m_commit_D HD). simpl.
    destruct (flush_sim HR HD Hs) as [Hnd Heq].
    unfold spec_step; simpl. rewrite (ep_ok_intro Hnd Heq). simpl.
    eexists; split; [reflexivity|]. apply R_after_flush; auto.
  - (* rollback *)
    assert (o = ORollback) as ->.
    { destruct o as [t c|qs|p c|g|g|u c| | | |b0|b0|p c|c|t|k p c]; simpl in Hc; try discriminate; auto.
      - destruct (N.eqb g 0); discriminate.
      - destruct u; discriminate. }
    simpl. unfold spec_step; simpl. rewrite Hcur. simpl.
    eexists; split; [reflexivity|]. apply R_after_flush; auto. apply HR.
  - (* set autocommit *)
    assert (o = OSetAuto b) as ->.
    { destruct o as [t c|qs|p c|g|g|u c| | | |b0|b0|p c|c|t|k p c]; simpl in Hc; try discriminate; try (injection Hc as ->; reflexivity).
      - destruct (N.eqb g 0); discriminate.
      - destruct u; discriminate. }
    simpl. unfold spec_step; simpl. rewrite Hcur. simpl.
    eexists; split; [reflexivity|]. constructor; simpl; auto; try apply HR; try (exists ws; auto).
  - (* set dirty_reads *)
    assert (o = OSetDirty b) as ->.
    { destruct o as [t c|qs|p c|g|g|u c| | | |b0|b0|p c|c|t|k p c]; simpl in Hc; try discriminate; try (injection Hc as ->; reflexivity).
      - destruct (N.eqb g 0); discriminate.
      - destruct u; discriminate. }
    simpl. unfold spec_step; simpl. rewrite Hcur. simpl.
    eexists; split; [reflexivity|]. constructor; simpl; auto; try apply HR; try (exists ws; auto).
  - (* a read *)
    assert (Hr : is_read o = true /\ compile o = None).
    { destruct o as [t c|qs|p c|g|g|u c| | | |b0|b0|p c|c|t|k p c]; simpl in Hc; try discriminate; auto.
      - destruct (N.eqb g 0); discriminate.
      - destruct u; discriminate. }
    destruct Hr as [Hr Hn].
    assert (Hstep : m_step alias m o = m_read alias m o).
    { destruct o; simpl in Hr; try discriminate; reflexivity. }
    rewrite Hstep. unfold spec_step. rewrite Hc. unfold m_read.
    rewrite <- (R_auto HR), <- (R_dirty HR).
    destruct (negb (m_auto m) && negb (m_dirty m)) eqn:Hf.
    + rewrite (m_commit_D HD). simpl.
      destruct (flush_sim HR HD Hs) as [Hnd Heq].
      rewrite (ep_ok_intro Hnd Heq), (read_ok_model Hg Hr Hnd). simpl.
      eexists; split; [reflexivity|]. apply R_after_flush; auto.
    + simpl. rewrite Hcur, (read_ok_model Hg Hr (R_nd HR)). simpl.
      eexists; split; [reflexivity|]. constructor; simpl; auto; try apply HR; try (exists ws; auto).
  - (* add_graph of the default graph: nothing is sent *)
    assert (o = OAddGraph 0) as ->.
    { destruct o as [t c|qs|p c|g|g|u c| | | |b0|b0|p c|c|t|k p c]; simpl in Hc; try discriminate.
      - destruct (N.eqb_spec g 0) as [->|]; [reflexivity|discriminate].
      - destruct u; discriminate. }
    simpl. unfold spec_step; simpl. rewrite Hcur. simpl.
    eexists; split; [reflexivity|]. constructor; simpl; auto; try apply HR; try (exists ws; auto).
Qed.

Lemma run_sim alias ops : forall m s, R alias m s -> forallb (good alias) ops = true ->
  spec_run s ops (m_run alias m ops) = true.
Proof.
  induction ops as [|o r IH]; intros m s HR Hg; simpl; [reflexivity|].
  apply andb_true_iff in Hg. destruct Hg as [Hg Hgr].
  destruct (step_sim HR Hg) as [s' [Hs HR']].
  destruct (m_step alias m o) as [m' a] eqn:E. simpl in *. rewrite Hs. apply IH; assumption.
Qed.

Theorem spec_ok_model : forall c, wf c -> kf c = 0 -> spec_ok c (model_obs c) = true.
Proof.
  intros c [H1 H2] Hk. unfold spec_ok, model_obs. apply run_sim; [|apply kf_good, Hk].
  constructor; simpl; auto; [split; assumption|].
  exists []. split; [constructor|apply wsim_refl].
Qed.

(* ------------------------------------------------------------------ *)
(* Prop-level statements for Props/C20.v                               *)

(* each write has, at the endpoint, the effect it has on a local dataset *)
Lemma writes_mirror alias o w : good alias o = true -> classify o = KWrite w ->
  exists us, compile o = Some us /\
    forall e, exists e', send alias e us = Some e' /\ ep_equiv e' (s_apply e w).
Proof.
  intros Hg Hc. destruct (compile_write Hg Hc) as [us [ws [Hcomp [HD Hs]]]].
  exists us. split; [exact Hcomp|]. intros e. exists (fold_left s_apply ws e).
  split; [apply send_D; exact HD|]. apply (Hs e e), ep_equiv_refl.
Qed.

Lemma q_triples_In p g s t : In t (q_triples p g s) <-> In (t, g) s /\ matches p t = true.
Proof.
  unfold q_triples. rewrite in_map_iff. split.
  - intros [[t' c] [E H]]. simpl in E. subst t'. apply filter_In in H. destruct H as [H1 H2].
    unfold qsel in H2. simpl in H2. apply andb_true_iff in H2. destruct H2 as [H2 H3].
    apply N.eqb_eq in H3. subst c. auto.
  - intros [H1 H2]. exists (t, g). split; [reflexivity|]. apply filter_In. split; [exact H1|].
    unfold qsel. simpl. rewrite H2, N.eqb_refl. reflexivity.
Qed.

Lemma triples_mirror alias p c e : NoDup (quads e) ->
  exists l, read_ans alias (OTriples p c) e = ATriples l /\ NoDup l /\
    forall t, In t l <-> In (t, cid_of c) (quads e) /\ matches p t = true.
Proof.
  intros H. exists (q_triples p (cid_of c) (quads e)). cbn [read_ans]. rewrite resolve_ctx_ref.
  split; [reflexivity|]. split; [apply q_triples_NoDup, H|]. intros t. apply q_triples_In.
Qed.

Lemma matches_all t : matches all_pat t = true.
Proof. destruct t as [[a b] c]. reflexivity. Qed.

Lemma len_mirror alias c e : NoDup (quads e) ->
  exists l, read_ans alias (OLen c) e = ANum (N.of_nat (length l)) /\ NoDup l /\
    forall t, In t l <-> In (t, cid_of c) (quads e).
Proof.
  intros H. exists (q_triples all_pat (cid_of c) (quads e)). cbn [read_ans]. rewrite resolve_ctx_ref.
  split; [reflexivity|]. split; [apply q_triples_NoDup, H|].
  intros t. rewrite q_triples_In, matches_all. tauto.
Qed.

Lemma ctx_rows_In t s g : In g (ctx_rows (pat_of t) s) <-> In (t, g) s /\ g <> 0.
Proof.
  unfold ctx_rows. rewrite in_map_iff. split.
  - intros [[t' c] [E H]]. simpl in E. subst c. apply filter_In in H. destruct H as [H1 H2].
    simpl in H2. apply andb_true_iff in H2. destruct H2 as [H2 H3].
    apply matches_pat_of in H2. subst t'. apply negb_true_iff, N.eqb_neq in H3. auto.
  - intros [H1 H2]. exists (t, g). split; [reflexivity|]. apply filter_In. split; [exact H1|].
    simpl. apply andb_true_iff. split; [apply matches_pat_of; reflexivity|].
    apply negb_true_iff, N.eqb_neq, H2.
Qed.

Lemma contexts_mirror alias t e : NoDup (quads e) -> falsy_contexts (OContexts (Some t)) = false ->
  exists l, read_ans alias (OContexts (Some t)) e = ANames l /\ NoDup l /\
    forall g, In g l <-> In (t, g) (quads e) /\ g <> 0.
Proof.
  intros H Hf. destruct t as [[s p] o]. exists (ctx_rows (pat_of (s, p, o)) (quads e)).
  cbn [read_ans]. cbn [falsy_contexts] in Hf. rewrite (truthy_pat_clean Hf).
  split; [reflexivity|]. split; [apply (ctx_rows_NoDup (s, p, o)), H|]. intros g. apply ctx_rows_In.
Qed.

(* ------------------------------------------------------------------ *)
(* the edit queue: which writes are due at the endpoint                 *)

Record qst := { q_done : list wr;     (* writes the endpoint must have executed, in order *)
                q_pend : list wr;     (* writes made but not yet due *)
                q_auto : bool; q_dirty : bool }.

Definition q_step (q : qst) (o : op) : qst :=
  match classify o with
  | KWrite w =>
      if q_auto q
      then {| q_done := q_done q ++ q_pend q ++ [w]; q_pend := []; q_auto := q_auto q; q_dirty := q_dirty q |}
      else {| q_done := q_done q; q_pend := q_pend q ++ [w]; q_auto := q_auto q; q_dirty := q_dirty q |}
  | KCommit => {| q_done := q_done q ++ q_pend q; q_pend := []; q_auto := q_auto q; q_dirty := q_dirty q |}
  | KRollback => {| q_done := q_done q; q_pend := []; q_auto := q_auto q; q_dirty := q_dirty q |}
  | KRead =>
      if negb (q_auto q) && negb (q_dirty q)
      then {| q_done := q_done q ++ q_pend q; q_pend := []; q_auto := q_auto q; q_dirty := q_dirty q |}
      else q
  | KAuto b => {| q_done := q_done q; q_pend := q_pend q; q_auto := b; q_dirty := q_dirty q |}
  | KDirty b => {| q_done := q_done q; q_pend := q_pend q; q_auto := q_auto q; q_dirty := b |}
  | KBad | KNoop => q
  end.

Fixpoint due_run (q : qst) (ops : list op) : list (list wr) :=
  match ops with
  | [] => []
  | o :: r => q_done (q_step q o) :: due_run (q_step q o) r
  end.

Lemma ep_ok_equiv now expected : ep_ok now expected = true -> ep_equiv now expected.
Proof.
  unfold ep_ok. rewrite !andb_true_iff. intros [[[_ H1] _] H2].
  split; [apply qseteqb_spec, H1|apply (seteqb_spec _ N.eqb_spec), H2].
Qed.

Definition Q (init : ep) (s : sst) (q : qst) : Prop :=
  s_pend s = q_pend q /\ s_auto s = q_auto q /\ s_dirty s = q_dirty q /\
  ep_equiv (s_prev s) (fold_left s_apply (q_done q) init).

Lemma flushed_due init s q : Q init s q ->
  ep_equiv (flushed s) (fold_left s_apply (q_done q ++ q_pend q) init).
Proof.
  intros [H1 [_ [_ H4]]]. unfold flushed. rewrite fold_left_app, H1. apply wsim_refl, H4.
Qed.

Ltac solveQ X :=
  split; [|exact X];
  split; [|split; [|split; [|exact X]]]; simpl in *; try congruence; auto.

Lemma spec_step_due init s q o now a s' : Q init s q -> spec_step s o now a = Some s' ->
  Q init s' (q_step q o) /\ ep_equiv now (fold_left s_apply (q_done (q_step q o)) init).
Proof.
  intros HQ. pose proof (flushed_due HQ) as HF. destruct HQ as [H1 [H2 [H3 H4]]].
  unfold spec_step, q_step. rewrite <- H2, <- H3, <- H1.
  destruct (classify o) as [w| | | |b|b| | ].
  - destruct (s_auto s) eqn:Ea.
    + destruct (ep_ok now (s_apply (flushed s) w) && is_none a) eqn:E; [|discriminate].
      intros [= <-]. apply andb_true_iff in E. destruct E as [E _]. apply ep_ok_equiv in E.
      assert (X : ep_equiv now (fold_left s_apply (q_done q ++ s_pend s ++ [w]) init)).
      { eapply ep_equiv_trans; [exact E|]. rewrite app_assoc, fold_left_app. simpl.
        apply s_apply_equiv. rewrite <- H1 in HF. exact HF. }
      solveQ X.
    + destruct (ep_ok now (s_prev s) && is_none a) eqn:E; [|discriminate].
      intros [= <-]. apply andb_true_iff in E. destruct E as [E _]. apply ep_ok_equiv in E.
      assert (X : ep_equiv now (fold_left s_apply (q_done q) init)) by (eapply ep_equiv_trans; eassumption).
      solveQ X.
  - destruct (ep_ok now (s_prev s) && is_raised a) eqn:E; [|discriminate].
    intros [= <-]. apply andb_true_iff in E. destruct E as [E _]. apply ep_ok_equiv in E.
    assert (X : ep_equiv now (fold_left s_apply (q_done q) init)) by (eapply ep_equiv_trans; eassumption).
    solveQ X.
  - destruct (ep_ok now (flushed s) && is_none a) eqn:E; [|discriminate].
    intros [= <-]. apply andb_true_iff in E. destruct E as [E _]. apply ep_ok_equiv in E.
    assert (X : ep_equiv now (fold_left s_apply (q_done q ++ s_pend s) init)).
    { eapply ep_equiv_trans; [exact E|]. rewrite <- H1 in HF. exact HF. }
    solveQ X.
  - destruct (ep_ok now (s_prev s) && is_none a) eqn:E; [|discriminate].
    intros [= <-]. apply andb_true_iff in E. destruct E as [E _]. apply ep_ok_equiv in E.
    assert (X : ep_equiv now (fold_left s_apply (q_done q) init)) by (eapply ep_equiv_trans; eassumption).
    solveQ X.
  - destruct (ep_ok now (s_prev s) && is_none a) eqn:E; [|discriminate].
    intros [= <-]. apply andb_true_iff in E. destruct E as [E _]. apply ep_ok_equiv in E.
    assert (X : ep_equiv now (fold_left s_apply (q_done q) init)) by (eapply ep_equiv_trans; eassumption).
    solveQ X.
  - destruct (ep_ok now (s_prev s) && is_none a) eqn:E; [|discriminate].
    intros [= <-]. apply andb_true_iff in E. destruct E as [E _]. apply ep_ok_equiv in E.
    assert (X : ep_equiv now (fold_left s_apply (q_done q) init)) by (eapply ep_equiv_trans; eassumption).
    solveQ X.
  - destruct (negb (s_auto s) && negb (s_dirty s)) eqn:Ea.
    + destruct (ep_ok now (flushed s) && read_ok o now a) eqn:E; [|discriminate].
      intros [= <-]. apply andb_true_iff in E. destruct E as [E _]. apply ep_ok_equiv in E.
      assert (X : ep_equiv now (fold_left s_apply (q_done q ++ s_pend s) init)).
      { eapply ep_equiv_trans; [exact E|]. rewrite <- H1 in HF. exact HF. }
      solveQ X.
    + destruct (ep_ok now (s_prev s) && read_ok o now a) eqn:E; [|discriminate].
      intros [= <-]. apply andb_true_iff in E. destruct E as [E _]. apply ep_ok_equiv in E.
      assert (X : ep_equiv now (fold_left s_apply (q_done q) init)) by (eapply ep_equiv_trans; eassumption).
      solveQ X.
  - destruct (ep_ok now (s_prev s) && is_none a) eqn:E; [|discriminate].
    intros [= <-]. apply andb_true_iff in E. destruct E as [E _]. apply ep_ok_equiv in E.
    assert (X : ep_equiv now (fold_left s_apply (q_done q) init)) by (eapply ep_equiv_trans; eassumption).
    solveQ X.
Qed.

(* reading of the checker: whatever observation sequence it accepts shows, after
   every step, exactly the writes that are due, executed in order *)
Lemma spec_run_due init ops : forall s q obs, Q init s q -> spec_run s ops obs = true ->
  Forall2 (fun ob dn => ep_equiv (fst ob) (fold_left s_apply dn init)) obs (due_run q ops).
Proof.
  induction ops as [|o r IH]; intros s q obs HQ H; destruct obs as [|[now a] obs']; simpl in H; try discriminate.
  - constructor.
  - destruct (spec_step s o now a) as [s'|] eqn:E; [|discriminate].
    destruct (spec_step_due HQ E) as [HQ' HX]. simpl. constructor; [exact HX|].
    eapply IH; eassumption.
Qed.

Definition q0 (c : case) : qst :=
  {| q_done := []; q_pend := []; q_auto := c_auto c; q_dirty := c_dirty c |}.

Theorem queue_model c : wf c -> kf c = 0 ->
  Forall2 (fun ob dn => ep_equiv (fst ob) (fold_left s_apply dn (init_ep c)))
          (model_obs c) (due_run (q0 c) (c_ops c)).
Proof.
  intros Hw Hk. eapply spec_run_due; [|apply (spec_ok_model Hw Hk)].
  repeat split; simpl; apply seteq_refl.
Qed.

(* reading of the checker, reads: an accepted answer is exactly the content of the observed dataset *)
Lemma spec_step_read s o now a s' : classify o = KRead -> spec_step s o now a = Some s' ->
  read_ok o now a = true.
Proof.
  unfold spec_step. intros ->. destruct (negb (s_auto s) && negb (s_dirty s)).
  - destruct (ep_ok now (flushed s)); simpl; [|discriminate]. destruct (read_ok o now a); [reflexivity|discriminate].
  - destruct (ep_ok now (s_prev s)); simpl; [|discriminate]. destruct (read_ok o now a); [reflexivity|discriminate].
Qed.

Lemma read_ok_triples p c now l : read_ok (OTriples p c) now (ATriples l) = true <->
  NoDup l /\ forall t, In t l <-> In (t, cid_of c) (quads now) /\ matches p t = true.
Proof.
  cbn [read_ok]. rewrite (enum_ofb_spec _ triple_eqb_spec). unfold enum_of, seteq.
  split; intros [H1 H2]; split; auto; intros t; rewrite (H2 t) || rewrite <- (H2 t); try apply q_triples_In.
  symmetry; apply q_triples_In.
Qed.

(* ------------------------------------------------------------------ *)
(* the findings                                                         *)

Definition wit_a : case :=
  {| c_alias := false; c_auto := true; c_dirty := false; c_init := []; c_names := [];
     c_ops := [OAddN [((1, 3, 10), 0)]; OTriples all_pat (Some 0)] |}.
Definition wit_b : case :=
  {| c_alias := true; c_auto := true; c_dirty := false;
     c_init := [((1, 3, 5), 1); ((1, 3, 10), 2)]; c_names := [1; 2];
     c_ops := [OContexts (Some (1, 3, 5))] |}.
Definition wit_c : case :=
  {| c_alias := true; c_auto := true; c_dirty := false; c_init := []; c_names := [];
     c_ops := [OBadUpdate; OAdd (1, 3, 10) (Some 1)] |}.
Definition wit_d : case :=
  {| c_alias := true; c_auto := true; c_dirty := false;
     c_init := [((1, 3, 28), 1); ((1, 3, 27), 1)]; c_names := [1];
     c_ops := [OUpdate (UoDeleteWhereB (None, None, Some 27)) (Some 1)] |}.

Lemma wf_dec c : nodupb quad_eqb (c_init c) && nodupb N.eqb (c_names c) = true -> wf c.
Proof.
  rewrite andb_true_iff. intros [H1 H2]. split;
    [apply (nodupb_spec _ quad_eqb_spec), H1|apply (nodupb_spec _ N.eqb_spec), H2].
Qed.

Lemma refuted_by c : nodupb quad_eqb (c_init c) && nodupb N.eqb (c_names c) = true ->
  spec_ok c (model_obs c) = false -> exists c, wf c /\ spec_ok c (model_obs c) = false.
Proof. intros H1 H2. exists c. split; [apply wf_dec, H1|exact H2]. Qed.
