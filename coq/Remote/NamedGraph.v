(* C20, rewriting of user-supplied update / query texts by SPARQLUpdateStore:
   _inject_prefixes, _insert_named_graph (BLOCK_FINDING_PATTERN scanning and the
   level/pos loop), the VALUES injection of initBindings.  Character level:
   a text is a list of code points.  No proofs in this file. *)
From Coq Require Import String Ascii ZArith.
From RV Require Export Base.ListSet.
Local Open Scope N_scope.

Definition str := list N.
Definition s2n (s : string) : str := map (fun a => N_of_ascii a) (list_ascii_of_string s).

Definition cLBRACE := 123. Definition cRBRACE := 125. Definition cBSL := 92.
Definition cSQ := 39. Definition cDQ := 34. Definition cLT := 60. Definition cGT := 62. Definition cHASH := 35.
Definition cLF := 10. Definition cCR := 13.

(* ------------------------------------------------------------------ *)
(* BLOCK_FINDING_PATTERN: what matches at the head of a text            *)

(* STRING_LITERAL1/2 after the opening quote [q]: ( [^q bsl] | bsl . )* q ; the length
   consumed (closing quote included), None if there is no match *)
Fixpoint lit_len (q : N) (s : str) : option nat :=
  match s with
  | [] => None
  | c :: r =>
      if N.eqb c q then Some 1%nat
      else if N.eqb c cBSL then
        match r with
        | [] => None
        | d :: r' => if N.eqb d cLF then None      (* the dot does not match a newline *)
                     else match lit_len q r' with Some n => Some (S (S n)) | None => None end
        end
      else match lit_len q r with Some n => Some (S n) | None => None end
  end.

(* IRIREF after the opening angle bracket: any number of characters other than
   < > dquote { } | ^ backtick ] backslash [ and 00-20, then > *)
Definition iri_char (c : N) : bool :=
  negb (N.leb c 32) &&
  negb (existsb (N.eqb c) [60; 62; 34; 123; 125; 124; 94; 96; 93; 92; 91]).

Fixpoint iri_len (s : str) : option nat :=
  match s with
  | [] => None
  | c :: r => if N.eqb c cGT then Some 1%nat
              else if iri_char c then match iri_len r with Some n => Some (S n) | None => None end
              else None
  end.

(* COMMENT after the hash: up to and including the next CR or LF, or to the end - always matches *)
Fixpoint comment_len (s : str) : nat :=
  match s with
  | [] => 0%nat
  | c :: r => if N.eqb c cLF || N.eqb c cCR then 1%nat else S (comment_len r)
  end.

(* STRING_LITERAL_LONG1/2 after the three opening quotes: ( (q | qq)? ( [^q bsl] | bsl . ) )* qqq ;
   the star stops at the first run of three quotes; the length consumed, closing quotes included *)
Fixpoint long_len (q : N) (s : str) : option nat :=
  match s with
  | [] => None
  | c :: r =>
      if N.eqb c q then
        match r with
        | [] => None
        | c2 :: r2 =>
            if N.eqb c2 q then
              match r2 with
              | [] => None
              | c3 :: r3 =>
                  if N.eqb c3 q then Some 3%nat
                  else if N.eqb c3 cBSL then
                    match r3 with
                    | d :: r4 => if N.eqb d cLF then None else option_map (fun n => (4 + n)%nat) (long_len q r4)
                    | [] => None
                    end
                  else option_map (fun n => (3 + n)%nat) (long_len q r3)
              end
            else if N.eqb c2 cBSL then
              match r2 with
              | d :: r3 => if N.eqb d cLF then None else option_map (fun n => (3 + n)%nat) (long_len q r3)
              | [] => None
              end
            else option_map (fun n => (2 + n)%nat) (long_len q r2)
        end
      else if N.eqb c cBSL then
        match r with
        | d :: r2 => if N.eqb d cLF then None else option_map (fun n => (2 + n)%nat) (long_len q r2)
        | [] => None
        end
      else option_map S (long_len q r)
  end.

(* a string at the head of [q :: r]: the long form if the text starts with three quotes and the long
   pattern matches, else the short form (commit 45087ba7 put the long alternatives first) *)
Definition string_len (q : N) (r : str) : option nat :=
  match r with
  | c2 :: c3 :: r3 =>
      if N.eqb c2 q && N.eqb c3 q
      then match long_len q r3 with
           | Some n => Some (3 + n)%nat
           | None => option_map S (lit_len q r)
           end
      else option_map S (lit_len q r)
  | _ => option_map S (lit_len q r)
  end.

(* block_content at the head of [c :: r]: String | IRIREF | COMMENT | ESCAPED, in
   that order; the alternatives start with different characters. *)
Definition content_len (c : N) (r : str) : option nat :=
  if N.eqb c cSQ then string_len cSQ r
  else if N.eqb c cDQ then string_len cDQ r
  else if N.eqb c cLT then option_map S (iri_len r)
  else if N.eqb c cHASH then Some (S (comment_len r))
  else if N.eqb c cBSL then
    match r with d :: _ => if N.eqb d cLF then None else Some 2%nat | [] => None end
  else None.

(* before commit 45087ba7 (finding F13e) the two LONG alternatives came after the short ones and
   could never match: at three quotes the short form matches the empty string *)
Definition content_len_hist (c : N) (r : str) : option nat :=
  if N.eqb c cSQ then option_map S (lit_len cSQ r)
  else if N.eqb c cDQ then option_map S (lit_len cDQ r)
  else content_len c r.

Inductive item := IOpen | IClose | IContent (s : str) | IText (c : N).

(* finditer: leftmost matches, scanning resumes after each match; characters no
   alternative matches at are passed over one by one *)
Fixpoint scan_gen (clen : N -> str -> option nat) (skip : nat) (acc : str) (s : str) : list item :=
  match s with
  | [] => match acc with [] => [] | _ => [IContent (rev acc)] end
  | c :: r =>
      match skip with
      | S O => IContent (rev (c :: acc)) :: scan_gen clen 0 [] r
      | S k => scan_gen clen k (c :: acc) r
      | O =>
          if N.eqb c cLBRACE then IOpen :: scan_gen clen 0 [] r
          else if N.eqb c cRBRACE then IClose :: scan_gen clen 0 [] r
          else match clen c r with
               | Some (S O) => IContent [c] :: scan_gen clen 0 [] r
               | Some (S k) => scan_gen clen k [c] r
               | _ => IText c :: scan_gen clen 0 [] r
               end
      end
  end.

Definition scan_aux := scan_gen content_len.
Definition scan (s : str) : list item := scan_aux 0 [] s.
Definition scan_hist (s : str) : list item := scan_gen content_len_hist 0 [] s.

(* ------------------------------------------------------------------ *)
(* _insert_named_graph: the loop over the matches                        *)

(* str.isspace() / re \s *)
Definition is_space (c : N) : bool :=
  existsb (N.eqb c) [9; 10; 11; 12; 13; 28; 29; 30; 31; 32; 133; 160; 5760; 8192; 8193; 8194; 8195; 8196; 8197;
                     8198; 8199; 8200; 8201; 8202; 8232; 8233; 8239; 8287; 12288].
Definition blank (s : str) : bool := forallb is_space s.

Record ngst := { level : Z;
                 out : str;          (* "".join(modified_query), without a GRAPH opener that may still be popped *)
                 opened : bool;      (* modified_query[-1] is graph_block_open *)
                 pend : str }.       (* query[pos : here] *)

Definition flush_open (gopen : str) (s : ngst) : str := out s ++ (if opened s then gopen else []).

Definition ng_step (gopen gclose : str) (s : ngst) (i : item) : ngst :=
  match i with
  | IContent t => {| level := level s; out := out s; opened := opened s; pend := pend s ++ t |}
  | IText c => {| level := level s; out := out s; opened := opened s; pend := pend s ++ [c] |}
  | IOpen =>
      let l := (level s + 1)%Z in
      if Z.eqb l 1
      then {| level := l; out := flush_open gopen s ++ pend s ++ [cLBRACE]; opened := true; pend := [] |}
      else {| level := l; out := out s; opened := opened s; pend := pend s ++ [cLBRACE] |}
  | IClose =>
      if Z.eqb (level s) 1
      then
        if opened s && blank (pend s)
        then (* the block is empty: the GRAPH opener is popped again *)
          {| level := 0; out := out s ++ pend s; opened := false; pend := [cRBRACE] |}
        else
          {| level := 0; out := flush_open gopen s ++ pend s ++ gclose; opened := false; pend := [cRBRACE] |}
      else {| level := (level s - 1)%Z; out := out s; opened := opened s; pend := pend s ++ [cRBRACE] |}
  end.

Definition ng_init : ngst := {| level := 0; out := []; opened := false; pend := [] |}.

Definition graph_open (g : str) : str := s2n " GRAPH " ++ g ++ s2n " {".
Definition graph_close : str := s2n "} ".

Definition insert_items (g : str) (l : list item) : str :=
  let s := fold_left (ng_step (graph_open g) graph_close) l ng_init in flush_open (graph_open g) s ++ pend s.

Definition insert_named_graph (g : str) (q : str) : str := insert_items g (scan q).
Definition insert_named_graph_hist (g : str) (q : str) : str := insert_items g (scan_hist q).

(* ------------------------------------------------------------------ *)
(* _inject_prefixes and the VALUES clause                               *)

Fixpoint joins (sep : str) (l : list str) : str :=
  match l with [] => [] | [x] => x | x :: r => x ++ sep ++ joins sep r end.

(* bindings in the order the set iteration gives them *)
Definition inject_prefixes (bs : list (str * str)) (q : str) : str :=
  match bs with
  | [] => q
  | _ => joins [cLF] (map (fun kv => s2n "PREFIX " ++ fst kv ++ s2n ": <" ++ snd kv ++ s2n ">") bs)
         ++ [cLF] ++ [cLF] ++ q
  end.

Definition values_text (vars terms : list str) : str :=
  [cLF] ++ s2n "VALUES ( " ++ joins [32] (map (fun v => 63 :: v) vars) ++ s2n " )" ++ [cLF]
  ++ s2n "{ ( " ++ joins [32] terms ++ s2n " ) }" ++ [cLF].

(* \s*\{ : length consumed *)
Fixpoint ws_brace (s : str) : option nat :=
  match s with
  | [] => None
  | c :: r => if N.eqb c cLBRACE then Some 1%nat
              else if is_space c then option_map S (ws_brace r) else None
  end.

Definition ci (c : N) (up : N) : bool := N.eqb c up || N.eqb c (up + 32).

(* where_pattern = WHERE\s*\{ , IGNORECASE (plus the two non-ASCII characters whose
   case folding is an ASCII letter of "where": none of w,h,e,r has one) *)
Definition where_len (s : str) : option nat :=
  match s with
  | w :: h :: e :: r :: e' :: rest =>
      if ci w 87 && ci h 72 && ci e 69 && ci r 82 && ci e' 69
      then option_map (fun n => (5 + n)%nat) (ws_brace rest) else None
  | _ => None
  end.

(* where_pattern.sub(lambda m: "WHERE { " + values, query) *)
Fixpoint values_sub (v : str) (skip : nat) (s : str) : str :=
  match s with
  | [] => []
  | c :: r =>
      match skip with
      | S k => values_sub v k r
      | O => match where_len s with
             | Some (S k) => s2n "WHERE { " ++ v ++ values_sub v k r
             | _ => c :: values_sub v 0 r
             end
      end
  end.

(* SPARQLUpdateStore.update(query, initNs, initBindings, queryGraph): the text queued *)
Record rcase := { r_text : str;
                  r_prefixes : list (str * str);
                  r_graph : option str;           (* n3 of a contextual queryGraph *)
                  r_vars : list str; r_terms : list str }.   (* initBindings *)

Definition rewrite_update (c : rcase) : str :=
  let q1 := inject_prefixes (r_prefixes c) (r_text c) in
  let q2 := match r_graph c with Some g => insert_named_graph g q1 | None => q1 end in
  match r_vars c with
  | [] => q2
  | _ => values_sub (values_text (r_vars c) (r_terms c)) 0 q2
  end.

(* SPARQLStore.query: prefixes in front, VALUES behind *)
Definition rewrite_query (c : rcase) : str :=
  let q1 := inject_prefixes (r_prefixes c) (r_text c) in
  match r_vars c with
  | [] => q1
  | _ => q1 ++ values_text (r_vars c) (r_terms c)
  end.

Definition model_rewrite (c : rcase) : str * str := (rewrite_update c, rewrite_query c).

(* ------------------------------------------------------------------ *)
(* specification of the graph wrapper, on the block structure           *)

Inductive elem := ETxt (s : str) | EBlock (b : list elem).

Fixpoint render_e (e : elem) : str :=
  match e with
  | ETxt s => s
  | EBlock b => [cLBRACE] ++ flat_map render_e b ++ [cRBRACE]
  end.
Definition render (l : list elem) : str := flat_map render_e l.

(* every top-level block whose content is not blank gets the GRAPH wrapper, nothing else changes *)
Definition wrap_e (g : str) (e : elem) : str :=
  match e with
  | ETxt s => s
  | EBlock b =>
      if blank (render b) then [cLBRACE] ++ render b ++ [cRBRACE]
      else [cLBRACE] ++ graph_open g ++ render b ++ graph_close ++ [cRBRACE]
  end.
Definition wrap_spec (g : str) (l : list elem) : str := flat_map (wrap_e g) l.

(* the block structure of a balanced item sequence (None: unbalanced) *)
Fixpoint parse_items (fuel : nat) (l : list item) (stack : list (list elem)) (cur : list elem) : option (list elem) :=
  match l with
  | [] => match stack with [] => Some (rev cur) | _ => None end
  | i :: r =>
      match fuel with O => None | S fuel' =>
      match i with
      | IContent t => parse_items fuel' r stack (ETxt t :: cur)
      | IText c => parse_items fuel' r stack (ETxt [c] :: cur)
      | IOpen => parse_items fuel' r (cur :: stack) []
      | IClose => match stack with
                  | [] => None
                  | up :: st => parse_items fuel' r st (EBlock (rev cur) :: up)
                  end
      end end
  end.

Definition str_eqb := list_eqb N.eqb.

(* the VALUES injection specified independently of the left-to-right regex reading: walk the text from
   the END; at every opening brace look back over blanks for the five letters of WHERE (any case); if
   they are there, brace, blanks and letters are replaced *)
Fixpoint rws (s : str) : str :=
  match s with c :: r => if is_space c then rws r else s | [] => [] end.

Definition rwhere (s : str) : option str :=
  match rws s with
  | e :: r :: e' :: h :: w :: rest =>
      if ci e 69 && ci r 82 && ci e' 69 && ci h 72 && ci w 87 then Some rest else None
  | _ => None
  end.

Fixpoint vsub_rev (repl_rev : str) (fuel : nat) (s : str) : str :=
  match fuel with
  | O => s
  | S f =>
      match s with
      | [] => []
      | c :: r =>
          if N.eqb c cLBRACE
          then match rwhere r with
               | Some rest => repl_rev ++ vsub_rev repl_rev f rest
               | None => c :: vsub_rev repl_rev f r
               end
          else c :: vsub_rev repl_rev f r
      end
  end.

Definition values_spec (v : str) (q : str) : str :=
  rev (vsub_rev (rev (s2n "WHERE { " ++ v)) (S (length q)) (rev q)).

(* the suite's checker: prefixes in front; on a balanced text the wrapper is
   exactly around the non-blank top-level blocks; queries get VALUES appended *)
Definition rewrite_spec (c : rcase) (o : str * str) : bool :=
  let q1 := inject_prefixes (r_prefixes c) (r_text c) in
  str_eqb (snd o) (rewrite_query c) &&
  match r_vars c, r_graph c with
  | [], Some g =>
      match parse_items (S (length (scan q1))) (scan q1) [] [] with
      | Some tree => str_eqb (fst o) (wrap_spec g tree)
      | None => true          (* unbalanced braces: the wrapper is unspecified *)
      end
  | [], None => str_eqb (fst o) q1
  | _, g =>
      let q2 := match g with Some g => insert_named_graph g q1 | None => q1 end in
      str_eqb (fst o) (values_spec (values_text (r_vars c) (r_terms c)) q2)
  end.

Definition rewrite_eqb (a b : str * str) : bool := str_eqb (fst a) (fst b) && str_eqb (snd a) (snd b).
