(* SPARQL algebra as rdflib evaluates it (rdflib/plugins/sparql/algebra.py builds
   these trees, evaluate.py walks them), solutions, datasets, the small
   expression language.  Definitions only.

   Terms and variables are numbers.  The numbering of terms is fixed by the
   harness (harness/c04.py):  1..9 IRIs,  10+z the integer literal z (xsd:integer),
   20 / 21 the xsd:boolean literals false / true.

   A solution mapping is an association list var -> term kept strictly sorted by
   variable: the order of a Python dict is not observable in the property
   (solutions are compared as mappings), so one canonical representative per
   mapping is used; [sol_wf] is the invariant. *)
From Coq Require Export List NArith ZArith Bool Lia Permutation.
Export ListNotations.
Local Open Scope N_scope.

Definition term := N.
Definition var := N.

Inductive tv := Tm (t : term) | Vr (v : var).
Definition tpat := (tv * tv * tv)%type.
Definition triple := (term * term * term)%type.
Definition graph := list triple.
Definition sol := list (var * term).

Record dataset := { ds_default : graph; ds_named : list (term * graph) }.

Inductive cmpop := OpEq | OpNe | OpLt | OpGt.

(* annotations computed by rdflib's translation are carried as data:
   [lazy] (analyse), [no_isolated_scope] (translateExists), [_vars] (_addVars;
   None when the node was never visited, which is the case inside EXISTS) *)
Inductive expr :=
| EVar (v : var)
| ECon (t : term)
| ECmp (op : cmpop) (a b : expr)
| EAnd (a b : expr)
| EOr (a b : expr)
| ENot (a : expr)
| EBound (v : var)
| EExists (pos : bool) (p : alg)
| EIn (pos : bool) (a : expr) (cs : list term)     (* a IN (c1, ...) / NOT IN, constants only *)
| ECoalesce (a b : expr)
| EIf (c a b : expr)
with alg :=
| BGP (ts : list tpat)
| Join (lazy : bool) (p1 p2 : alg)
| LeftJoin (p1vars : option (list var)) (p1 p2 : alg) (e : expr)
| Filter (nis : bool) (fvars : option (list var)) (e : expr) (p : alg)
| Union (p1 p2 : alg)
| Minus (p1 p2 : alg)
| Extend (xvars : option (list var)) (p : alg) (v : var) (e : expr)
| Values (rows : list sol)
| Project (p : alg) (vs : list var)
| Graph (g : tv) (p : alg)
| Distinct (p : alg)
| Slice (start : N) (p : alg).      (* OFFSET start, no LIMIT (a sub-SELECT's solution modifier) *)

(* ------------------------------------------------------------------ *)
(* solutions *)

Fixpoint lookup (v : var) (m : sol) : option term :=
  match m with
  | [] => None
  | (w, t) :: r => if N.eqb v w then Some t else lookup v r
  end.

(* insert or overwrite, keeping the list sorted by variable *)
Fixpoint bind (v : var) (t : term) (m : sol) : sol :=
  match m with
  | [] => [(v, t)]
  | (w, u) :: r =>
      if N.ltb v w then (v, t) :: m
      else if N.eqb v w then (v, t) :: r
      else (w, u) :: bind v t r
  end.

(* FrozenDict.merge: the entries of [a] win *)
Definition merge (b a : sol) : sol :=
  fold_left (fun acc p => bind (fst p) (snd p) acc) a b.

Definition agrees (b : sol) (p : var * term) : bool :=
  match lookup (fst p) b with Some u => N.eqb (snd p) u | None => true end.

(* FrozenDict.compatible *)
Definition compatible (a b : sol) : bool := forallb (agrees b) a.

(* FrozenDict.disjointDomain *)
Definition disjoint_dom (a b : sol) : bool :=
  forallb (fun p => match lookup (fst p) b with None => true | Some _ => false end) a.

Definition restrict (f : var -> bool) (m : sol) : sol := filter (fun p => f (fst p)) m.

Definition memv (v : var) (l : list var) : bool := existsb (N.eqb v) l.

Definition dom (m : sol) : list var := map fst m.

Fixpoint sorted_from (lo : option var) (m : sol) : bool :=
  match m with
  | [] => true
  | (v, _) :: r => (match lo with None => true | Some w => N.ltb w v end) && sorted_from (Some v) r
  end.
Definition sol_wf (m : sol) : bool := sorted_from None m.

Definition pair_eqb (a b : var * term) : bool := N.eqb (fst a) (fst b) && N.eqb (snd a) (snd b).
Fixpoint sol_eqb (a b : sol) : bool :=
  match a, b with
  | [], [] => true
  | x :: r, y :: s => pair_eqb x y && sol_eqb r s
  | _, _ => false
  end.

(* multisets of solutions as lists *)
Fixpoint remove_one (x : sol) (l : list sol) : option (list sol) :=
  match l with
  | [] => None
  | y :: r => if sol_eqb x y then Some r
              else match remove_one x r with Some r' => Some (y :: r') | None => None end
  end.
Fixpoint msol_eqb (a b : list sol) : bool :=
  match a with
  | [] => match b with [] => true | _ => false end
  | x :: r => match remove_one x b with Some b' => msol_eqb r b' | None => false end
  end.

Definition mem_sol (x : sol) (l : list sol) : bool := existsb (sol_eqb x) l.

(* set(...) / evalDistinct: first occurrences *)
Fixpoint dedup (l : list sol) : list sol :=
  match l with
  | [] => []
  | x :: r => x :: filter (fun y => negb (sol_eqb x y)) (dedup r)
  end.

(* evalutils._join *)
Definition join_lists (A B : list sol) : list sol :=
  flat_map (fun x => flat_map (fun y => if compatible x y then [merge x y] else []) B) A.

(* ------------------------------------------------------------------ *)
(* graphs *)

Definition triple_eqb (a b : triple) : bool :=
  let '(a1, a2, a3) := a in let '(b1, b2, b3) := b in
  N.eqb a1 b1 && N.eqb a2 b2 && N.eqb a3 b3.
Definition mem_triple (t : triple) (g : graph) : bool := existsb (triple_eqb t) g.
Fixpoint nodup_graph (g : graph) : bool :=
  match g with [] => true | t :: r => negb (mem_triple t r) && nodup_graph r end.
Definition graph_incl (a b : graph) : bool := forallb (fun t => mem_triple t b) a.
Definition graph_seteqb (a b : graph) : bool := graph_incl a b && graph_incl b a.

Definition pos_ok (x : option term) (t : term) : bool :=
  match x with None => true | Some u => N.eqb u t end.

(* Graph.triples((s, p, o)) with None as wildcard *)
Definition g_triples (g : graph) (s p o : option term) : list triple :=
  filter (fun t => let '(a, b, c) := t in pos_ok s a && pos_ok p b && pos_ok o c) g.

Fixpoint named_graph (l : list (term * graph)) (t : term) : graph :=
  match l with
  | [] => []
  | (n, g) :: r => if N.eqb n t then g else named_graph r t
  end.

(* ------------------------------------------------------------------ *)
(* term kinds, effective boolean value *)

Definition t_false : term := 20.
Definition t_true : term := 21.
Definition t_bool (b : bool) : term := if b then t_true else t_false.

Inductive kind := KIri | KInt (z : N) | KBool (b : bool).
Definition kind_of (t : term) : kind :=
  if N.ltb t 10 then KIri
  else if N.ltb t 20 then KInt (t - 10)
  else if N.eqb t 20 then KBool false
  else if N.eqb t 21 then KBool true
  else KIri.

(* operators.EBV; None = type error *)
Definition ebv_term (t : term) : option bool :=
  match kind_of t with
  | KIri => None
  | KInt z => Some (negb (N.eqb z 0))
  | KBool b => Some b
  end.

Definition ebv (v : option term) : bool :=
  match v with Some t => match ebv_term t with Some b => b | None => false end | None => false end.

(* variables of patterns *)
Definition tv_vars (x : tv) : list var := match x with Vr v => [v] | Tm _ => [] end.
Definition tpat_vars (t : tpat) : list var :=
  let '(s, p, o) := t in tv_vars s ++ tv_vars p ++ tv_vars o.
Definition bgp_vars (ts : list tpat) : list var := flat_map tpat_vars ts.

(* ------------------------------------------------------------------ *)
(* cases and observations of the correspondence check *)

Inductive form := FSelect | FAsk | FConstruct (template : list tpat)
| FStar (vs : list var).   (* CONSTRUCT over a template whose triples share ONE blank node as subject and hold one
                              variable each: one fresh node per solution (16.2.1), observed as the multiset of the
                              stars, i.e. of the solutions restricted to the template's variables (a solution that
                              instantiates no template triple leaves no node) *)

Record case := { c_ds : dataset; c_form : form; c_alg : alg }.

Inductive obs :=
| RSel (rows : list sol)
| RAsk (b : bool)
| RCons (g : graph)
| RErr.

Definition obs_eqb (a b : obs) : bool :=
  match a, b with
  | RSel x, RSel y => msol_eqb x y
  | RAsk x, RAsk y => Bool.eqb x y
  | RCons x, RCons y => graph_seteqb x y
  | RErr, RErr => true
  | _, _ => false
  end.

(* evalutils._fillTemplate (no blank nodes in templates) *)
Definition inst_tv (m : sol) (x : tv) : option term :=
  match x with Tm t => Some t | Vr v => lookup v m end.
Definition inst_tpat (m : sol) (t : tpat) : list triple :=
  let '(s, p, o) := t in
  match inst_tv m s, inst_tv m p, inst_tv m o with
  | Some a, Some b, Some c => [(a, b, c)]
  | _, _, _ => []
  end.
Definition fill_template (tpl : list tpat) (rows : list sol) : graph :=
  flat_map (fun m => flat_map (inst_tpat m) tpl) rows.

Definition answer (f : form) (rows : list sol) : obs :=
  match f with
  | FSelect => RSel rows
  | FAsk => RAsk (match rows with [] => false | _ => true end)
  | FConstruct tpl => RCons (fill_template tpl rows)
  | FStar vs =>
      RSel (filter (fun m : sol => match m with [] => false | _ => true end)
                   (map (restrict (fun v => memv v vs)) rows))
  end.
