(* C15: invariance theorems on the bottom-up semantics and on the model. *)
From RV Require Export Sparql.Tie Sparql.Variants.
Local Open Scope N_scope.

(* permuting the triple patterns of a BGP: same multiset, in the specification ... *)
Lemma bu_bgp_perm ds g ts ts' :
  Permutation ts ts' -> Permutation (eval_bu ds g (BGP ts)) (eval_bu ds g (BGP ts')).
Proof. intros P. cbn. apply bgp_ext_perm; [exact P|reflexivity]. Qed.

(* ... and in rdflib's evaluator, under every context (static reorderTriples and
   the run-time sort are permutations) *)
Lemma td_bgp_perm ds g c ts ts' :
  sol_wf c = true -> Permutation ts ts' ->
  Permutation (eval_td ds g c (BGP ts)) (eval_td ds g c (BGP ts')).
Proof.
  intros W P. cbn [eval_td]. rewrite !eval_bgp_ext. apply bgp_ext_perm; [|exact W].
  rewrite !sort_ts_perm. exact P.
Qed.

Lemma bu_union_comm ds g p1 p2 :
  Permutation (eval_bu ds g (Union p1 p2)) (eval_bu ds g (Union p2 p1)).
Proof. cbn. apply Permutation_app_comm. Qed.

Lemma td_union_comm ds g c p1 p2 :
  Permutation (eval_td ds g c (Union p1 p2)) (eval_td ds g c (Union p2 p1)).
Proof. cbn. apply Permutation_app_comm. Qed.

(* commutativity of Join: in the specification ... *)
Lemma bu_join_comm_lists A B : all_wf A -> all_wf B -> Permutation (join_lists A B) (join_lists B A).
Proof.
  intros WA WB. unfold join_lists. rewrite flat_map_swap.
  apply Permutation_refl'. apply flat_map_ext_in. intros y Iy. apply flat_map_ext_in. intros x Ix.
  rewrite (compatible_sym x y (WA _ Ix) (WB _ Iy)).
  destruct (compatible y x) eqn:C; [|reflexivity]. f_equal.
  apply merge_comm; auto. now rewrite compatible_sym by auto.
Qed.

Lemma bu_join_comm ds g l l' a b : shape a = true -> shape b = true ->
  Permutation (eval_bu ds g (Join l a b)) (eval_bu ds g (Join l' b a)).
Proof. intros Sa Sb. cbn. apply bu_join_comm_lists; now apply bu_wf. Qed.

(* ... and in the model, wherever both orders lie in the proved fragment (the
   asymmetric defects F-C04-3/4 are excluded by its side conditions) *)
Lemma td_join_comm ds (Gn : graphs_nodup ds) (Dn : ds_nb ds) pushed l l' a b g c :
  frag (map fst (ds_named ds)) pushed (Join l a b) = true ->
  frag (map fst (ds_named ds)) pushed (Join l' b a) = true ->
  gok g -> sol_wf c = true -> dom_in c pushed ->
  Permutation (eval_td ds g c (Join l a b)) (eval_td ds g c (Join l' b a)).
Proof.
  intros F1 F2 Ng Wc Dc.
  rewrite (pushdown ds Gn Dn _ _ F1 g c Ng Wc Dc), (pushdown ds Gn Dn _ _ F2 g c Ng Wc Dc).
  apply join_ctx_perm. pose proof (frag_shape _ _ _ F1) as S. cbn in S. apply andb_true_iff in S as [Sa Sb].
  now apply bu_join_comm.
Qed.

(* associativity of Join in the specification: list for list *)
Lemma join_lists_assoc A B D : all_wf A -> all_wf B -> all_wf D ->
  join_lists (join_lists A B) D = join_lists A (join_lists B D).
Proof.
  intros WA WB WD.
  set (Lf := fun x y z : sol =>
         if compatible x y then (if compatible (merge x y) z then [merge (merge x y) z] else []) else []).
  set (Rf := fun x y z : sol =>
         if compatible y z then (if compatible x (merge y z) then [merge x (merge y z)] else []) else []).
  transitivity (flat_map (fun x => flat_map (fun y => flat_map (fun z => Lf x y z) D) B) A).
  - unfold join_lists. rewrite flat_map_flat_map. apply flat_map_ext. intros x.
    rewrite flat_map_flat_map. apply flat_map_ext. intros y. unfold Lf.
    destruct (compatible x y); cbn [flat_map]; [now rewrite app_nil_r|now rewrite flat_map_nil].
  - transitivity (flat_map (fun x => flat_map (fun y => flat_map (fun z => Rf x y z) D) B) A).
    + apply flat_map_ext_in. intros x Ix. apply flat_map_ext_in. intros y Iy. apply flat_map_ext_in. intros z Iz.
      assert (Wx := WA x Ix). assert (Wy := WB y Iy). assert (Wz := WD z Iz). unfold Lf, Rf.
      assert (Wxy : sol_wf (merge x y) = true) by (apply wf_merge, Wx).
      assert (Wyz : sol_wf (merge y z) = true) by (apply wf_merge, Wy).
      destruct (compatible x y) eqn:Cxy, (compatible y z) eqn:Cyz.
      * pose proof (proj1 (compatible_spec _ _ Wx) Cxy) as Pxy.
        pose proof (proj1 (compatible_spec _ _ Wy) Cyz) as Pyz.
        apply (if_compat_ext (merge x y) z x (merge y z)); auto.
        -- split; intros H.
           ++ apply compat_merge_iff; auto. apply compat_prop_sym in H.
              apply (compat_merge_iff z x y Wx Wy Pxy) in H. split; [exact Pxy|apply compat_prop_sym, H].
           ++ apply compat_prop_sym. apply compat_merge_iff; auto.
              apply (compat_merge_iff x y z Wy Wz Pyz) in H. split; apply compat_prop_sym; [apply H|exact Pyz].
        -- intros _. f_equal. now apply merge_assoc.
      * pose proof (proj1 (compatible_spec _ _ Wx) Cxy) as Pxy.
        destruct (compatible (merge x y) z) eqn:C3; [|reflexivity].
        apply (compatible_spec _ _ Wxy) in C3. apply compat_prop_sym in C3.
        apply (compat_merge_iff z x y Wx Wy Pxy) in C3. destruct C3 as [_ C3].
        apply compat_prop_sym in C3. apply (compatible_spec _ _ Wy) in C3. congruence.
      * pose proof (proj1 (compatible_spec _ _ Wy) Cyz) as Pyz.
        destruct (compatible x (merge y z)) eqn:C3; [|reflexivity].
        apply (compatible_spec _ _ Wx) in C3. apply (compat_merge_iff x y z Wy Wz Pyz) in C3.
        destruct C3 as [C3 _]. apply (compatible_spec _ _ Wx) in C3. congruence.
      * reflexivity.
    + unfold join_lists. apply flat_map_ext. intros x. rewrite flat_map_flat_map.
      apply flat_map_ext. intros y. rewrite flat_map_flat_map. apply flat_map_ext. intros z. unfold Rf.
      destruct (compatible y z); cbn [flat_map]; [now rewrite app_nil_r|reflexivity].
Qed.

Lemma bu_join_assoc ds g l1 l2 l3 l4 a b d : shape a = true -> shape b = true -> shape d = true ->
  eval_bu ds g (Join l1 (Join l2 a b) d) = eval_bu ds g (Join l3 a (Join l4 b d)).
Proof. intros Sa Sb Sd. cbn. apply join_lists_assoc; now apply bu_wf. Qed.

(* ... and in the model wherever both bracketings lie in the proved fragment *)
Lemma td_join_assoc ds (Gn : graphs_nodup ds) (Dn : ds_nb ds) pushed l1 l2 l3 l4 a b d g c :
  frag (map fst (ds_named ds)) pushed (Join l1 (Join l2 a b) d) = true ->
  frag (map fst (ds_named ds)) pushed (Join l3 a (Join l4 b d)) = true ->
  gok g -> sol_wf c = true -> dom_in c pushed ->
  Permutation (eval_td ds g c (Join l1 (Join l2 a b) d)) (eval_td ds g c (Join l3 a (Join l4 b d))).
Proof.
  intros F1 F2 Ng Wc Dc.
  rewrite (pushdown ds Gn Dn _ _ F1 g c Ng Wc Dc), (pushdown ds Gn Dn _ _ F2 g c Ng Wc Dc).
  pose proof (frag_shape _ _ _ F1) as S1. pose proof (frag_shape _ _ _ F2) as S2. cbn in S1, S2.
  apply andb_true_iff in S1 as [Sab Sd]. apply andb_true_iff in Sab as [Sa Sb].
  rewrite (bu_join_assoc ds g l1 l2 l3 l4 a b d Sa Sb Sd). reflexivity.
Qed.

(* evaluating under a pre-bound context = joining with a one-row VALUES table
   (the "start context" half of initBindings; that initBindings are also never
   forgotten is not part of the model) *)
Lemma td_prebound_values ds (Gn : graphs_nodup ds) (Dn : ds_nb ds) pushed l p g c :
  frag (map fst (ds_named ds)) pushed p = true -> gok g -> sol_wf c = true -> dom_in c pushed ->
  Permutation (eval_td ds g c p) (eval_bu ds g (Join l p (Values [c]))).
Proof.
  intros F Ng Wc Dc. rewrite (pushdown ds Gn Dn _ _ F g c Ng Wc Dc).
  pose proof (frag_shape _ _ _ F) as S. cbn [eval_bu]. apply Permutation_refl'.
  unfold join_ctx, join_lists. apply flat_map_ext_in. intros m I. assert (Wm := bu_wf ds p S g m I).
  cbn [flat_map]. rewrite app_nil_r. destruct (compatible m c) eqn:C; [|reflexivity].
  f_equal. apply merge_comm; auto. now rewrite compatible_sym by auto.
Qed.

(* FILTER placement inside a group: a filter over variables that the left
   operand certainly binds can be applied before or after the join - in the
   specification, and in the model wherever both forms lie in the fragment *)
Lemma filter_flat_map {A B} (f : B -> bool) (g : A -> list B) l :
  filter f (flat_map g l) = flat_map (fun x => filter f (g x)) l.
Proof. induction l as [|a l IH]; cbn; [reflexivity|]. now rewrite filter_app, IH. Qed.

Lemma bu_filter_join ds (Gn : graphs_nodup ds) (Dn : ds_nb ds) g n1 fv1 n2 fv2 l l' e a b :
  shape a = true -> shape b = true -> gok g ->
  efrag (map fst (ds_named ds)) (maybe a ++ maybe b) e = true ->
  nonempty (inter (cmp_vars_e e) (bool_vars a ++ bool_vars b)) = false ->
  subsetv (evars e) (cert a) = true ->
  eval_bu ds g (Filter n1 fv1 e (Join l a b)) = eval_bu ds g (Join l' (Filter n2 fv2 e a) b).
Proof.
  intros Sa Sb Gk Ee Ty Ce. rewrite subsetv_in in Ce. cbn [eval_bu]. unfold join_lists.
  set (A := eval_bu ds g a). set (B := eval_bu ds g b).
  assert (WA : all_wf A) by (apply bu_wf, Sa). assert (WB : all_wf B) by (apply bu_wf, Sb).
  assert (K : forall x y, In x A -> In y B -> compatible x y = true ->
              ebv (expr_bu ds g (merge x y) e) = ebv (expr_bu ds g x e)).
  { intros x y Ix Iy C. assert (Wx := WA x Ix). assert (Wy := WB y Iy). f_equal.
    assert (Wxy : sol_wf (merge x y) = true) by (apply wf_merge, Wx).
    assert (L : forall v, In v (evars e) -> lookup v (merge x y) = lookup v x).
    { intros v Iv. rewrite lookup_merge by exact Wy.
      pose proof (cert_sound ds a Sa g x v Ix (Ce v Iv)) as Nx.
      destruct (lookup v y) as [u|] eqn:Ly; [|reflexivity].
      destruct (lookup v x) as [t|] eqn:Lx; [|congruence].
      f_equal. symmetry. apply (proj1 (compatible_spec _ _ Wx) C v t u Lx Ly). }
    assert (Tx : typed_sol (bool_vars a ++ bool_vars b) x).
    { eapply typed_sol_mono; [|apply (bu_typed ds a Sa Dn g x (proj2 Gk) Ix)]. intros; apply in_or_app; now left. }
    assert (Txy : typed_sol (bool_vars a ++ bool_vars b) (merge x y)).
    { intros w u Lw. rewrite lookup_merge in Lw by exact Wy. destruct (lookup w y) eqn:Ly.
      - injection Lw as <-. destruct (bu_typed ds b Sb Dn g y (proj2 Gk) Iy w _ Ly); [now left|right; apply in_or_app; now right].
      - now apply Tx. }
    assert (TyOf : forall m, typed_sol (bool_vars a ++ bool_vars b) m ->
                   forall v t, In v (cmp_vars_e e) -> lookup v m = Some t -> nb t = true).
    { intros m Tm v t Iv Lm. destruct (Tm v t Lm) as [Hn|Hb]; [exact Hn|]. exfalso. eapply inter_empty_elim; eauto. }
    assert (D : dom_in (merge x y) (maybe a ++ maybe b)).
    { intros v Hv. rewrite lookup_merge in Hv by exact Wy. apply in_or_app.
      destruct (lookup v y) eqn:Ly; [right; apply (maybe_sound ds b Sb g y v Iy); congruence|].
      left. apply (maybe_sound ds a Sa g x v Ix Hv). }
    rewrite <- (expr_agree ds Gn Dn e _ Ee g (merge x y) (merge x y) (merge x y) Gk Wxy Wxy D (fun v _ => eq_refl) (TyOf _ Txy)).
    apply (expr_agree ds Gn Dn e _ Ee g (merge x y) (merge x y) x Gk Wxy Wx D L (TyOf _ Tx)). }
  rewrite filter_flat_map, flat_map_filter. apply flat_map_ext_in. intros x Ix.
  rewrite filter_flat_map.
  destruct (ebv (expr_bu ds g x e)) eqn:Fx.
  - apply flat_map_ext_in. intros y Iy. destruct (compatible x y) eqn:C; [|reflexivity].
    cbn [filter]. now rewrite (K x y Ix Iy C), Fx.
  - apply flat_map_all_nil. intros y Iy. destruct (compatible x y) eqn:C; [|reflexivity].
    cbn [filter]. now rewrite (K x y Ix Iy C), Fx.
Qed.

Lemma td_filter_join ds (Gn : graphs_nodup ds) (Dn : ds_nb ds) pushed g c n1 fv1 n2 fv2 l l' e a b :
  frag (map fst (ds_named ds)) pushed (Filter n1 fv1 e (Join l a b)) = true ->
  frag (map fst (ds_named ds)) pushed (Join l' (Filter n2 fv2 e a) b) = true ->
  efrag (map fst (ds_named ds)) (maybe a ++ maybe b) e = true ->
  nonempty (inter (cmp_vars_e e) (bool_vars a ++ bool_vars b)) = false ->
  subsetv (evars e) (cert a) = true ->
  gok g -> sol_wf c = true -> dom_in c pushed ->
  Permutation (eval_td ds g c (Filter n1 fv1 e (Join l a b))) (eval_td ds g c (Join l' (Filter n2 fv2 e a) b)).
Proof.
  intros F1 F2 Ee Ty Ce Ng Wc Dc.
  rewrite (pushdown ds Gn Dn _ _ F1 g c Ng Wc Dc), (pushdown ds Gn Dn _ _ F2 g c Ng Wc Dc).
  pose proof (frag_shape _ _ _ F1) as S1. cbn in S1. apply andb_true_iff in S1 as [Sa Sb].
  rewrite (bu_filter_join ds Gn Dn g n1 fv1 n2 fv2 l l' e a b Sa Sb Ng Ee Ty Ce). reflexivity.
Qed.

(* reading of the checker *)
Lemma group_ok_iff l : group_ok l = true <-> (forall x r, l = x :: r -> forall y, In y r -> obs_eqb x y = true).
Proof.
  destruct l as [|x r]; cbn.
  - split; [intros _ ? ? [=]|reflexivity].
  - rewrite forallb_forall. split.
    + intros H ? ? [= <- <-]. exact H.
    + intros H y I. now apply (H x r eq_refl).
Qed.

Lemma spec_ok15_iff c o :
  spec_ok15 c o = true <-> (length o = length c /\ forall l, In l o -> group_ok l = true).
Proof.
  unfold spec_ok15. rewrite andb_true_iff, N.eqb_eq, forallb_forall. split; intros [A B]; split; auto.
  all: try (now apply Nnat.Nat2N.inj); try (now rewrite A).
Qed.

(* a case all of whose variants have the base's algebra is accepted by the checker on the model: the
   model is a function *)
Lemma obs_eqb_refl o : obs_eqb o o = true.
Proof.
  destruct o; cbn.
  - apply msol_eqb_perm. reflexivity.
  - destruct b; reflexivity.
  - apply graph_seteqb_iff. tauto.
  - reflexivity.
Qed.

Definition no_own_algebra (c : vcase) : bool :=
  forallb (fun g => match g_vars g with [] => true | _ => false end) c.

Lemma model_same_algebra c : no_own_algebra c = true -> spec_ok15 c (model_obs15 c) = true.
Proof.
  intros H. apply spec_ok15_iff. split.
  - unfold model_obs15. apply map_length.
  - intros l I. unfold model_obs15 in I. apply in_map_iff in I as [g [<- Ig]].
    unfold no_own_algebra in H. rewrite forallb_forall in H. specialize (H g Ig).
    unfold group_model. destruct (g_kind g); try reflexivity.
    destruct (g_vars g); [|discriminate]. cbn.
    apply forallb_forall. intros y Iy. apply repeat_spec in Iy. subst. apply obs_eqb_refl.
Qed.
