(* C15: invariance theorems on the bottom-up semantics and on the model. *)
From RV Require Export Sparql.Tie Sparql.Variants Sparql.PreparedProofs.
Local Open Scope N_scope.

(* permuting the triple patterns of a BGP: same multiset, in the specification ... *)
Lemma bu_bgp_perm ds g ts ts' :
  Permutation ts ts' -> Permutation (eval_bu ds g (BGP ts)) (eval_bu ds g (BGP ts')).
Proof. intros P. cbn. apply bgp_ext_perm; [exact P|reflexivity]. Qed.

(* ... and in rdflib's evaluator, under every context (static reorderTriples and
   the run-time sort are permutations) *)
Lemma td_bgp_perm ds g c ts ts' :
  sol_wf c = true -> Permutation ts ts' ->
  Permutation (eval_td ds g c (BGP ts)) (eval_td ds g c (BGP ts')).
Proof.
  intros W P. cbn [eval_td]. rewrite !eval_bgp_ext. apply bgp_ext_perm; [|exact W].
  rewrite !sort_ts_perm. exact P.
Qed.

Lemma bu_union_comm ds g p1 p2 :
  Permutation (eval_bu ds g (Union p1 p2)) (eval_bu ds g (Union p2 p1)).
Proof. cbn. apply Permutation_app_comm. Qed.

Lemma td_union_comm ds g c p1 p2 :
  Permutation (eval_td ds g c (Union p1 p2)) (eval_td ds g c (Union p2 p1)).
Proof. cbn. apply Permutation_app_comm. Qed.

(* commutativity of Join: in the specification ... *)
Lemma bu_join_comm_lists A B : all_wf A -> all_wf B -> Permutation (join_lists A B) (join_lists B A).
Proof.
  intros WA WB. unfold join_lists. rewrite flat_map_swap.
  apply Permutation_refl'. apply flat_map_ext_in. intros y Iy. apply flat_map_ext_in. intros x Ix.
  rewrite (compatible_sym x y (WA _ Ix) (WB _ Iy)).
  destruct (compatible y x) eqn:C; [|reflexivity]. f_equal.
  apply merge_comm; auto. now rewrite compatible_sym by auto.
Qed.

Lemma bu_join_comm ds g l l' a b : shape a = true -> shape b = true ->
  Permutation (eval_bu ds g (Join l a b)) (eval_bu ds g (Join l' b a)).
Proof. intros Sa Sb. cbn. apply bu_join_comm_lists; now apply bu_wf. Qed.

(* ... and in the model, wherever both orders lie in the proved fragment (the
   asymmetric defects F-C04-3/4 are excluded by its side conditions) *)
Lemma td_join_comm ds (Gn : graphs_nodup ds) (Dn : ds_nb ds) pushed l l' a b g c :
  frag (map fst (ds_named ds)) pushed (Join l a b) = true ->
  frag (map fst (ds_named ds)) pushed (Join l' b a) = true ->
  gok g -> sol_wf c = true -> dom_in c pushed ->
  Permutation (eval_td ds g c (Join l a b)) (eval_td ds g c (Join l' b a)).
Proof.
  intros F1 F2 Ng Wc Dc.
  rewrite (pushdown ds Gn Dn _ _ F1 g c Ng Wc Dc), (pushdown ds Gn Dn _ _ F2 g c Ng Wc Dc).
  apply join_ctx_perm. pose proof (frag_shape _ _ _ F1) as S. cbn in S. apply andb_true_iff in S as [Sa Sb].
  now apply bu_join_comm.
Qed.

(* associativity of Join in the specification: list for list *)
Lemma join_lists_assoc A B D : all_wf A -> all_wf B -> all_wf D ->
  join_lists (join_lists A B) D = join_lists A (join_lists B D).
Proof.
  intros WA WB WD.
  set (Lf := fun x y z : sol =>
         if compatible x y then (if compatible (merge x y) z then [merge (merge x y) z] else []) else []).
  set (Rf := fun x y z : sol =>
         if compatible y z then (if compatible x (merge y z) then [merge x (merge y z)] else []) else []).
  transitivity (flat_map (fun x => flat_map (fun y => flat_map (fun z => Lf x y z) D) B) A).
  - unfold join_lists. rewrite flat_map_flat_map. apply flat_map_ext. intros x.
    rewrite flat_map_flat_map. apply flat_map_ext. intros y. unfold Lf.
    destruct (compatible x y); cbn [flat_map]; [now rewrite app_nil_r|now rewrite flat_map_nil].
  - transitivity (flat_map (fun x => flat_map (fun y => flat_map (fun z => Rf x y z) D) B) A).
    + apply flat_map_ext_in. intros x Ix. apply flat_map_ext_in. intros y Iy. apply flat_map_ext_in. intros z Iz.
      assert (Wx := WA x Ix). assert (Wy := WB y Iy). assert (Wz := WD z Iz). unfold Lf, Rf.
      assert (Wxy : sol_wf (merge x y) = true) by (apply wf_merge, Wx).
      assert (Wyz : sol_wf (merge y z) = true) by (apply wf_merge, Wy).
      destruct (compatible x y) eqn:Cxy, (compatible y z) eqn:Cyz.
      * pose proof (proj1 (compatible_spec _ _ Wx) Cxy) as Pxy.
        pose proof (proj1 (compatible_spec _ _ Wy) Cyz) as Pyz.
        apply (if_compat_ext (merge x y) z x (merge y z)); auto.
        -- split; intros H.
           ++ apply compat_merge_iff; auto. apply compat_prop_sym in H.
              apply (compat_merge_iff z x y Wx Wy Pxy) in H. split; [exact Pxy|apply compat_prop_sym, H].
           ++ apply compat_prop_sym. apply compat_merge_iff; auto.
              apply (compat_merge_iff x y z Wy Wz Pyz) in H. split; apply compat_prop_sym; [apply H|exact Pyz].
        -- intros _. f_equal. now apply merge_assoc.
      * pose proof (proj1 (compatible_spec _ _ Wx) Cxy) as Pxy.
        destruct (compatible (merge x y) z) eqn:C3; [|reflexivity].
        apply (compatible_spec _ _ Wxy) in C3. apply compat_prop_sym in C3.
        apply (compat_merge_iff z x y Wx Wy Pxy) in C3. destruct C3 as [_ C3].
        apply compat_prop_sym in C3. apply (compatible_spec _ _ Wy) in C3. congruence.
      * pose proof (proj1 (compatible_spec _ _ Wy) Cyz) as Pyz.
        destruct (compatible x (merge y z)) eqn:C3; [|reflexivity].
        apply (compatible_spec _ _ Wx) in C3. apply (compat_merge_iff x y z Wy Wz Pyz) in C3.
        destruct C3 as [C3 _]. apply (compatible_spec _ _ Wx) in C3. congruence.
      * reflexivity.
    + unfold join_lists. apply flat_map_ext. intros x. rewrite flat_map_flat_map.
      apply flat_map_ext. intros y. rewrite flat_map_flat_map. apply flat_map_ext. intros z. unfold Rf.
      destruct (compatible y z); cbn [flat_map]; [now rewrite app_nil_r|reflexivity].
Qed.

Lemma bu_join_assoc ds g l1 l2 l3 l4 a b d : shape a = true -> shape b = true -> shape d = true ->
  eval_bu ds g (Join l1 (Join l2 a b) d) = eval_bu ds g (Join l3 a (Join l4 b d)).
Proof. intros Sa Sb Sd. cbn. apply join_lists_assoc; now apply bu_wf. Qed.

(* ... and in the model wherever both bracketings lie in the proved fragment *)
Lemma td_join_assoc ds (Gn : graphs_nodup ds) (Dn : ds_nb ds) pushed l1 l2 l3 l4 a b d g c :
  frag (map fst (ds_named ds)) pushed (Join l1 (Join l2 a b) d) = true ->
  frag (map fst (ds_named ds)) pushed (Join l3 a (Join l4 b d)) = true ->
  gok g -> sol_wf c = true -> dom_in c pushed ->
  Permutation (eval_td ds g c (Join l1 (Join l2 a b) d)) (eval_td ds g c (Join l3 a (Join l4 b d))).
Proof.
  intros F1 F2 Ng Wc Dc.
  rewrite (pushdown ds Gn Dn _ _ F1 g c Ng Wc Dc), (pushdown ds Gn Dn _ _ F2 g c Ng Wc Dc).
  pose proof (frag_shape _ _ _ F1) as S1. pose proof (frag_shape _ _ _ F2) as S2. cbn in S1, S2.
  apply andb_true_iff in S1 as [Sab Sd]. apply andb_true_iff in Sab as [Sa Sb].
  rewrite (bu_join_assoc ds g l1 l2 l3 l4 a b d Sa Sb Sd). reflexivity.
Qed.

(* evaluating under a pre-bound context = joining with a one-row VALUES table
   (the "start context" half of initBindings; that initBindings are also never
   forgotten is not part of the model) *)
Lemma td_prebound_values ds (Gn : graphs_nodup ds) (Dn : ds_nb ds) pushed l p g c :
  frag (map fst (ds_named ds)) pushed p = true -> gok g -> sol_wf c = true -> dom_in c pushed ->
  Permutation (eval_td ds g c p) (eval_bu ds g (Join l p (Values [c]))).
Proof.
  intros F Ng Wc Dc. rewrite (pushdown ds Gn Dn _ _ F g c Ng Wc Dc).
  pose proof (frag_shape _ _ _ F) as S. cbn [eval_bu]. apply Permutation_refl'.
  unfold join_ctx, join_lists. apply flat_map_ext_in. intros m I. assert (Wm := bu_wf ds p S g m I).
  cbn [flat_map]. rewrite app_nil_r. destruct (compatible m c) eqn:C; [|reflexivity].
  f_equal. apply merge_comm; auto. now rewrite compatible_sym by auto.
Qed.

(* FILTER placement inside a group: a filter over variables that the left
   operand certainly binds can be applied before or after the join - in the
   specification, and in the model wherever both forms lie in the fragment *)
Lemma filter_flat_map {A B} (f : B -> bool) (g : A -> list B) l :
  filter f (flat_map g l) = flat_map (fun x => filter f (g x)) l.
Proof. induction l as [|a l IH]; cbn; [reflexivity|]. now rewrite filter_app, IH. Qed.

Lemma bu_filter_join ds (Gn : graphs_nodup ds) (Dn : ds_nb ds) g n1 fv1 n2 fv2 l l' e a b :
  shape a = true -> shape b = true -> gok g ->
  efrag (map fst (ds_named ds)) (maybe a ++ maybe b) e = true ->
  nonempty (inter (cmp_vars_e e) (bool_vars a ++ bool_vars b)) = false ->
  subsetv (evars e) (cert a) = true ->
  eval_bu ds g (Filter n1 fv1 e (Join l a b)) = eval_bu ds g (Join l' (Filter n2 fv2 e a) b).
Proof.
  intros Sa Sb Gk Ee Ty Ce. rewrite subsetv_in in Ce. cbn [eval_bu]. unfold join_lists.
  set (A := eval_bu ds g a). set (B := eval_bu ds g b).
  assert (WA : all_wf A) by (apply bu_wf, Sa). assert (WB : all_wf B) by (apply bu_wf, Sb).
  assert (K : forall x y, In x A -> In y B -> compatible x y = true ->
              ebv (expr_bu ds g (merge x y) e) = ebv (expr_bu ds g x e)).
  { intros x y Ix Iy C. assert (Wx := WA x Ix). assert (Wy := WB y Iy). f_equal.
    assert (Wxy : sol_wf (merge x y) = true) by (apply wf_merge, Wx).
    assert (L : forall v, In v (evars e) -> lookup v (merge x y) = lookup v x).
    { intros v Iv. rewrite lookup_merge by exact Wy.
      pose proof (cert_sound ds a Sa g x v Ix (Ce v Iv)) as Nx.
      destruct (lookup v y) as [u|] eqn:Ly; [|reflexivity].
      destruct (lookup v x) as [t|] eqn:Lx; [|congruence].
      f_equal. symmetry. apply (proj1 (compatible_spec _ _ Wx) C v t u Lx Ly). }
    assert (Tx : typed_sol (bool_vars a ++ bool_vars b) x).
    { eapply typed_sol_mono; [|apply (bu_typed ds a Sa Dn g x (proj2 Gk) Ix)]. intros; apply in_or_app; now left. }
    assert (Txy : typed_sol (bool_vars a ++ bool_vars b) (merge x y)).
    { intros w u Lw. rewrite lookup_merge in Lw by exact Wy. destruct (lookup w y) eqn:Ly.
      - injection Lw as <-. destruct (bu_typed ds b Sb Dn g y (proj2 Gk) Iy w _ Ly); [now left|right; apply in_or_app; now right].
      - now apply Tx. }
    assert (TyOf : forall m, typed_sol (bool_vars a ++ bool_vars b) m ->
                   forall v t, In v (cmp_vars_e e) -> lookup v m = Some t -> nb t = true).
    { intros m Tm v t Iv Lm. destruct (Tm v t Lm) as [Hn|Hb]; [exact Hn|]. exfalso. eapply inter_empty_elim; eauto. }
    assert (D : dom_in (merge x y) (maybe a ++ maybe b)).
    { intros v Hv. rewrite lookup_merge in Hv by exact Wy. apply in_or_app.
      destruct (lookup v y) eqn:Ly; [right; apply (maybe_sound ds b Sb g y v Iy); congruence|].
      left. apply (maybe_sound ds a Sa g x v Ix Hv). }
    rewrite <- (expr_agree ds Gn Dn e _ Ee g (merge x y) (merge x y) (merge x y) Gk Wxy Wxy D (fun v _ => eq_refl) (TyOf _ Txy)).
    apply (expr_agree ds Gn Dn e _ Ee g (merge x y) (merge x y) x Gk Wxy Wx D L (TyOf _ Tx)). }
  rewrite filter_flat_map, flat_map_filter. apply flat_map_ext_in. intros x Ix.
  rewrite filter_flat_map.
  destruct (ebv (expr_bu ds g x e)) eqn:Fx.
  - apply flat_map_ext_in. intros y Iy. destruct (compatible x y) eqn:C; [|reflexivity].
    cbn [filter]. now rewrite (K x y Ix Iy C), Fx.
  - apply flat_map_all_nil. intros y Iy. destruct (compatible x y) eqn:C; [|reflexivity].
    cbn [filter]. now rewrite (K x y Ix Iy C), Fx.
Qed.

Lemma td_filter_join ds (Gn : graphs_nodup ds) (Dn : ds_nb ds) pushed g c n1 fv1 n2 fv2 l l' e a b :
  frag (map fst (ds_named ds)) pushed (Filter n1 fv1 e (Join l a b)) = true ->
  frag (map fst (ds_named ds)) pushed (Join l' (Filter n2 fv2 e a) b) = true ->
  efrag (map fst (ds_named ds)) (maybe a ++ maybe b) e = true ->
  nonempty (inter (cmp_vars_e e) (bool_vars a ++ bool_vars b)) = false ->
  subsetv (evars e) (cert a) = true ->
  gok g -> sol_wf c = true -> dom_in c pushed ->
  Permutation (eval_td ds g c (Filter n1 fv1 e (Join l a b))) (eval_td ds g c (Join l' (Filter n2 fv2 e a) b)).
Proof.
  intros F1 F2 Ee Ty Ce Ng Wc Dc.
  rewrite (pushdown ds Gn Dn _ _ F1 g c Ng Wc Dc), (pushdown ds Gn Dn _ _ F2 g c Ng Wc Dc).
  pose proof (frag_shape _ _ _ F1) as S1. cbn in S1. apply andb_true_iff in S1 as [Sa Sb].
  rewrite (bu_filter_join ds Gn Dn g n1 fv1 n2 fv2 l l' e a b Sa Sb Ng Ee Ty Ce). reflexivity.
Qed.

(* reading of the checker *)
Lemma group_ok_iff l :
  group_ok l = true <-> (forall x r, present l = x :: r -> forall y, In y r -> obs_eqb x y = true).
Proof.
  unfold group_ok. destruct (present l) as [|x r]; cbn.
  - split; [intros _ ? ? [=]|reflexivity].
  - rewrite forallb_forall. split.
    + intros H ? ? [= <- <-]. exact H.
    + intros H y I. now apply (H x r eq_refl).
Qed.

Lemma spec_ok15_iff c : forall o,
  spec_ok15 c o = true <->
  Forall2 (fun g l => N.of_nat (length l) = group_size g /\ group_ok l = true) c o.
Proof.
  induction c as [|g c IH]; intros [|l o]; cbn [spec_ok15].
  - split; [constructor|reflexivity].
  - split; [discriminate|inversion 1].
  - split; [discriminate|inversion 1].
  - rewrite !andb_true_iff, N.eqb_eq, IH. split.
    + intros [[A B] C]. constructor; auto.
    + inversion 1; subst. tauto.
Qed.

Lemma obs_eqb_refl o : obs_eqb o o = true.
Proof.
  destruct o; cbn.
  - apply msol_eqb_perm. reflexivity.
  - destruct b; reflexivity.
  - apply graph_seteqb_iff. tauto.
  - reflexivity.
Qed.

(* ---- the tie for groups of variants ---- *)

(* [aeqb p p']: p' is p with the triple patterns of its BGPs permuted and the
   operands of some UNIONs and of some joins swapped (annotations of rdflib -
   lazy, _vars - are free to differ); expressions are the same *)
Fixpoint remove_tp (x : tpat) (l : list tpat) : option (list tpat) :=
  match l with
  | [] => None
  | y :: r => if tpat_eqb x y then Some r
              else match remove_tp x r with Some r' => Some (y :: r') | None => None end
  end.
Fixpoint perm_eqb (a b : list tpat) : bool :=
  match a with
  | [] => match b with [] => true | _ => false end
  | x :: r => match remove_tp x b with Some b' => perm_eqb r b' | None => false end
  end.

Fixpoint aeqb (p p' : alg) {struct p} : bool :=
  match p, p' with
  | BGP ts, BGP ts' => perm_eqb ts ts'
  | Join _ a b, Join _ a' b' =>
      (aeqb a a' && aeqb b b') || (shape a && shape b && aeqb a b' && aeqb b a')
      || match a, a' with
         | Join _ x y, Join _ x' y' =>
             (* (x . y) . b  against  (x' . b') . y' with y ~ b', b ~ y': the last two of a chain swapped *)
             shape x && shape y && shape b && aeqb x x' && aeqb y b' && aeqb b y'
         | _, _ => false
         end
  | Union a b, Union a' b' => (aeqb a a' && aeqb b b') || (aeqb a b' && aeqb b a')
  | LeftJoin _ a b e, LeftJoin _ a' b' e' => aeqb a a' && aeqb b b' && expr_eqb e e'
  | Filter _ _ e q, Filter _ _ e' q' => expr_eqb e e' && aeqb q q'
  | Minus a b, Minus a' b' => aeqb a a' && aeqb b b'
  | Extend _ q v e, Extend _ q' v' e' => aeqb q q' && N.eqb v v' && expr_eqb e e'
  | Values r, Values r' => leqb sol_eqb r r'
  | Project q vs, Project q' vs' => aeqb q q' && leqb N.eqb vs vs'
  | Graph t q, Graph t' q' => tv_eqb t t' && aeqb q q'
  | Distinct q, Distinct q' => aeqb q q'
  | Slice n q, Slice n' q' => N.eqb n n' && alg_eqb q q'   (* order matters under a slice: no rewriting below it *)
  | _, _ => false
  end.

Lemma remove_tp_perm x l : forall l', remove_tp x l = Some l' -> Permutation l (x :: l').
Proof.
  induction l as [|y r IH]; cbn; intros l' H; [discriminate|].
  destruct (tpat_eqb x y) eqn:E.
  - apply tpat_eqb_eq in E. injection H as <-. subst. reflexivity.
  - destruct (remove_tp x r) as [r'|]; [|discriminate]. injection H as <-.
    rewrite (IH r' eq_refl). apply perm_swap.
Qed.

Lemma perm_eqb_perm a : forall b, perm_eqb a b = true -> Permutation a b.
Proof.
  induction a as [|x r IH]; cbn; intros b H.
  - destruct b; [constructor|discriminate].
  - destruct (remove_tp x b) as [b'|] eqn:E; [|discriminate].
    rewrite (remove_tp_perm _ _ _ E). constructor. now apply IH.
Qed.

Lemma join_lists_perm A A' B B' :
  Permutation A A' -> Permutation B B' -> Permutation (join_lists A B) (join_lists A' B').
Proof.
  intros PA PB. etransitivity; [apply join_lists_perm_l; exact PA|now apply join_lists_perm_r].
Qed.

Lemma forallb_perm {A} (f : A -> bool) l l' : Permutation l l' -> forallb f l = forallb f l'.
Proof.
  induction 1; cbn; try congruence.
  destruct (f x), (f y); reflexivity.
Qed.

Lemma perm_nil_iff {A} (l l' : list A) : Permutation l l' -> (l = [] <-> l' = []).
Proof.
  intros P. split; intros ->; [now apply Permutation_nil|apply Permutation_nil; now symmetry].
Qed.

Lemma sols_eqb_eq r r' : leqb sol_eqb r r' = true -> r = r'.
Proof. apply leqb_eq. intros x y _. apply sol_eqb_eq. Qed.

Definition aeq_ok (p : alg) : Prop := forall p', aeqb p p' = true ->
  forall ds gr, Permutation (eval_bu ds gr p) (eval_bu ds gr p').
(* the induction carries the statement for the operands of an operand that is a join *)
Definition aeq_ok2 (p : alg) : Prop :=
  aeq_ok p /\ match p with Join _ x y => aeq_ok x /\ aeq_ok y | _ => True end.

Lemma aeqb_sound_aux p : aeq_ok2 p.
Proof.
  induction p as [ts|l a IHa b IHb|pv a IHa b IHb e|n fv e q IHq|a IHa b IHb|a IHa b IHb|xv q IHq v e|rows|q IHq vs|t q IHq|q IHq|sn q IHq];
    (split; [|first [exact I | split; [exact (proj1 IHa)|exact (proj1 IHb)]]]);
    try destruct IHa as [IHa Xa]; try destruct IHb as [IHb Xb]; try destruct IHq as [IHq Xq];
    intros p' H;
    destruct p' as [ts'|l' a' b'|pv' a' b' e'|n' fv' e' q'|a' b'|a' b'|xv' q' v' e'|rows'|q' vs'|t' q'|q'|sn' q'];
    cbn [aeqb] in H; try discriminate H; intros ds gr; cbn [eval_bu].
  - (* BGP *) apply (bu_bgp_perm ds gr ts ts'). now apply perm_eqb_perm.
  - (* Join *)
    apply orb_true_iff in H as [H|H]; [apply orb_true_iff in H as [H|H]|].
    3: { destruct a as [|l1 x y| | | | | | | | | |]; try discriminate H.
         destruct a' as [|l1' x' y'| | | | | | | | | |]; try discriminate H.
         destruct Xa as [Jx Jy].
         apply andb_true_iff in H as [H H6]. apply andb_true_iff in H as [H H5]. apply andb_true_iff in H as [H H4].
         apply andb_true_iff in H as [H S3]. apply andb_true_iff in H as [S1 S2].
         cbn [eval_bu].
         pose proof (bu_wf ds x S1 gr) as WX. pose proof (bu_wf ds y S2 gr) as WY. pose proof (bu_wf ds b S3 gr) as WB.
         rewrite (join_lists_assoc _ _ _ WX WY WB).
         etransitivity; [apply join_lists_perm_r; apply (bu_join_comm_lists _ _ WY WB)|].
         rewrite <- (join_lists_assoc _ _ _ WX WB WY).
         apply join_lists_perm; [apply join_lists_perm; [apply (Jx _ H4)|apply (IHb _ H6)]|apply (Jy _ H5)]. }
    + apply andb_true_iff in H as [H1 H2]. apply join_lists_perm; [apply (IHa _ H1)|apply (IHb _ H2)].
    + apply andb_true_iff in H as [H H4]. apply andb_true_iff in H as [H H3].
      apply andb_true_iff in H as [S1 S2].
      etransitivity; [apply bu_join_comm_lists; apply bu_wf; assumption|].
      apply join_lists_perm; [apply (IHb _ H4)|apply (IHa _ H3)].
  - (* LeftJoin *)
    apply andb_true_iff in H as [H He]. apply andb_true_iff in H as [H1 H2].
    apply (proj2 alg_expr_eqb_eq) in He. subst e'.
    etransitivity; [apply Permutation_flat_map; apply (IHa _ H1)|].
    apply flat_map_perm_pointwise. intros x _.
    pose proof (Permutation_filter' (fun y => compatible x y && ebv (expr_bu ds gr (merge x y) e))
                  _ _ (IHb _ H2 ds gr)) as P.
    destruct (filter _ (eval_bu ds gr b)) as [|y r] eqn:E1.
    + apply Permutation_nil in P. rewrite P. reflexivity.
    + destruct (filter _ (eval_bu ds gr b')) as [|y' r'] eqn:E2.
      * symmetry in P. apply Permutation_nil in P. discriminate P.
      * now apply Permutation_map.
  - (* Filter *)
    apply andb_true_iff in H as [He H]. apply (proj2 alg_expr_eqb_eq) in He. subst e'.
    apply Permutation_filter'. auto.
  - (* Union *)
    apply orb_true_iff in H as [H|H]; apply andb_true_iff in H as [H1 H2].
    + apply Permutation_app; auto.
    + etransitivity; [apply Permutation_app_comm|]. apply Permutation_app; auto.
  - (* Minus *)
    apply andb_true_iff in H as [H1 H2].
    etransitivity; [apply Permutation_filter'; apply (IHa _ H1)|].
    erewrite filter_ext; [reflexivity|]. intros x. apply forallb_perm. auto.
  - (* Extend *)
    apply andb_true_iff in H as [H He]. apply andb_true_iff in H as [H Hv].
    apply (proj2 alg_expr_eqb_eq) in He. apply N.eqb_eq in Hv. subst.
    apply Permutation_map. auto.
  - (* Values *) apply sols_eqb_eq in H. subst. reflexivity.
  - (* Project *)
    apply andb_true_iff in H as [H Hv]. apply lN_eq in Hv. subst. apply Permutation_map. auto.
  - (* Graph *)
    apply andb_true_iff in H as [Ht H]. apply tv_eqb_eq in Ht. subst.
    destruct t' as [t|v].
    + destruct (existsb _ _); [auto|reflexivity].
    + apply flat_map_perm_pointwise. intros ng _. apply join_lists_perm_l. auto.
  - (* Distinct *) apply dedup_perm. apply (IHq _ H).
  - (* Slice: the same tree *)
    apply andb_true_iff in H as [Hn Hq]. apply N.eqb_eq in Hn. apply alg_eqb_eq in Hq. subst. reflexivity.
Qed.

Theorem aeqb_sound p : forall p', aeqb p p' = true ->
  forall ds gr, Permutation (eval_bu ds gr p) (eval_bu ds gr p').
Proof. exact (proj1 (aeqb_sound_aux p)). Qed.

(* the same data and query form *)
Definition graph_eqb (a b : graph) : bool := leqb triple_eqb a b.
Definition ds_eqb (a b : dataset) : bool :=
  graph_eqb (ds_default a) (ds_default b)
  && leqb (fun x y => N.eqb (fst x) (fst y) && graph_eqb (snd x) (snd y)) (ds_named a) (ds_named b).
Definition form_eqb (a b : form) : bool :=
  match a, b with
  | FSelect, FSelect | FAsk, FAsk => true
  | FConstruct t, FConstruct t' => leqb tpat_eqb t t'
  | FStar vs, FStar vs' => leqb N.eqb vs vs'
  | _, _ => false
  end.

Lemma graph_eqb_eq a b : graph_eqb a b = true -> a = b.
Proof. apply leqb_eq. intros x y _. apply triple_eqb_eq. Qed.
Lemma ds_eqb_eq a b : ds_eqb a b = true -> a = b.
Proof.
  destruct a as [d n], b as [d' n']. unfold ds_eqb. cbn. intros H. apply andb_true_iff in H as [H1 H2].
  apply graph_eqb_eq in H1. subst. f_equal.
  revert H2. apply leqb_eq. intros [x gx] [y gy] _ E. cbn in E. apply andb_true_iff in E as [E1 E2].
  apply N.eqb_eq in E1. apply graph_eqb_eq in E2. now subst.
Qed.
Lemma form_eqb_eq a b : form_eqb a b = true -> a = b.
Proof.
  destruct a, b; cbn; try discriminate; try reflexivity; intros H; f_equal.
  - revert H. apply leqb_eq. intros x y _. apply tpat_eqb_eq.
  - now apply lN_eq.
Qed.

(* the region of the tie: every variant with an algebra of its own keeps the
   variable names, the data and the form, is [aeqb] to the base, and base and
   variant lie in the proved fragment of C04 (well-formed data without boolean
   literals = outside the region of F-C04-9) *)
Definition tied_variant (b : case) (cv : case * list (var * var)) : bool :=
  match snd cv with [] => true | _ => false end
  && ds_eqb (c_ds b) (c_ds (fst cv)) && form_eqb (c_form b) (c_form (fst cv))
  && case_wf b && in_frag b && in_frag (fst cv)
  && aeqb (c_alg b) (c_alg (fst cv)).
Definition tied_group (g : group) : bool :=
  match g_kind g with
  | GNormal => forallb (tied_variant (g_base g)) (g_vars g)
  | _ => true      (* one modelled observation at most *)
  end.
Definition tied15 (c : vcase) : bool := forallb tied_group c.

Lemma obs_eqb_sym a b : obs_eqb a b = true -> obs_eqb b a = true.
Proof.
  destruct a, b; cbn; try discriminate; try reflexivity.
  - rewrite !msol_eqb_perm. now symmetry.
  - destruct b, b0; auto.
  - rewrite !graph_seteqb_iff. intros H t. symmetry. apply H.
Qed.
Lemma obs_eqb_trans a b c : obs_eqb a b = true -> obs_eqb b c = true -> obs_eqb a c = true.
Proof.
  destruct a, b, c; cbn; try discriminate; try reflexivity.
  - rewrite !msol_eqb_perm. intros; etransitivity; eauto.
  - destruct b, b0, b1; auto.
  - rewrite !graph_seteqb_iff. intros H1 H2 t. rewrite H1. apply H2.
Qed.

Lemma tied_variant_sound b cv : tied_variant b cv = true ->
  obs_eqb (model_obs b) (ren_obs (snd cv) (model_obs (fst cv))) = true.
Proof.
  unfold tied_variant. destruct cv as [v ren]. cbn [fst snd]. intros H.
  apply andb_true_iff in H as [H Ha]. apply andb_true_iff in H as [H Fv]. apply andb_true_iff in H as [H Fb].
  apply andb_true_iff in H as [H W]. apply andb_true_iff in H as [H Ef]. apply andb_true_iff in H as [Hr Ed].
  destruct ren; [|discriminate]. cbn [ren_obs].
  apply ds_eqb_eq in Ed. apply form_eqb_eq in Ef.
  assert (Wv : case_wf v = true) by (unfold case_wf in *; rewrite <- Ed; exact W).
  pose proof (top_rows b W Fb) as P1. pose proof (top_rows v Wv Fv) as P2.
  unfold model_obs. rewrite <- Ef, <- Ed. apply answer_perm.
  rewrite P1. unfold spec_rows in *. rewrite <- Ed in P2. rewrite P2. now apply aeqb_sound.
Qed.

Lemma present_map_some {A} (f : A -> obs) l : present (map (fun x => Some (f x)) l) = map f l.
Proof. induction l as [|x l IH]; [reflexivity|]. unfold present in *. cbn. now rewrite IH. Qed.
Lemma present_app a b : present (a ++ b) = present a ++ present b.
Proof. unfold present. apply flat_map_app. Qed.
Lemma present_repeat x n : present (repeat (Some x) n) = repeat x n.
Proof. induction n as [|n IH]; [reflexivity|]. unfold present in *. cbn. now rewrite IH. Qed.

Lemma group_model_ok g : tied_group g = true ->
  N.of_nat (length (group_model g)) = group_size g /\ group_ok (group_model g) = true.
Proof.
  unfold tied_group, group_model, group_size. destruct (g_kind g); intros H.
  - split.
    + cbn [length]. rewrite app_length, map_length, repeat_length. lia.
    + unfold group_ok. cbn [present flat_map app]. rewrite present_app, present_map_some, present_repeat.
      apply forallb_forall. intros y I. apply in_app_or in I as [I|I].
      * apply in_map_iff in I as [cv [<- Icv]]. apply tied_variant_sound.
        rewrite forallb_forall in H. now apply H.
      * apply repeat_spec in I. subst. apply obs_eqb_refl.
  - split; reflexivity.
  - split; reflexivity.
Qed.

(* THE TIE on its region: the checker accepts the model's observation *)
Theorem variants_tie c : tied15 c = true -> spec_ok15 c (model_obs15 c) = true.
Proof.
  intros H. apply spec_ok15_iff. unfold model_obs15, tied15 in *. rewrite forallb_forall in H.
  induction c as [|g c IH]; cbn [map]; constructor.
  - apply group_model_ok. apply H. now left.
  - apply IH. intros x I. apply H. now right.
Qed.

(* special case: groups without variants of their own (one algebra observed repeatedly) *)
Definition no_own_algebra (c : vcase) : bool :=
  forallb (fun g => match g_vars g with [] => true | _ => false end) c.
Lemma no_own_tied c : no_own_algebra c = true -> tied15 c = true.
Proof.
  unfold no_own_algebra, tied15. rewrite !forallb_forall. intros H g I. specialize (H g I).
  unfold tied_group. destruct (g_kind g); try reflexivity. destruct (g_vars g); [reflexivity|discriminate].
Qed.

(* ---- witness of F-C15-1: { ?x :p ?y . { BIND(11 AS ?y) } } against { { BIND(11 AS ?y) } ?x :p ?y }
   over (a p b).  The algebra gives no row for either (the join of ?y = b with ?y = 11
   is incompatible); rdflib's evaluator (and the model) gives the first ONE row: the
   binding of ?y is pushed into the sub-group, BIND overwrites it and the join restores
   the outer value (F-C04-1); written the other way round the answer is empty.
   (The former witness - a hash join that de-duplicated its right operand, F-C04-3 - was
   repaired by 3512ad97 and now passes, see w15_old_repaired.) ---- *)
Definition w15_ds : dataset := {| ds_default := [(1, 4, 2)]; ds_named := [] |}.
Definition w15_base : case :=
  {| c_ds := w15_ds; c_form := FSelect;
     c_alg := Project (Join true (BGP [(Vr 1, Tm 4, Vr 2)]) (Extend (Some [2]) (BGP []) 2 (ECon 11))) [2; 1] |}.
Definition w15_var : case :=
  {| c_ds := w15_ds; c_form := FSelect;
     c_alg := Project (Join true (Extend (Some [2]) (BGP []) 2 (ECon 11)) (BGP [(Vr 1, Tm 4, Vr 2)])) [2; 1] |}.
Definition w15 : vcase := [ {| g_base := w15_base; g_vars := [(w15_var, [])]; g_same := 0; g_kind := GNormal |} ].

Lemma w15_refuted :
  spec_ok15 w15 (model_obs15 w15) = false /\ kf15 w15 = 1
  /\ aeqb (c_alg w15_base) (c_alg w15_var) = true
  /\ spec_rows w15_base = [] /\ spec_rows w15_var = []
  /\ model_obs w15_base = RSel [[(1, 1); (2, 2)]] /\ model_obs w15_var = RSel [].
Proof. vm_compute. repeat split; reflexivity. Qed.

Definition w15_old_base : case :=
  {| c_ds := w15_ds; c_form := FSelect;
     c_alg := Project (Join false (Join true (BGP [(Vr 1, Tm 4, Vr 2)]) (BGP [(Vr 1, Tm 4, Vr 3)]))
                                  (Values [[(4, 11)]; [(4, 11)]])) [2; 1; 4; 3] |}.
Definition w15_old_var : case :=
  {| c_ds := w15_ds; c_form := FSelect;
     c_alg := Project (Join false (Join true (Values [[(4, 11)]; [(4, 11)]]) (BGP [(Vr 1, Tm 4, Vr 2)]))
                                  (BGP [(Vr 1, Tm 4, Vr 3)])) [2; 1; 3; 4] |}.
Definition w15_old : vcase :=
  [ {| g_base := w15_old_base; g_vars := [(w15_old_var, [])]; g_same := 0; g_kind := GNormal |} ].
Lemma w15_old_repaired : spec_ok15 w15_old (model_obs15 w15_old) = true /\ kf15 w15_old = 0.
Proof. vm_compute. split; reflexivity. Qed.
