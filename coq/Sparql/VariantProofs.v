(* C15: invariance theorems on the bottom-up semantics and on the model. *)
From RV Require Export Sparql.Tie Sparql.Variants.
Local Open Scope N_scope.

(* permuting the triple patterns of a BGP: same multiset, in the specification ... *)
Lemma bu_bgp_perm ds g ts ts' :
  Permutation ts ts' -> Permutation (eval_bu ds g (BGP ts)) (eval_bu ds g (BGP ts')).
Proof. intros P. cbn. apply bgp_ext_perm; [exact P|reflexivity]. Qed.

(* ... and in rdflib's evaluator, under every context (static reorderTriples and
   the run-time sort are permutations) *)
Lemma td_bgp_perm ds g c ts ts' :
  sol_wf c = true -> Permutation ts ts' ->
  Permutation (eval_td ds g c (BGP ts)) (eval_td ds g c (BGP ts')).
Proof.
  intros W P. cbn [eval_td]. rewrite !eval_bgp_ext. apply bgp_ext_perm; [|exact W].
  rewrite !sort_ts_perm. exact P.
Qed.

Lemma bu_union_comm ds g p1 p2 :
  Permutation (eval_bu ds g (Union p1 p2)) (eval_bu ds g (Union p2 p1)).
Proof. cbn. apply Permutation_app_comm. Qed.

Lemma td_union_comm ds g c p1 p2 :
  Permutation (eval_td ds g c (Union p1 p2)) (eval_td ds g c (Union p2 p1)).
Proof. cbn. apply Permutation_app_comm. Qed.

(* commutativity of Join: in the specification ... *)
Lemma bu_join_comm_lists A B : all_wf A -> all_wf B -> Permutation (join_lists A B) (join_lists B A).
Proof.
  intros WA WB. unfold join_lists. rewrite flat_map_swap.
  apply Permutation_refl'. apply flat_map_ext_in. intros y Iy. apply flat_map_ext_in. intros x Ix.
  rewrite (compatible_sym x y (WA _ Ix) (WB _ Iy)).
  destruct (compatible y x) eqn:C; [|reflexivity]. f_equal.
  apply merge_comm; auto. now rewrite compatible_sym by auto.
Qed.

Lemma bu_join_comm ds g l l' a b : shape a = true -> shape b = true ->
  Permutation (eval_bu ds g (Join l a b)) (eval_bu ds g (Join l' b a)).
Proof. intros Sa Sb. cbn. apply bu_join_comm_lists; now apply bu_wf. Qed.

(* ... and in the model, wherever both orders lie in the proved fragment (the
   asymmetric defects F-C04-3/4 are excluded by its side conditions) *)
Lemma td_join_comm ds (Gn : graphs_nodup ds) (Dn : ds_nb ds) pushed l l' a b g c :
  frag (map fst (ds_named ds)) pushed (Join l a b) = true ->
  frag (map fst (ds_named ds)) pushed (Join l' b a) = true ->
  gok g -> sol_wf c = true -> dom_in c pushed ->
  Permutation (eval_td ds g c (Join l a b)) (eval_td ds g c (Join l' b a)).
Proof.
  intros F1 F2 Ng Wc Dc.
  rewrite (pushdown ds Gn Dn _ _ F1 g c Ng Wc Dc), (pushdown ds Gn Dn _ _ F2 g c Ng Wc Dc).
  apply join_ctx_perm. pose proof (frag_shape _ _ _ F1) as S. cbn in S. apply andb_true_iff in S as [Sa Sb].
  now apply bu_join_comm.
Qed.

(* reading of the checker *)
Lemma group_ok_iff l : group_ok l = true <-> (forall x r, l = x :: r -> forall y, In y r -> obs_eqb x y = true).
Proof.
  destruct l as [|x r]; cbn.
  - split; [intros _ ? ? [=]|reflexivity].
  - rewrite forallb_forall. split.
    + intros H ? ? [= <- <-]. exact H.
    + intros H y I. now apply (H x r eq_refl).
Qed.

Lemma spec_ok15_iff c o :
  spec_ok15 c o = true <-> (length o = length c /\ forall l, In l o -> group_ok l = true).
Proof.
  unfold spec_ok15. rewrite andb_true_iff, N.eqb_eq, forallb_forall. split; intros [A B]; split; auto.
  all: try (now apply Nnat.Nat2N.inj); try (now rewrite A).
Qed.

(* a case all of whose variants have the base's algebra is accepted by the checker on the model: the
   model is a function *)
Lemma obs_eqb_refl o : obs_eqb o o = true.
Proof.
  destruct o; cbn.
  - apply msol_eqb_perm. reflexivity.
  - destruct b; reflexivity.
  - apply graph_seteqb_iff. tauto.
  - reflexivity.
Qed.

Definition no_own_algebra (c : vcase) : bool :=
  forallb (fun g => match g_vars g with [] => true | _ => false end) c.

Lemma model_same_algebra c : no_own_algebra c = true -> spec_ok15 c (model_obs15 c) = true.
Proof.
  intros H. apply spec_ok15_iff. split.
  - unfold model_obs15. apply map_length.
  - intros l I. unfold model_obs15 in I. apply in_map_iff in I as [g [<- Ig]].
    unfold no_own_algebra in H. rewrite forallb_forall in H. specialize (H g Ig).
    unfold group_model. destruct (g_kind g); try reflexivity.
    destruct (g_vars g); [|discriminate]. cbn.
    apply forallb_forall. intros y Iy. apply repeat_spec in Iy. subst. apply obs_eqb_refl.
Qed.
