(* C15: invariance theorems on the bottom-up semantics and on the model. *)
From RV Require Export Sparql.Proofs Sparql.Variants.
Local Open Scope N_scope.

(* permuting the triple patterns of a BGP: same multiset, in the specification ... *)
Lemma bu_bgp_perm ds g ts ts' :
  Permutation ts ts' -> Permutation (eval_bu ds g (BGP ts)) (eval_bu ds g (BGP ts')).
Proof. intros P. cbn. apply bgp_ext_perm; [exact P|reflexivity]. Qed.

(* ... and in rdflib's evaluator, under every context (static reorderTriples and
   the run-time sort are permutations) *)
Lemma td_bgp_perm ds g c ts ts' :
  sol_wf c = true -> Permutation ts ts' ->
  Permutation (eval_td ds g c (BGP ts)) (eval_td ds g c (BGP ts')).
Proof.
  intros W P. cbn [eval_td]. rewrite !eval_bgp_ext. apply bgp_ext_perm; [|exact W].
  rewrite !sort_ts_perm. exact P.
Qed.

Lemma bu_union_comm ds g p1 p2 :
  Permutation (eval_bu ds g (Union p1 p2)) (eval_bu ds g (Union p2 p1)).
Proof. cbn. apply Permutation_app_comm. Qed.

Lemma td_union_comm ds g c p1 p2 :
  Permutation (eval_td ds g c (Union p1 p2)) (eval_td ds g c (Union p2 p1)).
Proof. cbn. apply Permutation_app_comm. Qed.

(* reading of the checker *)
Lemma group_ok_iff l : group_ok l = true <-> (forall x r, l = x :: r -> forall y, In y r -> obs_eqb x y = true).
Proof.
  destruct l as [|x r]; cbn.
  - split; [intros _ ? ? [=]|reflexivity].
  - rewrite forallb_forall. split.
    + intros H ? ? [= <- <-]. exact H.
    + intros H y I. now apply (H x r eq_refl).
Qed.

Lemma spec_ok15_iff c o :
  spec_ok15 c o = true <-> (length o = length c /\ forall l, In l o -> group_ok l = true).
Proof.
  unfold spec_ok15. rewrite andb_true_iff, N.eqb_eq, forallb_forall. split; intros [A B]; split; auto.
  all: try (now apply Nnat.Nat2N.inj); try (now rewrite A).
Qed.

(* a case all of whose variants have the base's algebra is accepted by the checker on the model: the
   model is a function *)
Lemma obs_eqb_refl o : obs_eqb o o = true.
Proof.
  destruct o; cbn.
  - apply msol_eqb_perm. reflexivity.
  - destruct b; reflexivity.
  - apply graph_seteqb_iff. tauto.
  - reflexivity.
Qed.

Definition no_own_algebra (c : vcase) : bool :=
  forallb (fun g => match g_kind g with GDupPrefix => false | _ => true end
                    && match g_vars g with [] => true | _ => false end) c.

Lemma model_same_algebra c : no_own_algebra c = true -> spec_ok15 c (model_obs15 c) = true.
Proof.
  intros H. apply spec_ok15_iff. split.
  - unfold model_obs15. apply map_length.
  - intros l I. unfold model_obs15 in I. apply in_map_iff in I as [g [<- Ig]].
    unfold no_own_algebra in H. rewrite forallb_forall in H. specialize (H g Ig).
    apply andb_true_iff in H as [H0 H].
    unfold group_model. destruct (g_kind g); try discriminate; try reflexivity.
    destruct (g_vars g); [|discriminate]. cbn.
    apply forallb_forall. intros y Iy. apply repeat_spec in Iy. subst. apply obs_eqb_refl.
Qed.
