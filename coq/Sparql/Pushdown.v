(* Push-down of an incoming context = bottom-up evaluation restricted to the
   solutions compatible with the context (merged with it). *)
From RV Require Export Sparql.MergeLemmas Sparql.Proofs.
Local Open Scope N_scope.

Lemma join_ctx_flat_map {A} c (F : A -> list sol) l :
  join_ctx c (flat_map F l) = flat_map (fun x => join_ctx c (F x)) l.
Proof.
  induction l as [|a l IH]; cbn [flat_map]; [reflexivity|]. now rewrite join_ctx_app, IH.
Qed.

Lemma join_ctx_incompat c L :
  (forall m, In m L -> compatible m c = false) -> join_ctx c L = [].
Proof.
  induction L as [|m L IH]; intros H; cbn; [reflexivity|].
  rewrite (H m) by now left. cbn. apply IH. intros; apply H; now right.
Qed.

(* ---- one unification step under a context ---- *)
Lemma compat_bind_intro v t m0 c :
  sol_wf m0 = true -> compat_prop m0 c -> (forall w, lookup v c = Some w -> t = w) ->
  compat_prop (bind v t m0) c.
Proof.
  intros W C H x a b La Lb. rewrite lookup_bind in La.
  destruct (N.eqb x v) eqn:E.
  - apply N.eqb_eq in E; subst. injection La as <-. now apply H.
  - eapply C; eauto.
Qed.

Lemma merge_bind_comm c m0 v t :
  sol_wf c = true -> sol_wf m0 = true -> lookup v m0 = None ->
  merge c (bind v t m0) = bind v t (merge c m0).
Proof.
  intros Wc W0 L. apply sol_ext.
  - apply wf_merge, Wc.
  - apply wf_bind, wf_merge, Wc.
  - intros x. rewrite lookup_merge by (apply wf_bind, W0). rewrite !lookup_bind.
    destruct (N.eqb x v) eqn:E; [reflexivity|]. now rewrite lookup_merge by exact W0.
Qed.

Lemma unify_push c m0 x t :
  sol_wf m0 = true -> sol_wf c = true -> compat_prop m0 c ->
  match unify m0 x t with
  | None => unify (merge c m0) x t = None
  | Some m' => (compat_prop m' c -> unify (merge c m0) x t = Some (merge c m')) /\
               (~ compat_prop m' c -> unify (merge c m0) x t = None)
  end.
Proof.
  intros W0 Wc C. destruct x as [u|v]; cbn.
  - destruct (N.eqb u t); [|reflexivity]. split; [reflexivity|]. intros N. now destruct N.
  - rewrite lookup_merge by exact W0.
    destruct (lookup v m0) as [u|] eqn:L0.
    + destruct (N.eqb u t); [|reflexivity]. split; [reflexivity|]. intros N. now destruct N.
    + destruct (lookup v c) as [w|] eqn:Lc.
      * split.
        -- intros C'. assert (t = w).
           { eapply (C' v t w); [apply lookup_bind_same|exact Lc]. }
           subst w. rewrite N.eqb_refl. f_equal.
           apply sol_ext; [apply wf_merge, Wc|apply wf_merge, Wc|].
           intros x. rewrite !lookup_merge by (try exact W0; apply wf_bind, W0).
           rewrite lookup_bind. destruct (N.eqb x v) eqn:E; [|reflexivity].
           apply N.eqb_eq in E; subst. now rewrite L0, Lc.
        -- intros N. destruct (N.eqb w t) eqn:E; [|reflexivity].
           apply N.eqb_eq in E; subst. destruct N.
           apply compat_bind_intro; auto. intros w' H. congruence.
      * split.
        -- intros _. f_equal. symmetry. now apply merge_bind_comm.
        -- intros N. destruct N. apply compat_bind_intro; auto. intros w' H. congruence.
Qed.

Lemma unifyl_sub c l c' : unifyl c l = Some c' -> sub_sol c c'.
Proof.
  revert c. induction l as [|[x t] r IH]; intros c; cbn.
  - intros [= <-]. apply sub_sol_refl.
  - destruct (unify c x t) eqn:U; cbn; [|discriminate]. intros H.
    eapply sub_sol_trans; [eapply unify_sub; eauto|eauto].
Qed.

Lemma unifyl_push c l : forall m0,
  sol_wf m0 = true -> sol_wf c = true -> compat_prop m0 c ->
  match unifyl m0 l with
  | None => unifyl (merge c m0) l = None
  | Some m' => (compat_prop m' c -> unifyl (merge c m0) l = Some (merge c m')) /\
               (~ compat_prop m' c -> unifyl (merge c m0) l = None)
  end.
Proof.
  induction l as [|[x t] r IH]; intros m0 W0 Wc C; cbn.
  - split; [reflexivity|]. intros N. now destruct N.
  - pose proof (unify_push c m0 x t W0 Wc C) as U.
    destruct (unify m0 x t) as [m1|] eqn:U1; cbn.
    + destruct U as [Uy Un].
      assert (W1 : sol_wf m1 = true) by exact (unify_wf _ _ _ _ W0 U1).
      destruct (compatible m1 c) eqn:C1.
      * apply (compatible_spec m1 c W1) in C1. rewrite (Uy C1). cbn. apply IH; auto.
      * apply compatible_false_spec in C1; [|exact W1]. rewrite (Un C1). cbn.
        destruct (unifyl m1 r) as [m'|] eqn:U2; [|reflexivity].
        split; [|reflexivity]. intros C'. destruct C1.
        eapply compat_sub_l; [eapply unifyl_sub; eauto|exact C'].
    + rewrite U. reflexivity.
Qed.

Lemma bgp_ext_inv g ts : forall m0 m,
  sol_wf m0 = true -> In m (bgp_ext g m0 ts) -> sol_wf m = true /\ sub_sol m0 m.
Proof.
  induction ts as [|tp r IH]; intros m0 m W I; cbn in I.
  - destruct I as [<-|[]]. split; [exact W|apply sub_sol_refl].
  - apply in_flat_map in I as [tr [_ I]].
    destruct (ext m0 tp tr) as [m1|] eqn:E; [|destruct I].
    assert (W1 : sol_wf m1 = true) by exact (ext_wf _ _ _ _ W E).
    destruct (IH m1 m W1 I) as [Wm S]. split; [exact Wm|].
    eapply sub_sol_trans; [|exact S]. rewrite ext_unifyl in E. eapply unifyl_sub; eauto.
Qed.

(* C04_bgp, second half: evaluating a BGP from (context merged with a partial
   solution) = restricting to the context the evaluation from the partial solution *)
Lemma bgp_push g c ts : forall m0,
  sol_wf m0 = true -> sol_wf c = true -> compat_prop m0 c ->
  bgp_ext g (merge c m0) ts = join_ctx c (bgp_ext g m0 ts).
Proof.
  induction ts as [|tp r IH]; intros m0 W0 Wc C.
  - cbn. rewrite (proj2 (compatible_spec m0 c W0) C). reflexivity.
  - cbn [bgp_ext]. rewrite join_ctx_flat_map. apply flat_map_ext. intros tr.
    pose proof (unifyl_push c (tp_list tp tr) m0 W0 Wc C) as U. rewrite <- !ext_unifyl in U.
    destruct (ext m0 tp tr) as [m1|] eqn:E.
    + destruct U as [Uy Un].
      assert (W1 : sol_wf m1 = true) by exact (ext_wf _ _ _ _ W0 E).
      destruct (compatible m1 c) eqn:C1.
      * apply (compatible_spec m1 c W1) in C1. rewrite (Uy C1). now apply IH.
      * pose proof C1 as C1'. apply compatible_false_spec in C1; [|exact W1]. rewrite (Un C1).
        symmetry. apply join_ctx_incompat. intros m I.
        destruct (bgp_ext_inv g r m1 m W1 I) as [Wm S].
        destruct (compatible m c) eqn:Cm; [|reflexivity].
        apply (compatible_spec m c Wm) in Cm. destruct C1. eapply compat_sub_l; eauto.
    + rewrite U. reflexivity.
Qed.

Lemma bgp_pushdown g c ts :
  sol_wf c = true -> bgp_ext g c ts = join_ctx c (bgp_ext g [] ts).
Proof.
  intros Wc. rewrite <- (bgp_push g c ts []); [reflexivity|reflexivity|exact Wc|].
  intros v t u L. discriminate.
Qed.

(* ---- generic list facts ---- *)
Lemma flat_map_flat_map {A B C} (f : B -> list C) (g : A -> list B) l :
  flat_map f (flat_map g l) = flat_map (fun x => flat_map f (g x)) l.
Proof. induction l as [|a l IH]; cbn; [reflexivity|]. now rewrite flat_map_app, IH. Qed.

Lemma map_flat_map {A B C} (f : B -> C) (g : A -> list B) l :
  map f (flat_map g l) = flat_map (fun x => map f (g x)) l.
Proof. induction l as [|a l IH]; cbn; [reflexivity|]. now rewrite map_app, IH. Qed.

Lemma flat_map_ext_in {A B} (f g : A -> list B) l :
  (forall a, In a l -> f a = g a) -> flat_map f l = flat_map g l.
Proof.
  induction l as [|a l IH]; intros H; cbn; [reflexivity|].
  rewrite (H a) by now left. f_equal. apply IH. intros; apply H; now right.
Qed.

Definition all_wf (L : list sol) : Prop := forall m, In m L -> sol_wf m = true.

(* ---- lazy join ---- *)
Lemma lazy_join_elem c m1 m2 :
  sol_wf c = true -> sol_wf m1 = true -> sol_wf m2 = true ->
  (if compatible m1 c
   then map (fun b => merge b (merge c m1))
            (if compatible m2 (thaw c (merge c m1)) then [merge (thaw c (merge c m1)) m2] else [])
   else [])
  = (if compatible m1 m2
     then (if compatible (merge m1 m2) c then [merge c (merge m1 m2)] else [])
     else []).
Proof.
  intros Wc W1 W2.
  destruct (compatible m1 c) eqn:C1.
  - pose proof (proj1 (compatible_spec m1 c W1) C1) as P1.
    assert (Wa : sol_wf (merge c m1) = true) by (apply wf_merge, Wc).
    assert (Sa : sub_sol c (merge c m1)) by (apply sub_sol_merge_l; assumption).
    rewrite (thaw_ext c _ Sa).
    assert (K : compat_prop m2 (merge c m1) <-> compat_prop m2 c /\ compat_prop m2 m1).
    { apply compat_merge_iff; auto. now apply compat_prop_sym. }
    destruct (compatible m1 m2) eqn:C12.
    + pose proof (proj1 (compatible_spec m1 m2 W1) C12) as P12.
      assert (W12 : sol_wf (merge m1 m2) = true) by (apply wf_merge, W1).
      assert (K2 : compat_prop (merge m1 m2) c <-> compat_prop m2 c).
      { split.
        - intros H. eapply compat_sub_l; [apply (sub_sol_merge_r m1 m2 W2)|exact H].
        - intros H. apply compat_prop_sym. apply compat_merge_iff; auto.
          split; now apply compat_prop_sym. }
      destruct (compatible m2 (merge c m1)) eqn:C2a.
      * apply (compatible_spec _ _ W2) in C2a. apply K in C2a as [P2c _].
        rewrite (proj2 (compatible_spec _ _ W12) (proj2 K2 P2c)). cbn. f_equal.
        rewrite merge_absorb; [apply merge_assoc; auto| apply wf_merge, Wa | exact Wa |].
        apply sub_sol_merge_l; auto. apply (compatible_spec _ _ W2). apply K. split; [exact P2c|now apply compat_prop_sym].
      * destruct (compatible (merge m1 m2) c) eqn:C3; [|reflexivity].
        apply (compatible_spec _ _ W12) in C3. apply K2 in C3.
        assert (compat_prop m2 (merge c m1)) by (apply K; split; [exact C3|now apply compat_prop_sym]).
        apply (compatible_spec _ _ W2) in H. congruence.
    + destruct (compatible m2 (merge c m1)) eqn:C2a; [|reflexivity].
      apply (compatible_spec _ _ W2) in C2a. apply K in C2a as [_ P21].
      apply compat_prop_sym in P21. apply (compatible_spec _ _ W1) in P21. congruence.
  - destruct (compatible m1 m2) eqn:C12; [|reflexivity].
    assert (W12 : sol_wf (merge m1 m2) = true) by (apply wf_merge, W1).
    destruct (compatible (merge m1 m2) c) eqn:C3; [|reflexivity].
    apply (compatible_spec _ _ W12) in C3.
    assert (compat_prop m1 c).
    { eapply compat_sub_l; [|exact C3]. apply sub_sol_merge_l; auto.
      now rewrite compatible_sym. }
    apply (compatible_spec _ _ W1) in H. congruence.
Qed.

Lemma lazy_join_lists c L1 L2 :
  sol_wf c = true -> all_wf L1 -> all_wf L2 ->
  flat_map (fun a => map (fun b => merge b a) (join_ctx (thaw c a) L2)) (join_ctx c L1)
  = join_ctx c (join_lists L1 L2).
Proof.
  intros Wc A1 A2. unfold join_lists. rewrite join_ctx_flat_map.
  unfold join_ctx at 2. rewrite flat_map_flat_map.
  apply flat_map_ext_in. intros m1 I1.
  rewrite join_ctx_flat_map.
  transitivity (flat_map (fun m2 =>
     if compatible m1 c
     then map (fun b => merge b (merge c m1))
              (if compatible m2 (thaw c (merge c m1)) then [merge (thaw c (merge c m1)) m2] else [])
     else []) L2).
  - destruct (compatible m1 c).
    + cbn. rewrite app_nil_r. unfold join_ctx. now rewrite map_flat_map.
    + cbn. now rewrite flat_map_nil.
  - apply flat_map_ext_in. intros m2 I2.
    rewrite (lazy_join_elem c m1 m2 Wc (A1 _ I1) (A2 _ I2)).
    destruct (compatible m1 m2); [|reflexivity]. cbn. now rewrite app_nil_r.
Qed.
