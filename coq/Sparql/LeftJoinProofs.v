(* OPTIONAL: evalLeftJoin (push the left solution into the right operand, filter
   on b.forget(ctx), and - when nothing matched - the second evaluation under
   a.remember(p1._vars)) against the algebra's LeftJoin, for one left solution. *)
From RV Require Export Sparql.Nodup.
Local Open Scope N_scope.

Lemma map_id_in {A} (f : A -> A) l : (forall z, In z l -> f z = z) -> map f l = l.
Proof.
  induction l as [|a l IH]; intros H; cbn; [reflexivity|].
  rewrite (H a) by now left. f_equal. apply IH. intros; apply H; now right.
Qed.

Lemma existsb_in_iff {A} (f : A -> bool) l l' :
  (forall x, In x l <-> In x l') -> existsb f l = existsb f l'.
Proof.
  intros H. destruct (existsb f l) eqn:E1, (existsb f l') eqn:E2; try reflexivity.
  - apply existsb_exists in E1 as [x [I Fx]].
    assert (existsb f l' = true) by (apply existsb_exists; exists x; split; [now apply H|exact Fx]). congruence.
  - apply existsb_exists in E2 as [x [I Fx]].
    assert (existsb f l = true) by (apply existsb_exists; exists x; split; [now apply H|exact Fx]). congruence.
Qed.

Lemma join_ctx_filter_cond c (P : sol -> bool) L :
  join_ctx c (filter P L) = flat_map (fun m => if P m then (if compatible m c then [merge c m] else []) else []) L.
Proof. unfold join_ctx. apply flat_map_filter. Qed.

Lemma flat_map_map' {A B C} (f : A -> B) (g : B -> list C) l :
  flat_map g (map f l) = flat_map (fun x => g (f x)) l.
Proof. induction l as [|a l IH]; cbn; [reflexivity|]. now rewrite IH. Qed.

Section Piece.
  Variables (c x : sol) (B : list sol).
  Hypothesis Wc : sol_wf c = true.
  Hypothesis Wx : sol_wf x = true.
  Hypothesis WB : all_wf B.
  Hypothesis Cx : compatible x c = true.
  Variable fe : sol -> bool.                 (* the OPTIONAL's filter on x + y, bottom-up *)
  Let a0 := merge c x.
  Let Ys := filter (fun y => compatible x y && fe y) B.

  (* the matches seen by the first (pushed-down) evaluation = the bottom-up
     matches that are compatible with the context *)
  Lemma lj_first : join_ctx a0 (filter fe B) = join_ctx c (map (merge x) Ys).
  Proof.
    unfold Ys. rewrite join_ctx_filter_cond.
    unfold join_ctx. rewrite flat_map_map', flat_map_filter. apply flat_map_ext_in. intros y Iy.
    pose proof (join_elem_core c x y Wc Wx (WB _ Iy)) as E. rewrite Cx in E. fold a0 in E.
    assert (Wa : sol_wf a0 = true) by (apply wf_merge, Wc).
    rewrite (compatible_sym y a0 (WB _ Iy) Wa).
    destruct (fe y); [|now rewrite andb_false_r].
    rewrite andb_true_r. exact E.
  Qed.

  Variables (T1 T2 : list sol) (ftd1 ftd2 : sol -> bool).
  Hypothesis H1 : Permutation T1 (join_ctx a0 B).
  Hypothesis F1 : forall y, In y B -> compatible y a0 = true -> ftd1 (merge a0 y) = fe y.
  Variable pv : option (list var).
  Hypothesis HNone : pv = None -> c = [].
  Hypothesis H2 : pv <> None -> Permutation T2 (join_ctx x B).
  Hypothesis F2 : forall y, In y B -> compatible y x = true -> ftd2 (merge x y) = fe y.

  Lemma lj_second : pv <> None -> existsb ftd2 T2 = match Ys with [] => false | _ => true end.
  Proof.
    intros Np. rewrite (existsb_in_iff ftd2 T2 (join_ctx x B)).
    2:{ intros z. split; apply Permutation_in; [apply H2, Np|symmetry; apply H2, Np]. }
    destruct Ys as [|y0 ys] eqn:E.
    - destruct (existsb ftd2 (join_ctx x B)) eqn:Ex; [|reflexivity].
      apply existsb_exists in Ex as [z [Iz Fz]]. apply in_join_ctx in Iz as [y [Iy [Cy ->]]].
      rewrite (F2 y Iy Cy) in Fz.
      assert (In y Ys).
      { unfold Ys. apply filter_In. split; [exact Iy|]. rewrite (compatible_sym x y Wx (WB _ Iy)), Cy, Fz. reflexivity. }
      rewrite E in H. destruct H.
    - assert (Iy : In y0 Ys) by (rewrite E; now left). unfold Ys in Iy. apply filter_In in Iy as [Iy Cy].
      apply andb_true_iff in Cy as [Cy Fy]. rewrite (compatible_sym x y0 Wx (WB _ Iy)) in Cy.
      apply existsb_exists. exists (merge x y0). split.
      + unfold join_ctx. apply in_flat_map. exists y0. split; [exact Iy|]. rewrite Cy. now left.
      + now rewrite (F2 y0 Iy Cy).
  Qed.

  Lemma lj_piece_gen (second : list sol) :
    (Ys = [] -> second = [a0]) ->
    (Ys <> [] -> join_ctx c (map (merge x) Ys) = [] -> second = []) ->
    Permutation
      (match filter ftd1 T1 with
       | z :: r => map (fun b => merge b a0) (z :: r)
       | [] => second
       end)
      (join_ctx c (match Ys with [] => [x] | y0 :: ys => map (merge x) (y0 :: ys) end)).
  Proof.
    intros S0 S1.
    assert (Wa : sol_wf a0 = true) by (apply wf_merge, Wc).
    assert (P1 : Permutation (filter ftd1 T1) (join_ctx a0 (filter fe B))).
    { rewrite (Permutation_filter' ftd1 _ _ H1). apply Permutation_refl'. apply filter_join_ctx.
      intros y Iy Cy. now apply F1. }
    rewrite lj_first in P1.
    assert (Abs : forall z, In z (join_ctx c (map (merge x) Ys)) -> merge z a0 = z).
    { intros z Iz. rewrite <- lj_first in Iz. apply in_join_ctx in Iz as [y [Iy [Cy ->]]].
      apply filter_In in Iy as [Iy _].
      apply merge_absorb; [apply wf_merge, Wa|exact Wa|]. apply sub_sol_merge_l; auto. }
    destruct (filter ftd1 T1) as [|z r] eqn:Fl.
    - apply Permutation_nil in P1.
      destruct Ys as [|y0 ys] eqn:E.
      + rewrite (S0 eq_refl). rewrite join_ctx_cons, Cx. reflexivity.
      + rewrite S1; [|discriminate|exact P1]. now rewrite P1.
    - destruct Ys as [|y0 ys] eqn:E.
      + cbn in P1. apply Permutation_sym, Permutation_nil in P1. discriminate.
      + rewrite <- (map_id_in (fun b => merge b a0) (join_ctx c (map (merge x) (y0 :: ys)))) by exact Abs.
        apply Permutation_map. exact P1.
  Qed.
End Piece.

Lemma lj_piece c x B (Wc : sol_wf c = true) (Wx : sol_wf x = true) (WB : all_wf B)
      (Cx : compatible x c = true) fe T1 T2 ftd1 ftd2 (pv : option (list var)) :
  Permutation T1 (join_ctx (merge c x) B) ->
  (forall y, In y B -> compatible y (merge c x) = true -> ftd1 (merge (merge c x) y) = fe y) ->
  (pv = None -> c = []) ->
  (pv <> None -> Permutation T2 (join_ctx x B)) ->
  (forall y, In y B -> compatible y x = true -> ftd2 (merge x y) = fe y) ->
  Permutation
    (match filter ftd1 T1 with
     | z :: r => map (fun b => merge b (merge c x)) (z :: r)
     | [] => match pv with
             | None => [merge c x]
             | Some _ => if existsb ftd2 T2 then [] else [merge c x]
             end
     end)
    (join_ctx c (match filter (fun y => compatible x y && fe y) B with
                 | [] => [x] | y0 :: ys => map (merge x) (y0 :: ys) end)).
Proof.
  intros H1 F1 HNone H2 F2.
  apply (lj_piece_gen c x B Wc Wx WB Cx fe T1 ftd1 H1 F1).
  - intros E. destruct pv as [vs|]; [|reflexivity].
    rewrite (lj_second x B Wx WB fe T2 ftd2 (Some vs) H2 F2) by discriminate. now rewrite E.
  - intros Ne Z. destruct pv as [vs|].
    + rewrite (lj_second x B Wx WB fe T2 ftd2 (Some vs) H2 F2) by discriminate.
      destruct (filter _ B); [congruence|reflexivity].
    + exfalso. specialize (HNone eq_refl). subst c. rewrite join_ctx_nil in Z.
      * destruct (filter _ B); [congruence|discriminate].
      * intros m Im. apply in_map_iff in Im as [y [<- _]]. apply wf_merge, Wx.
Qed.
