(* THE SPECIFICATION: SPARQL 1.1 section 18 bottom-up evaluation of the algebra,
   multisets of solutions as lists (order irrelevant).  Definitions only. *)
From RV Require Export Sparql.Algebra.
Local Open Scope N_scope.

(* matching one triple pattern against one triple, extending a solution *)
Definition unify (c : sol) (x : tv) (t : term) : option sol :=
  match x with
  | Tm u => if N.eqb u t then Some c else None
  | Vr v => match lookup v c with
            | Some u => if N.eqb u t then Some c else None
            | None => Some (bind v t c)
            end
  end.

Definition ext (c : sol) (tp : tpat) (tr : triple) : option sol :=
  let '(s, p, o) := tp in
  let '(a, b, d) := tr in
  match unify c s a with
  | None => None
  | Some c1 => match unify c1 p b with
               | None => None
               | Some c2 => unify c2 o d
               end
  end.

(* all extensions of [c] that map every pattern of [ts] into [g] *)
Fixpoint bgp_ext (g : graph) (c : sol) (ts : list tpat) : list sol :=
  match ts with
  | [] => [c]
  | tp :: r => flat_map (fun tr => match ext c tp tr with
                                   | Some c' => bgp_ext g c' r
                                   | None => []
                                   end) g
  end.

(* ---- expression values: Some term, or None = error ---- *)

Definition lit_key (t : term) : N * N :=
  match kind_of t with KBool b => (0, if b then 1 else 0) | KInt z => (1, z) | KIri => (2, t) end.
Definition key_lt (a b : N * N) : bool :=
  N.ltb (fst a) (fst b) || (N.eqb (fst a) (fst b) && N.ltb (snd a) (snd b)).

Definition is_lit (t : term) : bool := match kind_of t with KIri => false | _ => true end.
Definition same_kind (a b : term) : bool :=
  match kind_of a, kind_of b with
  | KIri, KIri => true | KInt _, KInt _ => true | KBool _, KBool _ => true | _, _ => false
  end.

(* SPARQL 17.3 operator mapping on this vocabulary: = and != are RDFterm-equal
   unless both operands are literals (numeric / boolean equality; a type error
   for two literals of different kinds); < and > are defined for two numerics or
   two booleans only *)
Definition cmp_spec (op : cmpop) (a b : term) : option term :=
  match op with
  | OpEq => if is_lit a && is_lit b && negb (same_kind a b) then None else Some (t_bool (N.eqb a b))
  | OpNe => if is_lit a && is_lit b && negb (same_kind a b) then None else Some (t_bool (negb (N.eqb a b)))
  | OpLt => if is_lit a && is_lit b && same_kind a b then Some (t_bool (key_lt (lit_key a) (lit_key b))) else None
  | OpGt => if is_lit a && is_lit b && same_kind a b then Some (t_bool (key_lt (lit_key b) (lit_key a))) else None
  end.

Definition ebv_of (v : option term) : option bool :=
  match v with Some t => ebv_term t | None => None end.

(* three-valued connectives, SPARQL 17.2 *)
Definition and3 (a b : option bool) : option term :=
  match a, b with
  | Some false, _ | _, Some false => Some t_false
  | Some true, Some true => Some t_true
  | _, _ => None
  end.
Definition or3 (a b : option bool) : option term :=
  match a, b with
  | Some true, _ | _, Some true => Some t_true
  | Some false, Some false => Some t_false
  | _, _ => None
  end.
Definition not3 (a : option bool) : option term :=
  match a with Some b => Some (t_bool (negb b)) | None => None end.

(* IN: the || of the = comparisons (17.4.1.9) *)
Definition or3b (a b : option bool) : option bool :=
  match a, b with
  | Some true, _ | _, Some true => Some true
  | Some false, Some false => Some false
  | _, _ => None
  end.
Definition in3 (t : term) (cs : list term) : option bool :=
  fold_right (fun c acc => or3b (ebv_of (cmp_spec OpEq t c)) acc) (Some false) cs.

Definition cmp_lift (f : term -> term -> option term) (a b : option term) : option term :=
  match a, b with Some x, Some y => f x y | _, _ => None end.

Fixpoint eval_bu (ds : dataset) (g : graph) (p : alg) {struct p} : list sol :=
  match p with
  | BGP ts => bgp_ext g [] ts
  | Join _ p1 p2 => join_lists (eval_bu ds g p1) (eval_bu ds g p2)
  | LeftJoin _ p1 p2 e =>
      let B := eval_bu ds g p2 in
      flat_map (fun a =>
        match filter (fun b => compatible a b && ebv (expr_bu ds g (merge a b) e)) B with
        | [] => [a]
        | bs => map (merge a) bs
        end) (eval_bu ds g p1)
  | Filter _ _ e q => filter (fun m => ebv (expr_bu ds g m e)) (eval_bu ds g q)
  | Union p1 p2 => eval_bu ds g p1 ++ eval_bu ds g p2
  | Minus p1 p2 =>
      let B := eval_bu ds g p2 in
      filter (fun x => forallb (fun y => negb (compatible x y) || disjoint_dom x y) B) (eval_bu ds g p1)
  | Extend _ q v e =>
      map (fun m => match expr_bu ds g m e with
                    | Some t => match lookup v m with None => bind v t m | Some _ => m end
                    | None => m
                    end) (eval_bu ds g q)
  | Values rows => rows
  | Project q vs => map (restrict (fun v => memv v vs)) (eval_bu ds g q)
  | Graph (Tm t) q =>
      (* 18.5: the empty multiset when the IRI is not a graph name of the dataset *)
      if existsb (fun ng => N.eqb (fst ng) t) (ds_named ds)
      then eval_bu ds (named_graph (ds_named ds) t) q else []
  | Graph (Vr v) q =>
      flat_map (fun ng => join_lists (eval_bu ds (snd ng) q) [[(v, fst ng)]]) (ds_named ds)
  | Distinct q => dedup (eval_bu ds g q)
  | Slice n q =>
      (* 18.5 Slice on a sequence whose order nothing fixes (no ORDER BY in this
         algebra): the specification takes the list order of this evaluation; cases
         are generated only where the observed answer does not depend on that choice *)
      skipn (N.to_nat n) (eval_bu ds g q)
  end
with expr_bu (ds : dataset) (g : graph) (m : sol) (e : expr) {struct e} : option term :=
  match e with
  | EVar v => lookup v m
  | ECon t => Some t
  | ECmp op a b => cmp_lift (cmp_spec op) (expr_bu ds g m a) (expr_bu ds g m b)
  | EAnd a b => and3 (ebv_of (expr_bu ds g m a)) (ebv_of (expr_bu ds g m b))
  | EOr a b => or3 (ebv_of (expr_bu ds g m a)) (ebv_of (expr_bu ds g m b))
  | ENot a => not3 (ebv_of (expr_bu ds g m a))
  | EBound v => Some (t_bool (match lookup v m with Some _ => true | None => false end))
  | EExists pos p =>
      (* 18.6 exists(pattern): the pattern is evaluated with the variables of the
         current solution substituted; read here as: some solution of the pattern
         is compatible with the current one, and a filter at the top of the pattern
         sees the merged solution - whatever annotation rdflib put on that filter
         (the specification does not read no_isolated_scope).  Not full
         substitution: a filter / BIND / MINUS deeper inside the pattern does not
         see the outer solution here; rdflib does not show it to them either. *)
      let found :=
        match p with
        | Filter _ _ e' q =>
            existsb (fun m' => compatible m' m && ebv (expr_bu ds g (merge m' m) e')) (eval_bu ds g q)
        | _ => existsb (fun m' => compatible m' m) (eval_bu ds g p)
        end in
      Some (t_bool (Bool.eqb pos found))
  | EIn pos a cs =>
      match expr_bu ds g m a with
      | None => None
      | Some t => match in3 t cs with None => None | Some b => Some (t_bool (Bool.eqb pos b)) end
      end
  | ECoalesce a b => match expr_bu ds g m a with Some t => Some t | None => expr_bu ds g m b end
  | EIf c a b =>
      match ebv_of (expr_bu ds g m c) with
      | None => None
      | Some true => expr_bu ds g m a
      | Some false => expr_bu ds g m b
      end
  end.

Definition spec_rows (c : case) : list sol := eval_bu (c_ds c) (ds_default (c_ds c)) (c_alg c).

(* the boolean specification checker: the observed answer is the one the
   bottom-up semantics defines (solutions as a multiset, ASK as non-emptiness,
   CONSTRUCT as the set of instantiated template triples) *)
Definition spec_ok (c : case) (o : obs) : bool := obs_eqb (answer (c_form c) (spec_rows c)) o.
