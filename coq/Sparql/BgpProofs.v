(* Basic graph patterns: rdflib's evalBGP computes the extensions of the incoming
   context that map every pattern into the graph, independently of the order of
   the triple patterns (so the static reorderTriples and the run-time sort of
   evalPart cannot change the multiset of solutions). *)
From RV Require Export Sparql.SolLemmas.
Local Open Scope N_scope.

Definition obind {A B} (o : option A) (f : A -> option B) : option B :=
  match o with Some a => f a | None => None end.

Lemma unify_wf c x t c' : sol_wf c = true -> unify c x t = Some c' -> sol_wf c' = true.
Proof.
  intros W. destruct x as [u|v]; cbn.
  - destruct (N.eqb u t); intros [= <-]; exact W.
  - destruct (lookup v c) as [u|].
    + destruct (N.eqb u t); intros [= <-]; exact W.
    + intros [= <-]. apply wf_bind, W.
Qed.

Definition sub_sol (c c1 : sol) : Prop := forall v u, lookup v c = Some u -> lookup v c1 = Some u.

Lemma unify_sub c x t c' : unify c x t = Some c' -> sub_sol c c'.
Proof.
  destruct x as [u|v]; cbn.
  - destruct (N.eqb u t); intros [= <-] ? ? H; exact H.
  - destruct (lookup v c) as [u|] eqn:L.
    + destruct (N.eqb u t); intros [= <-] ? ? H; exact H.
    + intros [= <-] w u H. rewrite lookup_bind.
      destruct (N.eqb w v) eqn:E; [apply N.eqb_eq in E; subst; congruence|exact H].
Qed.

Lemma unify_comm c x a y b :
  sol_wf c = true ->
  obind (unify c x a) (fun c1 => unify c1 y b) = obind (unify c y b) (fun c1 => unify c1 x a).
Proof.
  intros W. destruct x as [u|v], y as [u'|w]; cbn.
  - destruct (N.eqb u a), (N.eqb u' b); reflexivity.
  - destruct (N.eqb u a); cbn.
    + destruct (lookup w c) as [z|]; [destruct (N.eqb z b)|]; cbn; try reflexivity.
      all: cbn; now rewrite ?N.eqb_refl.
    + destruct (lookup w c) as [z|]; [destruct (N.eqb z b)|]; reflexivity.
  - destruct (N.eqb u' b); cbn.
    + destruct (lookup v c) as [z|]; [destruct (N.eqb z a)|]; reflexivity.
    + destruct (lookup v c) as [z|]; [destruct (N.eqb z a)|]; reflexivity.
  - destruct (N.eqb v w) eqn:E.
    + apply N.eqb_eq in E; subst w.
      destruct (lookup v c) as [z|] eqn:L; cbn.
      * destruct (N.eqb z a) eqn:Ea, (N.eqb z b) eqn:Eb; cbn; rewrite ?L, ?Ea, ?Eb; reflexivity.
      * rewrite !lookup_bind_same.
        destruct (N.eqb a b) eqn:Eab.
        -- apply N.eqb_eq in Eab; subst. now rewrite N.eqb_refl.
        -- rewrite N.eqb_sym, Eab. reflexivity.
    + assert (D : v <> w) by (intros ->; now rewrite N.eqb_refl in E).
      destruct (lookup v c) as [z|] eqn:Lv, (lookup w c) as [z'|] eqn:Lw; cbn.
      * destruct (N.eqb z a) eqn:Ea, (N.eqb z' b) eqn:Eb; cbn; rewrite ?Lv, ?Lw, ?Ea, ?Eb; try reflexivity.
      * destruct (N.eqb z a) eqn:Ea; cbn; rewrite ?Lw; cbn.
        -- rewrite lookup_bind_other by congruence. rewrite Lv, Ea. reflexivity.
        -- rewrite lookup_bind_other by congruence. rewrite Lv, Ea. reflexivity.
      * rewrite lookup_bind_other by congruence. rewrite Lw.
        destruct (N.eqb z' b) eqn:Eb; cbn; rewrite ?Lv; cbn; rewrite ?lookup_bind_other, ?Lw, ?Eb by congruence; reflexivity.
      * rewrite !lookup_bind_other by congruence. rewrite Lv, Lw.
        f_equal. apply bind_comm; [exact W|congruence].
Qed.

Fixpoint unifyl (c : sol) (l : list (tv * term)) : option sol :=
  match l with
  | [] => Some c
  | (x, t) :: r => obind (unify c x t) (fun c' => unifyl c' r)
  end.

Lemma unifyl_app c l1 l2 : unifyl c (l1 ++ l2) = obind (unifyl c l1) (fun c' => unifyl c' l2).
Proof.
  revert c. induction l1 as [|[x t] r IH]; intros c; cbn; [reflexivity|].
  destruct (unify c x t); cbn; [apply IH|reflexivity].
Qed.

Lemma unifyl_wf c l c' : sol_wf c = true -> unifyl c l = Some c' -> sol_wf c' = true.
Proof.
  revert c. induction l as [|[x t] r IH]; intros c W; cbn.
  - intros [= <-]; exact W.
  - destruct (unify c x t) eqn:U; cbn; [|discriminate]. apply IH. eapply unify_wf; eauto.
Qed.

Lemma unifyl_perm c l l' : sol_wf c = true -> Permutation l l' -> unifyl c l = unifyl c l'.
Proof.
  intros W P. revert c W. induction P; intros c W.
  - reflexivity.
  - destruct x as [x t]. cbn. destruct (unify c x t) eqn:U; cbn; [|reflexivity].
    apply IHP. eapply unify_wf; eauto.
  - destruct x as [x a], y as [y b]. cbn.
    pose proof (unify_comm c y b x a W) as H.
    destruct (unify c y b) as [c1|] eqn:U1, (unify c x a) as [c2|] eqn:U2; cbn in *.
    + destruct (unify c1 x a) as [c3|], (unify c2 y b) as [c4|]; cbn; try congruence.
    + rewrite H. reflexivity.
    + rewrite <- H. reflexivity.
    + reflexivity.
  - rewrite IHP1 by exact W. apply IHP2. exact W.
Qed.

Definition tp_list (tp : tpat) (tr : triple) : list (tv * term) :=
  let '(s, p, o) := tp in let '(a, b, d) := tr in [(s, a); (p, b); (o, d)].

Lemma ext_unifyl c tp tr : ext c tp tr = unifyl c (tp_list tp tr).
Proof.
  destruct tp as [[s p] o], tr as [[a b] d]. cbn.
  destruct (unify c s a); cbn; [|reflexivity].
  destruct (unify s0 p b); cbn; [|reflexivity].
  destruct (unify s1 o d); reflexivity.
Qed.

Lemma ext_wf c tp tr c' : sol_wf c = true -> ext c tp tr = Some c' -> sol_wf c' = true.
Proof. rewrite ext_unifyl. apply unifyl_wf. Qed.

Lemma ext2_comm c t1 tr1 t2 tr2 :
  sol_wf c = true ->
  obind (ext c t1 tr1) (fun c1 => ext c1 t2 tr2) = obind (ext c t2 tr2) (fun c1 => ext c1 t1 tr1).
Proof.
  intros W.
  transitivity (unifyl c (tp_list t1 tr1 ++ tp_list t2 tr2)).
  - rewrite unifyl_app, <- ext_unifyl. destruct (ext c t1 tr1); cbn; [apply ext_unifyl|reflexivity].
  - rewrite (unifyl_perm c _ (tp_list t2 tr2 ++ tp_list t1 tr1) W) by apply Permutation_app_comm.
    rewrite unifyl_app, <- ext_unifyl. destruct (ext c t2 tr2); cbn; [symmetry; apply ext_unifyl|reflexivity].
Qed.

Lemma flat_map_nil {A B} (l : list A) : flat_map (fun _ => @nil B) l = [].
Proof. induction l; cbn; auto. Qed.

Lemma bgp_ext_swap g c t1 t2 r :
  sol_wf c = true -> Permutation (bgp_ext g c (t1 :: t2 :: r)) (bgp_ext g c (t2 :: t1 :: r)).
Proof.
  intros W.
  set (F := fun (x y : tpat) (tra trb : triple) =>
              match obind (ext c x tra) (fun c1 => ext c1 y trb) with
              | Some c2 => bgp_ext g c2 r | None => [] end).
  assert (E : forall x y, bgp_ext g c (x :: y :: r)
                          = flat_map (fun tra => flat_map (fun trb => F x y tra trb) g) g).
  { intros x y. cbn. apply flat_map_ext. intros tra. unfold F.
    destruct (ext c x tra); cbn; [reflexivity|]. now rewrite flat_map_nil. }
  rewrite (E t1 t2), (E t2 t1), flat_map_swap.
  apply Permutation_refl'. apply flat_map_ext; intros trb. apply flat_map_ext; intros tra.
  unfold F. now rewrite ext2_comm.
Qed.

(* order independence: C15_bgp_perm, and the core of C04_bgp *)
Lemma bgp_ext_perm g ts ts' :
  Permutation ts ts' -> forall c, sol_wf c = true -> Permutation (bgp_ext g c ts) (bgp_ext g c ts').
Proof.
  induction 1; intros c W.
  - reflexivity.
  - cbn. apply flat_map_perm_pointwise. intros tr _.
    destruct (ext c x tr) eqn:E; [|constructor]. apply IHPermutation. eapply ext_wf; eauto.
  - apply bgp_ext_swap, W.
  - rewrite IHPermutation1 by exact W. apply IHPermutation2, W.
Qed.

(* ---- rdflib's evalBGP is bgp_ext ---- *)

Definition step_td (_x : option term) (c1 : sol) (x : tv) (t : term) : option sol :=
  if pos_ok _x t then match _x with None => set_item c1 x t | Some _ => Some c1 end else None.

Lemma step_td_unify c c1 x t : sub_sol c c1 -> step_td (ctx_get c x) c1 x t = unify c1 x t.
Proof.
  intros S. unfold step_td. destruct x as [u|v]; cbn.
  - destruct (N.eqb u t); reflexivity.
  - destruct (lookup v c) as [u|] eqn:L; cbn.
    + rewrite (S _ _ L). destruct (N.eqb u t); reflexivity.
    + reflexivity.
Qed.

Lemma sub_sol_refl c : sub_sol c c. Proof. intros ? ? H; exact H. Qed.
Lemma sub_sol_trans a b c : sub_sol a b -> sub_sol b c -> sub_sol a c.
Proof. intros H1 H2 v u H. apply H2, H1, H. Qed.

Lemma flat_map_filter {A B} (f : A -> list B) P l :
  flat_map f (filter P l) = flat_map (fun x => if P x then f x else []) l.
Proof.
  induction l as [|a l IH]; cbn; [reflexivity|].
  destruct (P a); cbn; now rewrite IH.
Qed.

Lemma eval_bgp_ext g c ts : eval_bgp g c ts = bgp_ext g c ts.
Proof.
  revert c. induction ts as [|[[s p] o] r IH]; intros c; [reflexivity|].
  cbn [eval_bgp bgp_ext]. unfold g_triples. rewrite flat_map_filter.
  apply flat_map_ext. intros [[a b] d].
  transitivity (match obind (step_td (ctx_get c s) c s a)
                        (fun c1 => obind (step_td (ctx_get c p) c1 p b)
                                         (fun c2 => step_td (ctx_get c o) c2 o d)) with
                | Some c3 => eval_bgp g c3 r | None => [] end).
  { unfold step_td.
    destruct (pos_ok (ctx_get c s) a) eqn:Ps; cbn.
    2:{ reflexivity. }
    destruct (match ctx_get c s with None => set_item c s a | Some _ => Some c end) as [c1|]; cbn.
    2:{ destruct (pos_ok (ctx_get c p) b && pos_ok (ctx_get c o) d); reflexivity. }
    destruct (pos_ok (ctx_get c p) b) eqn:Pp; cbn.
    2:{ reflexivity. }
    destruct (match ctx_get c p with None => set_item c1 p b | Some _ => Some c1 end) as [c2|]; cbn.
    2:{ destruct (pos_ok (ctx_get c o) d); reflexivity. }
    destruct (pos_ok (ctx_get c o) d) eqn:Po; cbn; [|reflexivity].
    destruct (match ctx_get c o with None => set_item c2 o d | Some _ => Some c2 end); reflexivity. }
  cbn [ext].
  rewrite (step_td_unify c c s a (sub_sol_refl c)).
  destruct (unify c s a) as [c1|] eqn:U1; cbn; [|reflexivity].
  pose proof (unify_sub _ _ _ _ U1) as S1.
  rewrite (step_td_unify c c1 p b S1).
  destruct (unify c1 p b) as [c2|] eqn:U2; cbn; [|reflexivity].
  pose proof (sub_sol_trans _ _ _ S1 (unify_sub _ _ _ _ U2)) as S2.
  rewrite (step_td_unify c c2 o d S2).
  destruct (unify c2 o d); [apply IH|reflexivity].
Qed.

Lemma sort_ts_perm c ts : Permutation (sort_ts c ts) ts.
Proof.
  induction ts as [|t r IH]; cbn; [constructor|].
  set (ins := fix ins (l' : list tpat) : list tpat :=
     match l' with
     | [] => [t]
     | u :: r' => if N.leb (unbound_count c t) (unbound_count c u) then t :: l' else u :: ins r'
     end).
  assert (H : forall l, Permutation (ins l) (t :: l)).
  { induction l as [|u l IHl]; cbn; [constructor; constructor|].
    destruct (N.leb _ _); [reflexivity|]. rewrite IHl. constructor. }
  rewrite H. now constructor.
Qed.

(* C04_bgp, first half: whatever the order of the triple patterns (and whatever
   order the run-time sort of evalPart chooses), the top-down BGP evaluation
   under a context is a permutation of the extensions of that context *)
Theorem td_bgp_any_order g c ts ts' :
  sol_wf c = true -> Permutation ts ts' ->
  Permutation (eval_td {| ds_default := g; ds_named := [] |} g c (BGP ts')) (bgp_ext g c ts).
Proof.
  intros W P. cbn [eval_td]. rewrite eval_bgp_ext.
  apply bgp_ext_perm; [|exact W].
  rewrite sort_ts_perm. symmetry. exact P.
Qed.
