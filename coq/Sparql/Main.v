(* C04_pushdown: on the fragment, evaluating top-down under a context is the
   bottom-up evaluation restricted to the solutions compatible with the context. *)
From RV Require Export Sparql.Fragment.
Local Open Scope N_scope.

(* the join of (a context-extended solution) with a further solution *)
Lemma join_elem_core c m1 m2 :
  sol_wf c = true -> sol_wf m1 = true -> sol_wf m2 = true ->
  (if compatible m1 c
   then (if compatible (merge c m1) m2 then [merge (merge c m1) m2] else [])
   else [])
  = (if compatible m1 m2
     then (if compatible (merge m1 m2) c then [merge c (merge m1 m2)] else [])
     else []).
Proof.
  intros Wc W1 W2. rewrite <- (lazy_join_elem c m1 m2 Wc W1 W2).
  destruct (compatible m1 c) eqn:C1; [|reflexivity].
  assert (Wa : sol_wf (merge c m1) = true) by (apply wf_merge, Wc).
  rewrite (thaw_ext c (merge c m1)) by (apply sub_sol_merge_l; assumption).
  rewrite (compatible_sym (merge c m1) m2 Wa W2).
  destruct (compatible m2 (merge c m1)) eqn:C2; [|reflexivity]. cbn. f_equal.
  symmetry. apply merge_absorb; [apply wf_merge, Wa|exact Wa|].
  apply sub_sol_merge_l; assumption.
Qed.

Lemma join_single_ctx c A y :
  sol_wf c = true -> all_wf A -> sol_wf y = true ->
  join_lists (join_ctx c A) [y] = join_ctx c (join_lists A [y]).
Proof.
  intros Wc WA Wy. unfold join_lists. rewrite join_ctx_flat_map.
  unfold join_ctx at 1. rewrite flat_map_flat_map.
  apply flat_map_ext_in. intros m I. cbn [flat_map]. rewrite !app_nil_r.
  pose proof (join_elem_core c m y Wc (WA _ I) Wy) as E.
  destruct (compatible m c); cbn [flat_map]; rewrite ?app_nil_r.
  - rewrite E. destruct (compatible m y); [|reflexivity]. cbn. now rewrite app_nil_r.
  - destruct (compatible m y); [|reflexivity]. cbn. rewrite app_nil_r. exact E.
Qed.

(* GRAPH ?v with ?v already bound to t by the context *)
Lemma graph_bound_other c A v n t :
  sol_wf c = true -> all_wf A -> lookup v c = Some t -> n <> t ->
  join_ctx c (join_lists A [[(v, n)]]) = [].
Proof.
  intros Wc WA L D. apply join_ctx_incompat. intros m I.
  apply in_join_lists in I as [x [y [Ix [[<-|[]] [C ->]]]]].
  assert (W : sol_wf (merge x [(v, n)]) = true) by (apply wf_merge, WA, Ix).
  destruct (compatible (merge x [(v, n)]) c) eqn:E; [|reflexivity].
  apply (compatible_spec _ _ W) in E. destruct D.
  apply (E v n t); [|exact L]. rewrite lookup_merge by reflexivity. cbn. now rewrite N.eqb_refl.
Qed.

Lemma graph_bound_same c A v t :
  sol_wf c = true -> all_wf A -> lookup v c = Some t ->
  join_ctx c (join_lists A [[(v, t)]]) = join_ctx c A.
Proof.
  intros Wc WA L. unfold join_lists. rewrite join_ctx_flat_map. unfold join_ctx at 2.
  apply flat_map_ext_in. intros m I. cbn [flat_map]. rewrite app_nil_r.
  assert (Wm := WA _ I). assert (Wy : sol_wf [(v, t)] = true) by reflexivity.
  assert (Sy : sub_sol [(v, t)] c).
  { intros w u H. cbn in H. destruct (N.eqb w v) eqn:E; [|discriminate].
    apply N.eqb_eq in E; subst. now injection H as <-. }
  destruct (compatible m c) eqn:Cm.
  - pose proof (proj1 (compatible_spec _ _ Wm) Cm) as Pm.
    assert (Cy : compatible m [(v, t)] = true).
    { apply (compatible_spec _ _ Wm). eapply compat_sub; eauto. }
    rewrite Cy. rewrite join_ctx_cons. change (join_ctx c []) with (@nil sol). rewrite app_nil_r.
    assert (W2 : sol_wf (merge m [(v, t)]) = true) by (apply wf_merge, Wm).
    assert (C2 : compatible (merge m [(v, t)]) c = true).
    { apply (compatible_spec _ _ W2). apply compat_prop_sym. apply compat_merge_iff; auto.
      - apply (compatible_spec _ _ Wm). exact Cy.
      - split; [now apply compat_prop_sym|]. intros w a b H1 H2. apply Sy in H2. congruence. }
    rewrite C2. f_equal.
    rewrite <- merge_assoc by assumption. apply merge_absorb; [apply wf_merge, Wc|exact Wy|].
    eapply sub_sol_trans; [exact Sy|]. apply sub_sol_merge_l; assumption.
  - destruct (compatible m [(v, t)]) eqn:Cy; [|reflexivity].
    rewrite join_ctx_cons. change (join_ctx c []) with (@nil sol). rewrite app_nil_r.
    assert (W2 : sol_wf (merge m [(v, t)]) = true) by (apply wf_merge, Wm).
    destruct (compatible (merge m [(v, t)]) c) eqn:C2; [|reflexivity].
    apply (compatible_spec _ _ W2) in C2.
    assert (compat_prop m c).
    { eapply compat_sub_l; [|exact C2]. apply sub_sol_merge_l; auto. now rewrite compatible_sym. }
    apply (compatible_spec _ _ Wm) in H. congruence.
Qed.

Lemma named_graph_absent named t :
  existsb (fun ng : N * graph => N.eqb (fst ng) t) named = false -> named_graph named t = [].
Proof.
  induction named as [|[n gr] r IH]; cbn; [reflexivity|].
  destruct (N.eqb n t); cbn; [discriminate|exact IH].
Qed.

Lemma existsb_names named t :
  existsb (N.eqb t) (map fst named) = existsb (fun ng : N * graph => N.eqb (fst ng) t) named.
Proof.
  induction named as [|[n gr] r IH]; cbn; [reflexivity|]. now rewrite IH, (N.eqb_sym t n).
Qed.

Lemma flat_map_all_nil {A B} (F : A -> list B) l : (forall a, In a l -> F a = []) -> flat_map F l = [].
Proof.
  induction l as [|a l IH]; intros H; cbn; [reflexivity|].
  rewrite (H a) by now left. apply IH. intros; apply H; now right.
Qed.

Lemma flat_map_named {B} (F : term * graph -> list B) (X : graph -> list B) named t :
  NoDup (map fst named) ->
  (forall ng, In ng named -> fst ng <> t -> F ng = []) ->
  (forall ng, In ng named -> fst ng = t -> F ng = X (snd ng)) ->
  flat_map F named
  = if existsb (fun ng : N * graph => N.eqb (fst ng) t) named then X (named_graph named t) else [].
Proof.
  induction named as [|[n gr] r IH]; intros ND H0 H1; cbn; [reflexivity|].
  inversion ND as [|? ? Nin ND']; subst.
  destruct (N.eqb n t) eqn:E; cbn.
  - apply N.eqb_eq in E; subst n. rewrite (H1 (t, gr)) by (auto; now left). cbn.
    assert (Z : flat_map F r = []).
    { apply flat_map_all_nil. intros ng I. apply H0; [now right|].
      intros E. apply Nin. rewrite <- E. now apply in_map. }
    now rewrite Z, app_nil_r.
  - rewrite (H0 (n, gr)); [|now left|cbn; intros ->; now rewrite N.eqb_refl in E]. cbn.
    apply IH; auto.
    + intros; apply H0; auto. now right.
    + intros; apply H1; auto. now right.
Qed.

Lemma join_ctx_nil L : all_wf L -> join_ctx [] L = L.
Proof.
  induction L as [|m L IH]; intros W; [reflexivity|].
  rewrite join_ctx_cons, compatible_nil_r. rewrite merge_nil_l by (apply W; now left).
  cbn [app]. f_equal. apply IH. intros x I; apply W; now right.
Qed.

