(* Reading of the specification checker at Prop level, compositional facts of the
   top-down evaluator, and the (partial) agreement theorem. *)
From RV Require Export Sparql.BgpProofs Sparql.Findings.
Local Open Scope N_scope.

(* ---- reflection ---- *)
Lemma sol_eqb_eq a b : sol_eqb a b = true <-> a = b.
Proof.
  revert b. induction a as [|[v t] r IH]; intros [|[w u] s]; cbn; split; try congruence; try reflexivity.
  - intros H. apply andb_true_iff in H as [H1 H2]. unfold pair_eqb in H1. cbn in H1.
    apply andb_true_iff in H1 as [A B]. apply N.eqb_eq in A, B. subst. f_equal. now apply IH.
  - intros [= -> -> ->]. unfold pair_eqb; cbn. rewrite !N.eqb_refl. cbn. now apply IH.
Qed.

Lemma remove_one_perm x l l' : remove_one x l = Some l' -> Permutation l (x :: l').
Proof.
  revert l'. induction l as [|y r IH]; intros l'; cbn; [discriminate|].
  destruct (sol_eqb x y) eqn:E.
  - apply sol_eqb_eq in E; subst. intros [= <-]. reflexivity.
  - destruct (remove_one x r) as [r'|]; [|discriminate]. intros [= <-].
    rewrite (IH r' eq_refl). apply perm_swap.
Qed.

Lemma remove_one_in x l : In x l -> exists l', remove_one x l = Some l'.
Proof.
  induction l as [|y r IH]; cbn; [tauto|]. intros [->|H].
  - rewrite (proj2 (sol_eqb_eq x x) eq_refl). eauto.
  - destruct (sol_eqb x y); [eauto|]. destruct (IH H) as [r' ->]. eauto.
Qed.

Lemma msol_eqb_perm a b : msol_eqb a b = true <-> Permutation a b.
Proof.
  revert b. induction a as [|x r IH]; intros b; cbn.
  - destruct b; split; try congruence; try reflexivity.
    intros H. apply Permutation_nil in H. discriminate.
  - split.
    + destruct (remove_one x b) as [b'|] eqn:R; [|discriminate]. intros H.
      apply IH in H. rewrite (remove_one_perm _ _ _ R). now constructor.
    + intros P. assert (I : In x b) by (eapply Permutation_in; [exact P|now left]).
      destruct (remove_one_in _ _ I) as [b' R]. rewrite R. apply IH.
      apply Permutation_cons_inv with (a := x). rewrite P. apply remove_one_perm, R.
Qed.

(* what the checker says for SELECT: the observed rows are, as a multiset, the
   bottom-up solutions *)
Lemma spec_ok_select c rows :
  c_form c = FSelect -> (spec_ok c (RSel rows) = true <-> Permutation (spec_rows c) rows).
Proof. intros F. unfold spec_ok. rewrite F. cbn. apply msol_eqb_perm. Qed.

Lemma spec_ok_ask c b :
  c_form c = FAsk -> (spec_ok c (RAsk b) = true <-> (b = true <-> spec_rows c <> [])).
Proof.
  intros F. unfold spec_ok. rewrite F. cbn. destruct (spec_rows c), b; cbn; split; intros H; try reflexivity; try discriminate.
  - destruct H as [H _]. now specialize (H eq_refl).
  - split; congruence.
  - split; congruence.
  - destruct H as [_ H]. assert (X : s :: l <> []) by discriminate. specialize (H X). discriminate.
Qed.

Lemma triple_eqb_eq a b : triple_eqb a b = true <-> a = b.
Proof.
  destruct a as [[a1 a2] a3], b as [[b1 b2] b3]; cbn.
  rewrite !andb_true_iff, !N.eqb_eq. split; [intros [[-> ->] ->]; reflexivity|intros [= -> -> ->]; auto].
Qed.

Lemma mem_triple_in t g : mem_triple t g = true <-> In t g.
Proof.
  unfold mem_triple. rewrite existsb_exists. split.
  - intros [x [I E]]. apply triple_eqb_eq in E. now subst.
  - intros I. exists t. split; [exact I|]. now apply triple_eqb_eq.
Qed.

Lemma graph_seteqb_iff a b : graph_seteqb a b = true <-> (forall t, In t a <-> In t b).
Proof.
  unfold graph_seteqb, graph_incl. rewrite andb_true_iff, !forallb_forall. split.
  - intros [H1 H2] t. split; intros I; [apply mem_triple_in, H1, I|apply mem_triple_in, H2, I].
  - intros H. split; intros t I; apply mem_triple_in, H, I.
Qed.

Lemma spec_ok_construct c tpl g :
  c_form c = FConstruct tpl ->
  (spec_ok c (RCons g) = true <-> (forall t, In t (fill_template tpl (spec_rows c)) <-> In t g)).
Proof. intros F. unfold spec_ok. rewrite F. cbn. apply graph_seteqb_iff. Qed.

Lemma perm_filter_map {A B} (f : B -> bool) (h : A -> B) L L' :
  Permutation L L' -> Permutation (filter f (map h L)) (filter f (map h L')).
Proof.
  induction 1; cbn.
  - constructor.
  - destruct (f (h x)); [now constructor|assumption].
  - destruct (f (h x)), (f (h y)); try reflexivity. apply perm_swap.
  - etransitivity; eauto.
Qed.

(* permuted rows give the same answer *)
Lemma answer_perm f L L' : Permutation L L' -> obs_eqb (answer f L) (answer f L') = true.
Proof.
  intros P. destruct f; cbn.
  - now apply msol_eqb_perm.
  - destruct L, L'; cbn; try reflexivity.
    + apply Permutation_nil in P. discriminate.
    + symmetry in P. apply Permutation_nil in P. discriminate.
  - apply graph_seteqb_iff. intros t. unfold fill_template. rewrite !in_flat_map.
    split; intros [m [I H]]; exists m; (split; [|exact H]).
    + eapply Permutation_in; eauto.
    + eapply Permutation_in; [symmetry; exact P|exact I].
  - apply msol_eqb_perm. now apply perm_filter_map.
Qed.

(* ---- compositional facts ---- *)

(* the push-down reading of an incoming context: the bottom-up solutions
   compatible with it, merged with it *)
Definition join_ctx (c : sol) (L : list sol) : list sol :=
  flat_map (fun m => if compatible m c then [merge c m] else []) L.

Lemma join_ctx_app c A B : join_ctx c (A ++ B) = join_ctx c A ++ join_ctx c B.
Proof. apply flat_map_app. Qed.

Lemma join_ctx_perm c A B : Permutation A B -> Permutation (join_ctx c A) (join_ctx c B).
Proof. apply Permutation_flat_map. Qed.

(* C04_union: evalUnion preserves the push-down reading *)
Lemma td_union ds g c p1 p2 :
  Permutation (eval_td ds g c p1) (join_ctx c (eval_bu ds g p1)) ->
  Permutation (eval_td ds g c p2) (join_ctx c (eval_bu ds g p2)) ->
  Permutation (eval_td ds g c (Union p1 p2)) (join_ctx c (eval_bu ds g (Union p1 p2))).
Proof. intros H1 H2. cbn [eval_td eval_bu]. rewrite join_ctx_app. now apply Permutation_app. Qed.

(* evalValues is the push-down reading of the table, literally *)
Lemma td_values ds g c rows : eval_td ds g c (Values rows) = join_ctx c (eval_bu ds g (Values rows)).
Proof. reflexivity. Qed.

Lemma join_lists_perm_l A A' B : Permutation A A' -> Permutation (join_lists A B) (join_lists A' B).
Proof. apply Permutation_flat_map. Qed.

(* ---- the findings: concrete witnesses (evaluated) ---- *)
Definition W (alg : alg) (d : graph) : case :=
  {| c_ds := {| ds_default := d; ds_named := [] |}; c_form := FSelect; c_alg := alg |}.

(* F-C04-1  { ?1 p ?2 . { BIND(1 AS ?2) } } *)
Definition w1 := W (Project (Join true (BGP [(Vr 1, Tm 4, Vr 2)]) (Extend (Some [2]) (BGP []) 2 (ECon 11))) [1; 2]) [(1, 4, 2)].
(* F-C04-2  { ?1 p ?2 . { ?3 q ?4 MINUS { b p c } } } *)
Definition w2 := W (Project (Join true (BGP [(Vr 1, Tm 4, Vr 2)]) (Minus (BGP [(Vr 3, Tm 5, Vr 4)]) (BGP [(Tm 2, Tm 4, Tm 3)]))) [1; 2; 3; 4])
                   [(1, 4, 2); (1, 5, 3); (2, 4, 3)].
(* F-C04-3 (repaired by 3512ad97; the witness now passes, see w3_repaired)  { ?1 p ?2 . { ?1 p ?3 } VALUES ?4 { 1 1 } } *)
Definition w3 := W (Project (Join false (Join true (BGP [(Vr 1, Tm 4, Vr 2)]) (BGP [(Vr 1, Tm 4, Vr 3)])) (Values [[(4, 11)]; [(4, 11)]])) [1; 2; 3; 4])
                   [(1, 4, 2)].
(* F-C04-4  { ?1 p ?2 . { SELECT ?2 { ?1 q ?2 } } } *)
Definition w4 := W (Project (Join true (BGP [(Vr 1, Tm 4, Vr 2)]) (Project (BGP [(Vr 1, Tm 5, Vr 2)]) [2])) [1; 2])
                   [(1, 4, 2); (3, 5, 2)].
(* F-C04-6  { VALUES ?1 { a } OPTIONAL { ?1 p ?2 } } *)
Definition w6 := W (Project (LeftJoin (Some []) (Values [[(1, 1)]]) (BGP [(Vr 1, Tm 4, Vr 2)]) (ECon 21)) [1; 2]) [(2, 4, 3)].
(* F-C04-7  { ?1 p ?2 . { ?2 q ?3 FILTER(BOUND(?1)) } } *)
Definition w7 := W (Project (Join true (BGP [(Vr 1, Tm 4, Vr 2)]) (Filter false (Some [1; 2; 3]) (EBound 1) (BGP [(Vr 2, Tm 5, Vr 3)]))) [1; 2; 3])
                   [(1, 4, 2); (2, 5, 3)].

(* F-C04-5  { ?1 p ?2 . { ?1 q ?3 OPTIONAL { ?3 p ?4 FILTER(?4 = ?1) } } } *)
Definition w5 := W (Project (Join true (BGP [(Vr 1, Tm 4, Vr 2)])
                      (LeftJoin (Some [1; 3]) (BGP [(Vr 1, Tm 5, Vr 3)]) (BGP [(Vr 3, Tm 4, Vr 4)]) (ECmp OpEq (EVar 4) (EVar 1))))
                    [2; 1; 4; 3])
                   [(1, 4, 2); (1, 5, 3); (3, 4, 1)].
(* F-C04-9  { ?1 p ?2 . ?1 q ?3 FILTER(!(?2 = ?3)) } on data with an integer and a boolean object *)
Definition w9 := W (Project (Filter false (Some [2; 3]) (ENot (ECmp OpEq (EVar 2) (EVar 3)))
                              (BGP [(Vr 1, Tm 4, Vr 2); (Vr 1, Tm 5, Vr 3)])) [1; 2; 3])
                   [(1, 4, 11); (1, 5, 21)].

Definition refuted (c : case) : Prop := spec_ok c (model_obs c) = false /\ N.eqb (kf c) 0 = false.

Lemma findings_refuted :
  refuted w1 /\ refuted w2 /\ refuted w4 /\ refuted w5 /\ refuted w6 /\ refuted w7 /\ refuted w9.
Proof. repeat split; vm_compute; reflexivity. Qed.

(* the witness of the repaired F-C04-3: two rows, as the algebra says; no trigger *)
Lemma w3_repaired : spec_ok w3 (model_obs w3) = true /\ kf w3 = 0 /\ length (spec_rows w3) = 2%nat.
Proof. vm_compute. repeat split; reflexivity. Qed.

