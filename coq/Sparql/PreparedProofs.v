From RV Require Export Sparql.Prepared.
Local Open Scope N_scope.

Lemma leqb_refl {A} (eq : A -> A -> bool) l : (forall x, In x l -> eq x x = true) -> leqb eq l l = true.
Proof.
  induction l as [|a l IH]; intros H; cbn; [reflexivity|].
  rewrite (H a) by now left. apply IH. intros; apply H; now right.
Qed.

Lemma leqb_eq {A} (eq : A -> A -> bool) l : forall l',
  (forall x y, In x l -> eq x y = true -> x = y) -> leqb eq l l' = true -> l = l'.
Proof.
  induction l as [|a l IH]; intros [|b l'] H E; cbn in E; try discriminate; [reflexivity|].
  apply andb_true_iff in E as [E1 E2]. f_equal; [apply H; [now left|exact E1]|].
  apply IH; [|exact E2]. intros x y I. apply H. now right.
Qed.

Lemma tv_eqb_eq a b : tv_eqb a b = true <-> a = b.
Proof.
  destruct a, b; cbn; split; try discriminate; try (intros E; apply N.eqb_eq in E; now subst);
    intros [= ->]; apply N.eqb_refl.
Qed.

Lemma tpat_eqb_eq a b : tpat_eqb a b = true <-> a = b.
Proof.
  destruct a as [[a1 a2] a3], b as [[b1 b2] b3]; cbn. rewrite !andb_true_iff, !tv_eqb_eq.
  split; [intros [[-> ->] ->]; reflexivity|intros [= -> -> ->]; auto].
Qed.

Lemma lN_eq l l' : leqb N.eqb l l' = true <-> l = l'.
Proof.
  split.
  - apply leqb_eq. intros x y _ E. now apply N.eqb_eq.
  - intros <-. apply leqb_refl. intros; apply N.eqb_refl.
Qed.

Lemma ovars_eqb_eq a b : ovars_eqb a b = true <-> a = b.
Proof.
  destruct a, b; cbn; split; try discriminate; try reflexivity.
  - intros E. apply lN_eq in E. now subst.
  - intros [= ->]. now apply lN_eq.
Qed.

Lemma cmpop_eqb_eq a b : cmpop_eqb a b = true <-> a = b.
Proof. destruct a, b; cbn; split; try discriminate; reflexivity. Qed.

Lemma alg_expr_eqb_eq :
  (forall a b, alg_eqb a b = true -> a = b) /\ (forall a b, expr_eqb a b = true -> a = b).
Proof.
  apply alg_expr_mutind.
  - intros ts [] E; try discriminate E. cbn in E. f_equal.
    apply (leqb_eq tpat_eqb); [|exact E]. intros x y _. apply tpat_eqb_eq.
  - intros l p1 IH1 p2 IH2 [] E; try discriminate E. cbn in E.
    apply andb_true_iff in E as [E E2]. apply andb_true_iff in E as [El E1].
    apply Bool.eqb_prop in El. subst. f_equal; auto.
  - intros v p1 IH1 p2 IH2 e IHe [] E; try discriminate E. cbn in E.
    apply andb_true_iff in E as [E Ee]. apply andb_true_iff in E as [E E2]. apply andb_true_iff in E as [Ev E1].
    apply ovars_eqb_eq in Ev. subst. f_equal; auto.
  - intros n v e IHe p IHp [] E; try discriminate E. cbn in E.
    apply andb_true_iff in E as [E Ep]. apply andb_true_iff in E as [E Ee]. apply andb_true_iff in E as [En Ev].
    apply Bool.eqb_prop in En. apply ovars_eqb_eq in Ev. subst. f_equal; auto.
  - intros p1 IH1 p2 IH2 [] E; try discriminate E. cbn in E. apply andb_true_iff in E as [E1 E2]. f_equal; auto.
  - intros p1 IH1 p2 IH2 [] E; try discriminate E. cbn in E. apply andb_true_iff in E as [E1 E2]. f_equal; auto.
  - intros v p IHp x e IHe [] E; try discriminate E. cbn in E.
    apply andb_true_iff in E as [E Ee]. apply andb_true_iff in E as [E Ex]. apply andb_true_iff in E as [Ev Ep].
    apply ovars_eqb_eq in Ev. apply N.eqb_eq in Ex. subst. f_equal; auto.
  - intros rows [] E; try discriminate E. cbn in E. f_equal.
    apply (leqb_eq sol_eqb); [|exact E]. intros x y _. apply sol_eqb_eq.
  - intros p IHp vs [] E; try discriminate E. cbn in E. apply andb_true_iff in E as [Ep Ev].
    apply lN_eq in Ev. subst. f_equal; auto.
  - intros g p IHp [] E; try discriminate E. cbn in E. apply andb_true_iff in E as [Eg Ep].
    apply tv_eqb_eq in Eg. subst. f_equal; auto.
  - intros p IHp [] E; try discriminate E. cbn in E. f_equal; auto.
  - intros n p IHp [] E; try discriminate E. cbn in E. apply andb_true_iff in E as [En Ep].
    apply N.eqb_eq in En. subst. f_equal; auto.
  - intros v [] E; try discriminate E. cbn in E. apply N.eqb_eq in E. now subst.
  - intros t [] E; try discriminate E. cbn in E. apply N.eqb_eq in E. now subst.
  - intros op a IHa b IHb [] E; try discriminate E. cbn in E.
    apply andb_true_iff in E as [E Eb]. apply andb_true_iff in E as [Eo Ea].
    apply cmpop_eqb_eq in Eo. subst. f_equal; auto.
  - intros a IHa b IHb [] E; try discriminate E. cbn in E. apply andb_true_iff in E as [Ea Eb]. f_equal; auto.
  - intros a IHa b IHb [] E; try discriminate E. cbn in E. apply andb_true_iff in E as [Ea Eb]. f_equal; auto.
  - intros a IHa [] E; try discriminate E. cbn in E. f_equal; auto.
  - intros v [] E; try discriminate E. cbn in E. apply N.eqb_eq in E. now subst.
  - intros pos p IHp [] E; try discriminate E. cbn in E. apply andb_true_iff in E as [Ep Eq].
    apply Bool.eqb_prop in Ep. subst. f_equal; auto.
  - intros pos a IHa cs [] E; try discriminate E. cbn in E.
    apply andb_true_iff in E as [E Ec]. apply andb_true_iff in E as [Ep Ea].
    apply Bool.eqb_prop in Ep. apply lN_eq in Ec. subst. f_equal; auto.
  - intros a IHa b IHb [] E; try discriminate E. cbn in E. apply andb_true_iff in E as [Ea Eb]. f_equal; auto.
  - intros c IHc a IHa b IHb [] E; try discriminate E. cbn in E.
    apply andb_true_iff in E as [E Eb]. apply andb_true_iff in E as [Ec Ea]. f_equal; auto.
Qed.

Lemma alg_expr_eqb_refl : (forall a, alg_eqb a a = true) /\ (forall e, expr_eqb e e = true).
Proof.
  apply alg_expr_mutind; intros; cbn;
    rewrite ?Bool.eqb_reflx, ?N.eqb_refl; repeat (apply andb_true_iff; split); auto;
    try (apply leqb_refl; intros; try apply N.eqb_refl; try (now apply tpat_eqb_eq); try (now apply sol_eqb_eq));
    try (now apply ovars_eqb_eq); try (now apply tv_eqb_eq); try (now apply cmpop_eqb_eq); try (now apply lN_eq).
Qed.

Lemma alg_eqb_eq a b : alg_eqb a b = true <-> a = b.
Proof. split; [apply alg_expr_eqb_eq|intros <-; apply alg_expr_eqb_refl]. Qed.

(* the invariant: whatever the sequence of evaluations, the state stays the
   prepared tree, and every answer is the answer of a fresh evaluation of it *)
Lemma prep_run_pure f s steps :
  map snd (prep_run f s steps) = repeat s (length steps)
  /\ map fst (prep_run f s steps) = map (fun ds => answer f (eval_td ds (ds_default ds) [] s)) steps.
Proof.
  induction steps as [|ds r [IH1 IH2]]; cbn; [split; reflexivity|]. rewrite IH1, IH2. split; reflexivity.
Qed.

Lemma spec_ok_prep_iff c o :
  spec_ok_prep c o = true <-> (length o = N.to_nat (snd c) /\ forall a, In a o -> a = fst c).
Proof.
  unfold spec_ok_prep. rewrite andb_true_iff, N.eqb_eq, forallb_forall. split; intros [A B]; split.
  - rewrite <- A. now rewrite Nnat.Nat2N.id.
  - intros a I. symmetry. apply alg_eqb_eq. now apply B.
  - rewrite A. apply Nnat.N2Nat.id.
  - intros a I. apply alg_eqb_eq. symmetry. now apply B.
Qed.

Lemma spec_ok_prep_model c : spec_ok_prep c (model_obs_prep c) = true.
Proof.
  apply spec_ok_prep_iff. unfold model_obs_prep. split; [apply repeat_length|].
  intros a I. now apply repeat_spec in I.
Qed.
