(* merge / compatible on canonical solutions *)
From RV Require Export Sparql.BgpProofs.
Local Open Scope N_scope.

Lemma lookup_in v t m : lookup v m = Some t -> In (v, t) m.
Proof.
  induction m as [|[w u] r IH]; cbn; [discriminate|].
  destruct (N.eqb v w) eqn:E.
  - apply N.eqb_eq in E; subst. intros [= ->]. now left.
  - intros H. right. auto.
Qed.

Lemma sorted_tail lo v t r : sorted_from lo ((v, t) :: r) = true -> sorted_from (Some v) r = true.
Proof. cbn. intros H. apply andb_true_iff in H. tauto. Qed.

Lemma wf_tail v t r : sol_wf ((v, t) :: r) = true -> sol_wf r = true.
Proof.
  intros H. apply sorted_tail in H. eapply sorted_from_weaken; [|exact H]. reflexivity.
Qed.

Lemma in_lookup_from lo v t m : sorted_from lo m = true -> In (v, t) m -> lookup v m = Some t.
Proof.
  revert lo. induction m as [|[w u] r IH]; intros lo S I; [destruct I|].
  cbn in S. apply andb_true_iff in S as [A B]. cbn.
  destruct I as [[= -> ->]|I].
  - now rewrite N.eqb_refl.
  - destruct (N.eqb v w) eqn:E.
    + apply N.eqb_eq in E; subst w.
      pose proof (IH _ B I) as H1. rewrite (lookup_below v v r B) in H1 by lia. discriminate.
    + eapply IH; eauto.
Qed.

Lemma in_lookup v t m : sol_wf m = true -> In (v, t) m -> lookup v m = Some t.
Proof. apply in_lookup_from. Qed.

Lemma lookup_head_none lo v t r : sorted_from lo ((v, t) :: r) = true -> lookup v r = None.
Proof. intros S. apply sorted_tail in S. apply (lookup_below v v r S). lia. Qed.

Lemma lookup_merge b a v :
  sol_wf a = true ->
  lookup v (merge b a) = match lookup v a with Some t => Some t | None => lookup v b end.
Proof.
  unfold merge. revert b. induction a as [|[w u] r IH]; intros b W; cbn; [reflexivity|].
  rewrite (IH (bind w u b) (wf_tail _ _ _ W)).
  destruct (N.eqb v w) eqn:E.
  - apply N.eqb_eq in E; subst w. unfold sol_wf in W. rewrite (lookup_head_none _ _ _ _ W). apply lookup_bind_same.
  - destruct (lookup v r); [reflexivity|]. apply lookup_bind_other. intros ->. now rewrite N.eqb_refl in E.
Qed.

Lemma wf_merge b a : sol_wf b = true -> sol_wf (merge b a) = true.
Proof.
  unfold merge. revert b. induction a as [|[w u] r IH]; intros b W; cbn; [exact W|].
  apply IH. apply wf_bind, W.
Qed.

Lemma merge_nil_l a : sol_wf a = true -> merge [] a = a.
Proof.
  intros W. apply sol_ext; [apply wf_merge; reflexivity|exact W|].
  intros v. rewrite lookup_merge by exact W. destruct (lookup v a); reflexivity.
Qed.

Lemma merge_nil_r b : merge b [] = b.
Proof. reflexivity. Qed.

(* compatible, semantically *)
Definition compat_prop (a b : sol) : Prop :=
  forall v t u, lookup v a = Some t -> lookup v b = Some u -> t = u.

Lemma compatible_spec a b : sol_wf a = true -> (compatible a b = true <-> compat_prop a b).
Proof.
  intros W. unfold compatible, compat_prop. rewrite forallb_forall. split.
  - intros H v t u La Lb. specialize (H (v, t) (lookup_in _ _ _ La)). unfold agrees in H. cbn in H.
    rewrite Lb in H. now apply N.eqb_eq in H.
  - intros H [v t] I. unfold agrees. cbn. destruct (lookup v b) as [u|] eqn:Lb; [|reflexivity].
    apply N.eqb_eq. eapply H; eauto. now apply in_lookup.
Qed.

Lemma compatible_false_spec a b : sol_wf a = true -> compatible a b = false -> ~ compat_prop a b.
Proof. intros W H C. apply (compatible_spec a b W) in C. congruence. Qed.

Lemma compat_prop_sym a b : compat_prop a b -> compat_prop b a.
Proof. intros H v t u La Lb. symmetry. eapply H; eauto. Qed.

Lemma compatible_sym a b : sol_wf a = true -> sol_wf b = true -> compatible a b = compatible b a.
Proof.
  intros Wa Wb. destruct (compatible a b) eqn:E1, (compatible b a) eqn:E2; try reflexivity.
  - apply (compatible_spec a b Wa) in E1. apply compat_prop_sym in E1.
    apply (compatible_spec b a Wb) in E1. congruence.
  - apply (compatible_spec b a Wb) in E2. apply compat_prop_sym in E2.
    apply (compatible_spec a b Wa) in E2. congruence.
Qed.

Lemma compatible_nil_l b : compatible [] b = true. Proof. reflexivity. Qed.
Lemma compatible_nil_r a : compatible a [] = true.
Proof. unfold compatible. apply forallb_forall. intros [v t] _. reflexivity. Qed.

Lemma merge_comm a b :
  sol_wf a = true -> sol_wf b = true -> compatible a b = true -> merge a b = merge b a.
Proof.
  intros Wa Wb C. apply (compatible_spec a b Wa) in C.
  apply sol_ext; try (apply wf_merge; assumption).
  intros v. rewrite !lookup_merge by assumption.
  destruct (lookup v a) eqn:La, (lookup v b) eqn:Lb; try reflexivity.
  f_equal. symmetry. eapply C; eauto.
Qed.

Lemma merge_assoc a b c :
  sol_wf a = true -> sol_wf b = true -> sol_wf c = true ->
  merge (merge a b) c = merge a (merge b c).
Proof.
  intros Wa Wb Wc. apply sol_ext; try (repeat apply wf_merge; assumption).
  intros v. rewrite !lookup_merge by (try assumption; apply wf_merge; assumption).
  destruct (lookup v c); reflexivity.
Qed.

Lemma merge_absorb a b : sol_wf a = true -> sol_wf b = true -> sub_sol b a -> merge a b = a.
Proof.
  intros Wa Wb S. apply sol_ext; [apply wf_merge, Wa|exact Wa|].
  intros v. rewrite lookup_merge by exact Wb. destruct (lookup v b) eqn:L; [|reflexivity].
  symmetry. now apply S.
Qed.

Lemma sub_sol_merge_r b a : sol_wf a = true -> sub_sol a (merge b a).
Proof. intros W v t L. rewrite lookup_merge by exact W. now rewrite L. Qed.

Lemma sub_sol_merge_l b a : sol_wf a = true -> sol_wf b = true -> compatible a b = true -> sub_sol b (merge b a).
Proof.
  intros Wa Wb C v t L. rewrite lookup_merge by exact Wa.
  destruct (lookup v a) eqn:La; [|exact L].
  apply (compatible_spec a b Wa) in C. f_equal. eapply C; eauto.
Qed.

(* compatibility with a merge *)
Lemma compat_merge_iff x a b :
  sol_wf a = true -> sol_wf b = true ->
  compat_prop a b ->
  (compat_prop x (merge a b) <-> compat_prop x a /\ compat_prop x b).
Proof.
  intros Wa Wb Cab. split.
  - intros H. split; intros v t u Lx L.
    + destruct (lookup v b) as [w|] eqn:Lb.
      * assert (u = w) by (eapply Cab; eauto). subst.
        eapply (H v t w); eauto. rewrite lookup_merge by exact Wb. now rewrite Lb.
      * eapply (H v t u); eauto. rewrite lookup_merge by exact Wb. now rewrite Lb.
    + eapply (H v t u); eauto. rewrite lookup_merge by exact Wb. now rewrite L.
  - intros [Ha Hb] v t u Lx L. rewrite lookup_merge in L by exact Wb.
    destruct (lookup v b) eqn:Lb.
    + injection L as <-. eapply Hb; eauto.
    + eapply Ha; eauto.
Qed.

Lemma compat_sub x a b : sub_sol a b -> compat_prop x b -> compat_prop x a.
Proof. intros S H v t u Lx La. eapply H; eauto. Qed.

Lemma compat_sub_l a b x : sub_sol a b -> compat_prop b x -> compat_prop a x.
Proof. intros S H v t u La Lx. eapply H; eauto. Qed.

(* thaw of a solution that extends the context is the solution *)
Lemma thaw_ext c a : sub_sol c a -> thaw c a = a.
Proof. reflexivity. Qed.

(* boolean helpers *)
Lemma if_compat_ext {A} (a b a' b' : sol) (x y : list A) :
  sol_wf a = true -> sol_wf a' = true ->
  (compat_prop a b <-> compat_prop a' b') -> (compat_prop a b -> x = y) ->
  (if compatible a b then x else []) = (if compatible a' b' then y else []).
Proof.
  intros W W' E XY.
  destruct (compatible a b) eqn:C1, (compatible a' b') eqn:C2; try reflexivity.
  - apply XY. now apply (compatible_spec a b W).
  - apply (compatible_spec a b W) in C1. apply E in C1. apply (compatible_spec a' b' W') in C1. congruence.
  - apply (compatible_spec a' b' W') in C2. apply E in C2. apply (compatible_spec a b W) in C2. congruence.
Qed.
