(* The fragment on which the top-down evaluator is proved to agree with the
   bottom-up semantics, and the soundness of the syntactic analyses used by the
   side conditions (cert / maybe / needs_triple), expressions without errors. *)
From RV Require Export Sparql.Pushdown.
Local Open Scope N_scope.

(* atoms *)
Definition atom (e : expr) : bool := match e with EVar _ | ECon _ => true | _ => false end.

Lemma ebv_of_bool b : ebv_of (Some (t_bool b)) = Some b.
Proof. destruct b; reflexivity. Qed.

Lemma ebv_bool b : ebv (Some (t_bool b)) = b.
Proof. destruct b; reflexivity. Qed.

(* ---- restrict / forget ---- *)
Lemma lookup_restrict f v m : lookup v (restrict f m) = if f v then lookup v m else None.
Proof.
  induction m as [|[w u] r IH]; cbn; [now destruct (f v)|].
  destruct (f w) eqn:Fw; cbn.
  - destruct (N.eqb v w) eqn:E; [apply N.eqb_eq in E; subst; now rewrite Fw|exact IH].
  - destruct (N.eqb v w) eqn:E; [|exact IH]. apply N.eqb_eq in E; subst. rewrite Fw in *. exact IH.
Qed.

Lemma sorted_restrict f lo m : sorted_from lo m = true -> sorted_from lo (restrict f m) = true.
Proof.
  revert lo. induction m as [|[w u] r IH]; intros lo S; cbn; [reflexivity|].
  cbn in S. apply andb_true_iff in S as [A B].
  destruct (f w); cbn.
  - rewrite A. cbn. now apply IH.
  - apply IH. eapply sorted_from_weaken; [|exact B].
    intros v H. destruct lo as [l|]; [|reflexivity]. cbn in *. apply N.ltb_lt in A, H. apply N.ltb_lt. lia.
Qed.

Lemma wf_restrict f m : sol_wf m = true -> sol_wf (restrict f m) = true.
Proof. apply sorted_restrict. Qed.

Lemma dedup_in x L : In x (dedup L) <-> In x L.
Proof.
  induction L as [|y r IH]; cbn; [tauto|]. split.
  - intros [->|I]; [now left|]. apply filter_In in I as [I _]. right. now apply IH.
  - intros [->|I]; [now left|].
    destruct (sol_eqb y x) eqn:E; [apply sol_eqb_eq in E; now left|].
    right. apply filter_In. split; [now apply IH|]. now rewrite E.
Qed.

Lemma restrict_all f m : sol_wf m = true -> (forall v, lookup v m <> None -> f v = true) -> restrict f m = m.
Proof.
  intros W H. unfold restrict. induction m as [|[v t] r IH]; [reflexivity|]. cbn.
  assert (Hv : f v = true) by (apply H; cbn; rewrite N.eqb_refl; discriminate).
  rewrite Hv. f_equal. apply IH; [eapply wf_tail; eauto|].
  intros w Hw. apply H. cbn. destruct (N.eqb w v) eqn:E; [discriminate|exact Hw].
Qed.

Lemma memv_in v l : memv v l = true <-> In v l.
Proof.
  unfold memv. rewrite existsb_exists. split.
  - intros [x [I E]]. apply N.eqb_eq in E. now subst.
  - intros I. exists v. split; [exact I|apply N.eqb_refl].
Qed.

Lemma subsetv_in a b : subsetv a b = true <-> (forall v, In v a -> In v b).
Proof.
  unfold subsetv. rewrite forallb_forall. split; intros H v I; [apply memv_in, H, I|apply memv_in, H, I].
Qed.

(* ---- the filter step ---- *)
Lemma Permutation_filter' {A} (f : A -> bool) l l' : Permutation l l' -> Permutation (filter f l) (filter f l').
Proof.
  induction 1; cbn.
  - constructor.
  - destruct (f x); [now constructor|assumption].
  - destruct (f x), (f y); try reflexivity. apply perm_swap.
  - etransitivity; eauto.
Qed.

Lemma join_ctx_cons c m L :
  join_ctx c (m :: L) = (if compatible m c then [merge c m] else []) ++ join_ctx c L.
Proof. reflexivity. Qed.

Lemma filter_join_ctx c (f f' : sol -> bool) L :
  (forall m, In m L -> compatible m c = true -> f (merge c m) = f' m) ->
  filter f (join_ctx c L) = join_ctx c (filter f' L).
Proof.
  induction L as [|m L IH]; intros H; [reflexivity|].
  assert (IH' := IH (fun m' I => H m' (or_intror I))).
  rewrite join_ctx_cons, filter_app, IH'. cbn [filter].
  destruct (compatible m c) eqn:C.
  - cbn [filter]. rewrite (H m (or_introl eq_refl) C).
    destruct (f' m); [rewrite join_ctx_cons, C|]; reflexivity.
  - destruct (f' m); [rewrite join_ctx_cons, C|]; reflexivity.
Qed.

(* ---- what a BGP evaluation binds ---- *)
Lemma unify_binds c x t c' :
  unify c x t = Some c' ->
  (forall v, In v (tv_vars x) -> lookup v c' <> None)
  /\ (forall v, lookup v c' <> None -> lookup v c <> None \/ In v (tv_vars x)).
Proof.
  destruct x as [u|w]; cbn.
  - destruct (N.eqb u t); [|discriminate]. intros [= <-]. split; [intros v []|auto].
  - destruct (lookup w c) as [z|] eqn:L.
    + destruct (N.eqb z t); [|discriminate]. intros [= <-]. split.
      * intros v [<-|[]]. congruence.
      * auto.
    + intros [= <-]. split.
      * intros v [<-|[]]. rewrite lookup_bind_same. discriminate.
      * intros v H. rewrite lookup_bind in H. destruct (N.eqb v w) eqn:E; [|now left].
        apply N.eqb_eq in E; subst. right. now left.
Qed.

Definition l_vars (l : list (tv * term)) : list var := flat_map (fun p => tv_vars (fst p)) l.

Lemma unifyl_binds l : forall c c',
  unifyl c l = Some c' ->
  (forall v, In v (l_vars l) -> lookup v c' <> None)
  /\ (forall v, lookup v c' <> None -> lookup v c <> None \/ In v (l_vars l)).
Proof.
  induction l as [|[x t] r IH]; intros c c'; cbn.
  - intros [= <-]. split; [intros v []|auto].
  - destruct (unify c x t) as [c1|] eqn:U; cbn; [|discriminate]. intros H.
    destruct (unify_binds _ _ _ _ U) as [B1 D1]. destruct (IH _ _ H) as [B2 D2].
    pose proof (unifyl_sub _ _ _ H) as S. split.
    + intros v I. apply in_app_or in I as [I|I]; [|now apply B2].
      specialize (B1 v I). destruct (lookup v c1) as [z|] eqn:L; [|congruence].
      rewrite (S _ _ L). discriminate.
    + intros v Hv. destruct (D2 v Hv) as [Hc|I]; [|right; apply in_or_app; now right].
      destruct (D1 v Hc) as [Hc'|I]; [now left|right; apply in_or_app; now left].
Qed.

Lemma tp_list_vars tp tr : l_vars (tp_list tp tr) = tpat_vars tp.
Proof. destruct tp as [[s p] o], tr as [[a b] d]. cbn. now rewrite app_nil_r. Qed.

Lemma bgp_ext_binds g ts : forall m0 m,
  In m (bgp_ext g m0 ts) ->
  (forall v, In v (bgp_vars ts) -> lookup v m <> None)
  /\ (forall v, lookup v m <> None -> lookup v m0 <> None \/ In v (bgp_vars ts)).
Proof.
  induction ts as [|tp r IH]; intros m0 m I; cbn in I.
  - destruct I as [<-|[]]. split; [intros v []|auto].
  - apply in_flat_map in I as [tr [_ I]].
    destruct (ext m0 tp tr) as [m1|] eqn:E; [|destruct I].
    rewrite ext_unifyl in E. destruct (unifyl_binds _ _ _ E) as [B1 D1]. rewrite tp_list_vars in *.
    destruct (IH _ _ I) as [B2 D2].
    assert (S : sub_sol m1 m).
    { clear -I. revert m1 I. induction r as [|tp' r' IHr]; intros m1 I; cbn in I.
      - destruct I as [<-|[]]. apply sub_sol_refl.
      - apply in_flat_map in I as [tr [_ I]]. destruct (ext m1 tp' tr) as [m2|] eqn:E; [|destruct I].
        eapply sub_sol_trans; [|apply IHr; exact I]. rewrite ext_unifyl in E. eapply unifyl_sub; eauto. }
    split.
    + intros v Iv. cbn in Iv. apply in_app_or in Iv as [Iv|Iv]; [|now apply B2].
      specialize (B1 v Iv). destruct (lookup v m1) as [z|] eqn:L; [|congruence].
      rewrite (S _ _ L). discriminate.
    + intros v Hv. destruct (D2 v Hv) as [H1|Iv]; [|right; cbn; apply in_or_app; now right].
      destruct (D1 v H1) as [H0|Iv]; [now left|right; cbn; apply in_or_app; now left].
Qed.

(* ---- shape of the fragment (side conditions aside) ---- *)
Fixpoint shape (p : alg) : bool :=
  match p with
  | BGP _ => true
  | Values rows => forallb sol_wf rows && forallb (fun r => forallb (fun p => nb (snd p)) r) rows
  | Union a b | Join _ a b | Minus a b | LeftJoin _ a b _ => shape a && shape b
  | Filter _ _ _ q => shape q
  | Extend _ q _ _ => shape q
  | Graph _ q => shape q
  | Project q _ => shape q
  | Distinct q => shape q
  | Slice _ _ => false       (* outside the proved fragment *)
  end.

(* the members of a LeftJoin / Extend result *)
Lemma in_leftjoin ds g p1 p2 e m :
  In m (eval_bu ds g (LeftJoin None p1 p2 e)) ->
  exists x, In x (eval_bu ds g p1) /\
    (m = x \/ exists y, In y (eval_bu ds g p2) /\ compatible x y = true /\ m = merge x y).
Proof.
  cbn [eval_bu]. intros I. apply in_flat_map in I as [x [Ix I]]. exists x. split; [exact Ix|].
  destruct (filter _ _) as [|y0 ys] eqn:Fl.
  - destruct I as [<-|[]]. now left.
  - right. apply in_map_iff in I as [y [<- Iy]]. rewrite <- Fl in Iy. apply filter_In in Iy as [Iy Cy].
    apply andb_true_iff in Cy as [Cy _]. eauto.
Qed.

Definition ext_step ds g (v : var) (e : expr) (m : sol) : sol :=
  match expr_bu ds g m e with
  | Some t => match lookup v m with None => bind v t m | Some _ => m end
  | None => m
  end.

Lemma ext_step_sub ds g v e m : sub_sol m (ext_step ds g v e m).
Proof.
  unfold ext_step. destruct (expr_bu ds g m e); [|apply sub_sol_refl].
  destruct (lookup v m) eqn:L; [apply sub_sol_refl|].
  intros w u H. rewrite lookup_bind. destruct (N.eqb w v) eqn:E; [|exact H].
  apply N.eqb_eq in E; subst. congruence.
Qed.

Lemma ext_step_wf ds g v e m : sol_wf m = true -> sol_wf (ext_step ds g v e m) = true.
Proof.
  intros W. unfold ext_step. destruct (expr_bu ds g m e); [|exact W].
  destruct (lookup v m); [exact W|now apply wf_bind].
Qed.

Lemma ext_step_dom ds g v e m w : lookup w (ext_step ds g v e m) <> None -> w = v \/ lookup w m <> None.
Proof.
  unfold ext_step. destruct (expr_bu ds g m e); [|auto].
  destruct (lookup v m); [auto|]. rewrite lookup_bind.
  destruct (N.eqb w v) eqn:E; [apply N.eqb_eq in E; auto|auto].
Qed.

Lemma in_join_lists m A B :
  In m (join_lists A B) -> exists x y, In x A /\ In y B /\ compatible x y = true /\ m = merge x y.
Proof.
  unfold join_lists. intros I. apply in_flat_map in I as [x [Ix I]].
  apply in_flat_map in I as [y [Iy I]].
  destruct (compatible x y) eqn:C; [|destruct I]. destruct I as [<-|[]]. eauto 6.
Qed.

Lemma in_join_ctx a c L :
  In a (join_ctx c L) -> exists m, In m L /\ compatible m c = true /\ a = merge c m.
Proof.
  unfold join_ctx. intros I. apply in_flat_map in I as [m [Im I]].
  destruct (compatible m c) eqn:C; [|destruct I]. destruct I as [<-|[]]. eauto.
Qed.

Lemma lookup_single v n w : lookup w [(v, n)] = if N.eqb w v then Some n else None.
Proof. reflexivity. Qed.

Lemma bu_wf ds p : shape p = true -> forall g, all_wf (eval_bu ds g p).
Proof.
  induction p; cbn [shape]; try discriminate; intros S g0 m I; cbn [eval_bu] in I.
  - exact (proj1 (bgp_ext_inv g0 ts [] m eq_refl I)).
  - apply andb_true_iff in S as [S1 S2].
    apply in_join_lists in I as [x [y [Ix [Iy [C ->]]]]]. apply wf_merge. eapply IHp1; eauto.
  - apply andb_true_iff in S as [S1 S2].
    change (In m (eval_bu ds g0 (LeftJoin None p1 p2 e))) in I.
    apply in_leftjoin in I as [x [Ix [->|[y [Iy [C ->]]]]]]; [eapply IHp1; eauto|].
    apply wf_merge. eapply IHp1; eauto.
  - eapply IHp; eauto. apply filter_In in I. apply I.
  - apply andb_true_iff in S as [S1 S2]. apply in_app_or in I as [I|I]; [eapply IHp1|eapply IHp2]; eauto.
  - apply andb_true_iff in S as [S1 S2]. apply filter_In in I as [I _]. eapply IHp1; eauto.
  - apply in_map_iff in I as [m0 [<- I]]. apply (ext_step_wf ds g0 v e). eapply IHp; eauto.
  - apply andb_true_iff in S as [S _]. rewrite forallb_forall in S. now apply S.
  - apply in_map_iff in I as [m0 [<- I]]. apply wf_restrict. eapply IHp; eauto.
  - destruct g as [t|v].
    + destruct (existsb _ _); [eapply IHp; eauto|destruct I].
    + apply in_flat_map in I as [ng [_ I]].
      apply in_join_lists in I as [x [y [Ix [Iy [C ->]]]]]. apply wf_merge. eapply IHp; eauto.
  - apply (proj1 (dedup_in _ _)) in I. eapply IHp; eauto.
Qed.

Lemma cert_sound ds p : shape p = true ->
  forall g m w, In m (eval_bu ds g p) -> In w (cert p) -> lookup w m <> None.
Proof.
  induction p; cbn [shape]; try discriminate; intros S g0 m w I Iv; cbn [cert] in Iv.
  - cbn [eval_bu] in I. destruct (bgp_ext_binds _ _ _ _ I) as [B _]. now apply B.
  - cbn [eval_bu] in I. apply andb_true_iff in S as [S1 S2].
    apply in_join_lists in I as [x [y [Ix [Iy [C ->]]]]].
    assert (Wx := bu_wf ds p1 S1 g0 x Ix). assert (Wy := bu_wf ds p2 S2 g0 y Iy).
    rewrite lookup_merge by exact Wy.
    apply in_app_or in Iv as [Iv|Iv].
    + specialize (IHp1 S1 g0 x w Ix Iv). destruct (lookup w y); [discriminate|exact IHp1].
    + specialize (IHp2 S2 g0 y w Iy Iv). destruct (lookup w y); [discriminate|congruence].
  - apply andb_true_iff in S as [S1 S2].
    change (In m (eval_bu ds g0 (LeftJoin None p1 p2 e))) in I.
    apply in_leftjoin in I as [x [Ix [->|[y [Iy [C ->]]]]]]; [eapply IHp1; eauto|].
    assert (Wy := bu_wf ds p2 S2 g0 y Iy). rewrite lookup_merge by exact Wy.
    specialize (IHp1 S1 g0 x w Ix Iv). destruct (lookup w y); [discriminate|exact IHp1].
  - cbn [eval_bu] in I. apply filter_In in I as [I _]. eapply IHp; eauto.
  - cbn [eval_bu] in I. apply andb_true_iff in S as [S1 S2]. unfold inter in Iv. apply filter_In in Iv as [Iv1 Iv2].
    apply memv_in in Iv2.
    apply in_app_or in I as [I|I]; [eapply IHp1|eapply IHp2]; eauto.
  - cbn [eval_bu] in I. apply andb_true_iff in S as [S1 S2]. apply filter_In in I as [I _]. eapply IHp1; eauto.
  - cbn [eval_bu] in I. apply in_map_iff in I as [m0 [<- I]].
    specialize (IHp S g0 m0 w I Iv). destruct (lookup w m0) as [u|] eqn:L; [|congruence].
    change (lookup w (ext_step ds g0 v e m0) <> None).
    rewrite (ext_step_sub ds g0 v e m0 w u L). discriminate.
  - cbn [eval_bu] in I. destruct rows as [|r rs]; [destruct I|].
    apply filter_In in Iv as [Iv1 Iv2]. rewrite forallb_forall in Iv2.
    assert (Hd : In w (dom m)).
    { destruct I as [<-|I]; [exact Iv1|]. apply memv_in. now apply Iv2. }
    unfold dom in Hd. apply in_map_iff in Hd as [[w' u] [E Hd]]. cbn in E. subst w'.
    apply andb_true_iff in S as [S _]. rewrite forallb_forall in S. rewrite (in_lookup w u m); [discriminate|apply S, I|exact Hd].
  - cbn [eval_bu] in I. apply in_map_iff in I as [m0 [<- I]].
    unfold inter in Iv. apply filter_In in Iv as [Iv1 Iv2]. rewrite lookup_restrict, Iv2. eapply IHp; eauto.
  - cbn [eval_bu] in I. destruct g as [t|v'].
    + destruct (existsb _ _); [eapply IHp; eauto|destruct I].
    + apply in_flat_map in I as [ng [_ I]].
      apply in_join_lists in I as [x [y [Ix [[<-|[]] [C ->]]]]].
      rewrite lookup_merge by reflexivity. rewrite lookup_single.
      destruct (N.eqb w v') eqn:E; [discriminate|].
      destruct Iv as [->|Iv]; [now rewrite N.eqb_refl in E|]. eapply IHp; eauto.
  - cbn [eval_bu] in I. apply (proj1 (dedup_in _ _)) in I. eapply IHp; eauto.
Qed.

Lemma lookup_dom v m t : lookup v m = Some t -> In v (dom m).
Proof. intros L. apply lookup_in in L. unfold dom. apply in_map_iff. exists (v, t). auto. Qed.

Lemma maybe_sound ds p : shape p = true ->
  forall g m w, In m (eval_bu ds g p) -> lookup w m <> None -> In w (maybe p).
Proof.
  induction p; cbn [shape]; try discriminate; intros S g0 m w I L; cbn [maybe].
  - cbn [eval_bu] in I. destruct (bgp_ext_binds _ _ _ _ I) as [_ D]. destruct (D w L) as [H|H]; [cbn in H; congruence|exact H].
  - cbn [eval_bu] in I. apply andb_true_iff in S as [S1 S2].
    apply in_join_lists in I as [x [y [Ix [Iy [C ->]]]]].
    assert (Wy := bu_wf ds p2 S2 g0 y Iy). rewrite lookup_merge in L by exact Wy.
    apply in_or_app. destruct (lookup w y) eqn:Ly.
    + right. eapply IHp2; eauto. congruence.
    + left. eapply IHp1; eauto.
  - apply andb_true_iff in S as [S1 S2].
    change (In m (eval_bu ds g0 (LeftJoin None p1 p2 e))) in I. apply in_or_app.
    apply in_leftjoin in I as [x [Ix [->|[y [Iy [C ->]]]]]]; [left; eapply IHp1; eauto|].
    assert (Wy := bu_wf ds p2 S2 g0 y Iy). rewrite lookup_merge in L by exact Wy.
    destruct (lookup w y) eqn:Ly.
    + right. eapply IHp2; eauto. congruence.
    + left. eapply IHp1; eauto.
  - cbn [eval_bu] in I. apply filter_In in I as [I _]. eapply IHp; eauto.
  - cbn [eval_bu] in I. apply andb_true_iff in S as [S1 S2]. apply in_or_app.
    apply in_app_or in I as [I|I]; [left; eapply IHp1|right; eapply IHp2]; eauto.
  - cbn [eval_bu] in I. apply andb_true_iff in S as [S1 S2]. apply filter_In in I as [I _]. eapply IHp1; eauto.
  - cbn [eval_bu] in I. apply in_map_iff in I as [m0 [<- I]].
    change (lookup w (ext_step ds g0 v e m0) <> None) in L.
    destruct (ext_step_dom ds g0 v e m0 w L) as [->|L0]; [now left|right; eapply IHp; eauto].
  - cbn [eval_bu] in I. apply in_flat_map. exists m. split; [exact I|].
    destruct (lookup w m) eqn:E; [|congruence]. eapply lookup_dom; eauto.
  - cbn [eval_bu] in I. apply in_map_iff in I as [m0 [<- I]].
    rewrite lookup_restrict in L. destruct (memv w vs) eqn:M; [|congruence].
    unfold inter. apply filter_In. split; [eapply IHp; eauto|exact M].
  - cbn [eval_bu] in I. destruct g as [t|v'].
    + destruct (existsb _ _); [eapply IHp; eauto|destruct I].
    + apply in_flat_map in I as [ng [_ I]].
      apply in_join_lists in I as [x [y [Ix [[<-|[]] [C ->]]]]].
      rewrite lookup_merge in L by reflexivity. rewrite lookup_single in L.
      destruct (N.eqb w v') eqn:E; [apply N.eqb_eq in E; subst; now left|].
      right. eapply IHp; eauto.
  - cbn [eval_bu] in I. apply (proj1 (dedup_in _ _)) in I. eapply IHp; eauto.
Qed.

Lemma join_lists_nil_l B : join_lists [] B = []. Proof. reflexivity. Qed.
Lemma join_lists_nil_r A : join_lists A [] = [].
Proof. unfold join_lists. induction A; cbn; auto. Qed.

(* ---- typing: boolean literals only arise from BIND ---- *)
Definition graph_nb (g : graph) : bool :=
  forallb (fun t : triple => let '(a, b, d) := t in nb a && nb b && nb d) g.
Definition ds_nb (ds : dataset) : Prop :=
  forall ng, In ng (ds_named ds) -> nb (fst ng) = true /\ graph_nb (snd ng) = true.
Definition typed_sol (bv : list var) (m : sol) : Prop :=
  forall v t, lookup v m = Some t -> nb t = true \/ In v bv.

Lemma typed_sol_mono bv bv' m : (forall v, In v bv -> In v bv') -> typed_sol bv m -> typed_sol bv' m.
Proof. intros H T v t L. destruct (T v t L); auto. Qed.

Lemma unify_vals c x t c' :
  unify c x t = Some c' -> forall v u, lookup v c' = Some u -> lookup v c = Some u \/ u = t.
Proof.
  destruct x as [k|w]; cbn.
  - destruct (N.eqb k t); [|discriminate]. intros [= <-]. auto.
  - destruct (lookup w c) as [z|] eqn:L.
    + destruct (N.eqb z t); [|discriminate]. intros [= <-]. auto.
    + intros [= <-] v u H. rewrite lookup_bind in H. destruct (N.eqb v w); [right; congruence|now left].
Qed.

Lemma unifyl_vals l : forall c c', unifyl c l = Some c' ->
  forall v u, lookup v c' = Some u -> lookup v c = Some u \/ In u (map snd l).
Proof.
  induction l as [|[x t] r IH]; intros c c'; cbn.
  - intros [= <-]. auto.
  - destruct (unify c x t) as [c1|] eqn:U; cbn; [|discriminate]. intros H v u L.
    destruct (IH _ _ H v u L) as [L1|I]; [|right; now right].
    destruct (unify_vals _ _ _ _ U v u L1) as [L0|E]; [now left|right; left; now symmetry].
Qed.

Lemma bgp_ext_typed g ts : graph_nb g = true -> forall m0 m bv,
  typed_sol bv m0 -> In m (bgp_ext g m0 ts) -> typed_sol bv m.
Proof.
  intros Gg. induction ts as [|tp r IH]; intros m0 m bv T I; cbn in I.
  - destruct I as [<-|[]]. exact T.
  - apply in_flat_map in I as [tr [Itr I]].
    destruct (ext m0 tp tr) as [m1|] eqn:E; [|destruct I].
    apply (IH m1 m bv); [|exact I].
    intros v u L. rewrite ext_unifyl in E.
    destruct (unifyl_vals _ _ _ E v u L) as [L0|Iu]; [now apply T|]. left.
    unfold graph_nb in Gg. rewrite forallb_forall in Gg. specialize (Gg tr Itr).
    destruct tp as [[s p] o], tr as [[a b] d]. cbn in Iu.
    apply andb_true_iff in Gg as [Gg Gd]. apply andb_true_iff in Gg as [Ga Gb].
    destruct Iu as [<-|[<-|[<-|[]]]]; assumption.
Qed.

Lemma named_graph_nb ds t : ds_nb ds -> graph_nb (named_graph (ds_named ds) t) = true.
Proof.
  intros D. unfold ds_nb in D. induction (ds_named ds) as [|[n gr] r IH]; cbn; [reflexivity|].
  destruct (N.eqb n t).
  - apply (D (n, gr)). now left.
  - apply IH. intros ng I. apply D. now right.
Qed.

Lemma bu_typed ds p : shape p = true -> ds_nb ds ->
  forall g m, graph_nb g = true -> In m (eval_bu ds g p) -> typed_sol (bool_vars p) m.
Proof.
  intros S D. induction p; cbn [shape] in S; intros g0 m Gg I; cbn [bool_vars].
  - cbn [eval_bu] in I. apply (bgp_ext_typed g0 ts Gg [] m []); [intros v t L; discriminate L|exact I].
  - cbn [eval_bu] in I. apply andb_true_iff in S as [S1 S2].
    apply in_join_lists in I as [x [y [Ix [Iy [C ->]]]]].
    assert (Wy := bu_wf ds p2 S2 g0 y Iy). intros v t L. rewrite lookup_merge in L by exact Wy.
    destruct (lookup v y) eqn:Ly.
    + injection L as <-. destruct (IHp2 S2 g0 y Gg Iy v _ Ly); [now left|right; apply in_or_app; now right].
    + destruct (IHp1 S1 g0 x Gg Ix v t L); [now left|right; apply in_or_app; now left].
  - apply andb_true_iff in S as [S1 S2].
    change (In m (eval_bu ds g0 (LeftJoin None p1 p2 e))) in I.
    apply in_leftjoin in I as [x [Ix [->|[y [Iy [C ->]]]]]].
    + eapply typed_sol_mono; [|apply (IHp1 S1 g0 x Gg Ix)]. intros; apply in_or_app; now left.
    + assert (Wy := bu_wf ds p2 S2 g0 y Iy). intros v t L. rewrite lookup_merge in L by exact Wy.
      destruct (lookup v y) eqn:Ly.
      * injection L as <-. destruct (IHp2 S2 g0 y Gg Iy v _ Ly); [now left|right; apply in_or_app; right; apply in_or_app; now left].
      * destruct (IHp1 S1 g0 x Gg Ix v t L); [now left|right; apply in_or_app; now left].
  - cbn [eval_bu] in I. apply filter_In in I as [I _].
    eapply typed_sol_mono; [|apply (IHp S g0 m Gg I)]. intros; apply in_or_app; now right.
  - cbn [eval_bu] in I. apply andb_true_iff in S as [S1 S2]. apply in_app_or in I as [I|I].
    + eapply typed_sol_mono; [|apply (IHp1 S1 g0 m Gg I)]. intros; apply in_or_app; now left.
    + eapply typed_sol_mono; [|apply (IHp2 S2 g0 m Gg I)]. intros; apply in_or_app; now right.
  - cbn [eval_bu] in I. apply andb_true_iff in S as [S1 S2]. apply filter_In in I as [I _].
    eapply typed_sol_mono; [|apply (IHp1 S1 g0 m Gg I)]. intros; apply in_or_app; now left.
  - (* Extend *)
    cbn [eval_bu] in I. apply in_map_iff in I as [m0 [<- I]].
    pose proof (IHp S g0 m0 Gg I) as T0.
    change (typed_sol ((if boolean_valued e || copies_bool e (bool_vars p) then [v] else []) ++ bool_vars_e e ++ bool_vars p)
                      (ext_step ds g0 v e m0)).
    intros w t L. unfold ext_step in L.
    assert (Old : lookup w m0 = Some t -> nb t = true \/
                  In w ((if boolean_valued e || copies_bool e (bool_vars p) then [v] else []) ++ bool_vars_e e ++ bool_vars p)).
    { intros L0. destruct (T0 w t L0); [now left|right; apply in_or_app; right; apply in_or_app; now right]. }
    destruct (expr_bu ds g0 m0 e) as [t0|] eqn:Ev; [|now apply Old].
    destruct (lookup v m0) eqn:Lv; [now apply Old|].
    rewrite lookup_bind in L. destruct (N.eqb w v) eqn:E; [|now apply Old].
    apply N.eqb_eq in E; subst w. injection L as <-.
    destruct (boolean_valued e) eqn:Bv; [right; cbn; now left|].
    destruct e; try discriminate Bv; cbn in Ev; cbn [copies_bool orb].
    + destruct (T0 v0 t0 Ev) as [Hn|Hb]; [now left|].
      right. rewrite (proj2 (memv_in v0 _) Hb). cbn. now left.
    + injection Ev as <-. destruct (nb t) eqn:Nt; [now left|right; cbn; now left].
  - cbn [eval_bu] in I. apply andb_true_iff in S as [_ S]. rewrite forallb_forall in S.
    specialize (S m I). rewrite forallb_forall in S.
    intros v t L. left. apply (S (v, t)). now apply lookup_in.
  - cbn [eval_bu] in I. apply in_map_iff in I as [m0 [<- I]].
    intros v t L. rewrite lookup_restrict in L. destruct (memv v vs); [|discriminate]. now apply (IHp S g0 m0 Gg I).
  - cbn [eval_bu] in I. destruct g as [t|w].
    + destruct (existsb _ _); [|destruct I]. apply (IHp S _ m (named_graph_nb ds t D) I).
    + apply in_flat_map in I as [ng [Ing I]].
      apply in_join_lists in I as [x [y [Ix [[<-|[]] [C ->]]]]].
      intros v t L. rewrite lookup_merge in L by reflexivity. rewrite lookup_single in L.
      destruct (N.eqb v w) eqn:E.
      * injection L as <-. left. apply (D ng Ing).
      * apply (IHp S (snd ng) x (proj2 (D ng Ing)) Ix v t L).
  - cbn [eval_bu] in I. apply (proj1 (dedup_in _ _)) in I. now apply (IHp S g0 m Gg I).
  - discriminate S.
Qed.

(* rdflib's comparison operators are the specification's on terms that are not
   boolean literals (IRIs and integers: no two literals of different kinds) *)
Lemma cmp_nb op t1 t2 : nb t1 = true -> nb t2 = true -> cmp_impl op t1 t2 = cmp_spec op t1 t2.
Proof.
  unfold nb, cmp_impl, cmp_spec, is_lit, same_kind.
  destruct (kind_of t1), (kind_of t2); try discriminate; intros _ _; destruct op; reflexivity.
Qed.
