(* THE MODEL: rdflib/plugins/sparql/evaluate.py, function by function, with a
   QueryContext reduced to (active graph, bindings) and FrozenBindings to a
   solution.  Definitions only.

   What is abstracted: the order of Python dicts (solutions are canonical sorted
   association lists), generators (lists), the chain of Bindings levels
   (QueryContext.clone always flattens it: Bindings(d=bindings) copies), the
   solution's back pointer .ctx (it is used for initBindings - empty here - and
   by Builtin_EXISTS through ctx.ctx.thaw).

   The model follows /repo after the fix commits a7157fc3 (GRAPH over an unknown
   name), a24372ba (logical-and), fd13260a (QueryContext.clone). *)
From RV Require Export Sparql.EvalBU.
Local Open Scope N_scope.

(* QueryContext.__getitem__ *)
Definition ctx_get (c : sol) (x : tv) : option term :=
  match x with Tm t => Some t | Vr v => lookup v c end.

(* QueryContext.__setitem__: None = AlreadyBound *)
Definition set_item (c : sol) (x : tv) (t : term) : option sol :=
  match x with
  | Vr v => match lookup v c with
            | Some u => if N.eqb u t then Some c else None   (* re-assigning an equal value *)
            | None => Some (bind v t c)
            end
  | Tm _ => Some c
  end.

(* evalBGP *)
Fixpoint eval_bgp (g : graph) (c : sol) (ts : list tpat) : list sol :=
  match ts with
  | [] => [c]                                    (* ctx.solution() *)
  | (s, p, o) :: r =>
      let _s := ctx_get c s in
      let _p := ctx_get c p in
      let _o := ctx_get c o in
      flat_map (fun tr =>
        let '(ss, sp, so) := tr in
        (* c = ctx.push() or ctx: same bindings *)
        match (match _s with None => set_item c s ss | Some _ => Some c end) with
        | None => []
        | Some c1 =>
            match (match _p with None => set_item c1 p sp | Some _ => Some c1 end) with
            | None => []                          (* except AlreadyBound: continue *)
            | Some c2 =>
                match (match _o with None => set_item c2 o so | Some _ => Some c2 end) with
                | None => []
                | Some c3 => eval_bgp g c3 r
                end
            end
        end) (g_triples g _s _p _o)
  end.

(* evalPart, BGP branch: sorted(part.triples, key = number of positions unbound
   under the current ctx) - a stable sort *)
Definition unbound_count (c : sol) (t : tpat) : N :=
  let '(s, p, o) := t in
  (match ctx_get c s with None => 1 | Some _ => 0 end)
  + (match ctx_get c p with None => 1 | Some _ => 0 end)
  + (match ctx_get c o with None => 1 | Some _ => 0 end).

(* stable: fold from the right, an element goes after the equal ones already placed
   before it ... implemented as insertion of each element, scanning from the end *)
Fixpoint sort_ts (c : sol) (l : list tpat) : list tpat :=
  match l with
  | [] => []
  | t :: r => let s := sort_ts c r in
              (* t precedes every element of r with an equal key *)
              (fix ins (l' : list tpat) : list tpat :=
                 match l' with
                 | [] => [t]
                 | u :: r' => if N.leb (unbound_count c t) (unbound_count c u) then t :: l' else u :: ins r'
                 end) s
  end.

(* QueryContext.thaw / clone(bindings): "bindings if bindings is not None else
   self.bindings" - the new context has exactly the given solution's bindings
   (before commit fd13260a an empty solution fell back to the parent's bindings) *)
Definition thaw (c a : sol) : sol := a.

(* FrozenBindings.forget(before, _except): keep a binding if its variable is in
   _except or unbound in [before] (initBindings is empty) *)
Definition forget (b before : sol) (exc : option (list var)) : sol :=
  restrict (fun v => memv v (match exc with Some l => l | None => [] end)
                     || match lookup v before with None => true | Some _ => false end) b.

(* FrozenBindings.remember *)
Definition remember (a : sol) (these : list var) : sol := restrict (fun v => memv v these) a.

(* rdflib's relational operators on this vocabulary: Literal.eq / neq never
   raise here and are term equality; < > need two literals and use rdflib's
   total order on literals (booleans before integers) *)
Definition cmp_impl (op : cmpop) (a b : term) : option term :=
  match op with
  | OpEq => Some (t_bool (N.eqb a b))
  | OpNe => Some (t_bool (negb (N.eqb a b)))
  | OpLt => if is_lit a && is_lit b then Some (t_bool (key_lt (lit_key a) (lit_key b))) else None
  | OpGt => if is_lit a && is_lit b then Some (t_bool (key_lt (lit_key b) (lit_key a))) else None
  end.

(* ConditionalAndExpression (after commit a24372ba): operand by operand, false as
   soon as one is false, the error only if none is false = [and3] of the
   specification; ConditionalOrExpression likewise = [or3] *)

Fixpoint eval_td (ds : dataset) (g : graph) (c : sol) (p : alg) {struct p} : list sol :=
  match p with
  | BGP ts => eval_bgp g c (sort_ts c ts)
  | Join lz p1 p2 =>
      if lz then
        (* evalLazyJoin *)
        flat_map (fun a => map (fun b => merge b a) (eval_td ds g (thaw c a) p2)) (eval_td ds g c p1)
      else
        (* a = evalPart(ctx, p1); b = list(evalPart(ctx, p2)); _join(a, b)
           (a list since the repair 3512ad97; it was set(...), finding F-C04-3) *)
        join_lists (eval_td ds g c p1) (eval_td ds g c p2)
  | LeftJoin p1vars p1 p2 e =>
      flat_map (fun a =>
        let c' := thaw c a in
        match filter (fun b => ebv (expr_td ds g (forget b c None) b e)) (eval_td ds g c' p2) with
        | x :: r => map (fun b => merge b a) (x :: r)
        | [] =>
            match p1vars with
            | None => [a]
            | Some vs =>
                if existsb (fun b => ebv (expr_td ds g b b e))
                           (eval_td ds g (thaw c (remember a vs)) p2)
                then [] else [a]
            end
        end) (eval_td ds g c p1)
  | Filter nis fvars e q =>
      filter (fun s => ebv (expr_td ds g (if nis then s else forget s c fvars) s e)) (eval_td ds g c q)
  | Union p1 p2 => eval_td ds g c p1 ++ eval_td ds g c p2
  | Minus p1 p2 =>
      let B := dedup (eval_td ds g c p2) in
      filter (fun x => forallb (fun y => negb (compatible x y) || disjoint_dom x y) B) (eval_td ds g c p1)
  | Extend xvars q v e =>
      map (fun s => match expr_td ds g (forget s c xvars) s e with
                    | Some t => bind v t s          (* c.merge({var: e}) *)
                    | None => s
                    end) (eval_td ds g c q)
  | Values rows =>
      (* evalValues: push, set every column, AlreadyBound drops the row *)
      flat_map (fun r => if compatible r c then [merge c r] else []) rows
  | Project q vs => map (restrict (fun v => memv v vs)) (eval_td ds g c q)
  | Graph gt q =>
      match ctx_get c gt with
      | Some t =>
          (* commit a7157fc3: nothing unless the name is a graph of the dataset *)
          if existsb (fun ng => N.eqb (fst ng) t) (ds_named ds)
          then eval_td ds (named_graph (ds_named ds) t) c q else []
      | None =>
          match gt with
          | Vr v => flat_map (fun ng => join_lists (eval_td ds (snd ng) c q) [[(v, fst ng)]]) (ds_named ds)
          | Tm _ => []
          end
      end
  | Distinct q => dedup (eval_td ds g c q)
  | Slice n q => skipn (N.to_nat n) (eval_td ds g c q)     (* evalSlice: itertools.islice(res, start, None) *)
  end
(* Expr.eval: [m] is the solution the expression sees, [full] the bindings of
   the context the solution came from (m.ctx.bindings, approximated by the
   solution before forget) *)
with expr_td (ds : dataset) (g : graph) (m full : sol) (e : expr) {struct e} : option term :=
  match e with
  | EVar v => lookup v m
  | ECon t => Some t
  | ECmp op a b => cmp_lift (cmp_impl op) (expr_td ds g m full a) (expr_td ds g m full b)
  | EAnd a b => and3 (ebv_of (expr_td ds g m full a)) (ebv_of (expr_td ds g m full b))
  | EOr a b => or3 (ebv_of (expr_td ds g m full a)) (ebv_of (expr_td ds g m full b))
  | ENot a => not3 (ebv_of (expr_td ds g m full a))
  | EBound v => Some (t_bool (match lookup v m with Some _ => true | None => false end))
  | EExists pos p =>
      (* ctx = ctx.ctx.thaw(ctx); any solution of evalPart(ctx, graph) *)
      let found := match eval_td ds g (thaw full m) p with [] => false | _ => true end in
      Some (t_bool (Bool.eqb pos found))
  | EIn pos a cs =>
      (* RelationalExpression, op IN / NOT IN: "x == expr" over the list - Python term equality, never an error *)
      match expr_td ds g m full a with
      | None => None
      | Some t => Some (t_bool (Bool.eqb pos (existsb (N.eqb t) cs)))
      end
  | ECoalesce a b =>
      (* Builtin_COALESCE: the first argument that is not an error / unbound *)
      match expr_td ds g m full a with Some t => Some t | None => expr_td ds g m full b end
  | EIf c a b =>
      (* Builtin_IF: expr.arg2 if EBV(expr.arg1) else expr.arg3 - only the chosen branch is evaluated *)
      match ebv_of (expr_td ds g m full c) with
      | None => None
      | Some true => expr_td ds g m full a
      | Some false => expr_td ds g m full b
      end
  end.

Definition model_obs (c : case) : obs :=
  answer (c_form c) (eval_td (c_ds c) (ds_default (c_ds c)) [] (c_alg c)).
