(* The tie theorem on the fragment: the specification checker accepts the model's
   observation (SELECT / SELECT DISTINCT / ASK / CONSTRUCT). *)
From RV Require Export Sparql.Agreement.
Local Open Scope N_scope.

Definition top_frag (names : list term) (p : alg) : bool :=
  match p with
  | Project q _ => frag names [] q
  | Distinct (Project q _) => frag names [] q
  | _ => false
  end.

Fixpoint nodup_terms (l : list term) : bool :=
  match l with [] => true | t :: r => negb (existsb (N.eqb t) r) && nodup_terms r end.

Lemma nodup_terms_NoDup l : nodup_terms l = true -> NoDup l.
Proof.
  induction l as [|t r IH]; cbn; [constructor|]. intros H. apply andb_true_iff in H as [H1 H2].
  constructor; [|auto]. intros I. apply negb_true_iff in H1.
  assert (existsb (N.eqb t) r = true) by (apply existsb_exists; exists t; split; [exact I|apply N.eqb_refl]).
  congruence.
Qed.

(* well-formed case: graphs are sets, graph names are distinct, the data (and the
   graph names) hold no boolean literals - literals of ONE kind only: the
   complement of the data half of the region of F-C04-9 (Findings.second_kind) *)
Definition case_wf (c : case) : bool :=
  nodup_graph (ds_default (c_ds c))
  && nodup_terms (map fst (ds_named (c_ds c)))
  && forallb (fun ng => nodup_graph (snd ng)) (ds_named (c_ds c))
  && graph_nb (ds_default (c_ds c))
  && forallb (fun ng => nb (fst ng) && graph_nb (snd ng)) (ds_named (c_ds c)).

Definition in_frag (c : case) : bool := top_frag (map fst (ds_named (c_ds c))) (c_alg c).

Lemma case_wf_graphs c : case_wf c = true ->
  graphs_nodup (c_ds c) /\ ds_nb (c_ds c) /\ gok (ds_default (c_ds c)).
Proof.
  unfold case_wf. intros H. apply andb_true_iff in H as [H H5]. apply andb_true_iff in H as [H H4].
  apply andb_true_iff in H as [H H3]. apply andb_true_iff in H as [H1 H2].
  split; [split|split; [|split]].
  - now apply nodup_terms_NoDup.
  - intros ng I. rewrite forallb_forall in H3. apply nodup_graph_NoDup. now apply H3.
  - intros ng I. rewrite forallb_forall in H5. specialize (H5 ng I). now apply andb_true_iff in H5.
  - now apply nodup_graph_NoDup.
  - exact H4.
Qed.

Lemma top_rows c : case_wf c = true -> in_frag c = true ->
  Permutation (eval_td (c_ds c) (ds_default (c_ds c)) [] (c_alg c)) (spec_rows c).
Proof.
  intros W F. destruct (case_wf_graphs c W) as [Gn [Dn Nd]]. unfold in_frag in F. unfold spec_rows.
  assert (K : forall q, frag (map fst (ds_named (c_ds c))) [] q = true ->
              Permutation (eval_td (c_ds c) (ds_default (c_ds c)) [] q)
                          (eval_bu (c_ds c) (ds_default (c_ds c)) q)).
  { intros q Fq. rewrite (pushdown (c_ds c) Gn Dn q [] Fq _ [] Nd eq_refl).
    - rewrite join_ctx_nil; [reflexivity|]. apply bu_wf. eapply frag_shape; eauto.
    - intros v H. cbn in H. congruence. }
  destruct (c_alg c); cbn in F; try discriminate.
  - cbn [eval_td eval_bu]. apply Permutation_map. now apply K.
  - destruct a; try discriminate. cbn [eval_td eval_bu]. apply dedup_perm, Permutation_map. now apply K.
Qed.

Theorem spec_ok_model_frag c : case_wf c = true -> in_frag c = true -> spec_ok c (model_obs c) = true.
Proof.
  intros W F. unfold spec_ok, model_obs. apply answer_perm. symmetry. now apply top_rows.
Qed.
