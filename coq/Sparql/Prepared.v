(* C15: what a prepared Query object keeps between evaluations, as a state machine.
   prepareQuery returns a Query whose algebra tree (with the annotations lazy,
   _vars, no_isolated_scope and the order of the triple patterns of every BGP)
   is shared by all later evaluations; Graph.query(prepared, initBindings=...)
   walks that very tree.  The state of the machine is the tree; an evaluation
   step reads it.  In the model a step does not change the state - that is the
   invariant the code has to keep (seeded changes C15-2: forget() grew a _vars
   set in place; C15-r2-2: evalPart sorted a BGP's triple list in place) - and
   the tie compares the tree after every evaluation of the real object with it. *)
From RV Require Export Sparql.Agreement.
Local Open Scope N_scope.

(* ---- structural equality of algebra trees, annotations included ---- *)
Definition tv_eqb (a b : tv) : bool :=
  match a, b with Tm x, Tm y => N.eqb x y | Vr x, Vr y => N.eqb x y | _, _ => false end.
Definition tpat_eqb (a b : tpat) : bool :=
  let '(a1, a2, a3) := a in let '(b1, b2, b3) := b in tv_eqb a1 b1 && tv_eqb a2 b2 && tv_eqb a3 b3.
Fixpoint leqb {A} (eq : A -> A -> bool) (a b : list A) : bool :=
  match a, b with
  | [], [] => true
  | x :: r, y :: s => eq x y && leqb eq r s
  | _, _ => false
  end.
Definition ovars_eqb (a b : option (list var)) : bool :=
  match a, b with
  | None, None => true
  | Some x, Some y => leqb N.eqb x y
  | _, _ => false
  end.
Definition cmpop_eqb (a b : cmpop) : bool :=
  match a, b with OpEq, OpEq | OpNe, OpNe | OpLt, OpLt | OpGt, OpGt => true | _, _ => false end.

Fixpoint alg_eqb (a b : alg) {struct a} : bool :=
  match a, b with
  | BGP x, BGP y => leqb tpat_eqb x y
  | Join l a1 a2, Join l' b1 b2 => Bool.eqb l l' && alg_eqb a1 b1 && alg_eqb a2 b2
  | LeftJoin v a1 a2 e, LeftJoin v' b1 b2 e' => ovars_eqb v v' && alg_eqb a1 b1 && alg_eqb a2 b2 && expr_eqb e e'
  | Filter n v e q, Filter n' v' e' q' => Bool.eqb n n' && ovars_eqb v v' && expr_eqb e e' && alg_eqb q q'
  | Union a1 a2, Union b1 b2 => alg_eqb a1 b1 && alg_eqb a2 b2
  | Minus a1 a2, Minus b1 b2 => alg_eqb a1 b1 && alg_eqb a2 b2
  | Extend v q x e, Extend v' q' x' e' => ovars_eqb v v' && alg_eqb q q' && N.eqb x x' && expr_eqb e e'
  | Values r, Values r' => leqb sol_eqb r r'
  | Project q vs, Project q' vs' => alg_eqb q q' && leqb N.eqb vs vs'
  | Graph g q, Graph g' q' => tv_eqb g g' && alg_eqb q q'
  | Distinct q, Distinct q' => alg_eqb q q'
  | Slice n q, Slice n' q' => N.eqb n n' && alg_eqb q q'
  | _, _ => false
  end
with expr_eqb (a b : expr) {struct a} : bool :=
  match a, b with
  | EVar x, EVar y => N.eqb x y
  | ECon x, ECon y => N.eqb x y
  | ECmp o a1 a2, ECmp o' b1 b2 => cmpop_eqb o o' && expr_eqb a1 b1 && expr_eqb a2 b2
  | EAnd a1 a2, EAnd b1 b2 => expr_eqb a1 b1 && expr_eqb a2 b2
  | EOr a1 a2, EOr b1 b2 => expr_eqb a1 b1 && expr_eqb a2 b2
  | ENot a1, ENot b1 => expr_eqb a1 b1
  | EBound x, EBound y => N.eqb x y
  | EExists p q, EExists p' q' => Bool.eqb p p' && alg_eqb q q'
  | EIn p a cs, EIn p' a' cs' => Bool.eqb p p' && expr_eqb a a' && leqb N.eqb cs cs'
  | ECoalesce a1 a2, ECoalesce b1 b2 => expr_eqb a1 b1 && expr_eqb a2 b2
  | EIf c a1 a2, EIf c' b1 b2 => expr_eqb c c' && expr_eqb a1 b1 && expr_eqb a2 b2
  | _, _ => false
  end.

(* ---- the state machine ---- *)
Definition pstate := alg.

(* one evaluation of the prepared object on a dataset: the new state and the answer *)
Definition prep_eval (f : form) (s : pstate) (ds : dataset) : pstate * obs :=
  (s, answer f (eval_td ds (ds_default ds) [] s)).

Fixpoint prep_run (f : form) (s : pstate) (steps : list dataset) : list (obs * pstate) :=
  match steps with
  | [] => []
  | ds :: r => let '(s', o) := prep_eval f s ds in (o, s') :: prep_run f s' r
  end.

(* ---- the tie: the tree of the real object after each of its evaluations ---- *)
Definition pcase := (alg * N)%type.          (* the tree right after prepareQuery, number of snapshots *)
Definition pobs := list alg.
Definition model_obs_prep (c : pcase) : pobs := repeat (fst c) (N.to_nat (snd c)).
Definition obs_eqb_prep (a b : pobs) : bool := leqb alg_eqb a b.
(* the specification: no evaluation changes the prepared object *)
Definition spec_ok_prep (c : pcase) (o : pobs) : bool :=
  N.eqb (N.of_nat (length o)) (snd c) && forallb (alg_eqb (fst c)) o.
