(* Lemmas on canonical solutions (sorted association lists). *)
From RV Require Export Sparql.EvalTD.
Local Open Scope N_scope.

Lemma lookup_bind_same v t m : lookup v (bind v t m) = Some t.
Proof.
  induction m as [|[w u] r IH]; cbn.
  - now rewrite N.eqb_refl.
  - destruct (N.ltb v w) eqn:L; cbn.
    + now rewrite N.eqb_refl.
    + destruct (N.eqb v w) eqn:E; cbn.
      * now rewrite N.eqb_refl.
      * now rewrite E.
Qed.

Lemma lookup_bind_other v w t m : v <> w -> lookup w (bind v t m) = lookup w m.
Proof.
  intros D. induction m as [|[x u] r IH]; cbn.
  - destruct (N.eqb w v) eqn:E; [apply N.eqb_eq in E; congruence|reflexivity].
  - destruct (N.ltb v x) eqn:L; cbn.
    + destruct (N.eqb w v) eqn:E; [apply N.eqb_eq in E; congruence|reflexivity].
    + destruct (N.eqb v x) eqn:E; cbn.
      * apply N.eqb_eq in E; subst x.
        destruct (N.eqb w v) eqn:E2; [apply N.eqb_eq in E2; congruence|reflexivity].
      * destruct (N.eqb w x); [reflexivity|exact IH].
Qed.

Lemma lookup_bind v w t m : lookup w (bind v t m) = if N.eqb w v then Some t else lookup w m.
Proof.
  destruct (N.eqb w v) eqn:E.
  - apply N.eqb_eq in E; subst; apply lookup_bind_same.
  - apply lookup_bind_other. intros ->. now rewrite N.eqb_refl in E.
Qed.

Definition lo_ok (lo : option var) (v : var) : bool :=
  match lo with None => true | Some w => N.ltb w v end.

Lemma sorted_from_weaken lo lo' m :
  (forall v, lo_ok lo v = true -> lo_ok lo' v = true) ->
  sorted_from lo m = true -> sorted_from lo' m = true.
Proof.
  destruct m as [|[v t] r]; cbn; [reflexivity|].
  intros H S. apply andb_true_iff in S as [A B]. apply andb_true_iff; split; [|exact B].
  apply (H v). exact A.
Qed.

Lemma wf_bind_from lo v t m :
  lo_ok lo v = true -> sorted_from lo m = true -> sorted_from lo (bind v t m) = true.
Proof.
  revert lo. induction m as [|[w u] r IH]; intros lo Hlo S; cbn in *.
  - unfold lo_ok in Hlo. now rewrite Hlo.
  - apply andb_true_iff in S as [A B].
    destruct (N.ltb v w) eqn:L; cbn.
    + unfold lo_ok in Hlo. rewrite Hlo, L, B. reflexivity.
    + destruct (N.eqb v w) eqn:E; cbn.
      * apply N.eqb_eq in E; subst w. unfold lo_ok in Hlo. rewrite Hlo. exact B.
      * rewrite A. cbn. apply IH; [|exact B].
        cbn. apply N.ltb_lt. apply N.ltb_ge in L. apply N.eqb_neq in E. lia.
Qed.

Lemma wf_bind v t m : sol_wf m = true -> sol_wf (bind v t m) = true.
Proof. apply wf_bind_from. reflexivity. Qed.

Lemma lookup_below x v r : sorted_from (Some x) r = true -> v <= x -> lookup v r = None.
Proof.
  revert x. induction r as [|[w u] r IH]; intros x S L; cbn in *; [reflexivity|].
  apply andb_true_iff in S as [A B]. apply N.ltb_lt in A.
  destruct (N.eqb v w) eqn:E; [apply N.eqb_eq in E; lia|].
  apply (IH w); [exact B|lia].
Qed.

Lemma sol_ext_from lo m1 m2 :
  sorted_from lo m1 = true -> sorted_from lo m2 = true ->
  (forall v, lookup v m1 = lookup v m2) -> m1 = m2.
Proof.
  revert lo m2. induction m1 as [|[v t] r1 IH]; intros lo [|[w u] r2] S1 S2 H.
  - reflexivity.
  - specialize (H w). cbn in H. now rewrite N.eqb_refl in H.
  - specialize (H v). cbn in H. now rewrite N.eqb_refl in H.
  - cbn in S1, S2. apply andb_true_iff in S1 as [A1 B1]. apply andb_true_iff in S2 as [A2 B2].
    assert (v = w) as ->.
    { destruct (N.lt_trichotomy v w) as [L|[L|L]]; [|exact L|].
      - pose proof (H v) as Hv. cbn in Hv. rewrite N.eqb_refl in Hv.
        destruct (N.eqb v w) eqn:E; [apply N.eqb_eq in E; lia|].
        rewrite (lookup_below w v r2 B2) in Hv by lia. discriminate.
      - pose proof (H w) as Hw. cbn in Hw. rewrite N.eqb_refl in Hw.
        destruct (N.eqb w v) eqn:E; [apply N.eqb_eq in E; lia|].
        rewrite (lookup_below v w r1 B1) in Hw by lia. discriminate. }
    pose proof (H w) as Hw. cbn in Hw. rewrite N.eqb_refl in Hw. injection Hw as ->.
    f_equal. apply (IH (Some w)); [exact B1|exact B2|].
    intros x. destruct (N.eqb x w) eqn:E.
    + apply N.eqb_eq in E; subst x.
      rewrite (lookup_below w w r1 B1), (lookup_below w w r2 B2) by lia. reflexivity.
    + specialize (H x). cbn in H. now rewrite E in H.
Qed.

Lemma sol_ext m1 m2 :
  sol_wf m1 = true -> sol_wf m2 = true -> (forall v, lookup v m1 = lookup v m2) -> m1 = m2.
Proof. apply sol_ext_from. Qed.

Lemma bind_comm v w t u m :
  sol_wf m = true -> v <> w -> bind v t (bind w u m) = bind w u (bind v t m).
Proof.
  intros W D. apply sol_ext; try (apply wf_bind, wf_bind, W).
  intros x. rewrite !lookup_bind.
  destruct (N.eqb x v) eqn:E1, (N.eqb x w) eqn:E2; try reflexivity.
  apply N.eqb_eq in E1, E2. congruence.
Qed.

Lemma bind_same_noop v t m : sol_wf m = true -> lookup v m = Some t -> bind v t m = m.
Proof.
  intros W L. apply sol_ext; [apply wf_bind, W|exact W|].
  intros x. rewrite lookup_bind. destruct (N.eqb x v) eqn:E; [|reflexivity].
  apply N.eqb_eq in E; subst. now rewrite L.
Qed.

(* generic list facts *)
Lemma flat_map_perm_pointwise {A B} (f g : A -> list B) l :
  (forall a, In a l -> Permutation (f a) (g a)) -> Permutation (flat_map f l) (flat_map g l).
Proof.
  induction l as [|a l IH]; intros H; cbn; [constructor|].
  apply Permutation_app; [apply H; now left|apply IH; intros; apply H; now right].
Qed.

Lemma flat_map_app_fun {A B} (f g : A -> list B) l :
  Permutation (flat_map (fun a => f a ++ g a) l) (flat_map f l ++ flat_map g l).
Proof.
  induction l as [|a l IH]; cbn; [constructor|].
  rewrite <- !app_assoc. apply Permutation_app_head.
  rewrite IH. rewrite !app_assoc. apply Permutation_app_tail. apply Permutation_app_comm.
Qed.

Lemma flat_map_swap {A B C} (F : A -> B -> list C) la lb :
  Permutation (flat_map (fun a => flat_map (fun b => F a b) lb) la)
              (flat_map (fun b => flat_map (fun a => F a b) la) lb).
Proof.
  induction la as [|a la IH]; cbn.
  - induction lb; cbn; [constructor|assumption].
  - rewrite IH. symmetry. apply flat_map_app_fun.
Qed.
