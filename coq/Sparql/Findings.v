(* Trigger predicates of the known findings of C04: purely syntactic conditions
   on the algebra (with rdflib's annotations), as narrow as the analysis below
   allows.  [scan pushed p] walks the tree the way the evaluator does and keeps
   [pushed] = the variables that MAY be bound in the QueryContext with which
   evalPart reaches the node (bindings pushed down by evalLazyJoin, evalLeftJoin
   and Builtin_EXISTS).  0 = no trigger. *)
From RV Require Export Sparql.EvalTD.
Local Open Scope N_scope.

Definition inter (a b : list var) : list var := filter (fun v => memv v b) a.
Definition minusv (a b : list var) : list var := filter (fun v => negb (memv v b)) a.
Definition subsetv (a b : list var) : bool := forallb (fun v => memv v b) a.
Definition nonempty (a : list var) : bool := match a with [] => false | _ => true end.

(* variables certainly / possibly bound in every solution of a pattern (SPARQL 18.2.1) *)
Fixpoint cert (p : alg) : list var :=
  match p with
  | BGP ts => bgp_vars ts
  | Join _ a b => cert a ++ cert b
  | LeftJoin _ a _ _ => cert a
  | Filter _ _ _ q => cert q
  | Union a b => inter (cert a) (cert b)
  | Minus a _ => cert a
  | Extend _ q _ _ => cert q
  | Values rows => match rows with [] => [] | r :: rs => filter (fun v => forallb (fun r' => memv v (dom r')) rs) (dom r) end
  | Project q vs => inter (cert q) vs
  | Graph (Vr v) q => v :: cert q
  | Graph (Tm _) q => cert q
  | Distinct q => cert q
  | Slice _ q => cert q
  end.

Fixpoint maybe (p : alg) : list var :=
  match p with
  | BGP ts => bgp_vars ts
  | Join _ a b => maybe a ++ maybe b
  | LeftJoin _ a b _ => maybe a ++ maybe b
  | Filter _ _ _ q => maybe q
  | Union a b => maybe a ++ maybe b
  | Minus a _ => maybe a
  | Extend _ q v _ => v :: maybe q
  | Values rows => flat_map dom rows
  | Project q vs => inter (maybe q) vs
  | Graph (Vr v) q => v :: maybe q
  | Graph (Tm _) q => maybe q
  | Distinct q => maybe q
  | Slice _ q => maybe q
  end.

(* every variable occurring anywhere *)
Fixpoint allvars (p : alg) : list var :=
  match p with
  | BGP ts => bgp_vars ts
  | Join _ a b => allvars a ++ allvars b
  | LeftJoin _ a b e => allvars a ++ allvars b ++ evars e
  | Filter _ _ e q => evars e ++ allvars q
  | Union a b => allvars a ++ allvars b
  | Minus a b => allvars a ++ allvars b
  | Extend _ q v e => v :: evars e ++ allvars q
  | Values rows => flat_map dom rows
  | Project q vs => vs ++ allvars q
  | Graph (Vr v) q => v :: allvars q
  | Graph (Tm _) q => allvars q
  | Distinct q => allvars q
  | Slice _ q => allvars q
  end
with evars (e : expr) : list var :=
  match e with
  | EVar v => [v]
  | ECon _ => []
  | ECmp _ a b => evars a ++ evars b
  | EAnd a b => evars a ++ evars b
  | EOr a b => evars a ++ evars b
  | ENot a => evars a
  | EBound v => [v]
  | EExists _ p => allvars p
  | EIn _ a _ => evars a
  | ECoalesce a b => evars a ++ evars b
  | EIf c a b => evars c ++ evars a ++ evars b
  end.

(* can the pattern yield the same solution twice?  [df p]: certainly not, by a
   syntactic argument: BGPs and duplicate-free VALUES tables are duplicate-free,
   a join of duplicate-free operands is duplicate-free when every solution of
   each operand binds the same variables ([un]: maybe = cert) - otherwise two
   different pairs can merge into one solution *)
Definition un (p : alg) : bool := subsetv (maybe p) (cert p).

Fixpoint nodup_rows (rows : list sol) : bool :=
  match rows with [] => true | r :: rs => negb (mem_sol r rs) && nodup_rows rs end.

Fixpoint df (p : alg) : bool :=
  match p with
  | BGP _ => true
  | Values rows => nodup_rows rows
  | Join _ a b | LeftJoin _ a b _ => df a && df b && un a && un b
  | Filter _ _ _ q => df q
  | Minus a _ => df a
  | Extend _ q v _ => df q && negb (memv v (maybe q))
  | Union _ _ => false
  | Project q vs => df q && subsetv (maybe q) vs
  | Graph (Tm _) q => df q
  | Graph (Vr _) q => df q && un q
  | Distinct _ => true
  | Slice _ _ => false
  end.

(* the right operand of a hash join must not repeat a solution, also after its
   solutions have been merged with the incoming context (uniform domains) *)
Definition hash_ok (pushed : list var) (b : alg) : bool :=
  df b && (un b || negb (nonempty pushed)).

(* do the solutions of the pattern drop bindings of the incoming context? *)
Fixpoint forgets (p : alg) : bool :=
  match p with
  | Project _ _ => true
  | Join _ a b => forgets a || forgets b
  | LeftJoin _ a b _ => forgets a || forgets b
  | Filter _ _ _ q => forgets q
  | Union a b => forgets a || forgets b
  | Minus a _ => forgets a
  | Extend _ q _ _ => forgets q
  | Graph _ q => forgets q
  | Distinct q => forgets q
  | Slice _ q => forgets q
  | BGP _ | Values _ => false
  end.

Fixpoint has_exists (e : expr) : bool :=
  match e with
  | ECmp _ a b | EAnd a b | EOr a b | ECoalesce a b => has_exists a || has_exists b
  | ENot a | EIn _ a _ => has_exists a
  | EIf c a b => has_exists c || has_exists a || has_exists b
  | EExists _ _ => true
  | _ => false
  end.

Definition boolean_valued (e : expr) : bool :=
  match e with EVar _ | ECon _ => false | _ => true end.

(* not a boolean literal *)
Definition nb (t : term) : bool := match kind_of t with KBool _ => false | _ => true end.
(* BIND(?b AS ?c) / BIND(true AS ?c): a copy of a boolean *)
Definition copies_bool (e : expr) (bv : list var) : bool :=
  match e with EVar w => memv w bv | ECon t => negb (nb t) | _ => false end.

(* variables bound by BIND to the value of a boolean expression *)
Fixpoint bool_vars (p : alg) : list var :=
  match p with
  | BGP _ | Values _ => []
  | Join _ a b | Union a b | Minus a b => bool_vars a ++ bool_vars b
  | LeftJoin _ a b e => bool_vars a ++ bool_vars b ++ bool_vars_e e
  | Filter _ _ e q => bool_vars_e e ++ bool_vars q
  | Extend _ q v e =>
      (if boolean_valued e || copies_bool e (bool_vars q) then [v] else []) ++ bool_vars_e e ++ bool_vars q
  | Project q _ | Graph _ q | Distinct q | Slice _ q => bool_vars q
  end
with bool_vars_e (e : expr) : list var :=
  match e with
  | ECmp _ a b | EAnd a b | EOr a b | ECoalesce a b => bool_vars_e a ++ bool_vars_e b
  | ENot a | EIn _ a _ => bool_vars_e a
  | EIf c a b => bool_vars_e c ++ bool_vars_e a ++ bool_vars_e b
  | EExists _ p => bool_vars p
  | _ => []
  end.

(* variables compared with = != < > somewhere *)
Fixpoint cmp_vars (p : alg) : list var :=
  match p with
  | BGP _ | Values _ => []
  | Join _ a b | Union a b | Minus a b => cmp_vars a ++ cmp_vars b
  | LeftJoin _ a b e => cmp_vars a ++ cmp_vars b ++ cmp_vars_e e
  | Filter _ _ e q => cmp_vars_e e ++ cmp_vars q
  | Extend _ q _ e => cmp_vars_e e ++ cmp_vars q
  | Project q _ | Graph _ q | Distinct q | Slice _ q => cmp_vars q
  end
with cmp_vars_e (e : expr) : list var :=
  match e with
  | ECmp _ a b => evars a ++ evars b ++ cmp_vars_e a ++ cmp_vars_e b
  | EAnd a b | EOr a b | ECoalesce a b => cmp_vars_e a ++ cmp_vars_e b
  | ENot a => cmp_vars_e a
  | EIn _ a _ => evars a ++ cmp_vars_e a
  | EIf c a b => cmp_vars_e c ++ cmp_vars_e a ++ cmp_vars_e b
  | EExists _ p => cmp_vars p
  | _ => []
  end.

Definition first_nz (a b : N) : N := if N.eqb a 0 then b else a.
Notation "a |>| b" := (first_nz a b) (at level 60, right associativity).

Definition vis_ok (pushed : list var) (exc : option (list var)) (q : alg) (e : expr) : bool :=
  (* a pushed variable the expression mentions must be visible to rdflib exactly
     when the bottom-up semantics has it in the solution *)
  let fv := match exc with Some l => l | None => [] end in
  forallb (fun v => (memv v fv && memv v (cert q)) || (negb (memv v fv) && negb (memv v (maybe q))))
          (inter (evars e) pushed).

Fixpoint scan (names : list term) (inex : bool) (pushed : list var) (p : alg) {struct p} : N :=
  match p with
  | BGP _ => 0
  | Values _ => 0
  | Join lz a b =>
      (* trigger 3 (hash join over a right operand that may repeat a solution) is gone:
         F-C04-3 was repaired by 3512ad97 *)
      (if lz && forgets a && nonempty pushed then 4 else 0)
      |>| scan names inex pushed a
      |>| scan names inex (if lz then pushed ++ maybe a else pushed) b
  | LeftJoin pv a b e =>
      (if forgets a && nonempty pushed then 4 else 0)
      |>| (if nonempty (inter (inter (evars e) pushed) (maybe a ++ maybe b)) then 5 else 0)
      |>| (match pv with
           | None => if nonempty pushed then 6 else 0
           | Some vs =>
               if subsetv (maybe a) vs
                  && (negb (nonempty pushed) || subsetv (inter vs pushed) (cert a))
               then 0 else 6
           end)
      |>| (if nonempty (inter (cmp_vars_e e) (bool_vars a ++ bool_vars b)) then 9 else 0)
      |>| scan names inex pushed a
      |>| scan names inex (pushed ++ maybe a) b
      |>| scan_e names (pushed ++ maybe a ++ maybe b) e
  | Filter nis fv e q =>
      (if nis || vis_ok pushed fv q e then 0 else 7)
      |>| (if nonempty (inter (cmp_vars_e e) (bool_vars q)) then 9 else 0)
      |>| scan names inex pushed q
      |>| scan_e names (if nis then pushed ++ maybe q
                  else inter pushed (match fv with Some l => l | None => [] end) ++ maybe q) e
  | Union a b => scan names inex pushed a |>| scan names inex pushed b
  | Minus a b =>
      (if negb (nonempty pushed)
          || (subsetv (inter (allvars b) pushed) (cert a) && nonempty (inter (cert a) (cert b)))
       then 0 else 2)
      |>| scan names inex pushed a |>| scan names inex pushed b
  | Extend xv q v e =>
      (if memv v pushed || memv v (maybe q) then 1 else 0)
      |>| (if vis_ok pushed xv q e then 0 else 7)
      |>| (if nonempty (inter (cmp_vars_e e) (bool_vars q)) then 9 else 0)
      |>| scan names inex pushed q
      |>| scan_e names (inter pushed (match xv with Some l => l | None => [] end) ++ maybe q) e
  | Project q vs =>
      (if subsetv (inter pushed (allvars q)) vs then 0 else 4)
      |>| scan names inex pushed q
  | Graph _ q => scan names inex pushed q
  | Distinct q =>
      (* evalDistinct under pushed bindings collapses solutions that differ only in
         whether they bind a pushed variable themselves (finding F-C04-4) *)
      (if negb inex && nonempty (inter pushed (minusv (maybe q) (cert q))) then 4 else 0)
      |>| scan names inex pushed q
  | Slice _ q =>
      (* rdflib never joins lazily over a Slice (algebra.analyse) and the generator puts a
         sliced sub-SELECT only at the top of the outermost group: no trigger.  (Under
         OPTIONAL / EXISTS the OFFSET would apply to the restricted sequence - the family of
         F-C04-4 - such queries are not generated.) *)
      scan names inex pushed q
  end
with scan_e (names : list term) (pushed : list var) (e : expr) {struct e} : N :=
  match e with
  | ECmp _ a b | EAnd a b | EOr a b | ECoalesce a b => scan_e names pushed a |>| scan_e names pushed b
  | ENot a | EIn _ a _ => scan_e names pushed a
  | EIf c a b => scan_e names pushed c |>| scan_e names pushed a |>| scan_e names pushed b
  | EExists _ p =>
      (* the specification lets the top filter of an EXISTS pattern see the current
         solution; rdflib does so only when translateExists marked it *)
      (match p with Filter false _ _ _ => 7 | _ => 0 end) |>| scan names true pushed p
  | _ => 0
  end.

(* ---- F-C04-9, the part that depends on the DATA: literals of a second kind ---- *)
(* the constants a query compares, and the values its VALUES tables hold *)
Fixpoint cmp_consts (p : alg) : list term :=
  match p with
  | BGP _ => []
  | Values rows => flat_map (map snd) rows
  | Join _ a b | Union a b | Minus a b => cmp_consts a ++ cmp_consts b
  | LeftJoin _ a b e => cmp_consts a ++ cmp_consts b ++ cmp_consts_e e
  | Filter _ _ e q => cmp_consts_e e ++ cmp_consts q
  | Extend _ q _ e => cmp_consts_e e ++ cmp_consts q
  | Project q _ | Graph _ q | Distinct q | Slice _ q => cmp_consts q
  end
with cmp_consts_e (e : expr) : list term :=
  match e with
  | ECon t => [t]
  | ECmp _ a b | EAnd a b | EOr a b | ECoalesce a b => cmp_consts_e a ++ cmp_consts_e b
  | ENot a => cmp_consts_e a
  | EIn _ a cs => cmp_consts_e a ++ cs
  | EIf c a b => cmp_consts_e c ++ cmp_consts_e a ++ cmp_consts_e b
  | EExists _ p => cmp_consts p
  | _ => []
  end.
(* the variables a pattern can bind to a literal: object positions of triple
   patterns, VALUES columns, BIND targets, GRAPH variables (graph names are data
   terms here) - also inside EXISTS patterns *)
Fixpoint lit_vars (p : alg) : list var :=
  match p with
  | BGP ts => flat_map (fun t : tpat => match snd t with Vr v => [v] | Tm _ => [] end) ts
  | Values rows => flat_map (map fst) rows
  | Join _ a b | Union a b | Minus a b => lit_vars a ++ lit_vars b
  | LeftJoin _ a b e => lit_vars a ++ lit_vars b ++ lit_vars_e e
  | Filter _ _ e q => lit_vars_e e ++ lit_vars q
  | Extend _ q v e => v :: lit_vars_e e ++ lit_vars q
  | Project q _ | Distinct q | Slice _ q => lit_vars q
  | Graph (Vr v) q => v :: lit_vars q
  | Graph (Tm _) q => lit_vars q
  end
with lit_vars_e (e : expr) : list var :=
  match e with
  | ECmp _ a b | EAnd a b | EOr a b | ECoalesce a b => lit_vars_e a ++ lit_vars_e b
  | ENot a | EIn _ a _ => lit_vars_e a
  | EIf c a b => lit_vars_e c ++ lit_vars_e a ++ lit_vars_e b
  | EExists _ p => lit_vars p
  | _ => []
  end.
(* a comparison (= != < >, IN) that can meet literals of two kinds: an operand is a
   variable of [L], or not atomic, or both operands are constants.  (A variable
   outside [L] holds an IRI: against any literal = != are RDFterm-equality and
   < > raise, in rdflib as in 17.3.) *)
Definition risky_opnd (L : list var) (e : expr) : bool :=
  match e with EVar v => memv v L | ECon _ => false | _ => true end.
Definition is_con (e : expr) : bool := match e with ECon _ => true | _ => false end.
Fixpoint has_cmp_in (L : list var) (p : alg) : bool :=
  match p with
  | BGP _ | Values _ => false
  | Join _ a b | Union a b | Minus a b => has_cmp_in L a || has_cmp_in L b
  | LeftJoin _ a b e => has_cmp_in L a || has_cmp_in L b || has_cmp_e L e
  | Filter _ _ e q => has_cmp_e L e || has_cmp_in L q
  | Extend _ q _ e => has_cmp_e L e || has_cmp_in L q
  | Project q _ | Graph _ q | Distinct q | Slice _ q => has_cmp_in L q
  end
with has_cmp_e (L : list var) (e : expr) : bool :=
  match e with
  | ECmp _ a b => risky_opnd L a || risky_opnd L b || (is_con a && is_con b) || has_cmp_e L a || has_cmp_e L b
  | EIn _ a _ => risky_opnd L a || is_con a || has_cmp_e L a
  | EAnd a b | EOr a b | ECoalesce a b => has_cmp_e L a || has_cmp_e L b
  | ENot a => has_cmp_e L a
  | EIf c a b => has_cmp_e L c || has_cmp_e L a || has_cmp_e L b
  | EExists _ p => has_cmp_in L p
  | _ => false
  end.
Definition has_cmp (p : alg) : bool := has_cmp_in (lit_vars p) p.
Definition graph_has_bool (g : graph) : bool :=
  existsb (fun t : triple => let '(a, b, d) := t in negb (nb a && nb b && nb d)) g.
(* a literal of a second kind (this term model: a boolean next to the integers) is
   in the data, in a graph name, in a VALUES table or among the compared constants *)
Definition second_kind (c : case) : bool :=
  graph_has_bool (ds_default (c_ds c))
  || existsb (fun ng => negb (nb (fst ng)) || graph_has_bool (snd ng)) (ds_named (c_ds c))
  || existsb (fun t => negb (nb t)) (cmp_consts (c_alg c)).

(* F-C04-9: (a) locally where a comparison is evaluated (Filter, Extend, LeftJoin: a
   compared variable that the pattern at hand may bind to a BIND-made boolean) -
   C04_pushdown_partial shows that this local form is enough when the data holds literals
   of one kind; (b) the query compares a variable that some pattern of the query can bind to a
   literal (or two constants, or a compound operand) and the case holds a literal of a
   second kind: = != < > between literals of different kinds give false / true /
   an order in rdflib where SPARQL 17.3 raises a type error *)
Definition kf (c : case) : N :=
  scan (map fst (ds_named (c_ds c))) false [] (c_alg c)
  |>| (if has_cmp (c_alg c) && second_kind c then 9 else 0).
