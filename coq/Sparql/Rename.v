(* C15: renaming of variables.  A permutation of the variable names ([r] with inverse [r'])
   commutes with the evaluation: the solutions of the renamed pattern are the renamed
   solutions.  Proved for BGPs (specification and model, every context), and in the
   specification for Join, Union, Minus, Values, Graph over an IRI, Distinct, sub-SELECT. *)
From RV Require Export Sparql.VariantProofs.
Local Open Scope N_scope.

Section Ren.
Variables r r' : var -> var.
Hypothesis r'r : forall v, r' (r v) = v.
Hypothesis rr' : forall w, r (r' w) = w.

(* the renamed solution, in canonical form *)
Definition ren_s (m : sol) : sol := fold_right (fun p acc => bind (r (fst p)) (snd p) acc) [] m.
Definition ren_tv (x : tv) : tv := match x with Tm t => Tm t | Vr v => Vr (r v) end.
Definition ren_tp (t : tpat) : tpat := let '(s, p, o) := t in (ren_tv s, ren_tv p, ren_tv o).

Lemma eqb_r v w : N.eqb w (r v) = N.eqb (r' w) v.
Proof.
  destruct (N.eqb w (r v)) eqn:E.
  - apply N.eqb_eq in E. subst. rewrite r'r. symmetry. apply N.eqb_refl.
  - symmetry. apply N.eqb_neq. intros <-. rewrite rr' in E. now rewrite N.eqb_refl in E.
Qed.

Lemma lookup_ren m w : lookup w (ren_s m) = lookup (r' w) m.
Proof.
  induction m as [|[v t] m IH]; [reflexivity|]. cbn [ren_s fold_right fst snd lookup].
  fold (ren_s m). rewrite lookup_bind, IH, eqb_r. reflexivity.
Qed.

Lemma lookup_ren_r m v : lookup (r v) (ren_s m) = lookup v m.
Proof. now rewrite lookup_ren, r'r. Qed.

Lemma wf_ren m : sol_wf (ren_s m) = true.
Proof. induction m as [|[v t] m IH]; [reflexivity|]. cbn [ren_s fold_right]. now apply wf_bind. Qed.

Lemma ren_bind v t m : ren_s (bind v t m) = bind (r v) t (ren_s m).
Proof.
  apply sol_ext; [apply wf_ren|apply wf_bind, wf_ren|].
  intros w. rewrite lookup_ren, !lookup_bind, lookup_ren, eqb_r. reflexivity.
Qed.

Lemma ren_unify c x t : unify (ren_s c) (ren_tv x) t = option_map ren_s (unify c x t).
Proof.
  destruct x as [u|v]; cbn.
  - destruct (N.eqb u t); reflexivity.
  - rewrite lookup_ren_r. destruct (lookup v c) as [u|].
    + destruct (N.eqb u t); reflexivity.
    + cbn. now rewrite ren_bind.
Qed.

Lemma ren_ext c tp tr : ext (ren_s c) (ren_tp tp) tr = option_map ren_s (ext c tp tr).
Proof.
  destruct tp as [[s p] o], tr as [[a b] d]. cbn [ext ren_tp].
  rewrite ren_unify. destruct (unify c s a) as [c1|]; [|reflexivity]. cbn [option_map].
  rewrite ren_unify. destruct (unify c1 p b) as [c2|]; [|reflexivity]. cbn [option_map].
  apply ren_unify.
Qed.

Lemma map_flat_map' {A B C} (f : B -> C) (h : A -> list B) l :
  map f (flat_map h l) = flat_map (fun x => map f (h x)) l.
Proof. induction l; cbn; [reflexivity|]. now rewrite map_app, IHl. Qed.

Theorem ren_bgp_ext g ts : forall c,
  bgp_ext g (ren_s c) (map ren_tp ts) = map ren_s (bgp_ext g c ts).
Proof.
  induction ts as [|tp rest IH]; intros c; [reflexivity|].
  cbn [map bgp_ext]. rewrite map_flat_map'. apply flat_map_ext. intros tr.
  rewrite ren_ext. destruct (ext c tp tr) as [c'|]; [|reflexivity]. cbn [option_map]. apply IH.
Qed.

(* the specification: the renamed BGP has the renamed solutions, list for list *)
Theorem ren_bu_bgp ds g ts : eval_bu ds g (BGP (map ren_tp ts)) = map ren_s (eval_bu ds g (BGP ts)).
Proof. cbn [eval_bu]. exact (ren_bgp_ext g ts []). Qed.

(* the model, under every context: rdflib's run-time order of the patterns may differ
   between the two spellings (it does not: the number of bound positions is the same), so up
   to the order of the solutions *)
Theorem ren_td_bgp ds g c ts : sol_wf c = true ->
  Permutation (eval_td ds g (ren_s c) (BGP (map ren_tp ts))) (map ren_s (eval_td ds g c (BGP ts))).
Proof.
  intros W. cbn [eval_td]. rewrite !eval_bgp_ext.
  etransitivity; [apply bgp_ext_perm; [apply sort_ts_perm|apply wf_ren]|].
  rewrite ren_bgp_ext. apply Permutation_map. symmetry. apply bgp_ext_perm; [apply sort_ts_perm|exact W].
Qed.

(* ---- joins, unions, VALUES tables in the specification ---- *)
Lemma ren_merge b a : sol_wf a = true -> ren_s (merge b a) = merge (ren_s b) (ren_s a).
Proof.
  intros W. apply sol_ext; [apply wf_ren|apply wf_merge, wf_ren|].
  intros w. rewrite lookup_ren, (lookup_merge b a _ W), (lookup_merge _ _ _ (wf_ren a)), !lookup_ren. reflexivity.
Qed.

Lemma ren_compat_prop a b : compat_prop (ren_s a) (ren_s b) <-> compat_prop a b.
Proof.
  unfold compat_prop. split; intros H v t u La Lb.
  - apply (H (r v) t u); now rewrite lookup_ren_r.
  - rewrite lookup_ren in La, Lb. eapply H; eauto.
Qed.

Lemma ren_compatible a b : sol_wf a = true -> compatible (ren_s a) (ren_s b) = compatible a b.
Proof.
  intros W. destruct (compatible a b) eqn:E.
  - apply (proj2 (compatible_spec _ _ (wf_ren a))). apply (proj2 (ren_compat_prop a b)). now apply (proj1 (compatible_spec a b W)).
  - destruct (compatible (ren_s a) (ren_s b)) eqn:E'; [|reflexivity].
    apply (proj1 (compatible_spec _ _ (wf_ren a))) in E'. apply (proj1 (ren_compat_prop a b)) in E'.
    apply (proj2 (compatible_spec a b W)) in E'. congruence.
Qed.

Lemma ren_join_lists A B : all_wf A -> all_wf B ->
  join_lists (map ren_s A) (map ren_s B) = map ren_s (join_lists A B).
Proof.
  intros WA WB. unfold join_lists. rewrite map_flat_map', flat_map_concat_map, map_map, <- flat_map_concat_map.
  apply flat_map_ext_in. intros x Ix.
  rewrite map_flat_map', flat_map_concat_map, map_map, <- flat_map_concat_map.
  apply flat_map_ext_in. intros y Iy.
  rewrite (ren_compatible x y (WA x Ix)). destruct (compatible x y); [|reflexivity].
  cbn. now rewrite (ren_merge x y (WB y Iy)).
Qed.

Lemma memv_ren w vs : memv w (map r vs) = memv (r' w) vs.
Proof. unfold memv. induction vs as [|x l IH]; cbn; [reflexivity|]. now rewrite eqb_r, IH. Qed.

Lemma ren_restrict vs m :
  restrict (fun v => memv v (map r vs)) (ren_s m) = ren_s (restrict (fun v => memv v vs) m).
Proof.
  apply sol_ext; [apply wf_restrict, wf_ren|apply wf_ren|].
  intros w. rewrite lookup_restrict, !lookup_ren, lookup_restrict, memv_ren. reflexivity.
Qed.

(* renaming is injective on canonical solutions, so DISTINCT commutes with it *)
Lemma ren_inj x y : sol_wf x = true -> sol_wf y = true -> ren_s x = ren_s y -> x = y.
Proof.
  intros Wx Wy E. apply sol_ext; auto. intros v. rewrite <- (lookup_ren_r x), <- (lookup_ren_r y). now rewrite E.
Qed.

Lemma ren_sol_eqb x y : sol_wf x = true -> sol_wf y = true -> sol_eqb (ren_s x) (ren_s y) = sol_eqb x y.
Proof.
  intros Wx Wy. destruct (sol_eqb x y) eqn:E.
  - apply sol_eqb_eq in E. subst. now apply sol_eqb_eq.
  - destruct (sol_eqb (ren_s x) (ren_s y)) eqn:E'; [|reflexivity].
    apply sol_eqb_eq in E'. apply (ren_inj x y Wx Wy) in E'. subst. 
    assert (sol_eqb y y = true) by now apply sol_eqb_eq. congruence.
Qed.

Lemma ren_dedup L : all_wf L -> dedup (map ren_s L) = map ren_s (dedup L).
Proof.
  induction L as [|x L IH]; intros W; [reflexivity|]. cbn [map dedup].
  assert (WL : all_wf L) by (intros m I; apply W; now right).
  rewrite (IH WL). f_equal.
  assert (Wd : all_wf (dedup L)) by (intros m I; apply WL; now apply dedup_in).
  revert Wd. generalize (dedup L) as D. induction D as [|y D IHD]; intros Wd; [reflexivity|]. cbn [map filter].
  rewrite (ren_sol_eqb x y (W x (or_introl eq_refl)) (Wd y (or_introl eq_refl))).
  assert (WD : all_wf D) by (intros m I; apply Wd; now right).
  destruct (sol_eqb x y); cbn [negb map]; rewrite (IHD WD); reflexivity.
Qed.

Fixpoint ren_alg (p : alg) : alg :=
  match p with
  | BGP ts => BGP (map ren_tp ts)
  | Join l a b => Join l (ren_alg a) (ren_alg b)
  | Union a b => Union (ren_alg a) (ren_alg b)
  | Values rows => Values (map ren_s rows)
  | Project q vs => Project (ren_alg q) (map r vs)
  | Distinct q => Distinct (ren_alg q)
  | Graph (Tm t) q => Graph (Tm t) (ren_alg q)
  | _ => p
  end.
(* the part of the language the renaming theorem covers so far: no expressions (FILTER, BIND,
   OPTIONAL conditions), no MINUS, no GRAPH over a variable *)
Fixpoint rfrag (p : alg) : bool :=
  match p with
  | BGP _ | Values _ => true
  | Join _ a b | Union a b => rfrag a && rfrag b
  | Project q _ | Distinct q | Graph (Tm _) q => rfrag q
  | _ => false
  end.

Theorem ren_bu ds p : rfrag p = true -> shape p = true ->
  forall g, eval_bu ds g (ren_alg p) = map ren_s (eval_bu ds g p).
Proof.
  induction p; cbn [rfrag]; try discriminate; intros F S g0; cbn [ren_alg].
  - apply ren_bu_bgp.
  - apply andb_true_iff in F as [F1 F2]. cbn [shape] in S. apply andb_true_iff in S as [S1 S2].
    cbn [eval_bu]. rewrite (IHp1 F1 S1), (IHp2 F2 S2). apply ren_join_lists; now apply bu_wf.
  - apply andb_true_iff in F as [F1 F2]. cbn [shape] in S. apply andb_true_iff in S as [S1 S2].
    cbn [eval_bu]. rewrite (IHp1 F1 S1), (IHp2 F2 S2). symmetry. apply map_app.
  - reflexivity.
  - cbn [shape] in S. cbn [eval_bu]. rewrite (IHp F S), !map_map. apply map_ext. intros m. apply ren_restrict.
  - destruct g as [t|v]; [|discriminate F]. cbn [shape] in S. cbn [ren_alg eval_bu].
    match goal with |- context [existsb ?f ?l] => destruct (existsb f l) end; [apply (IHp F S)|reflexivity].
  - cbn [shape] in S. cbn [eval_bu]. rewrite (IHp F S). apply ren_dedup. now apply bu_wf.
Qed.

End Ren.
