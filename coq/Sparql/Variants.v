(* C15: one query posed in several ways.  A case is a base C04 case, variants
   with an algebra of their own (triple patterns permuted, join/union operands
   swapped, variables renamed - with the inverse renaming to apply to the
   answers), a number of further observations of the SAME algebra (other prefix
   spellings, a prepared query evaluated repeatedly, other back ends), and
   optional further groups (initBindings against VALUES, the prepared query on
   the alternate graph).  Within a group all observations must be equal.
   Definitions only. *)
From RV Require Export Sparql.EvalTD Sparql.Findings.
Local Open Scope N_scope.

Definition ren_var (ren : list (var * var)) (v : var) : var :=
  match lookup v ren with Some w => w | None => v end.
Definition ren_sol (ren : list (var * var)) (m : sol) : sol :=
  fold_left (fun acc p => bind (ren_var ren (fst p)) (snd p) acc) m [].
(* the empty renaming is the identity (variants that keep the variable names) *)
Definition ren_obs (ren : list (var * var)) (o : obs) : obs :=
  match ren with
  | [] => o
  | _ => match o with RSel rows => RSel (map (ren_sol ren) rows) | _ => o end
  end.

(* what a group of observations is *)
Inductive gkind :=
| GNormal                      (* base, variants with their own algebra, further observations of the base's algebra *)
| GInit (pushed : list var)    (* [VALUES form; initBindings form]: only the VALUES form has a model *)
| GNoModel.                    (* [fresh; prepared], both evaluated with initBindings: no counterpart in the
                                  model, judged by the specification only *)

Record group := { g_base : case;                       (* evaluated by the model *)
                  g_vars : list (case * list (var * var));
                  g_same : N;
                  g_kind : gkind }.
Definition vcase := list group.
(* one slot per way of posing the query; the model leaves the slots it has no
   counterpart for empty (None), the implementation's observation fills all *)
Definition vobs := list (list (option obs)).

Definition g_pushed (g : group) : list var :=
  match g_kind g with GInit p => p | _ => [] end.

(* the number of observations a group must hold *)
Definition group_size (g : group) : N :=
  match g_kind g with
  | GNormal => 1 + N.of_nat (length (g_vars g)) + g_same g
  | GInit _ => 2
  | GNoModel => 2
  end.

Definition group_model (g : group) : list (option obs) :=
  match g_kind g with
  | GInit _ => [Some (model_obs (g_base g)); None]
  | GNoModel => [None; None]
  | GNormal =>
      Some (model_obs (g_base g))
      :: map (fun cv => Some (ren_obs (snd cv) (model_obs (fst cv)))) (g_vars g)
      ++ repeat (Some (model_obs (g_base g))) (N.to_nat (g_same g))
  end.

Definition model_obs15 (c : vcase) : vobs := map group_model c.

Fixpoint list_eqb {A} (eq : A -> A -> bool) (a b : list A) : bool :=
  match a, b with
  | [], [] => true
  | x :: r, y :: s => eq x y && list_eqb eq r s
  | _, _ => false
  end.
(* an empty slot of the model is compared by the specification only *)
Definition slot_eqb (m o : option obs) : bool :=
  match m, o with
  | None, _ => true
  | Some x, Some y => obs_eqb x y
  | Some _, None => false
  end.
Definition obs_eqb15 (a b : vobs) : bool := list_eqb (list_eqb slot_eqb) a b.

(* the specification: every group holds as many observations as the case
   demands, and within a group every way of posing the query gives the same
   answer (multiset of solutions) *)
Definition present (l : list (option obs)) : list obs :=
  flat_map (fun s => match s with Some x => [x] | None => [] end) l.
Definition group_ok (l : list (option obs)) : bool :=
  match present l with [] => true | x :: r => forallb (obs_eqb x) r end.
Fixpoint spec_ok15 (c : vcase) (o : vobs) : bool :=
  match c, o with
  | [], [] => true
  | g :: c', l :: o' => N.eqb (N.of_nat (length l)) (group_size g) && group_ok l && spec_ok15 c' o'
  | _, _ => false
  end.

(* trigger: some variant lies in the region of a C04 finding (the answers of the
   top-down evaluator are then not those of the algebra, and need not be
   invariant); for initBindings the bound variables are pushed at the root *)
Definition kf_case (pushed : list var) (c : case) : N :=
  scan (map fst (ds_named (c_ds c))) false pushed (c_alg c)
  |>| (if has_cmp (c_alg c) && second_kind c then 9 else 0).
(* initBindings are never forgotten (FrozenBindings.forget keeps them): an
   expression that mentions such a variable where its own pattern does not
   certainly bind it sees a value the algebra does not give it *)
Fixpoint init_vis (pushed : list var) (p : alg) : bool :=
  let bad e q := existsb (fun v => memv v (evars e) && negb (memv v (cert q))) pushed in
  match p with
  | BGP _ | Values _ => false
  | Join _ a b | Union a b | Minus a b => init_vis pushed a || init_vis pushed b
  | LeftJoin _ a b e =>
      (* the second evaluation of OPTIONAL's right side cannot forget initBindings either
         (QueryContext re-adds them to every context it builds) *)
      bad e a || existsb (fun v => memv v (allvars b) && negb (memv v (cert a))) pushed
      || init_vis pushed a || init_vis pushed b
  | Filter _ _ e q => bad e q || init_vis pushed q
  | Extend _ q _ e => bad e q || init_vis pushed q
  | Project q _ | Graph _ q | Distinct q | Slice _ q => init_vis pushed q
  end.

Definition kf_group (g : group) : bool :=
  (nonempty (g_pushed g) && init_vis (g_pushed g) (c_alg (g_base g))) ||
  negb (N.eqb (kf_case (g_pushed g) (g_base g)) 0)
  || existsb (fun cv => negb (N.eqb (kf_case (g_pushed g) (fst cv)) 0)) (g_vars g).
Definition kf15 (c : vcase) : N := if existsb kf_group c then 1 else 0.
