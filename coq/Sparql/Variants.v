(* C15: one query posed in several ways.  A case is a base C04 case, variants
   with an algebra of their own (triple patterns permuted, join/union operands
   swapped, variables renamed - with the inverse renaming to apply to the
   answers), a number of further observations of the SAME algebra (other prefix
   spellings, a prepared query evaluated repeatedly, other back ends), and
   optional further groups (initBindings against VALUES, the prepared query on
   the alternate graph).  Within a group all observations must be equal.
   Definitions only. *)
From RV Require Export Sparql.EvalTD Sparql.Findings.
Local Open Scope N_scope.

Definition ren_var (ren : list (var * var)) (v : var) : var :=
  match lookup v ren with Some w => w | None => v end.
Definition ren_sol (ren : list (var * var)) (m : sol) : sol :=
  fold_left (fun acc p => bind (ren_var ren (fst p)) (snd p) acc) m [].
Definition ren_obs (ren : list (var * var)) (o : obs) : obs :=
  match o with RSel rows => RSel (map (ren_sol ren) rows) | _ => o end.

(* what a group of observations is *)
Inductive gkind :=
| GNormal                      (* base, variants with their own algebra, further observations of the base's algebra *)
| GInit (pushed : list var)    (* [VALUES form; initBindings form]: only the VALUES form has a model *)
| GNoModel.                    (* observations without a counterpart in the model (evaluations with initBindings):
                                  judged by the specification only *)

Record group := { g_base : case;                       (* evaluated by the model *)
                  g_vars : list (case * list (var * var));
                  g_same : N;
                  g_kind : gkind }.
Definition vcase := list group.
Definition vobs := list (list obs).

Definition g_pushed (g : group) : list var :=
  match g_kind g with GInit p => p | _ => [] end.

Definition group_model (g : group) : list obs :=
  match g_kind g with
  | GInit _ => [model_obs (g_base g)]
  | GNoModel => []
  | GNormal =>
      model_obs (g_base g)
      :: map (fun cv => ren_obs (snd cv) (model_obs (fst cv))) (g_vars g)
      ++ repeat (model_obs (g_base g)) (N.to_nat (g_same g))
  end.

Definition model_obs15 (c : vcase) : vobs := map group_model c.

Fixpoint list_eqb {A} (eq : A -> A -> bool) (a b : list A) : bool :=
  match a, b with
  | [], [] => true
  | x :: r, y :: s => eq x y && list_eqb eq r s
  | _, _ => false
  end.
(* the model's list of a group may be a prefix of the implementation's (observations
   without a counterpart in the model are compared by the specification only) *)
Fixpoint prefix_eqb (m o : list obs) : bool :=
  match m, o with
  | [], _ => true
  | x :: r, y :: s => obs_eqb x y && prefix_eqb r s
  | _ :: _, [] => false
  end.
Definition obs_eqb15 (a b : vobs) : bool := list_eqb prefix_eqb a b.

(* the specification: within every group, every way of posing the query gives
   the same answer (multiset of solutions) *)
Definition group_ok (l : list obs) : bool :=
  match l with [] => true | x :: r => forallb (obs_eqb x) r end.
Definition spec_ok15 (c : vcase) (o : vobs) : bool :=
  N.eqb (N.of_nat (length o)) (N.of_nat (length c)) && forallb group_ok o.

(* trigger: some variant lies in the region of a C04 finding (the answers of the
   top-down evaluator are then not those of the algebra, and need not be
   invariant); for initBindings the bound variables are pushed at the root *)
Definition kf_case (pushed : list var) (c : case) : N :=
  scan (map fst (ds_named (c_ds c))) false pushed (c_alg c).
(* initBindings are never forgotten (FrozenBindings.forget keeps them): an
   expression that mentions such a variable where its own pattern does not
   certainly bind it sees a value the algebra does not give it *)
Fixpoint init_vis (pushed : list var) (p : alg) : bool :=
  let bad e q := existsb (fun v => memv v (evars e) && negb (memv v (cert q))) pushed in
  match p with
  | BGP _ | Values _ => false
  | Join _ a b | Union a b | Minus a b => init_vis pushed a || init_vis pushed b
  | LeftJoin _ a b e =>
      (* the second evaluation of OPTIONAL's right side cannot forget initBindings either
         (QueryContext re-adds them to every context it builds) *)
      bad e a || existsb (fun v => memv v (allvars b) && negb (memv v (cert a))) pushed
      || init_vis pushed a || init_vis pushed b
  | Filter _ _ e q => bad e q || init_vis pushed q
  | Extend _ q _ e => bad e q || init_vis pushed q
  | Project q _ | Graph _ q | Distinct q => init_vis pushed q
  end.

Definition kf_group (g : group) : bool :=
  (nonempty (g_pushed g) && init_vis (g_pushed g) (c_alg (g_base g))) ||
  negb (N.eqb (kf_case (g_pushed g) (g_base g)) 0)
  || existsb (fun cv => negb (N.eqb (kf_case (g_pushed g) (fst cv)) 0)) (g_vars g).
Definition kf15 (c : vcase) : N := if existsb kf_group c then 1 else 0.
