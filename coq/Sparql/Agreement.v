(* C04_join (hash join), C04_pushdown on the fragment, and the tie theorem. *)
From RV Require Export Sparql.LeftJoinProofs.
Local Open Scope N_scope.

Definition graphs_nodup (ds : dataset) : Prop :=
  NoDup (map fst (ds_named ds)) /\ forall ng, In ng (ds_named ds) -> NoDup (snd ng).

Lemma named_graph_NoDup named t :
  (forall ng : term * graph, In ng named -> NoDup (snd ng)) -> NoDup (named_graph named t).
Proof.
  induction named as [|[n gr] r IH]; intros H; cbn; [constructor|].
  destruct (N.eqb n t); [apply (H (n, gr)); now left|apply IH; intros; apply H; now right].
Qed.

Lemma fst_inj_nodup {A B} (l : list (A * B)) a b :
  NoDup (map fst l) -> In a l -> In b l -> fst a = fst b -> a = b.
Proof.
  induction l as [|x l IH]; intros N Ia Ib E; [destruct Ia|].
  cbn in N. inversion N as [|? ? Nx N']; subst.
  destruct Ia as [->|Ia], Ib as [->|Ib]; auto.
  - exfalso. apply Nx. rewrite E. now apply in_map.
  - exfalso. apply Nx. rewrite <- E. now apply in_map.
Qed.

Lemma uniform_single y : uniform [y].
Proof. intros m m' [<-|[]] [<-|[]] v. tauto. Qed.

Lemma NoDup_map_inj {A B} (f : A -> B) l :
  (forall x y, In x l -> In y l -> f x = f y -> x = y) -> NoDup l -> NoDup (map f l).
Proof.
  intros Inj N. induction N as [|a l Na N IH]; cbn; [constructor|]. constructor.
  - intros I. apply in_map_iff in I as [b [E Ib]]. apply Na.
    rewrite (Inj a b); auto; [now left|now right].
  - apply IH. intros x y Ix Iy. apply Inj; now right.
Qed.

Lemma sorted_restrict f lo m : sorted_from lo m = true -> sorted_from lo (restrict f m) = true.
Proof.
  revert lo. induction m as [|[w u] r IH]; intros lo S; cbn; [reflexivity|].
  cbn in S. apply andb_true_iff in S as [A B].
  destruct (f w); cbn.
  - rewrite A. cbn. now apply IH.
  - apply IH. eapply sorted_from_weaken; [|exact B].
    intros v H. destruct lo as [l|]; [|reflexivity]. cbn in *. apply N.ltb_lt in A, H. apply N.ltb_lt. lia.
Qed.

Lemma wf_restrict f m : sol_wf m = true -> sol_wf (restrict f m) = true.
Proof. apply sorted_restrict. Qed.

Lemma ext_step_inv ds g v e m :
  sol_wf m = true -> lookup v m = None ->
  restrict (fun w => negb (N.eqb w v)) (ext_step ds g v e m) = m.
Proof.
  intros W L. apply sol_ext; [apply wf_restrict, ext_step_wf, W|exact W|].
  intros w. rewrite lookup_restrict. unfold ext_step.
  destruct (N.eqb w v) eqn:E; cbn.
  - apply N.eqb_eq in E; subst. now rewrite L.
  - destruct (expr_bu ds g m e); [|reflexivity]. rewrite L. rewrite lookup_bind, E. reflexivity.
Qed.

Lemma sub_same_dom_eq x x' :
  sol_wf x = true -> sol_wf x' = true -> same_dom x x' -> sub_sol x' x -> x = x'.
Proof.
  intros W W' S Sub. symmetry. apply same_dom_ext; auto.
  intros v. specialize (S v). tauto.
Qed.

Lemma df_sound ds p : shape p = true -> df p = true -> graphs_nodup ds ->
  forall g, NoDup g -> NoDup (eval_bu ds g p).
Proof.
  intros S D [Nn Ng]. induction p; cbn [shape] in S; try discriminate; cbn [df] in D; intros g0 N0.
  - cbn [eval_bu]. apply NoDup_bgp_ext; [exact N0|reflexivity].
  - cbn [eval_bu]. apply andb_true_iff in S as [S1 S2].
    apply andb_true_iff in D as [D U2]. apply andb_true_iff in D as [D U1]. apply andb_true_iff in D as [D1 D2].
    apply NoDup_join_lists; auto using bu_wf, un_sound.
  - (* LeftJoin *)
    apply andb_true_iff in S as [S1 S2].
    apply andb_true_iff in D as [D U2]. apply andb_true_iff in D as [D U1]. apply andb_true_iff in D as [D1 D2].
    pose proof (bu_wf ds p1 S1 g0) as W1. pose proof (bu_wf ds p2 S2 g0) as W2.
    pose proof (un_sound ds p1 S1 U1 g0) as Un1. pose proof (un_sound ds p2 S2 U2 g0) as Un2.
    cbn [eval_bu].
    set (B := eval_bu ds g0 p2) in *. set (A := eval_bu ds g0 p1) in *.
    assert (PieceIn : forall x m,
      In m (match filter (fun b => compatible x b && ebv (expr_bu ds g0 (merge x b) e)) B with
            | [] => [x] | y0 :: ys => map (merge x) (y0 :: ys) end) ->
      m = x \/ exists y, In y B /\ compatible x y = true /\ m = merge x y).
    { intros x m I. destruct (filter _ B) as [|y0 ys] eqn:Fl.
      - destruct I as [<-|[]]. now left.
      - right. apply in_map_iff in I as [y [<- Iy]]. rewrite <- Fl in Iy.
        apply filter_In in Iy as [Iy Cy]. apply andb_true_iff in Cy as [Cy _]. eauto. }
    apply NoDup_flat_map; [now apply IHp1| |].
    + intros x Ix. destruct (filter _ B) as [|y0 ys] eqn:Fl; [repeat constructor; intros []|].
      rewrite <- Fl. apply NoDup_map_inj.
      * intros y y' Iy Iy' E. apply filter_In in Iy as [Iy _]. apply filter_In in Iy' as [Iy' _].
        eapply merge_inj_r; eauto.
      * apply NoDup_filter'. now apply IHp2.
    + intros x x' m Ix Ix' Dx I I'.
      apply PieceIn in I. apply PieceIn in I'. apply Dx.
      destruct I as [->|[y [Iy [C ->]]]], I' as [E|[y' [Iy' [C' E]]]].
      * exact E.
      * apply sub_same_dom_eq; auto. rewrite E. apply sub_sol_merge_l; auto. now rewrite compatible_sym by auto.
      * symmetry. apply sub_same_dom_eq; auto. rewrite <- E. apply sub_sol_merge_l; auto. now rewrite compatible_sym by auto.
      * eapply (merge_inj_l x x' y y'); eauto.
  - cbn [eval_bu]. apply NoDup_filter'. auto.
  - (* Minus *)
    cbn [eval_bu]. apply andb_true_iff in S as [S1 S2]. apply NoDup_filter'. auto.
  - (* Extend *)
    apply andb_true_iff in D as [D Nv]. apply negb_true_iff in Nv.
    cbn [eval_bu]. change (NoDup (map (ext_step ds g0 v e) (eval_bu ds g0 p))).
    assert (Lv : forall m, In m (eval_bu ds g0 p) -> lookup v m = None).
    { intros m I. destruct (lookup v m) eqn:L; [|reflexivity].
      assert (In v (maybe p)) by (eapply maybe_sound; eauto; congruence).
      apply memv_in in H. congruence. }
    apply NoDup_map_inj; [|auto].
    intros x y Ix Iy E.
    rewrite <- (ext_step_inv ds g0 v e x), <- (ext_step_inv ds g0 v e y); auto using bu_wf.
    * now rewrite E.
    * eapply bu_wf; eauto.
    * eapply bu_wf; eauto.
  - cbn [eval_bu]. now apply nodup_rows_NoDup.
  - cbn [eval_bu]. destruct g as [t|v].
    + destruct (existsb _ _); [|constructor]. apply IHp; auto. now apply named_graph_NoDup.
    + apply andb_true_iff in D as [D U].
      apply NoDup_flat_map.
      * eapply NoDup_map_inv; eauto.
      * intros ng I. apply NoDup_join_lists; auto using bu_wf, un_sound, uniform_single.
        -- intros m [<-|[]]. reflexivity.
        -- repeat constructor. intros [].
      * intros ng ng' x I I' Dn H H'.
        apply in_join_lists in H as [m [y [Im [[<-|[]] [C ->]]]]].
        apply in_join_lists in H' as [m' [y' [Im' [[<-|[]] [C' E]]]]].
        apply Dn. apply (fst_inj_nodup (ds_named ds)); auto.
        assert (L : lookup v (merge m [(v, fst ng)]) = Some (fst ng)).
        { rewrite lookup_merge by reflexivity. cbn. now rewrite N.eqb_refl. }
        rewrite E, lookup_merge in L by reflexivity. cbn in L. rewrite N.eqb_refl in L. congruence.
Qed.

(* ---- set(...) on a duplicate-free list ---- *)
Lemma filter_all {A} (f : A -> bool) l : (forall x, In x l -> f x = true) -> filter f l = l.
Proof.
  induction l as [|a l IH]; intros H; cbn; [reflexivity|].
  rewrite (H a) by now left. f_equal. apply IH. intros; apply H; now right.
Qed.

Lemma dedup_NoDup L : NoDup L -> dedup L = L.
Proof.
  induction 1 as [|x r Nx N IH]; cbn; [reflexivity|]. rewrite IH. f_equal.
  apply filter_all. intros y I. apply negb_true_iff.
  destruct (sol_eqb x y) eqn:E; [|reflexivity]. apply sol_eqb_eq in E. subst. contradiction.
Qed.

Lemma join_lists_perm_r A B B' : Permutation B B' -> Permutation (join_lists A B) (join_lists A B').
Proof.
  intros P. unfold join_lists. apply flat_map_perm_pointwise. intros x _. now apply Permutation_flat_map.
Qed.

(* ---- hash join of two context-restricted lists ---- *)
Lemma hash_join_elem c m1 m2 :
  sol_wf c = true -> sol_wf m1 = true -> sol_wf m2 = true -> compatible m1 c = true ->
  (if compatible m2 c
   then (if compatible (merge c m1) (merge c m2) then [merge (merge c m1) (merge c m2)] else [])
   else [])
  = (if compatible (merge c m1) m2 then [merge (merge c m1) m2] else []).
Proof.
  intros Wc W1 W2 C1.
  assert (Wa : sol_wf (merge c m1) = true) by (apply wf_merge, Wc).
  assert (Sa : sub_sol c (merge c m1)) by (apply sub_sol_merge_l; assumption).
  assert (Cac : compat_prop (merge c m1) c).
  { intros v t u La Lc. apply Sa in Lc. congruence. }
  destruct (compatible m2 c) eqn:C2.
  - pose proof (proj1 (compatible_spec _ _ W2) C2) as P2.
    assert (W2c : sol_wf (merge c m2) = true) by (apply wf_merge, Wc).
    assert (K : compat_prop (merge c m1) (merge c m2) <-> compat_prop (merge c m1) m2).
    { rewrite compat_merge_iff; auto; [tauto|now apply compat_prop_sym]. }
    apply if_compat_ext; auto.
    intros _. f_equal. rewrite <- merge_assoc by assumption. f_equal.
    apply merge_absorb; auto.
  - destruct (compatible (merge c m1) m2) eqn:Ca; [|reflexivity].
    apply (compatible_spec _ _ Wa) in Ca.
    assert (compat_prop m2 c).
    { apply compat_prop_sym. eapply compat_sub_l; [exact Sa|exact Ca]. }
    apply (compatible_spec _ _ W2) in H. congruence.
Qed.

Lemma hash_join_lists c L1 L2 :
  sol_wf c = true -> all_wf L1 -> all_wf L2 ->
  join_lists (join_ctx c L1) (join_ctx c L2) = join_ctx c (join_lists L1 L2).
Proof.
  intros Wc A1 A2. unfold join_lists. rewrite join_ctx_flat_map.
  change (join_ctx c L1) with (flat_map (fun m => if compatible m c then [merge c m] else []) L1).
  rewrite flat_map_flat_map.
  apply flat_map_ext_in. intros m1 I1. rewrite join_ctx_flat_map.
  destruct (compatible m1 c) eqn:C1.
  - cbn [flat_map]. rewrite app_nil_r.
    change (join_ctx c L2) with (flat_map (fun m => if compatible m c then [merge c m] else []) L2).
    rewrite flat_map_flat_map.
    apply flat_map_ext_in. intros m2 I2.
    pose proof (hash_join_elem c m1 m2 Wc (A1 _ I1) (A2 _ I2) C1) as E.
    pose proof (join_elem_core c m1 m2 Wc (A1 _ I1) (A2 _ I2)) as E2. rewrite C1 in E2.
    transitivity (if compatible (merge c m1) m2 then [merge (merge c m1) m2] else []).
    + rewrite <- E. destruct (compatible m2 c); cbn [flat_map]; rewrite ?app_nil_r; reflexivity.
    + rewrite E2. destruct (compatible m1 m2); [|reflexivity]. cbn. now rewrite app_nil_r.
  - cbn [flat_map]. symmetry. apply flat_map_all_nil. intros m2 I2.
    pose proof (join_elem_core c m1 m2 Wc (A1 _ I1) (A2 _ I2)) as E2. rewrite C1 in E2.
    destruct (compatible m1 m2); [|reflexivity]. rewrite join_ctx_cons.
    change (join_ctx c []) with (@nil sol). rewrite app_nil_r. now rewrite <- E2.
Qed.

(* ---- helpers for Extend and Minus ---- *)
Lemma dedup_in x L : In x (dedup L) <-> In x L.
Proof.
  induction L as [|y r IH]; cbn; [tauto|]. split.
  - intros [->|I]; [now left|]. apply filter_In in I as [I _]. right. now apply IH.
  - intros [->|I]; [now left|].
    destruct (sol_eqb y x) eqn:E; [apply sol_eqb_eq in E; now left|].
    right. apply filter_In. split; [now apply IH|]. now rewrite E.
Qed.

Lemma dedup_nodup L : NoDup (dedup L).
Proof.
  induction L as [|y r IH]; cbn; [constructor|]. constructor.
  - intros I. apply filter_In in I as [_ I]. rewrite (proj2 (sol_eqb_eq y y) eq_refl) in I. discriminate.
  - now apply NoDup_filter'.
Qed.

Lemma dedup_perm A B : Permutation A B -> Permutation (dedup A) (dedup B).
Proof.
  intros P. apply NoDup_Permutation; try apply dedup_nodup.
  intros x. rewrite !dedup_in. split; apply Permutation_in; [exact P|now symmetry].
Qed.


Lemma forallb_in_iff {A} (f : A -> bool) l l' :
  (forall x, In x l <-> In x l') -> forallb f l = forallb f l'.
Proof.
  intros H. destruct (forallb f l) eqn:E1, (forallb f l') eqn:E2; try reflexivity.
  - rewrite forallb_forall in E1. assert (forallb f l' = true) by (apply forallb_forall; intros x I; apply E1, H, I). congruence.
  - rewrite forallb_forall in E2. assert (forallb f l = true) by (apply forallb_forall; intros x I; apply E2, H, I). congruence.
Qed.

Lemma filter_ext_in' {A} (f g : A -> bool) l : (forall x, In x l -> f x = g x) -> filter f l = filter g l.
Proof.
  induction l as [|a l IH]; intros H; cbn; [reflexivity|].
  rewrite (H a) by now left. rewrite IH; [reflexivity|]. intros; apply H; now right.
Qed.

Lemma map_join_ctx c (ftd fbu : sol -> sol) L :
  (forall m, In m L -> compatible (fbu m) c = compatible m c
                       /\ (compatible m c = true -> ftd (merge c m) = merge c (fbu m))) ->
  map ftd (join_ctx c L) = join_ctx c (map fbu L).
Proof.
  induction L as [|m L IH]; intros H; [reflexivity|].
  cbn [map]. rewrite !join_ctx_cons, map_app, IH by (intros; apply H; now right).
  destruct (H m (or_introl eq_refl)) as [E1 E2]. rewrite E1.
  destruct (compatible m c); [|reflexivity]. cbn. now rewrite E2.
Qed.

Lemma maybe_allvars p : forall v, In v (maybe p) -> In v (allvars p).
Proof.
  induction p; cbn [maybe allvars]; intros w I; auto.
  - apply in_app_or in I as [I|I]; apply in_or_app; auto.
  - apply in_app_or in I as [I|I]; apply in_or_app; [left; auto|right; apply in_or_app; left; auto].
  - apply in_or_app. right. auto.
  - apply in_app_or in I as [I|I]; apply in_or_app; auto.
  - apply in_or_app. left. auto.
  - destruct I as [->|I]; [now left|right]. apply in_or_app. right. auto.
  - unfold inter in I. apply filter_In in I as [I _]. apply in_or_app. right. auto.
  - destruct g as [t|x]; [auto|]. destruct I as [->|I]; [now left|right; auto].
Qed.

Lemma disjoint_dom_false x y v :
  lookup v x <> None -> lookup v y <> None -> disjoint_dom x y = false.
Proof.
  intros Hx Hy. destruct (disjoint_dom x y) eqn:E; [|reflexivity].
  unfold disjoint_dom in E. rewrite forallb_forall in E.
  destruct (lookup v x) as [t|] eqn:L; [|congruence]. apply lookup_in in L.
  specialize (E _ L). cbn in E. destruct (lookup v y); [discriminate|congruence].
Qed.

(* two context-extended solutions are compatible iff the originals are *)
Lemma compat_ctx_both c x y :
  sol_wf c = true -> sol_wf x = true -> sol_wf y = true ->
  compat_prop x c -> compat_prop y c ->
  (compat_prop (merge c x) (merge c y) <-> compat_prop x y).
Proof.
  intros Wc Wx Wy Cx Cy.
  rewrite (compat_merge_iff (merge c x) c y Wc Wy (compat_prop_sym _ _ Cy)).
  split.
  - intros [_ H]. apply compat_prop_sym in H. apply compat_prop_sym.
    apply (compat_merge_iff y c x Wc Wx (compat_prop_sym _ _ Cx)) in H. apply H.
  - intros H. split.
    + intros v t u L1 L2. apply (sub_sol_merge_l c x Wx Wc) in L2; [congruence|].
      now apply (compatible_spec _ _ Wx).
    + apply compat_prop_sym. apply (compat_merge_iff y c x Wc Wx (compat_prop_sym _ _ Cx)).
      split; [exact Cy|now apply compat_prop_sym].
Qed.

(* ---- helpers for OPTIONAL ---- *)
Definition dom_in (c : sol) (pushed : list var) : Prop := forall v, lookup v c <> None -> In v pushed.

Lemma dom_in_nil c : dom_in c [] -> c = [].
Proof.
  destruct c as [|[v t] r]; [reflexivity|]. intros D. exfalso. apply (D v).
  cbn. rewrite N.eqb_refl. discriminate.
Qed.

(* what rdflib's forget(ctx, _except) shows of a context-extended solution is
   what the bottom-up solution itself binds - under [vis_ok], the negation of
   the trigger of finding F-C04-7 *)
Lemma vis_lookup ds pushed exc q e g c m :
  shape q = true -> vis_ok pushed exc q e = true -> dom_in c pushed ->
  In m (eval_bu ds g q) -> sol_wf m = true ->
  forall v, In v (evars e) -> lookup v (forget (merge c m) c exc) = lookup v m.
Proof.
  intros S V Dc I Wm v Iv. unfold forget. rewrite lookup_restrict, lookup_merge by exact Wm.
  destruct (lookup v c) as [u|] eqn:Lc.
  - unfold vis_ok in V. rewrite forallb_forall in V.
    assert (Ip : In v (inter (evars e) pushed)).
    { unfold inter. apply filter_In. split; [exact Iv|]. apply memv_in, Dc. congruence. }
    specialize (V v Ip). rewrite orb_false_r. apply orb_true_iff in V as [V|V].
    + apply andb_true_iff in V as [V1 V2]. rewrite V1. apply memv_in in V2.
      pose proof (cert_sound ds q S g m v I V2). destruct (lookup v m); [reflexivity|congruence].
    + apply andb_true_iff in V as [V1 V2]. apply negb_true_iff in V1, V2. rewrite V1.
      destruct (lookup v m) eqn:Lm; [|reflexivity].
      assert (In v (maybe q)) by (apply (maybe_sound ds q S g m v I); congruence).
      apply memv_in in H. congruence.
  - rewrite orb_true_r. destruct (lookup v m); reflexivity.
Qed.

Lemma remember_eq c x vs :
  sol_wf c = true -> sol_wf x = true ->
  (forall w, lookup w x <> None -> In w vs) ->
  (forall w, In w vs -> lookup w c <> None -> lookup w x <> None) ->
  remember (merge c x) vs = x.
Proof.
  intros Wc Wx Hx Hc. unfold remember. apply sol_ext; [apply wf_restrict, wf_merge, Wc|exact Wx|].
  intros w. rewrite lookup_restrict, lookup_merge by exact Wx.
  destruct (lookup w x) as [t|] eqn:Lx.
  - rewrite (proj2 (memv_in w vs)); [reflexivity|]. apply Hx. congruence.
  - destruct (memv w vs) eqn:M; [|reflexivity]. apply memv_in in M.
    destruct (lookup w c) eqn:Lc; [|reflexivity]. exfalso. apply (Hc w M); congruence.
Qed.

(* ---- the fragment ---- *)
(* FILTER: an expression without EXISTS and without a literal-kind question
   ([expr_ok]); what rdflib shows it of the context is what the algebra gives it
   ([vis_ok] = the negation of the trigger of finding F-C04-7).  Errors allowed. *)
Definition filter_ok (pushed : list var) (nis : bool) (fv : option (list var)) (e : expr) (q : alg) : bool :=
  negb nis && expr_ok e && vis_ok pushed fv q e.

(* BIND: the target is new (negation of the trigger of F-C04-1), expression as for FILTER *)
Definition extend_ok (pushed : list var) (xv : option (list var)) (q : alg) (v : var) (e : expr) : bool :=
  negb (memv v pushed) && negb (memv v (maybe q)) && expr_ok e && vis_ok pushed xv q e.

(* MINUS: the negation of the trigger of finding F-C04-2 *)
Definition minus_ok (pushed : list var) (a b : alg) : bool :=
  negb (nonempty pushed)
  || (subsetv (inter (allvars b) pushed) (cert a) && nonempty (inter (cert a) (cert b))).

(* OPTIONAL: the negations of the triggers of findings F-C04-5 and F-C04-6
   (F-C04-4 cannot occur: no sub-SELECT in the fragment), filter as for FILTER *)
Definition leftjoin_ok (pushed : list var) (pv : option (list var)) (a b : alg) (e : expr) : bool :=
  expr_ok e && negb (nonempty (inter (inter (evars e) pushed) (maybe a ++ maybe b)))
  && match pv with
     | Some vs => subsetv (maybe a) vs
                  && (negb (nonempty pushed) || subsetv (inter vs pushed) (cert a))
     | None => negb (nonempty pushed)
     end.

Fixpoint frag (names : list term) (pushed : list var) (p : alg) : bool :=
  match p with
  | LeftJoin pv a b e =>
      leftjoin_ok pushed pv a b e && frag names pushed a && frag names (pushed ++ maybe a) b
  | Minus a b => frag names pushed a && frag names pushed b && minus_ok pushed a b
  | Extend xv q v e => extend_ok pushed xv q v e && frag names pushed q
  | BGP _ => true
  | Values rows => forallb sol_wf rows
  | Union a b => frag names pushed a && frag names pushed b
  | Join lz a b =>
      frag names pushed a && frag names (if lz then pushed ++ maybe a else pushed) b
      && (lz || hash_ok pushed b)
  | Filter nis fv e q => filter_ok pushed nis fv e q && frag names pushed q
  | Graph _ q => frag names pushed q
  | _ => false
  end.

Lemma frag_shape names p : forall pushed, frag names pushed p = true -> shape p = true.
Proof.
  induction p; cbn [frag shape]; try discriminate; intros pushed F.
  - reflexivity.
  - apply andb_true_iff in F as [F _]. apply andb_true_iff in F as [F1 F2].
    rewrite (IHp1 _ F1), (IHp2 _ F2). reflexivity.
  - apply andb_true_iff in F as [F F2]. apply andb_true_iff in F as [_ F1].
    rewrite (IHp1 _ F1), (IHp2 _ F2). reflexivity.
  - apply andb_true_iff in F as [_ F]. eauto.
  - apply andb_true_iff in F as [F1 F2]. rewrite (IHp1 _ F1), (IHp2 _ F2). reflexivity.
  - apply andb_true_iff in F as [F _]. apply andb_true_iff in F as [F1 F2].
    rewrite (IHp1 _ F1), (IHp2 _ F2). reflexivity.
  - apply andb_true_iff in F as [_ F]. eauto.
  - exact F.
  - eauto.
Qed.

Section PD.
  Variable ds : dataset.
  Hypothesis Gn : graphs_nodup ds.
  Let names := map fst (ds_named ds).

  Theorem pushdown p : forall pushed, frag names pushed p = true ->
    forall g c, NoDup g -> sol_wf c = true -> dom_in c pushed ->
    Permutation (eval_td ds g c p) (join_ctx c (eval_bu ds g p)).
  Proof.
    destruct Gn as [names_nodup graphs_ok].
    induction p; cbn [frag]; try discriminate; intros pushed F g0 c Ng Wc Dc.
    - (* BGP *)
      cbn [eval_td eval_bu]. rewrite eval_bgp_ext, <- bgp_pushdown by exact Wc.
      apply bgp_ext_perm; [apply sort_ts_perm|exact Wc].
    - (* Join *)
      apply andb_true_iff in F as [F12 Fh]. apply andb_true_iff in F12 as [F1 F2].
      pose proof (frag_shape _ _ _ F1) as S1. pose proof (frag_shape _ _ _ F2) as S2.
      destruct lazy; cbn [eval_td eval_bu].
      + (* evalLazyJoin *)
        rewrite <- (lazy_join_lists c _ _ Wc (bu_wf ds p1 S1 g0) (bu_wf ds p2 S2 g0)).
        etransitivity.
        * apply Permutation_flat_map. apply (IHp1 pushed F1 g0 c Ng Wc Dc).
        * apply flat_map_perm_pointwise. intros a Ia. apply Permutation_map.
          apply in_join_ctx in Ia as [m1 [I1 [C1 ->]]].
          assert (W1 := bu_wf ds p1 S1 g0 m1 I1).
          assert (Sa : sub_sol c (merge c m1)) by (apply sub_sol_merge_l; assumption).
          rewrite (thaw_ext c _ Sa).
          apply (IHp2 (pushed ++ maybe p1) F2 g0 (merge c m1) Ng); [apply wf_merge, Wc|].
          intros v Hv. rewrite lookup_merge in Hv by exact W1. apply in_or_app.
          destruct (lookup v m1) eqn:L1.
          -- right. eapply maybe_sound; eauto. congruence.
          -- left. now apply Dc.
      + (* hash join: a = evalPart(ctx, p1); b = set(evalPart(ctx, p2)); _join(a, b) *)
        cbn in Fh. unfold hash_ok in Fh. apply andb_true_iff in Fh as [Df Uh].
        pose proof (IHp1 pushed F1 g0 c Ng Wc Dc) as P1.
        pose proof (IHp2 pushed F2 g0 c Ng Wc Dc) as P2.
        assert (Nb : NoDup (eval_bu ds g0 p2)) by (apply df_sound; auto; split; auto).
        assert (N2 : NoDup (join_ctx c (eval_bu ds g0 p2))).
        { apply orb_true_iff in Uh as [U|E].
          - apply NoDup_join_ctx; auto using bu_wf, un_sound.
          - assert (pushed = []) by (destruct pushed; [reflexivity|discriminate]). subst pushed.
            rewrite (dom_in_nil c Dc), join_ctx_nil by (apply bu_wf, S2). exact Nb. }
        assert (N2' : NoDup (eval_td ds g0 c p2)).
        { eapply Permutation_NoDup; [symmetry; exact P2|exact N2]. }
        rewrite (dedup_NoDup _ N2').
        rewrite <- (hash_join_lists c _ _ Wc (bu_wf ds p1 S1 g0) (bu_wf ds p2 S2 g0)).
        etransitivity; [apply join_lists_perm_l; exact P1|apply join_lists_perm_r; exact P2].
    - (* LeftJoin *)
      apply andb_true_iff in F as [F12 F2]. apply andb_true_iff in F12 as [Lo F1].
      unfold leftjoin_ok in Lo. apply andb_true_iff in Lo as [Lo Pv]. apply andb_true_iff in Lo as [Eo Ep].
      apply negb_true_iff in Ep.
      assert (Enp : forall w, In w (evars e) -> lookup w c <> None -> ~ In w (maybe p1 ++ maybe p2)).
      { intros w Iw Lc Im.
        assert (In w (inter (inter (evars e) pushed) (maybe p1 ++ maybe p2))).
        { unfold inter. apply filter_In. split; [apply filter_In; split; [exact Iw|apply memv_in, Dc, Lc]|now apply memv_in]. }
        destruct (inter (inter (evars e) pushed) (maybe p1 ++ maybe p2)); [destruct H|discriminate]. }
      pose proof (frag_shape _ _ _ F1) as S1. pose proof (frag_shape _ _ _ F2) as S2.
      cbn [eval_td eval_bu].
      set (A := eval_bu ds g0 p1). set (B := eval_bu ds g0 p2).
      assert (WA : all_wf A) by (apply bu_wf, S1). assert (WB : all_wf B) by (apply bu_wf, S2).
      rewrite (Permutation_flat_map _ (IHp1 pushed F1 g0 c Ng Wc Dc)). fold A.
      rewrite join_ctx_flat_map.
      change (join_ctx c A) with (flat_map (fun m => if compatible m c then [merge c m] else []) A).
      rewrite flat_map_flat_map. apply flat_map_perm_pointwise. intros x Ix.
      assert (Wx := WA x Ix).
      assert (Dx : dom_in x (pushed ++ maybe p1)).
      { intros w Hw. apply in_or_app. right. eapply maybe_sound; eauto. }
      destruct (compatible x c) eqn:Cx.
      + cbn [flat_map]. rewrite app_nil_r.
        assert (Sa : sub_sol c (merge c x)) by (apply sub_sol_merge_l; assumption).
        assert (Wa : sol_wf (merge c x) = true) by (apply wf_merge, Wc).
        assert (Da : dom_in (merge c x) (pushed ++ maybe p1)).
        { intros w Hw. rewrite lookup_merge in Hw by exact Wx. apply in_or_app.
          destruct (lookup w x) eqn:L1; [right; eapply maybe_sound; eauto; congruence|left; now apply Dc]. }
        rewrite (thaw_ext c _ Sa).
        set (fe := fun y => ebv (expr_bu ds g0 (merge x y) e)).
        assert (F1' : forall y, In y B -> compatible y (merge c x) = true ->
                  ebv (expr_td ds g0 (forget (merge (merge c x) y) c None) (merge (merge c x) y) e) = fe y).
        { intros y Iy Cy. assert (Wy := WB y Iy). unfold fe. f_equal.
          apply (expr_ok_agree ds g0 _ e _ _ Eo).
          intros w Iw. unfold forget. rewrite lookup_restrict. cbn.
          rewrite !lookup_merge by assumption.
          destruct (lookup w c) as [u|] eqn:Lc; cbn.
          - assert (Nm : ~ In w (maybe p1 ++ maybe p2)) by (apply Enp; [exact Iw|congruence]).
            destruct (lookup w y) eqn:Ly.
            + exfalso. apply Nm. apply in_or_app. right. apply (maybe_sound ds p2 S2 g0 y w Iy). congruence.
            + destruct (lookup w x) eqn:Lx; [|reflexivity].
              exfalso. apply Nm. apply in_or_app. left. apply (maybe_sound ds p1 S1 g0 x w Ix). congruence.
          - destruct (lookup w y); [reflexivity|]. destruct (lookup w x); reflexivity. }
        assert (F2' : forall y, In y B -> compatible y x = true ->
                  ebv (expr_td ds g0 (merge x y) (merge x y) e) = fe y).
        { intros y Iy Cy. unfold fe. f_equal. apply (expr_ok_agree ds g0 _ e _ _ Eo). reflexivity. }
        destruct p1vars as [vs|].
        * (* the second evaluation under remember(p1._vars) *)
          apply andb_true_iff in Pv as [Mv Pp]. rewrite subsetv_in in Mv.
          assert (Rx : thaw c (remember (merge c x) vs) = x).
          { unfold thaw. apply remember_eq; auto.
            - intros w Hw. apply Mv. apply (maybe_sound ds p1 S1 g0 x w Ix Hw).
            - intros w Iw Hc. apply orb_true_iff in Pp as [E|Sv].
              + assert (pushed = []) by (destruct pushed; [reflexivity|discriminate]). subst pushed.
                rewrite (dom_in_nil c Dc) in Hc. cbn in Hc. congruence.
              + rewrite subsetv_in in Sv.
                apply (cert_sound ds p1 S1 g0 x w Ix). apply Sv. unfold inter. apply filter_In. split; [exact Iw|].
                apply memv_in, Dc, Hc. }
          rewrite Rx.
          apply (lj_piece c x B Wc Wx WB Cx fe _ (eval_td ds g0 x p2) _ _ (Some vs)); auto.
          -- apply (IHp2 (pushed ++ maybe p1) F2 g0 (merge c x) Ng Wa Da).
          -- discriminate.
          -- intros _. apply (IHp2 (pushed ++ maybe p1) F2 g0 x Ng Wx Dx).
        * apply (lj_piece c x B Wc Wx WB Cx fe _ [] _ (fun b => ebv (expr_td ds g0 b b e)) None); auto.
          -- apply (IHp2 (pushed ++ maybe p1) F2 g0 (merge c x) Ng Wa Da).
          -- intros _. apply negb_true_iff in Pv.
             assert (pushed = []) by (destruct pushed; [reflexivity|discriminate]). subst pushed.
             apply (dom_in_nil c Dc).
          -- intros N. now destruct N.
      + (* the left solution is incompatible with the context: so is all it yields *)
        cbn [flat_map]. symmetry. apply Permutation_refl'. apply join_ctx_incompat. intros m Im.
        assert (Sm : sub_sol x m).
        { destruct (filter _ B) as [|y0 ys] eqn:Fl.
          - destruct Im as [<-|[]]. apply sub_sol_refl.
          - apply in_map_iff in Im as [y [<- Iy]]. rewrite <- Fl in Iy. apply filter_In in Iy as [Iy Cy].
            apply andb_true_iff in Cy as [Cy _]. apply sub_sol_merge_l; auto.
            now rewrite compatible_sym by auto. }
        assert (Wm : sol_wf m = true).
        { destruct (filter _ B) as [|y0 ys]; [destruct Im as [<-|[]]; exact Wx|].
          apply in_map_iff in Im as [y [<- _]]. apply wf_merge, Wx. }
        destruct (compatible m c) eqn:Cm; [|reflexivity].
        apply (compatible_spec _ _ Wm) in Cm.
        assert (compat_prop x c) by (eapply compat_sub_l; eauto).
        apply (compatible_spec _ _ Wx) in H. congruence.
    - (* Filter *)
      apply andb_true_iff in F as [FO F]. unfold filter_ok in FO.
      apply andb_true_iff in FO as [FO Vo]. apply andb_true_iff in FO as [Nis Eo].
      apply negb_true_iff in Nis. subst nis.
      pose proof (frag_shape _ _ _ F) as S. cbn [eval_td eval_bu].
      rewrite <- (filter_join_ctx c
                   (fun s => ebv (expr_td ds g0 (forget s c fvars) s e))
                   (fun m => ebv (expr_bu ds g0 m e))).
      + apply Permutation_filter'. apply (IHp pushed F g0 c Ng Wc Dc).
      + intros m I Cm. assert (Wm := bu_wf ds p S g0 m I). f_equal.
        apply (expr_ok_agree ds g0 _ e _ _ Eo).
        apply (vis_lookup ds pushed fvars p e g0 c m S Vo Dc I Wm).
    - (* Union *)
      apply andb_true_iff in F as [F1 F2]. apply td_union; eauto.
    - (* Minus *)
      apply andb_true_iff in F as [F12 Mo]. apply andb_true_iff in F12 as [F1 F2].
      pose proof (frag_shape _ _ _ F1) as S1. pose proof (frag_shape _ _ _ F2) as S2.
      pose proof (IHp1 pushed F1 g0 c Ng Wc Dc) as P1.
      pose proof (IHp2 pushed F2 g0 c Ng Wc Dc) as P2.
      cbn [eval_td eval_bu].
      set (gp := fun x y : sol => negb (compatible x y) || disjoint_dom x y).
      set (A := eval_bu ds g0 p1) in *. set (B := eval_bu ds g0 p2) in *.
      assert (WA : all_wf A) by (apply bu_wf, S1). assert (WB : all_wf B) by (apply bu_wf, S2).
      transitivity (filter (fun x => forallb (gp x) (join_ctx c B)) (join_ctx c A)).
      + rewrite (filter_ext_in' _ (fun x => forallb (gp x) (join_ctx c B))).
        * apply Permutation_filter'. exact P1.
        * intros x _. apply forallb_in_iff. intros y. rewrite dedup_in.
          split; apply Permutation_in; [exact P2|symmetry; exact P2].
      + apply Permutation_refl'. apply filter_join_ctx. intros x Ix Cx. cbv beta.
        assert (Wx := WA x Ix). pose proof (proj1 (compatible_spec _ _ Wx) Cx) as Px.
        unfold minus_ok in Mo. apply orb_true_iff in Mo as [E|Mo].
        * assert (pushed = []) by (destruct pushed; [reflexivity|discriminate]). subst pushed.
          rewrite (dom_in_nil c Dc), join_ctx_nil, merge_nil_l; auto.
        * apply andb_true_iff in Mo as [Wc' V0]. rewrite subsetv_in in Wc'.
          destruct (inter (cert p1) (cert p2)) as [|v0 rest] eqn:Iv; [discriminate|].
          assert (I0 : In v0 (inter (cert p1) (cert p2))) by (rewrite Iv; now left).
          unfold inter in I0. apply filter_In in I0 as [I1 I2]. apply memv_in in I2.
          assert (Wxc : sol_wf (merge c x) = true) by (apply wf_merge, Wc).
          assert (X0 : lookup v0 x <> None) by exact (cert_sound ds p1 S1 g0 x v0 Ix I1).
          assert (X0' : lookup v0 (merge c x) <> None).
          { rewrite lookup_merge by exact Wx. destruct (lookup v0 x); [discriminate|congruence]. }
          (* both sides: no compatible partner *)
          assert (L : forallb (gp (merge c x)) (join_ctx c B) = true <->
                      (forall y, In y B -> compatible y c = true -> compatible (merge c x) (merge c y) = false)).
          { rewrite forallb_forall. split.
            - intros H y Iy Cy. specialize (H (merge c y)).
              assert (In (merge c y) (join_ctx c B)).
              { unfold join_ctx. apply in_flat_map. exists y. split; [exact Iy|]. rewrite Cy. now left. }
              specialize (H H0). unfold gp in H. apply orb_true_iff in H as [H|H]; [now apply negb_true_iff in H|].
              rewrite (disjoint_dom_false _ _ v0) in H; [discriminate|exact X0'|].
              rewrite lookup_merge by (apply WB, Iy).
              pose proof (cert_sound ds p2 S2 g0 y v0 Iy I2). destruct (lookup v0 y); [discriminate|congruence].
            - intros H y' Iy'. apply in_join_ctx in Iy' as [y [Iy [Cy ->]]].
              unfold gp. rewrite (H y Iy Cy). reflexivity. }
          assert (R : forallb (gp x) B = true <-> (forall y, In y B -> compatible x y = false)).
          { rewrite forallb_forall. split.
            - intros H y Iy. specialize (H y Iy). unfold gp in H.
              apply orb_true_iff in H as [H|H]; [now apply negb_true_iff in H|].
              rewrite (disjoint_dom_false _ _ v0) in H; [discriminate|exact X0|].
              exact (cert_sound ds p2 S2 g0 y v0 Iy I2).
            - intros H y Iy. unfold gp. rewrite (H y Iy). reflexivity. }
          change (forallb (fun y : sol => negb (compatible x y) || disjoint_dom x y) B) with (forallb (gp x) B).
          destruct (forallb (gp (merge c x)) (join_ctx c B)) eqn:E1, (forallb (gp x) B) eqn:E2; try reflexivity.
          -- (* top-down keeps x, bottom-up removes it: some y ~ x; then y ~ c *)
             exfalso. assert (Hn : ~ (forall y, In y B -> compatible x y = false)).
             { intros Hh. apply R in Hh. congruence. }
             apply Hn. intros y Iy. destruct (compatible x y) eqn:Cxy; [|reflexivity]. exfalso.
             assert (Wy := WB y Iy). pose proof (proj1 (compatible_spec _ _ Wx) Cxy) as Pxy.
             assert (Pyc : compat_prop y c).
             { intros v t u Ly Lc.
               assert (In v (cert p1)).
               { apply Wc'. unfold inter. apply filter_In. split.
                 - apply maybe_allvars. apply (maybe_sound ds p2 S2 g0 y v Iy). congruence.
                 - apply memv_in, Dc. congruence. }
               pose proof (cert_sound ds p1 S1 g0 x v Ix H) as Nx.
               destruct (lookup v x) as [s|] eqn:Lx; [|congruence].
               rewrite <- (Pxy v s t Lx Ly). eapply Px; eauto. }
             pose proof (proj1 L eq_refl y Iy (proj2 (compatible_spec _ _ Wy) Pyc)) as Hf.
             assert (compat_prop (merge c x) (merge c y)) by (apply compat_ctx_both; auto).
             apply (compatible_spec _ _ Wxc) in H. congruence.
          -- (* bottom-up keeps x: then top-down keeps it too *)
             exfalso. assert (Hh : forall y, In y B -> compatible y c = true -> compatible (merge c x) (merge c y) = false).
             { intros y Iy Cy. destruct (compatible (merge c x) (merge c y)) eqn:Cc; [|reflexivity].
               exfalso. assert (Wy := WB y Iy).
               apply (compatible_spec _ _ Wxc) in Cc.
               apply compat_ctx_both in Cc; auto; [|now apply (compatible_spec _ _ Wy)].
               apply (compatible_spec _ _ Wx) in Cc. rewrite (proj1 R eq_refl y Iy) in Cc. discriminate. }
             apply L in Hh. discriminate.
    - (* Extend *)
      apply andb_true_iff in F as [Eo F]. unfold extend_ok in Eo.
      apply andb_true_iff in Eo as [Eo Vo]. apply andb_true_iff in Eo as [Eo Se].
      apply andb_true_iff in Eo as [Vp Vq]. apply negb_true_iff in Vp, Vq.
      pose proof (frag_shape _ _ _ F) as S. cbn [eval_td eval_bu].
      rewrite (IHp pushed F g0 c Ng Wc Dc).
      apply Permutation_refl'.
      change (map (fun s => match expr_td ds g0 (forget s c xvars) s e with
                            | Some t => bind v t s | None => s end) (join_ctx c (eval_bu ds g0 p))
              = join_ctx c (map (ext_step ds g0 v e) (eval_bu ds g0 p))).
      apply map_join_ctx. intros m I. assert (Wm := bu_wf ds p S g0 m I).
      assert (Lvm : lookup v m = None).
      { destruct (lookup v m) eqn:L; [|reflexivity].
        assert (In v (maybe p)) by (apply (maybe_sound ds p S g0 m v I); congruence). apply memv_in in H. congruence. }
      assert (Lvc : lookup v c = None).
      { destruct (lookup v c) eqn:L; [|reflexivity].
        assert (In v pushed) by (apply Dc; congruence). apply memv_in in H. congruence. }
      assert (Ev : expr_td ds g0 (forget (merge c m) c xvars) (merge c m) e = expr_bu ds g0 m e).
      { apply (expr_ok_agree ds g0 _ e _ _ Se). apply (vis_lookup ds pushed xvars p e g0 c m S Vo Dc I Wm). }
      unfold ext_step. rewrite Lvm. destruct (expr_bu ds g0 m e) as [t|] eqn:Eb.
      + split.
        * destruct (compatible m c) eqn:Cm.
          -- apply (compatible_spec _ _ (wf_bind v t m Wm)). apply compat_bind_intro; auto.
             ++ now apply (compatible_spec _ _ Wm).
             ++ intros w H. congruence.
          -- destruct (compatible (bind v t m) c) eqn:Cb; [|reflexivity].
             apply (compatible_spec _ _ (wf_bind v t m Wm)) in Cb.
             assert (compat_prop m c).
             { eapply compat_sub_l; [|exact Cb]. intros w u H. rewrite lookup_bind.
               destruct (N.eqb w v) eqn:E; [apply N.eqb_eq in E; subst; congruence|exact H]. }
             apply (compatible_spec _ _ Wm) in H. congruence.
        * intros Cm. rewrite Ev. symmetry. now apply merge_bind_comm.
      + split; [reflexivity|]. intros Cm. now rewrite Ev.
    - (* Values *)
      rewrite td_values. reflexivity.
    - (* Graph *)
      pose proof (frag_shape _ _ _ F) as S.
      destruct g as [t|v]; cbn [eval_td eval_bu ctx_get].
      + (* an IRI: nothing unless it names a graph of the dataset *)
        destruct (existsb (fun ng : N * graph => N.eqb (fst ng) t) (ds_named ds)) eqn:Ex; [|reflexivity].
        apply (IHp pushed F _ c (named_graph_NoDup _ t graphs_ok) Wc Dc).
      + (* a variable *)
        destruct (lookup v c) as [t|] eqn:Lv.
        * (* bound by the context *)
          rewrite join_ctx_flat_map.
          rewrite (flat_map_named _ (fun gr => join_ctx c (eval_bu ds gr p)) (ds_named ds) t names_nodup).
          -- destruct (existsb (fun ng : N * graph => N.eqb (fst ng) t) (ds_named ds)) eqn:Ex; [|reflexivity].
             apply (IHp pushed F _ c (named_graph_NoDup _ t graphs_ok) Wc Dc).
          -- intros ng _ D. apply graph_bound_other with (t := t); auto. apply bu_wf, S.
          -- intros ng _ E. rewrite E. apply graph_bound_same; auto. apply bu_wf, S.
        * (* unbound: every named graph *)
          rewrite join_ctx_flat_map. apply flat_map_perm_pointwise. intros ng Ing.
          rewrite <- join_single_ctx; [|exact Wc|apply bu_wf, S|reflexivity].
          apply join_lists_perm_l. apply (IHp pushed F _ c (graphs_ok ng Ing) Wc Dc).
  Qed.
End PD.
