(* C04_join (hash join), C04_pushdown on the fragment, and the tie theorem. *)
From RV Require Export Sparql.LeftJoinProofs.
Local Open Scope N_scope.

Definition graphs_nodup (ds : dataset) : Prop :=
  NoDup (map fst (ds_named ds)) /\ forall ng, In ng (ds_named ds) -> NoDup (snd ng).

Lemma named_graph_NoDup named t :
  (forall ng : term * graph, In ng named -> NoDup (snd ng)) -> NoDup (named_graph named t).
Proof.
  induction named as [|[n gr] r IH]; intros H; cbn; [constructor|].
  destruct (N.eqb n t); [apply (H (n, gr)); now left|apply IH; intros; apply H; now right].
Qed.

Lemma fst_inj_nodup {A B} (l : list (A * B)) a b :
  NoDup (map fst l) -> In a l -> In b l -> fst a = fst b -> a = b.
Proof.
  induction l as [|x l IH]; intros N Ia Ib E; [destruct Ia|].
  cbn in N. inversion N as [|? ? Nx N']; subst.
  destruct Ia as [->|Ia], Ib as [->|Ib]; auto.
  - exfalso. apply Nx. rewrite E. now apply in_map.
  - exfalso. apply Nx. rewrite <- E. now apply in_map.
Qed.

Lemma uniform_single y : uniform [y].
Proof. intros m m' [<-|[]] [<-|[]] v. tauto. Qed.

Lemma dedup_nodup L : NoDup (dedup L).
Proof.
  induction L as [|y r IH]; cbn; [constructor|]. constructor.
  - intros I. apply filter_In in I as [_ I]. rewrite (proj2 (sol_eqb_eq y y) eq_refl) in I. discriminate.
  - now apply NoDup_filter'.
Qed.

Lemma dedup_perm A B : Permutation A B -> Permutation (dedup A) (dedup B).
Proof.
  intros P. apply NoDup_Permutation; try apply dedup_nodup.
  intros x. rewrite !dedup_in. split; apply Permutation_in; [exact P|now symmetry].
Qed.


Lemma NoDup_map_inj {A B} (f : A -> B) l :
  (forall x y, In x l -> In y l -> f x = f y -> x = y) -> NoDup l -> NoDup (map f l).
Proof.
  intros Inj N. induction N as [|a l Na N IH]; cbn; [constructor|]. constructor.
  - intros I. apply in_map_iff in I as [b [E Ib]]. apply Na.
    rewrite (Inj a b); auto; [now left|now right].
  - apply IH. intros x y Ix Iy. apply Inj; now right.
Qed.

Lemma ext_step_inv ds g v e m :
  sol_wf m = true -> lookup v m = None ->
  restrict (fun w => negb (N.eqb w v)) (ext_step ds g v e m) = m.
Proof.
  intros W L. apply sol_ext; [apply wf_restrict, ext_step_wf, W|exact W|].
  intros w. rewrite lookup_restrict. unfold ext_step.
  destruct (N.eqb w v) eqn:E; cbn.
  - apply N.eqb_eq in E; subst. now rewrite L.
  - destruct (expr_bu ds g m e); [|reflexivity]. rewrite L. rewrite lookup_bind, E. reflexivity.
Qed.

Lemma sub_same_dom_eq x x' :
  sol_wf x = true -> sol_wf x' = true -> same_dom x x' -> sub_sol x' x -> x = x'.
Proof.
  intros W W' S Sub. symmetry. apply same_dom_ext; auto.
  intros v. specialize (S v). tauto.
Qed.

Lemma df_sound ds p : shape p = true -> df p = true -> graphs_nodup ds ->
  forall g, NoDup g -> NoDup (eval_bu ds g p).
Proof.
  intros S D [Nn Ng]. induction p; cbn [shape] in S; try discriminate; cbn [df] in D; intros g0 N0.
  - cbn [eval_bu]. apply NoDup_bgp_ext; [exact N0|reflexivity].
  - cbn [eval_bu]. apply andb_true_iff in S as [S1 S2].
    apply andb_true_iff in D as [D U2]. apply andb_true_iff in D as [D U1]. apply andb_true_iff in D as [D1 D2].
    apply NoDup_join_lists; auto using bu_wf, un_sound.
  - (* LeftJoin *)
    apply andb_true_iff in S as [S1 S2].
    apply andb_true_iff in D as [D U2]. apply andb_true_iff in D as [D U1]. apply andb_true_iff in D as [D1 D2].
    pose proof (bu_wf ds p1 S1 g0) as W1. pose proof (bu_wf ds p2 S2 g0) as W2.
    pose proof (un_sound ds p1 S1 U1 g0) as Un1. pose proof (un_sound ds p2 S2 U2 g0) as Un2.
    cbn [eval_bu].
    set (B := eval_bu ds g0 p2) in *. set (A := eval_bu ds g0 p1) in *.
    assert (PieceIn : forall x m,
      In m (match filter (fun b => compatible x b && ebv (expr_bu ds g0 (merge x b) e)) B with
            | [] => [x] | y0 :: ys => map (merge x) (y0 :: ys) end) ->
      m = x \/ exists y, In y B /\ compatible x y = true /\ m = merge x y).
    { intros x m I. destruct (filter _ B) as [|y0 ys] eqn:Fl.
      - destruct I as [<-|[]]. now left.
      - right. apply in_map_iff in I as [y [<- Iy]]. rewrite <- Fl in Iy.
        apply filter_In in Iy as [Iy Cy]. apply andb_true_iff in Cy as [Cy _]. eauto. }
    apply NoDup_flat_map; [now apply IHp1| |].
    + intros x Ix. destruct (filter _ B) as [|y0 ys] eqn:Fl; [repeat constructor; intros []|].
      rewrite <- Fl. apply NoDup_map_inj.
      * intros y y' Iy Iy' E. apply filter_In in Iy as [Iy _]. apply filter_In in Iy' as [Iy' _].
        eapply merge_inj_r; eauto.
      * apply NoDup_filter'. now apply IHp2.
    + intros x x' m Ix Ix' Dx I I'.
      apply PieceIn in I. apply PieceIn in I'. apply Dx.
      destruct I as [->|[y [Iy [C ->]]]], I' as [E|[y' [Iy' [C' E]]]].
      * exact E.
      * apply sub_same_dom_eq; auto. rewrite E. apply sub_sol_merge_l; auto. now rewrite compatible_sym by auto.
      * symmetry. apply sub_same_dom_eq; auto. rewrite <- E. apply sub_sol_merge_l; auto. now rewrite compatible_sym by auto.
      * eapply (merge_inj_l x x' y y'); eauto.
  - cbn [eval_bu]. apply NoDup_filter'. auto.
  - (* Minus *)
    cbn [eval_bu]. apply andb_true_iff in S as [S1 S2]. apply NoDup_filter'. auto.
  - (* Extend *)
    apply andb_true_iff in D as [D Nv]. apply negb_true_iff in Nv.
    cbn [eval_bu]. change (NoDup (map (ext_step ds g0 v e) (eval_bu ds g0 p))).
    assert (Lv : forall m, In m (eval_bu ds g0 p) -> lookup v m = None).
    { intros m I. destruct (lookup v m) eqn:L; [|reflexivity].
      assert (In v (maybe p)) by (eapply maybe_sound; eauto; congruence).
      apply memv_in in H. congruence. }
    apply NoDup_map_inj; [|auto].
    intros x y Ix Iy E.
    rewrite <- (ext_step_inv ds g0 v e x), <- (ext_step_inv ds g0 v e y); auto using bu_wf.
    * now rewrite E.
    * eapply bu_wf; eauto.
    * eapply bu_wf; eauto.
  - cbn [eval_bu]. now apply nodup_rows_NoDup.
  - (* Project that drops nothing *)
    cbn [eval_bu]. apply andb_true_iff in D as [D Sv]. rewrite subsetv_in in Sv.
    rewrite map_id_in; [now apply IHp|].
    intros m I. apply restrict_all; [eapply bu_wf; eauto|].
    intros w Hw. apply memv_in, Sv. eapply maybe_sound; eauto.
  - cbn [eval_bu]. destruct g as [t|v].
    + destruct (existsb _ _); [|constructor]. apply IHp; auto. now apply named_graph_NoDup.
    + apply andb_true_iff in D as [D U].
      apply NoDup_flat_map.
      * eapply NoDup_map_inv; eauto.
      * intros ng I. apply NoDup_join_lists; auto using bu_wf, un_sound, uniform_single.
        -- intros m [<-|[]]. reflexivity.
        -- repeat constructor. intros [].
      * intros ng ng' x I I' Dn H H'.
        apply in_join_lists in H as [m [y [Im [[<-|[]] [C ->]]]]].
        apply in_join_lists in H' as [m' [y' [Im' [[<-|[]] [C' E]]]]].
        apply Dn. apply (fst_inj_nodup (ds_named ds)); auto.
        assert (L : lookup v (merge m [(v, fst ng)]) = Some (fst ng)).
        { rewrite lookup_merge by reflexivity. cbn. now rewrite N.eqb_refl. }
        rewrite E, lookup_merge in L by reflexivity. cbn in L. rewrite N.eqb_refl in L. congruence.
  - cbn [eval_bu]. apply dedup_nodup.
Qed.

(* ---- set(...) on a duplicate-free list ---- *)
Lemma filter_all {A} (f : A -> bool) l : (forall x, In x l -> f x = true) -> filter f l = l.
Proof.
  induction l as [|a l IH]; intros H; cbn; [reflexivity|].
  rewrite (H a) by now left. f_equal. apply IH. intros; apply H; now right.
Qed.

Lemma dedup_NoDup L : NoDup L -> dedup L = L.
Proof.
  induction 1 as [|x r Nx N IH]; cbn; [reflexivity|]. rewrite IH. f_equal.
  apply filter_all. intros y I. apply negb_true_iff.
  destruct (sol_eqb x y) eqn:E; [|reflexivity]. apply sol_eqb_eq in E. subst. contradiction.
Qed.

Lemma join_lists_perm_r A B B' : Permutation B B' -> Permutation (join_lists A B) (join_lists A B').
Proof.
  intros P. unfold join_lists. apply flat_map_perm_pointwise. intros x _. now apply Permutation_flat_map.
Qed.

(* ---- hash join of two context-restricted lists ---- *)
Lemma hash_join_elem c m1 m2 :
  sol_wf c = true -> sol_wf m1 = true -> sol_wf m2 = true -> compatible m1 c = true ->
  (if compatible m2 c
   then (if compatible (merge c m1) (merge c m2) then [merge (merge c m1) (merge c m2)] else [])
   else [])
  = (if compatible (merge c m1) m2 then [merge (merge c m1) m2] else []).
Proof.
  intros Wc W1 W2 C1.
  assert (Wa : sol_wf (merge c m1) = true) by (apply wf_merge, Wc).
  assert (Sa : sub_sol c (merge c m1)) by (apply sub_sol_merge_l; assumption).
  assert (Cac : compat_prop (merge c m1) c).
  { intros v t u La Lc. apply Sa in Lc. congruence. }
  destruct (compatible m2 c) eqn:C2.
  - pose proof (proj1 (compatible_spec _ _ W2) C2) as P2.
    assert (W2c : sol_wf (merge c m2) = true) by (apply wf_merge, Wc).
    assert (K : compat_prop (merge c m1) (merge c m2) <-> compat_prop (merge c m1) m2).
    { rewrite compat_merge_iff; auto; [tauto|now apply compat_prop_sym]. }
    apply if_compat_ext; auto.
    intros _. f_equal. rewrite <- merge_assoc by assumption. f_equal.
    apply merge_absorb; auto.
  - destruct (compatible (merge c m1) m2) eqn:Ca; [|reflexivity].
    apply (compatible_spec _ _ Wa) in Ca.
    assert (compat_prop m2 c).
    { apply compat_prop_sym. eapply compat_sub_l; [exact Sa|exact Ca]. }
    apply (compatible_spec _ _ W2) in H. congruence.
Qed.

Lemma hash_join_lists c L1 L2 :
  sol_wf c = true -> all_wf L1 -> all_wf L2 ->
  join_lists (join_ctx c L1) (join_ctx c L2) = join_ctx c (join_lists L1 L2).
Proof.
  intros Wc A1 A2. unfold join_lists. rewrite join_ctx_flat_map.
  change (join_ctx c L1) with (flat_map (fun m => if compatible m c then [merge c m] else []) L1).
  rewrite flat_map_flat_map.
  apply flat_map_ext_in. intros m1 I1. rewrite join_ctx_flat_map.
  destruct (compatible m1 c) eqn:C1.
  - cbn [flat_map]. rewrite app_nil_r.
    change (join_ctx c L2) with (flat_map (fun m => if compatible m c then [merge c m] else []) L2).
    rewrite flat_map_flat_map.
    apply flat_map_ext_in. intros m2 I2.
    pose proof (hash_join_elem c m1 m2 Wc (A1 _ I1) (A2 _ I2) C1) as E.
    pose proof (join_elem_core c m1 m2 Wc (A1 _ I1) (A2 _ I2)) as E2. rewrite C1 in E2.
    transitivity (if compatible (merge c m1) m2 then [merge (merge c m1) m2] else []).
    + rewrite <- E. destruct (compatible m2 c); cbn [flat_map]; rewrite ?app_nil_r; reflexivity.
    + rewrite E2. destruct (compatible m1 m2); [|reflexivity]. cbn. now rewrite app_nil_r.
  - cbn [flat_map]. symmetry. apply flat_map_all_nil. intros m2 I2.
    pose proof (join_elem_core c m1 m2 Wc (A1 _ I1) (A2 _ I2)) as E2. rewrite C1 in E2.
    destruct (compatible m1 m2); [|reflexivity]. rewrite join_ctx_cons.
    change (join_ctx c []) with (@nil sol). rewrite app_nil_r. now rewrite <- E2.
Qed.

(* ---- helpers for Extend and Minus ---- *)
Lemma forallb_in_iff {A} (f : A -> bool) l l' :
  (forall x, In x l <-> In x l') -> forallb f l = forallb f l'.
Proof.
  intros H. destruct (forallb f l) eqn:E1, (forallb f l') eqn:E2; try reflexivity.
  - rewrite forallb_forall in E1. assert (forallb f l' = true) by (apply forallb_forall; intros x I; apply E1, H, I). congruence.
  - rewrite forallb_forall in E2. assert (forallb f l = true) by (apply forallb_forall; intros x I; apply E2, H, I). congruence.
Qed.

Lemma filter_ext_in' {A} (f g : A -> bool) l : (forall x, In x l -> f x = g x) -> filter f l = filter g l.
Proof.
  induction l as [|a l IH]; intros H; cbn; [reflexivity|].
  rewrite (H a) by now left. rewrite IH; [reflexivity|]. intros; apply H; now right.
Qed.

Lemma map_join_ctx c (ftd fbu : sol -> sol) L :
  (forall m, In m L -> compatible (fbu m) c = compatible m c
                       /\ (compatible m c = true -> ftd (merge c m) = merge c (fbu m))) ->
  map ftd (join_ctx c L) = join_ctx c (map fbu L).
Proof.
  induction L as [|m L IH]; intros H; [reflexivity|].
  cbn [map]. rewrite !join_ctx_cons, map_app, IH by (intros; apply H; now right).
  destruct (H m (or_introl eq_refl)) as [E1 E2]. rewrite E1.
  destruct (compatible m c); [|reflexivity]. cbn. now rewrite E2.
Qed.

Lemma maybe_allvars p : forall v, In v (maybe p) -> In v (allvars p).
Proof.
  induction p; cbn [maybe allvars]; intros w I; auto.
  - apply in_app_or in I as [I|I]; apply in_or_app; auto.
  - apply in_app_or in I as [I|I]; apply in_or_app; [left; auto|right; apply in_or_app; left; auto].
  - apply in_or_app. right. auto.
  - apply in_app_or in I as [I|I]; apply in_or_app; auto.
  - apply in_or_app. left. auto.
  - destruct I as [->|I]; [now left|right]. apply in_or_app. right. auto.
  - unfold inter in I. apply filter_In in I as [I _]. apply in_or_app. right. auto.
  - destruct g as [t|x]; [auto|]. destruct I as [->|I]; [now left|right; auto].
Qed.

Lemma disjoint_dom_false x y v :
  lookup v x <> None -> lookup v y <> None -> disjoint_dom x y = false.
Proof.
  intros Hx Hy. destruct (disjoint_dom x y) eqn:E; [|reflexivity].
  unfold disjoint_dom in E. rewrite forallb_forall in E.
  destruct (lookup v x) as [t|] eqn:L; [|congruence]. apply lookup_in in L.
  specialize (E _ L). cbn in E. destruct (lookup v y); [discriminate|congruence].
Qed.

(* two context-extended solutions are compatible iff the originals are *)
Lemma compat_ctx_both c x y :
  sol_wf c = true -> sol_wf x = true -> sol_wf y = true ->
  compat_prop x c -> compat_prop y c ->
  (compat_prop (merge c x) (merge c y) <-> compat_prop x y).
Proof.
  intros Wc Wx Wy Cx Cy.
  rewrite (compat_merge_iff (merge c x) c y Wc Wy (compat_prop_sym _ _ Cy)).
  split.
  - intros [_ H]. apply compat_prop_sym in H. apply compat_prop_sym.
    apply (compat_merge_iff y c x Wc Wx (compat_prop_sym _ _ Cx)) in H. apply H.
  - intros H. split.
    + intros v t u L1 L2. apply (sub_sol_merge_l c x Wx Wc) in L2; [congruence|].
      now apply (compatible_spec _ _ Wx).
    + apply compat_prop_sym. apply (compat_merge_iff y c x Wc Wx (compat_prop_sym _ _ Cx)).
      split; [exact Cy|now apply compat_prop_sym].
Qed.

(* ---- helpers for OPTIONAL ---- *)
Definition dom_in (c : sol) (pushed : list var) : Prop := forall v, lookup v c <> None -> In v pushed.

Lemma dom_in_nil c : dom_in c [] -> c = [].
Proof.
  destruct c as [|[v t] r]; [reflexivity|]. intros D. exfalso. apply (D v).
  cbn. rewrite N.eqb_refl. discriminate.
Qed.

(* what rdflib's forget(ctx, _except) shows of a context-extended solution is
   what the bottom-up solution itself binds - under [vis_ok], the negation of
   the trigger of finding F-C04-7 *)
Lemma vis_lookup ds pushed exc q e g c m :
  shape q = true -> vis_ok pushed exc q e = true -> dom_in c pushed ->
  In m (eval_bu ds g q) -> sol_wf m = true ->
  forall v, In v (evars e) -> lookup v (forget (merge c m) c exc) = lookup v m.
Proof.
  intros S V Dc I Wm v Iv. unfold forget. rewrite lookup_restrict, lookup_merge by exact Wm.
  destruct (lookup v c) as [u|] eqn:Lc.
  - unfold vis_ok in V. rewrite forallb_forall in V.
    assert (Ip : In v (inter (evars e) pushed)).
    { unfold inter. apply filter_In. split; [exact Iv|]. apply memv_in, Dc. congruence. }
    specialize (V v Ip). rewrite orb_false_r. apply orb_true_iff in V as [V|V].
    + apply andb_true_iff in V as [V1 V2]. rewrite V1. apply memv_in in V2.
      pose proof (cert_sound ds q S g m v I V2). destruct (lookup v m); [reflexivity|congruence].
    + apply andb_true_iff in V as [V1 V2]. apply negb_true_iff in V1, V2. rewrite V1.
      destruct (lookup v m) eqn:Lm; [|reflexivity].
      assert (In v (maybe q)) by (apply (maybe_sound ds q S g m v I); congruence).
      apply memv_in in H. congruence.
  - rewrite orb_true_r. destruct (lookup v m); reflexivity.
Qed.

Lemma remember_eq c x vs :
  sol_wf c = true -> sol_wf x = true ->
  (forall w, lookup w x <> None -> In w vs) ->
  (forall w, In w vs -> lookup w c <> None -> lookup w x <> None) ->
  remember (merge c x) vs = x.
Proof.
  intros Wc Wx Hx Hc. unfold remember. apply sol_ext; [apply wf_restrict, wf_merge, Wc|exact Wx|].
  intros w. rewrite lookup_restrict, lookup_merge by exact Wx.
  destruct (lookup w x) as [t|] eqn:Lx.
  - rewrite (proj2 (memv_in w vs)); [reflexivity|]. apply Hx. congruence.
  - destruct (memv w vs) eqn:M; [|reflexivity]. apply memv_in in M.
    destruct (lookup w c) eqn:Lc; [|reflexivity]. exfalso. apply (Hc w M); congruence.
Qed.

(* ---- sub-SELECT as the right operand of a lazy join: its solutions forget the
   part of the context that is not projected; evalLazyJoin merges it back ---- *)
Lemma project_weak a0 (f : var -> bool) T Bq :
  sol_wf a0 = true -> all_wf Bq -> Permutation T (join_ctx a0 Bq) ->
  (forall m, In m Bq -> forall v, lookup v m <> None -> lookup v a0 <> None -> f v = true) ->
  Permutation (map (fun s => merge s a0) (map (restrict f) T)) (join_ctx a0 (map (restrict f) Bq)).
Proof.
  intros Wa WB P H. rewrite map_map.
  rewrite (Permutation_map (fun s => merge (restrict f s) a0) P).
  apply Permutation_refl'. apply map_join_ctx. intros m I. assert (Wm := WB m I).
  assert (Wr : sol_wf (restrict f m) = true) by now apply wf_restrict.
  assert (E : compat_prop (restrict f m) a0 <-> compat_prop m a0).
  { split.
    - intros C v t u Lm La. apply (C v t u); [|exact La]. rewrite lookup_restrict.
      rewrite (H m I v); [exact Lm|congruence|congruence].
    - intros C v t u Lr La. rewrite lookup_restrict in Lr. destruct (f v); [|discriminate]. eapply C; eauto. }
  split.
  - destruct (compatible (restrict f m) a0) eqn:C1, (compatible m a0) eqn:C2; try reflexivity.
    + apply (compatible_spec _ _ Wr) in C1. apply E in C1. apply (compatible_spec _ _ Wm) in C1. congruence.
    + apply (compatible_spec _ _ Wm) in C2. apply E in C2. apply (compatible_spec _ _ Wr) in C2. congruence.
  - intros C. apply (compatible_spec _ _ Wm) in C.
    apply sol_ext; [apply wf_merge, wf_restrict, wf_merge, Wa|apply wf_merge, Wa|].
    intros v. rewrite !lookup_merge by assumption. rewrite !lookup_restrict, lookup_merge by assumption.
    destruct (lookup v a0) as [u|] eqn:La; destruct (f v); destruct (lookup v m) as [t|] eqn:Lm; try reflexivity.
    f_equal. symmetry. eapply C; eauto.
Qed.

(* ---- comparisons on terms that are not boolean literals ---- *)
Definition con_nb (e : expr) : bool := match e with ECon t => nb t | _ => true end.
Definition cmp_ok (a b : expr) : bool := atom a && atom b && con_nb a && con_nb b.

Lemma atom_typed ds g m1 full m2 a :
  atom a = true -> con_nb a = true ->
  (forall v, In v (evars a) -> lookup v m1 = lookup v m2) ->
  (forall v t, In v (evars a) -> lookup v m2 = Some t -> nb t = true) ->
  expr_td ds g m1 full a = expr_bu ds g m2 a
  /\ forall t, expr_bu ds g m2 a = Some t -> nb t = true.
Proof.
  destruct a; try discriminate; intros _ C H T; cbn.
  - split; [apply H; now left|]. intros t L. apply (T v t); [now left|exact L].
  - split; [reflexivity|]. intros t0 [= <-]. exact C.
Qed.

Lemma cmp_atoms_agree ds g full op a b m1 m2 :
  cmp_ok a b = true ->
  (forall v, In v (evars a ++ evars b) -> lookup v m1 = lookup v m2) ->
  (forall v t, In v (evars a ++ evars b) -> lookup v m2 = Some t -> nb t = true) ->
  expr_td ds g m1 full (ECmp op a b) = expr_bu ds g m2 (ECmp op a b).
Proof.
  intros S H T. unfold cmp_ok in S.
  apply andb_true_iff in S as [S N2]. apply andb_true_iff in S as [S N1]. apply andb_true_iff in S as [A1 A2].
  destruct (atom_typed ds g m1 full m2 a A1 N1) as [E1 T1].
  { intros v Iv. apply H. apply in_or_app. now left. }
  { intros v t Iv. apply T. apply in_or_app. now left. }
  destruct (atom_typed ds g m1 full m2 b A2 N2) as [E2 T2].
  { intros v Iv. apply H. apply in_or_app. now right. }
  { intros v t Iv. apply T. apply in_or_app. now right. }
  cbn. rewrite E1, E2.
  destruct (expr_bu ds g m2 a) as [t1|]; [|reflexivity].
  destruct (expr_bu ds g m2 b) as [t2|]; [|reflexivity]. cbn.
  apply cmp_nb; auto.
Qed.

(* IN over constants that are not boolean literals: rdflib's term equality is the
   specification's || of = comparisons *)
Lemma in3_nb t cs : nb t = true -> forallb nb cs = true -> in3 t cs = Some (existsb (N.eqb t) cs).
Proof.
  intros Nt. induction cs as [|c r IH]; intros H; [reflexivity|].
  cbn [forallb] in H. apply andb_true_iff in H as [Nc Nr].
  change (in3 t (c :: r)) with (or3b (ebv_of (cmp_spec OpEq t c)) (in3 t r)).
  rewrite (IH Nr), <- (cmp_nb OpEq t c Nt Nc). cbn [cmp_impl existsb]. rewrite ebv_of_bool.
  destruct (N.eqb t c); cbn; [reflexivity|]. destruct (existsb (N.eqb t) r); reflexivity.
Qed.

Lemma inter_empty_elim (a b : list var) v : nonempty (inter a b) = false -> In v a -> In v b -> False.
Proof.
  intros E Ia Ib. assert (In v (inter a b)) by (unfold inter; apply filter_In; split; [exact Ia|now apply memv_in]).
  destruct (inter a b); [destruct H|discriminate].
Qed.

(* graphs the evaluation runs on: sets of triples without boolean literals.  The
   second half is a real restriction: it keeps the proofs out of the data half
   of the region of F-C04-9 (comparisons meeting literals of two kinds) *)
Definition gok (g : graph) : Prop := NoDup g /\ graph_nb g = true.

(* ---- the fragment ---- *)
(* FILTER: an expression without EXISTS and without a literal-kind question
   ([expr_ok]); what rdflib shows it of the context is what the algebra gives it
   ([vis_ok] = the negation of the trigger of finding F-C04-7).  Errors allowed. *)
Definition filter_ok (pushed : list var) (nis : bool) (fv : option (list var)) (e : expr) (q : alg) : bool :=
  negb nis && vis_ok pushed fv q e.

(* BIND: the target is new (negation of the trigger of F-C04-1), expression as for FILTER *)
Definition extend_ok (pushed : list var) (xv : option (list var)) (q : alg) (v : var) (e : expr) : bool :=
  negb (memv v pushed) && negb (memv v (maybe q)) && vis_ok pushed xv q e.

(* MINUS: the negation of the trigger of finding F-C04-2 *)
Definition minus_ok (pushed : list var) (a b : alg) : bool :=
  negb (nonempty pushed)
  || (subsetv (inter (allvars b) pushed) (cert a) && nonempty (inter (cert a) (cert b))).

(* OPTIONAL: the negations of the triggers of findings F-C04-5 and F-C04-6
   (F-C04-4 cannot occur: no sub-SELECT in the fragment), filter as for FILTER *)
Definition leftjoin_ok (pushed : list var) (pv : option (list var)) (a b : alg) (e : expr) : bool :=
  negb (nonempty (inter (inter (evars e) pushed) (maybe a ++ maybe b)))
  && match pv with
     | Some vs => subsetv (maybe a) vs
                  && (negb (nonempty pushed) || subsetv (inter vs pushed) (cert a))
     | None => negb (nonempty pushed)
     end.

Definition optl (o : option (list var)) : list var := match o with Some l => l | None => [] end.

(* [frag]: patterns; [efrag]: expressions - comparisons between atoms, no compared
   variable may hold a boolean (the local form of the negation of the trigger of
   F-C04-9), EXISTS over a pattern of the fragment (its top filter, which rdflib
   marks no_isolated_scope, sees the merged solution) *)
Fixpoint frag (names : list term) (pushed : list var) (p : alg) {struct p} : bool :=
  match p with
  | LeftJoin pv a b e =>
      leftjoin_ok pushed pv a b e && frag names pushed a && frag names (pushed ++ maybe a) b
      && efrag names (pushed ++ maybe a ++ maybe b) e
      && negb (nonempty (inter (cmp_vars_e e) (bool_vars a ++ bool_vars b)))
  | Minus a b => frag names pushed a && frag names pushed b && minus_ok pushed a b
  | Extend xv q v e =>
      extend_ok pushed xv q v e && frag names pushed q
      && efrag names (inter pushed (optl xv) ++ maybe q) e
      && negb (nonempty (inter (cmp_vars_e e) (bool_vars q)))
  | BGP _ => true
  | Values rows => forallb sol_wf rows && forallb (fun r => forallb (fun p => nb (snd p)) r) rows
  | Union a b => frag names pushed a && frag names pushed b
  | Join lz a b =>
      frag names pushed a
      && (frag names (if lz then pushed ++ maybe a else pushed) b
          || match b with
             | Project q vs =>
                 (* a sub-SELECT pushed into by a lazy join: projection keeps the context
                    variables it mentions (= negation of the trigger of F-C04-4) *)
                 lz && frag names (pushed ++ maybe a) q
                 && subsetv (inter (pushed ++ maybe a) (allvars q)) vs
             | _ => false
             end)
  | Project q _ | Distinct q =>
      (* elsewhere: only where no binding can be pushed in *)
      negb (nonempty pushed) && frag names pushed q
  | Filter nis fv e q =>
      filter_ok pushed nis fv e q && frag names pushed q
      && efrag names (inter pushed (optl fv) ++ maybe q) e
      && negb (nonempty (inter (cmp_vars_e e) (bool_vars q)))
  | Graph _ q => frag names pushed q
  | Slice _ _ => false      (* a sliced sub-SELECT: runs only *)
  end
with efrag (names : list term) (pushed : list var) (e : expr) {struct e} : bool :=
  match e with
  | EVar _ | ECon _ | EBound _ => true
  | ECmp _ a b => cmp_ok a b
  | EAnd a b | EOr a b => efrag names pushed a && efrag names pushed b
  | ENot a => efrag names pushed a
  | EIn _ a cs => atom a && con_nb a && forallb nb cs
  | ECoalesce a b => efrag names pushed a && efrag names pushed b
  | EIf c a b => efrag names pushed c && efrag names pushed a && efrag names pushed b
  | EExists _ p =>
      match p with
      | Filter nis _ e' q =>
          (* rdflib must have marked the top filter no_isolated_scope (translateExists does) *)
          nis && frag names pushed q && efrag names (pushed ++ maybe q) e'
          && negb (nonempty (inter (cmp_vars_e e') (bool_vars q)))
      | _ => frag names pushed p
      end
  end.

Lemma frag_shape_aux names p :
  (forall pushed, frag names pushed p = true -> shape p = true)
  /\ match p with Project q _ => forall pushed, frag names pushed q = true -> shape q = true | _ => True end.
Proof.
  induction p; cbn [frag shape]; (split; [intros pushed F|try exact I]).
  - reflexivity.
  - destruct IHp1 as [IH1 _], IHp2 as [IH2 IHq].
    apply andb_true_iff in F as [F1 F2].
    rewrite (IH1 _ F1). cbn. apply orb_true_iff in F2 as [F2|F2]; [eauto|].
    destruct p2; try discriminate. apply andb_true_iff in F2 as [F2 _]. apply andb_true_iff in F2 as [_ F2].
    cbn. eauto.
  - destruct IHp1 as [IH1 _], IHp2 as [IH2 _].
    apply andb_true_iff in F as [F _]. apply andb_true_iff in F as [F _]. apply andb_true_iff in F as [F F2]. apply andb_true_iff in F as [_ F1].
    rewrite (IH1 _ F1), (IH2 _ F2). reflexivity.
  - destruct IHp as [IH _]. apply andb_true_iff in F as [F _]. apply andb_true_iff in F as [F _]. apply andb_true_iff in F as [_ F]. eauto.
  - destruct IHp1 as [IH1 _], IHp2 as [IH2 _].
    apply andb_true_iff in F as [F1 F2]. rewrite (IH1 _ F1), (IH2 _ F2). reflexivity.
  - destruct IHp1 as [IH1 _], IHp2 as [IH2 _].
    apply andb_true_iff in F as [F _]. apply andb_true_iff in F as [F1 F2].
    rewrite (IH1 _ F1), (IH2 _ F2). reflexivity.
  - destruct IHp as [IH _]. apply andb_true_iff in F as [F _]. apply andb_true_iff in F as [F _]. apply andb_true_iff in F as [_ F]. eauto.
  - exact F.
  - destruct IHp as [IH _]. apply andb_true_iff in F as [_ F]. eauto.
  - destruct IHp as [IH _]. exact IH.
  - destruct IHp as [IH _]. eauto.
  - destruct IHp as [IH _]. apply andb_true_iff in F as [_ F]. eauto.
  - discriminate F.
Qed.

Lemma frag_shape names p : forall pushed, frag names pushed p = true -> shape p = true.
Proof. apply frag_shape_aux. Qed.

Scheme alg_mind := Induction for alg Sort Prop
  with expr_mind := Induction for expr Sort Prop.
Combined Scheme alg_expr_mutind from alg_mind, expr_mind.

Section PD.
  Variable ds : dataset.
  Hypothesis Gn : graphs_nodup ds.
  Hypothesis Dn : ds_nb ds.
  Let names := map fst (ds_named ds).

  Definition nonempty_l (L : list sol) : bool := match L with [] => false | _ => true end.

  (* the push-down statement for a pattern *)
  Definition PD (p : alg) : Prop :=
    forall pushed, frag names pushed p = true ->
    forall g c, gok g -> sol_wf c = true -> dom_in c pushed ->
    Permutation (eval_td ds g c p) (join_ctx c (eval_bu ds g p)).

  (* EXISTS { p }: what 18.6 asks of the pattern for the current solution [m] *)
  Definition found_bu (g : graph) (m : sol) (p : alg) : bool :=
    match p with
    | Filter _ _ e' q =>
        existsb (fun m' => compatible m' m && ebv (expr_bu ds g (merge m' m) e')) (eval_bu ds g q)
    | _ => existsb (fun m' => compatible m' m) (eval_bu ds g p)
    end.
  Definition xfrag (pushed : list var) (p : alg) : bool :=
    match p with
    | Filter nis _ e' q =>
        nis && frag names pushed q && efrag names (pushed ++ maybe q) e'
        && negb (nonempty (inter (cmp_vars_e e') (bool_vars q)))
    | _ => frag names pushed p
    end.
  Definition EX (p : alg) : Prop :=
    forall pushed, xfrag pushed p = true ->
    forall g c m2, gok g -> sol_wf c = true -> sol_wf m2 = true -> dom_in c pushed ->
    (forall v, In v (allvars p) -> lookup v c = lookup v m2) ->
    (forall v t, In v (cmp_vars p) -> lookup v m2 = Some t -> nb t = true) ->
    nonempty_l (eval_td ds g c p) = found_bu g m2 p.

  (* agreement of the two expression evaluators *)
  Definition PE (e : expr) : Prop :=
    forall pushed, efrag names pushed e = true ->
    forall g m1 full m2, gok g -> sol_wf m1 = true -> sol_wf m2 = true -> dom_in m1 pushed ->
    (forall v, In v (evars e) -> lookup v m1 = lookup v m2) ->
    (forall v t, In v (cmp_vars_e e) -> lookup v m2 = Some t -> nb t = true) ->
    expr_td ds g m1 full e = expr_bu ds g m2 e.

  Lemma nonempty_perm A B : Permutation A B -> nonempty_l A = nonempty_l B.
  Proof.
    intros P. destruct A, B; try reflexivity.
    - apply Permutation_nil in P. discriminate.
    - symmetry in P. apply Permutation_nil in P. discriminate.
  Qed.

  Lemma nonempty_join_ctx c L : nonempty_l (join_ctx c L) = existsb (fun m' => compatible m' c) L.
  Proof.
    induction L as [|m L IH]; [reflexivity|]. rewrite join_ctx_cons. cbn [existsb].
    destruct (compatible m c); [reflexivity|exact IH].
  Qed.

  Lemma compatible_agree m' c m2 (dom' : list var) :
    sol_wf m' = true -> (forall v, lookup v m' <> None -> In v dom') ->
    (forall v, In v dom' -> lookup v c = lookup v m2) -> compatible m' c = compatible m' m2.
  Proof.
    intros W D H. destruct (compatible m' c) eqn:C1, (compatible m' m2) eqn:C2; try reflexivity.
    - apply (compatible_spec _ _ W) in C1.
      assert (compat_prop m' m2).
      { intros v t u L1 L2. rewrite <- H in L2 by (apply D; congruence). eapply C1; eauto. }
      apply (compatible_spec _ _ W) in H0. congruence.
    - apply (compatible_spec _ _ W) in C2.
      assert (compat_prop m' c).
      { intros v t u L1 L2. rewrite H in L2 by (apply D; congruence). eapply C2; eauto. }
      apply (compatible_spec _ _ W) in H0. congruence.
  Qed.

  (* EXISTS over a pattern that is not a no_isolated_scope filter: from its push-down *)
  Lemma ex_generic p g c m2 :
    shape p = true -> sol_wf c = true ->
    Permutation (eval_td ds g c p) (join_ctx c (eval_bu ds g p)) ->
    (forall v, In v (allvars p) -> lookup v c = lookup v m2) ->
    nonempty_l (eval_td ds g c p) = existsb (fun m' => compatible m' m2) (eval_bu ds g p).
  Proof.
    intros S Wc P H. rewrite (nonempty_perm _ _ P), nonempty_join_ctx.
    assert (K : forall L, (forall m', In m' L -> In m' (eval_bu ds g p)) ->
                existsb (fun m' => compatible m' c) L = existsb (fun m' => compatible m' m2) L).
    { induction L as [|m' L IH]; intros Sub; [reflexivity|]. cbn.
      rewrite IH by (intros; apply Sub; now right).
      rewrite (compatible_agree m' c m2 (allvars p)); auto.
      - eapply bu_wf; eauto. apply Sub. now left.
      - intros v Hv. apply maybe_allvars. eapply maybe_sound; eauto. apply Sub. now left. }
    apply K. auto.
  Qed.

  Lemma forget_dom pushed exc q g c m :
    shape q = true -> dom_in c pushed -> In m (eval_bu ds g q) -> sol_wf m = true ->
    dom_in (forget (merge c m) c exc) (inter pushed (optl exc) ++ maybe q).
  Proof.
    intros S Dc I Wm v Hv. unfold forget in Hv. rewrite lookup_restrict in Hv.
    fold (optl exc) in Hv.
    destruct (memv v (optl exc)) eqn:M; cbn in Hv.
    - rewrite lookup_merge in Hv by exact Wm. apply in_or_app.
      destruct (lookup v m) eqn:Lm; [right; apply (maybe_sound ds q S g m v I); congruence|].
      left. unfold inter. apply filter_In. split; [now apply Dc|exact M].
    - destruct (lookup v c) eqn:Lc; [congruence|].
      rewrite lookup_merge in Hv by exact Wm. apply in_or_app. right.
      destruct (lookup v m) eqn:Lm; [apply (maybe_sound ds q S g m v I); congruence|congruence].
  Qed.

  Definition SUB (p : alg) : Prop := match p with Project q _ => PD q | _ => True end.

  Theorem pushdown_mut : (forall p, PD p /\ EX p /\ SUB p) /\ (forall e, PE e).
  Proof.
    destruct Gn as [names_nodup graphs_ok].
    (* EX from PD for the constructors that are not filters *)
    assert (GEN : forall p, (forall pushed, xfrag pushed p = frag names pushed p) ->
                    (forall g m, found_bu g m p = existsb (fun m' => compatible m' m) (eval_bu ds g p)) ->
                    PD p -> EX p).
    { intros p Hx Hf Hp pushed X g c m2 Ng Wc W2 Dc H _. rewrite Hx in X. rewrite Hf.
      apply ex_generic; [eapply frag_shape; eauto|exact Wc|apply (Hp pushed X g c Ng Wc Dc)|exact H]. }
    assert (TYP : forall q g m cv, shape q = true -> gok g -> In m (eval_bu ds g q) ->
                    nonempty (inter cv (bool_vars q)) = false ->
                    forall v t, In v cv -> lookup v m = Some t -> nb t = true).
    { intros q g m cv Sq Gk Im E v t Iv L.
      destruct (bu_typed ds q Sq Dn g m (proj2 Gk) Im v t L) as [Hn|Hb]; [exact Hn|].
      exfalso. eapply inter_empty_elim; eauto. }
    apply alg_expr_mutind.
    - (* BGP *)
      intros ts. assert (HPD : PD (BGP ts)).
      { intros pushed F g0 c Ng Wc Dc.
      cbn [eval_td eval_bu]. rewrite eval_bgp_ext, <- bgp_pushdown by exact Wc.
      apply bgp_ext_perm; [apply sort_ts_perm|exact Wc].
      }
      split; [exact HPD|split; [apply GEN; auto|exact I]].
    - (* Join *)
      intros lazy p1 [IHp1 _] p2 [IHp2 [_ SUB2]]. assert (HPD : PD (Join lazy p1 p2)).
      { intros pushed F g0 c Ng Wc Dc. cbn [frag] in F.
      apply andb_true_iff in F as [F1 F2].
      pose proof (frag_shape _ _ _ F1) as S1.
      apply orb_true_iff in F2 as [F2|FP].
      2:{ (* a sub-SELECT as the right operand of a lazy join *)
        destruct p2 as [ | | | | | | | |q vs| | | ]; try discriminate FP.
        apply andb_true_iff in FP as [FP Sv]. apply andb_true_iff in FP as [Lz Fq]. subst lazy.
        rewrite subsetv_in in Sv. cbn [SUB] in SUB2.
        pose proof (frag_shape _ _ _ Fq) as Sq. cbn [eval_td eval_bu].
        set (vsf := fun v : var => memv v vs).
        assert (WB2 : all_wf (map (restrict vsf) (eval_bu ds g0 q))).
        { intros m Im. apply in_map_iff in Im as [m0 [<- I0]]. apply wf_restrict. eapply bu_wf; eauto. }
        rewrite <- (lazy_join_lists c _ _ Wc (bu_wf ds p1 S1 g0) WB2).
        etransitivity; [apply Permutation_flat_map; apply (IHp1 pushed F1 g0 c Ng Wc Dc)|].
        apply flat_map_perm_pointwise. intros a Ia.
        apply in_join_ctx in Ia as [m1 [I1 [C1 ->]]].
        assert (W1 := bu_wf ds p1 S1 g0 m1 I1).
        assert (Sa : sub_sol c (merge c m1)) by (apply sub_sol_merge_l; assumption).
        rewrite (thaw_ext c _ Sa).
        assert (Wa : sol_wf (merge c m1) = true) by (apply wf_merge, Wc).
        assert (Da : dom_in (merge c m1) (pushed ++ maybe p1)).
        { intros v Hv. rewrite lookup_merge in Hv by exact W1. apply in_or_app.
          destruct (lookup v m1) eqn:L1; [right; apply (maybe_sound ds p1 S1 g0 m1 v I1); congruence|left; now apply Dc]. }
        rewrite (map_id_in (fun b => merge b (merge c m1)) (join_ctx (merge c m1) _)).
        - apply project_weak; [exact Wa|apply bu_wf, Sq|apply (SUB2 _ Fq g0 _ Ng Wa Da)|].
          intros m Im v Hm Ha. apply memv_in, Sv. unfold inter. apply filter_In. split; [now apply Da|].
          apply memv_in, maybe_allvars. apply (maybe_sound ds q Sq g0 m v Im Hm).
        - intros z Iz. apply in_join_ctx in Iz as [r [Ir [Cr ->]]].
          apply merge_absorb; [apply wf_merge, Wa|exact Wa|]. apply sub_sol_merge_l; auto. }
      pose proof (frag_shape _ _ _ F2) as S2.
      destruct lazy; cbn [eval_td eval_bu].
      + (* evalLazyJoin *)
        rewrite <- (lazy_join_lists c _ _ Wc (bu_wf ds p1 S1 g0) (bu_wf ds p2 S2 g0)).
        etransitivity.
        * apply Permutation_flat_map. apply (IHp1 pushed F1 g0 c Ng Wc Dc).
        * apply flat_map_perm_pointwise. intros a Ia. apply Permutation_map.
          apply in_join_ctx in Ia as [m1 [I1 [C1 ->]]].
          assert (W1 := bu_wf ds p1 S1 g0 m1 I1).
          assert (Sa : sub_sol c (merge c m1)) by (apply sub_sol_merge_l; assumption).
          rewrite (thaw_ext c _ Sa).
          apply (IHp2 (pushed ++ maybe p1) F2 g0 (merge c m1) Ng); [apply wf_merge, Wc|].
          intros v Hv. rewrite lookup_merge in Hv by exact W1. apply in_or_app.
          destruct (lookup v m1) eqn:L1.
          -- right. eapply maybe_sound; eauto. congruence.
          -- left. now apply Dc.
      + (* hash join: a = evalPart(ctx, p1); b = list(evalPart(ctx, p2)); _join(a, b) *)
        pose proof (IHp1 pushed F1 g0 c Ng Wc Dc) as P1.
        pose proof (IHp2 pushed F2 g0 c Ng Wc Dc) as P2.
        rewrite <- (hash_join_lists c _ _ Wc (bu_wf ds p1 S1 g0) (bu_wf ds p2 S2 g0)).
        etransitivity; [apply join_lists_perm_l; exact P1|apply join_lists_perm_r; exact P2].
      }
      split; [exact HPD|split; [apply GEN; auto|exact I]].
    - (* LeftJoin *)
      intros p1vars p1 [IHp1 _] p2 [IHp2 _] e IHe. assert (HPD : PD (LeftJoin p1vars p1 p2 e)).
      { intros pushed F g0 c Ng Wc Dc. cbn [frag] in F.
      apply andb_true_iff in F as [F Ty]. apply negb_true_iff in Ty.
      apply andb_true_iff in F as [F Ee]. apply andb_true_iff in F as [F12 F2]. apply andb_true_iff in F12 as [Lo F1].
      unfold leftjoin_ok in Lo. apply andb_true_iff in Lo as [Ep Pv].
      apply negb_true_iff in Ep.
      assert (Enp : forall w, In w (evars e) -> lookup w c <> None -> ~ In w (maybe p1 ++ maybe p2)).
      { intros w Iw Lc Im.
        assert (In w (inter (inter (evars e) pushed) (maybe p1 ++ maybe p2))).
        { unfold inter. apply filter_In. split; [apply filter_In; split; [exact Iw|apply memv_in, Dc, Lc]|now apply memv_in]. }
        destruct (inter (inter (evars e) pushed) (maybe p1 ++ maybe p2)); [destruct H|discriminate]. }
      pose proof (frag_shape _ _ _ F1) as S1. pose proof (frag_shape _ _ _ F2) as S2.
      cbn [eval_td eval_bu].
      set (A := eval_bu ds g0 p1). set (B := eval_bu ds g0 p2).
      assert (WA : all_wf A) by (apply bu_wf, S1). assert (WB : all_wf B) by (apply bu_wf, S2).
      rewrite (Permutation_flat_map _ (IHp1 pushed F1 g0 c Ng Wc Dc)). fold A.
      rewrite join_ctx_flat_map.
      change (join_ctx c A) with (flat_map (fun m => if compatible m c then [merge c m] else []) A).
      rewrite flat_map_flat_map. apply flat_map_perm_pointwise. intros x Ix.
      assert (Wx := WA x Ix).
      assert (Dx : dom_in x (pushed ++ maybe p1)).
      { intros w Hw. apply in_or_app. right. eapply maybe_sound; eauto. }
      destruct (compatible x c) eqn:Cx.
      + cbn [flat_map]. rewrite app_nil_r.
        assert (Sa : sub_sol c (merge c x)) by (apply sub_sol_merge_l; assumption).
        assert (Wa : sol_wf (merge c x) = true) by (apply wf_merge, Wc).
        assert (Da : dom_in (merge c x) (pushed ++ maybe p1)).
        { intros w Hw. rewrite lookup_merge in Hw by exact Wx. apply in_or_app.
          destruct (lookup w x) eqn:L1; [right; eapply maybe_sound; eauto; congruence|left; now apply Dc]. }
        rewrite (thaw_ext c _ Sa).
        set (fe := fun y => ebv (expr_bu ds g0 (merge x y) e)).
        assert (TyXY : forall y, In y B -> forall v t, In v (cmp_vars_e e) -> lookup v (merge x y) = Some t -> nb t = true).
        { intros y Iy v t Iv L. rewrite lookup_merge in L by (apply WB, Iy).
          destruct (lookup v y) eqn:Ly.
          - injection L as <-. destruct (bu_typed ds p2 S2 Dn g0 y (proj2 Ng) Iy v _ Ly) as [Hn|Hb]; [exact Hn|].
            exfalso. eapply (inter_empty_elim _ _ v Ty); eauto. apply in_or_app. now right.
          - destruct (bu_typed ds p1 S1 Dn g0 x (proj2 Ng) Ix v t L) as [Hn|Hb]; [exact Hn|].
            exfalso. eapply (inter_empty_elim _ _ v Ty); eauto. apply in_or_app. now left. }
        assert (F1' : forall y, In y B -> compatible y (merge c x) = true ->
                  ebv (expr_td ds g0 (forget (merge (merge c x) y) c None) (merge (merge c x) y) e) = fe y).
        { intros y Iy Cy. assert (Wy := WB y Iy). unfold fe. f_equal.
          apply (IHe _ Ee g0 _ _ _ Ng); [apply wf_restrict, wf_merge, Wa|apply wf_merge, Wx| | |apply (TyXY y Iy)].
          { intros w Hw. unfold forget in Hw. rewrite lookup_restrict in Hw. cbn in Hw.
            destruct (lookup w c) eqn:Lc; [congruence|].
            rewrite !lookup_merge in Hw by assumption. rewrite Lc in Hw. apply in_or_app. right. apply in_or_app.
            destruct (lookup w y) eqn:Ly; [right; apply (maybe_sound ds p2 S2 g0 y w Iy); congruence|].
            left. apply (maybe_sound ds p1 S1 g0 x w Ix). destruct (lookup w x); congruence. }
          intros w Iw. unfold forget. rewrite lookup_restrict. cbn.
          rewrite !lookup_merge by assumption.
          destruct (lookup w c) as [u|] eqn:Lc; cbn.
          - assert (Nm : ~ In w (maybe p1 ++ maybe p2)) by (apply Enp; [exact Iw|congruence]).
            destruct (lookup w y) eqn:Ly.
            + exfalso. apply Nm. apply in_or_app. right. apply (maybe_sound ds p2 S2 g0 y w Iy). congruence.
            + destruct (lookup w x) eqn:Lx; [|reflexivity].
              exfalso. apply Nm. apply in_or_app. left. apply (maybe_sound ds p1 S1 g0 x w Ix). congruence.
          - destruct (lookup w y); [reflexivity|]. destruct (lookup w x); reflexivity. }
        assert (F2' : forall y, In y B -> compatible y x = true ->
                  ebv (expr_td ds g0 (merge x y) (merge x y) e) = fe y).
        { intros y Iy Cy. assert (Wy := WB y Iy). unfold fe. f_equal.
          apply (IHe _ Ee g0 _ _ _ Ng); [apply wf_merge, Wx|apply wf_merge, Wx| |reflexivity|apply (TyXY y Iy)].
          intros w Hw. rewrite lookup_merge in Hw by assumption. apply in_or_app. right. apply in_or_app.
          destruct (lookup w y) eqn:Ly; [right; apply (maybe_sound ds p2 S2 g0 y w Iy); congruence|].
          left. apply (maybe_sound ds p1 S1 g0 x w Ix Hw). }
        destruct p1vars as [vs|].
        * (* the second evaluation under remember(p1._vars) *)
          apply andb_true_iff in Pv as [Mv Pp]. rewrite subsetv_in in Mv.
          assert (Rx : thaw c (remember (merge c x) vs) = x).
          { unfold thaw. apply remember_eq; auto.
            - intros w Hw. apply Mv. apply (maybe_sound ds p1 S1 g0 x w Ix Hw).
            - intros w Iw Hc. apply orb_true_iff in Pp as [E|Sv].
              + assert (pushed = []) by (destruct pushed; [reflexivity|discriminate]). subst pushed.
                rewrite (dom_in_nil c Dc) in Hc. cbn in Hc. congruence.
              + rewrite subsetv_in in Sv.
                apply (cert_sound ds p1 S1 g0 x w Ix). apply Sv. unfold inter. apply filter_In. split; [exact Iw|].
                apply memv_in, Dc, Hc. }
          rewrite Rx.
          apply (lj_piece c x B Wc Wx WB Cx fe _ (eval_td ds g0 x p2) _ _ (Some vs)); auto.
          -- apply (IHp2 (pushed ++ maybe p1) F2 g0 (merge c x) Ng Wa Da).
          -- discriminate.
          -- intros _. apply (IHp2 (pushed ++ maybe p1) F2 g0 x Ng Wx Dx).
        * apply (lj_piece c x B Wc Wx WB Cx fe _ [] _ (fun b => ebv (expr_td ds g0 b b e)) None); auto.
          -- apply (IHp2 (pushed ++ maybe p1) F2 g0 (merge c x) Ng Wa Da).
          -- intros _. apply negb_true_iff in Pv.
             assert (pushed = []) by (destruct pushed; [reflexivity|discriminate]). subst pushed.
             apply (dom_in_nil c Dc).
          -- intros N. now destruct N.
      + (* the left solution is incompatible with the context: so is all it yields *)
        cbn [flat_map]. symmetry. apply Permutation_refl'. apply join_ctx_incompat. intros m Im.
        assert (Sm : sub_sol x m).
        { destruct (filter _ B) as [|y0 ys] eqn:Fl.
          - destruct Im as [<-|[]]. apply sub_sol_refl.
          - apply in_map_iff in Im as [y [<- Iy]]. rewrite <- Fl in Iy. apply filter_In in Iy as [Iy Cy].
            apply andb_true_iff in Cy as [Cy _]. apply sub_sol_merge_l; auto.
            now rewrite compatible_sym by auto. }
        assert (Wm : sol_wf m = true).
        { destruct (filter _ B) as [|y0 ys]; [destruct Im as [<-|[]]; exact Wx|].
          apply in_map_iff in Im as [y [<- _]]. apply wf_merge, Wx. }
        destruct (compatible m c) eqn:Cm; [|reflexivity].
        apply (compatible_spec _ _ Wm) in Cm.
        assert (compat_prop x c) by (eapply compat_sub_l; eauto).
        apply (compatible_spec _ _ Wx) in H. congruence.
      }
      split; [exact HPD|split; [apply GEN; auto|exact I]].
    - (* Filter *)
      intros nis fvars e IHe p [IHp _]. assert (HPD : PD (Filter nis fvars e p)).
      { intros pushed F g0 c Ng Wc Dc. cbn [frag] in F.
      apply andb_true_iff in F as [F Ty]. apply negb_true_iff in Ty.
      apply andb_true_iff in F as [F Ee]. apply andb_true_iff in F as [FO F]. unfold filter_ok in FO.
      apply andb_true_iff in FO as [Nis Vo].
      apply negb_true_iff in Nis. subst nis.
      pose proof (frag_shape _ _ _ F) as S. cbn [eval_td eval_bu].
      rewrite <- (filter_join_ctx c
                   (fun s => ebv (expr_td ds g0 (forget s c fvars) s e))
                   (fun m => ebv (expr_bu ds g0 m e))).
      + apply Permutation_filter'. apply (IHp pushed F g0 c Ng Wc Dc).
      + intros m I Cm. assert (Wm := bu_wf ds p S g0 m I). f_equal.
        apply (IHe _ Ee g0 _ _ _ Ng); [apply wf_restrict, wf_merge, Wc|exact Wm| | |].
        * apply (forget_dom pushed fvars p g0 c m S Dc I Wm).
        * apply (vis_lookup ds pushed fvars p e g0 c m S Vo Dc I Wm).
        * apply (TYP p g0 m _ S Ng I Ty).
      }
      split; [exact HPD|split; [|exact I]].
      destruct nis; [|intros pushed X; cbn [xfrag andb] in X; discriminate X].
      (* the filter at the top of an EXISTS pattern sees the merged solution *)
      intros pushed X g0 c m2 Ng Wc W2 Dc H TyM. cbn [xfrag found_bu] in *.
      apply andb_true_iff in X as [X Ty]. apply negb_true_iff in Ty.
      apply andb_true_iff in X as [F Ee]. cbn [andb] in F. pose proof (frag_shape _ _ _ F) as S.
      cbn [eval_td].
      rewrite (nonempty_perm _ _ (Permutation_filter' _ _ _ (IHp pushed F g0 c Ng Wc Dc))).
      set (B := eval_bu ds g0 p).
      assert (K : forall L, (forall m', In m' L -> In m' B) ->
         nonempty_l (filter (fun s => ebv (expr_td ds g0 s s e)) (join_ctx c L))
         = existsb (fun m' => compatible m' m2 && ebv (expr_bu ds g0 (merge m' m2) e)) L).
      { induction L as [|m' L IH]; intros Sub; [reflexivity|].
        assert (Im : In m' B) by (apply Sub; now left). assert (Wm := bu_wf ds p S g0 m' Im).
        assert (Dm : forall v, lookup v m' <> None -> In v (allvars (Filter true fvars e p))).
        { intros v Hv. cbn. apply in_or_app. right. apply maybe_allvars. apply (maybe_sound ds p S g0 m' v Im Hv). }
        rewrite join_ctx_cons, filter_app. cbn [existsb].
        rewrite <- (compatible_agree m' c m2 (allvars (Filter true fvars e p)) Wm Dm H).
        rewrite <- IH by (intros; apply Sub; now right).
        destruct (compatible m' c) eqn:Cm; cbn [filter app andb orb]; [|reflexivity].
        assert (Ev : expr_td ds g0 (merge c m') (merge c m') e = expr_bu ds g0 (merge m' m2) e).
        { apply (IHe _ Ee g0 _ _ _ Ng); [apply wf_merge, Wc|apply wf_merge, Wm| | |].
          3:{ intros v t Iv Lq. rewrite lookup_merge in Lq by exact W2.
              destruct (lookup v m2) eqn:L2.
              - injection Lq as <-. apply (TyM v t0); [cbn; apply in_or_app; now left|exact L2].
              - apply (TYP p g0 m' _ S Ng Im Ty v t Iv Lq). }
          - intros v Hv. rewrite lookup_merge in Hv by exact Wm. apply in_or_app.
            destruct (lookup v m') eqn:Lq; [right; apply (maybe_sound ds p S g0 m' v Im); congruence|left; now apply Dc].
          - intros v Iv. rewrite !lookup_merge by assumption.
            assert (Hc : lookup v c = lookup v m2) by (apply H; cbn; apply in_or_app; now left).
            rewrite <- Hc. apply (compatible_spec _ _ Wm) in Cm.
            destruct (lookup v c) as [u|] eqn:Lc; destruct (lookup v m') as [t|] eqn:Lm; try reflexivity.
            f_equal. eapply Cm; eauto. }
        rewrite Ev. destruct (ebv (expr_bu ds g0 (merge m' m2) e)); reflexivity. }
      apply K. auto.
    - (* Union *)
      intros p1 [IHp1 _] p2 [IHp2 _]. assert (HPD : PD (Union p1 p2)).
      { intros pushed F g0 c Ng Wc Dc. cbn [frag] in F.
      apply andb_true_iff in F as [F1 F2]. apply td_union; eauto.
      }
      split; [exact HPD|split; [apply GEN; auto|exact I]].
    - (* Minus *)
      intros p1 [IHp1 _] p2 [IHp2 _]. assert (HPD : PD (Minus p1 p2)).
      { intros pushed F g0 c Ng Wc Dc. cbn [frag] in F.
      apply andb_true_iff in F as [F12 Mo]. apply andb_true_iff in F12 as [F1 F2].
      pose proof (frag_shape _ _ _ F1) as S1. pose proof (frag_shape _ _ _ F2) as S2.
      pose proof (IHp1 pushed F1 g0 c Ng Wc Dc) as P1.
      pose proof (IHp2 pushed F2 g0 c Ng Wc Dc) as P2.
      cbn [eval_td eval_bu].
      set (gp := fun x y : sol => negb (compatible x y) || disjoint_dom x y).
      set (A := eval_bu ds g0 p1) in *. set (B := eval_bu ds g0 p2) in *.
      assert (WA : all_wf A) by (apply bu_wf, S1). assert (WB : all_wf B) by (apply bu_wf, S2).
      transitivity (filter (fun x => forallb (gp x) (join_ctx c B)) (join_ctx c A)).
      + rewrite (filter_ext_in' _ (fun x => forallb (gp x) (join_ctx c B))).
        * apply Permutation_filter'. exact P1.
        * intros x _. apply forallb_in_iff. intros y. rewrite dedup_in.
          split; apply Permutation_in; [exact P2|symmetry; exact P2].
      + apply Permutation_refl'. apply filter_join_ctx. intros x Ix Cx. cbv beta.
        assert (Wx := WA x Ix). pose proof (proj1 (compatible_spec _ _ Wx) Cx) as Px.
        unfold minus_ok in Mo. apply orb_true_iff in Mo as [E|Mo].
        * assert (pushed = []) by (destruct pushed; [reflexivity|discriminate]). subst pushed.
          rewrite (dom_in_nil c Dc), join_ctx_nil, merge_nil_l; auto.
        * apply andb_true_iff in Mo as [Wc' V0]. rewrite subsetv_in in Wc'.
          destruct (inter (cert p1) (cert p2)) as [|v0 rest] eqn:Iv; [discriminate|].
          assert (I0 : In v0 (inter (cert p1) (cert p2))) by (rewrite Iv; now left).
          unfold inter in I0. apply filter_In in I0 as [I1 I2]. apply memv_in in I2.
          assert (Wxc : sol_wf (merge c x) = true) by (apply wf_merge, Wc).
          assert (X0 : lookup v0 x <> None) by exact (cert_sound ds p1 S1 g0 x v0 Ix I1).
          assert (X0' : lookup v0 (merge c x) <> None).
          { rewrite lookup_merge by exact Wx. destruct (lookup v0 x); [discriminate|congruence]. }
          (* both sides: no compatible partner *)
          assert (L : forallb (gp (merge c x)) (join_ctx c B) = true <->
                      (forall y, In y B -> compatible y c = true -> compatible (merge c x) (merge c y) = false)).
          { rewrite forallb_forall. split.
            - intros H y Iy Cy. specialize (H (merge c y)).
              assert (In (merge c y) (join_ctx c B)).
              { unfold join_ctx. apply in_flat_map. exists y. split; [exact Iy|]. rewrite Cy. now left. }
              specialize (H H0). unfold gp in H. apply orb_true_iff in H as [H|H]; [now apply negb_true_iff in H|].
              rewrite (disjoint_dom_false _ _ v0) in H; [discriminate|exact X0'|].
              rewrite lookup_merge by (apply WB, Iy).
              pose proof (cert_sound ds p2 S2 g0 y v0 Iy I2). destruct (lookup v0 y); [discriminate|congruence].
            - intros H y' Iy'. apply in_join_ctx in Iy' as [y [Iy [Cy ->]]].
              unfold gp. rewrite (H y Iy Cy). reflexivity. }
          assert (R : forallb (gp x) B = true <-> (forall y, In y B -> compatible x y = false)).
          { rewrite forallb_forall. split.
            - intros H y Iy. specialize (H y Iy). unfold gp in H.
              apply orb_true_iff in H as [H|H]; [now apply negb_true_iff in H|].
              rewrite (disjoint_dom_false _ _ v0) in H; [discriminate|exact X0|].
              exact (cert_sound ds p2 S2 g0 y v0 Iy I2).
            - intros H y Iy. unfold gp. rewrite (H y Iy). reflexivity. }
          change (forallb (fun y : sol => negb (compatible x y) || disjoint_dom x y) B) with (forallb (gp x) B).
          destruct (forallb (gp (merge c x)) (join_ctx c B)) eqn:E1, (forallb (gp x) B) eqn:E2; try reflexivity.
          -- (* top-down keeps x, bottom-up removes it: some y ~ x; then y ~ c *)
             exfalso. assert (Hn : ~ (forall y, In y B -> compatible x y = false)).
             { intros Hh. apply R in Hh. congruence. }
             apply Hn. intros y Iy. destruct (compatible x y) eqn:Cxy; [|reflexivity]. exfalso.
             assert (Wy := WB y Iy). pose proof (proj1 (compatible_spec _ _ Wx) Cxy) as Pxy.
             assert (Pyc : compat_prop y c).
             { intros v t u Ly Lc.
               assert (In v (cert p1)).
               { apply Wc'. unfold inter. apply filter_In. split.
                 - apply maybe_allvars. apply (maybe_sound ds p2 S2 g0 y v Iy). congruence.
                 - apply memv_in, Dc. congruence. }
               pose proof (cert_sound ds p1 S1 g0 x v Ix H) as Nx.
               destruct (lookup v x) as [s|] eqn:Lx; [|congruence].
               rewrite <- (Pxy v s t Lx Ly). eapply Px; eauto. }
             pose proof (proj1 L eq_refl y Iy (proj2 (compatible_spec _ _ Wy) Pyc)) as Hf.
             assert (compat_prop (merge c x) (merge c y)) by (apply compat_ctx_both; auto).
             apply (compatible_spec _ _ Wxc) in H. congruence.
          -- (* bottom-up keeps x: then top-down keeps it too *)
             exfalso. assert (Hh : forall y, In y B -> compatible y c = true -> compatible (merge c x) (merge c y) = false).
             { intros y Iy Cy. destruct (compatible (merge c x) (merge c y)) eqn:Cc; [|reflexivity].
               exfalso. assert (Wy := WB y Iy).
               apply (compatible_spec _ _ Wxc) in Cc.
               apply compat_ctx_both in Cc; auto; [|now apply (compatible_spec _ _ Wy)].
               apply (compatible_spec _ _ Wx) in Cc. rewrite (proj1 R eq_refl y Iy) in Cc. discriminate. }
             apply L in Hh. discriminate.
      }
      split; [exact HPD|split; [apply GEN; auto|exact I]].
    - (* Extend *)
      intros xvars p [IHp _] v e IHe. assert (HPD : PD (Extend xvars p v e)).
      { intros pushed F g0 c Ng Wc Dc. cbn [frag] in F.
      apply andb_true_iff in F as [F Ty]. apply negb_true_iff in Ty.
      apply andb_true_iff in F as [F Ee]. apply andb_true_iff in F as [Eo F]. unfold extend_ok in Eo.
      apply andb_true_iff in Eo as [Eo Vo].
      apply andb_true_iff in Eo as [Vp Vq]. apply negb_true_iff in Vp, Vq.
      pose proof (frag_shape _ _ _ F) as S. cbn [eval_td eval_bu].
      rewrite (IHp pushed F g0 c Ng Wc Dc).
      apply Permutation_refl'.
      change (map (fun s => match expr_td ds g0 (forget s c xvars) s e with
                            | Some t => bind v t s | None => s end) (join_ctx c (eval_bu ds g0 p))
              = join_ctx c (map (ext_step ds g0 v e) (eval_bu ds g0 p))).
      apply map_join_ctx. intros m I. assert (Wm := bu_wf ds p S g0 m I).
      assert (Lvm : lookup v m = None).
      { destruct (lookup v m) eqn:L; [|reflexivity].
        assert (In v (maybe p)) by (apply (maybe_sound ds p S g0 m v I); congruence). apply memv_in in H. congruence. }
      assert (Lvc : lookup v c = None).
      { destruct (lookup v c) eqn:L; [|reflexivity].
        assert (In v pushed) by (apply Dc; congruence). apply memv_in in H. congruence. }
      assert (Ev : expr_td ds g0 (forget (merge c m) c xvars) (merge c m) e = expr_bu ds g0 m e).
      { apply (IHe _ Ee g0 _ _ _ Ng); [apply wf_restrict, wf_merge, Wc|exact Wm| | |].
        - apply (forget_dom pushed xvars p g0 c m S Dc I Wm).
        - apply (vis_lookup ds pushed xvars p e g0 c m S Vo Dc I Wm).
        - apply (TYP p g0 m _ S Ng I Ty). }
      unfold ext_step. rewrite Lvm. destruct (expr_bu ds g0 m e) as [t|] eqn:Eb.
      + split.
        * destruct (compatible m c) eqn:Cm.
          -- apply (compatible_spec _ _ (wf_bind v t m Wm)). apply compat_bind_intro; auto.
             ++ now apply (compatible_spec _ _ Wm).
             ++ intros w H. congruence.
          -- destruct (compatible (bind v t m) c) eqn:Cb; [|reflexivity].
             apply (compatible_spec _ _ (wf_bind v t m Wm)) in Cb.
             assert (compat_prop m c).
             { eapply compat_sub_l; [|exact Cb]. intros w u H. rewrite lookup_bind.
               destruct (N.eqb w v) eqn:E; [apply N.eqb_eq in E; subst; congruence|exact H]. }
             apply (compatible_spec _ _ Wm) in H. congruence.
        * intros Cm. rewrite Ev. symmetry. now apply merge_bind_comm.
      + split; [reflexivity|]. intros Cm. now rewrite Ev.
      }
      split; [exact HPD|split; [apply GEN; auto|exact I]].
    - (* Values *)
      intros rows. assert (HPD : PD (Values rows)).
      { intros pushed F g0 c Ng Wc Dc.
      rewrite td_values. reflexivity.
      }
      split; [exact HPD|split; [apply GEN; auto|exact I]].
    - (* Project: where nothing can be pushed in (elsewhere see the Join case) *)
      intros p [IHp _] vs. assert (HPD : PD (Project p vs)).
      { intros pushed F g0 c Ng Wc Dc. cbn [frag] in F.
        apply andb_true_iff in F as [E F]. apply negb_true_iff in E.
        assert (pushed = []) by (destruct pushed; [reflexivity|discriminate]). subst pushed.
        assert (c = []) by apply (dom_in_nil c Dc). subst c. pose proof (frag_shape _ _ _ F) as S.
        cbn [eval_td eval_bu].
        rewrite join_ctx_nil.
        - apply Permutation_map. rewrite (IHp [] F g0 [] Ng Wc Dc). rewrite join_ctx_nil; [reflexivity|apply bu_wf, S].
        - intros m Im. apply in_map_iff in Im as [m0 [<- I0]]. apply wf_restrict. eapply bu_wf; eauto. }
      split; [exact HPD|split; [apply GEN; auto|exact IHp]].
    - (* Graph *)
      intros g p [IHp _]. assert (HPD : PD (Graph g p)).
      { intros pushed F g0 c Ng Wc Dc. cbn [frag] in F.
      pose proof (frag_shape _ _ _ F) as S.
      destruct g as [t|v]; cbn [eval_td eval_bu ctx_get].
      + (* an IRI: nothing unless it names a graph of the dataset *)
        destruct (existsb (fun ng : N * graph => N.eqb (fst ng) t) (ds_named ds)) eqn:Ex; [|reflexivity].
        apply (IHp pushed F _ c (conj (named_graph_NoDup _ t graphs_ok) (named_graph_nb ds t Dn)) Wc Dc).
      + (* a variable *)
        destruct (lookup v c) as [t|] eqn:Lv.
        * (* bound by the context *)
          rewrite join_ctx_flat_map.
          rewrite (flat_map_named _ (fun gr => join_ctx c (eval_bu ds gr p)) (ds_named ds) t names_nodup).
          -- destruct (existsb (fun ng : N * graph => N.eqb (fst ng) t) (ds_named ds)) eqn:Ex; [|reflexivity].
             apply (IHp pushed F _ c (conj (named_graph_NoDup _ t graphs_ok) (named_graph_nb ds t Dn)) Wc Dc).
          -- intros ng _ D. apply graph_bound_other with (t := t); auto. apply bu_wf, S.
          -- intros ng _ E. rewrite E. apply graph_bound_same; auto. apply bu_wf, S.
        * (* unbound: every named graph *)
          rewrite join_ctx_flat_map. apply flat_map_perm_pointwise. intros ng Ing.
          rewrite <- join_single_ctx; [|exact Wc|apply bu_wf, S|reflexivity].
          apply join_lists_perm_l. apply (IHp pushed F _ c (conj (graphs_ok ng Ing) (proj2 (Dn ng Ing))) Wc Dc).
      }
      split; [exact HPD|split; [apply GEN; auto|exact I]].
    - (* Distinct: where nothing can be pushed in *)
      intros p [IHp _]. assert (HPD : PD (Distinct p)).
      { intros pushed F g0 c Ng Wc Dc. cbn [frag] in F.
        apply andb_true_iff in F as [E F]. apply negb_true_iff in E.
        assert (pushed = []) by (destruct pushed; [reflexivity|discriminate]). subst pushed.
        assert (c = []) by apply (dom_in_nil c Dc). subst c. pose proof (frag_shape _ _ _ F) as S.
        cbn [eval_td eval_bu].
        rewrite join_ctx_nil.
        - apply dedup_perm. rewrite (IHp [] F g0 [] Ng Wc Dc). rewrite join_ctx_nil; [reflexivity|apply bu_wf, S].
        - intros m Im. apply (proj1 (dedup_in _ _)) in Im. eapply bu_wf; eauto. }
      split; [exact HPD|split; [apply GEN; auto|exact I]].
    - (* Slice: outside the fragment *)
      intros n p _. assert (HPD : PD (Slice n p)) by (intros pushed F; discriminate F).
      split; [exact HPD|split; [apply GEN; auto|exact I]].
    - (* EVar *)
      intros v pushed _ g m1 full m2 _ _ _ _ H _. cbn. apply H. now left.
    - intros t pushed _ g m1 full m2 _ _ _ _ H _. reflexivity.
    - (* ECmp: atoms that are not boolean literals *)
      intros op a _ b _ pushed S g m1 full m2 _ _ _ _ H T. cbn in S.
      apply cmp_atoms_agree; auto.
      intros v t Iv. apply T. cbn. rewrite app_assoc. apply in_or_app. now left.
    - (* EAnd *)
      intros a IHa b IHb pushed S g m1 full m2 Ng W1 W2 D H T. cbn in S. apply andb_true_iff in S as [S1 S2]. cbn.
      rewrite (IHa _ S1 g m1 full m2 Ng W1 W2 D), (IHb _ S2 g m1 full m2 Ng W1 W2 D); [reflexivity| | | |];
        try (intros v Iv; apply H; cbn; apply in_or_app; auto);
        intros v t Iv; apply T; cbn; apply in_or_app; auto.
    - (* EOr *)
      intros a IHa b IHb pushed S g m1 full m2 Ng W1 W2 D H T. cbn in S. apply andb_true_iff in S as [S1 S2]. cbn.
      rewrite (IHa _ S1 g m1 full m2 Ng W1 W2 D), (IHb _ S2 g m1 full m2 Ng W1 W2 D); [reflexivity| | | |];
        try (intros v Iv; apply H; cbn; apply in_or_app; auto);
        intros v t Iv; apply T; cbn; apply in_or_app; auto.
    - (* ENot *)
      intros a IHa pushed S g m1 full m2 Ng W1 W2 D H T. cbn in S. cbn. now rewrite (IHa _ S g m1 full m2 Ng W1 W2 D H T).
    - (* EBound *)
      intros v pushed _ g m1 full m2 _ _ _ _ H _. cbn. rewrite (H v); [reflexivity|now left].
    - (* EExists *)
      intros pos p [_ [IHx _]] pushed S g m1 full m2 Ng W1 W2 D H T.
      change (efrag names pushed (EExists pos p)) with (xfrag pushed p) in S.
      cbn [expr_td expr_bu]. unfold thaw.
      change (match eval_td ds g m1 p with [] => false | _ :: _ => true end) with (nonempty_l (eval_td ds g m1 p)).
      rewrite (IHx pushed S g m1 m2 Ng W1 W2 D H T). reflexivity.
    - (* EIn *)
      intros pos a _ cs pushed S g m1 full m2 _ _ _ _ H T. cbn in S.
      apply andb_true_iff in S as [S Nc]. apply andb_true_iff in S as [At Cn].
      destruct (atom_typed ds g m1 full m2 a At Cn) as [E Ty].
      { intros v Iv. apply H. exact Iv. }
      { intros v t Iv. apply T. cbn. apply in_or_app. now left. }
      cbn. rewrite E. destruct (expr_bu ds g m2 a) as [t|] eqn:B; [|reflexivity].
      rewrite (in3_nb t cs (Ty t eq_refl) Nc). reflexivity.
    - (* ECoalesce *)
      intros a IHa b IHb pushed S g m1 full m2 Ng W1 W2 D H T. cbn in S. apply andb_true_iff in S as [S1 S2]. cbn.
      rewrite (IHa _ S1 g m1 full m2 Ng W1 W2 D), (IHb _ S2 g m1 full m2 Ng W1 W2 D); [reflexivity| | | |];
        try (intros v Iv; apply H; cbn; apply in_or_app; auto);
        intros v t Iv; apply T; cbn; apply in_or_app; auto.
    - (* EIf *)
      intros c IHc a IHa b IHb pushed S g m1 full m2 Ng W1 W2 D H T. cbn in S.
      apply andb_true_iff in S as [S S3]. apply andb_true_iff in S as [S1 S2]. cbn.
      rewrite (IHc _ S1 g m1 full m2 Ng W1 W2 D), (IHa _ S2 g m1 full m2 Ng W1 W2 D), (IHb _ S3 g m1 full m2 Ng W1 W2 D);
        [reflexivity| | | | | |];
        try (intros v Iv; apply H; cbn; repeat (apply in_or_app; auto; right); auto);
        try (intros v t Iv; apply T; cbn; repeat (apply in_or_app; auto; right); auto).
  Qed.

  Theorem pushdown p : forall pushed, frag names pushed p = true ->
    forall g c, gok g -> sol_wf c = true -> dom_in c pushed ->
    Permutation (eval_td ds g c p) (join_ctx c (eval_bu ds g p)).
  Proof. exact (proj1 (proj1 pushdown_mut p)). Qed.


  Theorem expr_agree e : PE e.
  Proof. exact (proj2 pushdown_mut e). Qed.
End PD.

