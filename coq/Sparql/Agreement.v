(* C04_join (hash join), C04_pushdown on the fragment, and the tie theorem. *)
From RV Require Export Sparql.Nodup.
Local Open Scope N_scope.

Definition graphs_nodup (ds : dataset) : Prop :=
  NoDup (map fst (ds_named ds)) /\ forall ng, In ng (ds_named ds) -> NoDup (snd ng).

Lemma named_graph_NoDup named t :
  (forall ng : term * graph, In ng named -> NoDup (snd ng)) -> NoDup (named_graph named t).
Proof.
  induction named as [|[n gr] r IH]; intros H; cbn; [constructor|].
  destruct (N.eqb n t); [apply (H (n, gr)); now left|apply IH; intros; apply H; now right].
Qed.

Lemma fst_inj_nodup {A B} (l : list (A * B)) a b :
  NoDup (map fst l) -> In a l -> In b l -> fst a = fst b -> a = b.
Proof.
  induction l as [|x l IH]; intros N Ia Ib E; [destruct Ia|].
  cbn in N. inversion N as [|? ? Nx N']; subst.
  destruct Ia as [->|Ia], Ib as [->|Ib]; auto.
  - exfalso. apply Nx. rewrite E. now apply in_map.
  - exfalso. apply Nx. rewrite <- E. now apply in_map.
Qed.

Lemma uniform_single y : uniform [y].
Proof. intros m m' [<-|[]] [<-|[]] v. tauto. Qed.

Lemma df_sound ds p : shape p = true -> df p = true -> graphs_nodup ds ->
  forall g, NoDup g -> NoDup (eval_bu ds g p).
Proof.
  intros S D [Nn Ng]. induction p; cbn [shape] in S; try discriminate; cbn [df] in D; intros g0 N0; cbn [eval_bu].
  - apply NoDup_bgp_ext; [exact N0|reflexivity].
  - apply andb_true_iff in S as [S1 S2].
    apply andb_true_iff in D as [D U2]. apply andb_true_iff in D as [D U1]. apply andb_true_iff in D as [D1 D2].
    apply NoDup_join_lists; auto using bu_wf, un_sound.
  - apply NoDup_filter'. auto.
  - now apply nodup_rows_NoDup.
  - destruct g as [t|v].
    + destruct (existsb _ _); [|constructor]. apply IHp; auto. now apply named_graph_NoDup.
    + apply andb_true_iff in D as [D U].
      apply NoDup_flat_map.
      * eapply NoDup_map_inv; eauto.
      * intros ng I. apply NoDup_join_lists; auto using bu_wf, un_sound, uniform_single.
        -- intros m [<-|[]]. reflexivity.
        -- repeat constructor. intros [].
      * intros ng ng' x I I' Dn H H'.
        apply in_join_lists in H as [m [y [Im [[<-|[]] [C ->]]]]].
        apply in_join_lists in H' as [m' [y' [Im' [[<-|[]] [C' E]]]]].
        apply Dn. apply (fst_inj_nodup (ds_named ds)); auto.
        assert (L : lookup v (merge m [(v, fst ng)]) = Some (fst ng)).
        { rewrite lookup_merge by reflexivity. cbn. now rewrite N.eqb_refl. }
        rewrite E, lookup_merge in L by reflexivity. cbn in L. rewrite N.eqb_refl in L. congruence.
Qed.

(* ---- set(...) on a duplicate-free list ---- *)
Lemma filter_all {A} (f : A -> bool) l : (forall x, In x l -> f x = true) -> filter f l = l.
Proof.
  induction l as [|a l IH]; intros H; cbn; [reflexivity|].
  rewrite (H a) by now left. f_equal. apply IH. intros; apply H; now right.
Qed.

Lemma dedup_NoDup L : NoDup L -> dedup L = L.
Proof.
  induction 1 as [|x r Nx N IH]; cbn; [reflexivity|]. rewrite IH. f_equal.
  apply filter_all. intros y I. apply negb_true_iff.
  destruct (sol_eqb x y) eqn:E; [|reflexivity]. apply sol_eqb_eq in E. subst. contradiction.
Qed.

Lemma join_lists_perm_r A B B' : Permutation B B' -> Permutation (join_lists A B) (join_lists A B').
Proof.
  intros P. unfold join_lists. apply flat_map_perm_pointwise. intros x _. now apply Permutation_flat_map.
Qed.

(* ---- hash join of two context-restricted lists ---- *)
Lemma hash_join_elem c m1 m2 :
  sol_wf c = true -> sol_wf m1 = true -> sol_wf m2 = true -> compatible m1 c = true ->
  (if compatible m2 c
   then (if compatible (merge c m1) (merge c m2) then [merge (merge c m1) (merge c m2)] else [])
   else [])
  = (if compatible (merge c m1) m2 then [merge (merge c m1) m2] else []).
Proof.
  intros Wc W1 W2 C1.
  assert (Wa : sol_wf (merge c m1) = true) by (apply wf_merge, Wc).
  assert (Sa : sub_sol c (merge c m1)) by (apply sub_sol_merge_l; assumption).
  assert (Cac : compat_prop (merge c m1) c).
  { intros v t u La Lc. apply Sa in Lc. congruence. }
  destruct (compatible m2 c) eqn:C2.
  - pose proof (proj1 (compatible_spec _ _ W2) C2) as P2.
    assert (W2c : sol_wf (merge c m2) = true) by (apply wf_merge, Wc).
    assert (K : compat_prop (merge c m1) (merge c m2) <-> compat_prop (merge c m1) m2).
    { rewrite compat_merge_iff; auto; [tauto|now apply compat_prop_sym]. }
    apply if_compat_ext; auto.
    intros _. f_equal. rewrite <- merge_assoc by assumption. f_equal.
    apply merge_absorb; auto.
  - destruct (compatible (merge c m1) m2) eqn:Ca; [|reflexivity].
    apply (compatible_spec _ _ Wa) in Ca.
    assert (compat_prop m2 c).
    { apply compat_prop_sym. eapply compat_sub_l; [exact Sa|exact Ca]. }
    apply (compatible_spec _ _ W2) in H. congruence.
Qed.

Lemma hash_join_lists c L1 L2 :
  sol_wf c = true -> all_wf L1 -> all_wf L2 ->
  join_lists (join_ctx c L1) (join_ctx c L2) = join_ctx c (join_lists L1 L2).
Proof.
  intros Wc A1 A2. unfold join_lists. rewrite join_ctx_flat_map.
  change (join_ctx c L1) with (flat_map (fun m => if compatible m c then [merge c m] else []) L1).
  rewrite flat_map_flat_map.
  apply flat_map_ext_in. intros m1 I1. rewrite join_ctx_flat_map.
  destruct (compatible m1 c) eqn:C1.
  - cbn [flat_map]. rewrite app_nil_r.
    change (join_ctx c L2) with (flat_map (fun m => if compatible m c then [merge c m] else []) L2).
    rewrite flat_map_flat_map.
    apply flat_map_ext_in. intros m2 I2.
    pose proof (hash_join_elem c m1 m2 Wc (A1 _ I1) (A2 _ I2) C1) as E.
    pose proof (join_elem_core c m1 m2 Wc (A1 _ I1) (A2 _ I2)) as E2. rewrite C1 in E2.
    transitivity (if compatible (merge c m1) m2 then [merge (merge c m1) m2] else []).
    + rewrite <- E. destruct (compatible m2 c); cbn [flat_map]; rewrite ?app_nil_r; reflexivity.
    + rewrite E2. destruct (compatible m1 m2); [|reflexivity]. cbn. now rewrite app_nil_r.
  - cbn [flat_map]. symmetry. apply flat_map_all_nil. intros m2 I2.
    pose proof (join_elem_core c m1 m2 Wc (A1 _ I1) (A2 _ I2)) as E2. rewrite C1 in E2.
    destruct (compatible m1 m2); [|reflexivity]. rewrite join_ctx_cons.
    change (join_ctx c []) with (@nil sol). rewrite app_nil_r. now rewrite <- E2.
Qed.

Lemma join_ctx_nil L : all_wf L -> join_ctx [] L = L.
Proof.
  induction L as [|m L IH]; intros W; [reflexivity|].
  rewrite join_ctx_cons, compatible_nil_r. rewrite merge_nil_l by (apply W; now left).
  cbn [app]. f_equal. apply IH. intros x I; apply W; now right.
Qed.
(* ---- the fragment ---- *)
Definition filter_ok (nis : bool) (fv : option (list var)) (e : expr) (q : alg) : bool :=
  expr_safe e && subsetv (evars e) (cert q)
  && (nis || match fv with Some l => subsetv (evars e) l | None => false end).

Fixpoint frag (names : list term) (pushed : list var) (p : alg) : bool :=
  match p with
  | BGP _ => true
  | Values rows => forallb sol_wf rows
  | Union a b => frag names pushed a && frag names pushed b
  | Join lz a b =>
      frag names pushed a && frag names (if lz then pushed ++ maybe a else pushed) b
      && (lz || hash_ok pushed b)
  | Filter nis fv e q => filter_ok nis fv e q && frag names pushed q
  | Graph (Tm t) q => (existsb (N.eqb t) names || needs_triple q) && frag names pushed q
  | Graph (Vr v) q => (negb (memv v pushed) || needs_triple q) && frag names pushed q
  | _ => false
  end.

Lemma frag_shape names p : forall pushed, frag names pushed p = true -> shape p = true.
Proof.
  induction p; cbn [frag shape]; try discriminate; intros pushed F.
  - reflexivity.
  - apply andb_true_iff in F as [F _]. apply andb_true_iff in F as [F1 F2].
    rewrite (IHp1 _ F1), (IHp2 _ F2). reflexivity.
  - apply andb_true_iff in F as [_ F]. eauto.
  - apply andb_true_iff in F as [F1 F2]. rewrite (IHp1 _ F1), (IHp2 _ F2). reflexivity.
  - exact F.
  - destruct g; apply andb_true_iff in F as [_ F]; eauto.
Qed.

Definition dom_in (c : sol) (pushed : list var) : Prop := forall v, lookup v c <> None -> In v pushed.

Lemma dom_in_nil c : dom_in c [] -> c = [].
Proof.
  destruct c as [|[v t] r]; [reflexivity|]. intros D. exfalso. apply (D v).
  cbn. rewrite N.eqb_refl. discriminate.
Qed.

Section PD.
  Variable ds : dataset.
  Hypothesis Gn : graphs_nodup ds.
  Let names := map fst (ds_named ds).

  Theorem pushdown p : forall pushed, frag names pushed p = true ->
    forall g c, NoDup g -> sol_wf c = true -> dom_in c pushed ->
    Permutation (eval_td ds g c p) (join_ctx c (eval_bu ds g p)).
  Proof.
    destruct Gn as [names_nodup graphs_ok].
    induction p; cbn [frag]; try discriminate; intros pushed F g0 c Ng Wc Dc.
    - (* BGP *)
      cbn [eval_td eval_bu]. rewrite eval_bgp_ext, <- bgp_pushdown by exact Wc.
      apply bgp_ext_perm; [apply sort_ts_perm|exact Wc].
    - (* Join *)
      apply andb_true_iff in F as [F12 Fh]. apply andb_true_iff in F12 as [F1 F2].
      pose proof (frag_shape _ _ _ F1) as S1. pose proof (frag_shape _ _ _ F2) as S2.
      destruct lazy; cbn [eval_td eval_bu].
      + (* evalLazyJoin *)
        rewrite <- (lazy_join_lists c _ _ Wc (bu_wf ds p1 S1 g0) (bu_wf ds p2 S2 g0)).
        etransitivity.
        * apply Permutation_flat_map. apply (IHp1 pushed F1 g0 c Ng Wc Dc).
        * apply flat_map_perm_pointwise. intros a Ia. apply Permutation_map.
          apply in_join_ctx in Ia as [m1 [I1 [C1 ->]]].
          assert (W1 := bu_wf ds p1 S1 g0 m1 I1).
          assert (Sa : sub_sol c (merge c m1)) by (apply sub_sol_merge_l; assumption).
          rewrite (thaw_ext c _ Sa).
          apply (IHp2 (pushed ++ maybe p1) F2 g0 (merge c m1) Ng); [apply wf_merge, Wc|].
          intros v Hv. rewrite lookup_merge in Hv by exact W1. apply in_or_app.
          destruct (lookup v m1) eqn:L1.
          -- right. eapply maybe_sound; eauto. congruence.
          -- left. now apply Dc.
      + (* hash join: a = evalPart(ctx, p1); b = set(evalPart(ctx, p2)); _join(a, b) *)
        cbn in Fh. unfold hash_ok in Fh. apply andb_true_iff in Fh as [Df Uh].
        pose proof (IHp1 pushed F1 g0 c Ng Wc Dc) as P1.
        pose proof (IHp2 pushed F2 g0 c Ng Wc Dc) as P2.
        assert (Nb : NoDup (eval_bu ds g0 p2)) by (apply df_sound; auto; split; auto).
        assert (N2 : NoDup (join_ctx c (eval_bu ds g0 p2))).
        { apply orb_true_iff in Uh as [U|E].
          - apply NoDup_join_ctx; auto using bu_wf, un_sound.
          - assert (pushed = []) by (destruct pushed; [reflexivity|discriminate]). subst pushed.
            rewrite (dom_in_nil c Dc), join_ctx_nil by (apply bu_wf, S2). exact Nb. }
        assert (N2' : NoDup (eval_td ds g0 c p2)).
        { eapply Permutation_NoDup; [symmetry; exact P2|exact N2]. }
        rewrite (dedup_NoDup _ N2').
        rewrite <- (hash_join_lists c _ _ Wc (bu_wf ds p1 S1 g0) (bu_wf ds p2 S2 g0)).
        etransitivity; [apply join_lists_perm_l; exact P1|apply join_lists_perm_r; exact P2].
    - (* Filter *)
      apply andb_true_iff in F as [FO F]. unfold filter_ok in FO.
      apply andb_true_iff in FO as [FO Fv]. apply andb_true_iff in FO as [Se Ce].
      pose proof (frag_shape _ _ _ F) as S. cbn [eval_td eval_bu].
      rewrite <- (filter_join_ctx c
                   (fun s => ebv (expr_td ds g0 (if nis then s else forget s c fvars) s e))
                   (fun m => ebv (expr_bu ds g0 m e))).
      + apply Permutation_filter'. apply (IHp pushed F g0 c Ng Wc Dc).
      + intros m I Cm. assert (Wm := bu_wf ds p S g0 m I).
        destruct (expr_safe_agree ds g0 (merge c m) e
                    (if nis then merge c m else forget (merge c m) c fvars) m Se) as [b [T B]].
        * intros v Iv. rewrite subsetv_in in Ce.
          pose proof (cert_sound ds p S g0 m v I (Ce v Iv)) as Nn. split; [|exact Nn].
          assert (Ls : lookup v (merge c m) = lookup v m).
          { rewrite lookup_merge by exact Wm. destruct (lookup v m); [reflexivity|congruence]. }
          destruct nis; [exact Ls|]. cbn in Fv. destruct fvars as [fv|]; [|discriminate].
          unfold forget. rewrite lookup_restrict. rewrite subsetv_in in Fv.
          rewrite (proj2 (memv_in v fv) (Fv v Iv)). exact Ls.
        * rewrite T, B. reflexivity.
    - (* Union *)
      apply andb_true_iff in F as [F1 F2]. apply td_union; eauto.
    - (* Values *)
      rewrite td_values. reflexivity.
    - (* Graph *)
      destruct g as [t|v]; apply andb_true_iff in F as [Fg F];
        pose proof (frag_shape _ _ _ F) as S; cbn [eval_td eval_bu ctx_get].
      + (* an IRI *)
        fold names in Fg. unfold names in Fg. rewrite existsb_names in Fg.
        destruct (existsb (fun ng : N * graph => N.eqb (fst ng) t) (ds_named ds)) eqn:Ex.
        * apply (IHp pushed F _ c (named_graph_NoDup _ t graphs_ok) Wc Dc).
        * cbn in Fg. rewrite (named_graph_absent _ _ Ex).
          rewrite (IHp pushed F [] c (NoDup_nil _) Wc Dc), (needs_triple_empty ds p S Fg). reflexivity.
      + (* a variable *)
        destruct (lookup v c) as [t|] eqn:Lv.
        * (* bound by the context *)
          assert (Nt : needs_triple p = true).
          { destruct (memv v pushed) eqn:M; [exact Fg|].
            assert (In v pushed) by (apply Dc; congruence). apply memv_in in H. congruence. }
          rewrite join_ctx_flat_map.
          rewrite (flat_map_named _ (fun gr => join_ctx c (eval_bu ds gr p)) (ds_named ds) t names_nodup).
          -- destruct (existsb (fun ng : N * graph => N.eqb (fst ng) t) (ds_named ds)) eqn:Ex.
             ++ apply (IHp pushed F _ c (named_graph_NoDup _ t graphs_ok) Wc Dc).
             ++ rewrite (named_graph_absent _ _ Ex).
                rewrite (IHp pushed F [] c (NoDup_nil _) Wc Dc), (needs_triple_empty ds p S Nt). reflexivity.
          -- intros ng _ D. apply graph_bound_other with (t := t); auto. apply bu_wf, S.
          -- intros ng _ E. rewrite E. apply graph_bound_same; auto. apply bu_wf, S.
        * (* unbound: every named graph *)
          rewrite join_ctx_flat_map. apply flat_map_perm_pointwise. intros ng Ing.
          rewrite <- join_single_ctx; [|exact Wc|apply bu_wf, S|reflexivity].
          apply join_lists_perm_l. apply (IHp pushed F _ c (graphs_ok ng Ing) Wc Dc).
  Qed.
End PD.
