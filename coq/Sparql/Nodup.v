(* Duplicate-freeness of bottom-up solution lists: what makes the set() of the
   hash join (evalJoin, non-lazy) harmless. *)
From RV Require Export Sparql.Main.
Local Open Scope N_scope.

Lemma NoDup_app_intro {A} (l1 l2 : list A) :
  NoDup l1 -> NoDup l2 -> (forall x, In x l1 -> In x l2 -> False) -> NoDup (l1 ++ l2).
Proof.
  induction l1 as [|a l1 IH]; intros N1 N2 D; cbn; [exact N2|].
  inversion N1 as [|? ? Na N1']; subst. constructor.
  - intros I. apply in_app_or in I as [I|I]; [now apply Na|]. apply (D a); [now left|exact I].
  - apply IH; auto. intros x I1 I2. apply (D x); [now right|exact I2].
Qed.

Lemma NoDup_flat_map {A B} (f : A -> list B) l :
  NoDup l -> (forall a, In a l -> NoDup (f a)) ->
  (forall a a' x, In a l -> In a' l -> a <> a' -> In x (f a) -> In x (f a') -> False) ->
  NoDup (flat_map f l).
Proof.
  induction l as [|a l IH]; intros N P D; cbn; [constructor|].
  inversion N as [|? ? Na N']; subst. apply NoDup_app_intro.
  - apply P. now left.
  - apply IH; auto.
    + intros; apply P; now right.
    + intros a1 a2 x I1 I2. apply D; now right.
  - intros x I1 I2. apply in_flat_map in I2 as [a' [Ia' I2]].
    apply (D a a' x); auto; [now left|now right|]. intros ->. now apply Na.
Qed.

Lemma NoDup_filter' {A} (f : A -> bool) l : NoDup l -> NoDup (filter f l).
Proof.
  induction 1 as [|a l Na N IH]; cbn; [constructor|].
  destruct (f a); [|exact IH]. constructor; [|exact IH].
  intros I. apply filter_In in I. now apply Na.
Qed.

(* ---- uniform domains ---- *)
Definition same_dom (m m' : sol) : Prop := forall v, lookup v m = None <-> lookup v m' = None.
Definition uniform (L : list sol) : Prop := forall m m', In m L -> In m' L -> same_dom m m'.

(* if m and m' have the same domain and agree wherever m is bound, they are equal *)
Lemma same_dom_ext m m' :
  sol_wf m = true -> sol_wf m' = true -> same_dom m m' ->
  (forall v t, lookup v m = Some t -> lookup v m' = Some t) -> m = m'.
Proof.
  intros W W' S H. apply sol_ext; auto. intros v.
  destruct (lookup v m) as [t|] eqn:L; [symmetry; now apply H|].
  symmetry. now apply S.
Qed.

Lemma merge_inj_r x y y' :
  sol_wf y = true -> sol_wf y' = true -> same_dom y y' -> merge x y = merge x y' -> y = y'.
Proof.
  intros W W' S E. apply same_dom_ext; auto. intros v t L.
  assert (H : lookup v (merge x y) = Some t) by (rewrite lookup_merge by exact W; now rewrite L).
  rewrite E, lookup_merge in H by exact W'.
  destruct (lookup v y') eqn:L'; [exact H|]. apply S in L'. congruence.
Qed.

Lemma merge_inj_l x x' y y' :
  sol_wf x = true -> sol_wf x' = true -> sol_wf y = true -> sol_wf y' = true ->
  same_dom x x' -> compatible x y = true -> compatible x' y' = true ->
  merge x y = merge x' y' -> x = x'.
Proof.
  intros Wx Wx' Wy Wy' S C C' E.
  apply (compatible_spec _ _ Wx) in C. apply (compatible_spec _ _ Wx') in C'.
  assert (K : forall a b, sol_wf a = true -> sol_wf b = true -> compat_prop a b ->
              forall v t, lookup v a = Some t -> lookup v (merge a b) = Some t).
  { intros a b Wa Wb Cab v t L. rewrite lookup_merge by exact Wb.
    destruct (lookup v b) eqn:Lb; [|exact L]. f_equal. symmetry. eapply Cab; eauto. }
  apply same_dom_ext; auto. intros v t L.
  pose proof (K x y Wx Wy C v t L) as H. rewrite E in H.
  destruct (lookup v x') as [t'|] eqn:L'; [|apply S in L'; congruence].
  rewrite (K x' y' Wx' Wy' C' v t' L') in H. congruence.
Qed.

Lemma NoDup_join_lists L1 L2 :
  all_wf L1 -> all_wf L2 -> NoDup L1 -> NoDup L2 -> uniform L1 -> uniform L2 ->
  NoDup (join_lists L1 L2).
Proof.
  intros W1 W2 N1 N2 U1 U2. unfold join_lists. apply NoDup_flat_map; [exact N1| |].
  - intros x Ix. apply NoDup_flat_map; [exact N2| |].
    + intros y _. destruct (compatible x y); repeat constructor. intros [].
    + intros y y' m Iy Iy' D I I'.
      destruct (compatible x y); [|destruct I]. destruct (compatible x y'); [|destruct I'].
      destruct I as [<-|[]]. destruct I' as [E|[]]. apply D.
      symmetry. eapply merge_inj_r; eauto.
  - intros x x' m Ix Ix' D I I'.
    apply in_flat_map in I as [y [Iy I]]. apply in_flat_map in I' as [y' [Iy' I']].
    destruct (compatible x y) eqn:C; [|destruct I]. destruct (compatible x' y') eqn:C'; [|destruct I'].
    destruct I as [<-|[]]. destruct I' as [E|[]]. apply D.
    symmetry. eapply (merge_inj_l x' x y' y); eauto.
Qed.

Lemma NoDup_join_ctx c L :
  sol_wf c = true -> all_wf L -> NoDup L -> uniform L -> NoDup (join_ctx c L).
Proof.
  intros Wc W N U. unfold join_ctx. apply NoDup_flat_map; [exact N| |].
  - intros m _. destruct (compatible m c); repeat constructor. intros [].
  - intros m m' x I I' D H H'.
    destruct (compatible m c); [|destruct H]. destruct (compatible m' c); [|destruct H'].
    destruct H as [<-|[]]. destruct H' as [E|[]]. apply D. symmetry. eapply merge_inj_r; eauto.
Qed.

(* ---- BGP ---- *)
Definition tv_val (c : sol) (x : tv) : option term :=
  match x with Tm u => Some u | Vr v => lookup v c end.

Lemma unify_val c x t c' : unify c x t = Some c' -> tv_val c' x = Some t.
Proof.
  destruct x as [u|v]; cbn.
  - destruct (N.eqb u t) eqn:E; [|discriminate]. intros _. apply N.eqb_eq in E. now subst.
  - destruct (lookup v c) as [z|] eqn:L.
    + destruct (N.eqb z t) eqn:E; [|discriminate]. intros [= <-]. apply N.eqb_eq in E. now subst.
    + intros [= <-]. apply lookup_bind_same.
Qed.

Lemma tv_val_sub c c' x t : sub_sol c c' -> tv_val c x = Some t -> tv_val c' x = Some t.
Proof. destruct x; cbn; auto. Qed.

Lemma ext_vals c s p o a b d c' :
  ext c (s, p, o) (a, b, d) = Some c' ->
  tv_val c' s = Some a /\ tv_val c' p = Some b /\ tv_val c' o = Some d.
Proof.
  cbn. destruct (unify c s a) as [c1|] eqn:U1; [|discriminate].
  destruct (unify c1 p b) as [c2|] eqn:U2; [|discriminate]. intros U3.
  pose proof (unify_sub _ _ _ _ U2) as S2. pose proof (unify_sub _ _ _ _ U3) as S3.
  repeat split.
  - eapply tv_val_sub; [exact S3|]. eapply tv_val_sub; [exact S2|]. eapply unify_val; eauto.
  - eapply tv_val_sub; [exact S3|]. eapply unify_val; eauto.
  - eapply unify_val; eauto.
Qed.

Lemma ext_conflict c tp tr tr' m1 m1' x :
  ext c tp tr = Some m1 -> ext c tp tr' = Some m1' -> tr <> tr' ->
  sub_sol m1 x -> sub_sol m1' x -> False.
Proof.
  destruct tp as [[s p] o], tr as [[a b] d], tr' as [[a' b'] d'].
  intros E E' D S S'.
  destruct (ext_vals _ _ _ _ _ _ _ _ E) as [Vs [Vp Vo]].
  destruct (ext_vals _ _ _ _ _ _ _ _ E') as [Vs' [Vp' Vo']].
  assert (K : forall z t t', tv_val m1 z = Some t -> tv_val m1' z = Some t' -> t = t').
  { intros z t t' H H'. apply (tv_val_sub _ _ _ _ S) in H. apply (tv_val_sub _ _ _ _ S') in H'. congruence. }
  apply D. f_equal; [f_equal|]; eapply K; eauto.
Qed.

Lemma nodup_graph_NoDup g : nodup_graph g = true -> NoDup g.
Proof.
  induction g as [|t r IH]; cbn; [constructor|]. intros H. apply andb_true_iff in H as [H1 H2].
  constructor; [|auto]. intros I. apply mem_triple_in in I. rewrite I in H1. discriminate.
Qed.

Lemma NoDup_bgp_ext g ts : NoDup g -> forall m0, sol_wf m0 = true -> NoDup (bgp_ext g m0 ts).
Proof.
  intros Ng. induction ts as [|tp r IH]; intros m0 W; cbn.
  - repeat constructor. intros [].
  - apply NoDup_flat_map; [exact Ng| |].
    + intros tr _. destruct (ext m0 tp tr) eqn:E; [|constructor]. apply IH. eapply ext_wf; eauto.
    + intros tr tr' x _ _ D I I'.
      destruct (ext m0 tp tr) as [m1|] eqn:E; [|destruct I].
      destruct (ext m0 tp tr') as [m1'|] eqn:E'; [|destruct I'].
      eapply (ext_conflict m0 tp tr tr' m1 m1' x); eauto.
      * eapply bgp_ext_inv; [|exact I]. eapply ext_wf; eauto.
      * eapply bgp_ext_inv; [|exact I']. eapply ext_wf; eauto.
Qed.

(* ---- syntactic analysis: dup-free / uniform ---- *)
Lemma nodup_rows_NoDup rows : nodup_rows rows = true -> NoDup rows.
Proof.
  induction rows as [|r rs IH]; cbn; [constructor|]. intros H. apply andb_true_iff in H as [H1 H2].
  constructor; [|auto]. intros I. apply negb_true_iff in H1. unfold mem_sol in H1.
  assert (existsb (sol_eqb r) rs = true).
  { apply existsb_exists. exists r. split; [exact I|]. now apply sol_eqb_eq. }
  congruence.
Qed.

Lemma un_sound ds p : shape p = true -> un p = true -> forall g, uniform (eval_bu ds g p).
Proof.
  intros S U g m m' I I' v. unfold un in U. rewrite subsetv_in in U. split; intros L.
  - destruct (lookup v m') eqn:L'; [|reflexivity].
    assert (In v (maybe p)) by (apply (maybe_sound ds p S g m' v I'); congruence).
    exfalso. eapply (cert_sound ds p S g m v I); auto.
  - destruct (lookup v m) eqn:L'; [|reflexivity].
    assert (In v (maybe p)) by (apply (maybe_sound ds p S g m v I); congruence).
    exfalso. eapply (cert_sound ds p S g m' v I'); auto.
Qed.
